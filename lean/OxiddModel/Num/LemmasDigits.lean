import OxiddModel.Num.LemmasBits

/-!
Digit lists (little endian, base `2^64`): value, bounds, the normal form of `Natural`.
-/
namespace OxiddModel.Num
open Natural

/-- all digits are `u64`s -/
def digitsOk (ds : List Nat) : Prop := ∀ d ∈ ds, d < B

theorem digitsOk_nil : digitsOk [] := by intro d h; cases h

theorem digitsOk_cons {d : Nat} {ds : List Nat} : digitsOk (d :: ds) ↔ d < B ∧ digitsOk ds := by
  simp [digitsOk]

theorem digitsOk_append {a b : List Nat} : digitsOk (a ++ b) ↔ digitsOk a ∧ digitsOk b := by
  simp only [digitsOk, List.mem_append]
  constructor
  · intro h; exact ⟨fun d hd => h d (Or.inl hd), fun d hd => h d (Or.inr hd)⟩
  · rintro ⟨h1, h2⟩ d (hd | hd)
    · exact h1 d hd
    · exact h2 d hd

theorem digitsOk_take {ds : List Nat} (h : digitsOk ds) (k : Nat) : digitsOk (ds.take k) :=
  fun d hd => h d (List.mem_of_mem_take hd)

theorem digitsOk_drop {ds : List Nat} (h : digitsOk ds) (k : Nat) : digitsOk (ds.drop k) :=
  fun d hd => h d (List.mem_of_mem_drop hd)

theorem digitsOk_replicate_zero (k : Nat) : digitsOk (List.replicate k 0) := by
  intro d hd
  rw [List.mem_replicate] at hd
  rw [hd.2]; exact B_pos

theorem B_pow (n : Nat) : B ^ n = 2 ^ (64 * n) := by
  rw [B_eq, ← Nat.pow_mul]

theorem B_pow_pos (n : Nat) : 0 < B ^ n := Nat.pow_pos B_pos

@[simp] theorem dval_nil : dval [] = 0 := rfl
@[simp] theorem dval_cons (d : Nat) (ds : List Nat) : dval (d :: ds) = d + B * dval ds := rfl

theorem dval_append (a b : List Nat) : dval (a ++ b) = dval a + B ^ a.length * dval b := by
  induction a with
  | nil => simp
  | cons d a ih =>
    simp only [List.cons_append, dval_cons, ih, List.length_cons, Nat.pow_succ]
    rw [Nat.mul_add, Nat.add_assoc, Nat.mul_comm (B ^ a.length) B, Nat.mul_assoc]

theorem dval_replicate_zero (k : Nat) : dval (List.replicate k 0) = 0 := by
  induction k with
  | zero => rfl
  | succ k ih => simp [List.replicate_succ, ih]

theorem dval_lt {ds : List Nat} (h : digitsOk ds) : dval ds < B ^ ds.length := by
  induction ds with
  | nil => simp
  | cons d ds ih =>
    rw [digitsOk_cons] at h
    have := ih h.2
    simp only [dval_cons, List.length_cons, Nat.pow_succ]
    have h2 : B * (dval ds + 1) ≤ B * B ^ ds.length := Nat.mul_le_mul_left _ this
    rw [Nat.mul_add, Nat.mul_one] at h2
    rw [Nat.mul_comm (B ^ ds.length) B]
    omega

theorem dval_take_add_drop (ds : List Nat) (k : Nat) (hk : k ≤ ds.length) :
    dval ds = dval (ds.take k) + B ^ k * dval (ds.drop k) := by
  have h := dval_append (ds.take k) (ds.drop k)
  rw [List.take_append_drop, List.length_take, Nat.min_eq_left hk] at h
  exact h

/-- overflow beyond the available digits must vanish when the exact value fits -/
theorem no_overflow {out : List Nat} {E V : Nat} (h : dval out + B ^ out.length * E = V)
    (hV : V < B ^ out.length) : E = 0 ∧ dval out = V := by
  have hE : E = 0 := by
    apply Classical.byContradiction
    intro hne
    have : B ^ out.length ≤ B ^ out.length * E := Nat.le_mul_of_pos_right _ (Nat.pos_of_ne_zero hne)
    omega
  subst hE
  simp at h
  exact ⟨rfl, h⟩

/-! ### bounds from the most significant digit -/

@[simp] theorem getLastD_singleton (a d : Nat) : [a].getLastD d = a := rfl

theorem getLastD_cons_cons (a b : Nat) (l : List Nat) (d : Nat) :
    (a :: b :: l).getLastD d = (b :: l).getLastD d := by
  simp [List.getLastD]

/-- `dval ds < 2^(bit_width(ds, 0))` -/
theorem dval_lt_two_pow : ∀ (ds : List Nat), ds ≠ [] → digitsOk ds →
    dval ds < 2 ^ (64 * ds.length - lz64 (ds.getLastD 0))
  | [], h, _ => absurd rfl h
  | [d], _, hok => by
    have hd : d < B := hok d (by simp)
    have := lz64_add_bitLen hd
    simp only [dval_cons, dval_nil, List.length_singleton, getLastD_singleton]
    rw [show 64 * 1 - lz64 d = bitLen d by omega]
    have := lt_two_pow_bitLen d
    omega
  | d :: e :: l, _, hok => by
    rw [digitsOk_cons] at hok
    have ih := dval_lt_two_pow (e :: l) (by simp) hok.2
    rw [getLastD_cons_cons]
    have hlz := lz64_le ((e :: l).getLastD 0)
    have hlen : (d :: e :: l).length = (e :: l).length + 1 := rfl
    rw [hlen, show 64 * ((e :: l).length + 1) - lz64 ((e :: l).getLastD 0)
        = 64 + (64 * (e :: l).length - lz64 ((e :: l).getLastD 0)) by
          have : 1 ≤ (e :: l).length := by simp
          omega, Nat.pow_add, ← B_eq]
    rw [dval_cons]
    have h2 : B * (dval (e :: l) + 1) ≤ B * 2 ^ (64 * (e :: l).length - lz64 ((e :: l).getLastD 0)) :=
      Nat.mul_le_mul_left _ ih
    rw [Nat.mul_add, Nat.mul_one] at h2
    omega

/-- lower bound when the top digit is not zero -/
theorem two_pow_le_dval : ∀ (ds : List Nat), ds.getLastD 0 ≠ 0 →
    2 ^ (64 * ds.length - lz64 (ds.getLastD 0) - 1) ≤ dval ds
  | [], h => by simp at h
  | [d], h => by
    simp only [getLastD_singleton] at h
    simp only [dval_cons, dval_nil, List.length_singleton, getLastD_singleton]
    have h1 := two_pow_bitLen_le h
    have h2 : lz64 d = 64 - bitLen d := rfl
    have h3 := bitLen_pos h
    by_cases hb : bitLen d ≤ 64
    · rw [show 64 * 1 - lz64 d - 1 = bitLen d - 1 by omega]; omega
    · have : 64 * 1 - lz64 d - 1 ≤ bitLen d - 1 := by omega
      have := Nat.pow_le_pow_right (show 0 < 2 by decide) this
      omega
  | d :: e :: l, h => by
    rw [getLastD_cons_cons] at h ⊢
    have ih := two_pow_le_dval (e :: l) h
    have hlz := lz64_le ((e :: l).getLastD 0)
    have hlen : (d :: e :: l).length = (e :: l).length + 1 := rfl
    have hpos : lz64 ((e :: l).getLastD 0) < 64 := by
      have := @lz64_eq_64_iff ((e :: l).getLastD 0)
      omega
    rw [hlen, show 64 * ((e :: l).length + 1) - lz64 ((e :: l).getLastD 0) - 1
        = 64 + (64 * (e :: l).length - lz64 ((e :: l).getLastD 0) - 1) by
          have : 1 ≤ (e :: l).length := by simp
          omega, Nat.pow_add, ← B_eq, dval_cons]
    have := Nat.mul_le_mul_left B ih
    omega


/-! ### the normal form -/

/-- representation invariant: `check_inv` of the crate, digit ranges, and the documented
"the number represented by the array is greater than `u64::MAX`" for the heap form -/
def NF (n : Natural) : Prop :=
  n.shl ≤ MAX64 ∧
  match n.mant with
  | .inl m => m < B ∧ (m = 0 → n.shl = 0 ∨ n.shl = MAX64) ∧ (m ≠ 0 → m % 2 = 1)
  | .heap ds => 2 ≤ ds.length ∧ digitsOk ds ∧ ds.headD 0 % 2 = 1 ∧
      (ds.getLastD 0 = 0 → 2 ^ 63 ≤ ds.getD (ds.length - 2) 0) ∧ B ≤ dval ds

/-- a zero top digit forces the top bit of the digit below, by the size of the value -/
theorem top_cond (ds : List Nat) : 2 ≤ ds.length → digitsOk ds → ds.getLastD 0 = 0 →
    2 ^ (64 * (ds.length - 1) - 1) ≤ dval ds → 2 ^ 63 ≤ ds.getD (ds.length - 2) 0 := by
  induction ds with
  | nil => intro h; simp at h
  | cons d ds ih =>
    intro h2 hok ht hv
    cases ds with
    | nil => simp at h2
    | cons e ds' =>
      cases ds' with
      | nil =>
        simp only [getLastD_cons_cons, getLastD_singleton] at ht
        subst ht
        simpa using hv
      | cons f l =>
        rw [getLastD_cons_cons] at ht
        rw [digitsOk_cons] at hok
        have hlen : (d :: e :: f :: l).length = (e :: f :: l).length + 1 := rfl
        have h2' : 2 ≤ (e :: f :: l).length := by simp
        have hidx : (d :: e :: f :: l).getD ((d :: e :: f :: l).length - 2) 0
            = (e :: f :: l).getD ((e :: f :: l).length - 2) 0 := by
          rw [hlen, show (e :: f :: l).length + 1 - 2 = ((e :: f :: l).length - 2) + 1 by omega,
            List.getD_cons_succ]
        rw [hidx]
        apply ih h2' hok.2 ht
        apply Classical.byContradiction
        intro hlt
        have hlt : dval (e :: f :: l) + 1 ≤ 2 ^ (64 * ((e :: f :: l).length - 1) - 1) := by omega
        have hm := Nat.mul_le_mul_left B hlt
        rw [hlen, dval_cons] at hv
        rw [show 64 * ((e :: f :: l).length + 1 - 1) - 1 = 64 + (64 * ((e :: f :: l).length - 1) - 1) by omega,
          Nat.pow_add, ← B_eq] at hv
        have := hok.1
        rw [Nat.mul_add] at hm
        omega

/-- A digit array of `len` digits holding a value of `bl - 1` or `bl` bits, `len = ⌈bl/64⌉`, is a
valid heap mantissa. -/
theorem nf_heap_of_layout {out : List Nat} {shl bl : Nat} (hshl : shl ≤ MAX64)
    (hok : digitsOk out) (hlen : out.length = (bl + 63) / 64) (hbl : 66 ≤ bl)
    (hodd : out.headD 0 % 2 = 1) (hV : 2 ^ (bl - 2) ≤ dval out) :
    NF ⟨.heap out, shl⟩ := by
  have h2 : 2 ≤ out.length := by omega
  refine ⟨hshl, h2, hok, hodd, ?_, ?_⟩
  · intro ht
    apply top_cond out h2 hok ht
    have : 64 * (out.length - 1) - 1 ≤ bl - 2 := by omega
    exact Nat.le_trans (Nat.pow_le_pow_right (by decide) this) hV
  · have : 64 ≤ bl - 2 := by omega
    rw [B_eq]
    exact Nat.le_trans (Nat.pow_le_pow_right (by decide) this) hV


/-- lower bound from the digit below a zero top digit -/
theorem lower_of_second (ds : List Nat) : 2 ≤ ds.length → 2 ^ 63 ≤ ds.getD (ds.length - 2) 0 →
    2 ^ (64 * (ds.length - 1) - 1) ≤ dval ds := by
  induction ds with
  | nil => intro h; simp at h
  | cons d ds ih =>
    intro h2 hy
    cases ds with
    | nil => simp at h2
    | cons e ds' =>
      cases ds' with
      | nil =>
        simp at hy
        simp only [dval_cons, dval_nil, List.length_cons, List.length_nil]
        omega
      | cons f l =>
        have hlen : (d :: e :: f :: l).length = (e :: f :: l).length + 1 := rfl
        have h2' : 2 ≤ (e :: f :: l).length := by simp
        rw [hlen, show (e :: f :: l).length + 1 - 2 = ((e :: f :: l).length - 2) + 1 by omega,
          List.getD_cons_succ] at hy
        have := ih h2' hy
        rw [hlen, dval_cons,
          show 64 * ((e :: f :: l).length + 1 - 1) - 1 = 64 + (64 * ((e :: f :: l).length - 1) - 1) by omega,
          Nat.pow_add, ← B_eq]
        have := Nat.mul_le_mul_left B this
        omega

theorem B_even : B % 2 = 0 := by decide

theorem dval_mod_two (d : Nat) (ds : List Nat) : dval (d :: ds) % 2 = d % 2 := by
  rw [dval_cons, Nat.add_mod, Nat.mul_mod, B_even]; simp

/-- what the arithmetic needs to know about the digit array of a non-zero normal form -/
structure MantFacts (D : List Nat) : Prop where
  ne : D ≠ []
  ok : digitsOk D
  odd : D.headD 0 % 2 = 1
  upper : dval D < 2 ^ (64 * D.length - lz64 (D.getLastD 0))
  lower : 2 ^ (64 * D.length - lz64 (D.getLastD 0) - 1) ≤ dval D
  pos : 1 ≤ 64 * D.length - lz64 (D.getLastD 0)

theorem headD_odd_dval_odd {D : List Nat} (h : D.headD 0 % 2 = 1) : dval D % 2 = 1 := by
  cases D with
  | nil => simp at h
  | cons d ds => rw [dval_mod_two]; simpa using h

theorem nf_mant_facts {n : Natural} (h : NF n) (h0 : n.len ≠ 0) : MantFacts n.mantissaRaw := by
  obtain ⟨_, hm⟩ := h
  cases hmant : n.mant with
  | inl m =>
    rw [hmant] at hm
    simp only [Natural.len, hmant] at h0
    obtain ⟨hm1, _, hm3⟩ := hm
    have hodd := hm3 h0
    have hok : digitsOk [m] := digitsOk_cons.2 ⟨hm1, digitsOk_nil⟩
    have hup := dval_lt_two_pow [m] (by simp) hok
    have hlo := two_pow_le_dval [m] (by simpa using h0)
    simp only [Natural.mantissaRaw, hmant]
    refine ⟨by simp, hok, by simpa using hodd, hup, hlo, ?_⟩
    have := @lz64_eq_64_iff m
    have := lz64_le m
    simp only [List.length_singleton, getLastD_singleton]
    omega
  | heap ds =>
    rw [hmant] at hm
    obtain ⟨h2, hok, hodd, htop, hB⟩ := hm
    simp only [Natural.mantissaRaw, hmant]
    have hne : ds ≠ [] := by intro h; subst h; simp at h2
    have hup := dval_lt_two_pow ds hne hok
    have hlz := lz64_le (ds.getLastD 0)
    refine ⟨hne, hok, hodd, hup, ?_, by omega⟩
    by_cases hl : ds.getLastD 0 = 0
    · have := lower_of_second ds h2 (htop hl)
      rw [hl, lz64_eq_64_iff.2 rfl]
      rw [show 64 * ds.length - 64 - 1 = 64 * (ds.length - 1) - 1 by omega]
      exact this
    · exact two_pow_le_dval ds hl

theorem nf_inl_small {n : Natural} {m : Nat} (h : NF n) (hm : n.mant = .inl m) : m < B := by
  obtain ⟨_, h2⟩ := h
  rw [hm] at h2
  exact h2.1

theorem nf_heap_big {n : Natural} {ds : List Nat} (h : NF n) (hm : n.mant = .heap ds) :
    B ≤ dval ds ∧ 2 ≤ ds.length := by
  obtain ⟨_, h2⟩ := h
  rw [hm] at h2
  exact ⟨h2.2.2.2.2, h2.1⟩

end OxiddModel.Num
