import OxiddModel.Num.LemmasOps

/-!
Uniqueness of the normal form and `PartialEq`.
-/
namespace OxiddModel.Num
open Natural

/-- every non-empty list is `init ++ [last]` -/
theorem exists_snoc (ds : List Nat) (h : ds ≠ []) :
    ∃ init x, ds = init ++ [x] ∧ ds.dropLast = init ∧ ds.getLastD 0 = x := by
  induction ds with
  | nil => exact absurd rfl h
  | cons d ds ih =>
    cases ds with
    | nil => exact ⟨[], d, rfl, rfl, rfl⟩
    | cons e l =>
      obtain ⟨init, x, h1, h2, h3⟩ := ih (by simp)
      refine ⟨d :: init, x, by rw [h1]; rfl, ?_, ?_⟩
      · rw [List.dropLast_cons_cons, h2]
      · rw [getLastD_cons_cons, h3]

theorem getLastD_append_singleton (init : List Nat) (x d : Nat) : (init ++ [x]).getLastD d = x := by
  induction init generalizing d with
  | nil => rfl
  | cons a l ih =>
    cases l with
    | nil => rfl
    | cons b l' =>
      show (a :: (b :: l' ++ [x])).getLastD d = x
      rw [show (b :: l' ++ [x]) = b :: (l' ++ [x]) from rfl, List.getLastD_cons]
      exact ih b

theorem getD_append_left_last (init : List Nat) (x : Nat) (h : init ≠ []) :
    (init ++ [x]).getD ((init ++ [x]).length - 2) 0 = init.getLastD 0 := by
  induction init with
  | nil => exact absurd rfl h
  | cons a l ih =>
    cases l with
    | nil => rfl
    | cons b l' =>
      have := ih (by simp)
      rw [getLastD_cons_cons]
      simp only [List.cons_append, List.length_cons, List.length_append, List.length_nil] at this ⊢
      rw [show l'.length + (0 + 1) + 1 + 1 - 2 = (l'.length + (0 + 1) + 1 - 2) + 1 by omega,
        List.getD_cons_succ]
      exact this

/-- digits of a non-zero number without a zero top digit -/
def Canon (ds : List Nat) : Prop := digitsOk ds ∧ ds.getLastD 0 ≠ 0

theorem canon_pos {ds : List Nat} (h : Canon ds) : 0 < dval ds := by
  have := pow_le_dval_of_last_ne h.2
  have := B_pow_pos (ds.length - 1)
  omega

theorem canon_unique (a : List Nat) : ∀ (b : List Nat), Canon a → Canon b → dval a = dval b → a = b := by
  induction a with
  | nil => intro b ha; exact absurd rfl ha.2
  | cons d a ih =>
    intro b ha hb hv
    cases b with
    | nil => exact absurd rfl hb.2
    | cons e b =>
      obtain ⟨hda, hla⟩ := ha
      obtain ⟨hdb, hlb⟩ := hb
      rw [digitsOk_cons] at hda hdb
      simp only [dval_cons] at hv
      have hde : d = e := by
        have h1 : (d + B * dval a) % B = (e + B * dval b) % B := by rw [hv]
        rw [Nat.add_mul_mod_self_left, Nat.add_mul_mod_self_left, Nat.mod_eq_of_lt hda.1,
          Nat.mod_eq_of_lt hdb.1] at h1
        exact h1
      subst hde
      have hv' : dval a = dval b := by
        have : B * dval a = B * dval b := by omega
        exact Nat.eq_of_mul_eq_mul_left B_pos this
      congr 1
      cases a with
      | nil =>
        cases b with
        | nil => rfl
        | cons f b' =>
          have := canon_pos (ds := f :: b') ⟨hdb.2, by rwa [getLastD_cons_cons] at hlb⟩
          rw [dval_nil] at hv'; omega
      | cons c a' =>
        cases b with
        | nil =>
          have := canon_pos (ds := c :: a') ⟨hda.2, by rwa [getLastD_cons_cons] at hla⟩
          rw [dval_nil] at hv'; omega
        | cons f b' =>
          rw [getLastD_cons_cons] at hla hlb
          exact ih (f :: b') ⟨hda.2, hla⟩ ⟨hdb.2, hlb⟩ hv'

/-- `mantissa()` of a non-zero normal form: canonical digits of the same value -/
theorem mantissa_canon {n : Natural} (hn : NF n) (h0 : n.len ≠ 0) :
    Canon n.mantissa ∧ dval n.mantissa = dval n.mantissaRaw := by
  cases hm : n.mant with
  | inl m =>
    simp only [Natural.len, hm] at h0
    simp only [Natural.mantissa, Natural.mantissaRaw, hm]
    exact ⟨⟨digitsOk_cons.2 ⟨nf_inl_small hn hm, digitsOk_nil⟩, by simpa using h0⟩, by simp⟩
  | heap ds =>
    obtain ⟨_, hmm⟩ := hn
    rw [hm] at hmm
    obtain ⟨h2, hok, _, htop, _⟩ := hmm
    simp only [Natural.mantissa, Natural.mantissaRaw, hm]
    by_cases hl : ds.getLastD 0 = 0
    · rw [if_pos hl]
      have hne : ds ≠ [] := by intro h; rw [h] at h2; simp at h2
      obtain ⟨init, x, h1, hdl, h3⟩ := exists_snoc ds hne
      rw [hl] at h3
      subst h3
      have hine : init ≠ [] := by
        intro h; rw [h] at h1; rw [h1] at h2; simp at h2
      have hsec := htop hl
      rw [h1, getD_append_left_last init 0 hine] at hsec
      rw [hdl]
      refine ⟨⟨fun d hd => hok d (by rw [h1]; exact List.mem_append_left _ hd), ?_⟩, ?_⟩
      · intro h; rw [h] at hsec; simp at hsec
      · rw [h1, dval_append]; simp
    · rw [if_neg hl]
      exact ⟨⟨hok, hl⟩, rfl⟩

/-- `mantissa()` of zero -/
theorem mantissa_zero {n : Natural} (hn : NF n) (h0 : n.len = 0) : n.mantissa = [0] := by
  cases hm : n.mant with
  | inl m =>
    simp only [Natural.len, hm] at h0
    subst h0
    simp [Natural.mantissa, hm]
  | heap ds =>
    have := (nf_heap_big hn hm).2
    simp only [Natural.len, hm] at h0; omega

/-- `PartialEq` decides equality of the denoted values (the error value equals itself);
in particular two normal forms of the same number have the same exponent and the same
`mantissa()` -/
theorem eq_spec (a b : Natural) (ha : NF a) (hb : NF b) : a.eq b = true ↔ a.val = b.val := by
  unfold Natural.eq
  by_cases hs : a.shl = b.shl
  · rw [if_neg (by simpa using hs)]
    by_cases hnan : a.shl = MAX64
    · rw [if_pos ((isNan_iff a).2 hnan), val_of_nan hnan, val_of_nan (hs ▸ hnan)]
      simp
    · rw [if_neg (by rw [isNan_iff]; exact hnan), val_of_not_nan hnan, val_of_not_nan (hs ▸ hnan)]
      simp only [beq_iff_eq, Option.some.injEq]
      by_cases ha0 : a.len = 0
      · by_cases hb0 : b.len = 0
        · have h1 := nf_len_zero ha ha0 hnan
          have h2 := nf_len_zero hb hb0 (hs ▸ hnan)
          rw [val_of_not_nan hnan] at h1
          rw [val_of_not_nan (hs ▸ hnan)] at h2
          rw [mantissa_zero ha ha0, mantissa_zero hb hb0]
          simp only [Option.some.injEq] at h1 h2
          simp [h1, h2]
        · obtain ⟨c2, e2⟩ := mantissa_canon hb hb0
          have h1 := nf_len_zero ha ha0 hnan
          rw [val_of_not_nan hnan] at h1
          simp only [Option.some.injEq] at h1
          rw [mantissa_zero ha ha0, h1]
          constructor
          · intro h; rw [← h] at c2; exact absurd rfl c2.2
          · intro h
            have := odd_mul_two_pow_ne_zero (e := b.shl) (nf_val_odd hb hb0 (hs ▸ hnan)).1
            omega
      · obtain ⟨c1, e1⟩ := mantissa_canon ha ha0
        by_cases hb0 : b.len = 0
        · have h2 := nf_len_zero hb hb0 (hs ▸ hnan)
          rw [val_of_not_nan (hs ▸ hnan)] at h2
          simp only [Option.some.injEq] at h2
          rw [mantissa_zero hb hb0, h2]
          constructor
          · intro h; rw [h] at c1; exact absurd rfl c1.2
          · intro h
            have := odd_mul_two_pow_ne_zero (e := a.shl) (nf_val_odd ha ha0 hnan).1
            omega
        · obtain ⟨c2, e2⟩ := mantissa_canon hb hb0
          constructor
          · intro h; rw [← e1, ← e2, h, hs]
          · intro h
            rw [hs] at h
            have := Nat.eq_of_mul_eq_mul_right (Nat.two_pow_pos _) h
            exact canon_unique _ _ c1 c2 (by rw [e1, e2]; exact this)
  · rw [if_pos (by simpa using hs)]
    simp only [Bool.false_eq_true, false_iff]
    intro h
    by_cases hna : a.shl = MAX64
    · rw [val_of_nan hna] at h
      have := (val_eq_none_iff b).1 h.symm
      omega
    · by_cases hnb : b.shl = MAX64
      · rw [val_of_nan hnb] at h
        exact hna ((val_eq_none_iff a).1 h)
      · rw [val_of_not_nan hna, val_of_not_nan hnb] at h
        simp only [Option.some.injEq] at h
        by_cases ha0 : a.len = 0
        · have h1 := nf_len_zero ha ha0 hna
          rw [val_of_not_nan hna] at h1
          simp only [Option.some.injEq] at h1
          by_cases hb0 : b.len = 0
          · -- both zero: both exponents are 0
            have e1 : a.shl = 0 := by
              obtain ⟨_, hm⟩ := ha
              cases hma : a.mant with
              | inl m =>
                rw [hma] at hm; simp only [Natural.len, hma] at ha0; subst ha0
                have := hm.2.1 rfl; omega
              | heap ds => rw [hma] at hm; simp only [Natural.len, hma] at ha0; omega
            have e2 : b.shl = 0 := by
              obtain ⟨_, hm⟩ := hb
              cases hmb : b.mant with
              | inl m =>
                rw [hmb] at hm; simp only [Natural.len, hmb] at hb0; subst hb0
                have := hm.2.1 rfl; omega
              | heap ds => rw [hmb] at hm; simp only [Natural.len, hmb] at hb0; omega
            omega
          · have := odd_mul_two_pow_ne_zero (e := b.shl) (nf_val_odd hb hb0 hnb).1
            omega
        · by_cases hb0 : b.len = 0
          · have h2 := nf_len_zero hb hb0 hnb
            rw [val_of_not_nan hnb] at h2
            simp only [Option.some.injEq] at h2
            have := odd_mul_two_pow_ne_zero (e := a.shl) (nf_val_odd ha ha0 hna).1
            omega
          · have := odd_decomp_unique a.shl b.shl _ _ (nf_val_odd ha ha0 hna).1 (nf_val_odd hb hb0 hnb).1 h
            exact hs this.2

end OxiddModel.Num
