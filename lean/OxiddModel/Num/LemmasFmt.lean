import OxiddModel.Num.LemmasCmp

/-!
Textual output in binary, octal and hexadecimal: the digit string denotes the value.
-/
namespace OxiddModel.Num
open Natural

/-- value of a digit character (`0-9`, `a-f`, `A-F`) -/
def digitVal (c : Char) : Nat :=
  if '0' ≤ c ∧ c ≤ '9' then c.toNat - 48
  else if 'a' ≤ c ∧ c ≤ 'f' then c.toNat - 87
  else if 'A' ≤ c ∧ c ≤ 'F' then c.toNat - 55
  else 0

/-- positional value of a digit string, most significant digit first -/
def parseAcc (base : Nat) : Nat → List Char → Nat
  | acc, [] => acc
  | acc, c :: cs => parseAcc base (acc * base + digitVal c) cs

def parseRadix (base : Nat) (cs : List Char) : Nat := parseAcc base 0 cs

theorem parseAcc_append (base : Nat) (a b : List Char) : ∀ acc,
    parseAcc base acc (a ++ b) = parseAcc base (parseAcc base acc a) b := by
  induction a with
  | nil => intro acc; rfl
  | cons c cs ih => intro acc; simp only [List.cons_append, parseAcc, ih]

theorem parseAcc_zeros (base : Nat) (k : Nat) : ∀ acc,
    parseAcc base acc (rep k '0') = acc * base ^ k := by
  induction k with
  | zero => intro acc; simp [rep, parseAcc]
  | succ k ih =>
    intro acc
    simp only [rep, List.replicate_succ, parseAcc] at ih ⊢
    rw [ih]
    have : digitVal '0' = 0 := by decide
    rw [this, Nat.add_zero, Nat.pow_succ, Nat.mul_assoc, Nat.mul_comm base]

theorem padIntegral_default (digits : Nat) (pre body : List Char) :
    padIntegral {} digits pre body = body := by
  simp [padIntegral, rep]

theorem and_one_shl_ne_zero (d p : Nat) : (d &&& (1 <<< p) ≠ 0) ↔ d / 2 ^ p % 2 = 1 := by
  rw [Nat.one_shiftLeft]
  have h : d &&& 2 ^ p = (d / 2 ^ p % 2) * 2 ^ p := by
    apply Nat.eq_of_testBit_eq
    intro i
    rw [Nat.testBit_and, Nat.testBit_two_pow]
    rcases Nat.mod_two_eq_zero_or_one (d / 2 ^ p) with h | h
    · rw [h, Nat.zero_mul, Nat.zero_testBit]
      by_cases hi : p = i
      · subst hi
        rw [Nat.testBit_eq_decide_div_mod_eq]; simp [h]
      · simp [hi]
    · rw [h, Nat.one_mul, Nat.testBit_two_pow]
      by_cases hi : p = i
      · subst hi
        rw [Nat.testBit_eq_decide_div_mod_eq]; simp [h]
      · simp [hi]
  rw [h]
  rcases Nat.mod_two_eq_zero_or_one (d / 2 ^ p) with h' | h'
  · rw [h']; simp
  · rw [h']; simp

theorem bitsBelow_spec (d : Nat) : ∀ pos acc,
    parseAcc 2 acc (bitsBelow d pos) = acc * 2 ^ pos + d % 2 ^ pos
    ∧ (bitsBelow d pos).length = pos
    ∧ (∀ c ∈ bitsBelow d pos, c = '0' ∨ c = '1') := by
  intro pos
  induction pos with
  | zero => intro acc; simp [bitsBelow, parseAcc, Nat.mod_one]
  | succ p ih =>
    intro acc
    simp only [bitsBelow, parseAcc]
    have hb := and_one_shl_ne_zero d p
    have hmod := Nat.mod_pow_succ (x := d) (b := 2) (k := p)
    by_cases h : d &&& (1 <<< p) ≠ 0
    · rw [if_pos h]
      have h1 := hb.1 h
      obtain ⟨i1, i2, i3⟩ := ih (acc * 2 + digitVal '1')
      have : digitVal '1' = 1 := by decide
      refine ⟨?_, by simp [i2], ?_⟩
      · rw [i1, this, hmod, h1, Nat.pow_succ]
        simp only [Nat.add_mul, Nat.mul_one, Nat.one_mul]
        rw [Nat.mul_assoc, Nat.mul_comm 2]; omega
      · intro c hc
        simp only [List.mem_cons] at hc
        rcases hc with hc | hc
        · exact Or.inr hc
        · exact i3 c hc
    · rw [if_neg h]
      have h1 : d / 2 ^ p % 2 = 0 := by
        have := Nat.mod_two_eq_zero_or_one (d / 2 ^ p)
        rcases this with h' | h'
        · exact h'
        · exact absurd (hb.2 h') h
      obtain ⟨i1, i2, i3⟩ := ih (acc * 2 + digitVal '0')
      have : digitVal '0' = 0 := by decide
      refine ⟨?_, by simp [i2], ?_⟩
      · rw [i1, this, hmod, h1, Nat.pow_succ]
        simp only [Nat.mul_zero, Nat.add_zero]
        rw [Nat.mul_assoc, Nat.mul_comm 2]
      · intro c hc
        simp only [List.mem_cons] at hc
        rcases hc with hc | hc
        · exact Or.inl hc
        · exact i3 c hc

/-- the loop over the lower digits (most significant first), 64 bits each -/
theorem binLoop_spec (ds : List Nat) (hok : digitsOk ds) : ∀ acc,
    parseAcc 2 acc (binLoop ds 64) = acc * B ^ ds.length + tv ds
    ∧ (∀ c ∈ binLoop ds 64, c = '0' ∨ c = '1') := by
  induction ds with
  | nil => intro acc; simp [binLoop, parseAcc, tv]
  | cons d ds ih =>
    intro acc
    rw [digitsOk_cons] at hok
    obtain ⟨b1, _, b3⟩ := bitsBelow_spec d 64 acc
    obtain ⟨i1, i2⟩ := ih hok.2 (acc * 2 ^ 64 + d % 2 ^ 64)
    simp only [binLoop]
    refine ⟨?_, ?_⟩
    · rw [parseAcc_append, b1, i1, ← B_eq, Nat.mod_eq_of_lt hok.1]
      simp only [tv, List.length_cons, Nat.pow_succ, Nat.add_mul]
      rw [Nat.mul_assoc, Nat.mul_comm B]; omega
    · intro c hc
      rw [List.mem_append] at hc
      rcases hc with hc | hc
      · exact b3 c hc
      · exact i2 c hc


theorem bitsBelow_head (d p : Nat) (h : d / 2 ^ p % 2 = 1) : (bitsBelow d (p + 1)).head? = some '1' := by
  simp only [bitsBelow]
  rw [if_pos ((and_one_shl_ne_zero d p).2 h)]
  rfl

/-- **binary output**: the digits written by `Binary::fmt` (no flags) denote the value, use only
`0`/`1`, and have no leading zero (`"0"` for zero) -/
theorem fmtBinary_spec (n : Natural) (hn : NF n) (x : Nat) (hx : n.val = some x) :
    parseRadix 2 (n.fmtBinary {}) = x
    ∧ (∀ c ∈ n.fmtBinary {}, c = '0' ∨ c = '1')
    ∧ (x = 0 → n.fmtBinary {} = ['0'])
    ∧ (x ≠ 0 → (n.fmtBinary {}).head? = some '1') := by
  have hnn : n.shl ≠ MAX64 := by intro h; rw [val_of_nan h] at hx; cases hx
  rw [val_of_not_nan hnn] at hx
  cases hx
  unfold fmtBinary
  rw [if_neg (by rw [isNan_iff]; exact hnn)]
  simp only [padIntegral_default]
  by_cases h0 : n.len = 0
  · have hz := nf_len_zero hn h0 hnn
    rw [val_of_not_nan hnn] at hz
    simp only [Option.some.injEq] at hz
    rw [mantissa_zero hn h0, hz]
    simp [parseRadix, parseAcc]
    decide
  · obtain ⟨c, e⟩ := mantissa_canon hn h0
    obtain ⟨_, _, _, hne⟩ := canon_bounds c
    obtain ⟨init, msd, h1, _, h3⟩ := exists_snoc n.mantissa hne
    have hmsd0 : msd ≠ 0 := by rw [← h3]; exact c.2
    have hmsdB : msd < B := by apply c.1; rw [h1]; simp
    rw [if_neg (by rw [h3]; exact hmsd0), h3]
    have hrev : n.mantissa.reverse = msd :: init.reverse := by rw [h1]; simp
    rw [hrev]
    simp only [binLoop]
    have hlz := lz64_add_bitLen hmsdB
    have hpos : 64 - lz64 msd = bitLen msd := by omega
    rw [hpos]
    have hblpos := bitLen_pos hmsd0
    obtain ⟨b1, _, b3⟩ := bitsBelow_spec msd (bitLen msd) 0
    have hokinit : digitsOk init.reverse := by
      intro d hd; apply c.1; rw [h1]; exact List.mem_append_left _ (List.mem_reverse.1 hd)
    obtain ⟨l1, l2⟩ := binLoop_spec init.reverse hokinit (0 * 2 ^ bitLen msd + msd % 2 ^ bitLen msd)
    have hval : dval n.mantissaRaw = msd * B ^ init.reverse.length + tv init.reverse := by
      rw [← e, h1, dval_append, tv_reverse, List.length_reverse]
      simp only [dval_cons, dval_nil, Nat.mul_zero, Nat.add_zero]
      rw [Nat.mul_comm]; omega
    have hodd := (nf_val_odd hn h0 hnn).1
    have hx0 : dval n.mantissaRaw * 2 ^ n.shl ≠ 0 := odd_mul_two_pow_ne_zero hodd
    refine ⟨?_, ?_, fun h => absurd h hx0, fun _ => ?_⟩
    · unfold parseRadix
      rw [parseAcc_append, parseAcc_append, b1, l1, parseAcc_zeros, hval,
        Nat.mod_eq_of_lt (lt_two_pow_bitLen msd)]
      simp
    · intro ch hc
      rw [List.mem_append, List.mem_append] at hc
      rcases hc with (hc | hc) | hc
      · exact b3 ch hc
      · exact l2 ch hc
      · left; exact (List.mem_replicate.1 hc).2
    · have hb : bitLen msd = (bitLen msd - 1) + 1 := by omega
      have hbit : msd / 2 ^ (bitLen msd - 1) % 2 = 1 := by
        have h1' := two_pow_bitLen_le hmsd0
        have h2' := lt_two_pow_bitLen msd
        rw [hb, Nat.pow_succ] at h2'
        have : msd / 2 ^ (bitLen msd - 1) = 1 := by
          apply Nat.le_antisymm
          · apply Nat.le_of_lt_succ
            rw [Nat.div_lt_iff_lt_mul (Nat.two_pow_pos _)]; omega
          · rw [Nat.le_div_iff_mul_le (Nat.two_pow_pos _)]; omega
        rw [this]
      have hh := bitsBelow_head msd (bitLen msd - 1) hbit
      rw [← hb] at hh
      cases hbb : bitsBelow msd (bitLen msd) with
      | nil => rw [hbb] at hh; cases hh
      | cons ch rest => rw [hbb] at hh; simpa using hh

/-! ### octal and hexadecimal -/

/-- bits `[o, o+b)` of `x` -/
theorem div_mod_eq_mod_div (x o b : Nat) : x / 2 ^ o % 2 ^ b = x % 2 ^ (o + b) / 2 ^ o := by
  rw [Nat.pow_add, Nat.mod_mul_right_div_self]

theorem mod_split (x o b : Nat) : x % 2 ^ (o + b) = x / 2 ^ o % 2 ^ b * 2 ^ o + x % 2 ^ o := by
  rw [Nat.pow_add, Nat.mod_mul, Nat.mul_comm]; omega

theorem mul_pow_mod (x a b : Nat) : x * 2 ^ a % 2 ^ (a + b) = x % 2 ^ b * 2 ^ a := by
  rw [Nat.pow_add, Nat.mul_comm (2 ^ a), Nat.mul_mod_mul_right]

theorem mask_eq (bpd : Nat) : (1 <<< bpd) - 1 = 2 ^ bpd - 1 := by rw [Nat.one_shiftLeft]

/-- the digit assembled from the last bits of `msd` and the first bits of the next digit `v` -/
theorem straddle_digit {msd v ub bpd : Nat} (hv : v < B) (hub : ub < bpd) (hbpd : bpd ≤ 64) :
    (shlW msd (bpd - ub) ||| (v >>> (ub + 64 - bpd))) &&& ((1 <<< bpd) - 1)
      = msd % 2 ^ ub * 2 ^ (bpd - ub) + v / 2 ^ (ub + 64 - bpd)
    ∧ msd % 2 ^ ub * 2 ^ (bpd - ub) + v / 2 ^ (ub + 64 - bpd) < 2 ^ bpd := by
  rw [mask_eq, Nat.and_two_pow_sub_one_eq_mod, Nat.shiftRight_eq_div_pow, shlW_eq]
  have hvp : v / 2 ^ (ub + 64 - bpd) < 2 ^ (bpd - ub) := by
    rw [Nat.div_lt_iff_lt_mul (Nat.two_pow_pos _), ← Nat.pow_add,
      show bpd - ub + (ub + 64 - bpd) = 64 by omega, ← B_eq]
    exact hv
  have hup0 : msd * 2 ^ (bpd - ub) % B % 2 ^ (bpd - ub) = 0 :=
    mul_two_pow_mod_B_mod msd (by omega)
  rw [or_eq_add_of_dvd_lt hup0 hvp]
  have hdvd : 2 ^ bpd ∣ B := ⟨2 ^ (64 - bpd), by rw [B_eq, ← Nat.pow_add]; congr 1; omega⟩
  have hA : msd * 2 ^ (bpd - ub) % B % 2 ^ bpd = msd % 2 ^ ub * 2 ^ (bpd - ub) := by
    rw [Nat.mod_mod_of_dvd _ hdvd]
    have := mul_pow_mod msd (bpd - ub) ub
    rwa [show bpd - ub + ub = bpd by omega] at this
  have hAlt : msd % 2 ^ ub * 2 ^ (bpd - ub) + 2 ^ (bpd - ub) ≤ 2 ^ bpd := by
    have h1 : msd % 2 ^ ub + 1 ≤ 2 ^ ub := Nat.mod_lt _ (Nat.two_pow_pos _)
    have h2 := Nat.mul_le_mul_right (2 ^ (bpd - ub)) h1
    rw [Nat.add_mul, Nat.one_mul, ← Nat.pow_add, show ub + (bpd - ub) = bpd by omega] at h2
    exact h2
  have hlt : msd % 2 ^ ub * 2 ^ (bpd - ub) + v / 2 ^ (ub + 64 - bpd) < 2 ^ bpd := by omega
  refine ⟨?_, hlt⟩
  rw [Nat.add_mod, hA, Nat.mod_eq_of_lt (Nat.lt_of_lt_of_le hvp (Nat.pow_le_pow_right (by decide) (by omega))),
    Nat.mod_eq_of_lt hlt]


theorem parseAcc_cons (base acc : Nat) (c : Char) (cs : List Char) :
    parseAcc base acc (c :: cs) = parseAcc base (acc * base + digitVal c) cs := rfl

/-- The digit loop of `fmt_pow2`.  `ub` is the number of bits of `msd` not yet written
(`offset + bits_per_digit`); the unread bits are those and all of `rest`.  The loop writes the
unread bits as base-`2^bpd` digits, the last digit padded with `pad < bpd` zero bits. -/
theorem pow2Loop_spec (bpd : Nat) (toChar : Nat → Char) (hb1 : 1 ≤ bpd) (hb2 : bpd ≤ 32)
    (htc : ∀ d, d < 2 ^ bpd → digitVal (toChar d) = d) :
    ∀ (fuel msd : Nat) (rest : List Nat) (ub acc : Nat),
    msd < B → digitsOk rest → ub ≤ 64 + bpd →
    ub + 64 * rest.length + bpd ≤ bpd * fuel →
    ∃ pad, pad < bpd
      ∧ bpd * (pow2Loop bpd toChar fuel msd rest ((ub : Int) - bpd)).length = ub + 64 * rest.length + pad
      ∧ parseAcc (2 ^ bpd) acc (pow2Loop bpd toChar fuel msd rest ((ub : Int) - bpd))
        = acc * 2 ^ (bpd * (pow2Loop bpd toChar fuel msd rest ((ub : Int) - bpd)).length)
          + (msd % 2 ^ ub * B ^ rest.length + tv rest) * 2 ^ pad := by
  intro fuel
  induction fuel with
  | zero =>
    intro msd rest ub acc _ _ _ hf
    simp at hf; omega
  | succ fuel ih =>
    intro msd rest ub acc hmsd hok hub hf
    unfold pow2Loop
    simp only []
    rw [mask_eq]
    by_cases hge : (ub : Int) - bpd ≥ 0
    · -- a whole digit inside `msd`
      rw [if_pos hge]
      have hubge : bpd ≤ ub := by omega
      have htn : ((ub : Int) - bpd).toNat = ub - bpd := by omega
      have hoff : (ub : Int) - bpd - bpd = ((ub - bpd : Nat) : Int) - bpd := by omega
      rw [htn, hoff, Nat.and_two_pow_sub_one_eq_mod, Nat.shiftRight_eq_div_pow]
      have hdlt : msd / 2 ^ (ub - bpd) % 2 ^ bpd < 2 ^ bpd := Nat.mod_lt _ (Nat.two_pow_pos _)
      obtain ⟨pad, p1, p2, p3⟩ := ih msd rest (ub - bpd)
        (acc * 2 ^ bpd + msd / 2 ^ (ub - bpd) % 2 ^ bpd) hmsd hok (by omega)
        (by rw [Nat.mul_succ] at hf; omega)
      refine ⟨pad, p1, ?_, ?_⟩
      · rw [List.length_cons, Nat.mul_succ, p2]; omega
      · rw [parseAcc_cons, htc _ hdlt, p3, List.length_cons, Nat.mul_succ, Nat.pow_add]
        have hsp := mod_split msd (ub - bpd) bpd
        rw [show ub - bpd + bpd = ub by omega] at hsp
        rw [hsp]
        -- 2^(bpd*len') = 2^(ub - bpd) * B^k * 2^pad
        have hpow : 2 ^ (bpd * (pow2Loop bpd toChar fuel msd rest (((ub - bpd : Nat) : Int) - bpd)).length)
            = 2 ^ (ub - bpd) * B ^ rest.length * 2 ^ pad := by
          rw [p2, B_pow, ← Nat.pow_add, ← Nat.pow_add]
        rw [hpow]
        simp only [Nat.add_mul]
        ac_rfl
    · rw [if_neg hge]
      have hublt : ub < bpd := by omega
      have hna : ((ub : Int) - bpd).natAbs = bpd - ub := by omega
      rw [hna]
      cases rest with
      | cons v rest' =>
        simp only []
        rw [digitsOk_cons] at hok
        have htn : ((ub : Int) - bpd + 64).toNat = ub + 64 - bpd := by omega
        have hoff : (ub : Int) - bpd + 64 - bpd = ((ub + 64 - bpd : Nat) : Int) - bpd := by omega
        rw [htn, hoff]
        obtain ⟨d1, d2⟩ := straddle_digit (msd := msd) hok.1 hublt (by omega)
        rw [mask_eq] at d1
        rw [d1]
        obtain ⟨pad, p1, p2, p3⟩ := ih v rest' (ub + 64 - bpd)
          (acc * 2 ^ bpd + (msd % 2 ^ ub * 2 ^ (bpd - ub) + v / 2 ^ (ub + 64 - bpd))) hok.1 hok.2 (by omega)
          (by rw [Nat.mul_succ] at hf; simp only [List.length_cons] at hf; omega)
        refine ⟨pad, p1, ?_, ?_⟩
        · rw [List.length_cons, Nat.mul_succ, p2, List.length_cons]; omega
        · rw [parseAcc_cons, htc _ d2, p3, List.length_cons, Nat.mul_succ, Nat.pow_add]
          have hpow : 2 ^ (bpd * (pow2Loop bpd toChar fuel v rest' (((ub + 64 - bpd : Nat) : Int) - bpd)).length)
              = 2 ^ (ub + 64 - bpd) * B ^ rest'.length * 2 ^ pad := by
            rw [p2, B_pow, ← Nat.pow_add, ← Nat.pow_add]
          rw [hpow]
          have hv := Nat.div_add_mod v (2 ^ (ub + 64 - bpd))
          have hB : 2 ^ (bpd - ub) * 2 ^ (ub + 64 - bpd) = B := by
            rw [← Nat.pow_add, B_eq]; congr 1; omega
          simp only [tv, List.length_cons, Nat.pow_succ]
          -- (msd%2^ub) * B^(k+1) + v * B^k  =  (A*2^(bpd-ub) + v/2^s) * 2^s * B^k + (v%2^s) * B^k
          have key : msd % 2 ^ ub * (B ^ rest'.length * B) + v * B ^ rest'.length
              = (msd % 2 ^ ub * 2 ^ (bpd - ub) + v / 2 ^ (ub + 64 - bpd)) * (2 ^ (ub + 64 - bpd) * B ^ rest'.length)
                + v % 2 ^ (ub + 64 - bpd) * B ^ rest'.length := by
            rw [Nat.add_mul, Nat.mul_assoc (msd % 2 ^ ub), ← Nat.mul_assoc (2 ^ (bpd - ub)), hB,
              Nat.mul_comm B (B ^ rest'.length), ← Nat.mul_assoc (v / 2 ^ (ub + 64 - bpd)),
              Nat.add_assoc, ← Nat.add_mul]
            congr 2
            rw [Nat.mul_comm]; exact hv.symm
          have key' : msd % 2 ^ ub * (B ^ rest'.length * B) + (v * B ^ rest'.length + tv rest')
              = (msd % 2 ^ ub * 2 ^ (bpd - ub) + v / 2 ^ (ub + 64 - bpd)) * (2 ^ (ub + 64 - bpd) * B ^ rest'.length)
                + (v % 2 ^ (ub + 64 - bpd) * B ^ rest'.length + tv rest') := by
            rw [← Nat.add_assoc, key, Nat.add_assoc]
          rw [key']
          simp only [Nat.add_mul]
          ac_rfl
      | nil =>
        simp only []
        by_cases hbrk : (ub : Int) - bpd + 64 = 64 - bpd
        · rw [if_pos hbrk]
          have : ub = 0 := by omega
          subst this
          exact ⟨0, by omega, by simp, by simp [parseAcc, tv, Nat.mod_one]⟩
        · rw [if_neg hbrk]
          have hubpos : 0 < ub := by omega
          refine ⟨bpd - ub, by omega, by simp; omega, ?_⟩
          rw [Nat.and_two_pow_sub_one_eq_mod, shlW_eq]
          have hdvd : 2 ^ bpd ∣ B := ⟨2 ^ (64 - bpd), by rw [B_eq, ← Nat.pow_add]; congr 1; omega⟩
          have hA : msd * 2 ^ (bpd - ub) % B % 2 ^ bpd = msd % 2 ^ ub * 2 ^ (bpd - ub) := by
            rw [Nat.mod_mod_of_dvd _ hdvd]
            have := mul_pow_mod msd (bpd - ub) ub
            rwa [show bpd - ub + ub = bpd by omega] at this
          rw [hA]
          have hlt : msd % 2 ^ ub * 2 ^ (bpd - ub) < 2 ^ bpd := by
            have h1 : msd % 2 ^ ub < 2 ^ ub := Nat.mod_lt _ (Nat.two_pow_pos _)
            have h2 := Nat.mul_lt_mul_of_pos_right h1 (Nat.two_pow_pos (bpd - ub))
            rwa [← Nat.pow_add, show ub + (bpd - ub) = bpd by omega] at h2
          simp only [parseAcc, List.length_singleton, Nat.mul_one, List.length_nil, Nat.pow_zero, tv,
            Nat.add_zero]
          rw [htc _ hlt]


/-- **octal / hexadecimal output**: the digits written by `fmt_pow2` (no flags) denote the value
in base `2^bpd`; the string has the minimal length (no leading zero), `"0"` for zero -/
theorem fmtPow2_spec (n : Natural) (hn : NF n) (x : Nat) (hx : n.val = some x)
    (bpd : Nat) (hb : bpd = 3 ∨ bpd = 4) (pre : List Char) (toChar : Nat → Char)
    (htc : ∀ d, d < 2 ^ bpd → digitVal (toChar d) = d) :
    parseRadix (2 ^ bpd) (fmtPow2 n {} bpd pre toChar) = x
    ∧ (x = 0 → fmtPow2 n {} bpd pre toChar = ['0'])
    ∧ (x ≠ 0 → (2 ^ bpd) ^ ((fmtPow2 n {} bpd pre toChar).length - 1) ≤ x) := by
  have hnn : n.shl ≠ MAX64 := by intro h; rw [val_of_nan h] at hx; cases hx
  rw [val_of_not_nan hnn] at hx
  cases hx
  unfold fmtPow2
  rw [if_neg (by rw [isNan_iff]; exact hnn)]
  simp only [padIntegral_default]
  by_cases h0 : n.len = 0
  · have hz := nf_len_zero hn h0 hnn
    rw [val_of_not_nan hnn] at hz
    simp only [Option.some.injEq] at hz
    rw [mantissa_zero hn h0, hz]
    refine ⟨?_, fun _ => by simp, fun h => absurd rfl h⟩
    simp [parseRadix, parseAcc]; decide
  · obtain ⟨c, e⟩ := mantissa_canon hn h0
    obtain ⟨cb1, cb2, cb3, hne⟩ := canon_bounds c
    obtain ⟨init, msd, h1, hdl, h3⟩ := exists_snoc n.mantissa hne
    have hmsd0 : msd ≠ 0 := by rw [← h3]; exact c.2
    have hmsdB : msd < B := by apply c.1; rw [h1]; simp
    rw [if_neg (by rw [h3]; exact hmsd0), h3, hdl]
    have hlz := lz64_add_bitLen hmsdB
    have hblpos := bitLen_pos hmsd0
    have hokinit : digitsOk init.reverse := by
      intro d hd; apply c.1; rw [h1]; exact List.mem_append_left _ (List.mem_reverse.1 hd)
    have hval : dval n.mantissaRaw = msd * B ^ init.reverse.length + tv init.reverse := by
      rw [← e, h1, dval_append, tv_reverse, List.length_reverse]
      simp only [dval_cons, dval_nil, Nat.mul_zero, Nat.add_zero]
      rw [Nat.mul_comm]; omega
    have hodd := (nf_val_odd hn h0 hnn).1
    have hx0 : dval n.mantissaRaw * 2 ^ n.shl ≠ 0 := odd_mul_two_pow_ne_zero hodd
    -- sizes
    have hW : bwOf n.mantissa = 64 * init.length + bitLen msd := by
      unfold bwOf; rw [h3, h1]; simp only [List.length_append, List.length_singleton]; omega
    have hbw : bitWidthOf n.mantissa n.shl = 64 * init.length + bitLen msd + n.shl := by
      rw [bitWidthOf_eq, hW]
    rw [hbw]
    have hmlen : n.mantissa.length = init.length + 1 := by rw [h1]; simp
    rw [hmlen]
    have hb1 : 1 ≤ bpd := by rcases hb with h | h <;> omega
    have hb2 : bpd ≤ 32 := by rcases hb with h | h <;> omega
    -- remaining bits of the first digit
    generalize hr : (if (64 * init.length + bitLen msd + n.shl) % bpd = 0 then bpd
      else (64 * init.length + bitLen msd + n.shl) % bpd) = r
    have hr1 : 1 ≤ r ∧ r ≤ bpd := by
      have hm := Nat.mod_lt (64 * init.length + bitLen msd + n.shl) (show 0 < bpd by omega)
      rw [← hr]; split <;> omega
    have hoff : (((64 - lz64 msd : Nat) : Int) - (r : Int)) = ((bitLen msd + bpd - r : Nat) : Int) - bpd := by
      omega
    rw [hoff]
    have hmod : msd % 2 ^ (bitLen msd + bpd - r) = msd :=
      Nat.mod_eq_of_lt (Nat.lt_of_lt_of_le (lt_two_pow_bitLen msd)
        (Nat.pow_le_pow_right (by decide) (by omega)))
    have hble := bitLen_le_64 hmsdB
    obtain ⟨pad, p1, p2, p3⟩ := pow2Loop_spec bpd toChar hb1 hb2 htc (64 * (init.length + 1) + 2) msd
      init.reverse (bitLen msd + bpd - r) 0 hmsdB hokinit (by omega) (by
        rw [List.length_reverse]
        have : 64 * (init.length + 1) + 2 ≤ bpd * (64 * (init.length + 1) + 2) :=
          Nat.le_mul_of_pos_left _ (by omega)
        rcases hb with h | h <;> subst h <;> omega)
    rw [List.length_reverse] at p2
    rw [hmod, List.length_reverse] at p3
    rw [List.length_reverse] at hval
    -- the zero padding of the last mantissa digit is the part of the exponent below a digit
    have hpad : pad + bpd * (n.shl / bpd) = n.shl := by
      have hdm := Nat.div_add_mod n.shl bpd
      have hr' := hr
      rcases hb with h | h <;> subst h <;> (split at hr' <;> omega)
    refine ⟨?_, fun h => absurd h hx0, fun _ => ?_⟩
    · unfold parseRadix
      rw [parseAcc_append, p3, parseAcc_zeros, ← hval, Nat.zero_mul, Nat.zero_add, ← Nat.pow_mul,
        Nat.mul_assoc, ← Nat.pow_add, hpad]
    · rw [List.length_append, ← Nat.pow_mul]
      simp only [rep, List.length_replicate]
      have hlen : bpd * ((pow2Loop bpd toChar (64 * (init.length + 1) + 2) msd init.reverse
          (((bitLen msd + bpd - r : Nat) : Int) - bpd)).length + n.shl / bpd - 1)
          ≤ bwOf n.mantissa - 1 + n.shl := by
        rw [Nat.mul_sub, Nat.mul_add, p2, hW]
        omega
      refine Nat.le_trans (Nat.pow_le_pow_right (by decide) hlen) ?_
      rw [Nat.pow_add, ← e]
      exact Nat.mul_le_mul_right _ cb1

theorem octChar_val : ∀ d, d < 2 ^ 3 → digitVal (Char.ofNat (48 + d)) = d := by decide
theorem hexLower_val : ∀ d, d < 2 ^ 4 → digitVal (hexChar false d) = d := by decide
theorem hexUpper_val : ∀ d, d < 2 ^ 4 → digitVal (hexChar true d) = d := by decide

end OxiddModel.Num
