import OxiddModel.Num.LemmasFmt

/-!
`Natural::from_le_digits`: the normal form of the number denoted by arbitrary digits.
-/
namespace OxiddModel.Num
open Natural

theorem dropWhile_zero_spec (r : List Nat) :
    tv (r.dropWhile (· == 0)) = tv r
    ∧ (r.dropWhile (· == 0) = [] ∨ (r.dropWhile (· == 0)).headD 0 ≠ 0)
    ∧ (∀ d ∈ r.dropWhile (· == 0), d ∈ r) := by
  induction r with
  | nil => simp [tv]
  | cons d r ih =>
    by_cases h : d = 0
    · subst h
      simp only [List.dropWhile_cons, beq_self_eq_true, if_true]
      obtain ⟨i1, i2, i3⟩ := ih
      refine ⟨by simp [tv, i1], i2, fun d hd => List.mem_cons_of_mem _ (i3 d hd)⟩
    · have : (d == 0) = false := by simpa using h
      simp only [List.dropWhile_cons, this]
      exact ⟨rfl, Or.inr (by simpa using h), fun d hd => hd⟩

theorem getLastD_reverse (r : List Nat) : r.reverse.getLastD 0 = r.headD 0 := by
  cases r with
  | nil => rfl
  | cons a l => rw [List.reverse_cons, getLastD_append_singleton]; rfl

theorem stripTop_spec (ds : List Nat) :
    dval (stripTop ds) = dval ds
    ∧ (stripTop ds = [] ∨ (stripTop ds).getLastD 0 ≠ 0)
    ∧ (∀ d ∈ stripTop ds, d ∈ ds) := by
  unfold stripTop
  obtain ⟨h1, h2, h3⟩ := dropWhile_zero_spec ds.reverse
  refine ⟨by rw [← tv_reverse, List.reverse_reverse, h1, tv_reverse], ?_, ?_⟩
  · rcases h2 with h | h
    · left; rw [h]; rfl
    · right; rw [getLastD_reverse]; exact h
  · intro d hd
    exact List.mem_reverse.1 (h3 d (List.mem_reverse.1 hd))

theorem stripBottom_spec (ds : List Nat) : ∀ n,
    n ≤ (stripBottom ds n).2
    ∧ dval ds = B ^ ((stripBottom ds n).2 - n) * dval (stripBottom ds n).1
    ∧ ((stripBottom ds n).1 = [] ∨ (stripBottom ds n).1.headD 0 ≠ 0)
    ∧ (∀ d ∈ (stripBottom ds n).1, d ∈ ds)
    ∧ ((stripBottom ds n).1 ≠ [] → (stripBottom ds n).1.getLastD 0 = ds.getLastD 0) := by
  induction ds with
  | nil => intro n; simp [stripBottom]
  | cons d ds ih =>
    intro n
    by_cases h : d = 0
    · subst h
      obtain ⟨i1, i2, i3, i4, i5⟩ := ih (n + 1)
      simp only [stripBottom]
      refine ⟨by omega, ?_, i3, fun d hd => List.mem_cons_of_mem _ (i4 d hd), ?_⟩
      · rw [dval_cons, Nat.zero_add, i2, ← Nat.mul_assoc, ← Nat.pow_succ']
        congr 2; omega
      · intro hne
        rw [i5 hne]
        cases ds with
        | nil => simp [stripBottom] at hne
        | cons e l => rw [getLastD_cons_cons]
    · have hs : stripBottom (d :: ds) n = (d :: ds, n) := by
        cases d with
        | zero => exact absurd rfl h
        | succ k => rfl
      rw [hs]
      simp only [Nat.sub_self, Nat.pow_zero, Nat.one_mul]
      exact ⟨Nat.le_refl _, trivial, Or.inr (by simpa using h), fun d hd => hd, fun _ => trivial⟩


theorem lowerMaskR_eq (s : Nat) : MAX64 >>> s = lowerMaskR s := rfl
theorem upperMaskR_eq (s : Nat) : not64 (MAX64 >>> s) = upperMaskR s := rfl

/-- the right-shifting copy loop of `from_le_digits` -/
theorem fromLeLoop_spec (s len : Nat) (hs : s < 64) (ds : List Nat) : ∀ (lower n : Nat),
    digitsOk ds → lower < 2 ^ (64 - s) → ∃ E,
      dval (fromLeLoop s len ds lower n) + B ^ (fromLeLoop s len ds lower n).length * E
        = lower + dval ds * 2 ^ (64 - s)
      ∧ (E = 0 ∨ n + (fromLeLoop s len ds lower n).length = len)
      ∧ (fromLeLoop s len ds lower n).length = ds.length + ind (n + ds.length) len
      ∧ digitsOk (fromLeLoop s len ds lower n) := by
  induction ds with
  | nil =>
    intro lower n _ hl
    have hlB : lower < B := by
      have : 2 ^ (64 - s) ≤ 2 ^ 64 := Nat.pow_le_pow_right (by decide) (by omega)
      rw [B_eq]; omega
    simp only [fromLeLoop]
    rcases ind_cases n len with ⟨e1, e2⟩ | ⟨e1, e2⟩
    · refine ⟨lower, by simp [e1], Or.inr (by simp [e1]), by rw [List.length_nil, Nat.add_zero, e2]; simp [e1], by simp [e1, digitsOk_nil]⟩
    · refine ⟨0, by simp [e1], Or.inl rfl, by rw [List.length_nil, Nat.add_zero, e2]; simp [e1], ?_⟩
      simp only [ne_eq, e1, not_false_eq_true, if_true]
      exact digitsOk_cons.2 ⟨hlB, digitsOk_nil⟩
  | cons d ds ih =>
    intro lower n hok hl
    rw [digitsOk_cons] at hok
    simp only [fromLeLoop, lowerMaskR_eq]
    rw [show not64 (lowerMaskR s) = upperMaskR s from rfl, rotr_and_upper d s hok.1 hs, rotr_and_lower d s hok.1 hs]
    have hs' : 64 - s ≤ 64 := by omega
    have hd := mul_two_pow_mod_B_mod d hs'
    rw [or_eq_add_of_lt_dvd hl hd]
    have hlow' : d / 2 ^ s < 2 ^ (64 - s) := by
      have := div_two_pow_lt hok.1 hs'
      rwa [show 64 - (64 - s) = s by omega] at this
    obtain ⟨E, h1, h2, h3, h4⟩ := ih (d / 2 ^ s) (n + 1) hok.2 hlow'
    have hdig : lower + d * 2 ^ (64 - s) % B < B := by
      have := dvd_add_lt_B hs' (Nat.mod_lt _ B_pos) hd hl
      omega
    refine ⟨E, ?_, ?_, ?_, digitsOk_cons.2 ⟨hdig, h4⟩⟩
    · rw [dval_cons, List.length_cons, pow_succ_mul, dval_cons]
      have hst := shr_step d hs
      have := congrArg (fun t => B * t) h1
      simp only [Nat.add_mul, Nat.mul_add, Nat.mul_assoc] at this ⊢
      omega
    · simp only [List.length_cons]; omega
    · simp only [List.length_cons, h3]
      rw [show n + (ds.length + 1) = n + 1 + ds.length by omega]; omega


theorem MAX64_val : MAX64 = 18446744073709551615 := rfl

/-- exponent computed with saturating arithmetic: the error value iff not representable -/
theorem sat_exp {k t : Nat} (_ht : t < 64) :
    (t + 64 * k < MAX64 → satAdd64 t (satMul64 k 64) = t + 64 * k ∧ satAdd64 (satMul64 k 64) t = t + 64 * k)
    ∧ (¬ t + 64 * k < MAX64 → satAdd64 t (satMul64 k 64) = MAX64 ∧ satAdd64 (satMul64 k 64) t = MAX64) := by
  unfold satAdd64 satMul64
  rw [MAX64_val]
  by_cases h2 : k * 64 > 18446744073709551615
  · rw [if_pos h2]
    constructor
    · intro h; omega
    · intro _; constructor <;> split <;> omega
  · rw [if_neg h2]
    constructor
    · intro h
      constructor <;> (rw [if_neg (by omega)]; omega)
    · intro h
      constructor <;> split <;> omega

theorem value_spec_of_odd {x : Natural} {v M e : Nat} (hM : M % 2 = 1) (hv : v = M * 2 ^ e)
    (hlt : e < MAX64 → x.shl = e ∧ dval x.mantissaRaw = M) (hge : ¬ e < MAX64 → x.shl = MAX64) :
    (Representable v → x.val = some v) ∧ (¬ Representable v → x.val = none) := by
  rw [hv, representable_odd_iff hM]
  constructor
  · intro h
    obtain ⟨h1, h2⟩ := hlt h
    rw [val_of_not_nan (by omega), h1, h2]
  · intro h; exact val_of_nan (hge h)

/-- **from_le_digits**: normal form of the number denoted by the digits, or the error value when
the exponent is not representable -/
theorem fromLeDigits_spec (ds : List Nat) (hok : digitsOk ds) :
    NF (fromLeDigits ds)
    ∧ (Representable (dval ds) → (fromLeDigits ds).val = some (dval ds))
    ∧ (¬ Representable (dval ds) → (fromLeDigits ds).val = none) := by
  unfold fromLeDigits
  simp only []
  obtain ⟨t1, t2, t3⟩ := stripTop_spec ds
  obtain ⟨b1, b2, b3, b4, b5⟩ := stripBottom_spec (stripTop ds) 0
  generalize stripBottom (stripTop ds) 0 = sb at *
  obtain ⟨ds2, k⟩ := sb
  simp only [Nat.sub_zero] at b1 b2 b3 b4 b5 ⊢
  have hval : dval ds = B ^ k * dval ds2 := by rw [← t1, b2]
  have hok2 : digitsOk ds2 := fun d hd => hok d (t3 d (b4 d hd))
  have hlast : ds2 ≠ [] → ds2.getLastD 0 ≠ 0 := by
    intro hne
    rw [b5 hne]
    rcases t2 with h | h
    · exfalso
      have := b4 (ds2.headD 0)
      cases ds2 with
      | nil => exact hne rfl
      | cons a l => rw [h] at this; simp at this
    · exact h
  match ds2, b3, hok2, hlast, hval with
  | [], _, _, _, hval =>
    simp only [fromLeCore]
    refine ⟨⟨by decide, B_pos, fun _ => Or.inl rfl, fun h => absurd rfl h⟩, ?_⟩
    have : dval ds = 0 := by rw [hval]; simp
    rw [this]
    exact ⟨fun _ => by rw [val_of_not_nan (by decide)]; simp [Natural.mantissaRaw, ZERO],
      fun h => absurd (Or.inl rfl) h⟩
  | [d], b3, hok2, _, hval =>
    simp only [fromLeCore]
    have hd0 : d ≠ 0 := by rcases b3 with h | h <;> simp at h; exact h
    have hdB : d < B := (digitsOk_cons.1 hok2).1
    obtain ⟨z1, z2, z3⟩ := tz64_spec hd0 hdB
    obtain ⟨e1, e2⟩ := sat_exp (k := k) z1
    rw [Nat.shiftRight_eq_div_pow]
    have hv : dval ds = d / 2 ^ tz64 d * 2 ^ (tz64 d + 64 * k) := by
      rw [hval, Nat.pow_add, ← B_pow, ← Nat.mul_assoc, ← odd_part_split z2]
      simp only [dval_cons, dval_nil, Nat.mul_zero, Nat.add_zero]
      rw [Nat.mul_comm]
    have hle : d / 2 ^ tz64 d ≤ d := Nat.div_le_self _ _
    refine ⟨⟨?_, by omega, fun h => by omega, fun _ => z3⟩, ?_⟩
    · show satAdd64 (tz64 d) (satMul64 k 64) ≤ MAX64
      by_cases h : tz64 d + 64 * k < MAX64
      · rw [(e1 h).1]; omega
      · rw [(e2 h).1]; exact Nat.le_refl _
    · exact value_spec_of_odd z3 hv
        (fun h => ⟨(e1 h).1, by simp [Natural.mantissaRaw]⟩) (fun h => (e2 h).1)
  | lsd :: r0 :: rest, b3, hok2, hlast, hval =>
    simp only [fromLeCore]
    have hl0 : lsd ≠ 0 := by rcases b3 with h | h <;> simp at h; exact h
    have hlB : lsd < B := (digitsOk_cons.1 hok2).1
    have hokr : digitsOk (r0 :: rest) := (digitsOk_cons.1 hok2).2
    have hmsd : (r0 :: rest).getLastD 0 ≠ 0 := by
      have := hlast (by simp); rwa [getLastD_cons_cons] at this
    have hcanon : Canon (lsd :: r0 :: rest) := ⟨hok2, hlast (by simp)⟩
    obtain ⟨cb1, cb2, cb3, _⟩ := canon_bounds hcanon
    obtain ⟨z1, z2, z3⟩ := tz64_spec hl0 hlB
    obtain ⟨e1, e2⟩ := sat_exp (k := k) z1
    have hmsdB := getLastD_lt_B hokr
    have hlzlt : lz64 ((r0 :: rest).getLastD 0) < 64 := by
      have := @lz64_eq_64_iff ((r0 :: rest).getLastD 0)
      have := lz64_le ((r0 :: rest).getLastD 0)
      omega
    by_cases hs0 : tz64 lsd = 0
    · -- already odd: the digits are the mantissa
      rw [if_pos hs0]
      rw [hs0] at z3 e1 e2
      simp only [Nat.pow_zero, Nat.div_one, Nat.zero_add] at z3 e1 e2
      have hodd : dval (lsd :: r0 :: rest) % 2 = 1 := by rw [dval_mod_two]; exact z3
      have hv : dval ds = dval (lsd :: r0 :: rest) * 2 ^ (64 * k) := by
        rw [hval, B_pow, Nat.mul_comm]
      have hshl : satMul64 k 64 ≤ MAX64 := by unfold satMul64; split <;> omega
      have hbig : B ≤ dval (lsd :: r0 :: rest) := by
        have h1 := pow_le_dval_of_last_ne hcanon.2
        have h2 : B ^ 1 ≤ B ^ ((lsd :: r0 :: rest).length - 1) :=
          Nat.pow_le_pow_right B_pos (by simp)
        rw [Nat.pow_one] at h2
        exact Nat.le_trans h2 h1
      refine ⟨⟨hshl, by simp, hok2, by simpa using z3, fun h => absurd h (hlast (by simp)), hbig⟩, ?_⟩
      have e1' : 64 * k < MAX64 → satMul64 k 64 = 64 * k := fun h => by
        have := (e1 h).2; unfold satAdd64 at this; split at this <;> omega
      have e2' : ¬ 64 * k < MAX64 → satMul64 k 64 = MAX64 := fun h => by
        have := (e2 h).2; unfold satAdd64 at this; split at this <;> omega
      exact value_spec_of_odd hodd hv (fun h => ⟨e1' h, by simp [Natural.mantissaRaw]⟩) (fun h => e2' h)
    · rw [if_neg hs0]
      have hspos : 0 < tz64 lsd := Nat.pos_of_ne_zero hs0
      -- the odd part of the digits
      have hK : 2 ^ (64 - tz64 lsd) * 2 ^ tz64 lsd = B := K_mul_two_pow z1
      have hM : dval (lsd :: r0 :: rest)
          = (lsd / 2 ^ tz64 lsd + dval (r0 :: rest) * 2 ^ (64 - tz64 lsd)) * 2 ^ tz64 lsd := by
        rw [Nat.add_mul, ← odd_part_split z2, Nat.mul_assoc, hK, dval_cons (d := lsd), Nat.mul_comm]
      have hModd : (lsd / 2 ^ tz64 lsd + dval (r0 :: rest) * 2 ^ (64 - tz64 lsd)) % 2 = 1 := by
        have : 2 ^ (64 - tz64 lsd) = 2 * 2 ^ (63 - tz64 lsd) := by
          rw [show 64 - tz64 lsd = (63 - tz64 lsd) + 1 by omega, Nat.pow_succ]; omega
        rw [this, ← Nat.mul_assoc, Nat.mul_comm _ 2, Nat.mul_assoc, Nat.add_mod, Nat.mul_mod_right, z3]
      have hv : dval ds = (lsd / 2 ^ tz64 lsd + dval (r0 :: rest) * 2 ^ (64 - tz64 lsd))
          * 2 ^ (tz64 lsd + 64 * k) := by
        rw [hval, hM, Nat.pow_add, ← B_pow]
        ac_rfl
      have hshl : satAdd64 (satMul64 k 64) (tz64 lsd) ≤ MAX64 := by
        by_cases h : tz64 lsd + 64 * k < MAX64
        · rw [(e1 h).2]; omega
        · rw [(e2 h).2]; exact Nat.le_refl _
      -- size of the odd part
      have hMlt : lsd / 2 ^ tz64 lsd + dval (r0 :: rest) * 2 ^ (64 - tz64 lsd)
          < 2 ^ (bwOf (lsd :: r0 :: rest) - tz64 lsd) := by
        apply Nat.lt_of_mul_lt_mul_right (a := 2 ^ tz64 lsd)
        rw [← hM, ← Nat.pow_add]
        have : bwOf (lsd :: r0 :: rest) - tz64 lsd + tz64 lsd = bwOf (lsd :: r0 :: rest) := by
          unfold bwOf; simp only [List.length_cons, getLastD_cons_cons]; omega
        rw [this]; exact cb2
      have hMge : 2 ^ (bwOf (lsd :: r0 :: rest) - tz64 lsd - 1)
          ≤ lsd / 2 ^ tz64 lsd + dval (r0 :: rest) * 2 ^ (64 - tz64 lsd) := by
        apply Nat.le_of_mul_le_mul_right (c := 2 ^ tz64 lsd) _ (Nat.two_pow_pos _)
        rw [← hM, ← Nat.pow_add]
        have : bwOf (lsd :: r0 :: rest) - tz64 lsd - 1 + tz64 lsd = bwOf (lsd :: r0 :: rest) - 1 := by
          unfold bwOf; simp only [List.length_cons, getLastD_cons_cons]; omega
        rw [this]; exact cb1
      have hbw : bwOf (lsd :: r0 :: rest) = 64 * (rest.length + 2) - lz64 ((r0 :: rest).getLastD 0) := by
        unfold bwOf; simp only [List.length_cons, getLastD_cons_cons]
      by_cases hone : (lsd :: r0 :: rest).length - (tz64 lsd + lz64 ((r0 :: rest).getLastD 0)) / 64 = 1
      · -- two digits collapsing into one
        rw [if_pos hone]
        have hrest : rest = [] := by
          cases rest with
          | nil => rfl
          | cons a l => simp only [List.length_cons] at hone; omega
        subst hrest
        simp only [getLastD_singleton, List.length_cons, List.length_nil] at hone hlzlt hmsd hmsdB hbw ⊢
        have hr0B : r0 < B := hmsdB
        have hr0s : r0 < 2 ^ tz64 lsd := by
          have := lz64_add_bitLen hr0B
          rw [← bitLen_le_iff]; omega
        have hrK : r0 * 2 ^ (64 - tz64 lsd) < B := by
          rw [← hK, Nat.mul_comm]
          exact Nat.mul_lt_mul_of_pos_left hr0s (Nat.two_pow_pos _)
        have hrot : rotr r0 (tz64 lsd) = r0 * 2 ^ (64 - tz64 lsd) := by
          unfold rotr
          rw [Nat.shiftRight_eq_div_pow, Nat.div_eq_of_lt hr0s, shlW_eq, Nat.mod_eq_of_lt hrK]
          simp
        have hlow : lsd / 2 ^ tz64 lsd < 2 ^ (64 - tz64 lsd) := by
          have := div_two_pow_lt hlB (s := 64 - tz64 lsd) (by omega)
          rwa [show 64 - (64 - tz64 lsd) = tz64 lsd by omega] at this
        rw [hrot, Nat.shiftRight_eq_div_pow, Nat.or_comm,
          or_eq_add_of_lt_dvd hlow (Nat.mul_mod_left _ _)]
        simp only [dval_cons, dval_nil, Nat.mul_zero, Nat.add_zero] at hModd hv hMlt
        have hlt : lsd / 2 ^ tz64 lsd + r0 * 2 ^ (64 - tz64 lsd) < B := by
          have h1 : r0 + 1 ≤ 2 ^ tz64 lsd := hr0s
          have h2 := Nat.mul_le_mul_right (2 ^ (64 - tz64 lsd)) h1
          rw [Nat.add_mul, Nat.one_mul, Nat.mul_comm (2 ^ tz64 lsd), hK] at h2
          omega
        refine ⟨⟨hshl, hlt, fun h => by omega, fun _ => hModd⟩, ?_⟩
        exact value_spec_of_odd hModd hv
          (fun h => ⟨(e1 h).2, by simp [Natural.mantissaRaw]⟩) (fun h => (e2 h).2)
      · rw [if_neg hone]
        have hlow : lsd / 2 ^ tz64 lsd < 2 ^ (64 - tz64 lsd) := by
          have := div_two_pow_lt hlB (s := 64 - tz64 lsd) (by omega)
          rwa [show 64 - (64 - tz64 lsd) = tz64 lsd by omega] at this
        rw [Nat.shiftRight_eq_div_pow]
        obtain ⟨E, f1, f2, f3, f4⟩ := fromLeLoop_spec (tz64 lsd)
          ((lsd :: r0 :: rest).length - (tz64 lsd + lz64 ((r0 :: rest).getLastD 0)) / 64) z1
          (r0 :: rest) (lsd / 2 ^ tz64 lsd) 0 hokr hlow
        simp only [List.length_cons, Nat.zero_add] at f2 f3 hone
        have hlen : (fromLeLoop (tz64 lsd)
            ((lsd :: r0 :: rest).length - (tz64 lsd + lz64 ((r0 :: rest).getLastD 0)) / 64)
            (r0 :: rest) (lsd / 2 ^ tz64 lsd) 0).length
            = rest.length + 1 + 1 - (tz64 lsd + lz64 ((r0 :: rest).getLastD 0)) / 64 := by
          simp only [List.length_cons]
          rcases ind_cases (rest.length + 1)
            (rest.length + 1 + 1 - (tz64 lsd + lz64 ((r0 :: rest).getLastD 0)) / 64) with ⟨c1, c2⟩ | ⟨c1, c2⟩
          · rw [f3, c2]; omega
          · rw [f3, c2]; omega
        have hvalM : dval (fromLeLoop (tz64 lsd)
            ((lsd :: r0 :: rest).length - (tz64 lsd + lz64 ((r0 :: rest).getLastD 0)) / 64)
            (r0 :: rest) (lsd / 2 ^ tz64 lsd) 0)
            = lsd / 2 ^ tz64 lsd + dval (r0 :: rest) * 2 ^ (64 - tz64 lsd) := by
          rcases f2 with hE | hfull
          · subst hE; simpa using f1
          · refine (no_overflow f1 ?_).2
            rw [hlen, B_pow]
            refine Nat.lt_of_lt_of_le hMlt (Nat.pow_le_pow_right (by decide) ?_)
            rw [hbw]; omega
        have hhead : (fromLeLoop (tz64 lsd)
            ((lsd :: r0 :: rest).length - (tz64 lsd + lz64 ((r0 :: rest).getLastD 0)) / 64)
            (r0 :: rest) (lsd / 2 ^ tz64 lsd) 0).headD 0 % 2 = 1 := by
          simp only [fromLeLoop, lowerMaskR_eq, List.headD_cons]
          rw [show not64 (lowerMaskR (tz64 lsd)) = upperMaskR (tz64 lsd) from rfl,
            rotr_and_upper r0 _ (digitsOk_cons.1 hokr).1 z1,
            or_eq_add_of_lt_dvd hlow (mul_two_pow_mod_B_mod r0 (by omega))]
          have := mul_two_pow_even r0 (s := 64 - tz64 lsd) (by omega)
          omega
        refine ⟨nf_heap_of_le (bl := bwOf (lsd :: r0 :: rest) - tz64 lsd + 1) hshl f4
            (by rw [hlen, hbw]; omega) hhead (by rw [hvalM]; simpa using hMge) ?_, ?_⟩
        · rw [hvalM]
          refine Nat.le_trans ?_ hMge
          rw [B_eq]
          exact Nat.pow_le_pow_right (by decide) (by rw [hbw]; omega)
        · exact value_spec_of_odd hModd hv
            (fun h => ⟨(e1 h).2, by simpa [Natural.mantissaRaw] using hvalM⟩) (fun h => (e2 h).2)

end OxiddModel.Num
