import OxiddModel.Num.NaturalF64
import OxiddModel.Num.LemmasEq
import OxiddModel.Num.F64CountLemmasRound

/-!
# C12: lemmas for `From<&Natural> for f64`

A. `fracTruncMsb` (shift / rotate / or on two `u64` digits) is the 64 bits after the leading one
   of the two top digits;
B. the two top digits of a canonical digit list are the top of the whole number;
C. `fracRounded` on those bits is round-to-nearest-even of an **odd** mantissa to 53 bits;
D. the saturating `bit_width`;
E. the bit pattern of `q · 2^s` (`2^52 ≤ q ≤ 2^53`) and of the rounded value of a natural number.
-/
namespace OxiddModel.Num
open Natural

namespace NatF64
open F64C

theorem bitLen_eq_bitlen (x : Nat) : bitLen x = bitlen x := rfl

/-! ## A. the 64 bits after the leading one -/

theorem two_pow_64 : (2 : Nat) ^ 64 = 18446744073709551616 := by decide

/-- `frac_trunc_msb` plus the leading one is the top 65 bits of `msd · 2^64 + msd2` -/
theorem fracTruncMsb_spec {msd msd2 : Nat} (h0 : msd ≠ 0) (hm : msd < B) (hm2 : msd2 < B) :
    fracTruncMsb msd msd2 + 2 ^ 64 = (msd * B + msd2) / 2 ^ (bitLen msd - 1) := by
  have hbl := bitLen_pos h0
  have hbl64 := bitLen_le_64 hm
  have hlz := lz64_add_bitLen hm
  have hlo := two_pow_bitLen_le h0
  have hup := lt_two_pow_bitLen msd
  unfold fracTruncMsb
  by_cases h1 : msd = 1
  · subst h1
    have : bitLen 1 = 1 := by decide
    rw [if_neg (by simp), this]
    simp only [Nat.sub_self, Nat.pow_zero, Nat.div_one, Nat.one_mul, B_eq]
    omega
  · rw [if_pos h1]
    -- `bl ≥ 2`
    have hbl2 : 2 ≤ bitLen msd := by
      apply Classical.byContradiction
      intro hc
      have : bitLen msd = 1 := by omega
      rw [this] at hup; omega
    have e1 : lz64 msd + 1 = 65 - bitLen msd := by omega
    have e2 : 64 - (lz64 msd + 1) = bitLen msd - 1 := by omega
    rw [e2, e1, shlW_eq, Nat.shiftRight_eq_div_pow]
    -- `msd · 2^(65-bl)` lies in `[2^64, 2^65)`
    have hP : 2 ^ (bitLen msd - 1) * 2 ^ (65 - bitLen msd) = 2 ^ 64 := by
      rw [← Nat.pow_add]; congr 1; omega
    have hQ : 2 ^ bitLen msd * 2 ^ (65 - bitLen msd) = 2 ^ 65 := by
      rw [← Nat.pow_add]; congr 1; omega
    have hpos : 0 < 2 ^ (65 - bitLen msd) := Nat.two_pow_pos _
    have hA1 : 2 ^ 64 ≤ msd * 2 ^ (65 - bitLen msd) := by
      rw [← hP]; exact Nat.mul_le_mul_right _ hlo
    have hA2 : msd * 2 ^ (65 - bitLen msd) < 2 ^ 65 := by
      rw [← hQ]; exact Nat.mul_lt_mul_of_pos_right hup hpos
    have hmod : msd * 2 ^ (65 - bitLen msd) % B = msd * 2 ^ (65 - bitLen msd) - 2 ^ 64 := by
      rw [B_eq]
      have h65 : (2 : Nat) ^ 65 = 2 * 2 ^ 64 := by decide
      omega
    rw [hmod]
    -- the shifted part is a multiple of `2^(65-bl)`, the part from `msd2` is below it
    have hdvd : (msd * 2 ^ (65 - bitLen msd) - 2 ^ 64) % 2 ^ (65 - bitLen msd) = 0 := by
      rw [← hP, ← Nat.sub_mul]
      exact Nat.mul_mod_left _ _
    have hlt : msd2 / 2 ^ (bitLen msd - 1) < 2 ^ (65 - bitLen msd) := by
      rw [Nat.div_lt_iff_lt_mul (Nat.two_pow_pos _), Nat.mul_comm, hP, ← B_eq]
      exact hm2
    rw [or_eq_add_of_dvd_lt hdvd hlt]
    -- `(msd · 2^64 + msd2) / 2^(bl-1) = msd · 2^(65-bl) + msd2 / 2^(bl-1)`
    have hsplit : (msd * B + msd2) / 2 ^ (bitLen msd - 1)
        = msd * 2 ^ (65 - bitLen msd) + msd2 / 2 ^ (bitLen msd - 1) := by
      rw [B_eq, ← hP, Nat.mul_left_comm, Nat.mul_add_div (Nat.two_pow_pos _)]
    rw [hsplit]
    omega

/-! ## B. the two top digits of a canonical digit list -/

/-- for canonical digits `D` (all below `2^64`, top digit not zero) of the number `M`: the number
made of the two top digits, cut after its leading one plus 64 bits, is `M` cut after its leading
one plus 64 bits; and `M` has `64·(len-1) + bitLen msd` bits -/
theorem top_digits_spec {D : List Nat} (hc : Canon D) (msd w : Nat) (hmsd : msd = D.getLastD 0)
    (hwdef : w = 64 * (D.length - 1) + bitLen msd) :
    bitLen (dval D) = w ∧ msd2Of D < B ∧
    (msd * B + msd2Of D) / 2 ^ (bitLen msd - 1) = dval D * 2 ^ 64 / 2 ^ (w - 1) := by
  obtain ⟨hok, hlast⟩ := hc
  have hne : D ≠ [] := by intro h; subst h; exact hlast rfl
  obtain ⟨init, x, h1, _, h3⟩ := exists_snoc D hne
  rw [h3] at hmsd hlast
  subst hmsd
  have hmsdB : msd < B := hok msd (by rw [h1]; simp)
  have hbl := bitLen_pos hlast
  have hlz := lz64_add_bitLen hmsdB
  have hlen : D.length = init.length + 1 := by rw [h1]; simp
  -- bit length of the value
  have hw : 64 * D.length - lz64 msd = w := by omega
  have hup := dval_lt_two_pow D hne hok
  have hlo := two_pow_le_dval D (by rw [h3]; exact hlast)
  rw [h3, hw] at hup hlo
  have hw1 : w = (w - 1) + 1 := by omega
  have hbw : bitLen (dval D) = w := by
    rw [bitLen_eq_bitlen, hw1]
    exact bitlen_unique hlo (by rw [← hw1]; exact hup)
  refine ⟨hbw, ?_, ?_⟩
  · unfold msd2Of
    split
    · rw [List.getD_eq_getElem?_getD]
      cases hg : D[D.length - 2]? with
      | none => exact B_pos
      | some v => exact hok v (List.mem_of_getElem? hg)
    · exact B_pos
  · by_cases hi : init = []
    · -- one digit
      subst hi
      have hl1 : D.length = 1 := by omega
      have hm2 : msd2Of D = 0 := by unfold msd2Of; rw [if_neg (by omega)]
      have hv : dval D = msd := by rw [h1]; simp [dval]
      have hwb : w = bitLen msd := by omega
      rw [hm2, hv, hwb, B_eq, Nat.add_zero]
    · -- at least two digits: `D = init' ++ [msd2] ++ [msd]`
      obtain ⟨init', y, h1', _, h3'⟩ := exists_snoc init hi
      have hl : D.length = init'.length + 2 := by rw [hlen, h1']; simp
      have hm2 : msd2Of D = y := by
        unfold msd2Of
        rw [if_pos (by omega)]
        rw [h1, getD_append_left_last init _ hi, h3']
      have hv : dval D = dval init' + B ^ init'.length * (y + B * msd) := by
        rw [h1, h1', dval_append, dval_append]
        simp only [dval_cons, dval_nil, List.length_append, List.length_singleton, Nat.mul_zero,
          Nat.add_zero]
        rw [Nat.pow_succ, Nat.mul_add, Nat.mul_assoc, Nat.add_assoc]
      have hok' : digitsOk init' := fun d hd => hok d (by rw [h1, h1']; simp [hd])
      have hlow := dval_lt hok'
      have hP := B_pow_pos init'.length
      -- `M / B^(len-2) = msd · B + msd2`
      have hdiv : dval D / B ^ init'.length = msd * B + y := by
        rw [hv, Nat.add_mul_div_left _ _ hP, Nat.div_eq_of_lt hlow, Nat.zero_add, Nat.mul_comm,
          Nat.add_comm]
      have hw2 : w - 1 = 64 + (64 * init'.length + (bitLen msd - 1)) := by omega
      rw [hm2, hw2, Nat.pow_add, Nat.mul_comm (dval D) (2 ^ 64),
        Nat.mul_div_mul_left _ _ (Nat.two_pow_pos 64), Nat.pow_add, ← Nat.div_div_eq_div_mul,
        ← B_pow, hdiv]

/-! ## C. rounding an odd mantissa -/

/-- the 53-bit significand (with the leading one, `2^52 ≤ q ≤ 2^53`) of the correctly rounded
value of `M` -/
def sig53 (M : Nat) : Nat :=
  if bitLen M ≤ 53 then M * 2 ^ (53 - bitLen M) else rne M (bitLen M - 53)

/-- **the rounding step is correct for an odd mantissa**: from the 64 bits after the leading one
(`T65 − 2^64` with `T65 = ⌊M · 2^64 / 2^(w-1)⌋`) the code computes the fraction of the
round-to-nearest-even significand -/
theorem fracRounded_spec {M : Nat} (hodd : M % 2 = 1) :
    fracRounded (M * 2 ^ 64 / 2 ^ (bitLen M - 1) - 2 ^ 64) (bitLen M) + 2 ^ 52 = sig53 M := by
  have hM0 : M ≠ 0 := by intro h; subst h; simp at hodd
  have hw := bitLen_pos hM0
  have hlo := two_pow_bitLen_le hM0
  have hup := lt_two_pow_bitLen M
  -- `T65 ∈ [2^64, 2^65)`
  have hT1 : 2 ^ 64 ≤ M * 2 ^ 64 / 2 ^ (bitLen M - 1) := by
    rw [Nat.le_div_iff_mul_le (Nat.two_pow_pos _), Nat.mul_comm]
    exact Nat.mul_le_mul_right _ hlo
  have hT2 : M * 2 ^ 64 / 2 ^ (bitLen M - 1) < 2 ^ 65 := by
    rw [Nat.div_lt_iff_lt_mul (Nat.two_pow_pos _), ← Nat.pow_add,
      show 65 + (bitLen M - 1) = bitLen M + 64 by omega, Nat.pow_add]
    exact Nat.mul_lt_mul_of_pos_right hup (Nat.two_pow_pos _)
  unfold fracRounded sig53
  simp only [Nat.shiftRight_eq_div_pow, Nat.and_one_is_mod,
    show 64 - 52 = 12 from rfl, show 12 - 1 = 11 from rfl, show 53 + 1 = 54 from rfl]
  generalize hT : M * 2 ^ 64 / 2 ^ (bitLen M - 1) = T at hT1 hT2
  have h64 : (2 : Nat) ^ 64 = 18446744073709551616 := by decide
  have h65 : (2 : Nat) ^ 65 = 36893488147419103232 := by decide
  have h52 : (2 : Nat) ^ 52 = 4503599627370496 := by decide
  have h12 : (2 : Nat) ^ 12 = 4096 := by decide
  have h11 : (2 : Nat) ^ 11 = 2048 := by decide
  rw [h64] at hT1
  rw [h65] at hT2
  by_cases hle : bitLen M ≤ 53
  · -- nothing is lost
    rw [if_pos hle, if_neg (by omega)]
    have hTq : T = M * 2 ^ (53 - bitLen M) * 2 ^ 12 := by
      rw [← hT, Nat.mul_assoc, ← Nat.pow_add,
        show 64 = (65 - bitLen M) + (bitLen M - 1) by omega, Nat.pow_add, ← Nat.mul_assoc,
        Nat.mul_div_cancel _ (Nat.two_pow_pos _)]
      congr 2; omega
    rw [h64, h12, h11, h52]
    rw [h12] at hTq
    generalize M * 2 ^ (53 - bitLen M) = q at hTq
    omega
  · rw [if_neg hle]
    -- `T / 2^12 = M / 2^(w-53)`, `T / 2^11 = M / 2^(w-54)`
    have hq : T / 2 ^ 12 = M / 2 ^ (bitLen M - 53) := by
      rw [← hT, Nat.div_div_eq_div_mul, ← Nat.pow_add,
        show bitLen M - 1 + 12 = (bitLen M - 53) + 64 by omega, Nat.pow_add,
        Nat.mul_div_mul_right _ _ (Nat.two_pow_pos 64)]
    have hr : T / 2 ^ 11 = M / 2 ^ (bitLen M - 54) := by
      rw [← hT, Nat.div_div_eq_div_mul, ← Nat.pow_add,
        show bitLen M - 1 + 11 = (bitLen M - 54) + 64 by omega, Nat.pow_add,
        Nat.mul_div_mul_right _ _ (Nat.two_pow_pos 64)]
    rw [h12] at hq
    rw [h11] at hr
    rw [h64, h12, h11, h52]
    have e1 : (T - 18446744073709551616) / 4096 = T / 4096 - 4503599627370496 := by omega
    have e2 : (T - 18446744073709551616) / 2048 % 2 = T / 2048 % 2 := by omega
    have hqlo : 4503599627370496 ≤ T / 4096 := by omega
    rw [e1, e2, hq, hr]
    rw [hq] at hqlo
    by_cases h54 : bitLen M = 54
    · -- exactly one bit is lost, and it is the lowest bit of an odd number: a tie
      rw [if_pos h54, h54]
      rw [h54] at hqlo
      simp only [show 54 - 53 = 1 from rfl, Nat.pow_one] at hqlo ⊢
      unfold rne
      simp only [Nat.pow_one]
      by_cases hq2 : M / 2 % 2 = 1
      · rw [if_pos (by omega)]; omega
      · rw [if_neg (by omega)]; omega
    · -- more than one bit is lost: the lowest bit (a one) lies below the round bit
      rw [if_neg h54]
      obtain ⟨s, hs⟩ : ∃ s, bitLen M - 54 = s + 1 := ⟨bitLen M - 55, by omega⟩
      have hs2 : bitLen M - 53 = s + 2 := by omega
      rw [hs2] at hqlo
      rw [hs, hs2]
      have hsplit : M % 2 ^ (s + 2) = M % 2 ^ (s + 1) + 2 ^ (s + 1) * (M / 2 ^ (s + 1) % 2) :=
        Nat.mod_pow_succ
      have hlow_lt : M % 2 ^ (s + 1) < 2 ^ (s + 1) := Nat.mod_lt _ (Nat.two_pow_pos _)
      have hlow_odd : M % 2 ^ (s + 1) % 2 = 1 := by
        rw [Nat.mod_mod_of_dvd _ (by rw [Nat.pow_succ]; exact Nat.dvd_mul_left _ _)]; exact hodd
      have hp2 : 2 ^ (s + 2) = 2 * 2 ^ (s + 1) := by rw [Nat.pow_succ]; omega
      unfold rne
      simp only []
      generalize 2 ^ (s + 1) = P at *
      generalize 2 ^ (s + 2) = P2 at *
      generalize M % P2 = r2 at *
      generalize M % P = r1 at *
      generalize M / P2 = q at *
      by_cases hb : M / P % 2 = 1
      · rw [hb, Nat.mul_one] at hsplit
        rw [hb, if_pos (Or.inl (by omega))]
        omega
      · have hb0 : M / P % 2 = 0 := by omega
        rw [hb0, Nat.mul_zero] at hsplit
        rw [hb0, if_neg (by omega)]
        omega

theorem sig53_range {M : Nat} (hM0 : M ≠ 0) : 2 ^ 52 ≤ sig53 M ∧ sig53 M ≤ 2 ^ 53 := by
  have hw := bitLen_pos hM0
  have hlo := two_pow_bitLen_le hM0
  have hup := lt_two_pow_bitLen M
  unfold sig53
  split
  · rename_i hle
    constructor
    · have : 2 ^ 52 = 2 ^ (bitLen M - 1) * 2 ^ (53 - bitLen M) := by
        rw [← Nat.pow_add]; congr 1; omega
      rw [this]; exact Nat.mul_le_mul_right _ hlo
    · have : 2 ^ 53 = 2 ^ bitLen M * 2 ^ (53 - bitLen M) := by
        rw [← Nat.pow_add]; congr 1; omega
      rw [this]; exact Nat.mul_le_mul_right _ (Nat.le_of_lt hup)
  · rename_i hgt
    constructor
    · have := pow_le_rne (m := M) (s := bitLen M - 53) (k := bitLen M - 1) (by omega) hlo
      rwa [show bitLen M - 1 - (bitLen M - 53) = 52 by omega] at this
    · have := rne_le_pow (m := M) (s := bitLen M - 53) (k := bitLen M) (by omega) (Nat.le_of_lt hup)
      rwa [show bitLen M - (bitLen M - 53) = 53 by omega] at this

/-- the rounded value of `M` (no overflow check) is its 53-bit significand at the right place -/
theorem rnd_eq_sig53 (M : Nat) (j : Nat) (hj : 53 ≤ bitLen M + j) :
    rnd M * 2 ^ j = sig53 M * 2 ^ (bitLen M + j - 53) := by
  unfold rnd sig53
  rw [← bitLen_eq_bitlen]
  split
  · rename_i hle
    rw [show bitLen M - 53 = 0 by omega, rne_zero_right, Nat.pow_zero, Nat.mul_one, Nat.mul_assoc,
      ← Nat.pow_add]
    congr 2; omega
  · rename_i hgt
    rw [Nat.mul_assoc, ← Nat.pow_add]
    congr 2; omega

/-! ## D. the saturating `bit_width` -/

theorem bitWidthSat_spec {len shl lz : Nat} (hlz : lz ≤ 64) (hlen : 1 ≤ len) :
    (bitWidthSat len shl lz > 1024 ↔ 64 * len + shl - lz > 1024)
    ∧ (bitWidthSat len shl lz ≤ 1024 → bitWidthSat len shl lz = 64 * len + shl - lz) := by
  unfold bitWidthSat satAdd64 satMul64 MAX64
  split <;> split <;> constructor <;> (try intro h) <;> omega

/-! ## E. bit patterns -/

/-- the bit pattern of the finite value `q · 2^s` units with a 53-bit significand `q` (the case
`q = 2^53` is the carry into the exponent) -/
theorem toBits_fin_sig {q s : Nat} (h1 : 2 ^ 52 ≤ q) (h2 : q ≤ 2 ^ 53) :
    (F.fin (q * 2 ^ s)).toBits = some (s * 2 ^ 52 + q) := by
  have hq0 : q ≠ 0 := by have := Nat.two_pow_pos 52; omega
  unfold F.toBits
  simp only []
  rw [bitlen_mul_pow hq0]
  by_cases hq : q = 2 ^ 53
  · subst hq
    have e : (2 : Nat) ^ 53 * 2 ^ s = 2 ^ 52 * 2 ^ (s + 1) := by
      rw [← Nat.pow_add, ← Nat.pow_add]; congr 1; omega
    rw [bitlen_two_pow, show 53 + 1 + s - 53 = s + 1 by omega, Nat.shiftRight_eq_div_pow, e,
      Nat.mul_div_cancel _ (Nat.two_pow_pos _)]
    have : (2 : Nat) ^ 53 = 2 * 2 ^ 52 := Nat.pow_succ'
    rw [this]
    generalize (2 : Nat) ^ 52 = c
    congr 1
    rw [Nat.add_mul]; omega
  · have hb : bitlen q = 53 := bitlen_unique h1 (by omega)
    rw [hb, show 53 + s - 53 = s by omega, Nat.shiftRight_eq_div_pow,
      Nat.mul_div_cancel _ (Nat.two_pow_pos _)]

/-- `round53` of a natural number in the form used below -/
theorem ofNat_eq (x : Nat) : ofNat x = F64C.mk (rnd x * 2 ^ 1074) := by
  unfold ofNat round53
  simp only []
  rw [if_pos (by omega), show ((0 : Int) + 1074).toNat = 1074 by decide, roundU_zero_t, rnd_mul_pow]

end NatF64

end OxiddModel.Num
