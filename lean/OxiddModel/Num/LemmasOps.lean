import OxiddModel.Num.LemmasAdd

/-!
Conversions into `Natural`, shifts, conversions to machine integers.
-/
namespace OxiddModel.Num
open Natural

/-! ### `From<u64>`, `From<u128>` -/

theorem odd_part_split {v t : Nat} (h : v % 2 ^ t = 0) : v = v / 2 ^ t * 2 ^ t := by
  have := Nat.div_add_mod v (2 ^ t)
  rw [h, Nat.add_zero, Nat.mul_comm] at this
  exact this.symm

theorem ofU64_spec {v : Nat} (hv : v < B) : NF (ofU64 v) ∧ (ofU64 v).val = some v := by
  unfold ofU64 shlAmount fromMantissaSingleWithShl
  by_cases h0 : v = 0
  · subst h0
    simp only [if_true, Nat.shiftRight_zero]
    exact ⟨⟨by decide, B_pos, fun _ => Or.inl rfl, fun h => absurd rfl h⟩, by
      rw [val_of_not_nan (by decide)]; simp [Natural.mantissaRaw]⟩
  · rw [if_neg h0]
    obtain ⟨t1, t2, t3⟩ := tz64_spec h0 hv
    simp only []
    rw [Nat.shiftRight_eq_div_pow]
    have hle : v / 2 ^ tz64 v ≤ v := Nat.div_le_self _ _
    have hM : tz64 v ≤ MAX64 := by have : (64:Nat) ≤ MAX64 := by decide
                                   omega
    refine ⟨⟨hM, by omega, fun h => by omega, fun _ => t3⟩, ?_⟩
    rw [val_of_not_nan (by
      show tz64 v ≠ MAX64
      have : (64:Nat) < MAX64 := by decide
      omega)]
    simp only [Natural.mantissaRaw, dval_cons, dval_nil, Nat.mul_zero, Nat.add_zero]
    rw [← odd_part_split t2]

theorem lz128_ge_iff {v s : Nat} (hv : v < 2 ^ 128) (_hs : s ≤ 64) :
    lz128 v + s ≥ 64 ↔ v < 2 ^ (64 + s) := by
  unfold lz128
  have h1 := bitLen_le_iff v (64 + s)
  have h2 : bitLen v ≤ 128 := (bitLen_le_iff v 128).2 hv
  omega

theorem ofU128_spec {v : Nat} (hv : v < 2 ^ 128) : NF (ofU128 v) ∧ (ofU128 v).val = some v := by
  unfold ofU128
  by_cases h0 : v = 0
  · subst h0
    simp only [if_true]
    exact ⟨⟨by decide, B_pos, fun _ => Or.inl rfl, fun h => absurd rfl h⟩, by
      rw [val_of_not_nan (by decide)]; simp [Natural.mantissaRaw, ZERO]⟩
  · rw [if_neg h0]
    obtain ⟨t1, t2, t3⟩ := tz128_spec h0 hv
    simp only []
    have hMAX : (128 : Nat) < MAX64 := by decide
    have hsplit := odd_part_split t2
    rw [Nat.shiftRight_eq_div_pow]
    by_cases hsmall : lz128 v + tz128 v ≥ 64
    · rw [if_pos hsmall]
      -- the odd part fits one digit
      have hlt : v / 2 ^ tz128 v < B := by
        by_cases ht : tz128 v ≤ 64
        · have := (lz128_ge_iff hv ht).1 hsmall
          rw [Nat.div_lt_iff_lt_mul (Nat.two_pow_pos _), B_eq, ← Nat.pow_add]
          exact this
        · rw [Nat.div_lt_iff_lt_mul (Nat.two_pow_pos _), B_eq, ← Nat.pow_add]
          exact Nat.lt_of_lt_of_le hv (Nat.pow_le_pow_right (by decide) (by omega))
      rw [Nat.mod_eq_of_lt hlt]
      refine ⟨⟨by show tz128 v ≤ MAX64; omega, hlt, fun h => ?_, fun _ => t3⟩, ?_⟩
      · rw [h] at t3; cases t3
      · rw [val_of_not_nan (by show tz128 v ≠ MAX64; omega)]
        simp only [fromMantissaSingleWithShl, Natural.mantissaRaw, dval_cons, dval_nil, Nat.mul_zero,
          Nat.add_zero]
        rw [← hsplit]
    · rw [if_neg hsmall]
      have ht : tz128 v ≤ 64 := by
        apply Classical.byContradiction
        intro h
        unfold lz128 at hsmall
        omega
      have hge : B ≤ v / 2 ^ tz128 v := by
        have : ¬ v < 2 ^ (64 + tz128 v) := fun h => hsmall ((lz128_ge_iff hv ht).2 h)
        rw [Nat.le_div_iff_mul_le (Nat.two_pow_pos _), B_eq, ← Nat.pow_add]
        omega
      have hlt : v / 2 ^ tz128 v < B * B := by
        have : v / 2 ^ tz128 v ≤ v := Nat.div_le_self _ _
        have : (2:Nat) ^ 128 = B * B := by decide
        omega
      rw [Nat.shiftRight_eq_div_pow, ← B_eq]
      have hhi : v / 2 ^ tz128 v / B < B := by
        rw [Nat.div_lt_iff_lt_mul B_pos]; exact hlt
      rw [Nat.mod_eq_of_lt hhi]
      have hdv : v / 2 ^ tz128 v % B + B * (v / 2 ^ tz128 v / B) = v / 2 ^ tz128 v := Nat.mod_add_div _ _
      refine ⟨⟨by show tz128 v ≤ MAX64; omega, by simp, ?_, ?_, ?_, ?_⟩, ?_⟩
      · exact digitsOk_cons.2 ⟨Nat.mod_lt _ B_pos, digitsOk_cons.2 ⟨hhi, digitsOk_nil⟩⟩
      · simp only [List.headD_cons]
        rw [Nat.mod_mod_of_dvd _ ⟨B / 2, by decide⟩]; exact t3
      · intro h
        simp only [getLastD_cons_cons, getLastD_singleton] at h
        have : B ≤ v / 2 ^ tz128 v := hge
        have := (Nat.div_eq_zero_iff_lt B_pos).1 h
        omega
      · simp only [dval_cons, dval_nil, Nat.mul_zero, Nat.add_zero]; omega
      · rw [val_of_not_nan (by show tz128 v ≠ MAX64; omega)]
        simp only [fromMantissaWithShl, Natural.mantissaRaw, dval_cons, dval_nil, Nat.mul_zero,
          Nat.add_zero]
        rw [hdv, ← hsplit]


/-! ### shifts -/

theorem nf_with_shl {a : Natural} (ha : NF a) (h0 : a.len ≠ 0) {s : Nat} (hs : s ≤ MAX64) :
    NF { a with shl := s } := by
  obtain ⟨_, hm⟩ := ha
  refine ⟨hs, ?_⟩
  cases hmant : a.mant with
  | inl m =>
    rw [hmant] at hm
    simp only [Natural.len, hmant] at h0
    exact ⟨hm.1, fun h => absurd h h0, hm.2.2⟩
  | heap ds =>
    rw [hmant] at hm
    exact hm

theorem mantissaRaw_with_shl (a : Natural) (s : Nat) : ({ a with shl := s } : Natural).mantissaRaw = a.mantissaRaw := rfl

/-- `Shl`: multiplication by `2^k`; the error value iff the exponent leaves the `u64` range
(`a ≠ 0` and `a.shl + k ≥ u64::MAX`) -/
theorem shiftLeft_spec (a : Natural) (k : Nat) (ha : NF a) :
    NF (a.shiftLeft k)
    ∧ (a.val = none → (a.shiftLeft k).val = none)
    ∧ (∀ x, a.val = some x →
        (Representable (x * 2 ^ k) → (a.shiftLeft k).val = some (x * 2 ^ k))
        ∧ (¬ Representable (x * 2 ^ k) → (a.shiftLeft k).val = none)
        ∧ ((a.shiftLeft k).val = none ↔ (x ≠ 0 ∧ a.shl + k ≥ MAX64))) := by
  unfold shiftLeft
  by_cases h0 : a.len = 0
  · simp only [h0, ne_eq, not_true_eq_false, if_false]
    refine ⟨ha, fun h => h, ?_⟩
    intro x hx
    have hnn : a.shl ≠ MAX64 := by
      intro h; rw [val_of_nan h] at hx; cases hx
    rw [nf_len_zero ha h0 hnn] at hx
    cases hx
    simp only [Nat.zero_mul]
    refine ⟨fun _ => nf_len_zero ha h0 hnn, fun h => absurd (Or.inl rfl) h, ?_⟩
    rw [nf_len_zero ha h0 hnn]; simp
  · simp only [h0, ne_eq, not_false_eq_true, if_true]
    have hsat : satAdd64 a.shl k ≤ MAX64 := by unfold satAdd64; split <;> omega
    refine ⟨nf_with_shl ha h0 hsat, ?_, ?_⟩
    · intro h
      have := (val_eq_none_iff a).1 h
      apply val_of_nan
      show satAdd64 a.shl k = MAX64
      unfold satAdd64; split <;> omega
    · intro x hx
      have hnn : a.shl ≠ MAX64 := by
        intro h; rw [val_of_nan h] at hx; cases hx
      obtain ⟨hodd, hlt⟩ := nf_val_odd ha h0 hnn
      rw [val_of_not_nan hnn] at hx
      cases hx
      have hx0 : dval a.mantissaRaw * 2 ^ a.shl ≠ 0 := odd_mul_two_pow_ne_zero hodd
      rw [Nat.mul_assoc, ← Nat.pow_add, representable_odd_iff hodd]
      by_cases hov : a.shl + k < MAX64
      · have hs : satAdd64 a.shl k = a.shl + k := by unfold satAdd64; rw [if_neg (by omega)]
        have hv : ({ a with shl := satAdd64 a.shl k } : Natural).val
            = some (dval a.mantissaRaw * 2 ^ (a.shl + k)) := by
          rw [val_of_not_nan (by show satAdd64 a.shl k ≠ MAX64; omega), mantissaRaw_with_shl]
          show some (dval a.mantissaRaw * 2 ^ satAdd64 a.shl k) = _
          rw [hs]
        refine ⟨fun _ => hv, fun h => absurd hov h, ?_⟩
        rw [hv]; simp; omega
      · have hs : satAdd64 a.shl k = MAX64 := by unfold satAdd64; split <;> omega
        have hv : ({ a with shl := satAdd64 a.shl k } : Natural).val = none := val_of_nan hs
        refine ⟨fun h => absurd h hov, fun _ => hv, ?_⟩
        rw [hv]; simp; exact ⟨hx0, by omega⟩

theorem odd_not_dvd {M s k : Nat} (hM : M % 2 = 1) (hk : s < k) : ¬ 2 ^ k ∣ M * 2 ^ s := by
  intro h
  rw [show k = (k - s) + s by omega, Nat.pow_add] at h
  have h2 := Nat.dvd_of_mul_dvd_mul_right (Nat.two_pow_pos s) h
  have h3 : 2 ∣ 2 ^ (k - s) := by
    rw [show k - s = (k - s - 1) + 1 by omega, Nat.pow_succ]; exact Nat.dvd_mul_left _ _
  have := Nat.dvd_trans h3 h2
  omega

/-- `Shr`: exact division by `2^k`, the error value iff a one bit would be shifted out -/
theorem shiftRight_spec (a : Natural) (k : Nat) (ha : NF a) :
    NF (a.shiftRight k)
    ∧ (a.val = none → (a.shiftRight k).val = none)
    ∧ (∀ x, a.val = some x →
        (2 ^ k ∣ x → (a.shiftRight k).val = some (x / 2 ^ k))
        ∧ (¬ 2 ^ k ∣ x → (a.shiftRight k).val = none)) := by
  unfold shiftRight
  have hshl := ha.1
  by_cases hge : a.shl ≥ k
  · rw [if_pos hge]
    by_cases hnn : a.shl ≠ MAX64
    · rw [if_pos hnn]
      have hnf : NF { a with shl := a.shl - k } := by
        by_cases h0 : a.len = 0
        · -- zero: the exponent is 0, so is k
          obtain ⟨_, hm⟩ := ha
          refine ⟨by show a.shl - k ≤ MAX64; omega, ?_⟩
          cases hmant : a.mant with
          | inl m =>
            rw [hmant] at hm
            simp only [Natural.len, hmant] at h0
            subst h0
            have := hm.2.1 rfl
            refine ⟨hm.1, fun _ => Or.inl ?_, hm.2.2⟩
            show a.shl - k = 0
            omega
          | heap ds => rw [hmant] at hm; exact hm
        · exact nf_with_shl ha h0 (by omega)
      refine ⟨hnf, fun h => absurd ((val_eq_none_iff a).1 h) hnn, ?_⟩
      intro x hx
      rw [val_of_not_nan hnn] at hx
      cases hx
      have hd : 2 ^ k ∣ dval a.mantissaRaw * 2 ^ a.shl := by
        rw [show a.shl = (a.shl - k) + k by omega, Nat.pow_add, ← Nat.mul_assoc]
        exact Nat.dvd_mul_left _ _
      refine ⟨fun _ => ?_, fun h => absurd hd h⟩
      rw [val_of_not_nan (by show a.shl - k ≠ MAX64; omega), mantissaRaw_with_shl]
      show some (dval a.mantissaRaw * 2 ^ (a.shl - k)) = _
      congr 1
      rw [show dval a.mantissaRaw * 2 ^ a.shl = dval a.mantissaRaw * 2 ^ (a.shl - k) * 2 ^ k by
        rw [Nat.mul_assoc, ← Nat.pow_add, show a.shl - k + k = a.shl by omega]]
      rw [Nat.mul_div_cancel _ (Nat.two_pow_pos k)]
    · rw [if_neg hnn]
      have hnan : a.shl = MAX64 := by omega
      refine ⟨ha, fun h => h, ?_⟩
      intro x hx
      rw [val_of_nan hnan] at hx; cases hx
  · rw [if_neg hge]
    by_cases h0 : a.len = 0
    · simp only [h0, ne_eq, not_true_eq_false, if_false]
      refine ⟨ha, fun h => h, ?_⟩
      intro x hx
      have hnn : a.shl ≠ MAX64 := by
        intro h; rw [val_of_nan h] at hx; cases hx
      rw [nf_len_zero ha h0 hnn] at hx
      cases hx
      exact ⟨fun _ => by rw [nf_len_zero ha h0 hnn]; simp, fun h => absurd (Nat.dvd_zero _) h⟩
    · simp only [h0, ne_eq, not_false_eq_true, if_true]
      have hv : ({ a with shl := MAX64 } : Natural).val = none := val_of_nan rfl
      refine ⟨nf_with_shl ha h0 (Nat.le_refl _), fun _ => hv, ?_⟩
      intro x hx
      have hnn : a.shl ≠ MAX64 := by
        intro h; rw [val_of_nan h] at hx; cases hx
      obtain ⟨hodd, _⟩ := nf_val_odd ha h0 hnn
      rw [val_of_not_nan hnn] at hx
      cases hx
      exact ⟨fun h => absurd h (odd_not_dvd hodd (by omega)), fun _ => hv⟩


/-! ### conversions to machine integers -/

/-- `TryFrom<&Natural> for u64`: succeeds exactly for the values below `2^64` -/
theorem toU64_spec (n : Natural) (hn : NF n) :
    (∀ v, n.toU64 = some v → n.val = some v ∧ v < B)
    ∧ (n.toU64 = none → ∀ v, n.val = some v → B ≤ v) := by
  unfold toU64
  cases hm : n.mant with
  | heap ds =>
    simp only []
    refine ⟨fun v h => (by cases h), fun _ v hv => ?_⟩
    have hnn : n.shl ≠ MAX64 := by intro h; rw [val_of_nan h] at hv; cases hv
    rw [val_of_not_nan hnn] at hv
    cases hv
    have hB : B ≤ dval n.mantissaRaw := by
      simpa [Natural.mantissaRaw, hm] using (nf_heap_big hn hm).1
    exact Nat.le_trans hB (Nat.le_mul_of_pos_right _ (Nat.two_pow_pos _))
  | inl m =>
    simp only []
    have hmB := nf_inl_small hn hm
    have hraw : n.mantissaRaw = [m] := by simp [Natural.mantissaRaw, hm]
    have hlz := lz64_add_bitLen hmB
    by_cases hc : n.shl < 64 ∧ n.shl ≤ lz64 m
    · rw [if_pos hc]
      refine ⟨fun v hv => ?_, fun h => by cases h⟩
      cases hv
      have hnn : n.shl ≠ MAX64 := by
        have : (64:Nat) < MAX64 := by decide
        omega
      rw [val_of_not_nan hnn, hraw, Nat.shiftLeft_eq]
      refine ⟨by simp, ?_⟩
      have h1 := lt_two_pow_bitLen m
      have h2 : m * 2 ^ n.shl < 2 ^ (bitLen m + n.shl) := by
        rw [Nat.pow_add]; exact Nat.mul_lt_mul_of_pos_right h1 (Nat.two_pow_pos _)
      have h3 : 2 ^ (bitLen m + n.shl) ≤ 2 ^ 64 := Nat.pow_le_pow_right (by decide) (by omega)
      rw [B_eq]; omega
    · rw [if_neg hc]
      refine ⟨fun v h => (by cases h), fun _ v hv => ?_⟩
      have hnn : n.shl ≠ MAX64 := by intro h; rw [val_of_nan h] at hv; cases hv
      rw [val_of_not_nan hnn, hraw] at hv
      cases hv
      simp only [dval_cons, dval_nil, Nat.mul_zero, Nat.add_zero]
      by_cases h0 : m = 0
      · -- zero has exponent 0, the test succeeds
        subst h0
        obtain ⟨_, hmm⟩ := hn
        rw [hm] at hmm
        have := hmm.2.1 rfl
        have : lz64 0 = 64 := lz64_eq_64_iff.2 rfl
        omega
      · have h1 := two_pow_bitLen_le h0
        have hbp := bitLen_pos h0
        have h2 : 2 ^ (bitLen m - 1 + n.shl) ≤ m * 2 ^ n.shl := by
          rw [Nat.pow_add]; exact Nat.mul_le_mul_right _ h1
        have h3 : 2 ^ 64 ≤ 2 ^ (bitLen m - 1 + n.shl) := Nat.pow_le_pow_right (by decide) (by omega)
        rw [B_eq]; omega


theorem or_shl64 {d0 d1 : Nat} (h : d0 < B) : d0 ||| d1 <<< 64 = d0 + B * d1 := by
  rw [Nat.or_comm, ← Nat.shiftLeft_add_eq_or_of_lt (by rw [← B_eq]; exact h), Nat.shiftLeft_eq, ← B_eq]
  rw [Nat.mul_comm]; omega

/-- `TryFrom<&Natural> for u128`: succeeds exactly for the values below `2^128` -/
theorem toU128_spec (n : Natural) (hn : NF n) :
    (∀ v, n.toU128 = some v → n.val = some v ∧ v < 2 ^ 128)
    ∧ (n.toU128 = none → ∀ v, n.val = some v → 2 ^ 128 ≤ v) := by
  unfold toU128
  simp only []
  have hcond : (n.mantissaRaw.length * 64 - lz64 (n.mantissaRaw.getLastD 0) + n.shl ≤ 128)
      ↔ bwOf n.mantissaRaw + n.shl ≤ 128 := by unfold bwOf; rw [Nat.mul_comm]
  simp only [hcond]
  by_cases hc : n.shl < 128 ∧ n.mantissaRaw.length ≤ 3 ∧ bwOf n.mantissaRaw + n.shl ≤ 128
  · rw [if_pos hc]
    refine ⟨fun v hv => ?_, fun h => (by cases h)⟩
    cases hv
    obtain ⟨c1, c2, c3⟩ := hc
    have hnn : n.shl ≠ MAX64 := by
      have : (128:Nat) < MAX64 := by decide
      omega
    rw [val_of_not_nan hnn]
    have hok : digitsOk n.mantissaRaw ∧ n.mantissaRaw ≠ [] := by
      cases hm : n.mant with
      | inl m =>
        simp only [Natural.mantissaRaw, hm]
        exact ⟨digitsOk_cons.2 ⟨nf_inl_small hn hm, digitsOk_nil⟩, by simp⟩
      | heap ds =>
        obtain ⟨_, hmm⟩ := hn
        rw [hm] at hmm
        simp only [Natural.mantissaRaw, hm]
        exact ⟨hmm.2.1, by intro h; rw [h] at hmm; simp at hmm⟩
    have hup := dval_lt_two_pow n.mantissaRaw hok.2 hok.1
    have hdv : n.mantissaRaw.headD 0 ||| n.mantissaRaw.getD 1 0 <<< 64 = dval n.mantissaRaw := by
      generalize n.mantissaRaw = D at *
      match D, hok, c2, c3 with
      | [], hok, _, _ => exact absurd rfl hok.2
      | [d0], hok, _, _ =>
        have := (digitsOk_cons.1 hok.1).1
        simp
      | [d0, d1], hok, _, _ =>
        have := (digitsOk_cons.1 hok.1).1
        simp [or_shl64 this]
      | [d0, d1, d2], hok, _, c3 =>
        have := (digitsOk_cons.1 hok.1).1
        have hz : d2 = 0 := by
          have h1 : lz64 d2 ≤ 64 := lz64_le d2
          have h2 : lz64 d2 = 64 := by
            unfold bwOf at c3
            simp only [List.length_cons, List.length_nil, getLastD_cons_cons, getLastD_singleton] at c3
            omega
          exact lz64_eq_64_iff.1 h2
        subst hz
        simp [or_shl64 this]
      | _ :: _ :: _ :: _ :: _, _, c2, _ => simp at c2
    rw [hdv, Nat.shiftLeft_eq]
    refine ⟨rfl, ?_⟩
    have h1 : dval n.mantissaRaw * 2 ^ n.shl < 2 ^ (bwOf n.mantissaRaw + n.shl) := by
      rw [Nat.pow_add]; exact Nat.mul_lt_mul_of_pos_right hup (Nat.two_pow_pos _)
    exact Nat.lt_of_lt_of_le h1 (Nat.pow_le_pow_right (by decide) c3)
  · rw [if_neg hc]
    refine ⟨fun v h => (by cases h), fun _ v hv => ?_⟩
    have hnn : n.shl ≠ MAX64 := by intro h; rw [val_of_nan h] at hv; cases hv
    by_cases h0 : n.len = 0
    · -- zero passes the test
      exfalso; apply hc
      have hz : n.mantissaRaw = [0] ∧ n.shl = 0 := by
        cases hm : n.mant with
        | inl m =>
          simp only [Natural.len, hm] at h0
          subst h0
          obtain ⟨_, hmm⟩ := hn
          rw [hm] at hmm
          have := hmm.2.1 rfl
          exact ⟨by simp [Natural.mantissaRaw, hm], by omega⟩
        | heap ds =>
          have := (nf_heap_big hn hm).2
          simp only [Natural.len, hm] at h0; omega
      rw [hz.1, hz.2]
      have : lz64 0 = 64 := lz64_eq_64_iff.2 rfl
      unfold bwOf
      simp [this]
    · have f := nf_mant_facts hn h0
      obtain ⟨b1, b2, b3, b4⟩ := bwOf_bounds f
      rw [val_of_not_nan hnn] at hv
      cases hv
      have hlo : 2 ^ (bwOf n.mantissaRaw - 1 + n.shl) ≤ dval n.mantissaRaw * 2 ^ n.shl := by
        rw [Nat.pow_add]; exact Nat.mul_le_mul_right _ f.lower
      have : 128 ≤ bwOf n.mantissaRaw - 1 + n.shl := by
        apply Classical.byContradiction
        intro h
        apply hc
        omega
      exact Nat.le_trans (Nat.pow_le_pow_right (by decide) this) hlo

end OxiddModel.Num
