import OxiddModel.Num.LemmasBits

/-!
`Saturating<u64>` / `Saturating<u128>`: exact below the marker `T::MAX`, the marker otherwise, and
the marker is absorbing.
-/
namespace OxiddModel.Num
namespace Sat
variable {bits : Nat}

/-- the stored integer is a `bits`-bit value -/
def WF (a : Sat bits) : Prop := a.val ≤ max bits

theorem max_succ (bits : Nat) : max bits + 1 = 2 ^ bits := by
  unfold max; have := Nat.two_pow_pos bits; omega

theorem toNat?_none_iff (a : Sat bits) : a.toNat? = none ↔ a.val = max bits := by
  unfold toNat?; split <;> simp_all

theorem toNat?_some_iff (a : Sat bits) (x : Nat) : a.toNat? = some x ↔ a.val = x ∧ x ≠ max bits := by
  unfold toNat?
  split
  · rename_i h; constructor
    · intro h'; cases h'
    · rintro ⟨h1, h2⟩; omega
  · rename_i h; constructor
    · intro h'; cases h'; exact ⟨rfl, h⟩
    · rintro ⟨h1, _⟩; rw [h1]

/-- `Add`: exact while the sum stays below the marker, the marker otherwise; the marker is
absorbing -/
theorem add_spec (a b : Sat bits) (_ha : WF a) (_hb : WF b) :
    WF (a.add b)
    ∧ ((a.toNat? = none ∨ b.toNat? = none) → (a.add b).toNat? = none)
    ∧ (∀ x y, a.toNat? = some x → b.toNat? = some y →
        (x + y < max bits → (a.add b).toNat? = some (x + y))
        ∧ (max bits ≤ x + y → (a.add b).toNat? = none)) := by
  unfold WF at *
  refine ⟨?_, ?_, ?_⟩
  · unfold add; simp only; split <;> omega
  · intro h
    rw [toNat?_none_iff, toNat?_none_iff] at h
    rw [toNat?_none_iff]
    unfold add; simp only; split <;> omega
  · intro x y hx hy
    rw [toNat?_some_iff] at hx hy
    obtain ⟨hx1, hx2⟩ := hx
    obtain ⟨hy1, hy2⟩ := hy
    subst hx1; subst hy1
    constructor
    · intro h
      rw [toNat?_some_iff]
      unfold add; simp only; rw [if_neg (by omega)]
      exact ⟨rfl, by omega⟩
    · intro h
      rw [toNat?_none_iff]
      unfold add; simp only; split <;> omega

/-- `Shl<u32>`: exact while `x · 2^k` stays below the marker, the marker otherwise; the marker is
absorbing -/
theorem shl_spec (a : Sat bits) (k : Nat) (hbits : 1 ≤ bits) (ha : WF a) :
    WF (a.shl k)
    ∧ (a.toNat? = none → (a.shl k).toNat? = none)
    ∧ (∀ x, a.toNat? = some x →
        (x * 2 ^ k < max bits → (a.shl k).toNat? = some (x * 2 ^ k))
        ∧ (max bits ≤ x * 2 ^ k → (a.shl k).toNat? = none)) := by
  unfold WF at *
  have hms := max_succ bits
  have hmpos : 1 ≤ max bits := by
    have : 2 ^ 1 ≤ 2 ^ bits := Nat.pow_le_pow_right (by decide) hbits
    omega
  have hmodd : max bits % 2 = 1 := by
    have : 2 ^ bits % 2 = 0 := by
      rw [show bits = (bits - 1) + 1 by omega, Nat.pow_succ]; exact Nat.mul_mod_left _ _
    omega
  -- the three cases of the code
  by_cases h0 : a.val = 0
  · have hv : (a.shl k).val = 0 := by unfold shl; simp [h0]
    refine ⟨by omega, ?_, ?_⟩
    · intro h; rw [toNat?_none_iff] at h; omega
    · intro x hx
      rw [toNat?_some_iff] at hx
      have : x = 0 := by omega
      subst this
      simp only [Nat.zero_mul]
      exact ⟨fun _ => (toNat?_some_iff _ _).2 ⟨hv, by omega⟩, fun h => by omega⟩
  · have hbl1 := lt_two_pow_bitLen a.val
    have hbl2 := two_pow_bitLen_le h0
    have hblpos := bitLen_pos h0
    have hblle : bitLen a.val ≤ bits := by
      rw [bitLen_le_iff]; omega
    by_cases hov : k > bits - bitLen a.val
    · have hv : (a.shl k).val = max bits := by unfold shl; simp [h0, hov]
      have hbig : 2 ^ bits ≤ a.val * 2 ^ k := by
        have h1 : 2 ^ (bitLen a.val - 1 + k) ≤ a.val * 2 ^ k := by
          rw [Nat.pow_add]; exact Nat.mul_le_mul_right _ hbl2
        exact Nat.le_trans (Nat.pow_le_pow_right (by decide) (by omega)) h1
      refine ⟨by omega, fun _ => (toNat?_none_iff _).2 hv, ?_⟩
      intro x hx
      rw [toNat?_some_iff] at hx
      obtain ⟨hx1, _⟩ := hx
      subst hx1
      exact ⟨fun h => by omega, fun _ => (toNat?_none_iff _).2 hv⟩
    · have hfit : a.val * 2 ^ k < 2 ^ bits := by
        have h1 : a.val * 2 ^ k < 2 ^ (bitLen a.val + k) := by
          rw [Nat.pow_add]; exact Nat.mul_lt_mul_of_pos_right hbl1 (Nat.two_pow_pos _)
        exact Nat.lt_of_lt_of_le h1 (Nat.pow_le_pow_right (by decide) (by omega))
      have hv : (a.shl k).val = a.val * 2 ^ k := by
        unfold shl; simp only [h0, hov, if_false]
        rw [Nat.shiftLeft_eq, Nat.mod_eq_of_lt hfit]
      refine ⟨by omega, ?_, ?_⟩
      · intro h
        rw [toNat?_none_iff] at h ⊢
        -- the marker has `bits` significant bits, so only `k = 0` gets here
        have hbl : bitLen a.val = bits := by
          have : ¬ bitLen a.val ≤ bits - 1 := by
            rw [bitLen_le_iff]
            have : 2 * 2 ^ (bits - 1) = 2 ^ bits := by
              rw [show bits = (bits - 1) + 1 by omega, Nat.pow_succ]; simp; omega
            omega
          omega
        have : k = 0 := by omega
        subst this
        rw [hv]; simpa using h
      · intro x hx
        rw [toNat?_some_iff] at hx
        obtain ⟨hx1, hx2⟩ := hx
        subst hx1
        constructor
        · intro h; exact (toNat?_some_iff _ _).2 ⟨hv, by omega⟩
        · intro h
          -- a.val * 2^k = max is impossible: max is odd, so k = 0 and a is the marker
          exfalso
          have heq : a.val * 2 ^ k = max bits := by omega
          by_cases hk : k = 0
          · subst hk; simp at heq; exact hx2 heq
          · have : a.val * 2 ^ k % 2 = 0 := by
              rw [show k = (k - 1) + 1 by omega, Nat.pow_succ, ← Nat.mul_assoc]; exact Nat.mul_mod_left _ _
            omega

/-- `Shr<u32>` (no overflow panic, i.e. `k < BITS` or the marker): floor division; the marker is
absorbing -/
theorem shr_spec (a : Sat bits) (k : Nat) (ha : WF a) :
    (a.toNat? = none → a.shr k = some a)
    ∧ (∀ x, a.toNat? = some x → k < bits → ∃ r, a.shr k = some r ∧ WF r ∧ r.toNat? = some (x / 2 ^ k))
    ∧ (∀ x, a.toNat? = some x → bits ≤ k → a.shr k = none) := by
  unfold WF at *
  refine ⟨?_, ?_, ?_⟩
  · intro h
    rw [toNat?_none_iff] at h
    unfold shr; rw [if_pos h]; congr 1; cases a; simp_all
  · intro x hx hk
    rw [toNat?_some_iff] at hx
    obtain ⟨hx1, hx2⟩ := hx
    subst hx1
    refine ⟨⟨a.val >>> k⟩, by unfold shr; rw [if_neg hx2, if_pos hk], ?_, ?_⟩
    · show a.val >>> k ≤ max bits
      rw [Nat.shiftRight_eq_div_pow]
      exact Nat.le_trans (Nat.div_le_self _ _) ha
    · rw [toNat?_some_iff]
      refine ⟨Nat.shiftRight_eq_div_pow _ _, ?_⟩
      have := Nat.div_le_self a.val (2 ^ k)
      by_cases hk0 : k = 0
      · subst hk0; simpa using hx2
      · have h2 : 2 ≤ 2 ^ k := by
          have := Nat.pow_le_pow_right (show 0 < 2 by decide) (show 1 ≤ k by omega)
          simpa using this
        have : a.val / 2 ^ k ≤ a.val / 2 := Nat.div_le_div_left h2 (by decide)
        have hmpos : a.val < max bits := by omega
        omega
  · intro x hx hk
    rw [toNat?_some_iff] at hx
    unfold shr; rw [if_neg (by omega), if_neg (by omega)]

theorem ofU32_spec (v : Nat) (hv : v < max bits) : WF (ofU32 v : Sat bits) ∧ (ofU32 v : Sat bits).toNat? = some v := by
  refine ⟨by show v ≤ max bits; omega, ?_⟩
  rw [toNat?_some_iff]; exact ⟨rfl, by omega⟩

/-- what `sat_count` computes for the `true` terminal: `1 << vars` is `2^vars` while that is below
the marker (`vars < BITS`), and the marker otherwise -/
theorem pow2_spec (vars : Nat) (hbits : 2 ≤ bits) :
    ((ofU32 1 : Sat bits).shl vars).toNat? = if vars < bits then some (2 ^ vars) else none := by
  have h1 : (1 : Nat) < max bits := by
    have : 2 ^ 2 ≤ 2 ^ bits := Nat.pow_le_pow_right (by decide) hbits
    have := max_succ bits
    omega
  obtain ⟨w, t⟩ := ofU32_spec (bits := bits) 1 h1
  obtain ⟨_, _, s3⟩ := shl_spec (ofU32 1 : Sat bits) vars (by omega) w
  obtain ⟨s3a, s3b⟩ := s3 1 t
  simp only [Nat.one_mul] at s3a s3b
  have hms := max_succ bits
  by_cases hv : vars < bits
  · rw [if_pos hv]
    apply s3a
    -- 2^vars ≤ 2^(bits-1) < 2^bits - 1
    have h2 : 2 ^ vars ≤ 2 ^ (bits - 1) := Nat.pow_le_pow_right (by decide) (by omega)
    have h3 : 2 * 2 ^ (bits - 1) = 2 ^ bits := by
      rw [show bits = (bits - 1) + 1 by omega, Nat.pow_succ]; simp; omega
    have h4 : 2 ≤ 2 ^ (bits - 1) := by
      have := Nat.pow_le_pow_right (show 0 < 2 by decide) (show 1 ≤ bits - 1 by omega)
      simpa using this
    omega
  · rw [if_neg hv]
    apply s3b
    have : 2 ^ bits ≤ 2 ^ vars := Nat.pow_le_pow_right (by decide) (by omega)
    omega

end Sat
end OxiddModel.Num
