/-!
# Number types used for model counting (`oxidd-core/src/util/num`)

Executable model of

* `Natural` (`bigint.rs`): odd mantissa (little endian `u64` digits, one digit stored inline)
  times `2^shl`, error value `shl = u64::MAX`;
* `Saturating<u64>` / `Saturating<u128>` (`mod.rs`): `T::MAX` is the out-of-range marker.

The model works at the level of the Rust code: digit lists in base `2^64`, the same case
distinctions in the same order, the same rotate/mask/carry arithmetic; loops are structural
recursions that produce the digits the Rust loop writes.  An in-place update of `l_digits` is
modelled by the list of digits written, followed by the digits of the old array that were not
overwritten.  `debug_assert!`s and arithmetic-overflow checks are not modelled (the correspondence
stream would show a `PANIC` line if one fired).

This file is self-contained (core only).  The interface used by the model-counting recursion is
`CountNum` at the end.
-/
namespace OxiddModel.Num

/-! ## `u64` primitives (arguments are `< 2^64` unless said otherwise) -/

/-- `2^64`, the digit base -/
def B : Nat := 18446744073709551616
/-- `u64::MAX` -/
def MAX64 : Nat := 18446744073709551615
/-- `u128::MAX` -/
def MAX128 : Nat := 340282366920938463463374607431768211455

/-- number of significant bits, `BITS - leading_zeros` -/
def bitLen (x : Nat) : Nat := if x = 0 then 0 else Nat.log2 x + 1

/-- `u64::leading_zeros` -/
def lz64 (x : Nat) : Nat := 64 - bitLen x
/-- `u128::leading_zeros` -/
def lz128 (x : Nat) : Nat := 128 - bitLen x

/-- trailing zeros with a bound (`fuel` = bit width of the type); `fuel` for zero -/
def tzAux : Nat → Nat → Nat
  | 0, _ => 0
  | f + 1, x => if x % 2 = 1 then 0 else tzAux f (x / 2) + 1

/-- `u64::trailing_zeros` -/
def tz64 (x : Nat) : Nat := tzAux 64 x
/-- `u128::trailing_zeros` -/
def tz128 (x : Nat) : Nat := tzAux 128 x

/-- `shl_amount`: trailing zeros, `0` for `0` -/
def shlAmount (value : Nat) : Nat := if value = 0 then 0 else tz64 value

/-- `x << s` on `u64` (bits shifted out are lost), `s < 64` -/
def shlW (x s : Nat) : Nat := (x <<< s) % B
/-- `!x` on `u64` -/
def not64 (x : Nat) : Nat := MAX64 ^^^ x
/-- `x.rotate_left(s)`, `s < 64` -/
def rotl (x s : Nat) : Nat := shlW x s ||| (x >>> (64 - s))
/-- `x.rotate_right(s)`, `s < 64` -/
def rotr (x s : Nat) : Nat := (x >>> s) ||| shlW x (64 - s)

/-- `a.carrying_add(b, c)` with the carry as `0/1`: `(sum mod 2^64, carry out)` -/
def carryingAdd (a b c : Nat) : Nat × Nat := ((a + b + c) % B, (a + b + c) / B)
/-- `a.overflowing_add(b)` -/
def overflowingAdd (a b : Nat) : Nat × Nat := ((a + b) % B, (a + b) / B)

/-- `a.saturating_add(b)` on `u64` -/
def satAdd64 (a b : Nat) : Nat := if a + b > MAX64 then MAX64 else a + b
/-- `a.saturating_mul(b)` on `u64` -/
def satMul64 (a b : Nat) : Nat := if a * b > MAX64 then MAX64 else a * b

/-! ## Representation -/

/-- the two storage forms of the mantissa -/
inductive Mant where
  /-- `ptr == DANGLING`: the field `len` *is* the mantissa -/
  | inl (m : Nat)
  /-- `ptr` points to `len = ds.length` digits, least significant first -/
  | heap (ds : List Nat)
  deriving Repr, DecidableEq, Inhabited

structure Natural where
  mant : Mant
  /-- exponent; `u64::MAX` is the error value -/
  shl : Nat
  deriving Repr, DecidableEq, Inhabited

namespace Natural

def ZERO : Natural := ⟨.inl 0, 0⟩
def NAN : Natural := ⟨.inl 0, MAX64⟩

/-- the field `len` -/
def len (n : Natural) : Nat :=
  match n.mant with
  | .inl m => m
  | .heap ds => ds.length

/-- `mantissa_raw` / `mantissa_mut`: the full digit array -/
def mantissaRaw (n : Natural) : List Nat :=
  match n.mant with
  | .inl m => [m]
  | .heap ds => ds

/-- `mantissa`: the digit array without a zero top digit -/
def mantissa (n : Natural) : List Nat :=
  match n.mant with
  | .inl m => [m]
  | .heap ds => if ds.getLastD 0 = 0 then ds.dropLast else ds

def isNan (n : Natural) : Bool := n.shl == MAX64

def exp (n : Natural) : Nat := n.shl

/-- the free function `bit_width(digits, shl)` (a `u128`) -/
def bitWidthOf (digits : List Nat) (shl : Nat) : Nat :=
  64 * digits.length - lz64 (digits.getLastD 0) + shl

/-- `Natural::bit_width` -/
def bitWidth (n : Natural) : Nat := bitWidthOf n.mantissaRaw n.shl

def fromMantissaSingleWithShl (mantissa shl : Nat) : Natural := ⟨.inl mantissa, shl⟩
def fromMantissaWithShl (mantissa : List Nat) (shl : Nat) : Natural := ⟨.heap mantissa, shl⟩

/-- writing `ds` through `mantissa_mut()` and returning `self` -/
def withDigits (n : Natural) (ds : List Nat) : Natural :=
  match n.mant with
  | .inl _ => { n with mant := .inl (ds.headD 0) }
  | .heap _ => { n with mant := .heap ds }

/-! ## Conversions into `Natural` -/

/-- `From<u64>` (also `From<u32/u16/u8>`, which widen first) -/
def ofU64 (value : Nat) : Natural :=
  let shl := shlAmount value
  fromMantissaSingleWithShl (value >>> shl) shl

/-- `From<u128>` -/
def ofU128 (value : Nat) : Natural :=
  if value = 0 then ZERO
  else
    let leading := lz128 value
    let shl := tz128 value
    if leading + shl ≥ 64 then
      fromMantissaSingleWithShl ((value >>> shl) % B) shl
    else
      let value := value >>> shl
      fromMantissaWithShl [value % B, (value >>> 64) % B] shl

/-- `while let [r @ .., 0] = digits`: remove zero digits at the top -/
def stripTop (ds : List Nat) : List Nat :=
  (ds.reverse.dropWhile (· == 0)).reverse

/-- `while let [0, r @ ..] = digits`: remove zero digits at the bottom, counting them -/
def stripBottom : List Nat → Nat → List Nat × Nat
  | 0 :: r, n => stripBottom r (n + 1)
  | ds, n => (ds, n)

/-- the `map` closure of `from_le_digits` over `digits[1..]` followed by the final `push(lower)` -/
def fromLeLoop (shrBits len : Nat) : List Nat → Nat → Nat → List Nat
  | [], lower, n => if n ≠ len then [lower] else []
  | d :: ds, lower, n =>
    let lowerMask := MAX64 >>> shrBits
    let upperMask := not64 lowerMask
    let rot := rotr d shrBits
    (lower ||| (rot &&& upperMask)) :: fromLeLoop shrBits len ds (rot &&& lowerMask) (n + 1)

/-- `from_le_digits` after the zero digits at both ends are removed: the `match digits { … }` -/
def fromLeCore (digits : List Nat) (shlDigits : Nat) : Natural :=
  match digits with
  | [] => ZERO
  | [d] =>
    let shl := tz64 d
    ⟨.inl (d >>> shl), satAdd64 shl (satMul64 shlDigits 64)⟩
  | lsd :: rest =>
    let msd := rest.getLastD 0
    let shrBits := tz64 lsd
    let shl := satMul64 shlDigits 64
    if shrBits = 0 then ⟨.heap digits, shl⟩
    else
      let shl := satAdd64 shl shrBits
      let len := digits.length - (shrBits + lz64 msd) / 64
      if len = 1 then ⟨.inl (rotr msd shrBits ||| (lsd >>> shrBits)), shl⟩
      else ⟨.heap (fromLeLoop shrBits len rest (lsd >>> shrBits) 0), shl⟩

/-- `Natural::from_le_digits` -/
def fromLeDigits (digits : List Nat) : Natural :=
  let digits := stripTop digits
  let r := stripBottom digits 0
  fromLeCore r.1 r.2

/-! ## Addition -/

/-- `u64::MAX << start_bit` -/
def upperMaskL (sb : Nat) : Nat := shlW MAX64 sb
/-- `!upper_mask` -/
def lowerMaskL (sb : Nat) : Nat := not64 (upperMaskL sb)

/-- carry propagation through the rest of `l_digits`: `(*l, carry) = l.overflowing_add(carry)` -/
def propagate : List Nat → Nat → List Nat
  | [], _ => []
  | l :: ls, c => (overflowingAdd l c).1 :: propagate ls (overflowingAdd l c).2

/-- different exponents, in-place variant: the zipped loop over `l_digits[start_digit..]` and
`r_digits`, then `l_digits.get_mut(start_digit + r_digits.len())` and the carry propagation -/
def zipInPlace (sb : Nat) : List Nat → List Nat → Nat → Nat → List Nat
  | l :: ls, r :: rs, lower, carry =>
    let rot := rotl r sb
    let res := carryingAdd l ((rot &&& upperMaskL sb) ||| lower) carry
    res.1 :: zipInPlace sb ls rs (rot &&& lowerMaskL sb) res.2
  | [], _, _, _ => []
  | l :: ls, [], lower, carry =>
    let res := carryingAdd l lower carry
    res.1 :: propagate ls res.2

/-- `vec.extend(r_digits.iter().map(…))` and `if lower != 0 { vec.push(lower) }` for
non-overlapping operands with `start_bit != 0` -/
def shiftUp (sb : Nat) : List Nat → Nat → List Nat
  | [], lower => if lower ≠ 0 then [lower] else []
  | r :: rs, lower =>
    let rot := rotl r sb
    ((rot &&& upperMaskL sb) ||| lower) :: shiftUp sb rs (rot &&& lowerMaskL sb)

/-- `if vec.len() != vec.capacity() { vec.push(lower + carry) }` with `n = vec.len()` -/
def finVecA (len n lower carry : Nat) : List Nat :=
  if n ≠ len then [lower + carry] else []

/-- `vec.extend(l_digits[l_i + 1..].iter().map(…))` (carry propagation), then the final push -/
def propagateFin (len : Nat) : List Nat → Nat → Nat → List Nat
  | [], c, n => finVecA len n 0 c
  | l :: ls, c, n => (overflowingAdd l c).1 :: propagateFin len ls (overflowingAdd l c).2 (n + 1)

/-- `vec.extend(r_digits[r_i..].iter().map(…))`, then the final push -/
def restR (sb len : Nat) : List Nat → Nat → Nat → Nat → List Nat
  | [], lower, carry, n => finVecA len n lower carry
  | r :: rs, lower, carry, n =>
    let rot := rotl r sb
    let res := overflowingAdd ((rot &&& upperMaskL sb) ||| lower) carry
    res.1 :: restR sb len rs (rot &&& lowerMaskL sb) res.2 (n + 1)

/-- different exponents, `Vec` variant with overlapping digits: zipped loop, then the rest of
`l_digits` or of `r_digits`, then the final push; `n` is `vec.len()` -/
def zipVec (sb len : Nat) : List Nat → List Nat → Nat → Nat → Nat → List Nat
  | l :: ls, r :: rs, lower, carry, n =>
    let rot := rotl r sb
    let res := carryingAdd l ((rot &&& upperMaskL sb) ||| lower) carry
    res.1 :: zipVec sb len ls rs (rot &&& lowerMaskL sb) res.2 (n + 1)
  | l :: ls, [], lower, carry, n =>
    let res := carryingAdd l lower carry
    res.1 :: propagateFin len ls res.2 (n + 1)
  | [], rs, lower, carry, n => restR sb len rs lower carry n

/-- the branch `l_shl < r_shl` of `add` (after the NaN check) -/
def addDiff (self rhs : Natural) (bw : Nat) : Natural :=
  let lShl := self.shl
  let rShl := rhs.shl
  let lDigits := self.mantissaRaw
  let rDigits := rhs.mantissaRaw
  let bitLen := bw - lShl
  let len := (bitLen + 63) / 64
  let startDigit := (rShl - lShl) / 64
  let startBit := (rShl - lShl) % 64
  if bitLen ≤ 65 then
    let res := overflowingAdd self.len (shlW rhs.len startBit)
    if res.2 ≠ 0 then fromMantissaWithShl [res.1, 1] lShl
    else fromMantissaSingleWithShl res.1 lShl
  else if len = lDigits.length then
    self.withDigits (lDigits.take startDigit ++ zipInPlace startBit (lDigits.drop startDigit) rDigits 0 0)
  else if startDigit ≥ lDigits.length then
    let vec := lDigits ++ List.replicate (startDigit - lDigits.length) 0
      ++ (if startBit = 0 then rDigits else shiftUp startBit rDigits 0)
    let vec := if vec.length ≠ len then vec ++ [0] else vec
    fromMantissaWithShl vec lShl
  else
    fromMantissaWithShl
      (lDigits.take startDigit
        ++ zipVec startBit len (lDigits.drop startDigit) rDigits 0 0 startDigit) lShl

/-- `u64::MAX >> bit_shr` -/
def lowerMaskR (bs : Nat) : Nat := MAX64 >>> bs
/-- `!lower_mask` -/
def upperMaskR (bs : Nat) : Nat := not64 (lowerMaskR bs)

/-- `while lsd == 0 { … }`: skip the digits in which the sum is zero.  Returns
`(lsd, carry, i_in, rest of l_digits, rest of r_digits)`; `fuel` bounds the iterations -/
def skipZeros : Nat → List Nat → List Nat → Nat → Nat → Nat → Nat × Nat × Nat × List Nat × List Nat
  | 0, ls, rs, lsd, carry, i => (lsd, carry, i, ls, rs)
  | f + 1, ls, rs, lsd, carry, i =>
    if lsd ≠ 0 then (lsd, carry, i, ls, rs)
    else
      let res := carryingAdd (ls.headD 0) (rs.headD 0) 1
      skipZeros f ls.tail rs.tail res.1 res.2 (i + 1)

/-- the output digit `(rot & lower_mask) | (next_rot & upper_mask)` -/
def combine (bs rot nextRot : Nat) : Nat := (rot &&& lowerMaskR bs) ||| (nextRot &&& upperMaskR bs)

/-- equal exponents, `Vec` variant: the last digit(s) -/
def finVecB (bs carry rot : Nat) : List Nat :=
  if bs = 0 then rot :: (if carry ≠ 0 then [1] else [])
  else
    let d := (rot &&& lowerMaskR bs) ||| rotr carry bs
    if d ≠ 0 then [d] else []

/-- equal exponents, `Vec` variant: `long[i_in..]` with carry propagation, then the last digits -/
def propRotVec (bs : Nat) : List Nat → Nat → Nat → List Nat
  | [], carry, rot => finVecB bs carry rot
  | x :: xs, carry, rot =>
    let res := overflowingAdd x carry
    let nextRot := rotr res.1 bs
    combine bs rot nextRot :: propRotVec bs xs res.2 nextRot

/-- equal exponents, `Vec` variant: zipped loop over `short[i_in..]`/`long[i_in..]`, then the rest
of the longer array -/
def fusedVec (bs : Nat) : List Nat → List Nat → Nat → Nat → List Nat
  | l :: ls, r :: rs, carry, rot =>
    let res := carryingAdd l r carry
    let nextRot := rotr res.1 bs
    combine bs rot nextRot :: fusedVec bs ls rs res.2 nextRot
  | ls, [], carry, rot => propRotVec bs ls carry rot
  | [], rs, carry, rot => propRotVec bs rs carry rot

/-- equal exponents, in place: the last digit(s); `iOut` is the index about to be written -/
def finIn (bs lLen carry rot iOut : Nat) : List Nat :=
  if bs = 0 then rot :: (if iOut + 1 ≠ lLen then [carry] else [])
  else [(rot &&& lowerMaskR bs) ||| rotr carry bs]

/-- equal exponents, in place: `while let Some(l) = l_digits.get(i_in)` (carry propagation) -/
def whileLIn (bs lLen : Nat) : List Nat → Nat → Nat → Nat → List Nat
  | [], carry, rot, iOut => finIn bs lLen carry rot iOut
  | l :: ls, carry, rot, iOut =>
    let res := overflowingAdd l carry
    let nextRot := rotr res.1 bs
    combine bs rot nextRot :: whileLIn bs lLen ls res.2 nextRot (iOut + 1)

/-- equal exponents, in place: `for r in &r_digits[i_in..]` with the early return at
`i_out == len` -/
def forRIn (bs len lLen : Nat) : List Nat → Nat → Nat → Nat → List Nat
  | [], carry, rot, iOut => finIn bs lLen carry rot iOut
  | r :: rs, carry, rot, iOut =>
    let res := overflowingAdd r carry
    let nextRot := rotr res.1 bs
    if iOut + 1 = len then [combine bs rot nextRot]
    else combine bs rot nextRot :: forRIn bs len lLen rs res.2 nextRot (iOut + 1)

/-- equal exponents, in place: the zipped `while let` loop, then one of the two tail loops -/
def fusedIn (bs len lLen : Nat) : List Nat → List Nat → Nat → Nat → Nat → List Nat
  | l :: ls, r :: rs, carry, rot, iOut =>
    let res := carryingAdd l r carry
    let nextRot := rotr res.1 bs
    combine bs rot nextRot :: fusedIn bs len lLen ls rs res.2 nextRot (iOut + 1)
  | ls, [], carry, rot, iOut => whileLIn bs lLen ls carry rot iOut
  | [], rs, carry, rot, iOut => forRIn bs len lLen rs carry rot iOut

/-- the branch `l_shl == r_shl` of `add` -/
def addSame (self rhs : Natural) (bw : Nat) : Natural :=
  let lShl := self.shl
  let lDigits := self.mantissaRaw
  let rDigits := rhs.mantissaRaw
  let res0 := overflowingAdd (lDigits.headD 0) (rDigits.headD 0)
  let (lsd, carry, iIn, ls, rs) :=
    skipZeros (lDigits.length + rDigits.length) lDigits.tail rDigits.tail res0.1 res0.2 1
  let bitShr := shlAmount lsd
  -- `l_shl.checked_add(bit_shr).and_then(|s| s.checked_add((i_in - 1).checked_mul(64)?))`
  if (iIn - 1) * 64 > MAX64 ∨ lShl + bitShr > MAX64 ∨ lShl + bitShr + (iIn - 1) * 64 > MAX64 then NAN
  else
    let shl := lShl + bitShr + (iIn - 1) * 64
    let bitLen := bw - shl
    let len := (bitLen + 63) / 64
    let res := carryingAdd (ls.headD 0) (rs.headD 0) carry
    let ls := ls.tail
    let rs := rs.tail
    let carry := res.2
    let rot := rotr res.1 bitShr
    let d := (lsd >>> bitShr) ||| (rot &&& upperMaskR bitShr)
    if bitLen ≤ 65 ∧ rot &&& lowerMaskR bitShr = 0 then fromMantissaSingleWithShl d shl
    else if len = lDigits.length then
      let out := d :: fusedIn bitShr len lDigits.length ls rs carry rot 1
      { self.withDigits (out ++ lDigits.drop out.length) with shl := shl }
    else
      let vec := d :: fusedVec bitShr ls rs carry rot
      let vec := if vec.length < len then vec ++ [0] else vec
      fromMantissaWithShl vec shl

/-- `impl Add for Natural` -/
def add (self rhs : Natural) : Natural :=
  if self.isNan || rhs.isNan then NAN
  else if rhs.len = 0 then self
  else if self.len = 0 then rhs
  else
    -- `if self.shl > rhs.shl { mem::swap(&mut self, &mut rhs) }`
    let l := if self.shl > rhs.shl then rhs else self
    let r := if self.shl > rhs.shl then self else rhs
    let bw := max (bitWidthOf l.mantissaRaw l.shl) (bitWidthOf r.mantissaRaw r.shl) + 1
    if l.shl < r.shl then
      if r.shl = MAX64 then NAN else addDiff l r bw
    else addSame l r bw

/-! ## Shifts -/

/-- `impl Shl<u64> for Natural` (`Shl<u32>` widens the amount) -/
def shiftLeft (self : Natural) (rhs : Nat) : Natural :=
  if self.len ≠ 0 then { self with shl := satAdd64 self.shl rhs } else self

/-- `impl Shr<u64> for Natural` (`Shr<u32>` widens the amount) -/
def shiftRight (self : Natural) (rhs : Nat) : Natural :=
  if self.shl ≥ rhs then
    if self.shl ≠ MAX64 then { self with shl := self.shl - rhs } else self
  else if self.len ≠ 0 then { self with shl := MAX64 }
  else self

/-! ## Comparison -/

/-- `impl PartialEq` -/
def eq (self other : Natural) : Bool :=
  if self.shl ≠ other.shl then false
  else if self.isNan then true
  else self.mantissa == other.mantissa

inductive Ord3 where
  | lt | eq | gt
  deriving Repr, DecidableEq, Inhabited

def cmpNat (a b : Nat) : Ord3 := if a < b then .lt else if a = b then .eq else .gt

/-- `Ordering::then` -/
def Ord3.andThen (a b : Ord3) : Ord3 := match a with | .eq => b | o => o

/-- the `while let` loop of `partial_cmp` and the `match` after it; the digit lists are the
remaining lower digits, most significant first -/
def cmpLoop (lShl rShl : Nat) : List Nat → List Nat → Nat → Nat → Ord3
  | lNext :: lRest, rNext :: rRest, l, r =>
    let lRot := rotl lNext lShl
    let rRot := rotl rNext rShl
    let lDigit := l ||| (lRot &&& lowerMaskL lShl)
    let rDigit := r ||| (rRot &&& lowerMaskL rShl)
    if lDigit ≠ rDigit then cmpNat lDigit rDigit
    else cmpLoop lShl rShl lRest rRest (lRot &&& upperMaskL lShl) (rRot &&& upperMaskL rShl)
  | [], [], l, r => cmpNat l r
  | lNext :: _, [], l, r =>
    (cmpNat (l ||| (rotl lNext lShl &&& lowerMaskL lShl)) r).andThen .gt
  | [], rNext :: _, l, r =>
    (cmpNat l (r ||| (rotl rNext rShl &&& lowerMaskL rShl))).andThen .lt

/-- `impl PartialOrd` -/
def partialCmp (self other : Natural) : Option Ord3 :=
  if self.isNan || other.isNan then none
  else
    let lDigits := self.mantissa
    let rDigits := other.mantissa
    let lBw := bitWidthOf lDigits self.shl
    let rBw := bitWidthOf rDigits other.shl
    if lBw ≠ rBw then some (cmpNat lBw rBw)
    else if lBw = 0 then some .eq
    else
      let lMsd := lDigits.getLastD 0
      let rMsd := rDigits.getLastD 0
      let lShl := lz64 lMsd
      let rShl := lz64 rMsd
      some (cmpLoop lShl rShl lDigits.dropLast.reverse rDigits.dropLast.reverse
        (shlW lMsd lShl) (shlW rMsd rShl))

/-! ## Conversions out of `Natural` -/

/-- `TryFrom<&Natural> for u64` -/
def toU64 (value : Natural) : Option Nat :=
  match value.mant with
  | .inl m => if value.shl < 64 ∧ value.shl ≤ lz64 m then some (m <<< value.shl) else none
  | .heap _ => none

/-- `TryFrom<&Natural> for u128` -/
def toU128 (value : Natural) : Option Nat :=
  let mantissa := value.mantissaRaw
  if value.shl < 128 ∧ mantissa.length ≤ 3
      ∧ mantissa.length * 64 - lz64 (mantissa.getLastD 0) + value.shl ≤ 128 then
    some ((mantissa.headD 0 ||| ((mantissa.getD 1 0) <<< 64)) <<< value.shl)
  else none

/-- `From<&Natural> for f64`: the IEEE-754 bit pattern, `none` for NaN -/
def toF64Bits (value : Natural) : Option Nat :=
  if value.isNan then none
  else
    let mantissa := value.mantissa
    let msd := mantissa.getLastD 0
    if msd = 0 then some 0
    else
      let leadingZeros := lz64 msd
      let bitWidth := satAdd64 (satMul64 mantissa.length 64) value.shl - leadingZeros
      if bitWidth > 1024 then some 0x7ff0000000000000
      else
        let exp := bitWidth + 1023 - 1
        let msd2 := if mantissa.length ≥ 2 then mantissa.getD (mantissa.length - 2) 0 else 0
        let fracTruncMsb :=
          if msd ≠ 1 then shlW msd (leadingZeros + 1) ||| (msd2 >>> (64 - (leadingZeros + 1)))
          else msd2
        let shr := 64 - 52
        let fracTrunc := fracTruncMsb >>> shr
        let fracRounded := fracTrunc +
          (if bitWidth - value.shl = 53 + 1 then fracTrunc &&& 1
           else (fracTruncMsb >>> (shr - 1)) &&& 1)
        some ((exp <<< 52) + fracRounded)

/-! ## Formatting -/

inductive Align where
  | left | center | right
  deriving Repr, DecidableEq, Inhabited

/-- the part of `fmt::Formatter` the code looks at -/
structure FmtSpec where
  fill : Char := ' '
  align : Option Align := none
  plus : Bool := false
  alternate : Bool := false
  zeroPad : Bool := false
  width : Option Nat := none
  deriving Repr, Inhabited

def rep (n : Nat) (c : Char) : List Char := List.replicate n c

/-- `fmt_nan` -/
def fmtNan (f : FmtSpec) : List Char :=
  match f.width with
  | some width =>
    if width ≥ 2 then
      let w := width - 1
      let c := f.fill
      match f.align with
      | some .left => '?' :: rep w c
      | some .center => rep (w / 2) c ++ '?' :: rep (w - w / 2) c
      | _ => rep w c ++ ['?']
    else ['?']
  | none => ['?']

/-- `pad_integral(f, digits, prefix, write_digits)`; `body` is what `write_digits` writes -/
def padIntegral (f : FmtSpec) (digits : Nat) (pre : List Char) (body : List Char) : List Char :=
  let prefixWidth := (if f.alternate then pre.length else 0) + (if f.plus then 1 else 0)
  let minDigits := f.width.getD 0 - prefixWidth
  let digits := max digits 1
  -- `usize::try_from(digits)`
  let pad := if digits ≤ MAX64 then minDigits - digits else 0
  let padFront :=
    if pad ≠ 0 ∧ ¬ f.zeroPad then
      match f.align with
      | some .left => 0
      | some .center => pad / 2
      | _ => pad
    else 0
  let pad1 := if pad ≠ 0 ∧ ¬ f.zeroPad then pad - padFront else pad
  let zeros := if pad1 ≠ 0 ∧ f.zeroPad then pad1 else 0
  let pad2 := if pad1 ≠ 0 ∧ f.zeroPad then 0 else pad1
  rep padFront f.fill
    ++ (if f.plus then ['+'] else [])
    ++ (if f.alternate then pre else [])
    ++ rep zeros '0'
    ++ body
    ++ rep pad2 f.fill

/-- bits `pos-1 … 0` of `d`, most significant first (`while pos != 0 { pos -= 1; … }`) -/
def bitsBelow (d : Nat) : Nat → List Char
  | 0 => []
  | pos + 1 => (if d &&& (1 <<< pos) ≠ 0 then '1' else '0') :: bitsBelow d pos

/-- `for &d in mantissa.iter().rev()` of `Binary::fmt`; `ds` most significant first -/
def binLoop : List Nat → Nat → List Char
  | [], _ => []
  | d :: ds, pos => bitsBelow d pos ++ binLoop ds 64

/-- `impl fmt::Binary` -/
def fmtBinary (n : Natural) (f : FmtSpec) : List Char :=
  if n.isNan then fmtNan f
  else
    let mantissa := n.mantissa
    let bw := bitWidthOf mantissa n.shl
    let msd := mantissa.getLastD 0
    padIntegral f bw ['0', 'b']
      (if msd = 0 then ['0']
       else binLoop mantissa.reverse (64 - lz64 msd) ++ rep n.shl '0')

def hexChar (upper : Bool) (d : Nat) : Char :=
  if d < 10 then Char.ofNat (48 + d)
  else Char.ofNat ((if upper then 65 else 97) + (d - 10))

/-- the `while !done` loop of `fmt_pow2`; `rest` are the remaining digits, most significant
first; `offset` is the `i32`; `fuel` bounds the iterations -/
def pow2Loop (bpd : Nat) (toChar : Nat → Char) : Nat → Nat → List Nat → Int → List Char
  | 0, _, _, _ => []
  | fuel + 1, msd, rest, offset =>
    let mask := (1 <<< bpd) - 1
    if offset ≥ 0 then
      toChar ((msd >>> offset.toNat) &&& mask) :: pow2Loop bpd toChar fuel msd rest (offset - bpd)
    else
      let upper := shlW msd offset.natAbs
      let offset := offset + 64
      match rest with
      | v :: rest' =>
        toChar ((upper ||| (v >>> offset.toNat)) &&& mask)
          :: pow2Loop bpd toChar fuel v rest' (offset - bpd)
      | [] =>
        if offset = 64 - bpd then []
        else [toChar (upper &&& mask)]

/-- `fmt_pow2` -/
def fmtPow2 (n : Natural) (f : FmtSpec) (bpd : Nat) (pre : List Char) (toChar : Nat → Char) : List Char :=
  if n.isNan then fmtNan f
  else
    let mantissa := n.mantissa
    let bw := bitWidthOf mantissa n.shl
    let digits := (bw + bpd - 1) / bpd
    let remBits := bw % bpd
    let msd := mantissa.getLastD 0
    padIntegral f digits pre
      (if msd = 0 then ['0']
       else
        let remBits := if remBits = 0 then bpd else remBits
        let offset : Int := ((64 - lz64 msd : Nat) : Int) - (remBits : Int)
        pow2Loop bpd toChar (64 * mantissa.length + 2) msd mantissa.dropLast.reverse offset
          ++ rep (n.shl / bpd) '0')

def fmtOctal (n : Natural) (f : FmtSpec) : List Char :=
  fmtPow2 n f 3 ['0', 'o'] (fun d => Char.ofNat (48 + d))
def fmtLowerHex (n : Natural) (f : FmtSpec) : List Char :=
  fmtPow2 n f 4 ['0', 'x'] (hexChar false)
def fmtUpperHex (n : Natural) (f : FmtSpec) : List Char :=
  fmtPow2 n f 4 ['0', 'x'] (hexChar true)

/-- little endian digits to the number they denote -/
def dval : List Nat → Nat
  | [] => 0
  | d :: ds => d + B * dval ds

/-- what `core::fmt` does for an unsigned integer with decimal digits `buf`
(`Formatter::pad_integral`; used by `dashu` for `Display`) -/
def stdPadIntegral (f : FmtSpec) (pre : List Char) (buf : List Char) : List Char :=
  let head := (if f.plus then ['+'] else []) ++ (if f.alternate then pre else [])
  let width := head.length + buf.length
  match f.width with
  | none => head ++ buf
  | some min =>
    if width ≥ min then head ++ buf
    else if f.zeroPad then head ++ rep (min - width) '0' ++ buf
    else
      let pad := min - width
      let front := match f.align with
        | some .left => 0
        | some .center => pad / 2
        | _ => pad
      rep front f.fill ++ head ++ buf ++ rep (pad - front) f.fill

/-- `impl fmt::Display`: through `dashu_int::UBig` unless the exponent exceeds `2^40`.
The decimal digits come from Lean's `Nat.repr` (this conversion is tested, not proved) -/
def fmtDisplay (n : Natural) (f : FmtSpec) : List Char :=
  if n.shl > 1099511627776 then fmtNan f
  else stdPadIntegral f [] (Nat.repr (dval n.mantissa * 2 ^ n.shl)).toList

end Natural

/-! ## `Saturating<u64>` / `Saturating<u128>` -/

/-- a saturating unsigned machine integer of `bits` bits; `2^bits - 1` is the marker -/
structure Sat (bits : Nat) where
  val : Nat
  deriving Repr, DecidableEq, Inhabited

namespace Sat
variable {bits : Nat}

def max (bits : Nat) : Nat := 2 ^ bits - 1

/-- `From<u32>` -/
def ofU32 (v : Nat) : Sat bits := ⟨v⟩

/-- `Add`: `saturating_add` -/
def add (a b : Sat bits) : Sat bits := ⟨if a.val + b.val > max bits then max bits else a.val + b.val⟩

/-- `Sub`; `none` is the arithmetic-overflow panic (`self.0 - rhs.0` with `rhs.0 > self.0`) -/
def sub (a b : Sat bits) : Option (Sat bits) :=
  if a.val = max bits then some ⟨max bits⟩
  else if b.val ≤ a.val then some ⟨a.val - b.val⟩ else none

/-- `Shl<u32>`: zero stays zero; the marker if a one bit would be shifted out
(`rhs > leading_zeros`, which includes the marker itself for `rhs > 0`); otherwise `self.0 << rhs` -/
def shl (a : Sat bits) (rhs : Nat) : Sat bits :=
  ⟨if a.val = 0 then 0
   else if rhs > bits - bitLen a.val then max bits
   else (a.val <<< rhs) % 2 ^ bits⟩

/-- `Shr<u32>`; `none` is the overflow panic of `>>` for `rhs ≥ BITS` on a non-marker value -/
def shr (a : Sat bits) (rhs : Nat) : Option (Sat bits) :=
  if a.val = max bits then some ⟨max bits⟩
  else if rhs < bits then some ⟨a.val >>> rhs⟩ else none

/-- the number denoted; `none` for the marker -/
def toNat? (a : Sat bits) : Option Nat := if a.val = max bits then none else some a.val

end Sat

/-! ## Interface for the model-counting recursion

`sat_count_edge` needs exactly: `N::from(0u32)`, `N::from(1u32)`, `+`, `<< u32`, `>> u32`, `Clone`
and the constant `MIN_EXP` (`SatCountNumber`, `IsFloatingPoint`). -/

class CountNum (α : Type) where
  /-- `From<u32>` -/
  ofU32 : Nat → α
  add : α → α → α
  /-- `Shl<u32>` -/
  shl : α → Nat → α
  /-- `Shr<u32>`; total – where the Rust operator panics the result is unspecified, see `shrOk` -/
  shr : α → Nat → α
  /-- the shift does not panic -/
  shrOk : α → Nat → Bool
  /-- `IsFloatingPoint::MIN_EXP` (`0` for the integer types) -/
  minExp : Int
  /-- abstraction: the natural number denoted, `none` for the error value / marker -/
  toNat? : α → Option Nat

/-- `1 << vars`, the count of the `true` terminal -/
def CountNum.pow2 {α} [CountNum α] (vars : Nat) : α := CountNum.shl (CountNum.ofU32 1 : α) vars
/-- `>> 1` as used in `(c_t + c_e) >> 1` -/
def CountNum.shr1 {α} [CountNum α] (a : α) : α := CountNum.shr a 1
def CountNum.zero {α} [CountNum α] : α := CountNum.ofU32 0

/-- the value denoted by a `Natural`: `none` for the error value -/
def Natural.val (n : Natural) : Option Nat :=
  if n.isNan then none else some (Natural.dval n.mantissaRaw * 2 ^ n.shl)

instance : CountNum Natural where
  ofU32 := Natural.ofU64
  add := Natural.add
  shl := Natural.shiftLeft
  shr := Natural.shiftRight
  shrOk := fun _ _ => true
  minExp := 0
  toNat? := Natural.val

instance (bits : Nat) : CountNum (Sat bits) where
  ofU32 := Sat.ofU32
  add := Sat.add
  shl := Sat.shl
  shr := fun a k => (Sat.shr a k).getD a
  shrOk := fun a k => (Sat.shr a k).isSome
  minExp := 0
  toNat? := Sat.toNat?

/-- `F64` (`f64` with `<<`/`>>` as multiplication by a power of two); IEEE arithmetic is
executed, not proved -/
instance : CountNum Float where
  ofU32 := Float.ofNat
  add := (· + ·)
  shl := fun x k => if x == 0 then x else x * Float.exp2 (Float.ofNat k)
  shr := fun x k => x * Float.exp2 (-(Float.ofNat k))
  shrOk := fun _ _ => true
  minExp := -1021
  toNat? := fun _ => none

end OxiddModel.Num
