import OxiddModel.Num.Model
import OxiddModel.Num.F64Count

/-!
# C12: `impl From<&Natural> for f64` (`oxidd-core/src/util/num/bigint.rs`), staged

The digit-level model of the conversion is `Natural.toF64Bits` in `Num/Model.lean` (the `nat`
stream compares its result bit for bit with the real code).  This file splits it into the stages
of the Rust function, so that each stage can be characterised on its own
(`Num/LemmasNaturalF64.lean`), and states what the result is compared with: the binary64 value
`round53 ⟨x, 0⟩` of the exact dyadic model `Num/F64Count.lean` (round to nearest, ties to even, 53
significant bits, `+∞` from `2^1024 − 2^970` on) — no Lean `Float` anywhere.

What the Rust code looks at: only the **two most significant digits** of `mantissa()` (the digit
array without its optional zero top digit), the number of digits, and `shl`:

```text
msd  = *mantissa.last()                                   // most significant digit, != 0
msd2 = second most significant digit or 0
bit_width = len*64 (saturating) + shl (saturating) - msd.leading_zeros()
if bit_width > 1024 { return INFINITY }
frac_trunc_msb = the 64 bits that follow the leading one bit   (from msd and msd2)
frac_trunc     = frac_trunc_msb >> 12                          // 52 fraction bits, truncated
frac_rounded   = frac_trunc + if bit_width - shl == 54 { frac_trunc & 1 }        // tie -> even
                              else { (frac_trunc_msb >> 11) & 1 }                // the round bit
bits = ((bit_width + 1022) << 52) + frac_rounded           // a carry runs into the exponent
```

There is **no sticky bit**: the code relies on the representation invariant that the mantissa is
odd.  If the mantissa has exactly 54 bits, the bit below the 53 kept ones is the lowest one, which
is `1`: an exact tie.  If it has more than 54 bits, the lowest bit (`1`) lies strictly below the
round bit, so the round bit alone decides (never a tie).  If it has at most 53 bits nothing is
lost.  `natural_to_f64_spec` (PropertiesNaturalF64) proves that this is the correctly rounded
result for every normal form, and `even_mantissa_rounds_wrong` shows that the invariant is
needed (on a denormalised input the same code rounds a non-tie like a tie).
-/
namespace OxiddModel.Num
open Natural

namespace NatF64

/-- the second most significant digit of `mantissa()`, `0` if there is only one digit:
`if let [.., msd2, _] = *mantissa { msd2 } else { 0 }` -/
def msd2Of (mantissa : List Nat) : Nat :=
  if mantissa.length ≥ 2 then mantissa.getD (mantissa.length - 2) 0 else 0

/-- `bit_width`: `(len as u64).saturating_mul(64).saturating_add(shl) - leading_zeros` -/
def bitWidthSat (len shl leadingZeros : Nat) : Nat :=
  satAdd64 (satMul64 len 64) shl - leadingZeros

/-- `frac_trunc_msb`: the 64 bits after the leading one bit of `msd`, filled from `msd2` -/
def fracTruncMsb (msd msd2 : Nat) : Nat :=
  if msd ≠ 1 then shlW msd (lz64 msd + 1) ||| (msd2 >>> (64 - (lz64 msd + 1)))
  else msd2

/-- `frac_rounded` from `frac_trunc_msb` and the bit width of the mantissa (`bit_width - shl`) -/
def fracRounded (ftm mantBits : Nat) : Nat :=
  let shr := 64 - 52
  let fracTrunc := ftm >>> shr
  fracTrunc + (if mantBits = 53 + 1 then fracTrunc &&& 1 else (ftm >>> (shr - 1)) &&& 1)

/-- the bit pattern of `+∞` -/
def INF_BITS : Nat := 0x7ff0000000000000

/-- the function body after the NaN test, in stages -/
def staged (mantissa : List Nat) (shl : Nat) : Nat :=
  let msd := mantissa.getLastD 0
  if msd = 0 then 0
  else
    let bitWidth := bitWidthSat mantissa.length shl (lz64 msd)
    if bitWidth > 1024 then INF_BITS
    else ((bitWidth + 1023 - 1) <<< 52) + fracRounded (fracTruncMsb msd (msd2Of mantissa)) (bitWidth - shl)

end NatF64

/-- `Natural.toF64Bits` is the staged function (definitional) -/
theorem toF64Bits_eq_staged (n : Natural) :
    n.toF64Bits = if n.isNan then none else some (NatF64.staged n.mantissa n.shl) := by
  unfold Natural.toF64Bits NatF64.staged NatF64.bitWidthSat NatF64.fracRounded NatF64.fracTruncMsb
    NatF64.msd2Of NatF64.INF_BITS
  cases n.isNan with
  | true => rfl
  | false =>
    show (if n.mantissa.getLastD 0 = 0 then some 0 else _) = some (if n.mantissa.getLastD 0 = 0 then 0 else _)
    by_cases h0 : n.mantissa.getLastD 0 = 0
    · rw [if_pos h0, if_pos h0]
    · rw [if_neg h0, if_neg h0]
      show (if satAdd64 (satMul64 n.mantissa.length 64) n.shl - lz64 (n.mantissa.getLastD 0) > 1024
          then some 9218868437227405312 else _)
        = some (if satAdd64 (satMul64 n.mantissa.length 64) n.shl - lz64 (n.mantissa.getLastD 0) > 1024
          then 9218868437227405312 else _)
      by_cases hb : satAdd64 (satMul64 n.mantissa.length 64) n.shl - lz64 (n.mantissa.getLastD 0) > 1024
      · rw [if_pos hb, if_pos hb]
      · rw [if_neg hb, if_neg hb]

/-! ## the specification side -/

namespace NatF64
open F64C

/-- the binary64 value of the natural number `x`: correctly rounded (nearest, ties to even) -/
def ofNat (x : Nat) : F := round53 ⟨x, 0⟩

/-- the expected result of `f64::from(&n)` as a bit pattern (`none`: a NaN) -/
def spec (n : Natural) : Option Nat :=
  match n.val with
  | none => none
  | some x => (ofNat x).toBits

/-- the largest finite binary64 value is `2^1024 − 2^971`; every `x` from
`2^1024 − 2^970` (the midpoint to `2^1024`, a tie that rounds to the even `2^1024`) on is `+∞` -/
def INF_FROM : Nat := 2 ^ 1024 - 2 ^ 970

/-- `x` without its trailing zero bits needs at most 53 bits: `x = m · 2^e` with `m < 2^53` -/
def Short (x : Nat) : Prop := ∃ m e, m < 2 ^ 53 ∧ x = m * 2 ^ e

end NatF64

end OxiddModel.Num
