import OxiddModel.Num.LemmasFromLe
import OxiddModel.Num.LemmasSat

/-!
# C12, number types: headline theorems

Property text: *"The arbitrary-precision natural type used for [model counting] computes sums,
shifts, comparisons, conversions and textual output exactly, yielding its error value only where
documented (inexact right shift, exponent overflow)"* and *"machine integers whenever 2^vars is
representable and their saturation marker otherwise"*.

All statements are about the digit-level model `OxiddModel.Num.Natural` (little endian `u64`
digit lists, the same carry/rotate/mask loops as `bigint.rs`) for **unbounded** values, and about
`OxiddModel.Num.Sat bits` for the saturating integers.  `Natural.val : Natural → Option ℕ` is the
abstraction function (`none` = the error value `shl == u64::MAX`), `NF` the representation
invariant (`check_inv` of the crate plus digit ranges and the documented "heap mantissas exceed
`u64::MAX`"), `Representable n` says that `n` is zero or has fewer than `u64::MAX` trailing zero
bits, i.e. its exponent fits the `u64` field.

Defects of the original code that this check found (oracle failures with replays on the unfixed
tree; repaired in /repo, the model describes the repaired code; the reverse patches are kept in
`/verif/work/proposed_fixes/Num-1..7.diff` as seeded mutations):

1. `From<u128>` chose the one-digit form by `leading - shl <= 64` (`from(2^64+1) == 1`, panics) – 7a144ce
2. `Add` took the `NAN` constant (`len == 0`) for zero: `NAN + x == x` – 8cd3682
3. `Add`, non-overlapping operands: `debug_assert_eq!(vec.capacity(), vec.len())` failed – fdd8f09
4. `partial_cmp(0, 0)` shifted by 64 (overflow panic) – 90c4710
5. `TryFrom<&Natural> for u128` ignored the exponent – bc861ae
6. `pad_integral`: zeros before sign/prefix, sign/prefix before the fill, zero counted as 0 digits – 1ccebdb
7. `Saturating::shl` checked only the shift amount (`3 << 63`, `MAX << 1`, `0 << 64`) – d10797a
-/
namespace OxiddModel.Num
open Natural

/-! ## Representation -/

/-- **natural_repr.** The normal form is unique up to the optional zero top digit of the heap
array: two normal forms denote the same number iff `PartialEq` says so, and then they have the
same exponent and the same `mantissa()` (the view without the zero top digit).  The error value is
equal to itself (the type is `Eq`). -/
theorem natural_repr (a b : Natural) (ha : NF a) (hb : NF b) :
    (a.eq b = true ↔ a.val = b.val)
    ∧ (a.val = b.val → a.val ≠ none → a.shl = b.shl ∧ a.mantissa = b.mantissa) := by
  refine ⟨eq_spec a b ha hb, ?_⟩
  intro hv hne
  have he := (eq_spec a b ha hb).2 hv
  have hnn : a.shl ≠ MAX64 := fun h => hne (val_of_nan h)
  unfold Natural.eq at he
  by_cases hs : a.shl = b.shl
  · rw [if_neg (by simpa using hs), if_neg (by rw [isNan_iff]; exact hnn)] at he
    exact ⟨hs, by simpa using he⟩
  · rw [if_pos (by simpa using hs)] at he; cases he

/-- non-vacuity: `2^64 + 1` built by `From<u128>` and by an addition are equal normal forms -/
example : NF (ofU128 (2 ^ 64 + 1)) ∧ (ofU128 (2 ^ 64 + 1)).val = some (2 ^ 64 + 1) :=
  ofU128_spec (by decide)

/-! ## Conversions into `Natural` -/

/-- **natural_from (u64).** `From<u64>` (and the narrower unsigned types) is exact and produces a
normal form. -/
theorem natural_from_u64 (v : Nat) (hv : v < 2 ^ 64) :
    NF (ofU64 v) ∧ (ofU64 v).val = some v := ofU64_spec (by rw [B_eq]; exact hv)

/-- **natural_from (u128).** `From<u128>` is exact and produces a normal form (one inline digit
iff the odd part fits 64 bits). -/
theorem natural_from_u128 (v : Nat) (hv : v < 2 ^ 128) :
    NF (ofU128 v) ∧ (ofU128 v).val = some v := ofU128_spec hv

example : (ofU64 40).val = some 40 := (natural_from_u64 40 (by decide)).2

/-- **natural_from (digits).** `from_le_digits` accepts arbitrary little-endian `u64` digits (zero
digits at both ends, even lowest digit) and produces the normal form of the number they denote –
or the error value exactly when that number is not representable (its exponent would reach
`u64::MAX`). -/
theorem natural_from_le_digits (ds : List Nat) (hok : digitsOk ds) :
    NF (fromLeDigits ds)
    ∧ (Representable (dval ds) → (fromLeDigits ds).val = some (dval ds))
    ∧ (¬ Representable (dval ds) → (fromLeDigits ds).val = none) :=
  fromLeDigits_spec ds hok

/-- non-vacuity: `[0, 6, 0]` denotes `6 · 2^64 = 3 · 2^65` -/
example : (fromLeDigits [0, 6, 0]).val = some (6 * 2 ^ 64) := by
  have h := natural_from_le_digits [0, 6, 0] (by
    intro d hd; simp at hd; rcases hd with h | h | h <;> subst h <;> decide)
  have hv : dval [0, 6, 0] = 6 * 2 ^ 64 := by decide
  rw [hv] at h
  exact h.2.1 (Or.inr ⟨3, 65, by decide, by decide, by decide⟩)

/-! ## Addition -/

/-- **natural_add.** For normal forms the sum is a normal form; the error value propagates from
either operand; otherwise the result denotes exactly `x + y`, except that it is the error value
when (and only when) `x + y` is not representable, i.e. its exponent would reach `u64::MAX`
(the documented exponent overflow).  Proved for the digit-level loops (in-place and `Vec`
variants, equal and different exponents), all operand sizes. -/
theorem natural_add (a b : Natural) (ha : NF a) (hb : NF b) :
    NF (add a b)
    ∧ ((a.val = none ∨ b.val = none) → (add a b).val = none)
    ∧ (∀ x y, a.val = some x → b.val = some y →
        (Representable (x + y) → (add a b).val = some (x + y))
        ∧ (¬ Representable (x + y) → (add a b).val = none)) :=
  add_spec a b ha hb

/-- non-vacuity: `(2^64 + 1) + 5 = 2^64 + 6` (different exponents after normalisation: the sum
is even) -/
example : (add (ofU128 (2 ^ 64 + 1)) (ofU64 5)).val = some (2 ^ 64 + 6) := by
  obtain ⟨h1, v1⟩ := natural_from_u128 (2 ^ 64 + 1) (by decide)
  obtain ⟨h2, v2⟩ := natural_from_u64 5 (by decide)
  exact ((natural_add _ _ h1 h2).2.2 _ _ v1 v2).1 (Or.inr ⟨(2 ^ 64 + 6) / 2, 1, by decide, by decide, by decide⟩)

/-! ## Shifts -/

/-- **natural_shl.** `x << k` denotes `x · 2^k`; the error value propagates; the result is the
error value exactly when `x ≠ 0` and `shl + k ≥ u64::MAX` (exponent overflow – this is the exact
bound), equivalently when `x · 2^k` is not representable. -/
theorem natural_shl (a : Natural) (k : Nat) (ha : NF a) :
    NF (a.shiftLeft k)
    ∧ (a.val = none → (a.shiftLeft k).val = none)
    ∧ (∀ x, a.val = some x →
        (Representable (x * 2 ^ k) → (a.shiftLeft k).val = some (x * 2 ^ k))
        ∧ (¬ Representable (x * 2 ^ k) → (a.shiftLeft k).val = none)
        ∧ ((a.shiftLeft k).val = none ↔ (x ≠ 0 ∧ a.shl + k ≥ MAX64))) :=
  shiftLeft_spec a k ha

/-- **natural_shr.** `x >> k` is the exact quotient `x / 2^k` when `2^k` divides `x`, and the
error value otherwise (the documented inexact right shift); the error value propagates. -/
theorem natural_shr (a : Natural) (k : Nat) (ha : NF a) :
    NF (a.shiftRight k)
    ∧ (a.val = none → (a.shiftRight k).val = none)
    ∧ (∀ x, a.val = some x →
        (2 ^ k ∣ x → (a.shiftRight k).val = some (x / 2 ^ k))
        ∧ (¬ 2 ^ k ∣ x → (a.shiftRight k).val = none)) :=
  shiftRight_spec a k ha

/-- non-vacuity: `12 >> 2 = 3`, `12 >> 3` is the error value -/
example : ((ofU64 12).shiftRight 2).val = some 3 ∧ ((ofU64 12).shiftRight 3).val = none := by
  obtain ⟨h, v⟩ := natural_from_u64 12 (by decide)
  exact ⟨((natural_shr _ 2 h).2.2 12 v).1 ⟨3, by decide⟩,
    ((natural_shr _ 3 h).2.2 12 v).2 (by decide)⟩

/-! ## Comparison -/

/-- **natural_cmp.** `partial_cmp` is `None` iff an operand is the error value, otherwise it is the
order of the denoted natural numbers. -/
theorem natural_cmp (a b : Natural) (ha : NF a) (hb : NF b) :
    ((a.val = none ∨ b.val = none) → a.partialCmp b = none)
    ∧ (∀ x y, a.val = some x → b.val = some y → a.partialCmp b = some (cmpNat x y)) :=
  partialCmp_spec a b ha hb

example : (ofU128 (2 ^ 64 + 1)).partialCmp (ofU64 7) = some .gt := by
  obtain ⟨h1, v1⟩ := natural_from_u128 (2 ^ 64 + 1) (by decide)
  obtain ⟨h2, v2⟩ := natural_from_u64 7 (by decide)
  rw [(natural_cmp _ _ h1 h2).2 _ _ v1 v2]; decide

/-! ## Conversions out of `Natural` -/

/-- **natural_to_u64.** `u64::try_from` succeeds exactly for the values below `2^64` and returns
the value. -/
theorem natural_to_u64 (n : Natural) (hn : NF n) :
    (∀ v, n.toU64 = some v → n.val = some v ∧ v < 2 ^ 64)
    ∧ (n.toU64 = none → ∀ v, n.val = some v → 2 ^ 64 ≤ v) := by
  have := toU64_spec n hn
  rw [B_eq] at this
  exact this

/-- **natural_to_u128.** `u128::try_from` succeeds exactly for the values below `2^128` and returns
the value (exponent applied). -/
theorem natural_to_u128 (n : Natural) (hn : NF n) :
    (∀ v, n.toU128 = some v → n.val = some v ∧ v < 2 ^ 128)
    ∧ (n.toU128 = none → ∀ v, n.val = some v → 2 ^ 128 ≤ v) :=
  toU128_spec n hn

/-! ## Textual output

`parseRadix b s` is the positional value of the digit string `s` in base `b`.  The theorems are
about the digits written (`write_digits`); padding, sign and prefix (`pad_integral`) are modelled
and compared with the implementation but carry no proof obligation of C12.  Decimal output goes
through the external crate `dashu` and is tested only. -/

/-- **natural_fmt_bin.** `{:b}` writes the binary digits of the value: only `0`/`1`, the string
denotes the value, no leading zero (`"0"` for zero). -/
theorem natural_fmt_bin (n : Natural) (hn : NF n) (x : Nat) (hx : n.val = some x) :
    parseRadix 2 (n.fmtBinary {}) = x
    ∧ (∀ c ∈ n.fmtBinary {}, c = '0' ∨ c = '1')
    ∧ (x = 0 → n.fmtBinary {} = ['0'])
    ∧ (x ≠ 0 → (n.fmtBinary {}).head? = some '1') :=
  fmtBinary_spec n hn x hx

/-- **natural_fmt_oct.** `{:o}` writes the octal digits of the value; the string has the minimal
length (so no leading zero), `"0"` for zero. -/
theorem natural_fmt_oct (n : Natural) (hn : NF n) (x : Nat) (hx : n.val = some x) :
    parseRadix 8 (n.fmtOctal {}) = x
    ∧ (x = 0 → n.fmtOctal {} = ['0'])
    ∧ (x ≠ 0 → 8 ^ ((n.fmtOctal {}).length - 1) ≤ x) :=
  fmtPow2_spec n hn x hx 3 (Or.inl rfl) _ _ octChar_val

/-- **natural_fmt_hex.** `{:x}` and `{:X}` write the hexadecimal digits of the value; minimal
length (no leading zero), `"0"` for zero. -/
theorem natural_fmt_hex (n : Natural) (hn : NF n) (x : Nat) (hx : n.val = some x) :
    (parseRadix 16 (n.fmtLowerHex {}) = x
      ∧ (x = 0 → n.fmtLowerHex {} = ['0'])
      ∧ (x ≠ 0 → 16 ^ ((n.fmtLowerHex {}).length - 1) ≤ x))
    ∧ (parseRadix 16 (n.fmtUpperHex {}) = x
      ∧ (x = 0 → n.fmtUpperHex {} = ['0'])
      ∧ (x ≠ 0 → 16 ^ ((n.fmtUpperHex {}).length - 1) ≤ x)) :=
  ⟨fmtPow2_spec n hn x hx 4 (Or.inr rfl) _ _ hexLower_val,
   fmtPow2_spec n hn x hx 4 (Or.inr rfl) _ _ hexUpper_val⟩

/-- non-vacuity: the hexadecimal string of `2^64 + 6` denotes that number -/
example : parseRadix 16 ((add (ofU128 (2 ^ 64 + 1)) (ofU64 5)).fmtLowerHex {}) = 2 ^ 64 + 6 := by
  obtain ⟨h1, v1⟩ := natural_from_u128 (2 ^ 64 + 1) (by decide)
  obtain ⟨h2, v2⟩ := natural_from_u64 5 (by decide)
  have hs := natural_add _ _ h1 h2
  exact ((natural_fmt_hex _ hs.1 _ ((hs.2.2 _ _ v1 v2).1
    (Or.inr ⟨(2 ^ 64 + 6) / 2, 1, by decide, by decide, by decide⟩))).1).1

/-! ## Saturating machine integers -/

/-- **saturating_add.** `Saturating<T> + Saturating<T>`: exact while the sum is below the marker
`T::MAX`, the marker otherwise; the marker is absorbing. -/
theorem saturating_add {bits : Nat} (a b : Sat bits) (ha : Sat.WF a) (hb : Sat.WF b) :
    Sat.WF (a.add b)
    ∧ ((a.toNat? = none ∨ b.toNat? = none) → (a.add b).toNat? = none)
    ∧ (∀ x y, a.toNat? = some x → b.toNat? = some y →
        (x + y < Sat.max bits → (a.add b).toNat? = some (x + y))
        ∧ (Sat.max bits ≤ x + y → (a.add b).toNat? = none)) :=
  Sat.add_spec a b ha hb

/-- **saturating_shl.** `Saturating<T> << k`: exact while `x · 2^k` is below the marker, the marker
otherwise; the marker is absorbing. -/
theorem saturating_shl {bits : Nat} (a : Sat bits) (k : Nat) (hbits : 1 ≤ bits) (ha : Sat.WF a) :
    Sat.WF (a.shl k)
    ∧ (a.toNat? = none → (a.shl k).toNat? = none)
    ∧ (∀ x, a.toNat? = some x →
        (x * 2 ^ k < Sat.max bits → (a.shl k).toNat? = some (x * 2 ^ k))
        ∧ (Sat.max bits ≤ x * 2 ^ k → (a.shl k).toNat? = none)) :=
  Sat.shl_spec a k hbits ha

/-- **saturating_shr.** `Saturating<T> >> k` keeps the marker; otherwise it is the floor quotient
for `k < BITS` (for `k ≥ BITS` the Rust operator panics with overflow checks: `none`). -/
theorem saturating_shr {bits : Nat} (a : Sat bits) (k : Nat) (ha : Sat.WF a) :
    (a.toNat? = none → a.shr k = some a)
    ∧ (∀ x, a.toNat? = some x → k < bits →
        ∃ r, a.shr k = some r ∧ Sat.WF r ∧ r.toNat? = some (x / 2 ^ k))
    ∧ (∀ x, a.toNat? = some x → bits ≤ k → a.shr k = none) :=
  Sat.shr_spec a k ha

/-- **saturating_pow2.** The count of the `true` terminal, `Saturating::from(1) << vars`, is
`2^vars` whenever that is representable (`vars < BITS`) and the marker otherwise. -/
theorem saturating_pow2 {bits : Nat} (vars : Nat) (hbits : 2 ≤ bits) :
    ((Sat.ofU32 1 : Sat bits).shl vars).toNat? = if vars < bits then some (2 ^ vars) else none :=
  Sat.pow2_spec vars hbits

example : ((Sat.ofU32 1 : Sat 64).shl 63).toNat? = some (2 ^ 63)
    ∧ ((Sat.ofU32 1 : Sat 64).shl 64).toNat? = none :=
  ⟨by rw [saturating_pow2 63 (by decide)]; rfl, by rw [saturating_pow2 64 (by decide)]; rfl⟩


/-! ## Interface for the model-counting recursion

`sat_count_edge` uses a number type only through `N::from(0u32)`, `N::from(1u32)`, `+`, `<< u32`
and `>> u32` (`CountNum`).  `CountLaws` is what the recursion's correctness proof may assume; it is
instantiated for `Natural` and for `Saturating<u64|u128>` below. -/

/-- laws of a count type: `ok` is the representation invariant, `rep n` says that the count `n`
is representable (otherwise the error value / marker stands for it) -/
structure CountLaws (α : Type) [CountNum α] where
  ok : α → Prop
  rep : Nat → Prop
  /-- `N::from(0u32)`, `N::from(1u32)` -/
  of_ok : ∀ n, n ≤ 1 → ok (CountNum.ofU32 n : α)
  of_val : ∀ n, n ≤ 1 → CountNum.toNat? (CountNum.ofU32 n : α) = some n
  add_ok : ∀ a b : α, ok a → ok b → ok (CountNum.add a b)
  add_none : ∀ a b : α, ok a → ok b → (CountNum.toNat? a = none ∨ CountNum.toNat? b = none) →
    CountNum.toNat? (CountNum.add a b) = none
  add_val : ∀ (a b : α) x y, ok a → ok b → CountNum.toNat? a = some x → CountNum.toNat? b = some y →
    (rep (x + y) → CountNum.toNat? (CountNum.add a b) = some (x + y))
    ∧ (¬ rep (x + y) → CountNum.toNat? (CountNum.add a b) = none)
  shl_ok : ∀ (a : α) k, ok a → ok (CountNum.shl a k)
  shl_none : ∀ (a : α) k, ok a → CountNum.toNat? a = none → CountNum.toNat? (CountNum.shl a k) = none
  shl_val : ∀ (a : α) k x, ok a → CountNum.toNat? a = some x →
    (rep (x * 2 ^ k) → CountNum.toNat? (CountNum.shl a k) = some (x * 2 ^ k))
    ∧ (¬ rep (x * 2 ^ k) → CountNum.toNat? (CountNum.shl a k) = none)
  /-- `>>` on the error value / marker never panics and keeps it -/
  shr_none : ∀ (a : α) k, ok a → CountNum.toNat? a = none →
    CountNum.shrOk a k = true ∧ CountNum.toNat? (CountNum.shr a k) = none
  /-- exact division: the case that occurs in `(c_t + c_e) >> 1` and in the ZBDD final shift -/
  shr_val : ∀ (a : α) k x, ok a → CountNum.toNat? a = some x → CountNum.shrOk a k = true →
    2 ^ k ∣ x → ok (CountNum.shr a k) ∧ CountNum.toNat? (CountNum.shr a k) = some (x / 2 ^ k)

/-- every non-zero number is an odd number times a power of two -/
theorem exists_odd_decomp : ∀ n : Nat, n ≠ 0 → ∃ m e, m % 2 = 1 ∧ n = m * 2 ^ e := by
  intro n
  induction n using Nat.strongRecOn with
  | _ n ih =>
    intro hn
    by_cases hodd : n % 2 = 1
    · exact ⟨n, 0, hodd, by simp⟩
    · obtain ⟨m, e, hm, he⟩ := ih (n / 2) (by omega) (by omega)
      refine ⟨m, e + 1, hm, ?_⟩
      rw [Nat.pow_succ, ← Nat.mul_assoc, ← he]; omega

/-- counts up to `2^k` are representable in a `Natural` as long as `k < u64::MAX` -/
theorem representable_of_le_two_pow {n k : Nat} (h : n ≤ 2 ^ k) (hk : k < MAX64) : Representable n := by
  by_cases h0 : n = 0
  · exact Or.inl h0
  · obtain ⟨m, e, hm, he⟩ := exists_odd_decomp n h0
    refine Or.inr ⟨m, e, hm, ?_, he⟩
    have h1 : 2 ^ e ≤ n := by rw [he]; exact Nat.le_mul_of_pos_left _ (by omega)
    have : e ≤ k := by
      apply Classical.byContradiction
      intro hc
      have : 2 ^ (k + 1) ≤ 2 ^ e := Nat.pow_le_pow_right (by decide) (by omega)
      rw [Nat.pow_succ] at this
      omega
    omega

/-- **natural_count_laws.** `Natural` satisfies the count laws with `ok = NF` and
`rep = Representable`. -/
def naturalLaws : CountLaws Natural where
  ok := NF
  rep := Representable
  of_ok := fun n hn => (ofU64_spec (v := n) (Nat.lt_of_le_of_lt hn (by decide))).1
  of_val := fun n hn => (ofU64_spec (v := n) (Nat.lt_of_le_of_lt hn (by decide))).2
  add_ok := fun a b ha hb => (add_spec a b ha hb).1
  add_none := fun a b ha hb h => (add_spec a b ha hb).2.1 h
  add_val := fun a b x y ha hb hx hy => (add_spec a b ha hb).2.2 x y hx hy
  shl_ok := fun a k ha => (shiftLeft_spec a k ha).1
  shl_none := fun a k ha h => (shiftLeft_spec a k ha).2.1 h
  shl_val := fun a k x ha hx =>
    ⟨((shiftLeft_spec a k ha).2.2 x hx).1, ((shiftLeft_spec a k ha).2.2 x hx).2.1⟩
  shr_none := fun a k ha h => ⟨rfl, (shiftRight_spec a k ha).2.1 h⟩
  shr_val := fun a k x ha hx _ hd =>
    ⟨(shiftRight_spec a k ha).1, ((shiftRight_spec a k ha).2.2 x hx).1 hd⟩

/-- **saturating_count_laws.** `Saturating<T>` (`bits ≥ 2`) satisfies the count laws with
`rep n ↔ n < T::MAX`. -/
def satLaws (bits : Nat) (hbits : 2 ≤ bits) : CountLaws (Sat bits) where
  ok := Sat.WF
  rep := fun n => n < Sat.max bits
  of_ok := fun n hn => (Sat.ofU32_spec n (by
    have := Sat.max_succ bits
    have : 2 ^ 2 ≤ 2 ^ bits := Nat.pow_le_pow_right (by decide) hbits
    omega)).1
  of_val := fun n hn => (Sat.ofU32_spec n (by
    have := Sat.max_succ bits
    have : 2 ^ 2 ≤ 2 ^ bits := Nat.pow_le_pow_right (by decide) hbits
    omega)).2
  add_ok := fun a b ha hb => (Sat.add_spec a b ha hb).1
  add_none := fun a b ha hb h => (Sat.add_spec a b ha hb).2.1 h
  add_val := fun a b x y ha hb hx hy =>
    ⟨((Sat.add_spec a b ha hb).2.2 x y hx hy).1,
     fun h => ((Sat.add_spec a b ha hb).2.2 x y hx hy).2 (by omega)⟩
  shl_ok := fun a k ha => (Sat.shl_spec a k (by omega) ha).1
  shl_none := fun a k ha h => (Sat.shl_spec a k (by omega) ha).2.1 h
  shl_val := fun a k x ha hx =>
    ⟨((Sat.shl_spec a k (by omega) ha).2.2 x hx).1,
     fun h => ((Sat.shl_spec a k (by omega) ha).2.2 x hx).2 (by omega)⟩
  shr_none := fun a k ha h => by
    have := (Sat.shr_spec a k ha).1 h
    constructor
    · show (Sat.shr a k).isSome = true
      rw [this]; rfl
    · show Sat.toNat? ((Sat.shr a k).getD a) = none
      rw [this]; exact h
  shr_val := fun a k x ha hx hok _ => by
    have hk : k < bits := by
      apply Classical.byContradiction
      intro hc
      have := (Sat.shr_spec a k ha).2.2 x hx (by omega)
      have h2 : (Sat.shr a k).isSome = true := hok
      rw [this] at h2; cases h2
    obtain ⟨r, h1, h2, h3⟩ := (Sat.shr_spec a k ha).2.1 x hx hk
    constructor
    · show Sat.WF ((Sat.shr a k).getD a)
      rw [h1]; exact h2
    · show Sat.toNat? ((Sat.shr a k).getD a) = some (x / 2 ^ k)
      rw [h1]; exact h3

end OxiddModel.Num
