import OxiddModel.Num.F64CountLemmasDiagrams
import OxiddModel.Num.F64CountLemmasLinear
import OxiddModel.Num.F64CountLemmasRange
import OxiddModel.Num.F64CountLemmasZbdd

/-!
# Headline theorems for property C12, floating-point half ("floats within their precision")

`sat_count::<F64>` of the three Boolean diagram kinds, modelled in `F64Count.lean` on exact dyadics
(every IEEE operation = exact operation + explicit rounding to nearest even with 53 significant
bits, gradual underflow, overflow to `+∞`; no Lean `Float`), including the scaling trick
(`scale_exp = 1021`, terminal value `2^(vars-1021)` from `vars ≥ 1021` on, final `<< 1021`).

Vocabulary.
* `F.fin u` — the finite binary64 value `u · 2^-1074` (`u` *units*); `F.inf`, `F.nan`.
  `mk u` — `fin u` if `u < 2^OVF = 2^(1024+1074)`, else `inf`: the overflow rule of IEEE rounding.
  `F.toNat?` — the natural number a finite value denotes, if it is one. `UNIT = 1074`, so the
  natural number `c` is `fin (c * 2^UNIT)`.
* `Fits u` — `u` has at most 53 significant bits (is representable up to range).
  `BddFits vars f` / `BcddFits vars tag n` / `ZFits f` — the *exact* count of every node of the
  diagram `Fits` (for BDD/BCDD counts over `vars` variables; for ZBDDs path counts).
* `Within d a c` — `c·(2^53-1)^d ≤ a·2^(53d) ≤ c·(2^53+1)^d`, i.e.
  `(1-2^-53)^d ≤ a/c ≤ (1+2^-53)^d`: `a` is `c` after at most `d` roundings of relative error `2^-53`.
* `Bdd.satCount vars f` etc. — the count over exact naturals, which `Bdd.satcount_exact`,
  `Bcdd.satCount_exact`, `Zbdd.satCount_ge` prove equal to the number of satisfying assignments.
* `Ordered k f`, `LevelsLt vars f` / `Below N n` — the diagram is ordered from level `k` on and
  all its levels are `< vars`. Trees of any size, any `vars ≤ 2043`.

Range. From `vars = 2045` on the terminal value `2^(vars-1021)` itself overflows, and `sat_count`
returns `inf` for every satisfiable function (`bdd_f64count_beyond_range`), although the count may
be small; `vars = 2044` is not covered by the proofs below for unreduced trees (a node with two
`⊤` children would add `2^1023 + 2^1023`), so they are stated for `vars ≤ 2043`.
-/
namespace OxiddModel.Num.F64C
open F

/-- doubling a binary64 value: same mantissa, exponent `+ 1` (overflow to `+∞`) -/
def F.dbl : F → F
  | .fin a => mk (2 * a)
  | .inf => .inf
  | .nan => .nan

theorem dbl_mk (x : Nat) : (mk x).dbl = mk (2 * x) := by
  by_cases h : x < 2 ^ OVF
  · rw [mk_of_lt h]; rfl
  · rw [mk_of_ge (by omega), mk_of_ge (by omega)]; rfl

theorem toNat_units (c : Nat) : (fin (c * 2 ^ UNIT)).toNat? = some c := by
  simp only [F.toNat?, Nat.mul_mod_left, if_true, Nat.mul_div_cancel _ (Nat.two_pow_pos UNIT)]

theorem units_lt_ovf {c : Nat} (h : c < 2 ^ EMAX) : c * 2 ^ UNIT < 2 ^ OVF := by
  rw [← two_pow_1024_units]
  exact Nat.mul_lt_mul_of_pos_right h (Nat.two_pow_pos _)

/-! ## (a) exactness -/

/-- C12 "floats within their precision", exact part, BDD. If the exact count of every node of the
diagram has at most 53 significant bits (`BddFits`), the `F64` count **is** the exact count
`satCount vars f` (= number of satisfying assignments, `Bdd.satcount_exact`), for every
`vars ≤ 2043` — in particular across the scaling boundary `vars ≥ 1021`: no spurious `inf`
(`inf` exactly when the count itself is `≥ 2^1024`), no underflow, no rounding. -/
theorem bdd_f64count_exact (vars k : Nat) (f : Bdd.BDD) (ho : Bdd.BDD.Ordered k f)
    (hl : Bdd.LevelsLt vars f) (hv : vars ≤ 2043) (hf : BddFits vars f) :
    bddCount vars f = mk (Bdd.satCount vars f * 2 ^ UNIT) ∧
    (Bdd.satCount vars f < 2 ^ EMAX →
      bddCount vars f = fin (Bdd.satCount vars f * 2 ^ UNIT) ∧
      (bddCount vars f).toNat? = some (Bdd.satCount vars f)) := by
  have hh : (skelB f).height ≤ vars := by
    have := height_skelB (ho.mono (Nat.zero_le k)) hl (Nat.zero_le _); omega
  have h1 : bddCount vars f = mk (Bdd.satCount vars f * 2 ^ UNIT) := by
    rw [bddCount_skel, satCount_skel, ct_exact vars _ hh hv (allFits_skelB vars f hf)]
  refine ⟨h1, fun hlt => ?_⟩
  have h2 : bddCount vars f = fin (Bdd.satCount vars f * 2 ^ UNIT) := by
    rw [h1, mk_of_lt (units_lt_ovf hlt)]
  exact ⟨h2, by rw [h2, toNat_units]⟩

/-- … and `BddFits` holds for **every** function when `vars ≤ 53`: the `F64` count of any diagram
over at most 53 variables is exactly the number of satisfying assignments (`bitvecs vars` lists
every assignment once, `Bdd.satcount_exact`). -/
theorem f64count_exact_small (vars k : Nat) (f : Bdd.BDD) (ho : Bdd.BDD.Ordered k f)
    (hl : Bdd.LevelsLt vars f) (hv : vars ≤ 53) :
    (bddCount vars f).toNat? = some (Bdd.satCount vars f) ∧
    (bddCount vars f).toNat? =
      some ((Bdd.bitvecs vars).countP (fun bs => f.eval (fun l => (bs[l]?).getD false))) := by
  have hlt : Bdd.satCount vars f < 2 ^ EMAX := by
    have h1 := Bdd.satcount_le vars f k ho hl
    have h2 : 2 ^ vars < 2 ^ EMAX := Nat.pow_lt_pow_right (by omega) (by have := emax_eq; omega)
    omega
  have h := ((bdd_f64count_exact vars k f ho hl (by omega) (bddFits_small hv f)).2 hlt).2
  exact ⟨h, by rw [h, ← (Bdd.satcount_exact vars f k ho hl).2.1]⟩

/-- the same for complement edges -/
theorem bcdd_f64count_exact (vars : Nat) (f : Bcdd.Edge) (ho : Bcdd.CNode.Ordered 0 f.n)
    (hb : Bcdd.Below vars f.n) (hv : vars ≤ 2043) (hf : BcddFits vars f.neg f.n) :
    bcddCount vars f = mk (Bcdd.satCount vars f * 2 ^ UNIT) ∧
    (Bcdd.satCount vars f < 2 ^ EMAX →
      bcddCount vars f = fin (Bcdd.satCount vars f * 2 ^ UNIT) ∧
      (bcddCount vars f).toNat? = some (Bcdd.satCount vars f)) := by
  have hh : (skelC f.neg f.n).height ≤ vars := by
    have := height_skelC ho hb (Nat.zero_le _) f.neg; omega
  have h1 : bcddCount vars f = mk (Bcdd.satCount vars f * 2 ^ UNIT) := by
    rw [bcddCount_skel, Bcdd.satCount, satCountGo_skel,
      ct_exact vars _ hh hv (allFits_skelC vars f.n f.neg hf)]
  refine ⟨h1, fun hlt => ?_⟩
  have h2 : bcddCount vars f = fin (Bcdd.satCount vars f * 2 ^ UNIT) := by
    rw [h1, mk_of_lt (units_lt_ovf hlt)]
  exact ⟨h2, by rw [h2, toNat_units]⟩

theorem bcdd_f64count_exact_small (vars : Nat) (f : Bcdd.Edge) (ho : Bcdd.CNode.Ordered 0 f.n)
    (hb : Bcdd.Below vars f.n) (hv : vars ≤ 53) (σ : Nat → Bool) :
    (bcddCount vars f).toNat? = some (Bcdd.satCount vars f) ∧
    (bcddCount vars f).toNat? = some (Bcdd.cntF (fun τ => f.eval τ) σ 0 vars) := by
  have hx := Bcdd.satCount_exact vars vars (Nat.le_refl _) f ho hb σ
  rw [Nat.sub_self, Nat.pow_zero, Nat.one_mul] at hx
  have hlt : Bcdd.satCount vars f < 2 ^ EMAX := by
    have h1 : Bcdd.satCount vars f ≤ 2 ^ vars := by
      rw [Bcdd.satCount, satCountGo_skel]; exact ctX_le _ _
    have h2 : 2 ^ vars < 2 ^ EMAX := Nat.pow_lt_pow_right (by omega) (by have := emax_eq; omega)
    omega
  have h := ((bcdd_f64count_exact vars f ho hb (by omega) (bcddFits_small hv f.n f.neg)).2 hlt).2
  exact ⟨h, by rw [h, hx]⟩

/-- ZBDD (path counting, `count << (vars - num_levels)`, no scaling): exact whenever every node's
path count has at most 53 significant bits — e.g. always with at most 53 levels — and the path
count is below `2^1024`; `inf` exactly when the shifted count reaches `2^1024`. With
`Zbdd.satCount_ge` the right-hand side is the number of satisfying assignments over `vars`
variables. -/
theorem zbdd_f64count_exact (n vars : Nat) (f : Zbdd.ZDD) (hv : n ≤ vars) (hf : ZFits f)
    (hlt : Zbdd.pathCount f < 2 ^ EMAX) :
    zbddCount n vars f = mk (Zbdd.satCount n vars f * 2 ^ UNIT) ∧
    (Zbdd.satCount n vars f < 2 ^ EMAX →
      (zbddCount n vars f).toNat? = some (Zbdd.satCount n vars f)) := by
  have h1 := zbddCount_exact n vars f hv hf hlt
  exact ⟨h1, fun h => by rw [h1, mk_of_lt (units_lt_ovf h), toNat_units]⟩

/-! ## (b) error bound -/

/-- C12 "floats within their precision", general part, on call trees: for every diagram of height
`≤ vars ≤ 2043` the `F64` count is `mk a` for a representable `a` that is within
`(1 ± 2^-53)^height` of the exact count (in units), and zero iff the exact count is zero. Hence it
is never NaN, and `inf` only if `a ≥ 2^1024`, i.e. only if `count · (1+2^-53)^height ≥ 2^1024`. -/
theorem ct_error_bound (vars : Nat) (g : CT) (hg : g.height ≤ vars) (hv : vars ≤ 2043) :
    ∃ a, ctCount vars g = mk a ∧ Fits a ∧ Within g.height a (ctX vars g * 2 ^ UNIT) ∧
      (a = 0 ↔ ctX vars g = 0) := by
  obtain ⟨a0, inv, _, h⟩ := ct_master vars vars g hg (Nat.le_refl _) hv
  rw [Nat.sub_self, Nat.zero_add] at h
  refine ⟨a0 * 2 ^ SCALE_EXP, h, fits_mul_pow inv.fits _, ?_, ?_⟩
  · have w := inv.within.scale (2 ^ SCALE_EXP)
    have e : ctX (vars + 53) g * 2 ^ SCALE_EXP = ctX vars g * 2 ^ UNIT := by
      have e2 : 53 + SCALE_EXP = UNIT := by simp only [UNIT, SCALE_EXP]
      rw [ctX_scale vars 53 g hg, Nat.mul_assoc, ← Nat.pow_add, e2]
    rwa [e] at w
  · have hp := Nat.two_pow_pos SCALE_EXP
    have hz := inv.zero
    rw [ctX_scale vars 53 g hg] at hz
    have h53 := Nat.two_pow_pos 53
    constructor
    · intro h0
      have : a0 = 0 := by
        rcases Nat.mul_eq_zero.mp h0 with h | h
        · exact h
        · omega
      have := hz.mp this
      rcases Nat.mul_eq_zero.mp this with h | h
      · exact h
      · omega
    · intro h0
      have : a0 = 0 := hz.mpr (by rw [h0, Nat.zero_mul])
      rw [this, Nat.zero_mul]

/-- BDD instance of the error bound; `d = vars - k` bounds the number of inner nodes on a path. For
normal-form diagrams the result is `0` exactly for the constant false. -/
theorem bdd_f64count_error_bound (vars k : Nat) (f : Bdd.BDD) (ho : Bdd.BDD.Ordered k f)
    (hl : Bdd.LevelsLt vars f) (hk : k ≤ vars) (hv : vars ≤ 2043) :
    ∃ a, bddCount vars f = mk a ∧ Fits a ∧
      Within (vars - k) a (Bdd.satCount vars f * 2 ^ UNIT) ∧
      (a = 0 ↔ Bdd.satCount vars f = 0) ∧
      bddCount vars f ≠ nan ∧
      (bddCount vars f = inf →
        2 ^ OVF * EB ^ (vars - k) ≤ Bdd.satCount vars f * 2 ^ UNIT * (EB + 1) ^ (vars - k)) ∧
      (Bdd.BDD.Reduced f → (bddCount vars f = fin 0 ↔ f = .leaf false)) := by
  have hh := height_skelB ho hl hk
  obtain ⟨a, h1, h2, h3, h4⟩ := ct_error_bound vars (skelB f) (by omega) hv
  rw [← bddCount_skel] at h1
  rw [← satCount_skel] at h3 h4
  have h3' := h3.mono (show (skelB f).height ≤ vars - k by omega)
  refine ⟨a, h1, h2, h3', h4, by rw [h1]; exact mk_ne_nan a, ?_, ?_⟩
  · intro hinf
    rw [h1] at hinf
    have hge : 2 ^ OVF ≤ a := by
      by_cases hlt : a < 2 ^ OVF
      · rw [mk_of_lt hlt] at hinf; cases hinf
      · omega
    exact Nat.le_trans (Nat.mul_le_mul_right _ hge) h3'.2
  · intro hr
    have hz := (Bdd.satcount_false_iff vars f k ⟨ho, hr⟩ hl).1
    rw [h1, ← hz, ← h4]
    constructor
    · intro h
      by_cases hlt : a < 2 ^ OVF
      · rw [mk_of_lt hlt] at h; cases h; rfl
      · rw [mk_of_ge (by omega)] at h; cases h
    · rintro rfl; exact mk_zero

/-- BCDD instance of the error bound -/
theorem bcdd_f64count_error_bound (vars : Nat) (f : Bcdd.Edge) (ho : Bcdd.CNode.Ordered 0 f.n)
    (hb : Bcdd.Below vars f.n) (hv : vars ≤ 2043) :
    ∃ a, bcddCount vars f = mk a ∧ Fits a ∧
      Within vars a (Bcdd.satCount vars f * 2 ^ UNIT) ∧
      (a = 0 ↔ Bcdd.satCount vars f = 0) ∧
      bcddCount vars f ≠ nan ∧
      (bcddCount vars f = inf →
        2 ^ OVF * EB ^ vars ≤ Bcdd.satCount vars f * 2 ^ UNIT * (EB + 1) ^ vars) := by
  have hh := height_skelC ho hb (Nat.zero_le _) f.neg
  obtain ⟨a, h1, h2, h3, h4⟩ := ct_error_bound vars (skelC f.neg f.n) (by omega) hv
  rw [← bcddCount_skel] at h1
  rw [← satCountGo_skel] at h3 h4
  have h3' := h3.mono (show (skelC f.neg f.n).height ≤ vars by omega)
  refine ⟨a, h1, h2, h3', h4, by rw [h1]; exact mk_ne_nan a, ?_⟩
  intro hinf
  rw [h1] at hinf
  have hge : 2 ^ OVF ≤ a := by
    by_cases hlt : a < 2 ^ OVF
    · rw [mk_of_lt hlt] at hinf; cases hinf
    · omega
  exact Nat.le_trans (Nat.mul_le_mul_right _ hge) h3'.2


/-- the cleaner form of the error bound: relative error at most `(vars - k) · 2^-52`
(`|a - c| · 2^52 ≤ c · (vars - k)` with `c` the exact count in units) -/
theorem bdd_f64count_error_linear (vars k : Nat) (f : Bdd.BDD) (ho : Bdd.BDD.Ordered k f)
    (hl : Bdd.LevelsLt vars f) (hk : k ≤ vars) (hv : vars ≤ 2043) :
    ∃ a, bddCount vars f = mk a ∧
      (a - Bdd.satCount vars f * 2 ^ UNIT) * 2 ^ 52 ≤ Bdd.satCount vars f * 2 ^ UNIT * (vars - k) ∧
      (Bdd.satCount vars f * 2 ^ UNIT - a) * 2 ^ 52 ≤ Bdd.satCount vars f * 2 ^ UNIT * (vars - k) := by
  obtain ⟨a, h1, _, h3, _⟩ := bdd_f64count_error_bound vars k f ho hl hk hv
  exact ⟨a, h1, h3.linear (by omega)⟩

theorem bcdd_f64count_error_linear (vars : Nat) (f : Bcdd.Edge) (ho : Bcdd.CNode.Ordered 0 f.n)
    (hb : Bcdd.Below vars f.n) (hv : vars ≤ 2043) :
    ∃ a, bcddCount vars f = mk a ∧
      (a - Bcdd.satCount vars f * 2 ^ UNIT) * 2 ^ 52 ≤ Bcdd.satCount vars f * 2 ^ UNIT * vars ∧
      (Bcdd.satCount vars f * 2 ^ UNIT - a) * 2 ^ 52 ≤ Bcdd.satCount vars f * 2 ^ UNIT * vars := by
  obtain ⟨a, h1, _, h3, _⟩ := bcdd_f64count_error_bound vars f ho hb hv
  exact ⟨a, h1, h3.linear (by omega)⟩


/-- ZBDD instance of the error bound (path counting: only additions, no scaling; any number of
levels, any `vars ≥ num_levels`): never NaN; a finite result is representable, within
`(1 ± 2^-53)^height` of the exact count and `0` iff the count is `0`; `+∞` only if
`count · (1+2^-53)^height ≥ 2^1024` (`Ovf`). -/
theorem zbdd_f64count_error_bound (n vars : Nat) (f : Zbdd.ZDD) (hv : n ≤ vars) :
    zbddCount n vars f ≠ nan ∧
    (∀ a, zbddCount n vars f = fin a →
      Fits a ∧ Within (zheight f) a (Zbdd.satCount n vars f * 2 ^ UNIT) ∧
      (a = 0 ↔ Zbdd.satCount n vars f = 0)) ∧
    (zbddCount n vars f = inf → Ovf (zheight f) (Zbdd.satCount n vars f * 2 ^ UNIT)) := by
  have h := zbddCount_res n vars f hv
  generalize zbddCount n vars f = r at *
  have hp := Nat.two_pow_pos UNIT
  cases h with
  | inf o => exact ⟨(by intro h; cases h), (fun a h => by cases h), fun _ => o⟩
  | fin a hf _ hw hz _ =>
    refine ⟨(by intro h; cases h), (fun a' h => ?_), fun h => by cases h⟩
    cases h
    refine ⟨hf, hw, hz.trans ⟨fun h => ?_, fun h => by rw [h, Nat.zero_mul]⟩⟩
    rcases Nat.mul_eq_zero.mp h with h | h
    · exact h
    · omega

/-! ## the range of the scaling trick ends at `vars = 2044` (FINDING, see REPORT.md) -/

/-- from `vars = 2045` on the terminal value `2^(vars-1021)` is `+∞`, and the `F64` count of every
satisfiable function is `+∞` — whatever its count -/
theorem bdd_f64count_beyond_range (vars : Nat) (hv : 2045 ≤ vars) (f : Bdd.BDD)
    (hr : Bdd.BDD.Reduced f) (hne : f ≠ .leaf false) : bddCount vars f = inf := by
  rw [bddCount_skel, ct_beyond_range vars hv, skelB_sat hr hne]; rfl

theorem bcdd_f64count_beyond_range (vars : Nat) (hv : 2045 ≤ vars) (f : Bcdd.Edge) :
    bcddCount vars f = if (skelC f.neg f.n).sat then inf else fin 0 := by
  rw [bcddCount_skel, ct_beyond_range vars hv]

/-- … so "`inf` only if the count is (about) `2^1024` or more" is FALSE beyond 2044 variables: the
conjunction of 2045 variables has exactly one satisfying assignment (`1.0` is representable), the
`F64` count is `+∞`. `f64count_error_bound` is therefore stated for `vars ≤ 2043`. -/
theorem f64count_beyond_range_wrong :
    Bdd.BDD.Ordered 0 (andChain 0 2045) ∧ Bdd.BDD.Reduced (andChain 0 2045) ∧
    Bdd.satCount 2045 (andChain 0 2045) = 1 ∧ bddCount 2045 (andChain 0 2045) = inf := by
  refine ⟨andChain_ordered _ _, andChain_reduced _ _, ?_, ?_⟩
  · rw [satCount_andChain 2045 0 2045 (Nat.le_refl _), Nat.sub_self, Nat.pow_zero]
  · exact bdd_f64count_beyond_range 2045 (Nat.le_refl _) _ (andChain_reduced _ _) (andChain_ne_false _ _)

/-! ## (c) the scaling boundary -/

/-- the `F64` count as a function of `vars`: one mantissa `a0` per diagram (representable, does not
depend on `vars`), times `2^vars` — for all `vars` from the number of levels `n` up to 2043, in
particular on both sides of `vars = scale_exp = 1021`. -/
theorem bdd_f64count_mantissa (n k : Nat) (f : Bdd.BDD) (ho : Bdd.BDD.Ordered k f)
    (hl : Bdd.LevelsLt n f) :
    ∃ a0, Fits a0 ∧ ∀ vars, n ≤ vars → vars ≤ 2043 →
      bddCount vars f = mk (a0 * 2 ^ (vars - n + SCALE_EXP)) := by
  have hh := height_skelB (ho.mono (Nat.zero_le k)) hl (Nat.zero_le _)
  obtain ⟨a0, inv, hs⟩ := ctGo_inv (n + 53) (skelB f) (by omega)
  refine ⟨a0, inv.fits, fun vars h1 h2 => ?_⟩
  obtain ⟨a0', _, e', h'⟩ := ct_master n vars (skelB f) (by omega) h1 h2
  have e0 := hs 0 (by simp only [OVF, EMAX, UNIT]; omega)
  rw [Nat.add_zero, Nat.pow_zero, Nat.mul_one, e'] at e0
  cases e0
  rw [bddCount_skel, h']

theorem bcdd_f64count_mantissa (n : Nat) (f : Bcdd.Edge) (ho : Bcdd.CNode.Ordered 0 f.n)
    (hb : Bcdd.Below n f.n) :
    ∃ a0, Fits a0 ∧ ∀ vars, n ≤ vars → vars ≤ 2043 →
      bcddCount vars f = mk (a0 * 2 ^ (vars - n + SCALE_EXP)) := by
  have hh := height_skelC ho hb (Nat.zero_le _) f.neg
  obtain ⟨a0, inv, hs⟩ := ctGo_inv (n + 53) (skelC f.neg f.n) (by omega)
  refine ⟨a0, inv.fits, fun vars h1 h2 => ?_⟩
  obtain ⟨a0', _, e', h'⟩ := ct_master n vars (skelC f.neg f.n) (by omega) h1 h2
  have e0 := hs 0 (by simp only [OVF, EMAX, UNIT]; omega)
  rw [Nat.add_zero, Nat.pow_zero, Nat.mul_one, e'] at e0
  cases e0
  rw [bcddCount_skel, h']

theorem mk_step (a0 J : Nat) : mk (a0 * 2 ^ (J + 1)) = (mk (a0 * 2 ^ J)).dbl := by
  rw [dbl_mk, Nat.pow_succ, ← Nat.mul_assoc, Nat.mul_comm 2]

/-- C12, `scaling_boundary`: for a fixed diagram with `n` levels the `F64` count is *continuous*
in `vars` — one more variable doubles it (same mantissa, exponent `+ 1`, `toD_dbl`) — for every
`n ≤ vars < 2043`, in particular for `vars = 1020, 1021` (unscaled → scaled, scaled → scaled).
Both seeded defects (`vars > scale_exp` in the terminal value only) violate exactly this
(`strict_scaling_overflows`). -/
theorem scaling_boundary (n k : Nat) (f : Bdd.BDD) (ho : Bdd.BDD.Ordered k f) (hl : Bdd.LevelsLt n f)
    (vars : Nat) (h1 : n ≤ vars) (h2 : vars + 1 ≤ 2043) :
    bddCount (vars + 1) f = (bddCount vars f).dbl := by
  obtain ⟨a0, _, h⟩ := bdd_f64count_mantissa n k f ho hl
  rw [h vars h1 (by omega), h (vars + 1) (by omega) h2, ← mk_step]
  congr 3; omega

theorem bcdd_scaling_boundary (n : Nat) (f : Bcdd.Edge) (ho : Bcdd.CNode.Ordered 0 f.n)
    (hb : Bcdd.Below n f.n) (vars : Nat) (h1 : n ≤ vars) (h2 : vars + 1 ≤ 2043) :
    bcddCount (vars + 1) f = (bcddCount vars f).dbl := by
  obtain ⟨a0, _, h⟩ := bcdd_f64count_mantissa n f ho hb
  rw [h vars h1 (by omega), h (vars + 1) (by omega) h2, ← mk_step]
  congr 3; omega

/-- the instance the two seeded defects broke: `vars = scale_exp - 1, scale_exp, scale_exp + 1` -/
theorem scaling_boundary_1021 (n k : Nat) (f : Bdd.BDD) (ho : Bdd.BDD.Ordered k f)
    (hl : Bdd.LevelsLt n f) (hn : n ≤ 1020) :
    bddCount 1021 f = (bddCount 1020 f).dbl ∧ bddCount 1022 f = (bddCount 1021 f).dbl :=
  ⟨scaling_boundary n k f ho hl 1020 hn (by omega), scaling_boundary n k f ho hl 1021 (by omega) (by omega)⟩

/-- what `dbl` does in the mantissa/exponent view of a normal number: same mantissa, exponent `+1` -/
theorem toD_dbl {a : Nat} (ha : 2 ^ 52 ≤ a) (hlt : 2 * a < 2 ^ OVF) :
    (fin a).dbl = fin (2 * a) ∧
    (fin (2 * a)).toD = (fin a).toD.map (fun d => ⟨d.m, d.e + 1⟩) := by
  refine ⟨by simp only [F.dbl, mk_of_lt hlt], ?_⟩
  have hne : a ≠ 0 := by omega
  have hb : bitlen (2 * a) = bitlen a + 1 := by
    have := bitlen_mul_pow hne 1
    rwa [Nat.pow_one, Nat.mul_comm] at this
  have hL := le_bitlen ha
  have e : bitlen a + 1 - 53 = (bitlen a - 53) + 1 := by omega
  simp only [F.toD, hb, e, Option.map, Nat.shiftRight_eq_div_pow, Nat.pow_succ]
  congr 2
  · rw [Nat.mul_comm (2 ^ (bitlen a - 53)) 2]
    exact Nat.mul_div_mul_left _ _ (by omega)
  · omega

/-! ## negative witnesses (evaluated on dyadics by the kernel) -/

/-- the seeded defects `R4-C12-bdd-f64-scale-1021` / `R3-C13-bcdd-f64-count-1021`: with
`vars > scale_exp` in the terminal value (and `>=` in the final scaling) the count of ⊤ over 1021
variables is `2^1021 << 1021 = inf`; the code as it is returns `2^1021`, the double of the count
over 1020 variables. The variant breaks `scaling_boundary` at `vars = 1020`. -/
theorem strict_scaling_overflows :
    bddCountG true 1021 (.leaf true) = .inf ∧
    bcddCountG true 1021 ⟨false, .top⟩ = .inf ∧
    bddCount 1021 (.leaf true) = .fin (2 ^ (1021 + 1074)) ∧
    bcddCount 1021 ⟨false, .top⟩ = .fin (2 ^ (1021 + 1074)) ∧
    bddCountG true 1021 (.leaf true) ≠ (bddCountG true 1020 (.leaf true)).dbl := by
  decide +kernel

/-- the historical defect behind /repo commit 0f51af3: without the zero test `0 << k` is
`0 * 2^k = 0 * inf = NaN` from `k = 1024` on; with it (the code as it is) it is `0` -/
theorem shl_zero_without_test_is_nan :
    F.mul (.fin 0) (F.exp2 1024) = .nan ∧ F.shl (.fin 0) 1024 = .fin 0 ∧
    zbddCount 3 1100 .empty = .fin 0 := by
  decide +kernel

/-- observation (not used by `sat_count`): `x << k` is `x * exp2(k)`, so from `k = 1024` on the
result is `inf` even when `x · 2^k` is representable, and `x >> k` is `0` from `k = 1075` on even
when `x · 2^-k` is representable: `2^-1022 << 1024 = inf` (not `4`), `2^1023 >> 1075 = 0` (not
`2^-52`), `inf >> 1075 = NaN` -/
theorem shift_range_observation :
    F.shl (.fin (2 ^ 52)) 1024 = .inf ∧ F.shr (.fin (2 ^ (1023 + 1074))) 1075 = .fin 0 ∧
    F.shr .inf 1075 = .nan ∧ F.shl (.fin (2 ^ 52)) 1023 = .fin (2 ^ (52 + 1023)) := by
  decide +kernel

/-! ## non-vacuity -/

/-- `x0 ? x2 : (¬x1 ∧ x2)` (3 models over 3 variables) -/
def exG : Bdd.BDD := Bdd.exG

example : BddFits 1021 exG ∧ BddFits 3 exG := by decide +kernel

/-- the count over 3, 1020, 1021 and 1022 variables is the exact count `3 · 2^(vars-3)` -/
example :
    bddCount 3 exG = .fin (3 * 2 ^ 1074) ∧ (bddCount 3 exG).toNat? = some 3 ∧
    bddCount 1020 exG = .fin (3 * 2 ^ 1017 * 2 ^ 1074) ∧
    bddCount 1021 exG = .fin (3 * 2 ^ 1018 * 2 ^ 1074) ∧
    bddCount 1022 exG = .fin (3 * 2 ^ 1019 * 2 ^ 1074) ∧
    (bddCount 1021 exG).toBits = some 0x7fa8000000000000 ∧
    bddCount 1025 exG = .fin (3 * 2 ^ 1022 * 2 ^ 1074) ∧ bddCount 1026 exG = .inf := by decide +kernel

example := bdd_f64count_exact 1021 0 exG Bdd.exG_nf.1 (Bdd.exG_lt.mono (by omega)) (by omega)
  (by decide +kernel)
example := f64count_exact_small 3 0 exG Bdd.exG_nf.1 Bdd.exG_lt (by omega)
example := bdd_f64count_error_bound 1021 0 exG Bdd.exG_nf.1 (Bdd.exG_lt.mono (by omega)) (by omega) (by omega)
example := bdd_f64count_error_linear 1021 0 exG Bdd.exG_nf.1 (Bdd.exG_lt.mono (by omega)) (by omega) (by omega)
example := bdd_f64count_beyond_range 2045 (by omega) exG Bdd.exG_nf.2 (by decide)
example := zbdd_f64count_error_bound 2 1000 (.node 0 (.node 1 .base .base) .base) (by omega)
example := bdd_f64count_mantissa 3 0 exG Bdd.exG_nf.1 Bdd.exG_lt
example := scaling_boundary_1021 3 0 exG Bdd.exG_nf.1 Bdd.exG_lt (by omega)

/-- rounding does happen: `2^53 + 1` units-of-one is not representable (`Fits` fails), and the sum
`2^53 + 1` rounds to even -/
example : ¬ Fits (2 ^ 53 + 1) ∧ rnd (2 ^ 53 + 1) = 2 ^ 53 ∧ rnd (2 ^ 53 + 3) = 2 ^ 53 + 4 ∧
    F.add (.fin (2 ^ 53 * 2 ^ 1074)) (.fin (2 ^ 1074)) = .fin (2 ^ 53 * 2 ^ 1074) := by
  decide +kernel

/-- BCDD: `¬(x0 ∧ x1)` as a complemented edge: 3 models over 2 variables -/
def exC : Bcdd.Edge := ⟨true, .node 0 (.node 1 .top true .top) true .top⟩

example : exC.n.Ordered 0 ∧ Bcdd.Below 2 exC.n := by
  refine ⟨.node (by omega) (.node (by omega) .top .top) .top, ?_⟩
  simp [exC, Bcdd.Below]

example : Bcdd.satCount 2 exC = 3 ∧ bcddCount 2 exC = .fin (3 * 2 ^ 1074) ∧
    bcddCount 1021 exC = .fin (3 * 2 ^ 1019 * 2 ^ 1074) ∧
    bcddCount 1022 exC = (bcddCount 1021 exC).dbl := by decide +kernel

/-- ZBDD: the family `{∅, {0}, {0,1}}` over 2 levels, counted over 2 and over 1100 variables -/
example : zbddCount 2 2 (.node 0 (.node 1 .base .base) .base) = .fin (3 * 2 ^ 1074) ∧
    zbddCount 2 1000 (.node 0 (.node 1 .base .base) .base) = .fin (3 * 2 ^ 998 * 2 ^ 1074) ∧
    zbddCount 2 1100 (.node 0 (.node 1 .base .base) .base) = .inf ∧
    ZFits (.node 0 (.node 1 .base .base) .base) := by decide +kernel

end OxiddModel.Num.F64C
