import OxiddModel.Num.LemmasNaturalF64
import OxiddModel.Num.Properties

/-!
# C12: `Natural → f64` is the correctly rounded conversion — headline theorems

Property text: *"The arbitrary-precision natural type … computes sums, shifts, comparisons,
**conversions** and textual output exactly"*.  A conversion to binary64 cannot be exact for all
naturals; what is proved is that `impl From<&Natural> for f64` (digit-level model
`Natural.toF64Bits`, tied bit for bit to the real code by the streams `nat` and `natf64`) returns,
for **every** normal form of unbounded size,

* the bit pattern of `round53 ⟨x, 0⟩`, the value `x` rounded to the nearest binary64 number, ties to
  even (`natural_to_f64_spec`) — in the exact dyadic model of binary64 of `Num/F64Count.lean`, no
  Lean `Float`;
* `+∞` exactly from `2^1024 − 2^970` on (`natural_to_f64_inf_iff`);
* the value itself whenever it is representable, i.e. whenever `x` without its trailing zeros has at
  most 53 bits and `x < 2^1024` (`natural_to_f64_exact`), and only then (`natural_to_f64_exact_iff`);
* NaN exactly for the error value.

The code has no sticky bit and looks at two digits only; that this suffices rests on the
representation invariant "the mantissa is odd" (`NF`), see `Num/NaturalF64.lean`.  Without the
invariant the same code rounds wrongly (`even_mantissa_rounds_wrong`), so the hypothesis `NF n`
is not decoration.
-/
namespace OxiddModel.Num
open Natural NatF64 F64C

namespace NatF64

/-! ## overflow threshold and exactness of `round53` on naturals (no `Natural` involved) -/

theorem ovf_eq : OVF = 2098 := rfl

theorem ofNat_inf_iff_rnd (x : Nat) : ofNat x = .inf ↔ 2 ^ 1024 ≤ rnd x := by
  rw [ofNat_eq]
  have hP : (2 : Nat) ^ OVF = 2 ^ 1024 * 2 ^ 1074 := by rw [ovf_eq, ← Nat.pow_add]
  constructor
  · intro h
    apply Classical.byContradiction
    intro hc
    have : rnd x * 2 ^ 1074 < 2 ^ OVF := by
      rw [hP]; exact Nat.mul_lt_mul_of_pos_right (by omega) (Nat.two_pow_pos _)
    rw [mk_of_lt this] at h; cases h
  · intro h
    exact mk_of_ge (by rw [hP]; exact Nat.mul_le_mul_right _ h)

/-- `rnd x ≥ 2^1024` exactly from the midpoint between the largest finite value and `2^1024` on
(the midpoint itself is a tie and the even neighbour is `2^1024`) -/
theorem rnd_ge_iff (x : Nat) : 2 ^ 1024 ≤ rnd x ↔ INF_FROM ≤ x := by
  unfold INF_FROM
  have e971 : (2 : Nat) ^ 971 = 2 * 2 ^ 970 := Nat.pow_succ'
  have e1024 : (2 : Nat) ^ 1024 = 2 ^ 53 * 2 ^ 971 := by rw [← Nat.pow_add]
  have e1023 : (2 : Nat) ^ 1024 = 2 * 2 ^ 1023 := Nat.pow_succ'
  have hP970 := Nat.two_pow_pos 970
  by_cases hbig : 2 ^ 1024 ≤ x
  · exact ⟨fun _ => by omega, fun _ => pow_le_rnd hbig⟩
  by_cases hsmall : x < 2 ^ 1023
  · have h1 := rnd_le_pow (Nat.le_of_lt hsmall)
    have h53 : (2 : Nat) ^ 1023 = 2 ^ 53 * 2 ^ 970 := by rw [← Nat.pow_add]
    have : 2 * 2 ^ 970 ≤ 2 ^ 53 * 2 ^ 970 := Nat.mul_le_mul_right _ (by decide)
    constructor
    · intro h; omega
    · intro h; omega
  -- `x` has exactly 1024 bits: the last 971 are rounded away
  have hbl : bitlen x = 1024 := bitlen_unique (by omega) (by omega)
  have hrnd : rnd x = rne x 971 * 2 ^ 971 := by unfold rnd; rw [hbl]
  rw [hrnd, e1024]
  have hdm := Nat.div_add_mod x (2 ^ 971)
  have hr := Nat.mod_lt x (Nat.two_pow_pos 971)
  have hq : x / 2 ^ 971 < 2 ^ 53 := by
    rw [Nat.div_lt_iff_lt_mul (Nat.two_pow_pos _), ← e1024]; omega
  have h53 : (2 : Nat) ^ 53 = 9007199254740992 := by decide
  rw [h53] at hq ⊢
  rw [e1024, h53] at hbig
  constructor
  · intro h
    have hk : 9007199254740992 ≤ rne x 971 := Nat.le_of_mul_le_mul_right h (Nat.two_pow_pos _)
    rcases rne_cases x 971 with ⟨h1, _⟩ | ⟨h1, h2⟩
    · omega
    · have hq' : x / 2 ^ 971 = 9007199254740991 := by omega
      rw [hq'] at hdm
      generalize x % 2 ^ 971 = r at *
      generalize (2 : Nat) ^ 971 = P at *
      generalize (2 : Nat) ^ 970 = P' at *
      omega
  · intro h
    apply Nat.mul_le_mul_right
    have hq' : x / 2 ^ 971 = 9007199254740991 := by
      have : 9007199254740991 ≤ x / 2 ^ 971 := by
        rw [Nat.le_div_iff_mul_le (Nat.two_pow_pos _)]
        generalize (2 : Nat) ^ 971 = P at *
        generalize (2 : Nat) ^ 970 = P' at *
        omega
      omega
    have hrge : 2 ^ 970 ≤ x % 2 ^ 971 := by
      rw [hq'] at hdm
      generalize x % 2 ^ 971 = r at *
      generalize (2 : Nat) ^ 971 = P at *
      generalize (2 : Nat) ^ 970 = P' at *
      omega
    unfold rne
    simp only []
    rw [hq', if_pos (by
      generalize x % 2 ^ 971 = r at *
      generalize (2 : Nat) ^ 971 = P at *
      generalize (2 : Nat) ^ 970 = P' at *
      omega)]
    omega

theorem ofNat_inf_iff (x : Nat) : ofNat x = .inf ↔ INF_FROM ≤ x := by
  rw [ofNat_inf_iff_rnd, rnd_ge_iff]

theorem ofNat_ne_nan (x : Nat) : ofNat x ≠ .nan := by
  rw [ofNat_eq]; exact mk_ne_nan _

theorem inf_from_lt : INF_FROM < 2 ^ 1024 := by
  unfold INF_FROM
  have := Nat.two_pow_pos 970
  have := Nat.two_pow_pos 1024
  omega

theorem short_iff_fits (x : Nat) : Short x ↔ Fits x := by
  constructor
  · rintro ⟨m, e, hm, rfl⟩
    exact fits_mul_pow (fits_of_lt hm) e
  · intro h
    refine ⟨x / 2 ^ (bitlen x - 53), bitlen x - 53, ?_, ?_⟩
    · rw [Nat.div_lt_iff_lt_mul (Nat.two_pow_pos _), ← Nat.pow_add]
      by_cases hb : bitlen x ≤ 53
      · have := lt_two_pow_bitlen x
        exact Nat.lt_of_lt_of_le this (Nat.pow_le_pow_right (by decide) (by omega))
      · rw [show 53 + (bitlen x - 53) = bitlen x by omega]; exact lt_two_pow_bitlen x
    · exact (Nat.div_mul_cancel (Nat.dvd_of_mod_eq_zero h)).symm

/-- `round53` of a natural number is that number iff it is short and below `2^1024` -/
theorem ofNat_exact_iff (x : Nat) : ofNat x = .fin (x * 2 ^ 1074) ↔ Short x ∧ x < 2 ^ 1024 := by
  have hP : (2 : Nat) ^ OVF = 2 ^ 1024 * 2 ^ 1074 := by rw [ovf_eq, ← Nat.pow_add]
  rw [ofNat_eq, short_iff_fits]
  constructor
  · intro h
    have hlt : rnd x * 2 ^ 1074 < 2 ^ OVF := by
      apply Classical.byContradiction
      intro hc
      rw [mk_of_ge (by omega)] at h; cases h
    rw [mk_of_lt hlt] at h
    have he : rnd x = x := by
      have : rnd x * 2 ^ 1074 = x * 2 ^ 1074 := by injection h
      exact Nat.eq_of_mul_eq_mul_right (Nat.two_pow_pos _) this
    refine ⟨by rw [← he]; exact fits_rnd x, ?_⟩
    rw [he, hP] at hlt
    exact Nat.lt_of_mul_lt_mul_right hlt
  · rintro ⟨hf, hlt⟩
    rw [rnd_of_fits hf, mk_of_lt (by rw [hP]; exact Nat.mul_lt_mul_of_pos_right hlt (Nat.two_pow_pos _))]

theorem toNat_fin_units (x : Nat) : (F.fin (x * 2 ^ 1074)).toNat? = some x := by
  unfold F.toNat? UNIT
  simp only []
  rw [Nat.mul_mod_left, if_pos rfl, Nat.mul_div_cancel _ (Nat.two_pow_pos _)]

/-! ## the conversion -/

/-- the conversion of a non-zero normal form, in terms of its mantissa value `M` and exponent -/
theorem staged_nonzero {n : Natural} (hn : NF n) (h0 : n.len ≠ 0) :
    some (staged n.mantissa n.shl) = (ofNat (dval n.mantissaRaw * 2 ^ n.shl)).toBits := by
  obtain ⟨hcanon, hval⟩ := mantissa_canon hn h0
  have hfacts := nf_mant_facts hn h0
  have hodd : dval n.mantissaRaw % 2 = 1 := headD_odd_dval_odd hfacts.odd
  have hM0 : dval n.mantissaRaw ≠ 0 := by intro h; rw [h] at hodd; simp at hodd
  have hne : n.mantissa ≠ [] := by intro h; rw [h] at hcanon; exact hcanon.2 rfl
  have hlen : 1 ≤ n.mantissa.length := by
    cases hD : n.mantissa with
    | nil => exact absurd hD hne
    | cons _ _ => simp
  obtain ⟨hbw, hm2, htop⟩ := top_digits_spec hcanon (n.mantissa.getLastD 0)
    (64 * (n.mantissa.length - 1) + bitLen (n.mantissa.getLastD 0)) rfl rfl
  rw [hval] at hbw htop
  have hmsd0 : n.mantissa.getLastD 0 ≠ 0 := hcanon.2
  have hmsdB : n.mantissa.getLastD 0 < B := by
    obtain ⟨init, x, h1, _, h3⟩ := exists_snoc n.mantissa hne
    rw [h3]; exact hcanon.1 x (by rw [h1]; simp)
  have hlz := lz64_add_bitLen hmsdB
  have hblpos := bitLen_pos hmsd0
  -- the exact side
  have hu : rnd (dval n.mantissaRaw * 2 ^ n.shl) * 2 ^ 1074
      = sig53 (dval n.mantissaRaw) * 2 ^ (bitLen (dval n.mantissaRaw) + n.shl + 1021) := by
    rw [rnd_mul_pow, Nat.mul_assoc, ← Nat.pow_add, rnd_eq_sig53 _ _ (by omega),
      show bitLen (dval n.mantissaRaw) + (n.shl + 1074) - 53
        = bitLen (dval n.mantissaRaw) + n.shl + 1021 by omega]
  obtain ⟨hs1, hs2⟩ := sig53_range hM0
  rw [ofNat_eq, hu]
  -- the code side
  obtain ⟨hsat1, hsat2⟩ := bitWidthSat_spec (len := n.mantissa.length) (shl := n.shl)
    (lz64_le (n.mantissa.getLastD 0)) hlen
  have hwidth : 64 * n.mantissa.length + n.shl - lz64 (n.mantissa.getLastD 0)
      = bitLen (dval n.mantissaRaw) + n.shl := by rw [hbw]; omega
  rw [hwidth] at hsat1 hsat2
  have hA := fracTruncMsb_spec hmsd0 hmsdB hm2
  rw [htop, ← hbw] at hA
  have hC := fracRounded_spec hodd
  rw [show dval n.mantissaRaw * 2 ^ 64 / 2 ^ (bitLen (dval n.mantissaRaw) - 1) - 2 ^ 64
      = fracTruncMsb (n.mantissa.getLastD 0) (msd2Of n.mantissa) by omega] at hC
  unfold staged
  simp only []
  rw [if_neg hmsd0]
  generalize hW : bitLen (dval n.mantissaRaw) = W at *
  generalize hq : sig53 (dval n.mantissaRaw) = q at *
  have hOVF : (2 : Nat) ^ OVF = 2 ^ 53 * 2 ^ 2045 := by rw [ovf_eq, ← Nat.pow_add]
  by_cases hinf : bitWidthSat n.mantissa.length n.shl (lz64 (n.mantissa.getLastD 0)) > 1024
  · -- `bit_width > 1024`: at least `2^1024`
    rw [if_pos hinf]
    have hge : 2 ^ OVF ≤ q * 2 ^ (W + n.shl + 1021) := by
      have h1 : (2 : Nat) ^ OVF = 2 ^ 52 * 2 ^ 2046 := by rw [ovf_eq, ← Nat.pow_add]
      rw [h1]
      exact Nat.mul_le_mul hs1 (Nat.pow_le_pow_right (by decide) (by have := hsat1.1 hinf; omega))
    rw [mk_of_ge hge]; rfl
  · rw [if_neg hinf]
    have hbwv := hsat2 (by omega)
    rw [hbwv, show W + n.shl - n.shl = W by omega]
    have hle : W + n.shl ≤ 1024 := by omega
    rw [Nat.shiftLeft_eq]
    by_cases hfin : q * 2 ^ (W + n.shl + 1021) < 2 ^ OVF
    · rw [mk_of_lt hfin, toBits_fin_sig hs1 hs2]
      refine congrArg some ?_
      have h52 : (2 : Nat) ^ 52 = 4503599627370496 := by decide
      rw [h52] at hC hs1 ⊢
      generalize fracRounded _ _ = fr at *
      omega
    · -- the carry of the rounding reaches `2^1024`
      rw [mk_of_ge (by omega)]
      have hW1024 : W + n.shl = 1024 := by
        apply Classical.byContradiction
        intro hc
        have h1 : q * 2 ^ (W + n.shl + 1021) ≤ 2 ^ 53 * 2 ^ 2044 :=
          Nat.mul_le_mul hs2 (Nat.pow_le_pow_right (by decide) (by omega))
        have h2 : (2 : Nat) ^ 53 * 2 ^ 2044 < 2 ^ 53 * 2 ^ 2045 :=
          Nat.mul_lt_mul_of_pos_left (Nat.pow_lt_pow_right (by decide) (by omega)) (Nat.two_pow_pos _)
        omega
      rw [hW1024] at hfin ⊢
      have hq53 : q = 2 ^ 53 := by
        have : 2 ^ 53 * 2 ^ 2045 ≤ q * 2 ^ 2045 := by
          rw [← hOVF]; exact Nat.le_of_not_lt hfin
        have := Nat.le_of_mul_le_mul_right this (Nat.two_pow_pos _)
        omega
      show some _ = some 0x7FF0000000000000
      refine congrArg some ?_
      have h52 : (2 : Nat) ^ 52 = 4503599627370496 := by decide
      have h53 : (2 : Nat) ^ 53 = 9007199254740992 := by decide
      rw [h52] at hC ⊢
      rw [hq53, h53] at hC
      generalize fracRounded _ _ = fr at *
      omega

end NatF64

/-! ## headline theorems -/

/-- **natural_to_f64_spec.** For every normal form `n` (any number of digits, any exponent):
`f64::from(&n)` is a NaN iff `n` is the error value, and otherwise its bit pattern is the bit
pattern of `round53 ⟨x, 0⟩`: the denoted number `x`, rounded to the nearest binary64 value, ties to
even, `+∞` on overflow.  (`NatF64.spec n` is by definition `none` for the error value and
`(round53 ⟨x, 0⟩).toBits` for `n.val = some x`.) -/
theorem natural_to_f64_spec (n : Natural) (hn : NF n) : n.toF64Bits = NatF64.spec n := by
  rw [toF64Bits_eq_staged]
  unfold NatF64.spec
  by_cases hnan : n.shl = MAX64
  · rw [if_pos ((isNan_iff n).2 hnan), val_of_nan hnan]
  · have hnn : ¬ n.isNan = true := fun h => hnan ((isNan_iff n).1 h)
    rw [if_neg hnn, val_of_not_nan hnan]
    by_cases h0 : n.len = 0
    · have hz := nf_len_zero hn h0 hnan
      rw [val_of_not_nan hnan] at hz
      injection hz with hz
      rw [hz, mantissa_zero hn h0]
      show some 0 = (ofNat 0).toBits
      rw [ofNat_eq, rnd_zero, Nat.zero_mul, mk_zero]
      rfl
    · exact staged_nonzero hn h0

/-- the same, spelled out: the result for a number is never a NaN and is the correctly rounded
value -/
theorem natural_to_f64_round (n : Natural) (hn : NF n) (x : Nat) (hx : n.val = some x) :
    n.toF64Bits = (round53 ⟨x, 0⟩).toBits ∧ round53 ⟨x, 0⟩ ≠ .nan ∧ n.toF64Bits ≠ none := by
  have h := natural_to_f64_spec n hn
  unfold NatF64.spec at h
  rw [hx] at h
  refine ⟨h, ofNat_ne_nan x, ?_⟩
  rw [h]
  show (ofNat x).toBits ≠ none
  have := ofNat_ne_nan x
  cases hv : ofNat x with
  | fin u => simp [F.toBits]
  | inf => simp [F.toBits]
  | nan => exact absurd hv this

/-- the error value converts to a NaN -/
theorem natural_to_f64_nan (n : Natural) (hn : NF n) : n.toF64Bits = none ↔ n.val = none := by
  constructor
  · intro h
    cases hv : n.val with
    | none => rfl
    | some x => exact absurd h (natural_to_f64_round n hn x hv).2.2
  · intro h
    rw [natural_to_f64_spec n hn]; unfold NatF64.spec; rw [h]

/-- **natural_to_f64_inf_iff.** The result is `+∞` exactly when `x ≥ 2^1024 − 2^970` (half an ulp
above the largest finite binary64 number `2^1024 − 2^971`; the midpoint itself is a tie whose even
neighbour is `2^1024`). -/
theorem natural_to_f64_inf_iff (n : Natural) (hn : NF n) (x : Nat) (hx : n.val = some x) :
    n.toF64Bits = some 0x7ff0000000000000 ↔ 2 ^ 1024 - 2 ^ 970 ≤ x := by
  rw [(natural_to_f64_round n hn x hx).1]
  show (ofNat x).toBits = _ ↔ INF_FROM ≤ x
  rw [← ofNat_inf_iff]
  constructor
  · intro h
    cases hv : ofNat x with
    | inf => rfl
    | nan => rw [hv] at h; cases h
    | fin u =>
      exfalso
      -- a finite value has a pattern below that of `+∞`
      have hu : u < 2 ^ OVF := by
        rw [ofNat_eq] at hv
        unfold F64C.mk at hv
        split at hv
        · rename_i hlt
          have hu' := F.fin.inj hv
          exact hu' ▸ hlt
        · cases hv
      rw [hv] at h
      unfold F.toBits at h
      injection h with h
      have hbl : bitlen u ≤ OVF := bitlen_le hu
      rw [ovf_eq] at hbl
      have hsh : u >>> (bitlen u - 53) < 2 ^ 53 := by
        rw [Nat.shiftRight_eq_div_pow, Nat.div_lt_iff_lt_mul (Nat.two_pow_pos _), ← Nat.pow_add]
        by_cases hb : bitlen u ≤ 53
        · exact Nat.lt_of_lt_of_le (lt_two_pow_bitlen u) (Nat.pow_le_pow_right (by decide) (by omega))
        · rw [show 53 + (bitlen u - 53) = bitlen u by omega]; exact lt_two_pow_bitlen u
      have h52 : (2 : Nat) ^ 52 = 4503599627370496 := by decide
      have h53 : (2 : Nat) ^ 53 = 9007199254740992 := by decide
      rw [h52] at h
      rw [h53] at hsh
      generalize u >>> (bitlen u - 53) = t at *
      omega
  · intro h; rw [h]; rfl

/-- **natural_to_f64_exact.** If `x` without its trailing zero bits has at most 53 bits and
`x < 2^1024`, the conversion is exact: the result is the binary64 value that *is* `x`. -/
theorem natural_to_f64_exact (n : Natural) (hn : NF n) (x : Nat) (hx : n.val = some x)
    (hs : NatF64.Short x) (hlt : x < 2 ^ 1024) :
    n.toF64Bits = (F.fin (x * 2 ^ 1074)).toBits ∧ (F.fin (x * 2 ^ 1074)).toNat? = some x := by
  refine ⟨?_, toNat_fin_units x⟩
  rw [(natural_to_f64_round n hn x hx).1]
  show (ofNat x).toBits = _
  rw [(ofNat_exact_iff x).2 ⟨hs, hlt⟩]

/-- **natural_to_f64_exact_iff.** The rounded value equals `x` exactly in that case and in no
other: everything else is rounded (by at most half a unit in the last place, since it is
`round53`). -/
theorem natural_to_f64_exact_iff (x : Nat) :
    round53 ⟨x, 0⟩ = .fin (x * 2 ^ 1074) ↔ NatF64.Short x ∧ x < 2 ^ 1024 := ofNat_exact_iff x

/-! ## non-vacuity and negative witnesses -/

/-- `2^53 + 1` (54 bits, a tie) is rounded to the even neighbour `2^53`; `2^53 + 3` (the other
tie) to `2^53 + 4` -/
example : (ofU64 (2 ^ 53 + 1)).toF64Bits = some 0x4340000000000000
    ∧ (ofU64 (2 ^ 53 + 3)).toF64Bits = some 0x4340000000000002 := by decide

/-- the theorem applies to them: `ofU64` yields normal forms -/
example : (round53 ⟨2 ^ 53 + 1, 0⟩).toBits = some 0x4340000000000000 := by
  obtain ⟨h, v⟩ := natural_from_u64 (2 ^ 53 + 1) (by decide)
  have := (natural_to_f64_round _ h _ v).1
  rw [← this]; decide

/-- the hypothesis `NF` is needed: on the denormalised representation `(2^54 + 2) · 2^0` (even
mantissa, 55 bits) the code sees round bit `1`, takes it for "above the midpoint" (it would be,
if the lowest bit were `1`) and rounds up, although the value is a tie whose even neighbour is
below — the result differs from the correctly rounded one -/
theorem even_mantissa_rounds_wrong :
    (⟨.inl (2 ^ 54 + 2), 0⟩ : Natural).toF64Bits = some 0x4350000000000001
    ∧ (round53 ⟨2 ^ 54 + 2, 0⟩).toBits = some 0x4350000000000000
    ∧ ¬ NF ⟨.inl (2 ^ 54 + 2), 0⟩ := by
  refine ⟨by decide +kernel, by decide +kernel, ?_⟩
  intro h
  have := h.2.2.2 (by decide)
  revert this; decide

end OxiddModel.Num
