import OxiddModel.Util.Proto
import OxiddModel.VarNames.Driver
import OxiddModel.Reorder.Model
import OxiddModel.Pointer.Model

/-!
# C20 — line-protocol driver `ptrmgr`

Predicts, from the model of the pointer manager's bookkeeping (`Pointer/Model.lean`), every line
that the scenario `c20_ptrmgr` prints when it drives a real manager through the public API. The
scenario is built against the pointer-based manager *and* against the index-based one; both
streams must equal this one.

State: the manager model `PMgr` plus what the scenario's handles add to it — the variable of
every live handle and the set of variables whose (single) node is in the unique table. For ZBDD
managers the nodes are those of the tautology chain (`PMgr.chain`, maintained by the
`pre_reorder` / `post_reorder` notifications) plus the chains that an addition of variables left
behind as garbage.

`order` is `gc` followed by `oxidd_reorder::set_var_order`: the target position of every level
comes from `Reorder.sortOrder` (model of `sort_order`); if the levels are already in place nothing
else happens (no `reorder` call, counters unchanged), otherwise `Manager::reorder` is entered,
the levels are exchanged by `LevelView::swap` following the second step of
`set_var_order_common`, and `reorder` is left. (With non-empty levels the Rust code reaches the
same final `VarLevelMap` by a different sequence of swaps; the map after the call is determined
by the target permutation alone.)

Line formats: see `/verif/harness/src/bin/c20_ptrmgr.rs`.
-/
namespace OxiddModel.Pointer.Driver

open OxiddModel OxiddModel.VarNames OxiddModel.VarNames.VarNameMap OxiddModel.Pointer

structure St where
  kind : Option String
  g : PMgr
  /-- variable of each handle ever created (`none`: dropped) -/
  handles : List (Option Nat)
  /-- variables whose node is in the unique table (live or garbage) -/
  tableVars : List Nat
  /-- ZBDD: nodes of former tautology chains not yet collected -/
  zgarbage : Nat
  deriving Inhabited

def St.init : St := ⟨none, PMgr.init, [], [], 0⟩

def bad (s : St) : St × String := (s, "bad-op")

def isZbdd (s : St) : Bool := s.kind == some "zbdd"

def numTerminals (kind : String) : Nat :=
  if kind = "bcdd" then 1 else if kind = "tdd" then 3 else 2

def showAddRes : AddRes → String
  | .ok s e => s!"{s}..{e}"
  | .dup n pv s e => s!"DUP {showName n} {pv} {s}..{e}"

def showSetRes : SetRes → String
  | .ok => "ok"
  | .dup n pv s e => s!"DUP {showName n} {pv} {s}..{e}"
  | .panic => "PANIC"

def joinC (l : List Nat) : String := if l.isEmpty then "." else ",".intercalate (l.map toString)

def live (s : St) : List Nat := s.handles.filterMap id

/-- what an addition of `added` variables does to a ZBDD manager's garbage: the old chain
(`oldLevels` nodes) is released by `pre_reorder_mut`; `post_reorder_mut` finds it again only if no
level was added -/
def afterAdd (s : St) (oldLevels : Nat) (g : PMgr) : St :=
  if isZbdd s && g.tables > oldLevels then { s with g := g, zgarbage := s.zgarbage + oldLevels }
  else { s with g := g }

/-- `Manager::gc` as the scenario sees it -/
def doGc (s : St) : St :=
  let (g, _) := s.g.gc
  let lv := live s
  { s with g := g, tableVars := s.tableVars.filter (lv.contains ·), zgarbage := 0 }

/-- second step of `set_var_order_common`: `while let Some(&j) = target_order.get(i) { … }` -/
def cycleSwaps : Nat → Nat → List Nat → PMgr → PMgr
  | 0, _, _, g => g
  | fuel + 1, i, target, g =>
    match target[i]? with
    | none => g
    | some j =>
      if j = i then cycleSwaps fuel (i + 1) target g
      else
        let ti := target.getD i 0
        let tj := target.getD j 0
        cycleSwaps fuel i ((target.set i tj).set j ti) (g.swap i j)

/-- `oxidd_reorder::set_var_order(manager, order)` -/
def setVarOrder (g : PMgr) (order : List Nat) : PMgr :=
  if order.length ≤ 1 then g
  else
    let n := g.tables
    let target := Reorder.sortOrder n (order.map g.vlm.varToLevel)
    if target == List.range n then g
    else
      let g := g.reorderBegin
      let g := cycleSwaps (n * n + n + 1) 0 target g
      (g.reorderEnd).getD g

def parseOrder (n : Nat) : List String → List Nat → Option (List Nat)
  | [], acc => some acc.reverse
  | t :: ts, acc =>
    match parseNum t with
    | some v => if v < n && !acc.contains v then parseOrder n ts (v :: acc) else none
    | none => none

def showIter (tables : Nat) (pat : String) : String :=
  let it := LevelIter.levels tables
  let rec go (it : LevelIter) : List Char → List String
    | [] => []
    | c :: cs =>
      let (it', v) := if c = 'f' then it.next else it.nextBack
      let item := match v with
        | some w => toString w.level
        | none => "-"
      s!"{item}/{it'.len}" :: go it' cs
  joinSp (toString it.len :: go it pat.toList)

/-- an arbitrary address with the alignment of `StaticTerminalManager` -/
def tmBase : Nat := TM_ALIGN * 1234567

def showTerms (kind : String) : String :=
  let n := numTerminals kind
  joinSp (toString n :: ((termIter TAG_BITS tmBase n).map fun a => toString (termDecode TAG_BITS (n - 1) a)))

/-- the constants `f`, `t` (TDD: `f`, `u`, `t`; ZBDD: `f`) as (terminal value, edge tag) -/
def constEdges (kind : String) : List (Nat × Nat) :=
  if kind = "bdd" then [(0, 0), (1, 0)]
  else if kind = "bcdd" then [(0, 1), (0, 0)]
  else if kind = "zbdd" then [(0, 0)]
  else [(0, 0), (1, 0), (2, 0)]

def showConsts (kind : String) : String :=
  let n := numTerminals kind
  joinSp ((constEdges kind).map fun (v, tag) =>
    toString (termDecode TAG_BITS (n - 1) (retag 1 (termEncode TAG_BITS tmBase v) tag)))

def showNamesLine (g : PMgr) : String :=
  s!"{g.numLevels} {g.numLevels} {g.numNamedVars} {showNames g.map.names} {showIndex g.map.index}"

def step (s : St) (line : String) : St × String :=
  match s.kind, words line with
  | none, ["kind", k] =>
    if k = "bdd" || k = "bcdd" || k = "zbdd" || k = "tdd" then ({ s with kind := some k }, "ok")
    else bad s
  | none, _ => bad s
  | some _, "kind" :: _ => bad s
  | some kind, ws =>
    let n := s.g.numLevels
    match ws with
    | ["addvars", k] =>
      match parseCount k with
      | some k => let (g, r) := s.g.addVars k; (afterAdd s n g, showAddRes r)
      | none => bad s
    | ["addnamed", b] =>
      match parseBatch b with
      | some l => let (g, r) := s.g.addNamedVars l; (afterAdd s n g, showAddRes r)
      | none => bad s
    | ["frommap", b] =>
      match parseBatch b with
      | some l =>
        let (g, r) := s.g.addNamedVarsFromMap (VarNameMap.new.addNamed l).1
        (afterAdd s n g, showAddRes r)
      | none => bad s
    | ["setname", v, t] =>
      match parseNum v, parseName t with
      | some v, some nm =>
        if v < n then let (g, r) := s.g.setVarName v nm; ({ s with g := g }, showSetRes r) else bad s
      | _, _ => bad s
    | ["names"] => (s, showNamesLine s.g)
    | ["lookup", t] =>
      match parseName t with
      | some nm => (s, showOpt (s.g.map.nameToVar nm))
      | none => bad s
    | "order" :: rest =>
      match parseOrder n rest [] with
      | some order =>
        let s := doGc s
        ({ s with g := setVarOrder s.g order }, "ok")
      | none => bad s
    | ["maps"] => (s, s!"l2v {joinC s.g.vlm.toVar} v2l {joinC s.g.vlm.toLevel}")
    | ["iter", pat] =>
      if pat.all (fun c => c = 'f' || c = 'b') then (s, showIter s.g.tables pat) else bad s
    | ["counters"] => (s, s!"gc {s.g.gcCount} reorder {s.g.reorderCount}")
    | ["gc"] => (doGc s, "ok")
    | ["mkvar", v] =>
      match parseNum v with
      | some v =>
        if v < n && kind ≠ "zbdd" then
          ({ s with handles := s.handles ++ [some v],
                    tableVars := if s.tableVars.contains v then s.tableVars else v :: s.tableVars }, "ok")
        else bad s
      | none => bad s
    | ["drop", i] =>
      match parseNum i with
      | some i =>
        match s.handles[i]? with
        | some (some _) => ({ s with handles := s.handles.set i none }, "ok")
        | _ => bad s
      | none => bad s
    | ["levelgc", l] =>
      match parseNum l with
      | some l =>
        if l < n then
          let (g, collected) := s.g.levelGc l
          let lv := live s
          let tv := if collected then
              s.tableVars.filter fun v => lv.contains v || g.vlm.varToLevel v ≠ l
            else s.tableVars
          ({ s with g := g, tableVars := tv }, "ok")
        else bad s
      | none => bad s
    | ["nodes"] =>
      if kind = "zbdd" then
        match s.g.chain with
        | some c => (s, toString (c + s.zgarbage))
        | none => (s, "PANIC")
      else (s, toString s.tableVars.length)
    | ["taut"] =>
      if kind = "zbdd" then
        match s.g.chain with
        | some c => (s, toString (c + 1))
        | none => (s, "PANIC")
      else bad s
    | ["terms"] => (s, showTerms kind)
    | ["consts"] => (s, showConsts kind)
    | ["bigcount", k] =>
      match parseNum k with
      | some k =>
        if 1 ≤ k && k ≤ 18 then
          if kind = "bdd" then (s, s!"count {2 ^ (k + 1)}")
          else if kind = "bcdd" then (s, s!"count {2 ^ (k + 1) - 1}")
          else if kind = "tdd" then (if k ≤ 12 then (s, "ok") else bad s)
          else bad s
        else bad s
      | none => bad s
    | _ => bad s

def proto : OxiddModel.Proto := { σ := St, init := St.init, step := step }

end OxiddModel.Pointer.Driver

namespace OxiddModel.Pointer
def proto : OxiddModel.Proto := Driver.proto
end OxiddModel.Pointer
