import OxiddModel.Pointer.Model

/-!
# C20 / pointer manager — lemmas about `LevelIter`

Invariant: the two level counters agree with the two ends of the slice iterator
(`level_front = lo`, `level_back = hi`). Under it every yielded view carries the number of the
table it locked, and the views yielded by any mix of `next` / `next_back` calls are exactly the
levels that left the window `lo..hi`, each once.
-/
namespace OxiddModel.Pointer

namespace LevelIter

structure IInv (it : LevelIter) : Prop where
  front : it.levelFront = it.lo
  back : it.levelBack = it.hi
  le : it.lo ≤ it.hi

theorem levels_inv (n : Nat) : IInv (levels n) := ⟨rfl, rfl, Nat.zero_le n⟩

/-- the level numbers reported by the yielded views -/
def yielded (vs : List (Option View)) : List Nat := (vs.filterMap id).map View.level

theorem yielded_cons_some (v : View) (vs : List (Option View)) :
    yielded (some v :: vs) = v.level :: yielded vs := by simp [yielded]

theorem yielded_cons_none (vs : List (Option View)) : yielded (none :: vs) = yielded vs := by
  simp [yielded]

/-- one call (front or back) -/
def call (it : LevelIter) (b : Bool) : LevelIter × Option View := if b then it.next else it.nextBack

theorem call_some {it : LevelIter} (h : IInv it) (b : Bool) (hlt : it.lo < it.hi) :
    ∃ v, (it.call b).2 = some v ∧ v.level = v.table ∧ IInv (it.call b).1 ∧
      (it.call b).1.len + 1 = it.len ∧
      ((b = true ∧ v.level = it.lo ∧ (it.call b).1.lo = it.lo + 1 ∧ (it.call b).1.hi = it.hi) ∨
       (b = false ∧ v.level = it.hi - 1 ∧ (it.call b).1.lo = it.lo ∧ (it.call b).1.hi = it.hi - 1)) := by
  cases b with
  | true =>
    refine ⟨⟨it.levelFront, it.lo⟩, ?_, ?_, ?_, ?_, ?_⟩
    · simp [call, next, hlt]
    · exact h.front
    · simp only [call, next, hlt, if_true]
      exact ⟨by simp [h.front], h.back, by show it.lo + 1 ≤ it.hi; omega⟩
    · simp only [call, next, hlt, if_true, len]; omega
    · left; simp [call, next, hlt, h.front]
  | false =>
    refine ⟨⟨it.levelBack - 1, it.hi - 1⟩, ?_, ?_, ?_, ?_, ?_⟩
    · simp [call, nextBack, hlt]
    · show it.levelBack - 1 = it.hi - 1; rw [h.back]
    · simp only [call, nextBack, hlt]
      exact ⟨h.front, by show it.levelBack - 1 = it.hi - 1; rw [h.back],
        by show it.lo ≤ it.hi - 1; omega⟩
    · simp only [call, nextBack, hlt, len]; simp only [Bool.false_eq_true, if_false, if_true]; omega
    · right; simp [call, nextBack, hlt, h.back]

theorem call_none {it : LevelIter} (b : Bool) (hge : ¬ it.lo < it.hi) :
    it.call b = (it, none) := by
  cases b <;> simp [call, next, nextBack, hge]

theorem run_cons (it : LevelIter) (b : Bool) (bs : List Bool) :
    it.run (b :: bs) = (((it.call b).1.run bs).1, (it.call b).2 :: ((it.call b).1.run bs).2) := by
  simp only [run, call]

/-- the main invariant of a whole call sequence -/
theorem run_spec (bs : List Bool) : ∀ {it : LevelIter}, IInv it →
    let r := it.run bs
    IInv r.1 ∧ it.lo ≤ r.1.lo ∧ r.1.hi ≤ it.hi ∧
    (∀ v, some v ∈ r.2 → v.level = v.table) ∧
    (∀ l, l ∈ yielded r.2 ↔ (it.lo ≤ l ∧ l < it.hi ∧ ¬ (r.1.lo ≤ l ∧ l < r.1.hi))) ∧
    (yielded r.2).Nodup ∧
    r.1.len + (yielded r.2).length = it.len ∧
    r.2.length = bs.length := by
  induction bs with
  | nil =>
    intro it h
    refine ⟨h, Nat.le_refl _, Nat.le_refl _, ?_, ?_, ?_, ?_, rfl⟩
    · intro v hv; simp [run] at hv
    · intro l; simp only [run, yielded, List.filterMap_nil, List.map_nil, List.not_mem_nil, false_iff]
      omega
    · simp [run, yielded]
    · simp [run, yielded]
  | cons b bs ih =>
    intro it h
    rw [run_cons]
    by_cases hlt : it.lo < it.hi
    · obtain ⟨v, hv, hvt, hi', hlen, hcase⟩ := call_some h b hlt
      have := ih hi'
      obtain ⟨i1, i2, i3, i4, i5, i6, i7, i8⟩ := this
      have hle' := i1.le
      rw [hv]
      dsimp only
      rw [yielded_cons_some]
      refine ⟨i1, ?_, ?_, ?_, ?_, ?_, ?_, ?_⟩
      · rcases hcase with ⟨_, _, a, _⟩ | ⟨_, _, a, _⟩ <;> omega
      · rcases hcase with ⟨_, _, _, a⟩ | ⟨_, _, _, a⟩ <;> omega
      · intro w hw
        rcases List.mem_cons.mp hw with e | e
        · cases e; exact hvt
        · exact i4 w e
      · intro l
        rw [List.mem_cons, i5 l]
        rcases hcase with ⟨_, a, b', c⟩ | ⟨_, a, b', c⟩
        · rw [a, b', c]; constructor
          · rintro (e | e) <;> omega
          · intro e
            by_cases e' : l = it.lo
            · left; exact e'
            · right; omega
        · rw [a, b', c]; constructor
          · rintro (e | e) <;> omega
          · intro e
            by_cases e' : l = it.hi - 1
            · left; exact e'
            · right; omega
      · rw [List.nodup_cons]
        refine ⟨?_, i6⟩
        intro hm
        have := (i5 _).mp hm
        rcases hcase with ⟨_, a, b', c⟩ | ⟨_, a, b', c⟩ <;> omega
      · simp only [List.length_cons]; omega
      · simp [i8]
    · rw [call_none b hlt]
      have := ih h
      obtain ⟨i1, i2, i3, i4, i5, i6, i7, i8⟩ := this
      dsimp only
      rw [yielded_cons_none]
      refine ⟨i1, i2, i3, ?_, i5, i6, i7, by simp [i8]⟩
      intro w hw
      rcases List.mem_cons.mp hw with e | e
      · cases e
      · exact i4 w e

/-- once the window is empty, every further call returns `None` -/
theorem run_exhausted (bs : List Bool) {it : LevelIter} (h : ¬ it.lo < it.hi) :
    it.run bs = (it, bs.map fun _ => none) := by
  induction bs with
  | nil => rfl
  | cons b bs ih => rw [run_cons, call_none b h]; simp [ih]

/-- a call on a non-empty window returns `Some` -/
theorem call_isSome {it : LevelIter} (h : IInv it) (b : Bool) :
    (it.call b).2.isSome = decide (0 < it.len) := by
  by_cases hlt : it.lo < it.hi
  · obtain ⟨v, hv, _⟩ := call_some h b hlt
    rw [hv]
    have : 0 < it.len := by simp only [len]; omega
    simp [this]
  · rw [call_none b hlt]
    have : ¬ 0 < it.len := by simp only [len]; omega
    simp [this]

end LevelIter

end OxiddModel.Pointer
