import OxiddModel.Pointer.LemmasVlm
import OxiddModel.VarNames.LemmasMgr

/-!
# C20 / pointer manager — lemmas about the manager model `PMgr`

* simulation: forgetting the permutation, the hooks, the flags and the counters (`PMgr.toMgr`)
  turns every step of the pointer manager's model into the step of the index manager's model
  `VarNames.Mgr` (unconditionally);
* the invariant `PInv` (sizes agree, the var/level map is a pair of inverse permutations, the
  `reorder` stack and the flag agree, the log scans) is preserved by every call.
-/
namespace OxiddModel.Pointer

open OxiddModel.VarNames OxiddModel.VarNames.VarNameMap

/-! ## scanning composes -/

theorem scanGc_append (a b : List Ev) : ∀ o, scanGc (a ++ b) o = (scanGc a o).bind (scanGc b) := by
  induction a with
  | nil => intro o; rfl
  | cons e a ih =>
    intro o
    cases e <;> simp only [List.cons_append, scanGc] <;> (try exact ih _) <;>
      (split <;> first | rfl | exact ih _)

theorem scanRe_append (a b : List Ev) : ∀ d, scanRe (a ++ b) d = (scanRe a d).bind (scanRe b) := by
  induction a with
  | nil => intro d; rfl
  | cons e a ih =>
    intro d
    cases e <;> simp only [List.cons_append, scanRe] <;> (try exact ih _)
    · split
      · rfl
      · split
        · exact ih _
        · rfl
    · split
      · rfl
      · exact ih _

theorem scanGc_after {log : List Ev} {o : Bool} (h : scanGc log false = some o) (suf : List Ev) :
    scanGc (log ++ suf) false = scanGc suf o := by
  rw [scanGc_append, h]; rfl

theorem scanRe_after {log : List Ev} {d : Nat} (h : scanRe log 0 = some d) (suf : List Ev) :
    scanRe (log ++ suf) 0 = scanRe suf d := by
  rw [scanRe_append, h]; rfl

/-! ## simulation of `VarNames.Mgr` -/

theorem toMgr_addVars (g : PMgr) (k : Nat) :
    (g.addVars k).1.toMgr = (g.toMgr.addVars k).1 ∧ (g.addVars k).2 = (g.toMgr.addVars k).2 := by
  refine ⟨?_, rfl⟩
  simp only [PMgr.addVars, PMgr.toMgr, Mgr.addVars, PMgr.preReorder, PMgr.resize, PMgr.postReorder,
    extend_len]

theorem toMgr_addNamedVars (g : PMgr) (l : List String) :
    (g.addNamedVars l).1.toMgr = (g.toMgr.addNamedVars l).1 ∧
    (g.addNamedVars l).2 = (g.toMgr.addNamedVars l).2 := by
  refine ⟨?_, rfl⟩
  simp only [PMgr.addNamedVars, PMgr.toMgr, Mgr.addNamedVars, PMgr.preReorder, PMgr.resize,
    PMgr.postReorder, extend_len]

theorem toMgr_addNamedVarsFromMap (g : PMgr) (map : VarNameMap) :
    (g.addNamedVarsFromMap map).1.toMgr = (g.toMgr.addNamedVarsFromMap map).1 ∧
    (g.addNamedVarsFromMap map).2 = (g.toMgr.addNamedVarsFromMap map).2 := by
  unfold PMgr.addNamedVarsFromMap Mgr.addNamedVarsFromMap
  have e : g.toMgr.map = g.map := rfl
  rw [e]
  split
  · exact toMgr_addNamedVars g _
  · refine ⟨?_, rfl⟩
    simp only [PMgr.toMgr, PMgr.preReorder, PMgr.resize, PMgr.postReorder, extend_len]

theorem toMgr_setVarName (g : PMgr) (v : Nat) (n : String) :
    (g.setVarName v n).1.toMgr = (g.toMgr.setVarName v n).1 ∧
    (g.setVarName v n).2 = (g.toMgr.setVarName v n).2 := ⟨rfl, rfl⟩

theorem toMgr_gc (g : PMgr) : (g.gc).1.toMgr = g.toMgr := by
  cases hp : g.prepared <;> cases hf : g.gcOngoing <;>
    simp [PMgr.gc, hp, hf, PMgr.toMgr, PMgr.preGc, PMgr.postGc]

/-- what `gc` does when the try-lock is free -/
theorem gc_fields {g : PMgr} (hf : g.gcOngoing = false) :
    g.gc.1.log = g.log ++ (if g.prepared then [Ev.remove] else [Ev.preGc, Ev.remove, Ev.postGc]) ∧
    g.gc.1.stack = g.stack ∧ g.gc.1.prepared = g.prepared ∧ g.gc.1.gcOngoing = false ∧
    g.gc.1.chain = g.chain ∧ g.gc.1.vlm = g.vlm ∧ g.gc.1.tables = g.tables ∧
    g.gc.1.gcCount = g.gcCount + 1 ∧ g.gc.1.reorderCount = g.reorderCount ∧ g.gc.2 = true := by
  cases hp : g.prepared <;> simp [PMgr.gc, hf, hp, PMgr.preGc, PMgr.postGc]

theorem toMgr_reorderBegin (g : PMgr) : g.reorderBegin.toMgr = g.toMgr := by
  unfold PMgr.reorderBegin
  split <;> rfl

theorem toMgr_reorderEnd {g g' : PMgr} (h : g.reorderEnd = some g') : g'.toMgr = g.toMgr := by
  unfold PMgr.reorderEnd at h
  split at h
  · cases h
  · cases h; rfl
  · cases h; rfl

theorem toMgr_swap (g : PMgr) (l1 l2 : Nat) : (g.swap l1 l2).toMgr = g.toMgr := by
  simp only [PMgr.swap, PMgr.toMgr, swapLevels_len]

theorem toMgr_levelGc (g : PMgr) (l : Nat) : (g.levelGc l).1.toMgr = g.toMgr := by
  unfold PMgr.levelGc; split <;> rfl

theorem toMgr_tryRemoveNode (g : PMgr) (i : Bool) (o : Nat) (lo : Bool) (r : Nat) (f : Bool) :
    (g.tryRemoveNode i o lo r f).1.toMgr = g.toMgr := by
  unfold PMgr.tryRemoveNode
  split; · rfl
  split; · rfl
  split; · rfl
  split; · rfl
  split <;> rfl

/-- one step of the pointer manager is, after forgetting, one step of `VarNames.Mgr` (variable
API) or no step at all (everything else) -/
theorem toMgr_step (g : PMgr) (c : PCall) :
    match c.toMCall with
    | some mc => (g.step c).1.toMgr = (g.toMgr.step mc).1 ∧ (g.step c).2.toRes = (g.toMgr.step mc).2
    | none => (g.step c).1.toMgr = g.toMgr := by
  cases c with
  | addVars k =>
    show _ ∧ _
    have := toMgr_addVars g k
    exact ⟨this.1, congrArg Res.add this.2⟩
  | addNamedVars l =>
    show _ ∧ _
    have := toMgr_addNamedVars g l
    exact ⟨this.1, congrArg Res.add this.2⟩
  | addNamedVarsFromMap b =>
    show _ ∧ _
    have := toMgr_addNamedVarsFromMap g (VarNameMap.new.run b).1
    exact ⟨this.1, congrArg Res.add this.2⟩
  | setVarName v n => exact ⟨rfl, rfl⟩
  | gc => exact toMgr_gc g
  | reorderBegin => exact toMgr_reorderBegin g
  | reorderEnd =>
    show (PMgr.step g .reorderEnd).1.toMgr = g.toMgr
    simp only [PMgr.step]
    cases h : g.reorderEnd with
    | none => rfl
    | some g' => exact toMgr_reorderEnd h
  | swap l1 l2 => exact toMgr_swap g l1 l2
  | levelGc l => exact toMgr_levelGc g l
  | tryRemoveNode i o lo r f => exact toMgr_tryRemoveNode g i o lo r f

/-! ## the invariant -/

/-- what a caller must guarantee: `LevelView::swap` is called on the views of two existing levels
(`Manager::level(no)` panics for `no ≥ num_levels`) -/
def PCall.okAt (g : PMgr) : PCall → Prop
  | .swap l1 l2 => l1 < g.tables ∧ l2 < g.tables
  | _ => True

instance (g : PMgr) (c : PCall) : Decidable (c.okAt g) := by
  cases c <;> simp only [PCall.okAt] <;> infer_instance

def okCalls : PMgr → List PCall → Prop
  | _, [] => True
  | g, c :: cs => c.okAt g ∧ okCalls (g.step c).1 cs

instance okCallsDec : (g : PMgr) → (cs : List PCall) → Decidable (okCalls g cs)
  | _, [] => isTrue trivial
  | g, c :: cs =>
    have : Decidable (okCalls (g.step c).1 cs) := okCallsDec _ cs
    inferInstanceAs (Decidable (c.okAt g ∧ okCalls (g.step c).1 cs))

structure PInv (g : PMgr) : Prop where
  /-- `num_levels = |var_level_map| = |var_name_map|`, name map consistent (C16's invariant) -/
  minv : MInv g.toMgr
  /-- the var/level map is a pair of mutually inverse permutations -/
  vinv : VInv g.vlm
  /-- `reorder_gc_prepared` is set exactly while an invocation of `reorder` is active, and the
  outermost invocation is the one that prepared it -/
  stack : (g.stack = [] ∧ g.prepared = false) ∨
    (∃ k, g.stack = List.replicate k false ++ [true] ∧ g.prepared = true)
  gcFree : g.gcOngoing = false
  /-- the log scans, and a `pre_gc` is open exactly while the flag is set -/
  sgc : scanGc g.log false = some g.prepared
  sre : scanRe g.log 0 = some (if g.prepared then 1 else 0)
  /-- outside a reordering the manager data has seen the current number of levels -/
  chain : g.prepared = false → g.chain = some g.tables

theorem pinv_init : PInv PMgr.init :=
  ⟨⟨rfl, rfl, inv_new⟩, vinv_new, Or.inl ⟨rfl, rfl⟩, rfl, rfl, rfl, fun _ => rfl⟩

theorem PInv.tables_eq {g : PMgr} (h : PInv g) : g.tables = g.map.len := h.minv.levels
theorem PInv.vlm_eq {g : PMgr} (h : PInv g) : g.vlm.len = g.map.len := h.minv.vlm

/-- `MInv` of the projection after any step, from the simulation and C16's step lemma -/
theorem minv_step {g : PMgr} (h : PInv g) (c : PCall) : MInv (g.step c).1.toMgr := by
  have := toMgr_step g c
  cases hc : c.toMCall with
  | none => rw [hc] at this; rw [this]; exact h.minv
  | some mc => rw [hc] at this; rw [this.1]; exact Mgr.step_inv h.minv mc

/-! ### level-changing calls -/

theorem addVars_log (g : PMgr) (k : Nat) :
    (g.addVars k).1.log = g.log ++ [.preReorder, .resize (g.tables + k),
      .postReorder (g.tables + k) (g.vlm.len + k) (g.map.len + k)] := by
  simp [PMgr.addVars, PMgr.preReorder, PMgr.resize, PMgr.postReorder, extend_len,
    VarNameMap.addUnnamed, VarNameMap.len]

theorem addNamedVars_log (g : PMgr) (l : List String) :
    (g.addNamedVars l).1.log = g.log ++ [.preReorder, .resize (g.map.addNamed l).1.len,
      .postReorder (g.map.addNamed l).1.len
        (g.vlm.len + ((g.map.addNamed l).1.len - g.map.len)) (g.map.addNamed l).1.len] := by
  simp [PMgr.addNamedVars, PMgr.preReorder, PMgr.resize, PMgr.postReorder, extend_len]

theorem fromMap_fast_log (g : PMgr) (map : VarNameMap) (he : g.map.isEmpty = true) :
    (g.addNamedVarsFromMap map).1.log = g.log ++ [.preReorder, .resize map.len,
      .postReorder map.len (g.vlm.len + map.len) map.len] := by
  simp [PMgr.addNamedVarsFromMap, he, PMgr.preReorder, PMgr.resize, PMgr.postReorder, extend_len]

/-- a balanced `pre_reorder … resize … post_reorder` stretch with agreeing sizes scans -/
theorem scanRe_bracket (d n : Nat) :
    scanRe [.preReorder, .resize n, .postReorder n n n] d = some d := by
  simp [scanRe]

theorem scanGc_bracket (o : Bool) (a b c d : Nat) :
    scanGc [.preReorder, .resize a, .postReorder b c d] o = some o := by
  simp [scanGc]

theorem isEmpty_len {m : VarNameMap} (h : m.isEmpty = true) : m.len = 0 := by
  simpa [VarNameMap.isEmpty, VarNameMap.len, List.isEmpty_iff] using h

/-- everything of a level-changing call except the log -/
structure SameCtl (g g' : PMgr) : Prop where
  stack : g'.stack = g.stack
  prepared : g'.prepared = g.prepared
  gcOngoing : g'.gcOngoing = g.gcOngoing
  gcCount : g'.gcCount = g.gcCount
  reorderCount : g'.reorderCount = g.reorderCount

theorem addVars_ctl (g : PMgr) (k : Nat) : SameCtl g (g.addVars k).1 := ⟨rfl, rfl, rfl, rfl, rfl⟩
theorem addNamedVars_ctl (g : PMgr) (l : List String) : SameCtl g (g.addNamedVars l).1 :=
  ⟨rfl, rfl, rfl, rfl, rfl⟩
theorem fromMap_ctl (g : PMgr) (m : VarNameMap) : SameCtl g (g.addNamedVarsFromMap m).1 := by
  unfold PMgr.addNamedVarsFromMap
  split
  · exact addNamedVars_ctl g _
  · exact ⟨rfl, rfl, rfl, rfl, rfl⟩

theorem addVars_chain (g : PMgr) (k : Nat) : (g.addVars k).1.chain = some (g.addVars k).1.tables := rfl
theorem addNamedVars_chain (g : PMgr) (l : List String) :
    (g.addNamedVars l).1.chain = some (g.addNamedVars l).1.tables := rfl
theorem fromMap_chain (g : PMgr) (m : VarNameMap) :
    (g.addNamedVarsFromMap m).1.chain = some (g.addNamedVarsFromMap m).1.tables := by
  unfold PMgr.addNamedVarsFromMap
  split
  · exact addNamedVars_chain g _
  · rfl

theorem addVars_vinv {g : PMgr} (h : VInv g.vlm) (k : Nat) : VInv (g.addVars k).1.vlm :=
  extend_inv h k
theorem addNamedVars_vinv {g : PMgr} (h : VInv g.vlm) (l : List String) :
    VInv (g.addNamedVars l).1.vlm := extend_inv h _
theorem fromMap_vinv {g : PMgr} (h : VInv g.vlm) (m : VarNameMap) :
    VInv (g.addNamedVarsFromMap m).1.vlm := by
  unfold PMgr.addNamedVarsFromMap
  split
  · exact addNamedVars_vinv h _
  · exact extend_inv h _

/-- the log stretch of every level-changing call is a bracket whose `post_reorder` sees the
three sizes agree (the final ones) -/
theorem levelChange_log {g : PMgr} (h : PInv g) (c : PCall)
    (hc : (∃ k, c = .addVars k) ∨ (∃ l, c = .addNamedVars l) ∨ (∃ b, c = .addNamedVarsFromMap b)) :
    ∃ n, (g.step c).1.log = g.log ++ [.preReorder, .resize n, .postReorder n n n] ∧
      (g.step c).1.tables = n ∧ (g.step c).1.vlm.len = n ∧ (g.step c).1.map.len = n := by
  have ht := h.tables_eq
  have hv := h.vlm_eq
  have key : ∀ l : List String, ∃ n, (g.addNamedVars l).1.log =
      g.log ++ [.preReorder, .resize n, .postReorder n n n] ∧
      (g.addNamedVars l).1.tables = n ∧ (g.addNamedVars l).1.vlm.len = n ∧
      (g.addNamedVars l).1.map.len = n := by
    intro l
    have hge : g.map.len ≤ (g.map.addNamed l).1.len := addNamed_len_ge h.minv.map l
    refine ⟨(g.map.addNamed l).1.len, ?_, rfl, ?_, rfl⟩
    · rw [addNamedVars_log, hv]
      have : g.map.len + ((g.map.addNamed l).1.len - g.map.len) = (g.map.addNamed l).1.len := by
        omega
      rw [this]
    · show (g.vlm.extend _).len = _
      rw [extend_len, hv]
      show g.map.len + ((g.map.addNamed l).1.len - g.map.len) = _
      omega
  rcases hc with ⟨k, rfl⟩ | ⟨l, rfl⟩ | ⟨b, rfl⟩
  · refine ⟨g.tables + k, ?_, rfl, ?_, ?_⟩
    · show (g.addVars k).1.log = _
      rw [addVars_log, hv, ← ht]
    · show (g.vlm.extend k).len = _
      rw [extend_len, hv, ht]
    · show (g.map.addUnnamed k).len = _
      simp [VarNameMap.addUnnamed, VarNameMap.len, ht]
  · exact key l
  · show ∃ n, (g.addNamedVarsFromMap (VarNameMap.new.run b).1).1.log =
        g.log ++ [.preReorder, .resize n, .postReorder n n n] ∧
      (g.addNamedVarsFromMap (VarNameMap.new.run b).1).1.tables = n ∧
      (g.addNamedVarsFromMap (VarNameMap.new.run b).1).1.vlm.len = n ∧
      (g.addNamedVarsFromMap (VarNameMap.new.run b).1).1.map.len = n
    generalize (VarNameMap.new.run b).1 = map
    by_cases he : g.map.isEmpty = true
    · have h0 := isEmpty_len he
      refine ⟨map.len, ?_, ?_, ?_, ?_⟩
      · rw [fromMap_fast_log g map he, hv, h0, Nat.zero_add]
      · simp [PMgr.addNamedVarsFromMap, he, PMgr.preReorder, PMgr.resize, PMgr.postReorder]
      · simp [PMgr.addNamedVarsFromMap, he, PMgr.preReorder, PMgr.resize, PMgr.postReorder,
          extend_len, hv, h0]
      · simp [PMgr.addNamedVarsFromMap, he, PMgr.preReorder, PMgr.resize, PMgr.postReorder]
    · have e : (g.addNamedVarsFromMap map) = g.addNamedVars map.intoNames := by
        simp [PMgr.addNamedVarsFromMap, he]
      rw [e]
      exact key _

theorem levelChange_inv {g : PMgr} (h : PInv g) (c : PCall)
    (hc : (∃ k, c = .addVars k) ∨ (∃ l, c = .addNamedVars l) ∨ (∃ b, c = .addNamedVarsFromMap b)) :
    PInv (g.step c).1 := by
  obtain ⟨n, hlog, htab, _, _⟩ := levelChange_log h c hc
  have hm := minv_step h c
  have ctl : SameCtl g (g.step c).1 := by
    rcases hc with ⟨k, rfl⟩ | ⟨l, rfl⟩ | ⟨b, rfl⟩
    · exact addVars_ctl g k
    · exact addNamedVars_ctl g l
    · exact fromMap_ctl g _
  have hvi : VInv (g.step c).1.vlm := by
    rcases hc with ⟨k, rfl⟩ | ⟨l, rfl⟩ | ⟨b, rfl⟩
    · exact addVars_vinv h.vinv k
    · exact addNamedVars_vinv h.vinv l
    · exact fromMap_vinv h.vinv _
  have hch : (g.step c).1.chain = some (g.step c).1.tables := by
    rcases hc with ⟨k, rfl⟩ | ⟨l, rfl⟩ | ⟨b, rfl⟩
    · exact addVars_chain g k
    · exact addNamedVars_chain g l
    · exact fromMap_chain g _
  refine ⟨hm, hvi, ?_, ?_, ?_, ?_, fun _ => hch⟩
  · rw [ctl.stack, ctl.prepared]; exact h.stack
  · rw [ctl.gcOngoing]; exact h.gcFree
  · rw [hlog, scanGc_after h.sgc, ctl.prepared]; exact scanGc_bracket _ _ _ _ _
  · rw [hlog, scanRe_after h.sre, ctl.prepared]; exact scanRe_bracket _ _

/-! ### the other calls -/

/-- a call that leaves the control state alone and appends a stretch that scans -/
theorem pinv_transfer {g g' : PMgr} (h : PInv g) (hm : MInv g'.toMgr) (hv : VInv g'.vlm)
    (hs : g'.stack = g.stack) (hp : g'.prepared = g.prepared) (hg : g'.gcOngoing = false)
    (hc : g'.chain = g.chain) (ht : g'.tables = g.tables) (suf : List Ev)
    (hl : g'.log = g.log ++ suf) (h1 : scanGc suf g.prepared = some g.prepared)
    (h2 : ∀ d, scanRe suf d = some d) : PInv g' := by
  refine ⟨hm, hv, ?_, hg, ?_, ?_, ?_⟩
  · rw [hs, hp]; exact h.stack
  · rw [hl, scanGc_after h.sgc, hp]; exact h1
  · rw [hl, scanRe_after h.sre, hp]; exact h2 _
  · intro hh; rw [hc, ht]; exact h.chain (by rw [← hp]; exact hh)

theorem setVarName_inv' {g : PMgr} (h : PInv g) (v : Nat) (n : String) :
    PInv (g.step (.setVarName v n)).1 := by
  have hm := minv_step h (.setVarName v n)
  exact ⟨hm, h.vinv, h.stack, h.gcFree, h.sgc, h.sre, h.chain⟩

theorem gc_inv {g : PMgr} (h : PInv g) : PInv g.gc.1 := by
  have hm : MInv g.gc.1.toMgr := by rw [toMgr_gc]; exact h.minv
  obtain ⟨f1, f2, f3, f4, f5, f6, f7, _, _, _⟩ := gc_fields h.gcFree
  refine pinv_transfer h hm (by rw [f6]; exact h.vinv) f2 f3 f4 f5 f7 _ f1 ?_ ?_
  · cases g.prepared <;> rfl
  · intro d; cases g.prepared <;> rfl

theorem reorderBegin_fields (g : PMgr) :
    (g.prepared = true → g.reorderBegin.log = g.log ∧ g.reorderBegin.stack = false :: g.stack ∧
      g.reorderBegin.prepared = true ∧ g.reorderBegin.chain = g.chain) ∧
    (g.prepared = false → g.reorderBegin.log = g.log ++ [Ev.preGc, Ev.preReorder] ∧
      g.reorderBegin.stack = true :: g.stack ∧ g.reorderBegin.prepared = true ∧
      g.reorderBegin.chain = none) ∧
    g.reorderBegin.vlm = g.vlm ∧ g.reorderBegin.gcOngoing = g.gcOngoing ∧
    g.reorderBegin.tables = g.tables ∧ g.reorderBegin.gcCount = g.gcCount ∧
    g.reorderBegin.reorderCount = g.reorderCount := by
  cases hp : g.prepared <;> simp [PMgr.reorderBegin, hp, PMgr.preGc, PMgr.preReorder]

theorem reorderBegin_inv {g : PMgr} (h : PInv g) : PInv g.reorderBegin := by
  have hm : MInv g.reorderBegin.toMgr := by rw [toMgr_reorderBegin]; exact h.minv
  obtain ⟨ft, ff, fv, fg, ftab, _, _⟩ := reorderBegin_fields g
  cases hp : g.prepared with
  | true =>
    obtain ⟨e1, e2, e3, e4⟩ := ft hp
    refine ⟨hm, by rw [fv]; exact h.vinv, ?_, by rw [fg]; exact h.gcFree, ?_, ?_, ?_⟩
    · right
      rcases h.stack with ⟨_, hf⟩ | ⟨k, hs, _⟩
      · rw [hp] at hf; cases hf
      · exact ⟨k + 1, by rw [e2, hs]; rfl, e3⟩
    · rw [e1, e3, ← hp]; exact h.sgc
    · rw [e1, e3]; have := h.sre; rw [hp] at this; exact this
    · intro hh; rw [e3] at hh; cases hh
  | false =>
    obtain ⟨e1, e2, e3, e4⟩ := ff hp
    refine ⟨hm, by rw [fv]; exact h.vinv, ?_, by rw [fg]; exact h.gcFree, ?_, ?_, ?_⟩
    · right
      rcases h.stack with ⟨hs, _⟩ | ⟨k, _, hf⟩
      · exact ⟨0, by rw [e2, hs]; rfl, e3⟩
      · rw [hp] at hf; cases hf
    · rw [e1, e3, scanGc_after h.sgc, hp]; rfl
    · rw [e1, e3, scanRe_after h.sre, hp]; rfl
    · intro hh; rw [e3] at hh; cases hh

theorem reorderEnd_inv {g g' : PMgr} (h : PInv g) (he : g.reorderEnd = some g') : PInv g' := by
  have hm : MInv g'.toMgr := by rw [toMgr_reorderEnd he]; exact h.minv
  unfold PMgr.reorderEnd at he
  split at he
  · cases he
  · next st hst =>
    cases he
    rcases h.stack with ⟨hs, _⟩ | ⟨k, hs, hp⟩
    · rw [hs] at hst; cases hst
    · refine ⟨hm, h.vinv, ?_, h.gcFree, h.sgc, h.sre, h.chain⟩
      right
      cases k with
      | zero => rw [hs] at hst; cases hst
      | succ k =>
        rw [hs] at hst
        simp only [List.replicate_succ, List.cons_append, List.cons.injEq, true_and] at hst
        exact ⟨k, hst.symm, hp⟩
  · next st hst =>
    cases he
    rcases h.stack with ⟨hs, _⟩ | ⟨k, hs, hp⟩
    · rw [hs] at hst; cases hst
    · have hk : st = [] := by
        cases k with
        | zero =>
          rw [hs] at hst
          simp only [List.replicate_zero, List.nil_append, List.cons.injEq, true_and] at hst
          exact hst.symm
        | succ k =>
          rw [hs] at hst
          simp [List.replicate_succ] at hst
      have ht := h.tables_eq
      have hv := h.vlm_eq
      refine ⟨hm, h.vinv, Or.inl ⟨hk, rfl⟩, h.gcFree, ?_, ?_, fun _ => rfl⟩
      · show scanGc (g.log ++ [Ev.postReorder g.tables g.vlm.len g.map.len] ++ [Ev.postGc]) false =
          some false
        rw [List.append_assoc, scanGc_after h.sgc, hp]; rfl
      · show scanRe (g.log ++ [Ev.postReorder g.tables g.vlm.len g.map.len] ++ [Ev.postGc]) 0 = some 0
        rw [List.append_assoc, scanRe_after h.sre, hp, hv, ht]
        simp [scanRe]

theorem swap_inv' {g : PMgr} (h : PInv g) {l1 l2 : Nat} (h1 : l1 < g.tables) (h2 : l2 < g.tables) :
    PInv (g.swap l1 l2) := by
  have hm : MInv (g.swap l1 l2).toMgr := by rw [toMgr_swap]; exact h.minv
  have hl : g.vlm.toLevel.length = g.tables := by
    have := h.vlm_eq; have := h.tables_eq
    show g.vlm.len = g.tables; omega
  exact pinv_transfer h hm (swap_inv h.vinv (by omega) (by omega)) rfl rfl h.gcFree rfl rfl
    [Ev.swap l1 l2] rfl rfl (fun _ => rfl)

theorem remove_inv {g : PMgr} (h : PInv g) (hp : g.prepared = true) :
    PInv { g with log := g.log ++ [Ev.remove] } :=
  pinv_transfer h h.minv h.vinv rfl rfl h.gcFree rfl rfl [Ev.remove] rfl (by rw [hp]; rfl)
    (fun _ => rfl)

theorem levelGc_inv {g : PMgr} (h : PInv g) (l : Nat) : PInv (g.levelGc l).1 := by
  unfold PMgr.levelGc
  split
  · next hp => exact remove_inv h hp
  · exact h

theorem tryRemoveNode_inv {g : PMgr} (h : PInv g) (i : Bool) (o : Nat) (lo : Bool) (r : Nat)
    (f : Bool) : PInv (g.tryRemoveNode i o lo r f).1 := by
  unfold PMgr.tryRemoveNode
  split; · exact h
  split; · exact h
  next hc =>
  split; · exact h
  split; · exact h
  split; · exact h
  have hp : g.prepared = true := by
    cases hq : g.prepared with
    | true => rfl
    | false => exact absurd (by simp [hq]) hc
  exact remove_inv h hp

theorem pstep_inv {g : PMgr} (h : PInv g) (c : PCall) (hok : c.okAt g) : PInv (g.step c).1 := by
  cases c with
  | addVars k => exact levelChange_inv h _ (Or.inl ⟨k, rfl⟩)
  | addNamedVars l => exact levelChange_inv h _ (Or.inr (Or.inl ⟨l, rfl⟩))
  | addNamedVarsFromMap b => exact levelChange_inv h _ (Or.inr (Or.inr ⟨b, rfl⟩))
  | setVarName v n => exact setVarName_inv' h v n
  | gc => exact gc_inv h
  | reorderBegin => exact reorderBegin_inv h
  | reorderEnd =>
    simp only [PMgr.step]
    cases he : g.reorderEnd with
    | none => exact h
    | some g' => exact reorderEnd_inv h he
  | swap l1 l2 => exact swap_inv' h hok.1 hok.2
  | levelGc l => exact levelGc_inv h l
  | tryRemoveNode i o lo r f => exact tryRemoveNode_inv h i o lo r f

theorem prun_inv (cs : List PCall) : ∀ {g : PMgr}, PInv g → okCalls g cs → PInv (g.run cs).1 := by
  induction cs with
  | nil => intro g h _; exact h
  | cons c cs ih =>
    intro g h hok
    exact ih (pstep_inv h c hok.1) hok.2

/-! ### the projection of a whole history -/

def projCalls (cs : List PCall) : List MCall := cs.filterMap PCall.toMCall

/-- results of the variable-API calls of a history, in order -/
def projRes : List PCall → List PRes → List Res
  | c :: cs, r :: rs =>
    match c.toMCall with
    | some _ => r.toRes :: projRes cs rs
    | none => projRes cs rs
  | _, _ => []

theorem toMgr_run (cs : List PCall) : ∀ g : PMgr,
    (g.run cs).1.toMgr = (g.toMgr.run (projCalls cs)).1 ∧
    projRes cs (g.run cs).2 = (g.toMgr.run (projCalls cs)).2 := by
  induction cs with
  | nil => intro g; exact ⟨rfl, rfl⟩
  | cons c cs ih =>
    intro g
    have hs := toMgr_step g c
    have := ih (g.step c).1
    cases hc : c.toMCall with
    | none =>
      rw [hc] at hs
      have e : projCalls (c :: cs) = projCalls cs := by simp [projCalls, hc]
      rw [e]
      show ((g.step c).1.run cs).1.toMgr = _ ∧ projRes (c :: cs) ((g.step c).2 :: ((g.step c).1.run cs).2) = _
      rw [← hs]
      refine ⟨this.1, ?_⟩
      simp only [projRes, hc]
      exact this.2
    | some mc =>
      rw [hc] at hs
      have e : projCalls (c :: cs) = mc :: projCalls cs := by simp [projCalls, hc]
      rw [e]
      show ((g.step c).1.run cs).1.toMgr = ((g.toMgr.step mc).1.run (projCalls cs)).1 ∧
        projRes (c :: cs) ((g.step c).2 :: ((g.step c).1.run cs).2) =
          (g.toMgr.step mc).2 :: ((g.toMgr.step mc).1.run (projCalls cs)).2
      rw [← hs.1, ← hs.2]
      refine ⟨this.1, ?_⟩
      simp only [projRes, hc]
      rw [this.2]

/-! ### counters -/

/-- number of collections started by `gc` and number of completed outermost reorderings of a
history (run from a state satisfying the invariant, so every `gc` runs) -/
def countGc : PMgr → List PCall → Nat
  | _, [] => 0
  | g, c :: cs =>
    (match c with | .gc => 1 | _ => 0) + countGc (g.step c).1 cs

def countOuterEnd : PMgr → List PCall → Nat
  | _, [] => 0
  | g, c :: cs =>
    (match c, g.stack with | .reorderEnd, true :: _ => 1 | _, _ => 0) + countOuterEnd (g.step c).1 cs

theorem step_counters {g : PMgr} (hf : g.gcOngoing = false) (c : PCall) :
    (g.step c).1.gcCount = g.gcCount + (match c with | .gc => 1 | _ => 0) +
        (match c, g.stack with | .reorderEnd, true :: _ => 1 | _, _ => 0) ∧
    (g.step c).1.reorderCount = g.reorderCount +
        (match c, g.stack with | .reorderEnd, true :: _ => 1 | _, _ => 0) := by
  cases c with
  | addVars k => exact ⟨(addVars_ctl g k).gcCount, (addVars_ctl g k).reorderCount⟩
  | addNamedVars l => exact ⟨(addNamedVars_ctl g l).gcCount, (addNamedVars_ctl g l).reorderCount⟩
  | addNamedVarsFromMap b => exact ⟨(fromMap_ctl g _).gcCount, (fromMap_ctl g _).reorderCount⟩
  | setVarName v n => exact ⟨rfl, rfl⟩
  | gc =>
    obtain ⟨_, _, _, _, _, _, _, f8, f9, _⟩ := gc_fields hf
    exact ⟨f8.trans rfl, f9.trans rfl⟩
  | reorderBegin =>
    obtain ⟨_, _, _, _, _, f6, f7⟩ := reorderBegin_fields g
    exact ⟨f6.trans rfl, f7.trans rfl⟩
  | reorderEnd =>
    simp only [PMgr.step, PMgr.reorderEnd]
    cases hs : g.stack with
    | nil => exact ⟨rfl, rfl⟩
    | cons b st => cases b <;> exact ⟨rfl, rfl⟩
  | swap l1 l2 => exact ⟨rfl, rfl⟩
  | levelGc l =>
    simp only [PMgr.step, PMgr.levelGc]
    split <;> exact ⟨rfl, rfl⟩
  | tryRemoveNode i o lo r f =>
    simp only [PMgr.step, PMgr.tryRemoveNode]
    split; · exact ⟨rfl, rfl⟩
    split; · exact ⟨rfl, rfl⟩
    split; · exact ⟨rfl, rfl⟩
    split; · exact ⟨rfl, rfl⟩
    split <;> exact ⟨rfl, rfl⟩

theorem run_counters (cs : List PCall) : ∀ {g : PMgr}, PInv g → okCalls g cs →
    (g.run cs).1.gcCount = g.gcCount + countGc g cs + countOuterEnd g cs ∧
    (g.run cs).1.reorderCount = g.reorderCount + countOuterEnd g cs := by
  induction cs with
  | nil => intro g _ _; exact ⟨rfl, rfl⟩
  | cons c cs ih =>
    intro g h hok
    have hs := step_counters h.gcFree c
    have := ih (pstep_inv h c hok.1) hok.2
    show ((g.step c).1.run cs).1.gcCount = _ ∧ ((g.step c).1.run cs).1.reorderCount = _
    rw [this.1, this.2, hs.1, hs.2]
    simp only [countGc, countOuterEnd]
    omega

end OxiddModel.Pointer
