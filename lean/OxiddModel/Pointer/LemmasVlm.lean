import OxiddModel.Pointer.Model

/-!
# C20 / pointer manager — lemmas about `VarLevelMap`

The invariant `VInv`: the two vectors have the same length and are mutually inverse partial
functions (hence total inverse permutations of `0..n`). Preserved by `extend` for every batch size
and by `swap_levels` for two existing levels.
-/
namespace OxiddModel.Pointer

structure VInv (m : VarLevelMap) : Prop where
  len : m.toVar.length = m.toLevel.length
  fwd : ∀ (l v : Nat), m.toVar[l]? = some v → m.toLevel[v]? = some l
  bwd : ∀ (v l : Nat), m.toLevel[v]? = some l → m.toVar[l]? = some v

theorem vinv_new : VInv VarLevelMap.new := ⟨rfl, by intro l v h; simp [VarLevelMap.new] at h,
  by intro l v h; simp [VarLevelMap.new] at h⟩

theorem getElem?_lt {l : List Nat} {i v : Nat} (h : l[i]? = some v) : i < l.length := by
  rcases Nat.lt_or_ge i l.length with h1 | h1
  · exact h1
  · rw [List.getElem?_eq_none h1] at h; cases h

theorem getElem?_append_range' (l : List Nat) (k i : Nat) :
    (l ++ List.range' l.length k)[i]? =
      if i < l.length then l[i]? else if i < l.length + k then some i else none := by
  rw [List.getElem?_append]
  split
  · rfl
  · next h =>
    split
    · next h2 =>
      rw [List.getElem?_range' (by omega)]
      congr 1; omega
    · next h2 =>
      apply List.getElem?_eq_none
      simp only [List.length_range']; omega

theorem VInv.val_lt {m : VarLevelMap} (h : VInv m) {l v : Nat} (hl : m.toVar[l]? = some v) :
    v < m.toLevel.length := getElem?_lt (h.fwd l v hl)

theorem VInv.lvl_lt {m : VarLevelMap} (h : VInv m) {l v : Nat} (hl : m.toLevel[v]? = some l) :
    l < m.toLevel.length := by
  have := getElem?_lt (h.bwd v l hl); rw [h.len] at this; exact this

theorem extend_inv {m : VarLevelMap} (h : VInv m) (k : Nat) : VInv (m.extend k) := by
  have hl := h.len
  refine ⟨?_, ?_, ?_⟩
  · simp [VarLevelMap.extend, hl]
  · intro l v hv
    show (m.toLevel ++ List.range' m.toLevel.length k)[v]? = some l
    have hv' : (m.toVar ++ List.range' m.toLevel.length k)[l]? = some v := hv
    rw [← hl, getElem?_append_range'] at hv'
    rw [getElem?_append_range']
    split at hv'
    · have := h.fwd l v hv'
      have hlt := getElem?_lt this
      rw [if_pos hlt]; exact this
    · split at hv'
      · cases hv'
        rw [hl] at *
        rename_i h1 h2
        rw [if_neg h1, if_pos h2]
      · cases hv'
  · intro v l hv
    show (m.toVar ++ List.range' m.toLevel.length k)[l]? = some v
    have hv' : (m.toLevel ++ List.range' m.toLevel.length k)[v]? = some l := hv
    rw [getElem?_append_range'] at hv'
    rw [← hl, getElem?_append_range']
    split at hv'
    · have := h.bwd v l hv'
      have hlt := getElem?_lt this
      rw [if_pos hlt]; exact this
    · split at hv'
      · cases hv'
        rename_i h1 h2
        rw [hl, if_neg h1, if_pos h2]
      · cases hv'

theorem getD_of_getElem? {l : List Nat} {i v d : Nat} (h : l[i]? = some v) : l.getD i d = v := by
  simp [List.getD, h]

theorem getElem?_of_lt {l : List Nat} {i : Nat} (h : i < l.length) (d : Nat) :
    l[i]? = some (l.getD i d) := by
  simp [List.getD, List.getElem?_eq_getElem h]

theorem swap_inv {m : VarLevelMap} (h : VInv m) {l1 l2 : Nat} (h1 : l1 < m.toLevel.length)
    (h2 : l2 < m.toLevel.length) : VInv (m.swapLevels l1 l2) := by
  unfold VarLevelMap.swapLevels
  split
  · next hne =>
    have hl := h.len
    have e1 : m.toVar[l1]? = some (m.levelToVar l1) := getElem?_of_lt (by omega) _
    have e2 : m.toVar[l2]? = some (m.levelToVar l2) := getElem?_of_lt (by omega) _
    generalize m.levelToVar l1 = v1 at e1
    generalize m.levelToVar l2 = v2 at e2
    have f1 := h.fwd _ _ e1
    have f2 := h.fwd _ _ e2
    have hv1 := getElem?_lt f1
    have hv2 := getElem?_lt f2
    have hvne : v1 ≠ v2 := by
      intro e; subst e; rw [f1] at f2; cases f2; exact hne rfl
    refine ⟨?_, ?_, ?_⟩
    · simp [hl]
    · intro l v hv
      simp only [List.getElem?_set, List.length_set] at hv ⊢
      by_cases c2 : l2 = l
      · subst c2
        simp only [if_true, hl, h2] at hv
        cases hv
        simp [hvne.symm, hv1]
      · simp only [c2, if_false] at hv
        by_cases c1 : l1 = l
        · subst c1
          simp only [if_true, hl, h1] at hv
          cases hv
          simp [hv2]
        · simp only [c1, if_false] at hv
          have hf := h.fwd l v hv
          have n1 : v1 ≠ v := by intro e; subst e; rw [f1] at hf; cases hf; exact c1 rfl
          have n2 : v2 ≠ v := by intro e; subst e; rw [f2] at hf; cases hf; exact c2 rfl
          simp [n1, n2, hf]
    · intro v l hv
      simp only [List.getElem?_set, List.length_set] at hv ⊢
      by_cases c2 : v2 = v
      · subst c2
        simp only [if_true, hv2] at hv
        cases hv
        simp [hl, h1, Ne.symm hne]
      · simp only [c2, if_false] at hv
        by_cases c1 : v1 = v
        · subst c1
          simp only [if_true, hv1] at hv
          cases hv
          simp [hl, h2]
        · simp only [c1, if_false] at hv
          have hb := h.bwd v l hv
          have n1 : l1 ≠ l := by intro e; subst e; rw [e1] at hb; cases hb; exact c1 rfl
          have n2 : l2 ≠ l := by intro e; subst e; rw [e2] at hb; cases hb; exact c2 rfl
          simp [n1, n2, hb]
  · exact h

theorem swapLevels_len (m : VarLevelMap) (l1 l2 : Nat) : (m.swapLevels l1 l2).len = m.len := by
  unfold VarLevelMap.swapLevels VarLevelMap.len
  split <;> simp

theorem swapLevels_toVar_len (m : VarLevelMap) (l1 l2 : Nat) :
    (m.swapLevels l1 l2).toVar.length = m.toVar.length := by
  unfold VarLevelMap.swapLevels
  split <;> simp

theorem extend_len (m : VarLevelMap) (k : Nat) : (m.extend k).len = m.len + k := by
  simp [VarLevelMap.extend, VarLevelMap.len]

/-- the concrete `to_var` vector evolves exactly like the abstract order -/
theorem vstep_toVar {m : VarLevelMap} (h : VInv m) (o : VOp) :
    (m.step o).toVar = Order.step m.toVar o := by
  cases o with
  | extend k => simp [VarLevelMap.step, Order.step, VarLevelMap.extend, Order.extend, h.len]
  | swap l1 l2 =>
    simp only [VarLevelMap.step, Order.step, VarLevelMap.swapLevels, Order.swap,
      VarLevelMap.levelToVar]
    split
    · rfl
    · next hne =>
      have e : l1 = l2 := by
        rcases Nat.lt_or_ge l1 l2 with c | c
        · exact absurd (Nat.ne_of_lt c) hne
        · rcases Nat.lt_or_ge l2 l1 with c' | c'
          · exact absurd (Nat.ne_of_gt c') hne
          · omega
      subst e
      apply List.ext_getElem?
      intro i
      simp only [List.getElem?_set, List.length_set]
      by_cases c : l1 = i
      · subst c
        simp only [if_true]
        split
        · next hlt => exact getElem?_of_lt hlt _
        · next hge => exact List.getElem?_eq_none (by omega)
      · simp [c]

theorem vstep_inv {m : VarLevelMap} (h : VInv m) {o : VOp} (hv : o.validAt m.len = true) :
    VInv (m.step o) := by
  cases o with
  | extend k => exact extend_inv h k
  | swap l1 l2 =>
    simp only [VOp.validAt, Bool.and_eq_true, decide_eq_true_eq] at hv
    exact swap_inv h hv.1 hv.2

theorem vstep_len (m : VarLevelMap) (o : VOp) : (m.step o).len = o.grow m.len := by
  cases o with
  | extend k => exact extend_len m k
  | swap l1 l2 => exact swapLevels_len m l1 l2

theorem vrun_inv (ops : List VOp) : ∀ {m : VarLevelMap}, VInv m → validOps m.len ops = true →
    VInv (m.run ops) ∧ (m.run ops).toVar = Order.run m.toVar ops := by
  induction ops with
  | nil => intro m h _; exact ⟨h, rfl⟩
  | cons o os ih =>
    intro m h hv
    simp only [validOps, Bool.and_eq_true] at hv
    have h' := vstep_inv h hv.1
    have hv2 : validOps (m.step o).len os = true := by rw [vstep_len]; exact hv.2
    have := ih h' hv2
    refine ⟨this.1, ?_⟩
    show ((m.step o).run os).toVar = Order.run (Order.step m.toVar o) os
    rw [this.2, vstep_toVar h]

/-- position of a value that occurs exactly at `i` -/
theorem idxOf_eq_of_unique : ∀ (l : List Nat) (i v : Nat), l[i]? = some v →
    (∀ j, l[j]? = some v → j = i) → l.idxOf v = i
  | [], i, v, h, _ => by simp at h
  | a :: t, i, v, h, hu => by
    rw [List.idxOf_cons]
    by_cases e : a = v
    · subst e
      have := hu 0 (by simp)
      simp [← this]
    · have hne : (a == v) = false := by simpa using e
      rw [hne]
      cases i with
      | zero => simp at h; exact absurd h e
      | succ i =>
        simp only [List.getElem?_cons_succ] at h
        simp only [cond_false, Nat.add_right_cancel_iff]
        apply idxOf_eq_of_unique t i v h
        intro j hj
        have := hu (j + 1) (by simpa using hj)
        omega

theorem VInv.varToLevel_eq_idxOf {m : VarLevelMap} (h : VInv m) {v : Nat}
    (hv : v < m.toLevel.length) : m.varToLevel v = m.toVar.idxOf v := by
  have e := getElem?_of_lt hv v
  have hb := h.bwd _ _ e
  symm
  apply idxOf_eq_of_unique _ _ _ hb
  intro j hj
  have := h.fwd _ _ hj
  show j = m.toLevel.getD v v
  rw [getD_of_getElem? this]

theorem VInv.nodup {m : VarLevelMap} (h : VInv m) : m.toVar.Nodup := by
  rw [List.nodup_iff_pairwise_ne, List.pairwise_iff_getElem]
  intro i j hi hj hij heq
  have ei : m.toVar[i]? = some m.toVar[i] := List.getElem?_eq_getElem hi
  have ej : m.toVar[j]? = some m.toVar[j] := List.getElem?_eq_getElem hj
  have a := h.fwd _ _ ei
  have b := h.fwd _ _ ej
  rw [heq] at a
  rw [a] at b
  cases b
  omega

end OxiddModel.Pointer
