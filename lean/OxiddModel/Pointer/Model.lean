import OxiddModel.VarNames.Model

/-!
# C20 (also C16 / C03 / C05) — model of the POINTER-based manager's bookkeeping

Rust sources mirrored here (branch for branch, in the same order):

* `/repo/crates/oxidd-manager-pointer/src/util/var_level_map.rs` — `VarLevelMap { to_level, to_var }`
  with `extend`, `var_to_level`, `level_to_var`, `swap_levels` (the file is byte-identical to the
  index manager's `util/var_level_map.rs`, which so far was modelled by its *length* only);
* `/repo/crates/oxidd-manager-pointer/src/manager.rs`
  * `LevelIter` (`levels()`, `Iterator::next`, `DoubleEndedIterator::next_back`,
    `ExactSizeIterator::len`),
  * `Manager::{add_vars, add_named_vars, add_named_vars_from_map, set_var_name}` with the calls
    of the `ManagerEventSubscriber` hooks (`pre_reorder`, `post_reorder`, `pre_gc`, `post_gc`) in
    the order in which the code makes them,
  * `Manager::{gc, reorder, gc_count, reorder_count, try_remove_node}`, the flag
    `reorder_gc_prepared`, `LevelView::{gc, swap}`,
  * `NodeSet` (`page_offset`, `insert`, `contains`, `remove`),
  * the tag-bit arithmetic of `Edge` (`is_inner`, `all_untagged_ptr`, `retag_ptr`, `tag`,
    `node_id`);
* `/repo/crates/oxidd-manager-pointer/src/terminal_manager/static.rs` — `StaticTerminalManager`
  (`get`, `deref_edge`, `terminal_manager`, `iter`).

Where the two managers differ in *logic* (everything else is the same text up to the memory
representation of edges):

| component | index manager | pointer manager |
|---|---|---|
| `VarLevelMap`, `LevelIter`, `add_vars`, `add_named_vars`, `add_named_vars_from_map`, `set_var_name`, `gc`, `reorder`, counters, `try_remove_node` control flow | — | textually the same (modelled once, here, in full; `VarNames.Mgr` is the projection that forgets the permutation, the hooks and the flags: `PMgr.toMgr`) |
| `num_inner_nodes` | sum of the level tables' lengths | `ArcSlab::num_items` (a counter: `+1` in `add_item`, `-1` in `free_slot`) |
| `gc()` result type | `u32` arithmetic, cast | `usize` arithmetic |
| `NodeSet` | one bit set indexed by the node id | hash map *page ↦ bit set*, key computed from the address (`page_offset`) |
| terminals of a static terminal manager | edge value `= terminal id < TERMINALS` | tagged pointer into the `StaticTerminalManager` (`base | 1 << TAG_BITS | value << (TAG_BITS+1)`), decoded by masking with `ALL_BITS_MASK` and shifting |
| edge tag | top bit(s) of the 32-bit id | low `TAG_BITS` bits of the pointer |
| store / `ManagerRef` life time | `Arc<Store>`; `Function` holds an `Arc` | `ArcSlab` reference count: `+1` per `ManagerRef`, `+1` per `Function` (`from_edge`), `-1` on drop / `into_edge` |
| background collection thread, node limit | yes | none (the pointer manager ignores `inner_node_capacity`) |

Addresses are natural numbers; the arithmetic is the one the Rust code uses (`>>`, `<<`, `|`,
`&`, `/`, `%`), with `p & !MASK` written as `p - (p & MASK)`.
-/
namespace OxiddModel.Pointer

open OxiddModel.VarNames OxiddModel.VarNames.VarNameMap

/-! ## 1. `VarLevelMap` -/

structure VarLevelMap where
  /-- `to_level: Vec<AtomicLevelNo>` (index = variable) -/
  toLevel : List Nat
  /-- `to_var: Vec<AtomicVarNo>` (index = level) -/
  toVar : List Nat
  deriving Repr, DecidableEq, Inhabited

namespace VarLevelMap

/-- `VarLevelMap::new` -/
def new : VarLevelMap := ⟨[], []⟩

/-- `VarLevelMap::len` (`self.to_level.len()`) -/
def len (m : VarLevelMap) : Nat := m.toLevel.length

/-- `VarLevelMap::extend`: both vectors are extended by `start..end` where
`start = self.to_level.len()` -/
def extend (m : VarLevelMap) (additional : Nat) : VarLevelMap :=
  let start := m.toLevel.length
  { toLevel := m.toLevel ++ List.range' start additional
    toVar := m.toVar ++ List.range' start additional }

/-- `VarLevelMap::var_to_level` (`self.to_level[var]`, panics out of range; the model returns the
argument there — the driver and the theorems only use it in range) -/
def varToLevel (m : VarLevelMap) (var : Nat) : Nat := m.toLevel.getD var var

/-- `VarLevelMap::level_to_var` -/
def levelToVar (m : VarLevelMap) (level : Nat) : Nat := m.toVar.getD level level

/-- `VarLevelMap::swap_levels` -/
def swapLevels (m : VarLevelMap) (l1 l2 : Nat) : VarLevelMap :=
  if l1 ≠ l2 then
    let v1 := m.levelToVar l1
    let v2 := m.levelToVar l2
    { toVar := (m.toVar.set l1 v2).set l2 v1
      toLevel := (m.toLevel.set v1 l2).set v2 l1 }
  else m

end VarLevelMap

/-! ### the abstract behaviour: the variable order as one list

The abstract manager has *one* list `order` (level ↦ variable, a permutation of `0..n`);
`var_to_level` is the position of the variable in it. -/

abbrev Order := List Nat

namespace Order

def extend (o : Order) (k : Nat) : Order := o ++ List.range' o.length k

/-- exchange the entries at positions `l1` and `l2` -/
def swap (o : Order) (l1 l2 : Nat) : Order :=
  (o.set l1 (o.getD l2 l2)).set l2 (o.getD l1 l1)

def levelToVar (o : Order) (l : Nat) : Nat := o.getD l l
def varToLevel (o : Order) (v : Nat) : Nat := o.idxOf v

end Order

/-- an operation on the var/level map (`swap_levels` is reached through `LevelView::swap`, whose
two views were created for existing levels) -/
inductive VOp where
  | extend (k : Nat)
  | swap (l1 l2 : Nat)
  deriving Repr, DecidableEq, Inhabited

def VarLevelMap.step (m : VarLevelMap) : VOp → VarLevelMap
  | .extend k => m.extend k
  | .swap l1 l2 => m.swapLevels l1 l2

def VarLevelMap.run (m : VarLevelMap) : List VOp → VarLevelMap
  | [] => m
  | o :: os => VarLevelMap.run (m.step o) os

def Order.step (o : Order) : VOp → Order
  | .extend k => o.extend k
  | .swap l1 l2 => o.swap l1 l2

def Order.run (o : Order) : List VOp → Order
  | [] => o
  | x :: xs => Order.run (o.step x) xs

/-- the swaps of a history address existing levels (the precondition of `LevelView::swap`) -/
def VOp.validAt (n : Nat) : VOp → Bool
  | .extend _ => true
  | .swap l1 l2 => decide (l1 < n) && decide (l2 < n)

def VOp.grow (n : Nat) : VOp → Nat
  | .extend k => n + k
  | .swap _ _ => n

def validOps : Nat → List VOp → Bool
  | _, [] => true
  | n, o :: os => o.validAt n && validOps (o.grow n) os

/-! ## 2. `LevelIter` -/

/-- what a yielded `LevelView` knows about itself: its `level` field (`level_no()`) and which
mutex of `unique_table` it locked (`table`, the position in the vector) -/
structure View where
  level : Nat
  table : Nat
  deriving Repr, DecidableEq, Inhabited

structure LevelIter where
  /-- `level_front` -/
  levelFront : Nat
  /-- `level_back` -/
  levelBack : Nat
  /-- `it: std::slice::Iter<Mutex<LevelViewSet>>`: the positions `lo..hi` of `unique_table` that
  have not been yielded yet -/
  lo : Nat
  hi : Nat
  deriving Repr, DecidableEq, Inhabited

namespace LevelIter

/-- `Manager::levels` for a manager with `tables = unique_table.len()` -/
def levels (tables : Nat) : LevelIter :=
  { levelFront := 0, levelBack := tables, lo := 0, hi := tables }

/-- `Iterator::next` -/
def next (it : LevelIter) : LevelIter × Option View :=
  if it.lo < it.hi then
    -- `let mutex = self.it.next()?; let level = self.level_front; self.level_front += 1;`
    let level := it.levelFront
    ({ it with lo := it.lo + 1, levelFront := it.levelFront + 1 }, some ⟨level, it.lo⟩)
  else (it, none)

/-- `DoubleEndedIterator::next_back` -/
def nextBack (it : LevelIter) : LevelIter × Option View :=
  if it.lo < it.hi then
    -- `let mutex = self.it.next_back()?; self.level_back -= 1; … level: self.level_back`
    let lb := it.levelBack - 1
    ({ it with hi := it.hi - 1, levelBack := lb }, some ⟨lb, it.hi - 1⟩)
  else (it, none)

/-- `ExactSizeIterator::len` (`self.it.len()`) -/
def len (it : LevelIter) : Nat := it.hi - it.lo

/-- a sequence of calls: `true` = `next`, `false` = `next_back`; the yielded items in order -/
def run (it : LevelIter) : List Bool → LevelIter × List (Option View)
  | [] => (it, [])
  | b :: bs =>
    let (it', v) := if b then it.next else it.nextBack
    let (it'', vs) := run it' bs
    (it'', v :: vs)

end LevelIter

/-! ## 3. the manager: bookkeeping, hooks, flags, counters -/

/-- what the manager tells its `ManagerEventSubscriber` (the manager data: apply cache, ZBDD
tautology chain) and the changes these notifications are meant to bracket -/
inductive Ev where
  | preGc
  | postGc
  | preReorder
  /-- `post_reorder` / `post_reorder_mut`, with the sizes the subscriber can see at that moment:
  `unique_table.len()`, `var_level_map.len()`, `var_name_map.len()` -/
  | postReorder (tables vlm names : Nat)
  /-- `unique_table.resize_with(n, …)`: the number of levels changes -/
  | resize (n : Nat)
  /-- nodes are removed from unique tables (`gc` pass, `LevelView::gc`, `try_remove_node`) -/
  | remove
  /-- `LevelView::swap` -/
  | swap (l1 l2 : Nat)
  deriving Repr, DecidableEq, Inhabited

structure PMgr where
  /-- `unique_table.len()` -/
  tables : Nat
  /-- `var_level_map` -/
  vlm : VarLevelMap
  /-- `var_name_map` -/
  map : VarNameMap
  /-- `gc_count` -/
  gcCount : Nat
  /-- `reorder_count` -/
  reorderCount : Nat
  /-- `gc_ongoing` (`TryLock`) -/
  gcOngoing : Bool
  /-- `reorder_gc_prepared` -/
  prepared : Bool
  /-- the active invocations of `reorder` (innermost first): `true` for the invocation that
  prepared the reordering, `false` for a nested one (`return f(self)`) -/
  stack : List Bool
  /-- the level-dependent state of the manager data, as the ZBDD tautology chain keeps it:
  `none` after `pre_reorder_mut` (torn down), `some n` after `post_reorder_mut` saw `n` levels -/
  chain : Option Nat
  /-- all notifications and bracketed changes so far, oldest first -/
  log : List Ev
  deriving Repr, DecidableEq, Inhabited

/-- result of a manager call -/
inductive PRes where
  | unit
  | add (r : AddRes)
  | set (r : SetRes)
  | flag (b : Bool)
  | bad
  deriving Repr, DecidableEq, Inhabited

namespace PMgr

/-- `new_manager`: `init_in` + `MD::init_mut` (the ZBDD cache builds its chain for 0 levels) -/
def init : PMgr :=
  { tables := 0, vlm := VarLevelMap.new, map := VarNameMap.new, gcCount := 0, reorderCount := 0,
    gcOngoing := false, prepared := false, stack := [], chain := some 0, log := [] }

/-- `self.data.pre_reorder(self); MD::pre_reorder_mut(self);` -/
def preReorder (g : PMgr) : PMgr := { g with log := g.log ++ [.preReorder], chain := none }

/-- `self.data.post_reorder(self); MD::post_reorder_mut(self);` -/
def postReorder (g : PMgr) : PMgr :=
  { g with log := g.log ++ [.postReorder g.tables g.vlm.len g.map.len], chain := some g.tables }

def preGc (g : PMgr) : PMgr := { g with log := g.log ++ [.preGc] }
def postGc (g : PMgr) : PMgr := { g with log := g.log ++ [.postGc] }

/-- `self.unique_table.resize_with(n, …)` -/
def resize (g : PMgr) (n : Nat) : PMgr := { g with tables := n, log := g.log ++ [.resize n] }

def numLevels (g : PMgr) : Nat := g.tables
def numNamedVars (g : PMgr) : Nat := g.map.namedCount

/-- `Manager::add_vars` -/
def addVars (g : PMgr) (additional : Nat) : PMgr × AddRes :=
  let len := g.tables
  let newLen := len + additional
  let g := g.preReorder
  let g := g.resize newLen
  let g := { g with vlm := g.vlm.extend additional }
  let g := { g with map := g.map.addUnnamed additional }
  let g := g.postReorder
  (g, .ok len newLen)

/-- `Manager::add_named_vars`; the scope guard (resize, extend, post hooks) runs on the `Ok` and on
the `Err` path -/
def addNamedVars (g : PMgr) (names : List String) : PMgr × AddRes :=
  let g := g.preReorder
  let len := g.map.len
  let (map', r) := g.map.addNamed names
  let g := { g with map := map' }
  -- guard
  let newLen := g.map.len
  let g := g.resize newLen
  let g := { g with vlm := g.vlm.extend (newLen - len) }
  let g := g.postReorder
  (g, r)

/-- `Manager::add_named_vars_from_map` -/
def addNamedVarsFromMap (g : PMgr) (map : VarNameMap) : PMgr × AddRes :=
  if !g.map.isEmpty then
    g.addNamedVars map.intoNames
  else
    let g := g.preReorder
    let n := map.len
    let g := g.resize n
    let g := { g with vlm := g.vlm.extend n }
    let g := { g with map := map }
    let g := g.postReorder
    (g, .ok 0 n)

/-- `Manager::set_var_name` -/
def setVarName (g : PMgr) (var : Nat) (name : String) : PMgr × SetRes :=
  let (map', r) := g.map.setVarName var name
  ({ g with map := map' }, r)

/-- `Manager::gc`; returns whether a collection ran (`false`: `gc_ongoing` was taken) -/
def gc (g : PMgr) : PMgr × Bool :=
  if g.gcOngoing then (g, false)
  else
    let g := { g with gcOngoing := true, gcCount := g.gcCount + 1 }
    let g := if !g.prepared then g.preGc else g
    -- `for level in &self.unique_table { … level.gc() … }`
    let g := { g with log := g.log ++ [Ev.remove] }
    let g := if !g.prepared then g.postGc else g
    ({ g with gcOngoing := false }, true)

/-- entry of `Manager::reorder` (up to and excluding `f(self)`) -/
def reorderBegin (g : PMgr) : PMgr :=
  if g.prepared then
    -- nested call: `return f(self)`
    { g with stack := false :: g.stack }
  else
    let g := g.preGc
    let g := { g with prepared := true }
    let g := g.preReorder
    { g with stack := true :: g.stack }

/-- exit of `Manager::reorder` (after `f(self)` returned); `none` if no invocation is active -/
def reorderEnd (g : PMgr) : Option PMgr :=
  match g.stack with
  | [] => none
  | false :: st => some { g with stack := st }
  | true :: st =>
    let g := g.postReorder
    let g := { g with prepared := false }
    let g := g.postGc
    some { g with gcCount := g.gcCount + 1, reorderCount := g.reorderCount + 1, stack := st }

/-- `LevelView::swap` on the views of levels `l1`, `l2` (the node sets are exchanged, which this
bookkeeping model does not see) -/
def swap (g : PMgr) (l1 l2 : Nat) : PMgr :=
  { g with vlm := g.vlm.swapLevels l1 l2, log := g.log ++ [Ev.swap l1 l2] }

/-- `manager.level(l).gc()`: `LevelView::gc` collects only if `allow_node_removal`, which is the
value of `reorder_gc_prepared` when the view was created; returns whether it collected -/
def levelGc (g : PMgr) (_l : Nat) : PMgr × Bool :=
  if g.prepared then ({ g with log := g.log ++ [Ev.remove] }, true) else (g, false)

/-- `Manager::try_remove_node` for an inner-node edge whose reference count was `oldRc` before the
decrement, reads `rcLocked` after the level was locked, and whose node is (`found`) in the
level's table; `levelOk` = `level < unique_table.len()` -/
def tryRemoveNode (g : PMgr) (inner : Bool) (oldRc : Nat) (levelOk : Bool) (rcLocked : Nat)
    (found : Bool) : PMgr × Bool :=
  if !inner then (g, false)
  else if oldRc ≠ 2 || !g.prepared then (g, false)
  else if !levelOk then (g, false)
  else if rcLocked ≠ 1 then (g, false)
  else if !found then (g, false)
  else ({ g with log := g.log ++ [Ev.remove] }, true)

end PMgr

/-- a call of the manager's API. `reorder(f)` is split into its entry and its exit so that the
closure `f` is the stretch of calls in between (any calls, including nested `reorder`s). -/
inductive PCall where
  | addVars (k : Nat)
  | addNamedVars (names : List String)
  | addNamedVarsFromMap (build : List Call)
  | setVarName (var : Nat) (name : String)
  | gc
  | reorderBegin
  | reorderEnd
  | swap (l1 l2 : Nat)
  | levelGc (l : Nat)
  | tryRemoveNode (inner : Bool) (oldRc : Nat) (levelOk : Bool) (rcLocked : Nat) (found : Bool)
  deriving Repr, Inhabited

def PMgr.step (g : PMgr) : PCall → PMgr × PRes
  | .addVars k => let (g', r) := g.addVars k; (g', .add r)
  | .addNamedVars l => let (g', r) := g.addNamedVars l; (g', .add r)
  | .addNamedVarsFromMap b =>
    let (g', r) := g.addNamedVarsFromMap (VarNameMap.new.run b).1; (g', .add r)
  | .setVarName v n => let (g', r) := g.setVarName v n; (g', .set r)
  | .gc => let (g', b) := g.gc; (g', .flag b)
  | .reorderBegin => (g.reorderBegin, .unit)
  | .reorderEnd =>
    match g.reorderEnd with
    | some g' => (g', .unit)
    | none => (g, .bad)
  | .swap l1 l2 => (g.swap l1 l2, .unit)
  | .levelGc l => let (g', b) := g.levelGc l; (g', .flag b)
  | .tryRemoveNode i o lo r f => let (g', b) := g.tryRemoveNode i o lo r f; (g', .flag b)

def PMgr.run (g : PMgr) : List PCall → PMgr × List PRes
  | [] => (g, [])
  | c :: cs =>
    let (g', r) := g.step c
    let (g'', rs) := PMgr.run g' cs
    (g'', r :: rs)

/-- the projection onto the index-manager model `VarNames.Mgr` (which keeps only the three
lengths' worth of information) -/
def PMgr.toMgr (g : PMgr) : Mgr := ⟨g.tables, g.vlm.len, g.map⟩

/-- the same for calls and results (`none`: the call is not part of the variable API) -/
def PCall.toMCall : PCall → Option MCall
  | .addVars k => some (.addVars k)
  | .addNamedVars l => some (.addNamedVars l)
  | .addNamedVarsFromMap b => some (.addNamedVarsFromMap b)
  | .setVarName v n => some (.setVarName v n)
  | _ => none

def PRes.toRes : PRes → Res
  | .add r => .add r
  | .set r => .set r
  | _ => .unit

/-! ### reading the log

`scanGc` walks the log with the state "is a `pre_gc` open?": it fails (`none`) on a second
`pre_gc` without `post_gc` in between, on a `post_gc` without `pre_gc`, and on a node removal
outside the bracket. `scanRe` does the same for `pre_reorder` / `post_reorder` with a depth (level
additions inside a reordering nest) and fails on an unmatched `post_reorder`, on a change of the
number of levels outside a bracket and on a `post_reorder` whose subscriber sees the three sizes
disagree (tables not resized yet). (`LevelView::swap` is not a safe function; calling it inside a
reordering is its caller's obligation, not the manager's, so `scanRe` ignores `swap` events.) -/

def scanGc : List Ev → Bool → Option Bool
  | [], o => some o
  | .preGc :: es, o => if o then none else scanGc es true
  | .postGc :: es, o => if o then scanGc es false else none
  | .remove :: es, o => if o then scanGc es o else none
  | _ :: es, o => scanGc es o

def scanRe : List Ev → Nat → Option Nat
  | [], d => some d
  | .preReorder :: es, d => scanRe es (d + 1)
  | .postReorder t v n :: es, d =>
    if d = 0 then none else if t = v ∧ v = n then scanRe es (d - 1) else none
  | .resize _ :: es, d => if d = 0 then none else scanRe es d
  | _ :: es, d => scanRe es d

/-! ## 4. `NodeSet` -/

/-- `NodeSet::NODES_PER_PAGE = PAGE_SIZE >> (TAG_BITS + 1)` -/
def nodesPerPage (pageSize tagBits : Nat) : Nat := pageSize >>> (tagBits + 1)

/-- `NodeSet::page_offset` -/
def pageOffset (pageSize tagBits addr : Nat) : Nat × Nat :=
  let nodeId := addr >>> tagBits
  (nodeId / nodesPerPage pageSize tagBits, nodeId % nodesPerPage pageSize tagBits)

/-- `HashMap<usize, FixedBitSet>` as an association list *page ↦ set bits*; `FixedBitSet` as the
list of its set positions -/
structure NodeSet where
  len : Nat
  data : List (Nat × List Nat)
  deriving Repr, DecidableEq, Inhabited

namespace NodeSet

def empty : NodeSet := ⟨0, []⟩

def getPage : List (Nat × List Nat) → Nat → Option (List Nat)
  | [], _ => none
  | (p, bits) :: t, q => if p = q then some bits else getPage t q

def setPage : List (Nat × List Nat) → Nat → List Nat → List (Nat × List Nat)
  | [], _, _ => []
  | (p, bits) :: t, q, b => if p = q then (p, b) :: t else (p, bits) :: setPage t q b

variable (pageSize tagBits : Nat)

/-- `NodeSet::insert` (`k = (page, offset)`) -/
def insert (s : NodeSet) (addr : Nat) : NodeSet × Bool :=
  let k := pageOffset pageSize tagBits addr
  match getPage s.data k.1 with
  | some bits =>
    -- `Entry::Occupied`
    if bits.contains k.2 then (s, false)
    else ({ len := s.len + 1, data := setPage s.data k.1 (k.2 :: bits) }, true)
  | none =>
    -- `Entry::Vacant`
    ({ len := s.len + 1, data := (k.1, [k.2]) :: s.data }, true)

/-- `NodeSet::contains` -/
def contains (s : NodeSet) (addr : Nat) : Bool :=
  let k := pageOffset pageSize tagBits addr
  match getPage s.data k.1 with
  | some bits => bits.contains k.2
  | none => false

/-- `NodeSet::remove` -/
def remove (s : NodeSet) (addr : Nat) : NodeSet × Bool :=
  let k := pageOffset pageSize tagBits addr
  match getPage s.data k.1 with
  | some bits =>
    if bits.contains k.2 then
      ({ len := s.len - 1, data := setPage s.data k.1 (bits.filter (· ≠ k.2)) }, true)
    else (s, false)
  | none => (s, false)

end NodeSet

/-- the abstract node set: the duplicate-free list of (untagged) node addresses, as in
`Bdd/Store.lean` where a store is a duplicate-free list of nodes -/
abbrev AbsSet := List Nat

namespace AbsSet
def contains (s : AbsSet) (n : Nat) : Bool := List.contains s n
def insert (s : AbsSet) (n : Nat) : AbsSet × Bool :=
  if AbsSet.contains s n then (s, false) else (n :: s, true)
def remove (s : AbsSet) (n : Nat) : AbsSet × Bool :=
  if AbsSet.contains s n then (List.filter (· ≠ n) s, true) else (s, false)
end AbsSet

inductive SetOp where
  | insert (addr : Nat)
  | contains (addr : Nat)
  | remove (addr : Nat)
  deriving Repr, DecidableEq, Inhabited

def SetOp.addr : SetOp → Nat
  | .insert a => a
  | .contains a => a
  | .remove a => a

def NodeSet.step (pageSize tagBits : Nat) (s : NodeSet) : SetOp → NodeSet × Bool
  | .insert a => s.insert pageSize tagBits a
  | .contains a => (s, s.contains pageSize tagBits a)
  | .remove a => s.remove pageSize tagBits a

def NodeSet.run (pageSize tagBits : Nat) (s : NodeSet) : List SetOp → NodeSet × List Bool
  | [] => (s, [])
  | o :: os =>
    let (s', b) := s.step pageSize tagBits o
    let (s'', bs) := NodeSet.run pageSize tagBits s' os
    (s'', b :: bs)

/-! ## 5. tag bits of edges and static terminals -/

/-- `p & !mask` for a mask of low bits -/
def andNot (p mask : Nat) : Nat := p - (p &&& mask)

/-- `Edge::ALL_TAG_MASK = (1 << (TAG_BITS + 1)) - 1` -/
def allTagMask (tagBits : Nat) : Nat := (1 <<< (tagBits + 1)) - 1

/-- `Edge::TAG_MASK = (ET::MAX_VALUE + 1).next_power_of_two() - 1` for `ET::MAX_VALUE + 1 = 2^k` -/
def tagMask (k : Nat) : Nat := (1 <<< k) - 1

/-- `Edge::is_inner` -/
def isInner (tagBits addr : Nat) : Bool := addr &&& (1 <<< tagBits) == 0

/-- `Edge::all_untagged_ptr` / `Edge::node_id` -/
def allUntagged (tagBits addr : Nat) : Nat := andNot addr (allTagMask tagBits)

/-- `Edge::retag_ptr` (tag values use `k ≤ TAG_BITS` bits) -/
def retag (k addr tag : Nat) : Nat := andNot addr (tagMask k) ||| tag

/-- `Edge::tag` -/
def edgeTag (k addr : Nat) : Nat := addr &&& tagMask k

/-- `usize::BITS - MAX_VALUE.leading_zeros()` -/
def bitWidth (m : Nat) : Nat := if m = 0 then 0 else m.log2 + 1

/-- `StaticTerminalManager::ALL_BITS` for a terminal type with `MAX_VALUE = maxVal` -/
def allBits (tagBits maxVal : Nat) : Nat := tagBits + 1 + bitWidth maxVal

def allBitsMask (tagBits maxVal : Nat) : Nat := (1 <<< allBits tagBits maxVal) - 1

/-- `StaticTerminalManager::get(this, terminal)`:
`this | (1 << TERMINAL_BIT) | (terminal.as_usize() << VAL_LSB)` -/
def termEncode (tagBits base value : Nat) : Nat :=
  base ||| (1 <<< tagBits) ||| (value <<< (tagBits + 1))

/-- `StaticTerminalManager::deref_edge`: `(edge.addr() & ALL_BITS_MASK) >> VAL_LSB` -/
def termDecode (tagBits maxVal addr : Nat) : Nat :=
  (addr &&& allBitsMask tagBits maxVal) >>> (tagBits + 1)

/-- `StaticTerminalManager::terminal_manager(edge)`: `p & !ALL_BITS_MASK` (from there
`Function::store` finds the `ArcSlab`) -/
def termManager (tagBits maxVal addr : Nat) : Nat := andNot addr (allBitsMask tagBits maxVal)

/-- `StaticTerminalIterator`: starts at `this | 1 << TERMINAL_BIT`, advances by `1 << VAL_LSB`,
`count` items -/
def termIter (tagBits base count : Nat) : List Nat :=
  (List.range count).map fun i => (base ||| (1 <<< tagBits)) + i * (1 <<< (tagBits + 1))

/-- the constants of the `oxidd` crate's pointer-based diagrams -/
def PAGE_SIZE : Nat := 2 * 1024 * 1024
def TAG_BITS : Nat := 2
/-- `#[repr(align(128))] struct StaticTerminalManager` -/
def TM_ALIGN : Nat := 128

end OxiddModel.Pointer
