import OxiddModel.Pointer.Model

/-!
# C20 / pointer manager — the seeded defects as variants of the model

Each definition is the faithful model with exactly the change of one seeded patch
(`/verif/seeded/<id>/patch.diff`). `Properties.lean` proves, next to each headline theorem, that
the corresponding variant violates it on a concrete input (`decide`).
-/
namespace OxiddModel.Pointer.Mutant

open OxiddModel.VarNames OxiddModel.VarNames.VarNameMap OxiddModel.Pointer

/-- `R3-C13-pointer-varlevelmap-extend`: `to_var.extend((0..additional)…)` -/
def extend (m : VarLevelMap) (additional : Nat) : VarLevelMap :=
  let start := m.toLevel.length
  { toLevel := m.toLevel ++ List.range' start additional
    toVar := m.toVar ++ List.range' 0 additional }

/-- `C20-pointer-varlevelmap`: `to_level[l1] = l2; to_level[l2] = l1` -/
def swapLevels (m : VarLevelMap) (l1 l2 : Nat) : VarLevelMap :=
  if l1 ≠ l2 then
    let v1 := m.levelToVar l1
    let v2 := m.levelToVar l2
    { toVar := (m.toVar.set l1 v2).set l2 v1
      toLevel := (m.toLevel.set l1 l2).set l2 l1 }
  else m

/-- `R3-C09-pointer-leveliter-nextback`: the level number is read before the decrement -/
def nextBack (it : LevelIter) : LevelIter × Option View :=
  if it.lo < it.hi then
    let level := it.levelBack
    ({ it with hi := it.hi - 1, levelBack := it.levelBack - 1 }, some ⟨level, it.hi - 1⟩)
  else (it, none)

/-- `R3-C16-pointer-addnamed-zero-vars`: the guard returns early when no variable was added -/
def addNamedVars (g : PMgr) (names : List String) : PMgr × AddRes :=
  let g := g.preReorder
  let len := g.map.len
  let (map', r) := g.map.addNamed names
  let g := { g with map := map' }
  let newLen := g.map.len
  if newLen = len then (g, r)
  else
    let g := g.resize newLen
    let g := { g with vlm := g.vlm.extend (newLen - len) }
    let g := g.postReorder
    (g, r)

/-- `R3-C02-pointer-frommap-hook-order`: the post hooks run before the level table is resized -/
def addNamedVarsFromMap (g : PMgr) (map : VarNameMap) : PMgr × AddRes :=
  if !g.map.isEmpty then
    g.addNamedVars map.intoNames
  else
    let g := g.preReorder
    let n := map.len
    let g := { g with vlm := g.vlm.extend n }
    let g := { g with map := map }
    let g := g.postReorder
    let g := g.resize n
    (g, .ok 0 n)

/-- `R3-C20-pointer-reorder-flag-stuck`: `reorder_gc_prepared` is not reset -/
def reorderEnd (g : PMgr) : Option PMgr :=
  match g.stack with
  | [] => none
  | false :: st => some { g with stack := st }
  | true :: st =>
    let g := g.postReorder
    let g := g.postGc
    some { g with gcCount := g.gcCount + 1, reorderCount := g.reorderCount + 1, stack := st }

/-- `R3-C08-pointer-reorder-no-pregc`: `reorder` without `pre_gc` / `post_gc` -/
def reorderBegin (g : PMgr) : PMgr :=
  if g.prepared then { g with stack := false :: g.stack }
  else
    let g := { g with prepared := true }
    let g := g.preReorder
    { g with stack := true :: g.stack }

/-- `R3-C20-pointer-nodeset-pageoffset`: the page from the full address, the offset unchanged -/
def pageOffset (pageSize tagBits addr : Nat) : Nat × Nat :=
  (addr / pageSize, (addr >>> tagBits) % nodesPerPage pageSize tagBits)

/-- `R3-C11-pointer-static-terminal-decode`: `(addr >> VAL_LSB) & MAX_VALUE` -/
def termDecode (tagBits maxVal addr : Nat) : Nat := (addr >>> (tagBits + 1)) &&& maxVal

end OxiddModel.Pointer.Mutant
