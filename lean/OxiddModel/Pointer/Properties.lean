import OxiddModel.Pointer.LemmasVlm
import OxiddModel.Pointer.LemmasIter
import OxiddModel.Pointer.LemmasMgr
import OxiddModel.Pointer.Mutants
import OxiddModel.VarNames.Properties

/-!
# C20 (C16, C03, C05) — the pointer-based manager's bookkeeping refines the abstract manager

Property C20: *index-based and pointer-based node store … compute the same functions, satisfy the
same structural and reference-count invariants, and agree on node counts of every handle.*

The store-level theorems (`Bdd/PropertiesC20.lean`, `alloc_irrelevant`) already say that results do
not depend on which slot a node lands in. What they take for granted is the *bookkeeping around*
the store, which each manager crate implements on its own: the variable ↔ level maps, the level
iterators, the name map plumbing, the `reorder` / `gc` protocol with its notifications to the
manager data (apply cache, ZBDD tautology chain), and — only in the pointer manager — the
address arithmetic behind `NodeSet` and behind statically allocated terminals. This file proves,
for the model of the pointer manager in `Model.lean`, that each of these components implements
the same abstract behaviour the index-manager models have; next to each theorem the
corresponding seeded defect (`Mutants.lean`) is refuted by a concrete witness.

(The theorems about `NodeSet` and terminal decoding are in `PropertiesBits.lean`.)
-/
namespace OxiddModel.Pointer

open OxiddModel.VarNames OxiddModel.VarNames.VarNameMap

/-! ## 1. `VarLevelMap` -/

/-- **`varLevelMap_refines`.** After *any* sequence of `extend` (any number of batches of any
size, including empty ones) and `swap_levels` calls on existing levels, `to_var` is exactly the
abstract order (level ↦ variable), the two vectors have the manager's length, `level_to_var` and
`var_to_level` are mutually inverse bijections of `0..n`, and `var_to_level v` is the position of
`v` in the order. -/
theorem varLevelMap_refines (ops : List VOp) (hv : validOps 0 ops = true) :
    let m := VarLevelMap.new.run ops
    let o := Order.run [] ops
    m.toVar = o ∧ m.len = o.length ∧ o.Nodup ∧
    (∀ l, l < o.length → m.levelToVar l = o.levelToVar l ∧ m.levelToVar l < o.length ∧
      m.varToLevel (m.levelToVar l) = l) ∧
    (∀ v, v < o.length → m.varToLevel v = o.varToLevel v ∧ m.varToLevel v < o.length ∧
      m.levelToVar (m.varToLevel v) = v) := by
  have h := vrun_inv ops vinv_new hv
  obtain ⟨hi, ho⟩ := h
  have ho' : (VarLevelMap.new.run ops).toVar = Order.run [] ops := ho
  have hlen : (VarLevelMap.new.run ops).len = (Order.run [] ops).length := by
    rw [← ho']; exact hi.len.symm
  refine ⟨ho', hlen, by rw [← ho']; exact hi.nodup, ?_, ?_⟩
  · intro l hl
    rw [← ho'] at hl
    have e := getElem?_of_lt hl l
    have f := hi.fwd _ _ e
    refine ⟨by rw [← ho']; rfl, ?_, ?_⟩
    · rw [← ho', hi.len]; exact getElem?_lt f
    · exact getD_of_getElem? f
  · intro v hv'
    rw [← hlen] at hv'
    have e := getElem?_of_lt hv' v
    have b := hi.bwd _ _ e
    refine ⟨?_, ?_, ?_⟩
    · rw [hi.varToLevel_eq_idxOf hv', ← ho']; rfl
    · rw [← hlen]; exact hi.lvl_lt e
    · exact getD_of_getElem? b

/-- non-vacuity: three batches (one empty) interleaved with a non-involutive sequence of swaps -/
example :
    let ops := [VOp.extend 2, .swap 0 1, .extend 0, .extend 3, .swap 1 2, .swap 2 3, .swap 0 4]
    validOps 0 ops = true ∧
    VarLevelMap.new.run ops = ⟨[3, 4, 1, 2, 0], [4, 2, 3, 0, 1]⟩ ∧
    Order.run [] ops = [4, 2, 3, 0, 1] := by decide

/-- step form: both operations preserve "mutually inverse permutations" -/
theorem varLevelMap_inv_preserved {m : VarLevelMap} (h : VInv m) {o : VOp}
    (hv : o.validAt m.len = true) : VInv (m.step o) ∧ (m.step o).toVar = Order.step m.toVar o :=
  ⟨vstep_inv h hv, vstep_toVar h o⟩

/-- negative witness (`R3-C13-pointer-varlevelmap-extend`): with `to_var` extended by
`0..additional` the second batch maps the new levels to old variables -/
example :
    let m := Mutant.extend (Mutant.extend VarLevelMap.new 2) 2
    m.toVar ≠ Order.run [] [.extend 2, .extend 2] ∧ m.levelToVar 2 = 0 ∧ m.varToLevel 0 = 0 := by
  decide

/-- negative witness (`C20-pointer-varlevelmap`): `to_level` updated at the *levels* instead of at
the variables breaks the inverse after two overlapping swaps -/
example :
    let m := Mutant.swapLevels (Mutant.swapLevels (VarLevelMap.new.extend 3) 0 1) 1 2
    m.toVar = [1, 2, 0] ∧ m.varToLevel (m.levelToVar 0) ≠ 0 := by decide

/-! ## 2. `LevelIter` -/

/-- **`levelIter_spec`.** For a manager with `n` levels and *any* mix of `next` (front) and
`next_back` calls: every yielded view reports the number of the table it locked
(`level_no() =` position in `unique_table`); the reported numbers are exactly the levels that
left the window (so: each level at most once, none twice, and all of them once the window is
empty); `len()` is exact (`remaining + yielded = n`); a call yields `Some` iff `len() > 0`; the
first front call yields level `0`, the first back call level `n - 1`. -/
theorem levelIter_spec (n : Nat) (calls : List Bool) :
    let r := (LevelIter.levels n).run calls
    (∀ v, some v ∈ r.2 → v.level = v.table ∧ v.level < n) ∧
    (LevelIter.yielded r.2).Nodup ∧
    r.1.len + (LevelIter.yielded r.2).length = n ∧
    (∀ l, l ∈ LevelIter.yielded r.2 ↔ (l < n ∧ ¬ (r.1.lo ≤ l ∧ l < r.1.hi))) ∧
    (r.1.len = 0 → ∀ l, l < n → l ∈ LevelIter.yielded r.2) ∧
    r.1.lo ≤ r.1.hi ∧ r.1.hi ≤ n := by
  have h := LevelIter.run_spec calls (LevelIter.levels_inv n)
  obtain ⟨i1, i2, i3, i4, i5, i6, i7, _⟩ := h
  have hlo : (LevelIter.levels n).lo = 0 := rfl
  have hhi : (LevelIter.levels n).hi = n := rfl
  have hlen : (LevelIter.levels n).len = n := rfl
  refine ⟨?_, i6, by rw [i7, hlen], ?_, ?_, i1.le, by rw [← hhi]; exact i3⟩
  · intro v hv
    refine ⟨i4 v hv, ?_⟩
    have : v.level ∈ LevelIter.yielded ((LevelIter.levels n).run calls).2 := by
      simp only [LevelIter.yielded, List.mem_map, List.mem_filterMap]
      exact ⟨v, ⟨some v, hv, rfl⟩, rfl⟩
    have := (i5 _).mp this
    rw [hhi] at this; exact this.2.1
  · intro l
    rw [i5 l, hlo, hhi]
    constructor
    · rintro ⟨_, a, b⟩; exact ⟨a, b⟩
    · rintro ⟨a, b⟩; exact ⟨Nat.zero_le _, a, b⟩
  · intro h0 l hl
    rw [i5 l, hlo, hhi]
    refine ⟨Nat.zero_le _, hl, ?_⟩
    simp only [LevelIter.len] at h0
    omega

/-- a single call: `Some` iff something is left; a front call yields the lowest remaining level, a
back call the highest -/
theorem levelIter_call {it : LevelIter} (h : LevelIter.IInv it) (b : Bool) :
    (it.call b).2.isSome = decide (0 < it.len) ∧
    (∀ v, (it.call b).2 = some v →
      v.level = v.table ∧ v.level = (if b then it.lo else it.hi - 1) ∧ (it.call b).1.len + 1 = it.len) := by
  refine ⟨LevelIter.call_isSome h b, ?_⟩
  intro v hv
  by_cases hlt : it.lo < it.hi
  · obtain ⟨w, hw, h1, _, h3, h4⟩ := LevelIter.call_some h b hlt
    rw [hw] at hv; cases hv
    refine ⟨h1, ?_, h3⟩
    rcases h4 with ⟨e, a, _⟩ | ⟨e, a, _⟩ <;> simp [e, a]
  · rw [LevelIter.call_none b hlt] at hv; cases hv

/-- non-vacuity: mixed iteration over five levels, then exhausted -/
example :
    ((LevelIter.levels 5).run [true, false, false, true, true, false, true]).2 =
      [some ⟨0, 0⟩, some ⟨4, 4⟩, some ⟨3, 3⟩, some ⟨1, 1⟩, some ⟨2, 2⟩, none, none] := by decide

/-- negative witness (`R3-C09-pointer-leveliter-nextback`): reading `level_back` before the
decrement reports level `n` for the last table -/
example : (Mutant.nextBack (LevelIter.levels 3)).2 = some ⟨3, 2⟩ := by decide

/-! ## 3. names and levels: the pointer manager satisfies C16's specification -/

/-- **`names_refine`.** Forgetting what `VarNames.Mgr` does not model (`PMgr.toMgr`: the
permutation is kept only by its length; hooks, flags and counters are dropped), *every* history of
the pointer manager's model — variable API calls interleaved arbitrarily with `gc`, (nested)
`reorder`, level swaps, level collections, `try_remove_node` — is the history of its variable API
calls on the index manager's model, with the same results. Hence everything
`VarNames.Properties` proves for the index manager holds verbatim for the pointer manager:
`num_levels = num_vars = |names| = |var_level_map|`, the name map invariant `Inv`,
`name_to_var` / `var_name` mutually inverse on exactly the named variables, `num_named_vars` exact
(`levels_eq_vars`), and with `Inv` all of `add_named_ok`, `add_named_dup`, `set_var_name_ok`,
`set_var_name_rejected`, `set_var_name_releases`, `history_refines_spec`, `from_map_eq_add_named`. -/
theorem names_refine (cs : List PCall) :
    let r := PMgr.init.run cs
    let a := Mgr.init.run (projCalls cs)
    r.1.toMgr = a.1 ∧ projRes cs r.2 = a.2 ∧
    r.1.numLevels = r.1.map.len ∧ r.1.vlm.len = r.1.map.len ∧ Inv r.1.map ∧
    (∀ n v, r.1.map.nameToVar n = some v ↔ (n ≠ "" ∧ v < r.1.numLevels ∧ r.1.map.varName v = n)) ∧
    r.1.numNamedVars = (r.1.map.names.filter (· ≠ "")).length := by
  have hs := toMgr_run cs PMgr.init
  have hl := levels_eq_vars (projCalls cs)
  have e : PMgr.init.toMgr = Mgr.init := rfl
  rw [e] at hs
  obtain ⟨l1, l2, l3, l4, l5, l6⟩ := hl
  rw [← hs.1] at l1 l2 l3 l4 l5 l6
  exact ⟨hs.1, hs.2, l2, l3, l4, l5, l6⟩

/-- non-vacuity: the history of `levels_eq_vars`'s example, interleaved with a reordering, a
collection and an empty batch; same final variable state and same results -/
example :
    let cs : List PCall := [.addNamedVarsFromMap [.addNamed ["a", ""]], .gc, .reorderBegin,
      .swap 0 1, .reorderEnd, .addNamedVars ["b", "a", "c"], .addNamedVars [],
      .addNamedVarsFromMap [.addNamed ["d", "b"]], .setVarName 1 "a", .addVars 2]
    (PMgr.init.run cs).1.toMgr =
      ⟨6, 6, ⟨["a", "", "b", "d", "", ""], [("d", 3), ("b", 2), ("a", 0)]⟩⟩ ∧
    projRes cs (PMgr.init.run cs).2 =
      [.add (.ok 0 2), .add (.dup "a" 0 2 3), .add (.ok 3 3), .add (.dup "b" 2 3 4),
        .set (.dup "a" 0 4 4), .add (.ok 4 6)] ∧
    (PMgr.init.run cs).1.vlm = ⟨[1, 0, 2, 3, 4, 5], [1, 0, 2, 3, 4, 5]⟩ := by decide

/-- step form of the simulation -/
theorem names_refine_step (g : PMgr) (c : PCall) :
    match c.toMCall with
    | some mc => (g.step c).1.toMgr = (g.toMgr.step mc).1 ∧ (g.step c).2.toRes = (g.toMgr.step mc).2
    | none => (g.step c).1.toMgr = g.toMgr := toMgr_step g c

/-- **the manager's order is a permutation of its variables after every history** (C03/C16 "level
bookkeeping": `level_to_var ∘ var_to_level = id` on `0..num_levels` and vice versa), for every
history whose swaps address existing levels. -/
theorem mgr_order_bijection (cs : List PCall) (hok : okCalls PMgr.init cs) :
    let g := (PMgr.init.run cs).1
    g.vlm.len = g.numLevels ∧ g.vlm.toVar.length = g.numLevels ∧ g.vlm.toVar.Nodup ∧
    (∀ l, l < g.numLevels → g.vlm.levelToVar l < g.numLevels ∧
      g.vlm.varToLevel (g.vlm.levelToVar l) = l) ∧
    (∀ v, v < g.numLevels → g.vlm.varToLevel v < g.numLevels ∧
      g.vlm.levelToVar (g.vlm.varToLevel v) = v) := by
  have h := prun_inv cs pinv_init hok
  have hl : (PMgr.init.run cs).1.vlm.len = (PMgr.init.run cs).1.tables := by
    rw [h.vlm_eq, h.tables_eq]
  have hi := h.vinv
  refine ⟨hl, by rw [hi.len]; exact hl, hi.nodup, ?_, ?_⟩
  · intro l hlt
    have hlt' : l < (PMgr.init.run cs).1.vlm.toVar.length := by
      rw [hi.len]; show l < (PMgr.init.run cs).1.vlm.len; rw [hl]; exact hlt
    have e := getElem?_of_lt hlt' l
    have f := hi.fwd _ _ e
    refine ⟨?_, getD_of_getElem? f⟩
    have := getElem?_lt f
    show _ < (PMgr.init.run cs).1.tables
    rw [← hl]; exact this
  · intro v hlt
    have hlt' : v < (PMgr.init.run cs).1.vlm.toLevel.length := by
      show v < (PMgr.init.run cs).1.vlm.len; rw [hl]; exact hlt
    have e := getElem?_of_lt hlt' v
    have b := hi.bwd _ _ e
    refine ⟨?_, getD_of_getElem? b⟩
    have := hi.lvl_lt e
    show _ < (PMgr.init.run cs).1.tables
    rw [← hl]; exact this

example : okCalls PMgr.init [.addVars 3, .reorderBegin, .swap 0 1, .swap 1 2, .reorderEnd] := by
  decide

/-! ## 4. hooks, flags, counters -/

/-- reading of `scanGc`: wherever a node removal occurs in a log that scans, a `pre_gc` is open -/
theorem scanGc_remove_open {log : List Ev} {o : Bool} (h : scanGc log false = some o)
    {a b : List Ev} (hs : log = a ++ Ev.remove :: b) : scanGc a false = some true := by
  rw [hs, scanGc_append] at h
  cases ha : scanGc a false with
  | none => rw [ha] at h; cases h
  | some x =>
    rw [ha] at h
    cases x with
    | true => rfl
    | false => simp [scanGc] at h

/-- reading of `scanRe`: wherever `post_reorder` occurs in a log that scans, the subscriber sees
the level table, the var/level map and the name map at the same size, and the notification closes
an open `pre_reorder` -/
theorem scanRe_post_sizes {log : List Ev} {d : Nat} (h : scanRe log 0 = some d)
    {a b : List Ev} {t v n : Nat} (hs : log = a ++ Ev.postReorder t v n :: b) :
    t = v ∧ v = n ∧ ∃ d', scanRe a 0 = some (d' + 1) := by
  rw [hs, scanRe_append] at h
  cases ha : scanRe a 0 with
  | none => rw [ha] at h; cases h
  | some x =>
    rw [ha] at h
    simp only [Option.bind_some, scanRe] at h
    split at h
    · cases h
    · next hx =>
      split at h
      · next hh => exact ⟨hh.1, hh.2, x - 1, by congr 1; omega⟩
      · cases h

/-- reading of `scanRe`: the number of levels only changes between `pre_reorder` and
`post_reorder` -/
theorem scanRe_resize_inside {log : List Ev} {d : Nat} (h : scanRe log 0 = some d)
    {a b : List Ev} {n : Nat} (hs : log = a ++ Ev.resize n :: b) :
    ∃ d', scanRe a 0 = some (d' + 1) := by
  rw [hs, scanRe_append] at h
  cases ha : scanRe a 0 with
  | none => rw [ha] at h; cases h
  | some x =>
    rw [ha] at h
    simp only [Option.bind_some, scanRe] at h
    split at h
    · cases h
    · exact ⟨x - 1, by congr 1; omega⟩

/-- **`hooks_order`.** After every history (any interleaving of variable additions — also of zero
variables and rejected ones —, renames, collections, nested reorderings, swaps, level collections,
`try_remove_node`):

* the whole notification log scans: `pre_gc`/`post_gc` alternate (never two `pre_gc` in a row),
  every removal of nodes lies between a `pre_gc` and its `post_gc`
  (`scanGc_remove_open`), every change of the number of levels lies between `pre_reorder` and
  `post_reorder` (`scanRe_resize_inside`), and every `post_reorder` sees the level table already
  resized: tables, var/level map and names have the same length at that moment
  (`scanRe_post_sizes`);
* `reorder_gc_prepared` is set exactly while an invocation of `reorder` is active — in particular
  it is `false` again after every outermost `reorder`;
* outside a reordering the manager data was last notified with the current number of levels (the
  ZBDD tautology chain is as long as the manager has levels) and no bracket is open. -/
theorem hooks_order (cs : List PCall) (hok : okCalls PMgr.init cs) :
    let g := (PMgr.init.run cs).1
    scanGc g.log false = some g.prepared ∧
    scanRe g.log 0 = some (if g.prepared then 1 else 0) ∧
    (g.prepared = false ↔ g.stack = []) ∧
    (g.prepared = false → g.chain = some g.numLevels) ∧
    g.gcOngoing = false := by
  have h := prun_inv cs pinv_init hok
  refine ⟨h.sgc, h.sre, ?_, h.chain, h.gcFree⟩
  constructor
  · intro hp
    rcases h.stack with ⟨hs, _⟩ | ⟨_, _, hq⟩
    · exact hs
    · rw [hp] at hq; cases hq
  · intro hs
    rcases h.stack with ⟨_, hp⟩ | ⟨k, hk, _⟩
    · exact hp
    · rw [hs] at hk; cases k <;> simp [List.replicate_succ] at hk

/-- **every entry point that changes the number of levels** (`add_vars`, `add_named_vars`,
`add_named_vars_from_map`, from any consistent state, for any argument — zero variables, an empty
map, a batch rejected at its first name) makes exactly this stretch of notifications:
`pre_reorder`, *then* the resize of the level table to the final number of levels `n`, *then*
`post_reorder` with all three sizes equal to `n`; afterwards the manager data has seen `n`
levels. -/
theorem level_change_hooks {g : PMgr} (h : PInv g) (c : PCall)
    (hc : (∃ k, c = .addVars k) ∨ (∃ l, c = .addNamedVars l) ∨ (∃ b, c = .addNamedVarsFromMap b)) :
    ∃ n, (g.step c).1.log = g.log ++ [.preReorder, .resize n, .postReorder n n n] ∧
      (g.step c).1.numLevels = n ∧ (g.step c).1.vlm.len = n ∧ (g.step c).1.map.len = n ∧
      (g.step c).1.chain = some n ∧ PInv (g.step c).1 := by
  obtain ⟨n, h1, h2, h3, h4⟩ := levelChange_log h c hc
  refine ⟨n, h1, h2, h3, h4, ?_, levelChange_inv h c hc⟩
  rw [← h2]
  rcases hc with ⟨k, rfl⟩ | ⟨l, rfl⟩ | ⟨b, rfl⟩
  · exact addVars_chain g k
  · exact addNamedVars_chain g l
  · exact fromMap_chain g _

/-- non-vacuity: zero variables through each of the three entry points (empty batch, batch
rejected at its first name, empty map into a non-empty manager, `add_vars(0)`) -/
example :
    let g := (PMgr.init.run [.addNamedVars ["a", "b"]]).1
    (g.step (.addNamedVars [])).1.log = g.log ++ [.preReorder, .resize 2, .postReorder 2 2 2] ∧
    (g.step (.addNamedVars ["a", "c"])).1.log = g.log ++ [.preReorder, .resize 2, .postReorder 2 2 2] ∧
    (g.step (.addNamedVars ["a", "c"])).2 = .add (.dup "a" 0 2 2) ∧
    (g.step (.addNamedVarsFromMap [])).1.log = g.log ++ [.preReorder, .resize 2, .postReorder 2 2 2] ∧
    (g.step (.addVars 0)).1.log = g.log ++ [.preReorder, .resize 2, .postReorder 2 2 2] ∧
    (PMgr.init.step (.addNamedVarsFromMap [.addNamed ["x", "", "y"]])).1.log =
      [.preReorder, .resize 3, .postReorder 3 3 3] := by decide

/-- negative witness (`R3-C16-pointer-addnamed-zero-vars`): with the early return the stretch has
no `post_reorder`; the log no longer scans to depth 0 and the manager data stays torn down -/
example :
    let g := (PMgr.init.run [.addNamedVars ["a", "b"]]).1
    let g' := (Mutant.addNamedVars g ["a", "c"]).1
    g'.log = g.log ++ [.preReorder] ∧ scanRe g'.log 0 = some 1 ∧ g'.chain = none ∧
    g'.prepared = false := by decide

/-- negative witness (`R3-C02-pointer-frommap-hook-order`): the subscriber is notified while the
level table still has 0 entries -/
example :
    let g' := (Mutant.addNamedVarsFromMap PMgr.init (VarNameMap.new.addNamed ["x", "y", "z"]).1).1
    g'.log = [.preReorder, .postReorder 0 3 3, .resize 3] ∧ scanRe g'.log 0 = none ∧
    g'.chain = some 0 ∧ g'.numLevels = 3 := by decide

/-- **`reorder` restores the flag**: the exit of the outermost invocation notifies
`post_reorder` (sizes equal), clears `reorder_gc_prepared`, *then* notifies `post_gc`, and
increments both counters; the exit of a nested invocation changes nothing. -/
theorem reorder_end_spec {g g' : PMgr} (h : PInv g) (he : g.reorderEnd = some g') :
    PInv g' ∧
    ((g.stack = [true] ∧ g'.prepared = false ∧ g'.stack = [] ∧
        g'.log = g.log ++ [.postReorder g.numLevels g.numLevels g.numLevels, .postGc] ∧
        g'.gcCount = g.gcCount + 1 ∧ g'.reorderCount = g.reorderCount + 1 ∧
        g'.chain = some g.numLevels) ∨
     (∃ st, g.stack = false :: st ∧ g' = { g with stack := st })) := by
  refine ⟨reorderEnd_inv h he, ?_⟩
  unfold PMgr.reorderEnd at he
  split at he
  · cases he
  · next st hst => cases he; exact Or.inr ⟨st, hst, rfl⟩
  · next st hst =>
    cases he
    left
    have hst' : st = [] := by
      rcases h.stack with ⟨hs, _⟩ | ⟨k, hs, _⟩
      · rw [hs] at hst; cases hst
      · cases k with
        | zero => rw [hs] at hst; simp at hst; exact hst
        | succ k => rw [hs] at hst; simp [List.replicate_succ] at hst
    have hv := h.vlm_eq
    have ht := h.tables_eq
    refine ⟨by rw [hst, hst'], rfl, hst', ?_, rfl, rfl, rfl⟩
    show g.log ++ [Ev.postReorder g.tables g.vlm.len g.map.len] ++ [Ev.postGc] = _
    rw [hv, ← ht, List.append_assoc]; rfl

/-- the entry of `reorder`: `pre_gc` first, then the flag, then `pre_reorder` (outermost), nothing
at all for a nested invocation -/
theorem reorder_begin_spec (g : PMgr) :
    (g.prepared = false → g.reorderBegin.log = g.log ++ [.preGc, .preReorder] ∧
      g.reorderBegin.prepared = true ∧ g.reorderBegin.stack = true :: g.stack) ∧
    (g.prepared = true → g.reorderBegin.log = g.log ∧ g.reorderBegin.prepared = true ∧
      g.reorderBegin.stack = false :: g.stack) := by
  obtain ⟨ft, ff, _⟩ := reorderBegin_fields g
  exact ⟨fun hp => let ⟨a, b, c, _⟩ := ff hp; ⟨a, c, b⟩, fun hp => let ⟨a, b, c, _⟩ := ft hp; ⟨a, c, b⟩⟩

/-- non-vacuity: a reordering with a nested `reorder`, a collection and a level collection
inside -/
example :
    (PMgr.init.run [.addVars 2, .reorderBegin, .reorderBegin, .swap 0 1, .gc, .reorderEnd,
      .levelGc 0, .reorderEnd, .gc, .levelGc 0]) =
    ({ tables := 2, vlm := ⟨[1, 0], [1, 0]⟩, map := ⟨["", ""], []⟩, gcCount := 3, reorderCount := 1,
       gcOngoing := false, prepared := false, stack := [], chain := some 2,
       log := [.preReorder, .resize 2, .postReorder 2 2 2, .preGc, .preReorder, .swap 0 1, .remove,
         .remove, .postReorder 2 2 2, .postGc, .preGc, .remove, .postGc] },
     [.add (.ok 0 2), .unit, .unit, .unit, .flag true, .unit, .flag true, .unit, .flag true,
       .flag false]) := by decide

/-- negative witness (`R3-C20-pointer-reorder-flag-stuck`): the flag survives the reordering, so a
later `LevelView::gc` outside any `pre_gc` removes nodes -/
example :
    let g := (PMgr.init.run [.addVars 2, .reorderBegin]).1
    let g' := (Mutant.reorderEnd g).getD g
    g'.stack = [] ∧ g'.prepared = true ∧ (g'.levelGc 0).2 = true ∧
    scanGc (g'.levelGc 0).1.log false = none := by decide

/-- negative witness (`R3-C08-pointer-reorder-no-pregc`): removals inside the reordering are not
bracketed by `pre_gc` -/
example :
    let g := Mutant.reorderBegin (PMgr.init.run [.addVars 2]).1
    g.prepared = true ∧ (g.levelGc 0).2 = true ∧ scanGc (g.levelGc 0).1.log false = none := by
  decide

/-- **`counters_spec`.** `gc_count` = number of `gc` calls + number of completed outermost
reorderings, `reorder_count` = number of completed outermost reorderings (nested invocations do
not count) — the same formula as the index manager's. -/
theorem counters_spec (cs : List PCall) (hok : okCalls PMgr.init cs) :
    (PMgr.init.run cs).1.gcCount = countGc PMgr.init cs + countOuterEnd PMgr.init cs ∧
    (PMgr.init.run cs).1.reorderCount = countOuterEnd PMgr.init cs := by
  have := run_counters cs pinv_init hok
  simpa [PMgr.init] using this

example :
    let cs : List PCall := [.addVars 2, .gc, .reorderBegin, .reorderBegin, .gc, .reorderEnd,
      .reorderEnd, .reorderEnd, .gc]
    countGc PMgr.init cs = 3 ∧ countOuterEnd PMgr.init cs = 1 ∧
    (PMgr.init.run cs).1.gcCount = 4 ∧ (PMgr.init.run cs).1.reorderCount = 1 := by decide

/-- **`try_remove_node` removes only inside a prepared collection**: it returns `true` exactly
when the edge points to an inner node, the count before the decrement was 2 (handle + unique
table), `reorder_gc_prepared` is set, the level exists, the count re-read under the level lock is
1 and the node is found in the table; otherwise nothing is logged. `LevelView::gc` collects iff
the flag is set. -/
theorem try_remove_node_spec (g : PMgr) (i : Bool) (o : Nat) (lo : Bool) (r : Nat) (f : Bool) :
    ((g.tryRemoveNode i o lo r f).2 = true ↔
      (i = true ∧ o = 2 ∧ g.prepared = true ∧ lo = true ∧ r = 1 ∧ f = true)) ∧
    ((g.tryRemoveNode i o lo r f).2 = false → (g.tryRemoveNode i o lo r f).1 = g) ∧
    ((g.levelGc 0).2 = g.prepared) := by
  refine ⟨?_, ?_, ?_⟩
  · unfold PMgr.tryRemoveNode
    cases i <;> cases lo <;> cases f <;> cases g.prepared <;>
      by_cases h2 : o = 2 <;> by_cases h1 : r = 1 <;> simp [h2, h1]
  · unfold PMgr.tryRemoveNode
    cases i <;> cases lo <;> cases f <;> cases g.prepared <;>
      by_cases h2 : o = 2 <;> by_cases h1 : r = 1 <;> simp [h2, h1]
  · unfold PMgr.levelGc
    cases g.prepared <;> simp

end OxiddModel.Pointer
