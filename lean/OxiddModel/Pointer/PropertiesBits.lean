import OxiddModel.Pointer.Model
import OxiddModel.Pointer.Mutants

/-!
# C20 — the pointer manager's address arithmetic: `NodeSet` and static terminals

* `nodeSet_injective`: `NodeSet::page_offset` maps two edges to the same (page, bit) pair iff they
  address the same node (equal up to the `TAG_BITS` low tag bits); the bit index is below the
  capacity of the page's bit set. With the constants of the `oxidd` crate
  (`PAGE_SIZE = 2 MiB`, `TAG_BITS = 2`): `nodeSet_injective_real`.
* `nodeSet_refines`: for every sequence of `insert` / `contains` / `remove` calls the pointer
  manager's `NodeSet` returns what the abstract set of node ids returns and `len()` is the number
  of nodes in it — the behaviour of the index manager's single bit set.
* `terminal_decode_spec`: for *every* number of terminals `n = maxVal + 1` (not only powers of
  two), every edge tag and every suitably aligned terminal manager, `deref_edge(get(i)) = i`; the
  edge is recognised as a terminal edge and `terminal_manager(edge)` recovers the manager's
  address (from which `Function` finds its store).
-/
namespace OxiddModel.Pointer

/-! ## arithmetic behind the bit operations -/

theorem or_eq_add_of_dvd {a x i : Nat} (ha : a % 2 ^ i = 0) (hx : x < 2 ^ i) : a ||| x = a + x := by
  have e : a = 2 ^ i * (a / 2 ^ i) := by
    have := Nat.div_add_mod a (2 ^ i)
    omega
  rw [e, ← Nat.two_pow_add_eq_or_of_lt hx]

theorem one_shl (t : Nat) : 1 <<< t = 2 ^ t := by rw [Nat.shiftLeft_eq, Nat.one_mul]

theorem andNot_of_dvd {a k : Nat} (ha : a % 2 ^ k = 0) : andNot a (tagMask k) = a := by
  unfold andNot tagMask
  rw [one_shl, Nat.and_two_pow_sub_one_eq_mod, ha, Nat.sub_zero]

theorem pow_dvd_mod_zero {a i k : Nat} (hk : k ≤ i) (ha : a % 2 ^ i = 0) : a % 2 ^ k = 0 := by
  have h1 : 2 ^ k ∣ 2 ^ i := Nat.pow_dvd_pow 2 hk
  have h2 : 2 ^ i ∣ a := Nat.dvd_of_mod_eq_zero ha
  exact Nat.mod_eq_zero_of_dvd (Nat.dvd_trans h1 h2)

/-- the value part and the terminal bit, as a number below `2^ALL_BITS` -/
def termLow (tagBits value : Nat) : Nat := 2 ^ tagBits + value * 2 ^ (tagBits + 1)

theorem bitWidth_spec (m : Nat) : m < 2 ^ bitWidth m := by
  unfold bitWidth
  split
  · next h => subst h; decide
  · exact Nat.lt_log2_self

theorem termLow_lt {tagBits maxVal value tag : Nat} (hv : value ≤ maxVal) (ht : tag < 2 ^ tagBits) :
    termLow tagBits value + tag < 2 ^ allBits tagBits maxVal := by
  unfold termLow allBits
  have hw := bitWidth_spec maxVal
  have hv' : value + 1 ≤ 2 ^ bitWidth maxVal := by omega
  have e : 2 ^ (tagBits + 1 + bitWidth maxVal) = 2 ^ (tagBits + 1) * 2 ^ bitWidth maxVal := by
    rw [Nat.pow_add]
  have h2 : 2 ^ (tagBits + 1) = 2 * 2 ^ tagBits := by rw [Nat.pow_succ]; omega
  have hm : (value + 1) * 2 ^ (tagBits + 1) ≤ 2 ^ bitWidth maxVal * 2 ^ (tagBits + 1) :=
    Nat.mul_le_mul_right _ hv'
  rw [e, Nat.mul_comm (2 ^ (tagBits + 1))]
  rw [Nat.add_mul] at hm
  omega

theorem termLow_mod_tag {tagBits value k : Nat} (hk : k ≤ tagBits) :
    termLow tagBits value % 2 ^ k = 0 := by
  unfold termLow
  have h1 : 2 ^ k ∣ 2 ^ tagBits := Nat.pow_dvd_pow 2 hk
  have h2 : 2 ^ k ∣ value * 2 ^ (tagBits + 1) :=
    Nat.dvd_trans (Nat.pow_dvd_pow 2 (by omega)) (Nat.dvd_mul_left _ _)
  exact Nat.mod_eq_zero_of_dvd (Nat.dvd_add h1 h2)

/-- `get`: the three parts occupy disjoint bits, so `|` is `+` -/
theorem termEncode_eq {tagBits maxVal base value : Nat}
    (hb : base % 2 ^ allBits tagBits maxVal = 0) (hv : value ≤ maxVal) :
    termEncode tagBits base value = base + termLow tagBits value := by
  unfold termEncode
  rw [Nat.or_assoc]
  have e : (1 <<< tagBits ||| value <<< (tagBits + 1)) = termLow tagBits value := by
    rw [Nat.or_comm, one_shl, ← Nat.shiftLeft_add_eq_or_of_lt (b := 2 ^ tagBits) (i := tagBits + 1)
        (by rw [Nat.pow_succ]; have := Nat.two_pow_pos tagBits; omega) value,
      Nat.shiftLeft_eq]
    unfold termLow; omega
  rw [e]
  have := termLow_lt (tag := 0) hv (Nat.two_pow_pos tagBits)
  exact or_eq_add_of_dvd hb (by omega)

/-- retagging a terminal edge adds the tag -/
theorem retag_term {tagBits maxVal base value k tag : Nat}
    (hb : base % 2 ^ allBits tagBits maxVal = 0) (hv : value ≤ maxVal) (hk : k ≤ tagBits)
    (ht : tag < 2 ^ k) :
    retag k (termEncode tagBits base value) tag = base + termLow tagBits value + tag := by
  rw [termEncode_eq hb hv]
  have hA : k ≤ allBits tagBits maxVal := by unfold allBits; omega
  have h0 : (base + termLow tagBits value) % 2 ^ k = 0 := by
    have a := pow_dvd_mod_zero hA hb
    have b := termLow_mod_tag (value := value) hk
    rw [Nat.add_mod, a, b]; simp
  unfold retag
  rw [andNot_of_dvd h0]
  exact or_eq_add_of_dvd h0 ht

theorem mod_of_base {base x A : Nat} (hb : base % 2 ^ A = 0) (hx : x < 2 ^ A) :
    (base + x) % 2 ^ A = x := by
  rw [Nat.add_mod, hb, Nat.zero_add, Nat.mod_mod, Nat.mod_eq_of_lt hx]

/-! ## static terminals -/

/-- **`terminal_decode_spec`.** Let the terminal type have values `0..=maxVal` (any `maxVal`: 0 for
BCDD, 1 for BDD / ZBDD, 2 for TDD, …), let the terminal manager's address `base` be aligned to
`2^ALL_BITS` (the compile-time assertion `ASSERT_SUFFICIENT_ALIGN` with `#[repr(align(128))]`),
and let the edge carry any tag of `k ≤ TAG_BITS` bits. Then for the edge
`e = get(base, value)` retagged with `tag`:
`deref_edge(e) = value`, `e` is not an inner-node edge, `tag(e) = tag`, and
`terminal_manager(e) = base`. -/
theorem terminal_decode_spec {tagBits maxVal base value k tag : Nat}
    (hb : base % 2 ^ allBits tagBits maxVal = 0) (hv : value ≤ maxVal) (hk : k ≤ tagBits)
    (ht : tag < 2 ^ k) :
    let e := retag k (termEncode tagBits base value) tag
    termDecode tagBits maxVal e = value ∧ isInner tagBits e = false ∧ edgeTag k e = tag ∧
    termManager tagBits maxVal e = base := by
  have he := retag_term hb hv hk ht
  have ht' : tag < 2 ^ tagBits := Nat.lt_of_lt_of_le ht (Nat.pow_le_pow_right (by omega) hk)
  have hlt := termLow_lt hv ht'
  have hmod : (base + termLow tagBits value + tag) % 2 ^ allBits tagBits maxVal =
      termLow tagBits value + tag := by
    rw [Nat.add_assoc]; exact mod_of_base hb hlt
  have h2 : 2 ^ (tagBits + 1) = 2 * 2 ^ tagBits := by rw [Nat.pow_succ]; omega
  have hpos := Nat.two_pow_pos tagBits
  dsimp only
  rw [he]
  refine ⟨?_, ?_, ?_, ?_⟩
  · unfold termDecode allBitsMask
    rw [one_shl, Nat.and_two_pow_sub_one_eq_mod, hmod, Nat.shiftRight_eq_div_pow]
    unfold termLow
    have : 2 ^ tagBits + value * 2 ^ (tagBits + 1) + tag =
        (2 ^ tagBits + tag) + value * 2 ^ (tagBits + 1) := by omega
    rw [this, Nat.add_mul_div_right _ _ (Nat.two_pow_pos _), Nat.div_eq_of_lt (by omega)]
    omega
  · unfold isInner
    rw [one_shl]
    have hbit : (base + termLow tagBits value + tag).testBit tagBits = true := by
      rw [Nat.testBit_eq_decide_div_mod_eq]
      have hbase : base = 2 ^ tagBits * (2 * (base / 2 ^ (tagBits + 1))) := by
        have hd : base % 2 ^ (tagBits + 1) = 0 :=
          pow_dvd_mod_zero (by unfold allBits; omega) hb
        have := Nat.div_add_mod base (2 ^ (tagBits + 1))
        rw [hd, h2] at this
        rw [h2, ← Nat.mul_assoc, Nat.mul_comm (2 ^ tagBits) 2]
        omega
      generalize base / 2 ^ (tagBits + 1) = q at hbase
      have : base + termLow tagBits value + tag =
          tag + 2 ^ tagBits * (2 * q + 1 + 2 * value) := by
        unfold termLow
        rw [h2, Nat.mul_add, Nat.mul_add, ← hbase, Nat.mul_one,
          show 2 ^ tagBits * (2 * value) = value * (2 * 2 ^ tagBits) by
            rw [Nat.mul_comm value, Nat.mul_comm 2 (2 ^ tagBits), Nat.mul_assoc,
              Nat.mul_comm 2 value]]
        omega
      rw [this, Nat.add_mul_div_left _ _ hpos, Nat.div_eq_of_lt ht']
      simp only [Nat.zero_add, decide_eq_true_eq]
      omega
    cases hz : ((base + termLow tagBits value + tag) &&& 2 ^ tagBits == 0) with
    | false => rfl
    | true =>
      have hz' : (base + termLow tagBits value + tag) &&& 2 ^ tagBits = 0 := by simpa using hz
      have := congrArg (fun x => Nat.testBit x tagBits) hz'
      simp [Nat.testBit_and, Nat.testBit_two_pow_self, hbit] at this
  · unfold edgeTag tagMask
    rw [one_shl, Nat.and_two_pow_sub_one_eq_mod]
    have h0 : (base + termLow tagBits value) % 2 ^ k = 0 := by
      have a := pow_dvd_mod_zero (show k ≤ allBits tagBits maxVal by unfold allBits; omega) hb
      have b := termLow_mod_tag (value := value) hk
      rw [Nat.add_mod, a, b]; simp
    rw [Nat.add_mod, h0, Nat.zero_add, Nat.mod_mod, Nat.mod_eq_of_lt ht]
  · unfold termManager andNot allBitsMask
    rw [one_shl, Nat.and_two_pow_sub_one_eq_mod, hmod]
    omega

/-- with the crate's constants (`TAG_BITS = 2`, alignment 128): up to 16 terminal values fit, in
particular the **three** of a TDD manager -/
theorem terminal_decode_real {n base value tag : Nat} (hn : 1 ≤ n ∧ n ≤ 16)
    (hb : base % TM_ALIGN = 0) (hv : value < n) (ht : tag < 4) :
    termDecode TAG_BITS (n - 1) (retag 2 (termEncode TAG_BITS base value) tag) = value := by
  have hA : allBits TAG_BITS (n - 1) ≤ 7 := by
    unfold allBits bitWidth TAG_BITS
    split
    · omega
    · have : (n - 1).log2 < 4 := by
        rw [Nat.log2_lt (by omega)]; omega
      omega
  have hb' : base % 2 ^ allBits TAG_BITS (n - 1) = 0 :=
    pow_dvd_mod_zero hA (by simpa [TM_ALIGN] using hb)
  exact (terminal_decode_spec (k := 2) hb' (by omega) (by decide) (by simpa using ht)).1

/-- non-vacuity: the three terminals of a TDD manager at a 128-aligned address, with the
complement-style tag 1; the iterator visits the same edges as `get` -/
example :
    (List.range 3).map (fun v => termDecode 2 2 (retag 1 (termEncode 2 (128 * 77) v) 1)) = [0, 1, 2] ∧
    termIter 2 (128 * 77) 3 = (List.range 3).map (termEncode 2 (128 * 77)) ∧
    allBits 2 2 = 5 ∧ allBits 2 0 = 3 := by decide

/-- negative witness (`R3-C11-pointer-static-terminal-decode`): masking the shifted address with
`MAX_VALUE = 2 = 0b10` decodes terminal 1 (`Unknown`) of a TDD manager as 0 (`False`) -/
example :
    Mutant.termDecode 2 2 (termEncode 2 (128 * 77) 1) = 0 ∧
    termDecode 2 2 (termEncode 2 (128 * 77) 1) = 1 ∧
    -- for a power-of-two number of terminals the defect is invisible
    (List.range 2).map (fun v => Mutant.termDecode 2 1 (termEncode 2 (128 * 77) v)) = [0, 1] := by
  decide

/-! ## `NodeSet`: the key function -/

/-- **`nodeSet_injective`.** Whenever a page holds at least one node
(`NODES_PER_PAGE = PAGE_SIZE >> (TAG_BITS+1) > 0`): two edges get the same (page, bit) pair iff
their addresses agree above the `TAG_BITS` tag bits, i.e. iff they address the same node (inner
or terminal) — no two distinct nodes share a bit, and the tag never matters; and the bit index is
within the page's `FixedBitSet::with_capacity(NODES_PER_PAGE)`. -/
theorem nodeSet_injective {pageSize tagBits : Nat} (hp : 0 < nodesPerPage pageSize tagBits)
    (a b : Nat) :
    (pageOffset pageSize tagBits a = pageOffset pageSize tagBits b ↔ a >>> tagBits = b >>> tagBits) ∧
    (pageOffset pageSize tagBits a).2 < nodesPerPage pageSize tagBits := by
  unfold pageOffset
  refine ⟨⟨?_, ?_⟩, Nat.mod_lt _ hp⟩
  · intro h
    have h1 := congrArg Prod.fst h
    have h2 := congrArg Prod.snd h
    dsimp only at h1 h2
    have ea := Nat.div_add_mod (a >>> tagBits) (nodesPerPage pageSize tagBits)
    have eb := Nat.div_add_mod (b >>> tagBits) (nodesPerPage pageSize tagBits)
    rw [h1, h2] at ea
    omega
  · intro h; rw [h]

/-- the node an edge addresses: the address without its `TAG_BITS` low bits -/
def nodeOf (tagBits addr : Nat) : Nat := addr >>> tagBits

/-- a tagged edge of an aligned node addresses that node -/
theorem nodeOf_tagged {tagBits node tag : Nat} (hn : node % 2 ^ tagBits = 0)
    (ht : tag < 2 ^ tagBits) : nodeOf tagBits (node + tag) = node / 2 ^ tagBits := by
  unfold nodeOf
  rw [Nat.shiftRight_eq_div_pow]
  have e : node = 2 ^ tagBits * (node / 2 ^ tagBits) := by
    have := Nat.div_add_mod node (2 ^ tagBits); omega
  have h2 : node + tag = tag + 2 ^ tagBits * (node / 2 ^ tagBits) := by omega
  rw [h2, Nat.add_mul_div_left _ _ (Nat.two_pow_pos _), Nat.div_eq_of_lt ht, Nat.zero_add]

/-- **with the real constants** (`PAGE_SIZE = 2 MiB`, `TAG_BITS = 2`, nodes aligned to
`2^(TAG_BITS+1) = 8` bytes): two tagged edges hit the same bit iff they point to the same node;
the bit index is below `2^18`. -/
theorem nodeSet_injective_real {na nb ta tb : Nat} (ha : na % 8 = 0) (hb : nb % 8 = 0)
    (hta : ta < 4) (htb : tb < 4) :
    (pageOffset PAGE_SIZE TAG_BITS (na + ta) = pageOffset PAGE_SIZE TAG_BITS (nb + tb) ↔ na = nb) ∧
    (pageOffset PAGE_SIZE TAG_BITS (na + ta)).2 < 262144 := by
  have hp : 0 < nodesPerPage PAGE_SIZE TAG_BITS := by decide
  have h := nodeSet_injective hp (na + ta) (nb + tb)
  have e : nodesPerPage PAGE_SIZE TAG_BITS = 262144 := by decide
  rw [e] at h
  refine ⟨?_, h.2⟩
  rw [h.1]
  show (na + ta) >>> 2 = (nb + tb) >>> 2 ↔ na = nb
  rw [Nat.shiftRight_eq_div_pow, Nat.shiftRight_eq_div_pow]
  omega

/-- non-vacuity: the first two slots of a page (16-byte header, 32-byte BDD nodes), the node in
the other half of the same 2 MiB page, and a static terminal edge -/
example :
    let base := PAGE_SIZE * 5
    pageOffset PAGE_SIZE TAG_BITS (base + 16) = (10, 4) ∧
    pageOffset PAGE_SIZE TAG_BITS (base + 16 + 1) = (10, 4) ∧
    pageOffset PAGE_SIZE TAG_BITS (base + 48) = (10, 12) ∧
    pageOffset PAGE_SIZE TAG_BITS (base + 16 + 1048576) = (11, 4) ∧
    pageOffset PAGE_SIZE TAG_BITS (termEncode 2 (128 * 77) 1) = (0, 2467) := by decide

/-- negative witness (`R3-C20-pointer-nodeset-pageoffset`): with the page number taken from the
full address and the offset unchanged, the nodes in slot `k` and slot `k + 32768` of one page share
a bit -/
example :
    let base := PAGE_SIZE * 5
    Mutant.pageOffset PAGE_SIZE TAG_BITS (base + 16) =
      Mutant.pageOffset PAGE_SIZE TAG_BITS (base + 16 + 32 * 32768) ∧
    pageOffset PAGE_SIZE TAG_BITS (base + 16) ≠ pageOffset PAGE_SIZE TAG_BITS (base + 16 + 32 * 32768) := by
  decide

/-! ## `NodeSet` as a set -/

namespace NodeSet

theorem getPage_setPage (d : List (Nat × List Nat)) (p q : Nat) (b : List Nat) :
    getPage (setPage d p b) q =
      if p = q then (if (getPage d p).isSome then some b else none) else getPage d q := by
  induction d with
  | nil => simp [setPage, getPage]
  | cons x t ih =>
    obtain ⟨xp, xb⟩ := x
    simp only [setPage, getPage]
    by_cases h1 : xp = p
    · subst h1
      by_cases h2 : xp = q
      · subst h2; simp [getPage]
      · simp [getPage, h2]
    · simp only [h1, if_false, getPage]
      by_cases h2 : xp = q
      · subst h2
        have : p ≠ xp := fun e => h1 e.symm
        simp [this]
      · simp only [h2, if_false]; exact ih

/-- membership of a key in the page table -/
def cont (d : List (Nat × List Nat)) (k : Nat × Nat) : Bool :=
  match getPage d k.1 with
  | some bits => bits.contains k.2
  | none => false

theorem cont_none {d : List (Nat × List Nat)} {k : Nat × Nat} (h : getPage d k.1 = none) :
    cont d k = false := by unfold cont; rw [h]

theorem cont_some {d : List (Nat × List Nat)} {k : Nat × Nat} {bits : List Nat}
    (h : getPage d k.1 = some bits) : cont d k = bits.contains k.2 := by unfold cont; rw [h]

theorem key_eq_iff (x y : Nat × Nat) : x = y ↔ (x.1 = y.1 ∧ x.2 = y.2) := by
  obtain ⟨a, b⟩ := x; obtain ⟨c, d⟩ := y; simp

theorem contains_one (x y : Nat) : [x].contains y = decide (y = x) := by
  by_cases h : y = x <;> simp [h]

theorem contains_cons' (x y : Nat) (l : List Nat) :
    (x :: l).contains y = (decide (y = x) || l.contains y) := by
  by_cases h : y = x <;> simp [h]

theorem contains_filter_ne (x y : Nat) (l : List Nat) :
    (l.filter (· ≠ x)).contains y = (l.contains y && !decide (y = x)) := by
  by_cases h : y = x
  · subst h; simp
  · simp [h]

theorem cont_cons_new {d : List (Nat × List Nat)} {ka : Nat × Nat} (h : getPage d ka.1 = none)
    (kb : Nat × Nat) :
    cont ((ka.1, [ka.2]) :: d) kb = (cont d kb || decide (kb = ka)) := by
  by_cases hp : ka.1 = kb.1
  · have h1 : getPage ((ka.1, [ka.2]) :: d) kb.1 = some [ka.2] := by simp [getPage, hp]
    have h2 : getPage d kb.1 = none := by rw [← hp]; exact h
    rw [cont_some h1, cont_none h2, contains_one]
    simp [key_eq_iff, hp]
  · have h1 : getPage ((ka.1, [ka.2]) :: d) kb.1 = getPage d kb.1 := by simp [getPage, hp]
    have hne : ¬ kb = ka := fun e => hp (by rw [e])
    unfold cont
    rw [h1]; simp [hne]

theorem cont_setPage_cons {d : List (Nat × List Nat)} {ka : Nat × Nat} {bits : List Nat}
    (h : getPage d ka.1 = some bits) (kb : Nat × Nat) :
    cont (setPage d ka.1 (ka.2 :: bits)) kb = (cont d kb || decide (kb = ka)) := by
  by_cases hp : ka.1 = kb.1
  · have h1 : getPage (setPage d ka.1 (ka.2 :: bits)) kb.1 = some (ka.2 :: bits) := by
      rw [getPage_setPage, if_pos hp, h]; rfl
    have h2 : getPage d kb.1 = some bits := by rw [← hp]; exact h
    rw [cont_some h1, cont_some h2, contains_cons']
    simp [key_eq_iff, hp, Bool.or_comm]
  · have h1 : getPage (setPage d ka.1 (ka.2 :: bits)) kb.1 = getPage d kb.1 := by
      rw [getPage_setPage, if_neg hp]
    have hne : ¬ kb = ka := fun e => hp (by rw [e])
    unfold cont
    rw [h1]; simp [hne]

theorem cont_setPage_filter {d : List (Nat × List Nat)} {ka : Nat × Nat} {bits : List Nat}
    (h : getPage d ka.1 = some bits) (kb : Nat × Nat) :
    cont (setPage d ka.1 (bits.filter (· ≠ ka.2))) kb = (cont d kb && !decide (kb = ka)) := by
  by_cases hp : ka.1 = kb.1
  · have h1 : getPage (setPage d ka.1 (bits.filter (· ≠ ka.2))) kb.1 =
        some (bits.filter (· ≠ ka.2)) := by
      rw [getPage_setPage, if_pos hp, h]; rfl
    have h2 : getPage d kb.1 = some bits := by rw [← hp]; exact h
    rw [cont_some h1, cont_some h2, contains_filter_ne]
    simp [key_eq_iff, hp]
  · have h1 : getPage (setPage d ka.1 (bits.filter (· ≠ ka.2))) kb.1 = getPage d kb.1 := by
      rw [getPage_setPage, if_neg hp]
    have hne : ¬ kb = ka := fun e => hp (by rw [e])
    unfold cont
    rw [h1]; simp [hne]

variable {pageSize tagBits : Nat}

theorem contains_eq_cont (s : NodeSet) (b : Nat) :
    s.contains pageSize tagBits b = cont s.data (pageOffset pageSize tagBits b) := rfl

theorem insert_key (s : NodeSet) (a : Nat) (ka : Nat × Nat)
    (hka : pageOffset pageSize tagBits a = ka) :
    (s.insert pageSize tagBits a).2 = !cont s.data ka ∧
    (∀ kb, cont (s.insert pageSize tagBits a).1.data kb = (cont s.data kb || decide (kb = ka))) ∧
    (s.insert pageSize tagBits a).1.len = s.len + (if cont s.data ka then 0 else 1) := by
  cases hg : getPage s.data ka.1 with
  | none =>
    have e : s.insert pageSize tagBits a =
        ({ len := s.len + 1, data := (ka.1, [ka.2]) :: s.data }, true) := by
      unfold insert; simp only [hka, hg]
    rw [e, cont_none hg]
    exact ⟨rfl, fun b => cont_cons_new hg _, rfl⟩
  | some bits =>
    by_cases hc : bits.contains ka.2 = true
    · have e : s.insert pageSize tagBits a = (s, false) := by
        unfold insert; simp only [hka, hg, hc, if_true]
      rw [e, cont_some hg, hc]
      refine ⟨rfl, ?_, rfl⟩
      intro kb
      by_cases he : kb = ka
      · rw [he, cont_some hg, hc]; rfl
      · simp [he]
    · have hc' : bits.contains ka.2 = false := by simpa using hc
      have e : s.insert pageSize tagBits a =
          ({ len := s.len + 1, data := setPage s.data ka.1 (ka.2 :: bits) }, true) := by
        unfold insert; simp only [hka, hg, hc', Bool.false_eq_true, if_false]
      rw [e, cont_some hg, hc']
      exact ⟨rfl, fun b => cont_setPage_cons hg _, rfl⟩

theorem remove_key (s : NodeSet) (a : Nat) (ka : Nat × Nat)
    (hka : pageOffset pageSize tagBits a = ka) :
    (s.remove pageSize tagBits a).2 = cont s.data ka ∧
    (∀ kb, cont (s.remove pageSize tagBits a).1.data kb = (cont s.data kb && !decide (kb = ka))) ∧
    (s.remove pageSize tagBits a).1.len = s.len - (if cont s.data ka then 1 else 0) := by
  cases hg : getPage s.data ka.1 with
  | none =>
    have e : s.remove pageSize tagBits a = (s, false) := by
      unfold remove; simp only [hka, hg]
    rw [e, cont_none hg]
    refine ⟨rfl, ?_, rfl⟩
    intro kb
    by_cases he : kb = ka
    · rw [he, cont_none hg]; rfl
    · simp [he]
  | some bits =>
    by_cases hc : bits.contains ka.2 = true
    · have e : s.remove pageSize tagBits a =
          ({ len := s.len - 1, data := setPage s.data ka.1 (bits.filter (· ≠ ka.2)) }, true) := by
        unfold remove; simp only [hka, hg, hc, if_true]
      rw [e, cont_some hg, hc]
      exact ⟨rfl, fun b => cont_setPage_filter hg _, rfl⟩
    · have hc' : bits.contains ka.2 = false := by simpa using hc
      have e : s.remove pageSize tagBits a = (s, false) := by
        unfold remove; simp only [hka, hg, hc', Bool.false_eq_true, if_false]
      rw [e, cont_some hg, hc']
      refine ⟨rfl, ?_, rfl⟩
      intro kb
      by_cases he : kb = ka
      · rw [he, cont_some hg, hc']; rfl
      · simp [he]

/-- `insert` returns whether the node was new, adds exactly its key, and counts it -/
theorem insert_spec (s : NodeSet) (a : Nat) :
    (s.insert pageSize tagBits a).2 = !s.contains pageSize tagBits a ∧
    (∀ b, (s.insert pageSize tagBits a).1.contains pageSize tagBits b =
      (s.contains pageSize tagBits b ||
        decide (pageOffset pageSize tagBits b = pageOffset pageSize tagBits a))) ∧
    (s.insert pageSize tagBits a).1.len = s.len + (if s.contains pageSize tagBits a then 0 else 1) :=
  let h := insert_key s a _ rfl
  ⟨h.1, fun b => h.2.1 (pageOffset pageSize tagBits b), h.2.2⟩

/-- `remove` returns whether the node was present, removes exactly its key, and un-counts it -/
theorem remove_spec (s : NodeSet) (a : Nat) :
    (s.remove pageSize tagBits a).2 = s.contains pageSize tagBits a ∧
    (∀ b, (s.remove pageSize tagBits a).1.contains pageSize tagBits b =
      (s.contains pageSize tagBits b &&
        !decide (pageOffset pageSize tagBits b = pageOffset pageSize tagBits a))) ∧
    (s.remove pageSize tagBits a).1.len = s.len - (if s.contains pageSize tagBits a then 1 else 0) :=
  let h := remove_key s a _ rfl
  ⟨h.1, fun b => h.2.1 (pageOffset pageSize tagBits b), h.2.2⟩

end NodeSet

/-- removing the one occurrence of a member of a duplicate-free list -/
theorem filter_ne_length : ∀ (l : List Nat) (n : Nat), l.Nodup → n ∈ l →
    (l.filter (· ≠ n)).length + 1 = l.length
  | [], _, _, h => by cases h
  | x :: t, n, hn, hm => by
    rw [List.nodup_cons] at hn
    by_cases hx : x = n
    · have hself : t.filter (· ≠ n) = t := by
        rw [List.filter_eq_self]
        intro y hy
        have : y ≠ n := by intro e'; rw [e', ← hx] at hy; exact hn.1 hy
        exact decide_eq_true this
      rw [List.filter_cons_of_neg (by simp [hx]), hself, List.length_cons]
    · have hm' : n ∈ t := by
        rcases List.mem_cons.mp hm with e' | e'
        · exact absurd e'.symm hx
        · exact e'
      have ih := filter_ne_length t n hn.2 hm'
      rw [List.filter_cons_of_pos (by simp [hx]), List.length_cons, List.length_cons, ih]

/-- the abstract counterpart of a call: the same operation on the node id -/
def AbsSet.step (tagBits : Nat) (s : AbsSet) : SetOp → AbsSet × Bool
  | .insert a => s.insert (nodeOf tagBits a)
  | .contains a => (s, s.contains (nodeOf tagBits a))
  | .remove a => s.remove (nodeOf tagBits a)

def AbsSet.run (tagBits : Nat) (s : AbsSet) : List SetOp → AbsSet × List Bool
  | [] => (s, [])
  | o :: os =>
    let (s', b) := AbsSet.step tagBits s o
    let (s'', bs) := AbsSet.run tagBits s' os
    (s'', b :: bs)

/-- the refinement relation: same membership for every edge, `len` = number of nodes -/
structure SetRel (pageSize tagBits : Nat) (s : NodeSet) (a : AbsSet) : Prop where
  mem : ∀ e, s.contains pageSize tagBits e = a.contains (nodeOf tagBits e)
  len : s.len = a.length
  nodup : a.Nodup

theorem setRel_step {pageSize tagBits : Nat} (hp : 0 < nodesPerPage pageSize tagBits)
    {s : NodeSet} {a : AbsSet} (h : SetRel pageSize tagBits s a) (o : SetOp) :
    SetRel pageSize tagBits (s.step pageSize tagBits o).1 (AbsSet.step tagBits a o).1 ∧
    (s.step pageSize tagBits o).2 = (AbsSet.step tagBits a o).2 := by
  have key : ∀ x y, decide (pageOffset pageSize tagBits x = pageOffset pageSize tagBits y) =
      decide (nodeOf tagBits x = nodeOf tagBits y) := by
    intro x y
    have := (nodeSet_injective hp x y).1
    unfold nodeOf
    by_cases c : x >>> tagBits = y >>> tagBits
    · simp [c, this.mpr c]
    · have : ¬ pageOffset pageSize tagBits x = pageOffset pageSize tagBits y := fun e => c (this.mp e)
      simp [c, this]
  cases o with
  | contains e => exact ⟨h, h.mem e⟩
  | insert e =>
    obtain ⟨r1, r2, r3⟩ := NodeSet.insert_spec (pageSize := pageSize) (tagBits := tagBits) s e
    have hm := h.mem e
    simp only [NodeSet.step, AbsSet.step, AbsSet.insert]
    by_cases hc : List.contains a (nodeOf tagBits e) = true
    · have hc' : AbsSet.contains a (nodeOf tagBits e) = true := hc
      rw [if_pos hc']
      refine ⟨⟨?_, ?_, h.nodup⟩, ?_⟩
      · intro b
        rw [r2 b, h.mem b, key]
        by_cases hb : nodeOf tagBits b = nodeOf tagBits e
        · rw [hb, hc']; simp
        · simp [hb]
      · rw [r3, hm, hc']; simp [h.len]
      · rw [r1, hm, hc']; rfl
    · have hc' : AbsSet.contains a (nodeOf tagBits e) = false := by
        simpa [AbsSet.contains] using hc
      rw [if_neg (by rw [hc']; simp)]
      refine ⟨⟨?_, ?_, ?_⟩, ?_⟩
      · intro b
        rw [r2 b, h.mem b, key]
        simp only [AbsSet.contains]
        by_cases hb : nodeOf tagBits b = nodeOf tagBits e <;> simp [hb]
      · rw [r3, hm, hc']; simp [h.len]
      · rw [List.nodup_cons]
        refine ⟨?_, h.nodup⟩
        intro hmem
        have : List.contains a (nodeOf tagBits e) = true := by simpa using hmem
        exact hc this
      · rw [r1, hm, hc']; rfl
  | remove e =>
    obtain ⟨r1, r2, r3⟩ := NodeSet.remove_spec (pageSize := pageSize) (tagBits := tagBits) s e
    have hm := h.mem e
    simp only [NodeSet.step, AbsSet.step, AbsSet.remove]
    by_cases hc : List.contains a (nodeOf tagBits e) = true
    · have hc' : AbsSet.contains a (nodeOf tagBits e) = true := hc
      rw [if_pos hc']
      refine ⟨⟨?_, ?_, h.nodup.filter _⟩, ?_⟩
      · intro b
        rw [r2 b, h.mem b, key]
        simp only [AbsSet.contains]
        by_cases hb : nodeOf tagBits b = nodeOf tagBits e <;> simp [hb]
      · rw [r3, hm, hc', h.len]
        simp only [if_true]
        have hmem : nodeOf tagBits e ∈ a := by simpa using hc
        have := h.nodup
        -- removing the one occurrence of a member of a duplicate-free list
        have hcount := filter_ne_length a (nodeOf tagBits e) this hmem
        omega
      · rw [r1, hm, hc']
    · have hc' : AbsSet.contains a (nodeOf tagBits e) = false := by
        simpa [AbsSet.contains] using hc
      rw [if_neg (by rw [hc']; simp)]
      refine ⟨⟨?_, ?_, h.nodup⟩, ?_⟩
      · intro b
        rw [r2 b, h.mem b, key]
        by_cases hb : nodeOf tagBits b = nodeOf tagBits e
        · rw [hb, hc']; simp
        · simp [hb]
      · rw [r3, hm, hc']; simp [h.len]
      · rw [r1, hm, hc']

/-- **`nodeSet_refines`.** For every sequence of `insert` / `contains` / `remove` calls with
arbitrary (tagged, inner or terminal) edges, starting from the empty set, the pointer manager's
`NodeSet` returns exactly what the abstract set of node ids returns, and afterwards `len()` is the
number of distinct nodes in the set — which is how the index manager's `NodeSet` (one bit per node
id) behaves, so `node_count()` agrees between the two backends. -/
theorem nodeSet_refines {pageSize tagBits : Nat} (hp : 0 < nodesPerPage pageSize tagBits)
    (ops : List SetOp) :
    let r := NodeSet.run pageSize tagBits NodeSet.empty ops
    let a := AbsSet.run tagBits [] ops
    r.2 = a.2 ∧ r.1.len = a.1.length ∧ a.1.Nodup ∧
    ∀ e, r.1.contains pageSize tagBits e = a.1.contains (nodeOf tagBits e) := by
  have gen : ∀ (ops : List SetOp) (s : NodeSet) (a : AbsSet), SetRel pageSize tagBits s a →
      (NodeSet.run pageSize tagBits s ops).2 = (AbsSet.run tagBits a ops).2 ∧
      SetRel pageSize tagBits (NodeSet.run pageSize tagBits s ops).1 (AbsSet.run tagBits a ops).1 := by
    intro ops
    induction ops with
    | nil => intro s a h; exact ⟨rfl, h⟩
    | cons o os ih =>
      intro s a h
      obtain ⟨h1, h2⟩ := setRel_step hp h o
      obtain ⟨i1, i2⟩ := ih _ _ h1
      simp only [NodeSet.run, AbsSet.run]
      exact ⟨by rw [h2, i1], i2⟩
  have h0 : SetRel pageSize tagBits NodeSet.empty [] :=
    ⟨fun e => by simp [NodeSet.contains, NodeSet.empty, NodeSet.getPage, AbsSet.contains], rfl,
      List.nodup_nil⟩
  obtain ⟨g1, g2⟩ := gen ops _ _ h0
  exact ⟨g1, g2.len, g2.nodup, g2.mem⟩

/-- non-vacuity: nodes on three pages, the same node under two tags, a removal and a re-insert -/
example :
    let b := PAGE_SIZE * 5
    NodeSet.run PAGE_SIZE TAG_BITS NodeSet.empty
      [.insert (b + 16), .insert (b + 17), .insert (b + 16 + 1048576), .insert (b + 48),
       .contains (b + 49), .remove (b + 18), .contains (b + 16), .insert (b + 16),
       .insert (PAGE_SIZE * 9 + 16)] =
    (⟨4, [(18, [4]), (11, [4]), (10, [4, 12])]⟩,
      [true, false, true, true, true, true, false, true, true]) := by decide

end OxiddModel.Pointer
