import OxiddModel.Reorder.Lemmas

/-!
# `concurrent_bubble_sort`: the task state machine

The workers of `concurrent_bubble_sort` (set_var_order/mod.rs) share, under one mutex, the
sequence `seq`, the bit set `blocked`, the stack `tasks` and the counter `in_progress`. A worker
that holds an index `i` calls `swap(manager, i)` (= `level_swap` of the levels `i`, `i+1`)
*outside* the mutex, then takes the mutex, updates `seq`, and decides in one critical section how
to go on. Workers carry no other local state, so they are modelled anonymously:

* `idle`     – number of workers at the top of the outer loop (or in `cond.wait`),
* `running`  – the indices held by workers whose `level_swap` has not taken effect yet,
* `swapped`  – the indices held by workers whose `level_swap` is done and which wait for the mutex,
* `finished` – number of workers that have returned.

Ghost components: `lv` is the arrangement of the levels in the diagram (what the `level_swap`
calls really permute, in the order in which they take effect), `log` lists the finished swaps in
the order of their critical sections.
-/
namespace OxiddModel.Reorder

/-! ## levels occupied by a set of swaps -/

/-- level `k` is one of the two levels of some swap in `L` -/
def Occ (L : List Nat) (k : Nat) : Prop := ∃ j ∈ L, k = j ∨ k = j + 1

/-- the swaps `a` and `b` (of levels `a, a+1` and `b, b+1`) have no level in common -/
def Disj (a b : Nat) : Prop := a ≠ b ∧ a ≠ b + 1 ∧ a + 1 ≠ b

/-- no two swaps of `L` share a level -/
def NoOverlap (L : List Nat) : Prop := L.Pairwise Disj

@[simp] theorem occ_nil (k : Nat) : Occ [] k ↔ False := by simp [Occ]

theorem occ_cons (x : Nat) (L : List Nat) (k : Nat) :
    Occ (x :: L) k ↔ (k = x ∨ k = x + 1) ∨ Occ L k := by
  simp [Occ]

theorem occ_append (A B : List Nat) (k : Nat) : Occ (A ++ B) k ↔ Occ A k ∨ Occ B k := by
  simp only [Occ, List.mem_append]
  constructor
  · rintro ⟨j, hj | hj, h⟩
    · exact .inl ⟨j, hj, h⟩
    · exact .inr ⟨j, hj, h⟩
  · rintro (⟨j, hj, h⟩ | ⟨j, hj, h⟩)
    · exact ⟨j, .inl hj, h⟩
    · exact ⟨j, .inr hj, h⟩

theorem occ_perm {A B : List Nat} (h : A.Perm B) (k : Nat) : Occ A k ↔ Occ B k := by
  simp only [Occ, h.mem_iff]

theorem disj_symm {a b : Nat} (h : Disj a b) : Disj b a := by
  unfold Disj at *; omega

theorem noOverlap_perm {A B : List Nat} (h : A.Perm B) : NoOverlap A ↔ NoOverlap B :=
  List.Perm.pairwise_iff (fun h => disj_symm h) h

theorem noOverlap_cons (x : Nat) (L : List Nat) :
    NoOverlap (x :: L) ↔ (¬ Occ L x ∧ ¬ Occ L (x + 1)) ∧ NoOverlap L := by
  unfold NoOverlap
  rw [List.pairwise_cons]
  refine and_congr_left (fun _ => ?_)
  constructor
  · intro h
    constructor
    · rintro ⟨j, hj, hx⟩
      have := h j hj; unfold Disj at this; omega
    · rintro ⟨j, hj, hx⟩
      have := h j hj; unfold Disj at this; omega
  · rintro ⟨h1, h2⟩ j hj
    refine ⟨?_, ?_, ?_⟩
    · rintro rfl; exact h1 ⟨x, hj, .inl rfl⟩
    · rintro rfl; exact h1 ⟨j, hj, .inr rfl⟩
    · rintro rfl; exact h2 ⟨x + 1, hj, .inl rfl⟩

/-- in a non-overlapping set two different positions hold swaps at distance ≥ 2, which commute -/
theorem disj_far {a b : Nat} (h : Disj a b) : a + 2 ≤ b ∨ b + 2 ≤ a := by
  unfold Disj at h; omega

/-! ## inversions and swaps -/

theorem isInv_iff (l : List Nat) (k : Nat) :
    IsInv l k ↔ ∃ a b, l[k]? = some a ∧ l[k + 1]? = some b ∧ b < a := by
  unfold IsInv
  constructor
  · rintro ⟨h, hlt⟩
    exact ⟨l[k], l[k + 1], by simp, by simp [h], hlt⟩
  · rintro ⟨a, b, ha, hb, hlt⟩
    obtain ⟨h1, rfl⟩ := List.getElem?_eq_some_iff.1 ha
    obtain ⟨h2, rfl⟩ := List.getElem?_eq_some_iff.1 hb
    exact ⟨h2, hlt⟩

theorem IsInv.lt {l : List Nat} {k : Nat} (h : IsInv l k) : k + 1 < l.length := h.1

theorem isInv_swapAdj_far {l : List Nat} {i k : Nat} (hi : i + 1 < l.length)
    (hk : k + 1 < i ∨ i + 1 < k) : IsInv (swapAdj i l) k ↔ IsInv l k := by
  rw [isInv_iff, isInv_iff, getElem?_swapAdj i l hi, getElem?_swapAdj i l hi]
  have h1 : k ≠ i := by omega
  have h2 : k ≠ i + 1 := by omega
  have h3 : k + 1 ≠ i := by omega
  have h4 : k + 1 ≠ i + 1 := by omega
  simp only [h1, h2, h3, h4, if_false]

theorem not_isInv_swapAdj_self {l : List Nat} {i : Nat} (h : IsInv l i) :
    ¬ IsInv (swapAdj i l) i := by
  have hi := h.lt
  rw [isInv_iff] at h ⊢
  rw [getElem?_swapAdj i l hi, getElem?_swapAdj i l hi]
  simp only [if_true, Nat.succ_ne_self, if_false]
  rintro ⟨a, b, ha, hb, hlt⟩
  obtain ⟨a', b', ha', hb', hlt'⟩ := h
  rw [ha] at hb'; rw [hb] at ha'
  cases ha'; cases hb'; omega

/-- a sequence without adjacent inversion is sorted -/
theorem sorted_of_no_inv (l : List Nat) (h : ∀ k, ¬ IsInv l k) : Sorted l := by
  induction l with
  | nil => simp [Sorted]
  | cons a l ih =>
    have ihl := ih (fun k hk => h (k + 1) (by
      obtain ⟨h1, h2⟩ := hk
      exact ⟨by simpa using h1, by simpa using h2⟩))
    simp only [Sorted, List.pairwise_cons]
    refine ⟨?_, ihl⟩
    cases l with
    | nil => simp
    | cons b r =>
      have hab : a ≤ b := by
        have := h 0
        unfold IsInv at this
        simp at this; exact this
      intro x hx
      rcases List.mem_cons.1 hx with rfl | hx
      · exact hab
      · simp only [Sorted, List.pairwise_cons] at ihl
        have := ihl.1 x hx; omega

theorem applySwaps_swapAdj_comm {α : Type} (a : List Nat) (i : Nat) (X : List α)
    (h : ∀ j ∈ a, Disj i j) :
    applySwaps a (swapAdj i X) = swapAdj i (applySwaps a X) := by
  induction a generalizing X with
  | nil => rfl
  | cons j a ih =>
    simp only [applySwaps_cons]
    have hj := disj_far (h j (by simp))
    have : swapAdj j (swapAdj i X) = swapAdj i (swapAdj j X) := by
      rcases hj with hj | hj
      · exact (swapAdj_comm i j X hj).symm
      · exact swapAdj_comm j i X hj
    rw [this, ih _ (fun j' hj' => h j' (by simp [hj']))]

/-! ## the critical section after a swap -/

/-- `FixedBitSet::insert` / `remove` -/
def setB (b : Nat → Bool) (k : Nat) (v : Bool) : Nat → Bool := fun x => if x = k then v else b x

/-- `swap_before = i > 0 && seq[i-1] > seq[i] && !blocked.contains(i-1)` (on the updated `seq`) -/
def swapBefore (seq : List Nat) (blocked : Nat → Bool) (i : Nat) : Bool :=
  decide (0 < i) && decide (IsInv seq (i - 1)) && !blocked (i - 1)

/-- `if swap_before { blocked.insert(i-1) } else { blocked.remove(i) }` -/
def blocked1 (seq : List Nat) (blocked : Nat → Bool) (i : Nat) : Nat → Bool :=
  if swapBefore seq blocked i then setB blocked (i - 1) true else setB blocked i false

/-- `i + 2 < seq.len() && seq[i+1] > seq[i+2] && !blocked.contains(i+2)` -/
def swapAfter (seq : List Nat) (blocked : Nat → Bool) (i : Nat) : Bool :=
  decide (IsInv seq (i + 1)) && !blocked1 seq blocked i (i + 2)

/-- `blocked.insert(i+2)` resp. `blocked.remove(i+1)` -/
def blocked2 (seq : List Nat) (blocked : Nat → Bool) (i : Nat) : Nat → Bool :=
  if swapAfter seq blocked i then setB (blocked1 seq blocked i) (i + 2) true
  else setB (blocked1 seq blocked i) (i + 1) false

/-- the swaps scheduled by the critical section -/
def newSwaps (seq : List Nat) (blocked : Nat → Bool) (i : Nat) : List Nat :=
  (if swapBefore seq blocked i then [i - 1] else []) ++
  (if swapAfter seq blocked i then [i + 1] else [])

/-- the part of the invariant that relates `seq`, `blocked` and the set `L` of queued or running
swaps -/
structure Core (seq : List Nat) (blocked : Nat → Bool) (L : List Nat) : Prop where
  noov : NoOverlap L
  blk : ∀ k, blocked k = true ↔ Occ L k
  inv : ∀ j ∈ L, IsInv seq j
  cover : ∀ k, IsInv seq k → blocked k = true ∨ blocked (k + 1) = true

theorem Core.perm {seq : List Nat} {blocked : Nat → Bool} {L L' : List Nat}
    (h : Core seq blocked L) (hp : L.Perm L') : Core seq blocked L' :=
  ⟨(noOverlap_perm hp).1 h.noov, fun k => (h.blk k).trans (occ_perm hp k),
   fun j hj => h.inv j (hp.mem_iff.2 hj), h.cover⟩

/-- the critical section re-establishes the invariant: the finished swap `i` leaves, the newly
scheduled neighbours enter -/
theorem finish_core {seq : List Nat} {blocked : Nat → Bool} {i : Nat} {R : List Nat}
    (h : Core seq blocked (i :: R)) :
    Core (swapAdj i seq) (blocked2 (swapAdj i seq) blocked i)
      (newSwaps (swapAdj i seq) blocked i ++ R) := by
  obtain ⟨hno, hblk, hinv, hcov⟩ := h
  have hi : IsInv seq i := hinv i (by simp)
  have hilt := hi.lt
  rw [noOverlap_cons] at hno
  obtain ⟨⟨hRi, hRi1⟩, hnoR⟩ := hno
  have hb : ∀ k, blocked k = true ↔ (k = i ∨ k = i + 1) ∨ Occ R k := fun k => by
    rw [hblk, occ_cons]
  have hfar : ∀ k, (k + 1 < i ∨ i + 1 < k) → (IsInv (swapAdj i seq) k ↔ IsInv seq k) :=
    fun k hk => isInv_swapAdj_far hilt hk
  have hself : ¬ IsInv (swapAdj i seq) i := not_isInv_swapAdj_self hi
  have hR : ∀ j ∈ R, j + 1 < i ∨ i + 1 < j := fun j hj => by
    have h1 : j ≠ i := by rintro rfl; exact hRi ⟨j, hj, .inl rfl⟩
    have h2 : i ≠ j + 1 := by rintro rfl; exact hRi ⟨j, hj, .inr rfl⟩
    have h3 : i + 1 ≠ j := by rintro rfl; exact hRi1 ⟨i + 1, hj, .inl rfl⟩
    omega
  have hinvR : ∀ j ∈ R, IsInv (swapAdj i seq) j := fun j hj =>
    (hfar j (hR j hj)).2 (hinv j (by simp [hj]))
  generalize hseq' : swapAdj i seq = seq' at *
  -- the four outcomes
  by_cases hsb : swapBefore seq' blocked i = true
  · have hsb' := hsb
    simp only [swapBefore, Bool.and_eq_true, decide_eq_true_eq, Bool.not_eq_true'] at hsb'
    obtain ⟨⟨hpos, hinvb⟩, hnb⟩ := hsb'
    have hOb : ¬ Occ R (i - 1) := fun ho => by
      have := (hb (i - 1)).2 (.inr ho); rw [hnb] at this; cases this
    have hb1 : blocked1 seq' blocked i = setB blocked (i - 1) true := by simp [blocked1, hsb]
    by_cases hsa : swapAfter seq' blocked i = true
    · have hsa' := hsa
      simp only [swapAfter, hb1, setB, Bool.and_eq_true, decide_eq_true_eq, Bool.not_eq_true'] at hsa'
      obtain ⟨hinva, hna⟩ := hsa'
      have hna' : blocked (i + 2) = false := by
        have : i + 2 ≠ i - 1 := by omega
        simpa [this] using hna
      have hOa : ¬ Occ R (i + 2) := fun ho => by
        have := (hb (i + 2)).2 (.inr ho); rw [hna'] at this; cases this
      have hb2 : blocked2 seq' blocked i = setB (setB blocked (i - 1) true) (i + 2) true := by
        simp [blocked2, hsa, hb1]
      have hns : newSwaps seq' blocked i = [i - 1, i + 1] := by simp [newSwaps, hsb, hsa]
      rw [hb2, hns]
      refine ⟨?_, ?_, ?_, ?_⟩
      · show NoOverlap ((i - 1) :: (i + 1) :: R)
        rw [noOverlap_cons, noOverlap_cons]
        refine ⟨⟨?_, ?_⟩, ⟨hRi1, hOa⟩, hnoR⟩
        · rw [occ_cons]; rintro (h | h)
          · omega
          · exact hOb h
        · rw [occ_cons]; rintro (h | h)
          · omega
          · have : i - 1 + 1 = i := by omega
            rw [this] at h; exact hRi h
      · intro k
        show _ ↔ Occ ((i - 1) :: (i + 1) :: R) k
        rw [occ_cons, occ_cons]
        have := hb k
        simp only [setB]
        grind
      · intro j hj
        simp only [List.cons_append, List.nil_append, List.mem_cons] at hj
        rcases hj with rfl | rfl | hj
        · exact hinvb
        · exact hinva
        · exact hinvR j hj
      · intro k hk
        simp only [setB]
        by_cases h1 : k + 1 < i ∨ i + 2 < k
        · have := hcov k ((hfar k (by omega)).1 hk)
          grind
        · have : k = i - 1 ∨ k = i ∨ k = i + 1 ∨ k = i + 2 := by omega
          rcases this with rfl | rfl | rfl | rfl
          · simp
          · exact absurd hk hself
          · simp
          · simp
    · have hsa' : ¬ (IsInv seq' (i + 1) ∧ blocked (i + 2) = false) := by
        intro hc
        apply hsa
        have : i + 2 ≠ i - 1 := by omega
        simp [swapAfter, hb1, setB, hc.1, hc.2, this]
      have hb2 : blocked2 seq' blocked i = setB (setB blocked (i - 1) true) (i + 1) false := by
        simp [blocked2, hsa, hb1]
      have hns : newSwaps seq' blocked i = [i - 1] := by simp [newSwaps, hsb, hsa]
      rw [hb2, hns]
      refine ⟨?_, ?_, ?_, ?_⟩
      · show NoOverlap ((i - 1) :: R)
        rw [noOverlap_cons]
        refine ⟨⟨hOb, ?_⟩, hnoR⟩
        have : i - 1 + 1 = i := by omega
        rw [this]; exact hRi
      · intro k
        show _ ↔ Occ ((i - 1) :: R) k
        rw [occ_cons]
        have := hb k
        simp only [setB]
        grind
      · intro j hj
        simp only [List.cons_append, List.nil_append, List.mem_cons] at hj
        rcases hj with rfl | hj
        · exact hinvb
        · exact hinvR j hj
      · intro k hk
        simp only [setB]
        by_cases h1 : k + 1 < i ∨ i + 1 < k
        · have := hcov k ((hfar k (by omega)).1 hk)
          grind
        · have : k = i - 1 ∨ k = i ∨ k = i + 1 := by omega
          rcases this with rfl | rfl | rfl
          · simp
          · exact absurd hk hself
          · have : blocked (i + 2) = true := by
              cases hbb : blocked (i + 2) with
              | true => rfl
              | false => exact absurd ⟨hk, hbb⟩ hsa'
            simp [this]
  · have hsb' : ¬ (0 < i ∧ IsInv seq' (i - 1) ∧ blocked (i - 1) = false) := by
      intro hc; apply hsb; simp [swapBefore, hc.1, hc.2.1, hc.2.2]
    have hb1 : blocked1 seq' blocked i = setB blocked i false := by simp [blocked1, hsb]
    by_cases hsa : swapAfter seq' blocked i = true
    · have hsa' := hsa
      simp only [swapAfter, hb1, setB, Bool.and_eq_true, decide_eq_true_eq, Bool.not_eq_true'] at hsa'
      obtain ⟨hinva, hna⟩ := hsa'
      have hna' : blocked (i + 2) = false := by
        have : i + 2 ≠ i := by omega
        simpa [this] using hna
      have hOa : ¬ Occ R (i + 2) := fun ho => by
        have := (hb (i + 2)).2 (.inr ho); rw [hna'] at this; cases this
      have hb2 : blocked2 seq' blocked i = setB (setB blocked i false) (i + 2) true := by
        simp [blocked2, hsa, hb1]
      have hns : newSwaps seq' blocked i = [i + 1] := by simp [newSwaps, hsb, hsa]
      rw [hb2, hns]
      refine ⟨?_, ?_, ?_, ?_⟩
      · show NoOverlap ((i + 1) :: R)
        rw [noOverlap_cons]
        exact ⟨⟨hRi1, hOa⟩, hnoR⟩
      · intro k
        show _ ↔ Occ ((i + 1) :: R) k
        rw [occ_cons]
        have := hb k
        simp only [setB]
        grind
      · intro j hj
        simp only [List.cons_append, List.nil_append, List.mem_cons] at hj
        rcases hj with rfl | hj
        · exact hinva
        · exact hinvR j hj
      · intro k hk
        simp only [setB]
        by_cases h1 : k + 1 < i ∨ i + 2 < k
        · have := hcov k ((hfar k (by omega)).1 hk)
          grind
        · have : k + 1 = i ∨ k = i ∨ k = i + 1 ∨ k = i + 2 := by omega
          rcases this with h | rfl | rfl | rfl
          · have hk1 : k = i - 1 := by omega
            subst hk1
            have : blocked (i - 1) = true := by
              cases hbb : blocked (i - 1) with
              | true => rfl
              | false => exact absurd ⟨by omega, hk, hbb⟩ hsb'
            have h1 : i - 1 ≠ i + 2 := by omega
            have h2 : i - 1 ≠ i := by omega
            simp [this, h1, h2]
          · exact absurd hk hself
          · simp
          · simp
    · have hsa' : ¬ (IsInv seq' (i + 1) ∧ blocked (i + 2) = false) := by
        intro hc
        apply hsa
        have : i + 2 ≠ i := by omega
        simp [swapAfter, hb1, setB, hc.1, hc.2]
      have hb2 : blocked2 seq' blocked i = setB (setB blocked i false) (i + 1) false := by
        simp [blocked2, hsa, hb1]
      have hns : newSwaps seq' blocked i = [] := by simp [newSwaps, hsb, hsa]
      rw [hb2, hns]
      refine ⟨?_, ?_, ?_, ?_⟩
      · exact hnoR
      · intro k
        show _ ↔ Occ R k
        have := hb k
        have h1 := hRi; have h2 := hRi1
        simp only [setB]
        grind
      · intro j hj
        exact hinvR j (by simpa using hj)
      · intro k hk
        simp only [setB]
        by_cases h1 : k + 1 < i ∨ i + 1 < k
        · have := hcov k ((hfar k (by omega)).1 hk)
          grind
        · have : k + 1 = i ∨ k = i ∨ k = i + 1 := by omega
          rcases this with h | rfl | rfl
          · have hk1 : k = i - 1 := by omega
            subst hk1
            have : blocked (i - 1) = true := by
              cases hbb : blocked (i - 1) with
              | true => rfl
              | false => exact absurd ⟨by omega, hk, hbb⟩ hsb'
            have h1 : i - 1 ≠ i + 1 := by omega
            have h2 : i - 1 ≠ i := by omega
            simp [this, h1, h2]
          · exact absurd hk hself
          · have : blocked (i + 2) = true := by
              cases hbb : blocked (i + 2) with
              | true => rfl
              | false => exact absurd ⟨hk, hbb⟩ hsa'
            simp [this]; omega

/-! ## the transition system -/

structure CState where
  /-- `state.seq` -/
  seq : List Nat
  /-- `state.blocked` -/
  blocked : Nat → Bool
  /-- `state.tasks`; the head is the top of the `Vec` (`push`/`pop`) -/
  tasks : List Nat
  /-- `state.in_progress` -/
  inProgress : Nat
  idle : Nat
  running : List Nat
  swapped : List Nat
  finished : Nat
  /-- ghost: the arrangement of the levels in the diagram -/
  lv : List Nat
  /-- ghost: the finished swaps, in the order of their critical sections -/
  log : List Nat

/-- the initial scan: non-overlapping inversions, found left to right -/
def initScan : List Nat → Nat → List Nat
  | a :: b :: rest, i => if a > b then i :: initScan rest (i + 2) else initScan (b :: rest) (i + 1)
  | _, _ => []

/-- state before `workers().broadcast`. (If there is no task the Rust function returns without
starting the workers; here the idle workers can only take the `exit` transition, which is the
same.) -/
def init (seq lv0 : List Nat) (workers : Nat) : CState :=
  { seq := seq
    blocked := fun k => (initScan seq 0).any fun i => k == i || k == i + 1
    tasks := (initScan seq 0).reverse
    inProgress := 0
    idle := workers
    running := []
    swapped := []
    finished := 0
    lv := lv0
    log := [] }

/-- the critical section of the worker that has finished swap `i`; `others` are the other
workers waiting for the mutex -/
def finish (s : CState) (i : Nat) (others : List Nat) : CState :=
  let seq := swapAdj i s.seq
  let sb := swapBefore seq s.blocked i
  let sa := swapAfter seq s.blocked i
  let s' := { s with seq := seq, blocked := blocked2 seq s.blocked i, swapped := others,
                     log := s.log ++ [i] }
  if sa then
    if !sb then { s' with running := (i + 1) :: s.running }                 -- `i += 1; continue`
    else { s' with tasks := (i + 1) :: s.tasks, running := (i - 1) :: s.running } -- push; `i -= 1`
  else
    if !sb then
      match s.tasks with
      | j :: rest => { s' with tasks := rest, running := j :: s.running }  -- `tasks.pop()`
      | [] =>
        if s.inProgress - 1 != 0 then
          { s' with inProgress := s.inProgress - 1, idle := s.idle + 1 }    -- `break`
        else
          { s' with inProgress := s.inProgress - 1, finished := s.finished + 1 } -- `return`
    else { s' with running := (i - 1) :: s.running }                        -- `i -= 1`

inductive Step : CState → CState → Prop
  /-- a waiting worker pops a task -/
  | take {s : CState} {i : Nat} {rest : List Nat} : 0 < s.idle → s.tasks = i :: rest →
      Step s { s with idle := s.idle - 1, tasks := rest, inProgress := s.inProgress + 1,
                      running := i :: s.running }
  /-- a waiting worker sees `in_progress == 0` and returns -/
  | exit {s : CState} : 0 < s.idle → s.tasks = [] → s.inProgress = 0 →
      Step s { s with idle := s.idle - 1, finished := s.finished + 1 }
  /-- the `level_swap` of some worker takes effect on the diagram -/
  | swap {s : CState} {a : List Nat} {i : Nat} {b : List Nat} : s.running = a ++ i :: b →
      Step s { s with running := a ++ b, swapped := s.swapped ++ [i], lv := swapAdj i s.lv }
  /-- a worker enters its critical section -/
  | finish {s : CState} {a : List Nat} {i : Nat} {b : List Nat} : s.swapped = a ++ i :: b →
      Step s (finish s i (a ++ b))

/-- all swaps that are queued or held by a worker -/
def active (s : CState) : List Nat := s.tasks ++ s.running ++ s.swapped

structure Inv (seq0 lv0 : List Nat) (s : CState) : Prop where
  core : Core s.seq s.blocked (active s)
  cnt : s.inProgress = s.running.length + s.swapped.length
  seqlog : s.seq = applySwaps s.log seq0
  valid : ValidSwaps s.log seq0
  lvlog : s.lv = applySwaps s.swapped (applySwaps s.log lv0)
  fin : 0 < s.finished → s.tasks = [] ∧ s.inProgress = 0

/-! ### the initial state -/

theorem initScan_spec (l : List Nat) (i : Nat) (pre : List Nat) (hpre : pre.length = i) :
    (∀ j ∈ initScan l i, i ≤ j ∧ IsInv (pre ++ l) j) ∧
    (initScan l i).Pairwise (fun a b => a + 2 ≤ b) ∧
    (∀ k, i ≤ k → IsInv (pre ++ l) k → Occ (initScan l i) k) := by
  match l with
  | [] =>
    refine ⟨by simp [initScan], by simp [initScan], ?_⟩
    intro k hk hinv; have := hinv.lt; simp at this; omega
  | [a] =>
    refine ⟨by simp [initScan], by simp [initScan], ?_⟩
    intro k hk hinv; have := hinv.lt; simp at this; omega
  | a :: b :: rest =>
    by_cases hab : a > b
    · have ih := initScan_spec rest (i + 2) (pre ++ [a, b]) (by simp [hpre])
      have heq : pre ++ [a, b] ++ rest = pre ++ a :: b :: rest := by simp
      rw [heq] at ih
      obtain ⟨ih1, ih2, ih3⟩ := ih
      have hT : initScan (a :: b :: rest) i = i :: initScan rest (i + 2) := by
        simp [initScan, hab]
      rw [hT]
      refine ⟨?_, ?_, ?_⟩
      · intro j hj
        rcases List.mem_cons.1 hj with rfl | hj
        · exact ⟨Nat.le_refl _, by rw [← hpre, isInv_append]; exact hab⟩
        · have := ih1 j hj; exact ⟨by omega, this.2⟩
      · rw [List.pairwise_cons]
        exact ⟨fun j hj => (ih1 j hj).1, ih2⟩
      · intro k hk hinv
        rw [occ_cons]
        by_cases hk2 : i + 2 ≤ k
        · exact .inr (ih3 k hk2 hinv)
        · left; omega
    · have ih := initScan_spec (b :: rest) (i + 1) (pre ++ [a]) (by simp [hpre])
      have heq : pre ++ [a] ++ b :: rest = pre ++ a :: b :: rest := by simp
      rw [heq] at ih
      obtain ⟨ih1, ih2, ih3⟩ := ih
      have hT : initScan (a :: b :: rest) i = initScan (b :: rest) (i + 1) := by
        simp [initScan, hab]
      rw [hT]
      refine ⟨fun j hj => ⟨by have := (ih1 j hj).1; omega, (ih1 j hj).2⟩, ih2, ?_⟩
      intro k hk hinv
      by_cases hk1 : i + 1 ≤ k
      · exact ih3 k hk1 hinv
      · have : k = i := by omega
        subst this
        rw [← hpre, isInv_append] at hinv
        omega
termination_by l.length

theorem init_inv (seq lv0 : List Nat) (w : Nat) : Inv seq lv0 (init seq lv0 w) := by
  obtain ⟨h1, h2, h3⟩ := initScan_spec seq 0 [] rfl
  simp only [List.nil_append] at h1 h3
  have hperm : (initScan seq 0).Perm (active (init seq lv0 w)) := by
    simp [active, init, List.reverse_perm, List.Perm.symm]
  have hocc : ∀ k, (init seq lv0 w).blocked k = true ↔ Occ (initScan seq 0) k := by
    intro k; simp [init, Occ, List.any_eq_true]
  refine ⟨Core.perm ⟨?_, hocc, fun j hj => (h1 j hj).2, ?_⟩ hperm, rfl, rfl, trivial, rfl, ?_⟩
  · exact List.Pairwise.imp (fun h => by unfold Disj; omega) h2
  · intro k hk
    left; rw [hocc]; exact h3 k (Nat.zero_le _) hk
  · intro h; simp [init] at h

/-! ### preservation -/

/-- prove a permutation of concrete list expressions by counting -/
macro "perm_count" : tactic => `(tactic|
  (rw [List.perm_iff_count]; intro x
   simp only [List.count_append, List.count_cons, List.count_nil]
   omega))

theorem finish_inv {seq0 lv0 : List Nat} {s : CState} {a b : List Nat} {i : Nat}
    (h : Inv seq0 lv0 s) (hs : s.swapped = a ++ i :: b) : Inv seq0 lv0 (finish s i (a ++ b)) := by
  obtain ⟨hcore, hcnt, hseq, hvalid, hlv, hfin⟩ := h
  -- the finished swap `i` and the rest `R`
  have hperm : (active s).Perm (i :: (s.tasks ++ s.running ++ (a ++ b))) := by
    unfold active; rw [hs]; perm_count
  have hcore' := hcore.perm hperm
  have hi : IsInv s.seq i := hcore'.inv i (by simp)
  have hdisj : ∀ j ∈ a, Disj i j := by
    have := hcore'.noov
    unfold NoOverlap at this
    rw [List.pairwise_cons] at this
    exact fun j hj => this.1 j (by simp [hj])
  have hfc := finish_core hcore'
  have hcnt' : s.inProgress = s.running.length + (a.length + b.length + 1) := by
    rw [hcnt, hs]; simp; omega
  have hfin0 : s.finished = 0 := by
    apply Classical.byContradiction; intro hne
    have := (hfin (by omega)).2; omega
  -- ghost components, common to all outcomes
  have hseq' : swapAdj i s.seq = applySwaps (s.log ++ [i]) seq0 := by
    rw [applySwaps_append, ← hseq]; rfl
  have hvalid' : ValidSwaps (s.log ++ [i]) seq0 := by
    rw [validSwaps_append, ← hseq]; exact ⟨hvalid, hi, trivial⟩
  have hlv' : s.lv = applySwaps (a ++ b) (applySwaps (s.log ++ [i]) lv0) := by
    rw [hlv, hs, applySwaps_append, applySwaps_append, applySwaps_append, applySwaps_cons]
    simp only [applySwaps_cons, applySwaps_nil]
    rw [applySwaps_swapAdj_comm a i _ hdisj]
  unfold finish
  simp only []
  by_cases hsa : swapAfter (swapAdj i s.seq) s.blocked i = true
  · by_cases hsb : swapBefore (swapAdj i s.seq) s.blocked i = true
    · simp only [hsa, hsb, if_true, Bool.not_true, Bool.false_eq_true, if_false]
      have hns : newSwaps (swapAdj i s.seq) s.blocked i = [i - 1, i + 1] := by
        simp [newSwaps, hsa, hsb]
      rw [hns] at hfc
      refine ⟨hfc.perm (by simp only [active]; perm_count), ?_, hseq', hvalid', hlv', ?_⟩
      · simp only [List.length_cons, List.length_append]; omega
      · intro h; simp only [hfin0] at h; omega
    · simp only [hsa, hsb, if_true, Bool.not_false]
      have hns : newSwaps (swapAdj i s.seq) s.blocked i = [i + 1] := by
        simp [newSwaps, hsa, hsb]
      rw [hns] at hfc
      refine ⟨hfc.perm (by simp only [active]; perm_count), ?_, hseq', hvalid', hlv', ?_⟩
      · simp only [List.length_cons, List.length_append]; omega
      · intro h; simp only [hfin0] at h; omega
  · by_cases hsb : swapBefore (swapAdj i s.seq) s.blocked i = true
    · simp only [hsa, hsb, Bool.false_eq_true, if_false, Bool.not_true]
      have hns : newSwaps (swapAdj i s.seq) s.blocked i = [i - 1] := by
        simp [newSwaps, hsa, hsb]
      rw [hns] at hfc
      refine ⟨hfc.perm (by simp only [active]; perm_count), ?_, hseq', hvalid', hlv', ?_⟩
      · simp only [List.length_cons, List.length_append]; omega
      · intro h; simp only [hfin0] at h; omega
    · simp only [hsa, hsb, Bool.false_eq_true, if_false, Bool.not_false, if_true]
      have hns : newSwaps (swapAdj i s.seq) s.blocked i = [] := by
        simp [newSwaps, hsa, hsb]
      rw [hns] at hfc
      cases ht : s.tasks with
      | cons j rest =>
        simp only []
        rw [ht] at hfc
        refine ⟨hfc.perm (by simp only [active]; perm_count), ?_, hseq', hvalid', hlv', ?_⟩
        · simp only [List.length_cons, List.length_append]; omega
        · intro h; simp only [hfin0] at h; omega
      | nil =>
        simp only []
        rw [ht] at hfc
        by_cases hz : s.inProgress - 1 = 0
        · simp only [hz, bne_self_eq_false, Bool.false_eq_true, if_false]
          refine ⟨hfc.perm (by simp only [active]; perm_count), ?_, hseq', hvalid', hlv', ?_⟩
          · simp only [List.length_append]; omega
          · intro _; exact ⟨rfl, rfl⟩
        · have : (s.inProgress - 1 != 0) = true := by simp [hz]
          simp only [this, if_true]
          refine ⟨hfc.perm (by simp only [active]; perm_count), ?_, hseq', hvalid', hlv', ?_⟩
          · simp only [List.length_append]; omega
          · intro h; simp only [hfin0] at h; omega

theorem step_inv {seq0 lv0 : List Nat} {s s' : CState} (h : Inv seq0 lv0 s) (hstep : Step s s') :
    Inv seq0 lv0 s' := by
  cases hstep with
  | take hidle ht =>
    obtain ⟨hcore, hcnt, hseq, hvalid, hlv, hfin⟩ := h
    refine ⟨hcore.perm (by simp only [active, ht]; perm_count), ?_, hseq, hvalid, hlv, ?_⟩
    · simp only [List.length_cons]; omega
    · intro hf; have := (hfin hf).1; rw [ht] at this; cases this
  | exit hidle ht hz =>
    obtain ⟨hcore, hcnt, hseq, hvalid, hlv, hfin⟩ := h
    exact ⟨hcore, hcnt, hseq, hvalid, hlv, fun _ => ⟨ht, hz⟩⟩
  | swap hr =>
    obtain ⟨hcore, hcnt, hseq, hvalid, hlv, hfin⟩ := h
    refine ⟨hcore.perm (by simp only [active, hr]; perm_count), ?_, hseq, hvalid, ?_, hfin⟩
    · rw [hcnt, hr]; simp only [List.length_cons, List.length_append, List.length_nil]; omega
    · simp only [applySwaps_append, ← hlv]; rfl
  | finish hs => exact finish_inv h hs

/-- states reachable from the initial one -/
inductive Reachable (seq0 lv0 : List Nat) (workers : Nat) : CState → Prop
  | init : Reachable seq0 lv0 workers (init seq0 lv0 workers)
  | step {s s' : CState} : Reachable seq0 lv0 workers s → Step s s' → Reachable seq0 lv0 workers s'

theorem reachable_inv {seq0 lv0 : List Nat} {w : Nat} {s : CState}
    (h : Reachable seq0 lv0 w s) : Inv seq0 lv0 s := by
  induction h with
  | init => exact init_inv _ _ _
  | step _ hs ih => exact step_inv ih hs

/-! ### termination -/

/-- a quantity that every transition decreases -/
def measure (s : CState) : Nat :=
  5 * invCount s.seq + 3 * s.tasks.length + 2 * s.running.length + s.swapped.length + s.idle

theorem finish_measure {seq0 lv0 : List Nat} {s : CState} {a b : List Nat} {i : Nat}
    (h : Inv seq0 lv0 s) (hs : s.swapped = a ++ i :: b) :
    measure (finish s i (a ++ b)) < measure s := by
  have hperm : (active s).Perm (i :: (s.tasks ++ s.running ++ (a ++ b))) := by
    unfold active; rw [hs]; perm_count
  have hi : IsInv s.seq i := (h.core.perm hperm).inv i (by simp)
  have hinv := invCount_swapAdj hi
  have hlen : s.swapped.length = a.length + b.length + 1 := by rw [hs]; simp; omega
  unfold finish
  simp only []
  split
  · split
    · simp only [measure, List.length_cons, List.length_append]; omega
    · simp only [measure, List.length_cons, List.length_append]; omega
  · split
    · split
      · rename_i ht
        simp only [measure, List.length_cons, List.length_append, ht]; omega
      · rename_i ht
        split
        · simp only [measure, List.length_append, ht, List.length_nil]; omega
        · simp only [measure, List.length_append, ht, List.length_nil]; omega
    · simp only [measure, List.length_cons, List.length_append]; omega

/-- **termination**: every transition strictly decreases `measure`; hence every run from a
state satisfying the invariant has at most `measure` transitions -/
theorem step_measure {seq0 lv0 : List Nat} {s s' : CState} (h : Inv seq0 lv0 s)
    (hstep : Step s s') : measure s' < measure s := by
  cases hstep with
  | take hidle ht => simp only [measure, ht, List.length_cons]; omega
  | exit hidle ht hz => simp only [measure]; omega
  | swap hr =>
    simp only [measure, hr, List.length_cons, List.length_append, List.length_nil]; omega
  | finish hs => exact finish_measure h hs

/-- runs of `n` transitions -/
inductive Run : Nat → CState → CState → Prop
  | nil {s : CState} : Run 0 s s
  | cons {n : Nat} {s s' s'' : CState} : Step s s' → Run n s' s'' → Run (n + 1) s s''

theorem run_bounded {seq0 lv0 : List Nat} {n : Nat} {s s' : CState} (h : Inv seq0 lv0 s)
    (hr : Run n s s') : n + measure s' ≤ measure s := by
  induction hr with
  | nil => omega
  | cons hs _ ih =>
    have := step_measure h hs
    have := ih (step_inv h hs)
    omega

/-! ### workers are conserved; progress -/

theorem finish_workers (s : CState) (a b : List Nat) (i : Nat) (hs : s.swapped = a ++ i :: b) :
    (finish s i (a ++ b)).idle + (finish s i (a ++ b)).running.length +
      (finish s i (a ++ b)).swapped.length + (finish s i (a ++ b)).finished =
    s.idle + s.running.length + s.swapped.length + s.finished := by
  have hlen : s.swapped.length = a.length + b.length + 1 := by rw [hs]; simp; omega
  unfold finish
  simp only []
  split
  · split <;> simp only [List.length_cons, List.length_append] <;> omega
  · split
    · split
      · simp only [List.length_cons, List.length_append]; omega
      · split <;> simp only [List.length_append] <;> omega
    · simp only [List.length_cons, List.length_append]; omega

theorem reachable_workers {seq0 lv0 : List Nat} {w : Nat} {s : CState}
    (h : Reachable seq0 lv0 w s) :
    s.idle + s.running.length + s.swapped.length + s.finished = w := by
  induction h with
  | init => simp [init]
  | step _ hs ih =>
    cases hs with
    | take hidle ht => simp only [List.length_cons]; omega
    | exit hidle ht hz => simp only []; omega
    | swap hr =>
      rw [hr] at ih
      simp only [List.length_cons, List.length_append, List.length_nil] at ih ⊢; omega
    | finish hs => rw [finish_workers _ _ _ _ hs]; exact ih

/-- **progress**: with at least one worker, a reachable state either has a successor or is
final (`tasks` empty, `in_progress == 0`, every worker has returned) -/
theorem reachable_progress {seq0 lv0 : List Nat} {w : Nat} {s : CState}
    (h : Reachable seq0 lv0 w s) (hw : 0 < w) :
    (∃ s', Step s s') ∨ (s.tasks = [] ∧ s.inProgress = 0 ∧ s.finished = w) := by
  have hinv := reachable_inv h
  have hwk := reachable_workers h
  cases hsw : s.swapped with
  | cons i b => exact .inl ⟨_, Step.finish (a := []) (i := i) (b := b) (by simp [hsw])⟩
  | nil =>
    cases hr : s.running with
    | cons i b => exact .inl ⟨_, Step.swap (a := []) (i := i) (b := b) (by simp [hr])⟩
    | nil =>
      have hz : s.inProgress = 0 := by rw [hinv.cnt, hsw, hr]; rfl
      by_cases hidle : 0 < s.idle
      · cases ht : s.tasks with
        | nil => exact .inl ⟨_, Step.exit hidle ht hz⟩
        | cons i rest => exact .inl ⟨_, Step.take hidle ht⟩
      · right
        rw [hsw, hr] at hwk
        simp only [List.length_nil] at hwk
        have hf : 0 < s.finished := by omega
        exact ⟨(hinv.fin hf).1, hz, by omega⟩

end OxiddModel.Reorder
