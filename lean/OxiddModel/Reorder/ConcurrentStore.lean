import OxiddModel.Reorder.SetOrderProof
import OxiddModel.Reorder.Concurrent

/-!
# Concurrent `level_swap`s on the node store: the small-step model

`concurrent_bubble_sort` (set_var_order/mod.rs) lets several workers run `level_swap` at the same
time, on pairwise disjoint pairs of level views (`Concurrent.lean`: `concurrent_no_overlap`).
A running `level_swap(u, l, up, lp)` holds the mutexes of the two level views `u` and `l`, but it
shares with the other running swaps

* the node store (`add_node`: slot allocation),
* the reference counters of the nodes *below* its two levels (`clone_edge` / `drop_edge` on
  grandchildren; the nodes below may belong to a level pair another swap is working on),
* the stored level number of its children (`node.level()` reads; the other swap may be executing
  `set_level` on that child).

This file splits one `level_swap` (`levelSwapS` of `SwapStore.lean`) into *task steps* acting on
the shared `RState`:

* `tBegin`  – read `to_pre[u]`, `to_pre[l]`, `upper.swap(lower)`, `take(lower)`;
* `tNode i` – one iteration of `for e in old_upper.iter()` (`stepNode`, unchanged);
* `tDrop j` – `drop(old_upper)`, one entry at a time;
* `tEnd`    – `to_pre[u] = lp; to_pre[l] = up` (and the ghost level→variable map).

`levelSwapG_eq_run`: executing the steps of one task without interruption is `levelSwapG`.
The steps of different tasks are interleaved arbitrarily by `ConcurrentStoreMachine.lean`.
-/
namespace OxiddModel.Reorder.SwapStore
open OxiddModel.Bdd OxiddModel.Bdd.Refine OxiddModel.Reorder

/-! ## the loop body split at the orphan checks -/

/-- the rewrite branch of `stepNode` up to (and including) the re-insertion of the node -/
def rewPre (al : Heap → Nat) (upPre lowPre : Nat) (old : List Nat) (st : LS) (i : Nat)
    (t e : Edge) : LS :=
  let gt := cofE st.h lowPre t
  let ge := cofE st.h lowPre e
  let r0 := mkChild al upPre old (st.h, st.lo) gt.1 ge.1
  let r1 := mkChild al upPre old r0.1 gt.2 ge.2
  let h2 := setChildT r1.1.1 i r0.2
  let h3 := setChildE h2 i r1.2
  let h4 := setLevel h3 i lowPre
  let r5 := tblInsert (incRc h4 (.inner i)) st.up i
  { h := r5.1, up := r5.2, lo := r1.1.2 }

/-- one orphan check on the loop state -/
def orphanLS (lowPre : Nat) (st : LS) (c : Edge) : LS :=
  let r := orphan lowPre (st.h, st.up) c
  { st with h := r.1, up := r.2 }

/-- the move branch of `stepNode` -/
def moveLS (st : LS) (i : Nat) : LS :=
  let r := tblInsert (incRc st.h (.inner i)) st.lo i
  { st with h := r.1, lo := r.2 }

theorem stepNode_eq (al : Heap → Nat) (upPre lowPre : Nat) (old : List Nat) (st : LS) (i : Nat) :
    stepNode al upPre lowPre old st i =
      match st.h.get? i with
      | none => st
      | some n =>
        if !lvlIs st.h lowPre n.t && !lvlIs st.h lowPre n.e then moveLS st i
        else
          let s5 := rewPre al upPre lowPre old st i n.t n.e
          let s6 := orphanLS lowPre s5 n.t
          if n.e = n.t then s6 else orphanLS lowPre s6 n.e := by
  unfold stepNode
  cases st.h.get? i with
  | none => rfl
  | some n =>
    simp only [moveLS, rewPre, orphanLS]
    split
    · rfl
    · split <;> rfl

/-! ## task steps -/

/-- the local state of a running `level_swap` (plus ghost data: `low0`, `pool`) -/
structure TaskLoc where
  /-- positions of the two level views -/
  u : Nat
  l : Nat
  /-- `upper_no_pre`, `lower_no_pre` -/
  up : Nat
  lp : Nat
  /-- the slot allocator of the executing worker -/
  al : Heap → Nat
  /-- the taken view `old_upper` -/
  old : List Nat
  /-- the part of the iteration over `old_upper` still to do -/
  todo : List Nat
  /-- the entries of `old_upper` not yet released (`drop(old_upper)`) -/
  drops : List Nat
  /-- ghost: contents of the old lower view at the start -/
  low0 : List Nat

/-- the two tables of the task as a loop state -/
def lsOf (r : RState) (t : TaskLoc) : LS := ⟨r.s.h, r.s.table t.u, r.s.table t.l⟩

/-- write a loop state back -/
def putLS (r : RState) (u l : Nat) (st : LS) : RState :=
  { r with s := ⟨st.h, (r.s.tables.set u st.up).set l st.lo⟩ }

/-- start of `level_swap(u, l, to_pre[u], to_pre[l])`: the views are exchanged and the old upper
one (now at `l`) is taken; `order` is the iteration order of the hash table -/
def tBegin (r : RState) (u l : Nat) (al : Heap → Nat) (order : List Nat) : RState × TaskLoc :=
  (putLS r u l ⟨r.s.h, r.s.table l, []⟩,
   { u := u, l := l, up := r.toPre.getD u u, lp := r.toPre.getD l l, al := al,
     old := r.s.table u, todo := order, drops := r.s.table u, low0 := r.s.table l })

/-- one iteration of the loop -/
def tNode (r : RState) (t : TaskLoc) (i : Nat) : RState :=
  putLS r t.u t.l (stepNode t.al t.up t.lp t.old (lsOf r t) i)

/-- one entry of `drop(old_upper)` -/
def tDrop (r : RState) (j : Nat) : RState :=
  { r with s := ⟨dropTableEdge r.s.h j, r.s.tables⟩ }

/-- after `level_swap` has returned: the closure updates `to_pre` -/
def tEnd (r : RState) (t : TaskLoc) : RState :=
  { r with toPre := (r.toPre.set t.u t.lp).set t.l t.up, l2v := swapIdx r.l2v t.u t.l }

/-- the steps of one task, uninterrupted -/
def runTask (r : RState) (u l : Nat) (al : Heap → Nat) (order : List Nat) : RState :=
  let b := tBegin r u l al order
  let r1 := order.foldl (fun r i => tNode r b.2 i) b.1
  let r2 := b.2.drops.foldl tDrop r1
  tEnd r2 b.2

/-! ## regions, agreement of two heaps on a region, local allocators -/

/-- two heaps look the same to a task whose slots are `reg` and whose lower label is `lp`: the
task's own slots have the same shape (level, children — the counters may differ), and no foreign
slot carries the label `lp` (all a task ever asks about a foreign node is `level() == lp`) -/
structure Agree (reg : Nat → Bool) (lp : Nat) (H S : Heap) : Prop where
  own : ∀ k, reg k = true → H.sh k = S.sh k
  lblH : ∀ k n, reg k = false → H.sh k = some n → n.level ≠ lp
  lblS : ∀ k n, reg k = false → S.sh k = some n → n.level ≠ lp

/-- the allocator of a task takes slots of the task's region only and looks at nothing but the
occupancy of that region (thread-local free list + a private part of the unused slots) -/
def AllocLocal (reg : Nat → Bool) (al : Heap → Nat) : Prop :=
  (∀ h, reg (al h) = true) ∧
  ∀ h h' : Heap, (∀ k, reg k = true → (h.sh k).isSome = (h'.sh k).isSome) → al h = al h'

/-- slot `j` has a parent among the slots of `reg` -/
def hasPar (reg : Nat → Bool) (sh : Nat → Option Node) (j : Nat) : Prop :=
  ∃ p n, reg p = true ∧ sh p = some n ∧ (n.t = .inner j ∨ n.e = .inner j)

/-- parent edges into `j` from slots of `reg` / from the other slots -/
def refsIn (reg : Nat → Bool) (h : Heap) (j : Nat) : Nat :=
  ((List.range h.slots.length).map fun p => if reg p then cntS (h.sh p) j else 0).sum

def refsOut (reg : Nat → Bool) (h : Heap) (j : Nat) : Nat :=
  ((List.range h.slots.length).map fun p => if reg p then 0 else cntS (h.sh p) j).sum

/-- the two heaps hold the same nodes in the same slots (the slot lists may differ in the number
of trailing free slots) -/
def Heap.Same (h h' : Heap) : Prop := ∀ k, h.get? k = h'.get? k

/-! ## a sequence of swaps, each with its own allocator and iteration order -/

/-- one `level_swap` call: index into `from_ne`, the allocator of the executing worker, the
iteration order of the hash table -/
structure SwapCfg where
  i : Nat
  al : Heap → Nat
  ord : List Nat → List Nat

/-- the `swap` closure applied to a list of calls -/
def swapsGH (fromNe : List Nat) (r : RState) (cfgs : List SwapCfg) : RState :=
  cfgs.foldl (fun r c => levelSwapG c.al c.ord r (fromNe.getD c.i 0) (fromNe.getD (c.i + 1) 0)) r

end OxiddModel.Reorder.SwapStore
