import OxiddModel.Reorder.ConcurrentStoreInterleave
import OxiddModel.Reorder.PropertiesStore

/-!
# A concrete local allocator, and a concrete interleaving of two `level_swap`s

The theorems of `ConcurrentStoreInterleave.lean` assume of the slot allocator of every task that
it is `AllocOK` (returns a free slot) and `AllocLocal` (returns a slot of the task's region and
looks at nothing but the occupancy of that region). This file gives an allocator with these
properties — worker `c` of `m` workers owns the slots `off + q * m + c` and takes the first free
one — and instantiates `treach_task` / `swap_steps_interleave` with two tasks on a store with
four levels (non-vacuity of the hypotheses).
-/
namespace OxiddModel.Reorder.SwapStore
open OxiddModel.Bdd OxiddModel.Bdd.Refine OxiddModel.Reorder

/-! ## bounded search for the least index satisfying `p` -/

/-- the least `j ≥ q` with `p j`, looking at `q, …, q + f - 1`; `q + f` if there is none -/
def leastFrom (p : Nat → Bool) : Nat → Nat → Nat
  | 0, q => q
  | f + 1, q => if p q then q else leastFrom p f (q + 1)

theorem leastFrom_spec (p : Nat → Bool) : ∀ (f q : Nat), p (q + f) = true →
    p (leastFrom p f q) = true ∧ ∀ j, q ≤ j → j < leastFrom p f q → p j = false := by
  intro f
  induction f with
  | zero =>
    intro q h
    exact ⟨h, fun j h1 h2 => absurd h2 (Nat.not_lt.mpr h1)⟩
  | succ f ih =>
    intro q h
    unfold leastFrom
    by_cases hq : p q = true
    · rw [if_pos hq]
      exact ⟨hq, fun j h1 h2 => absurd h2 (Nat.not_lt.mpr h1)⟩
    · rw [if_neg hq]
      have h' : p (q + 1 + f) = true := by
        have : q + 1 + f = q + (f + 1) := by omega
        rw [this]; exact h
      obtain ⟨h1, h2⟩ := ih (q + 1) h'
      refine ⟨h1, fun j hj1 hj2 => ?_⟩
      by_cases hjq : j = q
      · subst hjq; simpa using hq
      · exact h2 j (by omega) hj2

/-- the least index with `p` is determined by `p` -/
theorem least_unique {p p' : Nat → Bool} {a b : Nat} (hp : ∀ j, p j = p' j)
    (ha : p a = true) (ha' : ∀ j, j < a → p j = false)
    (hb : p' b = true) (hb' : ∀ j, j < b → p' j = false) : a = b := by
  rcases Nat.lt_trichotomy a b with h | h | h
  · have := hb' a h; rw [← hp a, ha] at this; cases this
  · exact h
  · have := ha' b h; rw [hp b, hb] at this; cases this

theorem Heap.get?_of_length_le {h : Heap} {k : Nat} (hk : h.slots.length ≤ k) : h.get? k = none := by
  unfold Heap.get?
  rw [List.getElem?_eq_none hk]; rfl

/-! ## the residue-class allocator -/

/-- slot `off + q * m + c` is free -/
def poolFree (off m c : Nat) (h : Heap) (q : Nat) : Bool := h.get? (off + q * m + c) == none

/-- first free slot among `off + c, off + m + c, off + 2 * m + c, …`: worker `c` of `m` workers
owns the slots `≥ off` whose distance to `off` is `c` modulo `m` -/
def poolAllocFrom (off m c : Nat) (h : Heap) : Nat :=
  off + leastFrom (poolFree off m c h) h.slots.length 0 * m + c

/-- the slots of worker `c` -/
def poolOfFrom (off m c : Nat) : Nat → Bool := fun k => decide (off ≤ k) && (k - off) % m == c

theorem poolFree_length {off m c : Nat} (hm : 0 < m) (h : Heap) :
    poolFree off m c h (0 + h.slots.length) = true := by
  unfold poolFree
  rw [Nat.zero_add, Heap.get?_of_length_le]
  · rfl
  · have : h.slots.length ≤ h.slots.length * m := Nat.le_mul_of_pos_right _ hm
    omega

theorem poolOfFrom_slot {off m c : Nat} (hc : c < m) (q : Nat) :
    poolOfFrom off m c (off + q * m + c) = true := by
  unfold poolOfFrom
  have h1 : off ≤ off + q * m + c := by omega
  have h2 : off + q * m + c - off = c + q * m := by omega
  rw [h2, Nat.add_mul_mod_self_right, Nat.mod_eq_of_lt hc]
  simp [h1]

/-- the characterisation: `poolAllocFrom off m c h = off + q * m + c` for the least `q` such that
this slot is free -/
theorem poolAllocFrom_least {off m c : Nat} (hm : 0 < m) (h : Heap) :
    ∃ q, poolAllocFrom off m c h = off + q * m + c ∧ h.get? (off + q * m + c) = none ∧
      ∀ j, j < q → h.get? (off + j * m + c) ≠ none := by
  obtain ⟨h1, h2⟩ := leastFrom_spec (poolFree off m c h) h.slots.length 0 (poolFree_length hm h)
  refine ⟨leastFrom (poolFree off m c h) h.slots.length 0, rfl, ?_, fun j hj => ?_⟩
  · simpa [poolFree] using h1
  · have := h2 j (Nat.zero_le _) hj
    intro hn
    simp [poolFree, hn] at this

theorem poolAllocFrom_ok {off m c : Nat} (hm : 0 < m) : AllocOK (poolAllocFrom off m c) := by
  intro h
  obtain ⟨q, hq, hfree, _⟩ := poolAllocFrom_least (off := off) (c := c) hm h
  rw [hq]; exact hfree

theorem poolAllocFrom_local {off m c : Nat} (hm : 0 < m) (hc : c < m) {reg : Nat → Bool}
    (hreg : ∀ k, poolOfFrom off m c k = true → reg k = true) :
    AllocLocal reg (poolAllocFrom off m c) := by
  constructor
  · intro h
    exact hreg _ (poolOfFrom_slot hc _)
  · intro h h' hocc
    have hp : ∀ q, poolFree off m c h q = poolFree off m c h' q := by
      intro q
      have := hocc (off + q * m + c) (hreg _ (poolOfFrom_slot hc q))
      unfold Heap.sh at this
      unfold poolFree
      cases hg : h.get? (off + q * m + c) <;> cases hg' : h'.get? (off + q * m + c) <;>
        simp [hg, hg'] at this ⊢
    obtain ⟨h1, h2⟩ := leastFrom_spec (poolFree off m c h) h.slots.length 0 (poolFree_length hm h)
    obtain ⟨h1', h2'⟩ :=
      leastFrom_spec (poolFree off m c h') h'.slots.length 0 (poolFree_length hm h')
    have := least_unique hp h1 (fun j hj => h2 j (Nat.zero_le _) hj) h1'
      (fun j hj => h2' j (Nat.zero_le _) hj)
    unfold poolAllocFrom
    rw [this]

/-- pools of different workers are disjoint -/
theorem poolOfFrom_disj {off m c c' : Nat} (hcc : c ≠ c') {k : Nat}
    (hk : poolOfFrom off m c k = true) : poolOfFrom off m c' k = false := by
  unfold poolOfFrom at hk ⊢
  simp only [Bool.and_eq_true, decide_eq_true_eq, beq_iff_eq] at hk
  simp only [Bool.and_eq_false_iff, decide_eq_false_iff_not, beq_eq_false_iff_ne]
  exact Or.inr (by rw [hk.2]; exact hcc)

/-- pools starting beyond the slot list are free -/
theorem poolOfFrom_free {off m c : Nat} {h : Heap} (hoff : h.slots.length ≤ off) {k : Nat}
    (hk : poolOfFrom off m c k = true) : h.sh k = none := by
  unfold poolOfFrom at hk
  simp only [Bool.and_eq_true, decide_eq_true_eq] at hk
  unfold Heap.sh
  rw [Heap.get?_of_length_le (Nat.le_trans hoff hk.1)]; rfl

/-! ### `off = 0`: the residue classes of the whole slot range -/

/-- first free slot in the residue class `c` modulo `m` -/
def poolAlloc (m c : Nat) (h : Heap) : Nat := poolAllocFrom 0 m c h

def poolOf (m c : Nat) : Nat → Bool := fun k => k % m == c

theorem poolOfFrom_zero (m c k : Nat) : poolOfFrom 0 m c k = poolOf m c k := by
  simp [poolOfFrom, poolOf]

/-- `poolAlloc m c h = q * m + c` for the least `q` such that this slot is free -/
theorem poolAlloc_least {m c : Nat} (hm : 0 < m) (h : Heap) :
    ∃ q, poolAlloc m c h = q * m + c ∧ h.get? (q * m + c) = none ∧
      ∀ j, j < q → h.get? (j * m + c) ≠ none := by
  obtain ⟨q, h1, h2, h3⟩ := poolAllocFrom_least (off := 0) (c := c) hm h
  refine ⟨q, ?_, ?_, fun j hj => ?_⟩
  · rw [poolAlloc, h1]; omega
  · have e : 0 + q * m + c = q * m + c := by omega
    rw [← e]; exact h2
  · have e : 0 + j * m + c = j * m + c := by omega
    rw [← e]; exact h3 j hj

theorem poolAlloc_ok {m c : Nat} (hm : 0 < m) (_hc : c < m) : AllocOK (poolAlloc m c) :=
  poolAllocFrom_ok hm

theorem poolAlloc_local {m c : Nat} (hm : 0 < m) (hc : c < m) {reg : Nat → Bool}
    (hreg : ∀ k, poolOf m c k = true → reg k = true) : AllocLocal reg (poolAlloc m c) :=
  poolAllocFrom_local hm hc (fun k hk => hreg k (by rw [← poolOfFrom_zero]; exact hk))

/-! ## two interleaved `level_swap`s on a store with four levels -/

/-- `f = x0 ∧ x1 ∧ x2 ∧ x3` (slot 3; slot 2 = `x1 ∧ x2 ∧ x3`, slot 1 = `x2 ∧ x3`, slot 0 = `x3`), one
external handle on `f`. The swap of the levels 0, 1 rewrites slot 3 and creates a node whose child
is slot 1 — a node of the level pair 2, 3 the other swap is working on; the swap of the levels
2, 3 rewrites slot 1. -/
def sFour : SStore :=
  ⟨⟨[some ⟨3, .term true, .term false, 2⟩, some ⟨2, .inner 0, .term false, 2⟩,
     some ⟨1, .inner 1, .term false, 2⟩, some ⟨0, .inner 2, .term false, 2⟩]⟩,
   [[3], [2], [1], [0]]⟩

def extFour : Nat → Nat := extOf [0, 0, 0, 1]

theorem sFour_inv : Inv extFour sFour := checkInv_sound (by decide)

def rFour : RState := ⟨sFour, List.range 4, [0, 1, 2, 3]⟩

theorem rFour_invL : InvL extFour rFour.toPre id rFour.s := sFour_inv.toL

/-- worker 0 of 2 takes the slots 4, 6, 8, …; worker 1 the slots 5, 7, 9, … -/
def alA : Heap → Nat := poolAllocFrom 4 2 0
def alB : Heap → Nat := poolAllocFrom 4 2 1

theorem alA_ok : AllocOK alA := poolAllocFrom_ok (by decide)
theorem alB_ok : AllocOK alB := poolAllocFrom_ok (by decide)

/-- the first task, run to its end from `rFour` -/
def taskA : Running := doneTask rFour 0 0 1 alA id (poolOfFrom 4 2 0)

/-- the shared state after the first task -/
def rFourA : RState := runTask rFour 0 1 alA (id (rFour.s.table 0))

/-- the second task, started after the first has returned -/
def taskB : Running := doneTask rFourA 1 2 3 alB id (poolOfFrom 4 2 1)

theorem treach_A : TReach rFour (rFourA, [taskA]) :=
  treach_task (a := []) (b := []) TReach.init 0 0 1 alA id (poolOfFrom 4 2 0)
    (by decide) (by decide) (fun p h1 h2 => by omega) (by decide) (by decide)
    (fun t ht => nomatch ht) alA_ok orderOK_id
    (poolAllocFrom_local (by decide) (by decide) (fun k hk => by simp [Running.reg, hk]))
    (fun k hk => poolOfFrom_free (by decide) hk)
    (fun s hs => nomatch hs)

theorem taskA_reg_B : ∀ k, poolOfFrom 4 2 1 k = true → taskA.reg k = false := by
  intro k hk
  have h0 : poolOfFrom 4 2 0 k = false := poolOfFrom_disj (by decide) hk
  have h4 : 4 ≤ k := by
    unfold poolOfFrom at hk
    simp only [Bool.and_eq_true, decide_eq_true_eq] at hk
    exact hk.1
  have e1 : taskA.loc.old = [3] := by decide
  have e2 : taskA.loc.low0 = [2] := by decide
  have e3 : taskA.pool = poolOfFrom 4 2 0 := rfl
  unfold Running.reg
  rw [e1, e2, e3, h0]
  have : k ≠ 3 ∧ k ≠ 2 := by omega
  simp [this.1, this.2]

theorem treach_AB : TReach rFour
    (runTask rFourA 2 3 alB (id (rFourA.s.table 2)), [taskA, taskB]) := by
  have hov := (treach_overlay rFour_invL treach_A).2
  have htbl : ∀ p, p ≠ 0 → p ≠ 1 → rFourA.s.table p = rFour.s.table p := by
    intro p h0 h1
    apply hov.tbl_frame
    intro t ht
    simp only [List.mem_cons, List.not_mem_nil, or_false] at ht
    subst ht
    exact ⟨h0, h1⟩
  exact treach_task (a := [taskA]) (b := []) treach_A 1 2 3 alB id (poolOfFrom 4 2 1)
    (by decide) (by decide) (fun p h1 h2 => by omega)
    (by rw [htbl 2 (by decide) (by decide)]; decide)
    (by rw [htbl 3 (by decide) (by decide)]; decide)
    (fun t ht => by
      simp only [List.append_nil, List.mem_cons, List.not_mem_nil, or_false] at ht
      subst ht; decide)
    alB_ok orderOK_id
    (poolAllocFrom_local (by decide) (by decide) (fun k hk => by simp [Running.reg, hk]))
    (fun k hk => by
      have h1 := hov.sh_frame k (fun t ht => by
        simp only [List.mem_cons, List.not_mem_nil, or_false] at ht
        subst ht; exact taskA_reg_B k hk)
      rw [h1]; exact poolOfFrom_free (by decide) hk)
    (fun s hs k hk => by
      simp only [List.append_nil, List.mem_cons, List.not_mem_nil, or_false] at hs
      subst hs; exact taskA_reg_B k hk)

/-- two tasks, the second started after the first has returned, both run to their ends: a
reachable configuration of `TStep` with concrete local allocators (non-vacuity of `treach_task`,
`swap_steps_interleave`) -/
example : ∃ Y run, TReach rFour (Y, run) ∧ (∀ t ∈ run, t.ended = true) ∧ run.length = 2 :=
  ⟨_, _, treach_AB, fun t ht => by
    simp only [List.mem_cons, List.not_mem_nil, or_false] at ht
    rcases ht with h | h <;> subst h <;> rfl, rfl⟩

/-- the resulting instance of `swap_steps_interleave`: the two swaps commute -/
theorem sFour_commute :
    RState.Same (levelSwapG alB id (levelSwapG alA id rFour 0 1) 2 3)
      (levelSwapG alA id (levelSwapG alB id rFour 2 3) 0 1) :=
  seqSwaps_order_irrelevant rFour_invL treach_AB
    (fun t ht => by
      simp only [List.mem_cons, List.not_mem_nil, or_false] at ht
      rcases ht with h | h <;> subst h <;> rfl)
    [taskA, taskB] [taskB, taskA] (List.Perm.refl _) (List.Perm.swap _ _ _)

/-- on this store the two sequential results are even literally equal (same slot lists) -/
theorem sFour_commute_eq :
    levelSwapG alB id (levelSwapG alA id rFour 0 1) 2 3 =
      levelSwapG alA id (levelSwapG alB id rFour 2 3) 0 1 := by decide +kernel

/-- both swaps have rewritten a node and allocated from their own pool (slots 4 and 5) -/
example : (levelSwapG alB id (levelSwapG alA id rFour 0 1) 2 3).s.tables = [[3], [4], [1], [5]] ∧
    (levelSwapG alB id (levelSwapG alA id rFour 0 1) 2 3).toPre = [1, 0, 3, 2] ∧
    (levelSwapG alA id rFour 0 1).s.h.get? 4 ≠ none ∧
    (levelSwapG alB id rFour 2 3).s.h.get? 5 ≠ none := by decide +kernel

/-- after `update_levels` the result satisfies the (strict) store invariant -/
example : Inv extFour (updateLevels (levelSwapG alB id (levelSwapG alA id rFour 0 1) 2 3)) :=
  checkInv_sound (by decide +kernel)

/-! ### a schedule in which the steps of the two tasks alternate -/

def cA0 : RState × TaskLoc := tBegin rFour 0 1 alA (id (rFour.s.table 0))
def tA0 : Running := ⟨0, cA0.2, id, poolOfFrom 4 2 0, [], [], false⟩
def cB0 : RState × TaskLoc := tBegin cA0.1 2 3 alB (id (cA0.1.s.table 2))
def tB0 : Running := ⟨1, cB0.2, id, poolOfFrom 4 2 1, [], [], false⟩

theorem tA0_reg_B : ∀ k, poolOfFrom 4 2 1 k = true → tA0.reg k = false := taskA_reg_B

theorem il_beginA : TReach rFour (cA0.1, [tA0]) :=
  TReach.step TReach.init (TStep.begin (a := []) (b := []) 0 0 1 alA id (poolOfFrom 4 2 0)
    (by decide) (by decide) (fun p h1 h2 => by omega) (by decide) (by decide)
    (fun t ht => nomatch ht) alA_ok orderOK_id
    (poolAllocFrom_local (by decide) (by decide) (fun k hk => by simp [Running.reg, hk]))
    (fun k hk => poolOfFrom_free (by decide) hk)
    (fun s hs => nomatch hs))

/-- task B starts while task A is between `take` and its loop -/
theorem il_beginB : TReach rFour (cB0.1, [tA0, tB0]) :=
  TReach.step il_beginA (TStep.begin (a := [tA0]) (b := []) 1 2 3 alB id (poolOfFrom 4 2 1)
    (by decide) (by decide) (fun p h1 h2 => by omega) (by decide) (by decide)
    (fun t ht => by
      simp only [List.append_nil, List.mem_cons, List.not_mem_nil, or_false] at ht
      subst ht; decide)
    alB_ok orderOK_id
    (poolAllocFrom_local (by decide) (by decide) (fun k hk => by simp [Running.reg, hk]))
    (fun k hk => poolOfFrom_free (h := cA0.1.s.h) (by decide) hk)
    (fun s hs k hk => by
      simp only [List.append_nil, List.mem_cons, List.not_mem_nil, or_false] at hs
      subst hs; exact tA0_reg_B k hk))

/-- `swap_steps_interleave` for two returned tasks `level_swap(0, 1)` / `level_swap(2, 3)` with the
allocators `alA` / `alB` on `rFour`, whatever the schedule was -/
theorem sFour_two_tasks {Y : RState} {tA tB : Running} (h : TReach rFour (Y, [tA, tB]))
    (hA : tA.ended = true) (hB : tB.ended = true)
    (eA : tA.loc.al = alA ∧ tA.ord = id ∧ tA.loc.u = 0 ∧ tA.loc.l = 1)
    (eB : tB.loc.al = alB ∧ tB.ord = id ∧ tB.loc.u = 2 ∧ tB.loc.l = 3) :
    RState.Same Y (levelSwapG alB id (levelSwapG alA id rFour 0 1) 2 3) ∧
    RState.Same Y (levelSwapG alA id (levelSwapG alB id rFour 2 3) 0 1) := by
  have hall : ∀ t ∈ [tA, tB], t.ended = true := fun t ht => by
    simp only [List.mem_cons, List.not_mem_nil, or_false] at ht
    rcases ht with h | h <;> subst h <;> assumption
  have h1 := swap_steps_interleave rFour_invL h hall [tA, tB] (List.Perm.refl _)
  have h2 := swap_steps_interleave rFour_invL h hall [tB, tA] (List.Perm.swap _ _ _)
  obtain ⟨a1, a2, a3, a4⟩ := eA
  obtain ⟨b1, b2, b3, b4⟩ := eB
  simp only [seqSwaps, List.foldl, a1, a2, a3, a4, b1, b2, b3, b4] at h1 h2
  exact ⟨h1, h2⟩

/-- `begin A, begin B, node A, node B, drop A, drop B, fin A, fin B`: a genuinely interleaved
schedule; by `swap_steps_interleave` its final state is that of the sequential execution, in
either order -/
theorem sFour_interleaved : ∃ Y run, TReach rFour (Y, run) ∧ (∀ t ∈ run, t.ended = true) ∧
    run.length = 2 ∧
    RState.Same Y (levelSwapG alB id (levelSwapG alA id rFour 0 1) 2 3) ∧
    RState.Same Y (levelSwapG alA id (levelSwapG alB id rFour 2 3) 0 1) := by
  have h3 := TReach.step il_beginB
    (TStep.node (a := []) (b := [tB0]) (t := tA0) (k := 3) (rest := []) rfl)
  have h4 := TReach.step h3
    (TStep.node (a := [_]) (b := []) (t := tB0) (k := 1) (rest := []) rfl)
  have h5 := TReach.step h4
    (TStep.drop (a := []) (b := [_]) (j := 3) (rest := []) rfl rfl)
  have h6 := TReach.step h5
    (TStep.drop (a := [_]) (b := []) (j := 1) (rest := []) rfl rfl)
  have h7 := TReach.step h6 (TStep.fin (a := []) (b := [_]) rfl rfl rfl)
  have h8 := TReach.step h7 (TStep.fin (a := [_]) (b := []) rfl rfl rfl)
  have hs := sFour_two_tasks h8 rfl rfl ⟨rfl, rfl, rfl, rfl⟩ ⟨rfl, rfl, rfl, rfl⟩
  refine ⟨_, _, h8, ?_, rfl, hs.1, hs.2⟩
  intro t ht
  simp only [List.nil_append, List.cons_append, List.mem_cons, List.not_mem_nil, or_false] at ht
  rcases ht with h | h <;> subst h <;> rfl

end OxiddModel.Reorder.SwapStore
