import OxiddModel.Reorder.ConcurrentStoreOverlay
import OxiddModel.Reorder.ConcurrentStoreLock
import OxiddModel.Reorder.ConcurrentStoreShape

/-!
# One step of a task on the shared heap and on its solo heap

`step_core`: one loop iteration of a `level_swap`, executed on the shared heap `H` and on the heap
`st.h` of the task running alone (the two `Agree` on the task's region), gives the same tables and
agreeing heaps again. The only reads that are not covered by `Agree` are the `rc = 1` tests of the
orphan checks; they concern entries of the task's current upper table, whose counters contain the
table's reference, so foreign parent edges (`FP`) cannot flip the test (`rc_test_agree`).
`drop_core`: one entry of `drop(old_upper)`.
-/
namespace OxiddModel.Reorder.SwapStore
open OxiddModel.Bdd OxiddModel.Bdd.Refine OxiddModel.Reorder

/-- foreign parent edges into `j`: the same number in both heaps, or at least one in both -/
def FP (reg : Nat → Bool) (H S : Heap) (j : Nat) : Prop :=
  refsOut reg H j = refsOut reg S j ∨ (1 ≤ refsOut reg H j ∧ 1 ≤ refsOut reg S j)

/-- the `rc = 1` test gives the same answer in both heaps -/
theorem rc_test_agree {reg : Nat → Bool} {H S : Heap} {wH wS : Nat → Nat} (hH : RCx wH H) (hS : RCx wS S)
    {k : Nat} (hw : wH k = wS k) (hw1 : 1 ≤ wS k) (hin : refsIn reg H k = refsIn reg S k)
    (hfp : FP reg H S k) : (H.rcOf k = 1 ↔ S.rcOf k = 1) := by
  have h1 := hH k
  have h2 := hS k
  rw [refs_split reg H k] at h1
  rw [refs_split reg S k] at h2
  rcases hfp with h | ⟨ha, hb⟩
  · constructor <;> intro h' <;> omega
  · constructor <;> intro h' <;> omega

/-- one entry of `drop(old_upper)`: the entry is counted at least twice (taken view + a table), so it
is never freed, in neither heap -/
theorem drop_core {reg : Nat → Bool} {lp : Nat} {H S : Heap} {j : Nat} {wH wS : Nat → Nat}
    (hag : Agree reg lp H S) (hj : reg j = true) (hH : RCx wH H) (hS : RCx wS S)
    (hw : wH j = wS j) (h2 : 2 ≤ wS j) :
    Agree reg lp (dropTableEdge H j) (dropTableEdge S j) ∧
    (∀ k, reg k = false → (dropTableEdge H j).sh k = H.sh k) ∧
    (∀ k, reg k = false → (dropTableEdge S j).sh k = S.sh k) ∧
    (dropTableEdge H j).sh = H.sh ∧ (dropTableEdge S j).sh = S.sh := by
  have h1 := hH j
  have h1' := hS j
  have nH : ¬ H.rcOf j = 1 := by omega
  have nS : ¬ S.rcOf j = 1 := by omega
  obtain ⟨a1, a2, a3⟩ := dropTableEdge_lock hag hj (H := H) (S := S)
    ⟨fun h => absurd h nH, fun h => absurd h nS⟩
  refine ⟨a1, a2, a3, ?_, ?_⟩
  · funext k
    rw [sh_dropTableEdge', if_neg (fun h => nH h.2)]
  · funext k
    rw [sh_dropTableEdge', if_neg (fun h => nS h.2)]

/-! ## the orphan check, with test agreement asked for the table entries and the child only -/

theorem tblRemove_lock' {reg : Nat → Bool} {lp : Nat} {H S : Heap} {U : List Nat} (a b : Edge)
    (hag : Agree reg lp H S) (hU : ∀ k ∈ U, reg k = true)
    (htest : ∀ k ∈ U, (H.rcOf k = 1 ↔ S.rcOf k = 1)) :
    (tblRemove H U a b).2 = (tblRemove S U a b).2 ∧
    Lock reg lp H S (tblRemove H U a b).1 (tblRemove S U a b).1 ∧
    (∀ k ∈ (tblRemove S U a b).2, k ∈ U) := by
  unfold tblRemove
  rw [lookup_agree hag hU a b]
  cases hl : lookup S U a b with
  | none => exact ⟨rfl, Lock.refl hag, fun k hk => hk⟩
  | some j =>
    simp only
    have hj := (lookup_some hl).1
    refine ⟨by first | rfl | trivial, dropTableEdge_lock' hag (hU j hj) (htest j hj), ?_⟩
    intro k hk
    exact List.mem_of_mem_erase hk

theorem orphan_lock' {reg : Nat → Bool} {lp : Nat} {H S : Heap} {U : List Nat} (c : Edge)
    (hag : Agree reg lp H S) (hU : ∀ k ∈ U, reg k = true)
    (htest : ∀ k ∈ U, (H.rcOf k = 1 ↔ S.rcOf k = 1))
    (htc : ∀ j, c = .inner j → reg j = true → (∃ n, S.sh j = some n ∧ n.level = lp) →
      (H.rcOf j = 1 ↔ S.rcOf j = 1)) :
    (orphan lp (H, U) c).2 = (orphan lp (S, U) c).2 ∧
    Lock reg lp H S (orphan lp (H, U) c).1 (orphan lp (S, U) c).1 ∧
    (∀ k ∈ (orphan lp (S, U) c).2, k ∈ U) := by
  cases c with
  | term v => exact ⟨rfl, Lock.refl hag, fun k hk => hk⟩
  | inner j =>
    cases hr : reg j with
    | false =>
      rw [orphan_foreign (fun m hm => hag.lblH j m.toNode hr (by simp [Heap.sh, hm])),
        orphan_foreign (fun m hm => hag.lblS j m.toNode hr (by simp [Heap.sh, hm]))]
      exact ⟨rfl, Lock.refl hag, fun k hk => hk⟩
    | true =>
      have hown := hag.own j hr
      unfold orphan
      simp only
      cases hH : H.get? j with
      | none =>
        cases hS : S.get? j with
        | none => exact ⟨rfl, Lock.refl hag, fun k hk => hk⟩
        | some n => simp [Heap.sh, hH, hS] at hown
      | some m =>
        cases hS : S.get? j with
        | none => simp [Heap.sh, hH, hS] at hown
        | some n =>
          simp only [Heap.sh, hH, hS, Option.map, Option.some.injEq, SNode.toNode,
            Node.mk.injEq] at hown
          obtain ⟨hl', ht', he'⟩ := hown
          simp only
          by_cases hl : n.level = lp
          · have ht := htc j rfl hr ⟨n.toNode, by simp [Heap.sh, hS], hl⟩
            rw [rcOf_of_get? hH, rcOf_of_get? hS] at ht
            by_cases hrc : n.rc = 1
            · rw [if_pos ⟨hl'.trans hl, ht.mpr hrc⟩, if_pos ⟨hl, hrc⟩, ht', he']
              exact tblRemove_lock' n.t n.e hag hU htest
            · rw [if_neg (fun h => hrc (ht.mp h.2)), if_neg (fun h => hrc h.2)]
              exact ⟨rfl, Lock.refl hag, fun k hk => hk⟩
          · rw [if_neg (fun h => hl (hl'.symm.trans h.1)), if_neg (fun h => hl h.1)]
            exact ⟨rfl, Lock.refl hag, fun k hk => hk⟩

/-! ## the two runs in lockstep, with the counter equations -/

/-- the shared run (`x`, from the heap `H0`) and the solo run (`y`, from the heap `S0`) after the same
pieces of a loop body -/
structure Sync (reg : Nat → Bool) (b : Nat) (RH R : Nat → Nat) (H0 S0 : Heap) (x y : LS) : Prop where
  up : x.up = y.up
  lo : x.lo = y.lo
  ag : Agree reg b x.h y.h
  frH : ∀ k, reg k = false → x.h.sh k = H0.sh k
  frS : ∀ k, reg k = false → y.h.sh k = S0.sh k
  rU : ∀ k ∈ y.up, reg k = true
  rL : ∀ k ∈ y.lo, reg k = true
  rcH : RCx (wOf RH x.up x.lo) x.h
  rcS : RCx (wOf R y.up y.lo) y.h

/-- the `rc = 1` test agrees on every own slot that is counted by one of the task's tables (or by
something else outside the heap) -/
theorem Sync.test {reg : Nat → Bool} {b : Nat} {RH R : Nat → Nat} {H0 S0 : Heap} {x y : LS}
    (hs : Sync reg b RH R H0 S0 x y) (hRR : ∀ k, reg k = true → RH k = R k)
    (hfp : ∀ j, reg j = true → FP reg H0 S0 j) {k : Nat} (hk : reg k = true)
    (h1 : 1 ≤ wOf R y.up y.lo k) : (x.h.rcOf k = 1 ↔ y.h.rcOf k = 1) := by
  refine rc_test_agree (reg := reg) hs.rcH hs.rcS ?_ h1 (refsIn_congr hs.ag.own k) ?_
  · simp only [wOf]; rw [hs.up, hs.lo, hRR k hk]
  · have e1 := refsOut_congr hs.frH k
    have e2 := refsOut_congr hs.frS k
    unfold FP; rw [e1, e2]; exact hfp k hk

/-- one orphan check; `hc`: the child, if it is an own slot labelled `b`, is an entry of the upper
table -/
theorem Sync.orphanLS {reg : Nat → Bool} {b : Nat} {RH R : Nat → Nat} {H0 S0 : Heap} {x y : LS}
    (hs : Sync reg b RH R H0 S0 x y) (hRR : ∀ k, reg k = true → RH k = R k)
    (hfp : ∀ j, reg j = true → FP reg H0 S0 j) (c : Edge)
    (hc : ∀ j, c = .inner j → reg j = true → (∃ n, y.h.sh j = some n ∧ n.level = b) → j ∈ y.up) :
    Sync reg b RH R H0 S0 (SwapStore.orphanLS b x c) (SwapStore.orphanLS b y c) := by
  have htU : ∀ k ∈ y.up, (x.h.rcOf k = 1 ↔ y.h.rcOf k = 1) := fun k hk =>
    hs.test hRR hfp (hs.rU k hk) (by
      simp only [wOf]; have := List.count_pos_iff.mpr hk; omega)
  obtain ⟨h1, h2, h3⟩ := orphan_lock' (lp := b) (H := x.h) (S := y.h) (U := y.up) c hs.ag hs.rU htU
    (fun j hj hr hex => htU j (hc j hj hr hex))
  have e1 : (SwapStore.orphanLS b x c).up = (SwapStore.orphanLS b y c).up := by
    show (orphan b (x.h, x.up) c).2 = (orphan b (y.h, y.up) c).2
    rw [hs.up]; exact h1
  have e2 : (SwapStore.orphanLS b x c).h = (orphan b (x.h, y.up) c).1 := by
    show (orphan b (x.h, x.up) c).1 = _
    rw [hs.up]
  refine ⟨e1, hs.lo, ?_, ?_, ?_, ?_, hs.rL, orphanLS_RCx c hs.rcH, orphanLS_RCx c hs.rcS⟩
  · rw [e2]; exact h2.ag
  · intro k hk; rw [e2, h2.frH k hk]; exact hs.frH k hk
  · intro k hk
    show (orphan b (y.h, y.up) c).1.sh k = _
    rw [h2.frS k hk]; exact hs.frS k hk
  · intro k hk; exact hs.rU k (h3 k hk)

/-- **one loop iteration, executed on the shared heap `H` and on the solo heap `st.h`**: same tables,
agreeing heaps, foreign shapes untouched. `st` is the solo loop state, for which the sequential loop
invariant `LInv` holds. -/
theorem step_core {ext : Nat → Nat} {a b : Nat} {P : Nat → Prop} {sh0 : Nat → Option Node} {old : List Nat}
    {R RH : Nat → Nat} {reg : Nat → Bool} {al : Heap → Nat} {H : Heap} {st : LS} {i : Nat} {todo : List Nat}
    (hok : AllocOK al) (hal : AllocLocal reg al)
    (hp : Pre a b P sh0 old) (hRext : ∀ k, ext k ≤ R k)
    (hinv : LInv a b P sh0 old ext R st (i :: todo))
    (hag : Agree reg b H st.h)
    (hold : ∀ k ∈ old, reg k = true) (hU : ∀ k ∈ st.up, reg k = true) (hL : ∀ k ∈ st.lo, reg k = true)
    (hH : RCx (wOf RH st.up st.lo) H) (hRR : ∀ k, reg k = true → RH k = R k)
    (hfp : ∀ j, reg j = true → FP reg H st.h j) :
    let x := stepNode al a b old ⟨H, st.up, st.lo⟩ i
    let y := stepNode al a b old st i
    x.up = y.up ∧ x.lo = y.lo ∧ Agree reg b x.h y.h ∧
    (∀ k, reg k = false → x.h.sh k = H.sh k) ∧ (∀ k, reg k = false → y.h.sh k = st.h.sh k) ∧
    (∀ k ∈ y.up, reg k = true) ∧ (∀ k ∈ y.lo, reg k = true) := by
  have _ := hRext
  have hj := hinv.j
  have hit : i ∈ i :: todo := List.mem_cons_self ..
  obtain ⟨n, hsi, hn, hla⟩ := hj.todo_live hp hit
  obtain ⟨m', hm', hmn'⟩ := sh_eq_some.mp hsi
  subst hmn'
  have hri : reg i = true := hold i (hj.todoSh i hit).1
  obtain ⟨m, hm, hmn⟩ := sh_eq_some.mp ((hag.own i hri).trans hsi)
  simp only [SNode.toNode, Node.mk.injEq] at hmn
  obtain ⟨-, ht, he⟩ := hmn
  have hx := stepNode_eq al a b old ⟨H, st.up, st.lo⟩ i
  have hy := stepNode_eq al a b old st i
  simp only [hm, hm'] at hx hy
  have hrcH5 := rewPre_RCx hok (a := a) (b := b) (old := old) (st := ⟨H, st.up, st.lo⟩) (R := RH) hH hm
  rw [ht, he] at hrcH5
  rw [ht, he, lvlIs_agree hag, lvlIs_agree hag] at hx
  show (stepNode al a b old ⟨H, st.up, st.lo⟩ i).up = (stepNode al a b old st i).up ∧ _
  rw [hx, hy]
  by_cases hcond : (!lvlIs st.h b m'.t && !lvlIs st.h b m'.e) = true
  · rw [if_pos hcond, if_pos hcond]
    obtain ⟨k1, k2, k3, k4, k5, k6⟩ := moveLS_lock (U := st.up) (L := st.lo) (i := i) hag hri hL
    refine ⟨k1.trans k2.symm, k3, hag.of_sh k4 k5, fun k _ => by rw [k4], fun k _ => by rw [k5], ?_, ?_⟩
    · intro k hk
      have : (moveLS st i).up = st.up := k2
      rw [this] at hk; exact hU k hk
    · intro k hk
      rcases k6 k hk with h | h
      · exact hL k h
      · rw [h]; exact hri
  · rw [if_neg hcond, if_neg hcond]
    have hrcS5 := rewPre_RCx hok (a := a) (b := b) (old := old) (st := st) (R := R) hinv.rc hm'
    obtain ⟨l1, l2, l3, l4, l5, l6, l7⟩ := rewPre_lock (al := al) (up := a) (lp := b) (old := old)
      (U := st.up) (L := st.lo) (H := H) (S := st.h) (i := i) m'.t m'.e hal hag hri hold hU hL
    have s5 : Sync reg b RH R H st.h (rewPre al a b old ⟨H, st.up, st.lo⟩ i m'.t m'.e)
        (rewPre al a b old st i m'.t m'.e) := ⟨l1, l2, l3, l4, l5, l6, l7, hrcH5, hrcS5⟩
    obtain ⟨-, sh5, -, -, -, up5⟩ := rewPre_shape' hok (a := a) (b := b) (old := old) hm'
    -- an old child that is seen with the label `b` after the rewrite is a surviving entry
    have hchild : ∀ c, (c = m'.t ∨ c = m'.e) → ∀ j, c = .inner j →
        (∃ nn, (rewPre al a b old st i m'.t m'.e).h.sh j = some nn ∧ nn.level = b) →
        j ∈ st.up ∧ (rewPre al a b old st i m'.t m'.e).h.sh j = sh0 j := by
      intro c hc j hcj ⟨nn, hnn, hlb⟩
      obtain ⟨hba, hsame, hat⟩ := hj.child_facts hp hit hn (c := c) hc
      have hs0 := hsame j hcj
      have hlive : ∃ nj, sh0 j = some nj ∧ nj.level ≠ a := by
        rcases hba with hb | ⟨k, nk, hck, hnk, hlk⟩
        · rw [hcj] at hb
          obtain ⟨nj, h1, h2, _⟩ := hb
          exact ⟨nj, h1, h2⟩
        · rw [hcj] at hck; injection hck with hck; subst hck
          exact ⟨nk, hnk, fun h => hp.ab (h.symm.trans hlk)⟩
      obtain ⟨nj, hnj, hnja⟩ := hlive
      have hji : j ≠ i := by
        intro h; subst h
        rw [hn] at hnj; cases hnj; exact hnja hla
      have h5j : (rewPre al a b old st i m'.t m'.e).h.sh j = sh0 j := by
        rcases sh5 j hji with h | ⟨h, -⟩
        · rw [h, hs0]
        · rw [hs0, hnj] at h; cases h
      refine ⟨?_, h5j⟩
      rw [h5j, hnj] at hnn; cases hnn
      rcases hba with hb | hb
      · rw [hcj] at hb
        obtain ⟨nj', h1, _, h3, _⟩ := hb
        rw [hnj] at h1; cases h1; exact absurd hlb h3
      · obtain ⟨k, hck, hku, _⟩ := hat hb
        rw [hcj] at hck; injection hck with hck; subst hck; exact hku
    generalize rewPre al a b old ⟨H, st.up, st.lo⟩ i m'.t m'.e = x5 at s5 ⊢
    generalize rewPre al a b old st i m'.t m'.e = y5 at s5 up5 hchild ⊢
    have s6 := s5.orphanLS hRR hfp m'.t
      (fun j hcj _ hex => up5 j (hchild m'.t (Or.inl rfl) j hcj hex).1)
    have fin : ∀ {x y : LS}, Sync reg b RH R H st.h x y →
        x.up = y.up ∧ x.lo = y.lo ∧ Agree reg b x.h y.h ∧
        (∀ k, reg k = false → x.h.sh k = H.sh k) ∧ (∀ k, reg k = false → y.h.sh k = st.h.sh k) ∧
        (∀ k ∈ y.up, reg k = true) ∧ (∀ k ∈ y.lo, reg k = true) :=
      fun s => ⟨s.up, s.lo, s.ag, s.frH, s.frS, s.rU, s.rL⟩
    by_cases hte : m'.e = m'.t
    · rw [if_pos hte, if_pos hte]
      exact fin s6
    · rw [if_neg hte, if_neg hte]
      obtain ⟨-, -, sh6, up6⟩ := orphanLS_shape' b y5 m'.t
      refine fin (s6.orphanLS hRR hfp m'.e ?_)
      intro j hcj _ ⟨nn, hnn, hlb⟩
      have hnn5 : y5.h.sh j = some nn := by
        rcases sh6 j with h | ⟨h, -⟩
        · rw [← h]; exact hnn
        · rw [hnn] at h; cases h
      obtain ⟨hju, hj0⟩ := hchild m'.e (Or.inr rfl) j hcj ⟨nn, hnn5, hlb⟩
      rcases up6 j (up5 j hju) with h | ⟨j1, mm, nn', hc1, hs1, hl1, -, hsj, ht1, he1, -⟩
      · exact h
      · exfalso
        obtain ⟨-, hj10⟩ := hchild m'.t (Or.inl rfl) j1 hc1 ⟨mm, hs1, hl1⟩
        rw [hnn5] at hsj; cases hsj
        have hmn : mm = nn := by
          cases mm; cases nn
          simp only at hl1 hlb ht1 he1
          subst hl1 hlb ht1 he1; rfl
        subst hmn
        have := hp.uniq j1 j mm (by rw [← hj10]; exact hs1) (by rw [← hj0]; exact hnn5)
        subst this
        exact hte (hcj.trans hc1.symm)

end OxiddModel.Reorder.SwapStore
