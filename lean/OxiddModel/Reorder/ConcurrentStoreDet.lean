import OxiddModel.Reorder.ConcurrentStoreDetReplay

/-! determinacy of the overlay description and the rebase step
(`RState.Same`, `overlay_det`, `Overlay.of_same` are in `ConcurrentStoreDetLemmas.lean`) -/
namespace OxiddModel.Reorder.SwapStore
open OxiddModel.Bdd OxiddModel.Bdd.Refine OxiddModel.Reorder

/-- **the critical section after a swap**: the finished task `t` becomes part of `base`.
`hsep`: neither position of `t` lies strictly between the two positions of another running task
(the positions of a task are neighbouring entries of the sorted list `from_ne`). -/
theorem overlay_finish {ext : Nat → Nat} {pos : Nat → Nat} {base Y : RState} {a b : List Running}
    {t : Running}
    (hrun : RunOK ext pos base (a ++ t :: b)) (hov : Overlay ext base Y (a ++ t :: b))
    (hend : t.ended = true)
    (hsep : ∀ s ∈ a ++ b, ¬ (s.loc.u < t.loc.u ∧ t.loc.u < s.loc.l) ∧
      ¬ (s.loc.u < t.loc.l ∧ t.loc.l < s.loc.l)) :
    ∃ pos', RunOK ext pos' (levelSwapG t.loc.al t.ord base t.loc.u t.loc.l) (a ++ b) ∧
      Overlay ext (levelSwapG t.loc.al t.ord base t.loc.u t.loc.l) Y (a ++ b) := by
  have hinv := hrun.inv
  have hokt : TaskOK base t := hrun.ok t (List.mem_append_right _ List.mem_cons_self)
  have hul := hokt.ul
  have hl := hokt.llen
  have hu : t.loc.u < base.toPre.length := by omega
  -- the pairwise facts
  have hpw := List.pairwise_append.mp hrun.disj
  have hpwb := List.pairwise_cons.mp hpw.2.1
  have hpwab : (a ++ b).Pairwise TaskDisj :=
    List.pairwise_append.mpr ⟨hpw.1, hpwb.2, fun x hx y hy => hpw.2.2 x hx y (List.mem_cons_of_mem _ hy)⟩
  have hdt : ∀ s ∈ a ++ b, TaskDisj s t := by
    intro s hs
    rcases List.mem_append.mp hs with h | h
    · exact hpw.2.2 s h t List.mem_cons_self
    · exact dt_disj_symm (hpwb.1 s h)
  have hokab : ∀ s ∈ a ++ b, TaskOK base s := by
    intro s hs
    apply hrun.ok
    rcases List.mem_append.mp hs with h | h
    · exact List.mem_append_left _ h
    · exact List.mem_append_right _ (List.mem_cons_of_mem _ h)
  -- the sequential result
  obtain ⟨up, lo, hres⟩ := levelSwapG_res hokt.alok hokt.ordok hinv hul hl hokt.gap base.l2v
  have hres' : SwapResG ext base.toPre pos base.s t.loc.u t.loc.l
      (levelSwapG t.loc.al t.ord base t.loc.u t.loc.l).s up lo := hres
  have hinv0 := ResG.invL hinv hul hl hokt.gap rfl rfl hres'.toResG
  have htp : (levelSwapG t.loc.al t.ord base t.loc.u t.loc.l).toPre = swapLab base.toPre t.loc.u t.loc.l :=
    levelSwapG_toPre _ _ base hu hl
  have hinv' : InvL ext (levelSwapG t.loc.al t.ord base t.loc.u t.loc.l).toPre
      (swapPos pos (base.toPre.getD t.loc.u 0) (base.toPre.getD t.loc.l 0) t.loc.u t.loc.l)
      (levelSwapG t.loc.al t.ord base t.loc.u t.loc.l).s := by rw [htp]; exact hinv0
  refine ⟨swapPos pos (base.toPre.getD t.loc.u 0) (base.toPre.getD t.loc.l 0) t.loc.u t.loc.l, ?_⟩
  -- world 1: replay `t`, then `b`, then `a` on `base`
  have hrep : dt_replay base t = levelSwapG t.loc.al t.ord base t.loc.u t.loc.l :=
    dt_replay_ended hinv.len hokt hend
  have w0 := dt_replay_overlay (a := []) (b := []) (s := t)
    (⟨hinv, (fun _ h => nomatch h), List.Pairwise.nil⟩ : RunOK ext pos base ([] ++ []))
    (overlay_nil hinv) hokt (fun _ h => nomatch h)
  rw [hrep] at w0
  have w0' : RunOK ext pos base [t] ∧
      Overlay ext base (levelSwapG t.loc.al t.ord base t.loc.u t.loc.l) [t] := w0
  have w1 := dt_append_overlay b (pre := [t]) w0'.1 w0'.2
    (fun s hs => hokab s (List.mem_append_right _ hs)) hpw.2.1
  have w2 := dt_prepend_overlay a (post := [t] ++ b) w1.1 w1.2
    (fun s hs => hokab s (List.mem_append_left _ hs)) hrun.disj
  -- world 2: replay `b`, then `a` on the new base
  have hfr : ∀ k, t.reg k = false →
      (levelSwapG t.loc.al t.ord base t.loc.u t.loc.l).s.h.sh k = base.s.h.sh k := by
    intro k hk
    apply w0'.2.sh_frame
    intro x hx
    cases List.mem_singleton.mp hx
    exact hk
  have hokab' : ∀ s ∈ a ++ b, TaskOK (levelSwapG t.loc.al t.ord base t.loc.u t.loc.l) s :=
    fun s hs => dt_taskOK_rebase hres' hu hl hfr (hokab s hs) (hdt s hs) (hsep s hs)
  have v0 : RunOK ext (swapPos pos (base.toPre.getD t.loc.u 0) (base.toPre.getD t.loc.l 0) t.loc.u t.loc.l)
      (levelSwapG t.loc.al t.ord base t.loc.u t.loc.l) [] :=
    ⟨hinv', (fun _ h => nomatch h), List.Pairwise.nil⟩
  have v1 := dt_append_overlay b (pre := []) v0 (overlay_nil hinv')
    (fun s hs => hokab' s (List.mem_append_right _ hs)) (by rw [List.nil_append]; exact hpwb.2)
  have v2 := dt_prepend_overlay a (post := [] ++ b) v1.1 v1.2
    (fun s hs => hokab' s (List.mem_append_left _ hs)) (by rw [List.nil_append]; exact hpwab)
  rw [List.nil_append] at v2
  -- the two descriptions of the same state
  have hsame : RState.Same
      (a.foldr (fun s Z => dt_replay Z s)
        (b.foldl dt_replay (levelSwapG t.loc.al t.ord base t.loc.u t.loc.l))) Y :=
    overlay_det w2.2 hov
  exact ⟨v2.1, v2.2.of_same hsame⟩

end OxiddModel.Reorder.SwapStore
