import OxiddModel.Reorder.ConcurrentStoreFwd

/-! determinacy of the overlay description -/
namespace OxiddModel.Reorder.SwapStore
open OxiddModel.Bdd OxiddModel.Bdd.Refine OxiddModel.Reorder

/-- the two states hold the same nodes in the same slots (the slot lists may differ in trailing
free slots), and the same tables, `to_pre` and level→variable map -/
def RState.Same (r r' : RState) : Prop :=
  Heap.Same r.s.h r'.s.h ∧ r.s.tables = r'.s.tables ∧ r.toPre = r'.toPre ∧ r.l2v = r'.l2v

theorem RState.Same.refl (r : RState) : RState.Same r r := ⟨fun _ => rfl, rfl, rfl, rfl⟩
theorem RState.Same.symm {r r' : RState} (h : RState.Same r r') : RState.Same r' r :=
  ⟨fun k => (h.1 k).symm, h.2.1.symm, h.2.2.1.symm, h.2.2.2.symm⟩
theorem RState.Same.trans {r r' r'' : RState} (h : RState.Same r r') (h' : RState.Same r' r'') :
    RState.Same r r'' :=
  ⟨fun k => (h.1 k).trans (h'.1 k), h.2.1.trans h'.2.1, h.2.2.1.trans h'.2.2.1, h.2.2.2.trans h'.2.2.2⟩

theorem dt_list_ext_getD {l l' : List (List Nat)} (hlen : l.length = l'.length)
    (h : ∀ p, l.getD p [] = l'.getD p []) : l = l' := by
  apply List.ext_getElem hlen
  intro i h1 h2
  have := h i
  simp only [List.getD_eq_getElem?_getD, List.getElem?_eq_getElem h1, List.getElem?_eq_getElem h2,
    Option.getD_some] at this
  exact this

theorem dt_sh_eq {ext : Nat → Nat} {base Y Y' : RState} {run : List Running}
    (h1 : Overlay ext base Y run) (h2 : Overlay ext base Y' run) (k : Nat) :
    Y.s.h.sh k = Y'.s.h.sh k := by
  by_cases h : ∃ t ∈ run, t.reg k = true
  · obtain ⟨t, ht, hk⟩ := h
    rw [h1.sh_own t ht k hk, h2.sh_own t ht k hk]
  · have hf : ∀ t ∈ run, t.reg k = false := by
      intro t ht
      cases hr : t.reg k
      · rfl
      · exact absurd ⟨t, ht, hr⟩ h
    rw [h1.sh_frame k hf, h2.sh_frame k hf]

theorem dt_tbl_eq {ext : Nat → Nat} {base Y Y' : RState} {run : List Running}
    (h1 : Overlay ext base Y run) (h2 : Overlay ext base Y' run) (p : Nat) :
    Y.s.table p = Y'.s.table p := by
  by_cases h : ∃ t ∈ run, p = t.loc.u ∨ p = t.loc.l
  · obtain ⟨t, ht, hk⟩ := h
    rcases hk with hk | hk
    · rw [hk, (h1.tbl_own t ht).1, (h2.tbl_own t ht).1]
    · rw [hk, (h1.tbl_own t ht).2, (h2.tbl_own t ht).2]
  · have hf : ∀ t ∈ run, p ≠ t.loc.u ∧ p ≠ t.loc.l := by
      intro t ht
      exact ⟨fun e => h ⟨t, ht, Or.inl e⟩, fun e => h ⟨t, ht, Or.inr e⟩⟩
    rw [h1.tbl_frame p hf, h2.tbl_frame p hf]

/-- **the overlay description determines the shared state** (the counters are determined by the
shapes, `RCx.same`) -/
theorem overlay_det {ext : Nat → Nat} {base Y Y' : RState} {run : List Running}
    (h1 : Overlay ext base Y run) (h2 : Overlay ext base Y' run) : RState.Same Y Y' := by
  refine ⟨RCx.same h1.rc h2.rc (dt_sh_eq h1 h2), ?_, ?_, ?_⟩
  · exact dt_list_ext_getD (by rw [h1.tbl_len, h2.tbl_len]) (dt_tbl_eq h1 h2)
  · rw [h1.toPre, h2.toPre]
  · rw [h1.l2v, h2.l2v]

theorem dt_same_sh {h h' : Heap} (hs : Heap.Same h h') (k : Nat) : h.sh k = h'.sh k := by
  unfold Heap.sh; rw [hs k]

theorem dt_same_rcOf {h h' : Heap} (hs : Heap.Same h h') (k : Nat) : h.rcOf k = h'.rcOf k := by
  unfold Heap.rcOf; rw [hs k]

theorem Overlay.of_same {ext : Nat → Nat} {base Y Y' : RState} {run : List Running}
    (h : Overlay ext base Y run) (hs : RState.Same Y Y') : Overlay ext base Y' run := by
  obtain ⟨hh, ht, hp, hv⟩ := hs
  have htab : ∀ p, Y'.s.table p = Y.s.table p := fun p => by unfold SStore.table; rw [ht]
  refine
    { sh_own := fun t ht' k hk => by rw [← dt_same_sh hh k]; exact h.sh_own t ht' k hk
      sh_frame := fun k hk => by rw [← dt_same_sh hh k]; exact h.sh_frame k hk
      tbl_own := fun t ht' => by rw [htab, htab]; exact h.tbl_own t ht'
      tbl_frame := fun p hp' => by rw [htab]; exact h.tbl_frame p hp'
      tbl_len := by rw [← ht]; exact h.tbl_len
      toPre := by rw [← hp]; exact h.toPre
      l2v := by rw [← hv]; exact h.l2v
      rc := ?_ }
  intro j
  rw [← dt_same_rcOf hh j, ← refs_congr (dt_same_sh hh) j]
  exact h.rc j

end OxiddModel.Reorder.SwapStore
