import OxiddModel.Reorder.ConcurrentStoreDetLemmas

/-! replaying a task record on a state -/
namespace OxiddModel.Reorder.SwapStore
open OxiddModel.Bdd OxiddModel.Bdd.Refine OxiddModel.Reorder

theorem dt_nodes {ext : Nat → Nat} {pos : Nat → Nat} {base : RState} {a b : List Running}
    (ks : List Nat) :
    ∀ {Y : RState} {t : Running} {rest : List Nat},
    RunOK ext pos base (a ++ t :: b) → Overlay ext base Y (a ++ t :: b) →
    t.loc.todo = ks ++ rest →
    RunOK ext pos base (a ++ { t with loc := { t.loc with todo := rest }, doneN := t.doneN ++ ks } :: b) ∧
    Overlay ext base (ks.foldl (fun r i => tNode r t.loc i) Y)
      (a ++ { t with loc := { t.loc with todo := rest }, doneN := t.doneN ++ ks } :: b) := by
  induction ks with
  | nil =>
    intro Y t rest hrun hov htodo
    have : ({ t with loc := { t.loc with todo := rest }, doneN := t.doneN ++ [] } : Running) = t := by
      obtain ⟨idx, loc, ord, pool, dN, dD, e⟩ := t
      obtain ⟨u, l, up, lp, al, old, todo, drops, low0⟩ := loc
      simp only [List.nil_append] at htodo
      simp only [List.append_nil, htodo]
    rw [this]; exact ⟨hrun, hov⟩
  | cons k ks ih =>
    intro Y t rest hrun hov htodo
    obtain ⟨h1, h2⟩ := overlay_node hrun hov (k := k) (rest := ks ++ rest) htodo
    have := ih h1 h2 rfl
    simp only [List.append_assoc, List.singleton_append] at this
    exact this

theorem dt_drops {ext : Nat → Nat} {pos : Nat → Nat} {base : RState} {a b : List Running}
    (js : List Nat) :
    ∀ {Y : RState} {t : Running} {rest : List Nat},
    RunOK ext pos base (a ++ t :: b) → Overlay ext base Y (a ++ t :: b) →
    (js = [] ∨ t.loc.todo = []) → t.loc.drops = js ++ rest →
    RunOK ext pos base (a ++ { t with loc := { t.loc with drops := rest }, doneD := t.doneD ++ js } :: b) ∧
    Overlay ext base (js.foldl tDrop Y)
      (a ++ { t with loc := { t.loc with drops := rest }, doneD := t.doneD ++ js } :: b) := by
  induction js with
  | nil =>
    intro Y t rest hrun hov _ hdrops
    have : ({ t with loc := { t.loc with drops := rest }, doneD := t.doneD ++ [] } : Running) = t := by
      obtain ⟨idx, loc, ord, pool, dN, dD, e⟩ := t
      obtain ⟨u, l, up, lp, al, old, todo, drops, low0⟩ := loc
      simp only [List.nil_append] at hdrops
      simp only [List.append_nil, hdrops]
    rw [this]; exact ⟨hrun, hov⟩
  | cons j js ih =>
    intro Y t rest hrun hov htodo hdrops
    have htodo' : t.loc.todo = [] := by
      rcases htodo with h | h
      · cases h
      · exact h
    obtain ⟨h1, h2⟩ := overlay_drop hrun hov (j := j) (rest := js ++ rest) htodo' hdrops
    have := ih h1 h2 (Or.inr htodo') rfl
    simp only [List.append_assoc, List.singleton_append] at this
    exact this


theorem dt_applyEnded_getD (run : List Running) (tp : List Nat) (p d : Nat)
    (h : ∀ t ∈ run, p ≠ t.loc.u ∧ p ≠ t.loc.l) : (applyEnded run tp).getD p d = tp.getD p d := by
  unfold applyEnded
  induction run generalizing tp with
  | nil => rfl
  | cons t run ih =>
    simp only [List.foldl_cons]
    rw [ih _ (fun x hx => h x (List.mem_cons_of_mem _ hx))]
    obtain ⟨h1, h2⟩ := h t List.mem_cons_self
    split
    · simp only [List.getD_eq_getElem?_getD]
      rw [List.getElem?_set_ne (Ne.symm h2), List.getElem?_set_ne (Ne.symm h1)]
    · rfl

theorem dt_disj_symm {s t : Running} (h : TaskDisj s t) : TaskDisj t s :=
  ⟨Ne.symm h.1, Ne.symm h.2.2.1, Ne.symm h.2.1, Ne.symm h.2.2.2.1, h.2.2.2.2.2, h.2.2.2.2.1⟩

/-- the record of a task right after `tBegin` -/
def dt_start (s : Running) : Running :=
  ⟨s.idx, { s.loc with todo := s.ord s.loc.old, drops := s.loc.old }, s.ord, s.pool, [], [], false⟩

/-- replay the steps recorded in `s` on the state `Z` -/
def dt_replay (Z : RState) (s : Running) : RState :=
  let b := tBegin Z s.loc.u s.loc.l s.loc.al (s.ord (Z.s.table s.loc.u))
  let r1 := s.doneN.foldl (fun r i => tNode r b.2 i) b.1
  let r2 := s.doneD.foldl tDrop r1
  if s.ended then tEnd r2 b.2 else r2

theorem dt_eta (s : Running) (e : Bool) (h : s.ended = e) :
    (⟨s.idx, s.loc, s.ord, s.pool, s.doneN, s.doneD, e⟩ : Running) = s := by subst h; rfl

theorem dt_rec_eq (s : Running) :
    (let t1 : Running := { (dt_start s) with loc := { (dt_start s).loc with todo := s.loc.todo }, doneN := (dt_start s).doneN ++ s.doneN }
     ({ t1 with loc := { t1.loc with drops := s.loc.drops }, doneD := t1.doneD ++ s.doneD } : Running)) =
      ⟨s.idx, s.loc, s.ord, s.pool, s.doneN, s.doneD, false⟩ := by
  simp only [dt_start, List.nil_append]

theorem dt_replay_overlay {ext : Nat → Nat} {pos : Nat → Nat} {B Z : RState} {a b : List Running}
    {s : Running}
    (hrun : RunOK ext pos B (a ++ b)) (hov : Overlay ext B Z (a ++ b))
    (hok : TaskOK B s) (hd : ∀ t ∈ a ++ b, TaskDisj s t) :
    RunOK ext pos B (a ++ s :: b) ∧ Overlay ext B (dt_replay Z s) (a ++ s :: b) := by
  have hall : ∀ t ∈ a ++ b, s.loc.u ≠ t.loc.u ∧ s.loc.u ≠ t.loc.l ∧ s.loc.l ≠ t.loc.u ∧
      s.loc.l ≠ t.loc.l := fun t ht => ⟨(hd t ht).1, (hd t ht).2.1, (hd t ht).2.2.1, (hd t ht).2.2.2.1⟩
  have hold : Z.s.table s.loc.u = s.loc.old := by
    rw [hov.tbl_frame _ (fun t ht => ⟨(hall t ht).1, (hall t ht).2.1⟩), hok.old_eq]
  have hlow : Z.s.table s.loc.l = s.loc.low0 := by
    rw [hov.tbl_frame _ (fun t ht => ⟨(hall t ht).2.2.1, (hall t ht).2.2.2⟩), hok.low_eq]
  have hl := hok.llen
  have hu : s.loc.u < B.toPre.length := by have := hok.ul; omega
  have hup : Z.toPre.getD s.loc.u s.loc.u = s.loc.up := by
    rw [hov.toPre, dt_applyEnded_getD _ _ _ _ (fun t ht => ⟨(hall t ht).1, (hall t ht).2.1⟩),
      getD_self_eq hu, hok.up_eq]
  have hlp : Z.toPre.getD s.loc.l s.loc.l = s.loc.lp := by
    rw [hov.toPre, dt_applyEnded_getD _ _ _ _ (fun t ht => ⟨(hall t ht).2.2.1, (hall t ht).2.2.2⟩),
      getD_self_eq hl, hok.lp_eq]
  have hrec : (⟨s.idx, (tBegin Z s.loc.u s.loc.l s.loc.al (s.ord (Z.s.table s.loc.u))).2, s.ord,
      s.pool, [], [], false⟩ : Running) = dt_start s := by
    simp only [tBegin, dt_start, hold, hlow, hup, hlp]
  have hb2 : (tBegin Z s.loc.u s.loc.l s.loc.al (s.ord (Z.s.table s.loc.u))).2 = (dt_start s).loc :=
    congrArg Running.loc hrec
  have hbeg := overlay_begin hrun hov s.idx s.loc.u s.loc.l s.loc.al s.ord s.pool hok.ul hok.llen
    hok.gap hall hok.alok hok.ordok
    (by rw [hrec]; exact hok.alloc)
    (fun k hk => by
      rw [hov.sh_frame k (fun t ht => (hd t ht).2.2.2.2.1 k hk)]
      exact hok.poolfree k hk)
    (fun t ht k hk => (hd t ht).2.2.2.2.1 k hk)
  rw [hrec] at hbeg
  obtain ⟨r0, o0⟩ := hbeg
  obtain ⟨r1, o1⟩ := dt_nodes s.doneN (t := dt_start s) (rest := s.loc.todo) r0 o0
    (by show s.ord s.loc.old = _; exact hok.order.symm)
  obtain ⟨r2, o2⟩ := dt_drops s.doneD (rest := s.loc.drops) r1 o1
    (by
      by_cases h : s.loc.todo = []
      · exact Or.inr h
      · exact Or.inl (hok.phase h))
    (by show s.loc.old = _; exact hok.drops.symm)
  have r3 : RunOK ext pos B (a ++ ⟨s.idx, s.loc, s.ord, s.pool, s.doneN, s.doneD, false⟩ :: b) :=
    Eq.mp (congrArg (fun x => RunOK ext pos B (a ++ x :: b)) (dt_rec_eq s)) r2
  have o3 : Overlay ext B (s.doneD.foldl tDrop (s.doneN.foldl (fun r i => tNode r (dt_start s).loc i)
      (tBegin Z s.loc.u s.loc.l s.loc.al (s.ord (Z.s.table s.loc.u))).1))
      (a ++ ⟨s.idx, s.loc, s.ord, s.pool, s.doneN, s.doneD, false⟩ :: b) :=
    Eq.mp (congrArg (fun x => Overlay ext B _ (a ++ x :: b)) (dt_rec_eq s)) o2
  unfold dt_replay
  simp only []
  rw [hb2]
  cases he : s.ended
  · rw [dt_eta s false he] at r3 o3
    exact ⟨r3, o3⟩
  · obtain ⟨hto, hdr⟩ := hok.fin he
    obtain ⟨r4, o4⟩ := overlay_end r3 o3 hto hdr rfl
    have e4 : ({ (⟨s.idx, s.loc, s.ord, s.pool, s.doneN, s.doneD, false⟩ : Running) with
        ended := true } : Running) = s := dt_eta s true he
    rw [e4] at r4 o4
    exact ⟨r4, o4⟩


theorem dt_append_overlay {ext : Nat → Nat} {pos : Nat → Nat} {B : RState} (ss : List Running) :
    ∀ {pre : List Running} {Z : RState}, RunOK ext pos B pre → Overlay ext B Z pre →
    (∀ s ∈ ss, TaskOK B s) → (pre ++ ss).Pairwise TaskDisj →
    RunOK ext pos B (pre ++ ss) ∧ Overlay ext B (ss.foldl dt_replay Z) (pre ++ ss) := by
  induction ss with
  | nil =>
    intro pre Z hrun hov _ _
    simp only [List.append_nil, List.foldl_nil]
    exact ⟨hrun, hov⟩
  | cons s ss ih =>
    intro pre Z hrun hov hok hpw
    have hpw' := List.pairwise_append.mp hpw
    have hd : ∀ t ∈ pre ++ [], TaskDisj s t := by
      intro t ht
      rw [List.append_nil] at ht
      exact dt_disj_symm (hpw'.2.2 t ht s List.mem_cons_self)
    have h := dt_replay_overlay (a := pre) (b := []) (s := s) (Z := Z)
      (by rw [List.append_nil]; exact hrun) (by rw [List.append_nil]; exact hov)
      (hok s List.mem_cons_self) hd
    have h' := ih (pre := pre ++ [s]) h.1 h.2 (fun x hx => hok x (List.mem_cons_of_mem _ hx))
      (by rw [List.append_assoc]; exact hpw)
    rw [List.append_assoc] at h'
    exact h'

theorem dt_prepend_overlay {ext : Nat → Nat} {pos : Nat → Nat} {B : RState} (ss : List Running)
    {post : List Running} {Z : RState} (hrun : RunOK ext pos B post) (hov : Overlay ext B Z post)
    (hok : ∀ s ∈ ss, TaskOK B s) (hpw : (ss ++ post).Pairwise TaskDisj) :
    RunOK ext pos B (ss ++ post) ∧
      Overlay ext B (ss.foldr (fun s Z => dt_replay Z s) Z) (ss ++ post) := by
  induction ss with
  | nil => exact ⟨hrun, hov⟩
  | cons s ss ih =>
    have hpw' := List.pairwise_cons.mp hpw
    have h := ih (fun x hx => hok x (List.mem_cons_of_mem _ hx)) hpw'.2
    exact dt_replay_overlay (a := []) (b := ss ++ post) (s := s) h.1 h.2
      (hok s List.mem_cons_self) (fun t ht => hpw'.1 t ht)

theorem dt_replay_ended {base : RState} {t : Running} (hinv_len : base.toPre.length = base.s.tables.length)
    (hok : TaskOK base t) (hend : t.ended = true) :
    dt_replay base t = levelSwapG t.loc.al t.ord base t.loc.u t.loc.l := by
  obtain ⟨hto, hdr⟩ := hok.fin hend
  have hul := hok.ul
  have hl := hok.llen
  have h1 : t.doneN = t.ord (base.s.table t.loc.u) := by
    have := hok.order
    rw [hto, List.append_nil, hok.old_eq] at this
    exact this
  have h2 : t.doneD = base.s.table t.loc.u := by
    have := hok.drops
    rw [hdr, List.append_nil, hok.old_eq] at this
    exact this
  rw [← runTask_eq t.loc.al t.ord base (u := t.loc.u) (l := t.loc.l) (by omega) (by omega) (by omega)]
  unfold dt_replay runTask
  simp only [hend, if_true]
  rw [h1, h2]
  rfl

theorem dt_taskOK_rebase {ext : Nat → Nat} {pos : Nat → Nat} {base : RState} {t s : Running}
    {up lo : List Nat}
    (hres : SwapResG ext base.toPre pos base.s t.loc.u t.loc.l
      (levelSwapG t.loc.al t.ord base t.loc.u t.loc.l).s up lo)
    (hu : t.loc.u < base.toPre.length) (hl : t.loc.l < base.toPre.length)
    (hfr : ∀ k, t.reg k = false →
      (levelSwapG t.loc.al t.ord base t.loc.u t.loc.l).s.h.sh k = base.s.h.sh k)
    (hok : TaskOK base s) (hd : TaskDisj s t)
    (hsep : ¬ (s.loc.u < t.loc.u ∧ t.loc.u < s.loc.l) ∧ ¬ (s.loc.u < t.loc.l ∧ t.loc.l < s.loc.l)) :
    TaskOK (levelSwapG t.loc.al t.ord base t.loc.u t.loc.l) s := by
  obtain ⟨d1, d2, d3, d4, d5, d6⟩ := hd
  refine
    { ul := hok.ul
      llen := by rw [levelSwapG_toPre_length]; exact hok.llen
      gap := ?_
      old_eq := by rw [hres.tables, if_neg d2, if_neg d1]; exact hok.old_eq
      low_eq := by rw [hres.tables, if_neg d4, if_neg d3]; exact hok.low_eq
      up_eq := by
        rw [levelSwapG_toPre _ _ base hu hl, swapLab_getD hu hl, if_neg d2, if_neg d1]
        exact hok.up_eq
      lp_eq := by
        rw [levelSwapG_toPre _ _ base hu hl, swapLab_getD hu hl, if_neg d4, if_neg d3]
        exact hok.lp_eq
      alok := hok.alok
      alloc := hok.alloc
      ordok := hok.ordok
      order := hok.order
      drops := hok.drops
      phase := hok.phase
      fin := hok.fin
      poolfree := fun k hk => by rw [hfr k (d5 k hk)]; exact hok.poolfree k hk }
  intro p h1 h2
  have hp1 : ¬ p = t.loc.l := fun e => hsep.2 ⟨e ▸ h1, e ▸ h2⟩
  have hp2 : ¬ p = t.loc.u := fun e => hsep.1 ⟨e ▸ h1, e ▸ h2⟩
  rw [hres.tables, if_neg hp1, if_neg hp2]
  exact hok.gap p h1 h2

end OxiddModel.Reorder.SwapStore
