import OxiddModel.Reorder.ConcurrentStoreOvNode
import OxiddModel.Reorder.ConcurrentStoreOvMisc

/-!
# Every task step preserves the overlay description

`overlay_nil`, `overlay_begin`, `overlay_drop`, `overlay_end` (`ConcurrentStoreOvMisc.lean`) and
`overlay_node` (`ConcurrentStoreOvNode.lean`).
-/
