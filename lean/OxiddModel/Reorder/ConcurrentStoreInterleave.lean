import OxiddModel.Reorder.ConcurrentStoreDet

/-!
# Interleaving the steps of `level_swap`s on disjoint level pairs

`TStep base` is the step system of any number of `level_swap`s that start from (and run on top
of) a common state `base`: a configuration is the shared manager state together with the running
tasks; a step is `begin` of a new task on two level views no running task uses, one loop iteration
(`node`), one released entry (`drop`) or the return (`fin`) of *any* running task. Every schedule
of these steps is allowed. `swap_steps_interleave`: whenever all tasks have returned, the shared
state is the same as running the swaps one after the other, **in any order**.
-/
namespace OxiddModel.Reorder.SwapStore
open OxiddModel.Bdd OxiddModel.Bdd.Refine OxiddModel.Reorder

inductive TStep (base : RState) : RState × List Running → RState × List Running → Prop
  | begin {Y : RState} {a b : List Running} (idx u l : Nat) (al : Heap → Nat)
      (ord : List Nat → List Nat) (pool : Nat → Bool) :
      u < l → l < base.toPre.length → (∀ p, u < p → p < l → base.s.table p = []) →
      Y.s.table u ≠ [] → Y.s.table l ≠ [] →
      (∀ t ∈ a ++ b, u ≠ t.loc.u ∧ u ≠ t.loc.l ∧ l ≠ t.loc.u ∧ l ≠ t.loc.l) →
      AllocOK al → OrderOK ord →
      AllocLocal (Running.reg ⟨idx, (tBegin Y u l al (ord (Y.s.table u))).2, ord, pool, [], [], false⟩) al →
      (∀ k, pool k = true → Y.s.h.sh k = none) →
      (∀ s ∈ a ++ b, ∀ k, pool k = true → s.reg k = false) →
      TStep base (Y, a ++ b)
        ((tBegin Y u l al (ord (Y.s.table u))).1,
         a ++ ⟨idx, (tBegin Y u l al (ord (Y.s.table u))).2, ord, pool, [], [], false⟩ :: b)
  | node {Y : RState} {a b : List Running} {t : Running} {k : Nat} {rest : List Nat} :
      t.loc.todo = k :: rest →
      TStep base (Y, a ++ t :: b)
        (tNode Y t.loc k,
         a ++ { t with loc := { t.loc with todo := rest }, doneN := t.doneN ++ [k] } :: b)
  | drop {Y : RState} {a b : List Running} {t : Running} {j : Nat} {rest : List Nat} :
      t.loc.todo = [] → t.loc.drops = j :: rest →
      TStep base (Y, a ++ t :: b)
        (tDrop Y j,
         a ++ { t with loc := { t.loc with drops := rest }, doneD := t.doneD ++ [j] } :: b)
  | fin {Y : RState} {a b : List Running} {t : Running} :
      t.loc.todo = [] → t.loc.drops = [] → t.ended = false →
      TStep base (Y, a ++ t :: b) (tEnd Y t.loc, a ++ { t with ended := true } :: b)

/-- configurations reachable from `base` with no task running -/
inductive TReach (base : RState) : RState × List Running → Prop
  | init : TReach base (base, [])
  | step {c c' : RState × List Running} : TReach base c → TStep base c c' → TReach base c'

/-- **every reachable configuration is `base` overlaid with the solo runs of its tasks** -/
theorem treach_overlay {ext : Nat → Nat} {pos : Nat → Nat} {base : RState}
    (hinv : InvL ext base.toPre pos base.s) {c : RState × List Running} (h : TReach base c) :
    RunOK ext pos base c.2 ∧ Overlay ext base c.1 c.2 := by
  induction h with
  | init => exact ⟨⟨hinv, (fun t ht => nomatch ht), List.Pairwise.nil⟩, overlay_nil hinv⟩
  | step _ hs ih =>
    obtain ⟨hrun, hov⟩ := ih
    cases hs with
    | begin idx u l al ord pool h1 h2 h3 _ _ h4 h5 h6 h7 h8 h9 =>
      exact overlay_begin hrun hov idx u l al ord pool h1 h2 h3 h4 h5 h6 h7 h8 h9
    | node ht => exact overlay_node hrun hov ht
    | drop ht hd => exact overlay_drop hrun hov ht hd
    | fin ht hd hne => exact overlay_end hrun hov ht hd hne

/-- both level views of every task were non-empty when it started (as in `from_ne`) -/
def NonEmptyViews (run : List Running) : Prop := ∀ t ∈ run, t.loc.old ≠ [] ∧ t.loc.low0 ≠ []

theorem treach_nonempty {base : RState} {c : RState × List Running} (h : TReach base c) :
    NonEmptyViews c.2 := by
  induction h with
  | init => exact fun t ht => nomatch ht
  | step _ hs ih =>
    cases hs with
    | begin idx u l al ord pool h1 h2 h3 hu hl' h4 h5 h6 h7 h8 h9 =>
      intro t ht
      rcases List.mem_append.mp ht with h | h
      · exact ih t (List.mem_append.mpr (Or.inl h))
      · rcases List.mem_cons.mp h with h | h
        · subst h; exact ⟨hu, hl'⟩
        · exact ih t (List.mem_append.mpr (Or.inr h))
    | @node Y a b t0 k rest ht' =>
      intro t ht
      rcases List.mem_append.mp ht with h | h
      · exact ih t (List.mem_append.mpr (Or.inl h))
      · rcases List.mem_cons.mp h with h | h
        · rw [h]; exact ih t0 (List.mem_append.mpr (Or.inr (List.mem_cons_self ..)))
        · exact ih t (List.mem_append.mpr (Or.inr (List.mem_cons_of_mem _ h)))
    | @drop Y a b t0 j rest ht' hd =>
      intro t ht
      rcases List.mem_append.mp ht with h | h
      · exact ih t (List.mem_append.mpr (Or.inl h))
      · rcases List.mem_cons.mp h with h | h
        · rw [h]; exact ih t0 (List.mem_append.mpr (Or.inr (List.mem_cons_self ..)))
        · exact ih t (List.mem_append.mpr (Or.inr (List.mem_cons_of_mem _ h)))
    | @fin Y a b t0 ht' hd hne =>
      intro t ht
      rcases List.mem_append.mp ht with h | h
      · exact ih t (List.mem_append.mpr (Or.inl h))
      · rcases List.mem_cons.mp h with h | h
        · rw [h]; exact ih t0 (List.mem_append.mpr (Or.inr (List.mem_cons_self ..)))
        · exact ih t (List.mem_append.mpr (Or.inr (List.mem_cons_of_mem _ h)))

/-- no position of `t` lies strictly between the two positions of another task: the views in
between are empty, those of `t` are not -/
theorem sep_of_nonempty {ext : Nat → Nat} {pos : Nat → Nat} {base : RState} {a b : List Running}
    {t : Running} (hrun : RunOK ext pos base (a ++ t :: b)) (hne : NonEmptyViews (a ++ t :: b)) :
    ∀ s ∈ a ++ b, ¬ (s.loc.u < t.loc.u ∧ t.loc.u < s.loc.l) ∧
      ¬ (s.loc.u < t.loc.l ∧ t.loc.l < s.loc.l) := by
  intro s hs
  have hsm : s ∈ a ++ t :: b := by
    rcases List.mem_append.mp hs with h | h
    · exact List.mem_append.mpr (Or.inl h)
    · exact List.mem_append.mpr (Or.inr (List.mem_cons_of_mem _ h))
  have htm : t ∈ a ++ t :: b := List.mem_append.mpr (Or.inr (List.mem_cons_self ..))
  have hos := hrun.ok s hsm
  have hot := hrun.ok t htm
  obtain ⟨h1, h2⟩ := hne t htm
  constructor
  · rintro ⟨c1, c2⟩
    exact h1 (hot.old_eq.trans (hos.gap _ c1 c2))
  · rintro ⟨c1, c2⟩
    exact h2 (hot.low_eq.trans (hos.gap _ c1 c2))

/-- the swaps of the tasks executed one after the other, in the order of the list -/
def seqSwaps (base : RState) (order : List Running) : RState :=
  order.foldl (fun r t => levelSwapG t.loc.al t.ord r t.loc.u t.loc.l) base

/-- when all tasks of an overlay have returned, the shared state is the sequential result, for
every order in which the tasks are taken into `base` -/
theorem overlay_all_ended {ext : Nat → Nat} (order : List Running) :
    ∀ {pos : Nat → Nat} {base Y : RState} {run : List Running},
    RunOK ext pos base run → Overlay ext base Y run → (∀ t ∈ run, t.ended = true) →
    NonEmptyViews run → order.Perm run → RState.Same Y (seqSwaps base order) := by
  induction order with
  | nil =>
    intro pos base Y run hrun hov _ _ hperm
    have : run = [] := List.Perm.eq_nil (List.Perm.symm hperm)
    subst this
    exact overlay_det hov (overlay_nil hrun.inv)
  | cons t rest ih =>
    intro pos base Y run hrun hov hall hne hperm
    have htm : t ∈ run := hperm.subset (by simp)
    obtain ⟨a, b, hab⟩ := List.append_of_mem htm
    subst hab
    have hsub : ∀ s ∈ a ++ b, s ∈ a ++ t :: b := fun s hs => by
      rcases List.mem_append.mp hs with h | h
      · exact List.mem_append.mpr (Or.inl h)
      · exact List.mem_append.mpr (Or.inr (List.mem_cons_of_mem _ h))
    obtain ⟨pos', hrun', hov'⟩ := overlay_finish hrun hov (hall t htm) (sep_of_nonempty hrun hne)
    have hperm' : rest.Perm (a ++ b) :=
      List.Perm.cons_inv (hperm.trans List.perm_middle)
    exact ih hrun' hov' (fun s hs => hall s (hsub s hs)) (fun s hs => hne s (hsub s hs)) hperm'

/-- **`swap_steps_interleave`.** Let any number of `level_swap`s on pairwise disjoint pairs of
level views run on a state `base` satisfying the (lazy) store invariant, their steps — the start
(`upper.swap(lower)`, `take`), every iteration of the loop over the taken view, every released
entry of `drop(old_upper)`, the return — interleaved in an arbitrary way (`TReach`: every schedule
is allowed; a task may start while others are in the middle of their loops). When all of them
have returned, the shared state holds the same nodes in the same slots, the same level views,
`to_pre` and level→variable map as the **sequential** execution of the swaps, in **any** order
`order` of the tasks. -/
theorem swap_steps_interleave {ext : Nat → Nat} {pos : Nat → Nat} {base : RState}
    (hinv : InvL ext base.toPre pos base.s) {Y : RState} {run : List Running}
    (h : TReach base (Y, run)) (hall : ∀ t ∈ run, t.ended = true)
    (order : List Running) (hperm : order.Perm run) :
    RState.Same Y (seqSwaps base order) :=
  let ho := treach_overlay hinv h
  overlay_all_ended order ho.1 ho.2 hall (treach_nonempty h) hperm

/-- in particular the sequential results of two orders agree (swaps on disjoint pairs commute) -/
theorem seqSwaps_order_irrelevant {ext : Nat → Nat} {pos : Nat → Nat} {base : RState}
    (hinv : InvL ext base.toPre pos base.s) {Y : RState} {run : List Running}
    (h : TReach base (Y, run)) (hall : ∀ t ∈ run, t.ended = true)
    (o1 o2 : List Running) (h1 : o1.Perm run) (h2 : o2.Perm run) :
    RState.Same (seqSwaps base o1) (seqSwaps base o2) :=
  (swap_steps_interleave hinv h hall o1 h1).symm.trans (swap_steps_interleave hinv h hall o2 h2)

end OxiddModel.Reorder.SwapStore

namespace OxiddModel.Reorder.SwapStore
open OxiddModel.Bdd OxiddModel.Bdd.Refine OxiddModel.Reorder

/-! ## a task run without interruption is one of the schedules -/

theorem treach_nodes {base : RState} (ks : List Nat) :
    ∀ {Y : RState} {a b : List Running} {t : Running}, TReach base (Y, a ++ t :: b) →
    t.loc.todo = ks →
    TReach base (ks.foldl (fun r k => tNode r t.loc k) Y,
      a ++ { t with loc := { t.loc with todo := [] }, doneN := t.doneN ++ ks } :: b) := by
  induction ks with
  | nil =>
    intro Y a b t h ht
    have : ({ t with loc := { t.loc with todo := [] }, doneN := t.doneN ++ [] } : Running) = t := by
      cases t with
      | mk idx loc ord pool doneN doneD ended =>
        cases loc
        simp only [List.append_nil]
        simp only at ht
        subst ht; rfl
    rw [this]; exact h
  | cons k rest ih =>
    intro Y a b t h ht
    have h1 := TReach.step h (TStep.node (a := a) (b := b) ht)
    have h2 := ih h1 rfl
    simp only [List.append_assoc, List.cons_append, List.nil_append] at h2
    exact h2

theorem treach_drops {base : RState} (js : List Nat) :
    ∀ {Y : RState} {a b : List Running} {t : Running}, TReach base (Y, a ++ t :: b) →
    t.loc.todo = [] → t.loc.drops = js →
    TReach base (js.foldl tDrop Y,
      a ++ { t with loc := { t.loc with drops := [] }, doneD := t.doneD ++ js } :: b) := by
  induction js with
  | nil =>
    intro Y a b t h _ hd
    have : ({ t with loc := { t.loc with drops := [] }, doneD := t.doneD ++ [] } : Running) = t := by
      cases t with
      | mk idx loc ord pool doneN doneD ended =>
        cases loc
        simp only [List.append_nil]
        simp only at hd
        subst hd; rfl
    rw [this]; exact h
  | cons j rest ih =>
    intro Y a b t h ht hd
    have h1 := TReach.step h (TStep.drop (a := a) (b := b) ht hd)
    have h2 := ih h1 ht rfl
    simp only [List.append_assoc, List.cons_append, List.nil_append] at h2
    exact h2

/-- the record of a task that has run to the end -/
def doneTask (Y : RState) (idx u l : Nat) (al : Heap → Nat) (ord : List Nat → List Nat)
    (pool : Nat → Bool) : Running :=
  ⟨idx, { (tBegin Y u l al (ord (Y.s.table u))).2 with todo := [], drops := [] }, ord, pool,
    ord (Y.s.table u), Y.s.table u, true⟩

/-- **an uninterrupted `level_swap` (`runTask` = `levelSwapG`) is one of the schedules** -/
theorem treach_task {base Y : RState} {a b : List Running} (h : TReach base (Y, a ++ b))
    (idx u l : Nat) (al : Heap → Nat) (ord : List Nat → List Nat) (pool : Nat → Bool)
    (hul : u < l) (hl : l < base.toPre.length) (hgap : ∀ p, u < p → p < l → base.s.table p = [])
    (hune : Y.s.table u ≠ []) (hlne : Y.s.table l ≠ [])
    (hfree : ∀ t ∈ a ++ b, u ≠ t.loc.u ∧ u ≠ t.loc.l ∧ l ≠ t.loc.u ∧ l ≠ t.loc.l)
    (hal : AllocOK al) (hord : OrderOK ord)
    (hloc : AllocLocal (Running.reg ⟨idx, (tBegin Y u l al (ord (Y.s.table u))).2, ord, pool, [], [], false⟩) al)
    (hpool : ∀ k, pool k = true → Y.s.h.sh k = none)
    (hpd : ∀ s ∈ a ++ b, ∀ k, pool k = true → s.reg k = false) :
    TReach base (runTask Y u l al (ord (Y.s.table u)), a ++ doneTask Y idx u l al ord pool :: b) := by
  have h0 := TReach.step h (TStep.begin (a := a) (b := b) idx u l al ord pool hul hl hgap hune hlne hfree
    hal hord hloc hpool hpd)
  have h1 := treach_nodes (ord (Y.s.table u)) h0 rfl
  have h2 := treach_drops (Y.s.table u) h1 rfl rfl
  have h3 := TReach.step h2 (TStep.fin (a := a) (b := b) rfl rfl rfl)
  exact h3

end OxiddModel.Reorder.SwapStore
