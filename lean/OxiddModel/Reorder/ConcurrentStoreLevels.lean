import OxiddModel.Reorder.ConcurrentStore

/-!
# The parallel write-back of the level numbers (`update_levels`)

At the end of `set_var_order` (crates/oxidd-reorder/src/set_var_order/mod.rs) the level numbers
stored in the nodes are rewritten. The sequential variant `update_levels_seq` (model:
`updateLevels`, `SetOrderStore.lean`) walks over the level views in increasing order and calls
`update_level_no` for every view whose stored number `to_pre[p]` differs from its position `p`.
The parallel variant `update_levels` first collects the positions to be processed in a vector

    tasks = [p | p < num_levels, p != to_pre[p], !level(p).is_empty()]

and then runs `manager.workers().slice_for_each(&tasks, |&l| update_level_no(manager, level(l)))`.
`WorkerPool::slice_for_each` (crates/oxidd-core/src/lib.rs) lets every worker pull indices with
`done.fetch_add(1)` until the index is `>= len`; hence every index `0 .. len - 1` is claimed
exactly once, by an arbitrary worker, and the `node.set_level(p)` calls of different workers are
interleaved arbitrarily.

Model:

* a *write* `(p, i)` is `node_i.set_level(p)`; `runWrites h ws` executes a list of writes;
* `writesOf r p` are the writes of `update_level_no` for the view at position `p`;
* `updTasks r` is the vector `tasks`;
* an execution of the parallel write-back is **any permutation** `ws` of the writes of the
  claimed tasks (this contains all order-preserving interleavings of the per-worker sequences).

`update_level_no_parallel`: every such execution ends in *literally* the heap of
`update_levels_seq`. `update_levels_drop_last_wrong` / `update_levels_old_numbers_wrong`: two
seeded defects are refuted on a concrete store.
-/
namespace OxiddModel.Reorder.SwapStore
open OxiddModel.Bdd OxiddModel.Bdd.Refine OxiddModel.Reorder

/-! ## the model -/

/-- the vector `tasks` built by `update_levels`: the positions `p` (increasing) with
`level.level_no() != to_pre[p] && !level.is_empty()` -/
def updTasks (r : RState) : List Nat :=
  (List.range r.s.tables.length).filter fun p =>
    decide (p ≠ r.toPre.getD p p) && !(r.s.table p).isEmpty

/-- execute a list of writes `(p, i)` = `node_i.set_level(p)` -/
def runWrites (h : Heap) (ws : List (Nat × Nat)) : Heap :=
  ws.foldl (fun h w => setLevel h w.2 w.1) h

/-- the writes of `update_level_no(manager, level p)`, in the iteration order of the table -/
def writesOf (r : RState) (p : Nat) : List (Nat × Nat) := (r.s.table p).map fun i => (p, i)

/-- the index dispenser of `WorkerPool::slice_for_each` (`done.fetch_add(1)` until `i >= len`):
the indices handed out, in the order of the atomic counter -/
def sliceForEach (len : Nat) : List Nat := List.range len

/-! ## heaps: extensionality, `set_level` pointwise -/

theorem get?_lt {h : Heap} {i : Nat} {m : SNode} (hm : h.get? i = some m) :
    i < h.slots.length := by
  apply Classical.byContradiction
  intro hc
  unfold Heap.get? at hm
  rw [List.getElem?_eq_none (by omega)] at hm
  simp at hm

/-- two heaps with the same number of slots and the same contents are equal -/
theorem Heap.ext' {h h' : Heap} (hl : h.slots.length = h'.slots.length)
    (hg : ∀ k, h.get? k = h'.get? k) : h = h' := by
  cases h with
  | mk s =>
    cases h' with
    | mk s' =>
      simp only [Heap.mk.injEq]
      apply List.ext_getElem hl
      intro i h1 h2
      have := hg i
      simp only [Heap.get?, List.getElem?_eq_getElem h1, List.getElem?_eq_getElem h2,
        Option.join_some] at this
      exact this

/-- `set_level` never changes the number of slots (it only overwrites a live slot) -/
theorem setLevel_length (h : Heap) (i l : Nat) :
    (setLevel h i l).slots.length = h.slots.length := by
  unfold setLevel
  cases hm : h.get? i with
  | none => rfl
  | some m =>
    have hlt := get?_lt hm
    simp only [Heap.put, hlt, if_true, List.length_set]

theorem get?_setLevel (h : Heap) (i l k : Nat) :
    (setLevel h i l).get? k =
      if k = i then (h.get? k).map (fun m => { m with level := l }) else h.get? k := by
  unfold setLevel
  by_cases hk : k = i
  · subst hk
    rw [if_pos rfl]
    cases hm : h.get? k with
    | none => simp only [hm, Option.map_none]
    | some m => simp only [get?_put, if_true, Option.map_some]
  · rw [if_neg hk]
    cases hm : h.get? i with
    | none => rfl
    | some m => simp only [get?_put, if_neg hk]

theorem runWrites_length (h : Heap) (ws : List (Nat × Nat)) :
    (runWrites h ws).slots.length = h.slots.length := by
  unfold runWrites
  induction ws generalizing h with
  | nil => rfl
  | cons w ws ih => rw [List.foldl_cons, ih, setLevel_length]

theorem runWrites_append (h : Heap) (a b : List (Nat × Nat)) :
    runWrites h (a ++ b) = runWrites (runWrites h a) b := by
  unfold runWrites; rw [List.foldl_append]

/-- the level number the writes `ws` leave in slot `k` (`d`: the number before) -/
def lastLv (ws : List (Nat × Nat)) (k d : Nat) : Nat :=
  ws.foldl (fun d w => if w.2 = k then w.1 else d) d

/-- pointwise description of a list of writes: slot `k` keeps everything but its level number,
which becomes the one of the last write to `k` -/
theorem get?_runWrites (h : Heap) (ws : List (Nat × Nat)) (k : Nat) :
    (runWrites h ws).get? k =
      (h.get? k).map fun m => { m with level := lastLv ws k m.level } := by
  induction ws generalizing h with
  | nil =>
    show h.get? k = _
    cases h.get? k with
    | none => rfl
    | some m => rfl
  | cons w ws ih =>
    have e : runWrites h (w :: ws) = runWrites (setLevel h w.2 w.1) ws := rfl
    rw [e, ih, get?_setLevel]
    by_cases hk : k = w.2
    · rw [if_pos hk]
      cases h.get? k with
      | none => rfl
      | some m =>
        simp only [Option.map_some, lastLv, List.foldl_cons, if_pos hk.symm]
    · rw [if_neg hk]
      have hk' : ¬ w.2 = k := fun e => hk e.symm
      cases h.get? k with
      | none => rfl
      | some m =>
        simp only [Option.map_some, lastLv, List.foldl_cons, if_neg hk']

theorem lastLv_not_mem {ws : List (Nat × Nat)} {k : Nat} (d : Nat)
    (hn : ∀ w ∈ ws, w.2 ≠ k) : lastLv ws k d = d := by
  unfold lastLv
  induction ws generalizing d with
  | nil => rfl
  | cons w ws ih =>
    rw [List.foldl_cons, if_neg (hn w (by simp))]
    exact ih d fun w' hw' => hn w' (by simp [hw'])

theorem lastLv_mem {ws : List (Nat × Nat)} {k p : Nat} (d : Nat)
    (hall : ∀ w ∈ ws, w.2 = k → w.1 = p) (hex : ∃ w ∈ ws, w.2 = k) : lastLv ws k d = p := by
  induction ws generalizing d with
  | nil => obtain ⟨w, hw, _⟩ := hex; cases hw
  | cons w ws ih =>
    have hall' : ∀ w' ∈ ws, w'.2 = k → w'.1 = p := fun w' hw' => hall w' (by simp [hw'])
    have e : lastLv (w :: ws) k d = lastLv ws k (if w.2 = k then w.1 else d) := rfl
    rw [e]
    by_cases hex' : ∃ w' ∈ ws, w'.2 = k
    · exact ih _ hall' hex'
    · have hn : ∀ w' ∈ ws, w'.2 ≠ k := fun w' hw' hk => hex' ⟨w', hw', hk⟩
      rw [lastLv_not_mem _ hn]
      obtain ⟨w', hw', hk'⟩ := hex
      rcases List.mem_cons.mp hw' with h1 | h1
      · subst h1
        rw [if_pos hk']; exact hall w' (by simp) hk'
      · exact absurd hk' (hn w' h1)

/-- every slot is written with at most one level number -/
def Functional (ws : List (Nat × Nat)) : Prop :=
  ∀ w ∈ ws, ∀ w' ∈ ws, w.2 = w'.2 → w.1 = w'.1

theorem lastLv_perm {ws ws' : List (Nat × Nat)} (hf : Functional ws) (hp : ws.Perm ws')
    (k d : Nat) : lastLv ws k d = lastLv ws' k d := by
  by_cases hex : ∃ w ∈ ws, w.2 = k
  · obtain ⟨w, hw, hk⟩ := hex
    have h1 : lastLv ws k d = w.1 :=
      lastLv_mem d (fun w' hw' hk' => hf w' hw' w hw (hk'.trans hk.symm)) ⟨w, hw, hk⟩
    have h2 : lastLv ws' k d = w.1 :=
      lastLv_mem d
        (fun w' hw' hk' => hf w' (hp.mem_iff.mpr hw') w hw (hk'.trans hk.symm))
        ⟨w, hp.mem_iff.mp hw, hk⟩
    rw [h1, h2]
  · have hn : ∀ w ∈ ws, w.2 ≠ k := fun w hw hk => hex ⟨w, hw, hk⟩
    have hn' : ∀ w ∈ ws', w.2 ≠ k := fun w hw hk => hex ⟨w, hp.mem_iff.mpr hw, hk⟩
    rw [lastLv_not_mem d hn, lastLv_not_mem d hn']

/-- **writes that give every slot at most one number commute**: any permutation of such a list
of `set_level` calls ends in literally the same heap -/
theorem runWrites_perm {ws ws' : List (Nat × Nat)} (hf : Functional ws) (hp : ws.Perm ws')
    (h : Heap) : runWrites h ws = runWrites h ws' := by
  apply Heap.ext'
  · rw [runWrites_length, runWrites_length]
  · intro k
    rw [get?_runWrites, get?_runWrites]
    cases h.get? k with
    | none => rfl
    | some m => simp only [Option.map_some, lastLv_perm hf hp]

/-- two `set_level` calls on different slots, or with the same number, commute -/
theorem setLevel_comm (h : Heap) {i j p q : Nat} (hc : i ≠ j ∨ p = q) :
    setLevel (setLevel h i p) j q = setLevel (setLevel h j q) i p := by
  have hf : Functional [(p, i), (q, j)] := by
    intro w hw w' hw' e
    simp only [List.mem_cons, List.mem_nil_iff, or_false] at hw hw'
    rcases hw with rfl | rfl <;> rcases hw' with rfl | rfl
    · rfl
    · rcases hc with hc | hc
      · exact absurd e hc
      · exact hc
    · rcases hc with hc | hc
      · exact absurd e.symm hc
      · exact hc.symm
    · rfl
  exact runWrites_perm hf (List.Perm.swap _ _ _) h

/-! ## `update_levels_seq` as a list of writes -/

theorem updateLevelNo_eq_runWrites (h : Heap) (tbl : List Nat) (l : Nat) :
    updateLevelNo h tbl l = runWrites h (tbl.map fun i => (l, i)) := by
  unfold updateLevelNo runWrites
  rw [List.foldl_map]

theorem updLoop_eq_runWrites (r : RState) (ps : List Nat) (h : Heap) :
    updLoop r ps h =
      runWrites h ((ps.filter fun p => decide (p ≠ r.toPre.getD p p)).flatMap (writesOf r)) := by
  unfold updLoop
  induction ps generalizing h with
  | nil => rfl
  | cons q qs ih =>
    rw [List.foldl_cons, ih, List.filter_cons]
    by_cases hc : q ≠ r.toPre.getD q q
    · rw [if_pos hc, if_pos (decide_eq_true hc), List.flatMap_cons, runWrites_append,
        updateLevelNo_eq_runWrites]
      rfl
    · rw [if_neg hc, if_neg (by simpa using hc)]

/-- dropping the elements with an empty image does not change a `flatMap` -/
theorem flatMap_filter_nonempty {β : Type} (f : Nat → List β) (c e : Nat → Bool)
    (he : ∀ p, e p = true → f p = []) (ps : List Nat) :
    (ps.filter c).flatMap f = (ps.filter fun p => c p && !e p).flatMap f := by
  induction ps with
  | nil => rfl
  | cons q qs ih =>
    rw [List.filter_cons, List.filter_cons]
    cases hc : c q with
    | false => simpa using ih
    | true =>
      cases hq : e q with
      | false => simp [List.flatMap_cons, ih]
      | true => simp [List.flatMap_cons, ih, he q hq]

/-- **the sequential order of the parallel variant**: processing `tasks` front to back, every
table in its iteration order, is literally `update_levels_seq` — the views skipped because of
`!level.is_empty()` contribute no `set_level` call. (No invariant is needed for this.) -/
theorem update_levels_par_seq (r : RState) :
    runWrites r.s.h ((updTasks r).flatMap (writesOf r)) = (updateLevels r).h := by
  rw [updateLevels_eq, updLoop_eq_runWrites]
  unfold updTasks
  rw [flatMap_filter_nonempty (writesOf r) (fun p => decide (p ≠ r.toPre.getD p p))
    (fun p => (r.s.table p).isEmpty)]
  intro p hp
  unfold writesOf
  rw [List.isEmpty_iff.mp hp]; rfl

/-! ## the writes of the tasks are functional -/

theorem mem_updTasks {r : RState} {p : Nat} (hp : p ∈ updTasks r) :
    p < r.s.tables.length ∧ p ≠ r.toPre.getD p p ∧ r.s.table p ≠ [] := by
  unfold updTasks at hp
  rw [List.mem_filter, List.mem_range, Bool.and_eq_true, decide_eq_true_eq] at hp
  refine ⟨hp.1, hp.2.1, fun he => ?_⟩
  rw [he] at hp; simp at hp

theorem mem_task_writes {r : RState} {w : Nat × Nat}
    (hw : w ∈ (updTasks r).flatMap (writesOf r)) : w.1 ∈ updTasks r ∧ w.2 ∈ r.s.table w.1 := by
  obtain ⟨p, hp, hwp⟩ := List.mem_flatMap.mp hw
  unfold writesOf at hwp
  obtain ⟨i, hi, rfl⟩ := List.mem_map.mp hwp
  exact ⟨hp, hi⟩

/-- pairwise disjoint tables make the writes of the tasks functional -/
theorem task_writes_functional_of_disjoint {r : RState}
    (hd : ∀ p q i, p < r.s.tables.length → q < r.s.tables.length →
      i ∈ r.s.table p → i ∈ r.s.table q → p = q) :
    Functional ((updTasks r).flatMap (writesOf r)) := by
  intro w hw w' hw' e
  obtain ⟨h1, h2⟩ := mem_task_writes hw
  obtain ⟨h1', h2'⟩ := mem_task_writes hw'
  rw [e] at h2
  exact hd w.1 w'.1 w'.2 (mem_updTasks h1).1 (mem_updTasks h1').1 h2 h2'

/-- under `InvW` a slot is in the table of exactly one position (the one carrying its label) -/
theorem InvW.tables_disjoint {ext : Nat → Nat} {lab : List Nat} {s : SStore}
    (hw : InvW ext lab s) (p q i : Nat) (hp : p < s.tables.length) (hq : q < s.tables.length)
    (hip : i ∈ s.table p) (hiq : i ∈ s.table q) : p = q := by
  have hp' : p < lab.length := hw.len ▸ hp
  have hq' : q < lab.length := hw.len ▸ hq
  obtain ⟨n, hn, hl⟩ := (hw.tbl_iff p hp' i).mp hip
  obtain ⟨n', hn', hl'⟩ := (hw.tbl_iff q hq' i).mp hiq
  rw [hn] at hn'; cases hn'
  exact hw.inj p q hp' hq' (hl.symm.trans hl')

/-! ## the headline theorem -/

/-- the parallel write-back from explicit hypotheses: pairwise disjoint tables suffice -/
theorem update_level_no_parallel_of_disjoint {r : RState}
    (hd : ∀ p q i, p < r.s.tables.length → q < r.s.tables.length →
      i ∈ r.s.table p → i ∈ r.s.table q → p = q)
    (slices : List (List Nat)) (hcov : slices.flatten.Perm (updTasks r))
    (ws : List (Nat × Nat)) (hws : ws.Perm ((slices.flatten).flatMap (writesOf r))) :
    runWrites r.s.h ws = (updateLevels r).h := by
  rw [← update_levels_par_seq]
  have hp : ((updTasks r).flatMap (writesOf r)).Perm ws :=
    ((hws.trans (List.Perm.flatMap_right (writesOf r) hcov))).symm
  exact (runWrites_perm (task_writes_functional_of_disjoint hd) hp r.s.h).symm

/-- **`update_levels` (the parallel write-back at the end of `set_var_order`) computes literally
the heap of `update_levels_seq`.** `slices`: which task levels each worker got from
`slice_for_each` (every element of `tasks` in exactly one slice: `hcov`); `ws`: the global order
in which the `node.set_level(level_no)` calls of all the `update_level_no` runs hit the store —
*any* permutation of the writes, in particular every interleaving of the workers' sequences and
every iteration order of the tables. `InvW` is the store invariant that holds at the end of
`set_var_order_common` (`to_pre[p]` = the number stored in the nodes of view `p`). -/
theorem update_level_no_parallel {ext : Nat → Nat} {r : RState} (hw : InvW ext r.toPre r.s)
    (slices : List (List Nat)) (hcov : slices.flatten.Perm (updTasks r))
    (ws : List (Nat × Nat)) (hws : ws.Perm ((slices.flatten).flatMap (writesOf r))) :
    runWrites r.s.h ws = (updateLevels r).h :=
  update_level_no_parallel_of_disjoint hw.tables_disjoint slices hcov ws hws

/-- the `Heap.Same` form of `update_level_no_parallel` -/
theorem update_level_no_parallel_same {ext : Nat → Nat} {r : RState}
    (hw : InvW ext r.toPre r.s)
    (slices : List (List Nat)) (hcov : slices.flatten.Perm (updTasks r))
    (ws : List (Nat × Nat)) (hws : ws.Perm ((slices.flatten).flatMap (writesOf r))) :
    Heap.Same (runWrites r.s.h ws) (updateLevels r).h := by
  intro k; rw [update_level_no_parallel hw slices hcov ws hws]

/-- the whole store: `update_levels` does not touch the tables -/
theorem update_level_no_parallel_store {ext : Nat → Nat} {r : RState}
    (hw : InvW ext r.toPre r.s)
    (slices : List (List Nat)) (hcov : slices.flatten.Perm (updTasks r))
    (ws : List (Nat × Nat)) (hws : ws.Perm ((slices.flatten).flatMap (writesOf r))) :
    (⟨runWrites r.s.h ws, r.s.tables⟩ : SStore) = updateLevels r := by
  rw [update_level_no_parallel hw slices hcov ws hws]; rfl

/-! ## the index dispenser of `slice_for_each` -/

theorem map_getD_range (l : List Nat) : (List.range l.length).map (l.getD · 0) = l := by
  apply List.ext_getElem
  · simp
  · intro i h1 h2
    simp only [List.getElem_map, List.getElem_range, List.getD_eq_getElem?_getD]
    rw [List.getElem?_eq_getElem h2]; rfl

/-- **`slice_for_each` covers the slice**: workers claim indices with `done.fetch_add(1)`, so
every index `0 .. len - 1` is claimed exactly once (`claims`: one list per worker). The elements
the workers process then form a partition of `tasks`. -/
theorem sliceForEach_covers (tasks : List Nat) (claims : List (List Nat))
    (hc : claims.flatten.Perm (sliceForEach tasks.length)) :
    (claims.map (·.map (tasks.getD · 0))).flatten.Perm tasks := by
  rw [← List.map_flatten]
  have := hc.map (tasks.getD · 0)
  unfold sliceForEach at this
  rw [map_getD_range] at this
  exact this

/-- the statement in terms of the processed indices: `done` = the task indices in the order in
which they were claimed/processed, each index of `0 .. len - 1` exactly once -/
theorem update_level_no_parallel_done {ext : Nat → Nat} {r : RState}
    (hw : InvW ext r.toPre r.s) (done : List Nat)
    (hdone : done.Perm (sliceForEach (updTasks r).length))
    (ws : List (Nat × Nat))
    (hws : ws.Perm ((done.map ((updTasks r).getD · 0)).flatMap (writesOf r))) :
    runWrites r.s.h ws = (updateLevels r).h := by
  have hcov := sliceForEach_covers (updTasks r) [done] (by simpa using hdone)
  refine update_level_no_parallel hw [done.map ((updTasks r).getD · 0)] ?_ ws ?_
  · simpa using hcov
  · simpa using hws

/-- workers and claims: each worker `w` processes the tasks `tasks[i]`, `i ∈ claims[w]` -/
theorem update_level_no_parallel_claims {ext : Nat → Nat} {r : RState}
    (hw : InvW ext r.toPre r.s) (claims : List (List Nat))
    (hc : claims.flatten.Perm (sliceForEach (updTasks r).length))
    (ws : List (Nat × Nat))
    (hws : ws.Perm
      (((claims.map (·.map ((updTasks r).getD · 0))).flatten).flatMap (writesOf r))) :
    runWrites r.s.h ws = (updateLevels r).h :=
  update_level_no_parallel hw _ (sliceForEach_covers (updTasks r) claims hc) ws hws

/-! ## order-preserving interleavings of the workers' sequences -/

/-- `out` is an interleaving of the sequences `qs` (one per worker): repeatedly some worker
executes the first remaining step of its own sequence -/
inductive Interleaving {α : Type} : List (List α) → List α → Prop
  | done {qs : List (List α)} : (∀ q ∈ qs, q = []) → Interleaving qs []
  | step {qs : List (List α)} {k : Nat} {a : α} {q out : List α} :
      qs[k]? = some (a :: q) → Interleaving (qs.set k q) out → Interleaving qs (a :: out)

theorem flatten_set_perm {α : Type} {qs : List (List α)} {k : Nat} {a : α} {q : List α}
    (hk : qs[k]? = some (a :: q)) : (a :: (qs.set k q).flatten).Perm qs.flatten := by
  induction qs generalizing k with
  | nil => simp at hk
  | cons x xs ih =>
    cases k with
    | zero =>
      simp only [List.getElem?_cons_zero, Option.some.injEq] at hk
      subst hk
      simp only [List.set_cons_zero, List.flatten_cons, List.cons_append]
      exact List.Perm.refl _
    | succ k =>
      simp only [List.getElem?_cons_succ] at hk
      simp only [List.set_cons_succ, List.flatten_cons]
      exact List.perm_middle.symm.trans (List.Perm.append_left x (ih hk))

/-- an interleaving is a permutation of the concatenation -/
theorem Interleaving.perm {α : Type} {qs : List (List α)} {out : List α}
    (h : Interleaving qs out) : out.Perm qs.flatten := by
  induction h with
  | done hn =>
    rename_i qs
    have : qs.flatten = [] := by
      rw [List.flatten_eq_nil_iff]; exact hn
    rw [this]
  | step hk _ ih => exact (List.Perm.cons _ ih).trans (flatten_set_perm hk)

theorem flatten_map_flatMap {α β : Type} (f : α → List β) (L : List (List α)) :
    (L.map (·.flatMap f)).flatten = L.flatten.flatMap f := by
  induction L with
  | nil => rfl
  | cons x xs ih => simp only [List.map_cons, List.flatten_cons, List.flatMap_append, ih]

/-- `update_level_no_parallel` for interleavings: worker `w` runs `update_level_no` for the task
levels `slices[w]` one after the other; the `set_level` calls of the workers hit the store in an
arbitrary order-preserving interleaving `ws` -/
theorem update_level_no_parallel_interleaved {ext : Nat → Nat} {r : RState}
    (hw : InvW ext r.toPre r.s)
    (slices : List (List Nat)) (hcov : slices.flatten.Perm (updTasks r))
    (ws : List (Nat × Nat))
    (hws : Interleaving (slices.map (·.flatMap (writesOf r))) ws) :
    runWrites r.s.h ws = (updateLevels r).h :=
  update_level_no_parallel hw slices hcov ws (flatten_map_flatMap (writesOf r) slices ▸ hws.perm)

/-! ## a concrete store: non-vacuity and the seeded defects -/

/-- Slots: 0 = `x2`, 1 = `x1 ∧ x2`, 2 = `x0 ? (x1 ∧ x2) : x2`, 3 = `¬x0 ∧ x2`; external handles
on 0, 2, 3 (the store `sDup` of `SwapStoreNeg.lean`) -/
def sEx : SStore :=
  ⟨⟨[some ⟨2, .term true, .term false, 5⟩, some ⟨1, .inner 0, .term false, 2⟩,
     some ⟨0, .inner 1, .inner 0, 2⟩, some ⟨0, .term false, .inner 0, 2⟩]⟩,
   [[2, 3], [1], [0]]⟩

theorem sEx_inv : Inv (extOf [1, 0, 1, 1]) sEx := checkInv_sound (by decide)

/-- the state before `update_levels` after the level views were rotated: the view now at
position 0 holds the nodes labelled 1, position 1 those labelled 2, position 2 those labelled 0
— all three levels have to be renumbered -/
def rBad : RState :=
  ⟨⟨sEx.h, [[1], [0], [2, 3]]⟩, [1, 2, 0], [1, 2, 0]⟩

theorem rBad_eq :
    rBad = ((⟨sEx, List.range 3, [0, 1, 2]⟩ : RState).swapViews 0 2).swapViews 0 1 := by
  decide

theorem rBad_invW : InvW (extOf [1, 0, 1, 1]) rBad.toPre rBad.s := by
  rw [rBad_eq]
  have h0 : InvW (extOf [1, 0, 1, 1]) (List.range 3) sEx := sEx_inv.toL.toW
  have h1 := InvW.swapViews (r := ⟨sEx, List.range 3, [0, 1, 2]⟩) h0
    (i := 0) (j := 2) (by decide) (by decide)
  exact InvW.swapViews h1 (i := 0) (j := 1) (by decide) (by decide)

example : updTasks rBad = [0, 1, 2] := by decide

/-- all three levels are renumbered by the write-back -/
example : ((updateLevels rBad).h.slots.map fun o => o.map (·.level)) =
    [some 1, some 0, some 2, some 2] ∧
    (rBad.s.h.slots.map fun o => o.map (·.level)) = [some 2, some 1, some 0, some 0] := by
  decide

/-- non-vacuity: two workers (one got tasks 2 and 0, the other task 1), the writes interleaved
and the table of position 2 iterated backwards -/
example : runWrites rBad.s.h [(2, 3), (1, 0), (0, 1), (2, 2)] = (updateLevels rBad).h :=
  update_level_no_parallel rBad_invW [[2, 0], [1]] (by decide) _ (by decide)

/-- the same by evaluation -/
example : runWrites rBad.s.h [(2, 3), (1, 0), (0, 1), (2, 2)] = (updateLevels rBad).h := by
  decide

/-- an order-preserving interleaving of the two workers' sequences `[(2,2), (2,3), (0,1)]`
(tasks 2 and 0, tables in their iteration order) and `[(1,0)]` (task 1) -/
example : runWrites rBad.s.h [(2, 2), (1, 0), (2, 3), (0, 1)] = (updateLevels rBad).h :=
  update_level_no_parallel_interleaved rBad_invW [[2, 0], [1]] (by decide) _
    (.step (k := 0) rfl (.step (k := 1) rfl (.step (k := 0) rfl (.step (k := 0) rfl
      (.done (by decide))))))

/-- the completely reversed order -/
example : runWrites rBad.s.h ((updTasks rBad).flatMap (writesOf rBad)).reverse =
    (updateLevels rBad).h :=
  update_level_no_parallel rBad_invW [updTasks rBad] (by simp) _
    (by simp)

/-- **seeded defect "`slice_for_each` skips the last element"** (the workers return at
`i >= len - 1`): the task indices processed are `0 .. len - 2`. The nodes of the last task level
(slots 2 and 3, view at position 2) keep the stale number 0, which is now also the number of the
node in slot 1: the result is not the heap of `update_levels_seq`. -/
theorem update_levels_drop_last_wrong :
    let done := List.range ((updTasks rBad).length - 1)
    let h' := runWrites rBad.s.h ((done.map ((updTasks rBad).getD · 0)).flatMap (writesOf rBad))
    h' ≠ (updateLevels rBad).h ∧
    (h'.get? 2).map (·.level) = some 0 ∧
    ((updateLevels rBad).h.get? 2).map (·.level) = some 2 ∧
    (h'.get? 1).map (·.level) = some 0 := by
  decide

/-- the write-back with the numbers `to_pre[p]` instead of `p` -/
def runWritesOld (r : RState) (h : Heap) (ws : List (Nat × Nat)) : Heap :=
  ws.foldl (fun h w => setLevel h w.2 (r.toPre.getD w.1 w.1)) h

/-- **seeded defect "write-back with the old level numbers"** (`set_level(to_pre[p])` instead of
`set_level(level_no)`): nothing changes, every node keeps its stale number. -/
theorem update_levels_old_numbers_wrong :
    let h' := runWritesOld rBad rBad.s.h ((updTasks rBad).flatMap (writesOf rBad))
    h' ≠ (updateLevels rBad).h ∧ h' = rBad.s.h ∧
    (h'.get? 0).map (·.level) = some 2 ∧
    ((updateLevels rBad).h.get? 0).map (·.level) = some 1 := by
  decide

/-- … and if no task is processed at all, every node keeps its stale number -/
example : runWrites rBad.s.h ([].flatMap (writesOf rBad)) ≠ (updateLevels rBad).h := by decide

end OxiddModel.Reorder.SwapStore
