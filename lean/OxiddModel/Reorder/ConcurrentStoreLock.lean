import OxiddModel.Reorder.ConcurrentStore

/-!
# The footprint of a loop-body step of `level_swap` (lockstep lemmas)

A task reads the heap only through the shapes of its own slots, the question "does this foreign
slot carry the label `lp`", its (local) allocator and the tests `rc = 1`. Running the same piece
of the loop body on two heaps that `Agree` gives the same tables and agreeing heaps again, and
leaves the shapes of foreign slots untouched.
-/
namespace OxiddModel.Reorder.SwapStore
open OxiddModel.Bdd OxiddModel.Bdd.Refine

/-! ## pointwise shape of the in-place updates (no liveness hypotheses) -/

theorem sh_setChildT' (h : Heap) (i : Nat) (c : Edge) (k : Nat) :
    (setChildT h i c).sh k =
      if k = i then (h.sh i).map (fun n => (⟨n.level, c, n.e⟩ : Node)) else h.sh k := by
  unfold setChildT
  cases hm : h.get? i with
  | none =>
    simp only
    split
    · rename_i hk; subst hk; rw [sh_eq_none.mpr hm]; rfl
    · rfl
  | some m =>
    simp only
    rw [sh_decRc, sh_put]
    split
    · simp [Heap.sh, hm, SNode.toNode]
    · rfl

theorem sh_setChildE' (h : Heap) (i : Nat) (c : Edge) (k : Nat) :
    (setChildE h i c).sh k =
      if k = i then (h.sh i).map (fun n => (⟨n.level, n.t, c⟩ : Node)) else h.sh k := by
  unfold setChildE
  cases hm : h.get? i with
  | none =>
    simp only
    split
    · rename_i hk; subst hk; rw [sh_eq_none.mpr hm]; rfl
    · rfl
  | some m =>
    simp only
    rw [sh_decRc, sh_put]
    split
    · simp [Heap.sh, hm, SNode.toNode]
    · rfl

/-- `drop_unique_table_edge` frees the slot iff its counter is 1 -/
theorem sh_dropTableEdge' (h : Heap) (j k : Nat) :
    (dropTableEdge h j).sh k = if k = j ∧ h.rcOf j = 1 then none else h.sh k := by
  cases hm : h.get? j with
  | none =>
    have : dropTableEdge h j = h := by unfold dropTableEdge; rw [hm]
    rw [this, rcOf_of_none hm]
    simp
  | some m =>
    rw [rcOf_of_get? hm]
    by_cases hrc : m.rc = 1
    · rw [sh_dropTableEdge_free hm hrc]
      by_cases hk : k = j
      · subst hk; simp [hrc]
      · rw [upd_ne _ _ hk]; simp [hk]
    · rw [sh_dropTableEdge_keep hm hrc]; simp [hrc]

theorem sh_dropTableEdge (h : Heap) (j k : Nat) :
    (dropTableEdge h j).sh k = h.sh k ∨
      ((dropTableEdge h j).sh k = none ∧ k = j ∧ h.rcOf j = 1) := by
  rw [sh_dropTableEdge']
  by_cases hc : k = j ∧ h.rcOf j = 1
  · right; rw [if_pos hc]; exact ⟨rfl, hc⟩
  · left; rw [if_neg hc]

/-! ## reads agree -/

theorem lvlIs_agree {reg : Nat → Bool} {lp : Nat} {H S : Heap} (hag : Agree reg lp H S) (c : Edge) :
    lvlIs H lp c = lvlIs S lp c := by
  rw [lvlIs_eq, lvlIs_eq]
  cases c with
  | term v => rfl
  | inner j =>
    simp only
    cases hr : reg j with
    | true => rw [hag.own j hr]
    | false =>
      cases hs : H.sh j with
      | none =>
        cases hs' : S.sh j with
        | none => rfl
        | some n' => simpa using hag.lblS j n' hr hs'
      | some n =>
        have h1 := hag.lblH j n hr hs
        cases hs' : S.sh j with
        | none => simpa using h1
        | some n' =>
          have h2 := hag.lblS j n' hr hs'
          have e1 : (n.level == lp) = false := by simpa using h1
          have e2 : (n'.level == lp) = false := by simpa using h2
          simp only [e1, e2]

theorem cofE_agree {reg : Nat → Bool} {lp : Nat} {H S : Heap} (hag : Agree reg lp H S) (c : Edge) :
    cofE H lp c = cofE S lp c := by
  rw [cofE_eq, cofE_eq]
  cases c with
  | term v => rfl
  | inner j =>
    simp only [cof0]
    cases hr : reg j with
    | true => rw [hag.own j hr]
    | false =>
      cases hs : H.sh j with
      | none =>
        cases hs' : S.sh j with
        | none => rfl
        | some n' => simp only; rw [if_neg (hag.lblS j n' hr hs')]
      | some n =>
        simp only; rw [if_neg (hag.lblH j n hr hs)]
        cases hs' : S.sh j with
        | none => rfl
        | some n' => simp only; rw [if_neg (hag.lblS j n' hr hs')]

theorem find?_congr' {α : Type} {p q : α → Bool} : ∀ {l : List α}, (∀ x ∈ l, p x = q x) →
    l.find? p = l.find? q
  | [], _ => rfl
  | x :: xs, h => by
    have hx := h x (List.mem_cons_self ..)
    have ih := find?_congr' (l := xs) (fun y hy => h y (List.mem_cons_of_mem _ hy))
    simp only [List.find?_cons, hx, ih]

theorem lookup_agree {reg : Nat → Bool} {lp : Nat} {H S : Heap} (hag : Agree reg lp H S)
    {tbl : List Nat} (ht : ∀ k ∈ tbl, reg k = true) (a b : Edge) :
    lookup H tbl a b = lookup S tbl a b := by
  rw [lookup_eq, lookup_eq]
  apply find?_congr'
  intro k hk
  rw [hag.own k (ht k hk)]

/-! ## counters are irrelevant -/

theorem Agree.of_sh {reg : Nat → Bool} {lp : Nat} {H S H' S' : Heap} (hag : Agree reg lp H S)
    (h1 : H'.sh = H.sh) (h2 : S'.sh = S.sh) : Agree reg lp H' S' :=
  ⟨fun k hk => by rw [h1, h2]; exact hag.own k hk,
   fun k n hk hs => hag.lblH k n hk (by rw [← h1]; exact hs),
   fun k n hk hs => hag.lblS k n hk (by rw [← h2]; exact hs)⟩

theorem Agree.incRc {reg : Nat → Bool} {lp : Nat} {H S : Heap} (hag : Agree reg lp H S)
    (x y : Edge) : Agree reg lp (SwapStore.incRc H x) (SwapStore.incRc S y) :=
  hag.of_sh (sh_incRc _ _) (sh_incRc _ _)

theorem Agree.decRc {reg : Nat → Bool} {lp : Nat} {H S : Heap} (hag : Agree reg lp H S)
    (x y : Edge) : Agree reg lp (SwapStore.decRc H x) (SwapStore.decRc S y) :=
  hag.of_sh (sh_decRc _ _) (sh_decRc _ _)

theorem Agree.incRc_decRc {reg : Nat → Bool} {lp : Nat} {H S : Heap} (hag : Agree reg lp H S)
    (x y : Edge) : Agree reg lp (SwapStore.incRc H x) (SwapStore.decRc S y) :=
  hag.of_sh (sh_incRc _ _) (sh_decRc _ _)

theorem Agree.decRc_incRc {reg : Nat → Bool} {lp : Nat} {H S : Heap} (hag : Agree reg lp H S)
    (x y : Edge) : Agree reg lp (SwapStore.decRc H x) (SwapStore.incRc S y) :=
  hag.of_sh (sh_decRc _ _) (sh_incRc _ _)

theorem Agree.incRc_left {reg : Nat → Bool} {lp : Nat} {H S : Heap} (hag : Agree reg lp H S)
    (x : Edge) : Agree reg lp (SwapStore.incRc H x) S := hag.of_sh (sh_incRc _ _) rfl

theorem Agree.incRc_right {reg : Nat → Bool} {lp : Nat} {H S : Heap} (hag : Agree reg lp H S)
    (x : Edge) : Agree reg lp H (SwapStore.incRc S x) := hag.of_sh rfl (sh_incRc _ _)

theorem Agree.decRc_left {reg : Nat → Bool} {lp : Nat} {H S : Heap} (hag : Agree reg lp H S)
    (x : Edge) : Agree reg lp (SwapStore.decRc H x) S := hag.of_sh (sh_decRc _ _) rfl

theorem Agree.decRc_right {reg : Nat → Bool} {lp : Nat} {H S : Heap} (hag : Agree reg lp H S)
    (x : Edge) : Agree reg lp H (SwapStore.decRc S x) := hag.of_sh rfl (sh_decRc _ _)

/-! ## lockstep: agreeing results + foreign frame -/

/-- the two runs `H ↦ H'`, `S ↦ S'` end in agreeing heaps and did not touch foreign shapes -/
structure Lock (reg : Nat → Bool) (lp : Nat) (H S H' S' : Heap) : Prop where
  ag : Agree reg lp H' S'
  frH : ∀ k, reg k = false → H'.sh k = H.sh k
  frS : ∀ k, reg k = false → S'.sh k = S.sh k

theorem Lock.refl {reg : Nat → Bool} {lp : Nat} {H S : Heap} (hag : Agree reg lp H S) :
    Lock reg lp H S H S := ⟨hag, fun _ _ => rfl, fun _ _ => rfl⟩

theorem Lock.trans {reg : Nat → Bool} {lp : Nat} {H S H1 S1 H2 S2 : Heap}
    (l1 : Lock reg lp H S H1 S1) (l2 : Lock reg lp H1 S1 H2 S2) : Lock reg lp H S H2 S2 :=
  ⟨l2.ag, fun k hk => (l2.frH k hk).trans (l1.frH k hk),
   fun k hk => (l2.frS k hk).trans (l1.frS k hk)⟩

theorem Lock.of_sh {reg : Nat → Bool} {lp : Nat} {H S H1 S1 H' S' : Heap}
    (l1 : Lock reg lp H S H1 S1) (h1 : H'.sh = H1.sh) (h2 : S'.sh = S1.sh) :
    Lock reg lp H S H' S' :=
  ⟨l1.ag.of_sh h1 h2, fun k hk => by rw [h1]; exact l1.frH k hk,
   fun k hk => by rw [h2]; exact l1.frS k hk⟩

/-- both runs apply the same function to the shape of one own slot -/
theorem Lock.point {reg : Nat → Bool} {lp : Nat} {H S H' S' : Heap} (hag : Agree reg lp H S)
    {i : Nat} (hi : reg i = true) (g : Option Node → Option Node)
    (hH : ∀ k, H'.sh k = if k = i then g (H.sh i) else H.sh k)
    (hS : ∀ k, S'.sh k = if k = i then g (S.sh i) else S.sh k) : Lock reg lp H S H' S' := by
  have frH : ∀ k, reg k = false → H'.sh k = H.sh k := by
    intro k hk
    have : k ≠ i := by intro h; subst h; rw [hi] at hk; cases hk
    rw [hH, if_neg this]
  have frS : ∀ k, reg k = false → S'.sh k = S.sh k := by
    intro k hk
    have : k ≠ i := by intro h; subst h; rw [hi] at hk; cases hk
    rw [hS, if_neg this]
  refine ⟨⟨?_, ?_, ?_⟩, frH, frS⟩
  · intro k hk
    rw [hH, hS]
    split
    · rw [hag.own i hi]
    · exact hag.own k hk
  · intro k n hk hs; rw [frH k hk] at hs; exact hag.lblH k n hk hs
  · intro k n hk hs; rw [frS k hk] at hs; exact hag.lblS k n hk hs

theorem setChildT_lock {reg : Nat → Bool} {lp : Nat} {H S : Heap} (hag : Agree reg lp H S)
    {i : Nat} (hi : reg i = true) (c : Edge) :
    Lock reg lp H S (setChildT H i c) (setChildT S i c) :=
  Lock.point hag hi _ (sh_setChildT' H i c) (sh_setChildT' S i c)

theorem setChildE_lock {reg : Nat → Bool} {lp : Nat} {H S : Heap} (hag : Agree reg lp H S)
    {i : Nat} (hi : reg i = true) (c : Edge) :
    Lock reg lp H S (setChildE H i c) (setChildE S i c) :=
  Lock.point hag hi _ (sh_setChildE' H i c) (sh_setChildE' S i c)

theorem setLevel_lock {reg : Nat → Bool} {lp : Nat} {H S : Heap} (hag : Agree reg lp H S)
    {i : Nat} (hi : reg i = true) (l : Nat) :
    Lock reg lp H S (setLevel H i l) (setLevel S i l) :=
  Lock.point hag hi (relabel l) (sh_setLevel' H i l) (sh_setLevel' S i l)

/-- the table component of `tblInsert` -/
theorem tblInsert_lock {reg : Nat → Bool} {lp : Nat} {H S : Heap} (hag : Agree reg lp H S)
    {i : Nat} (hi : reg i = true) {tbl : List Nat} (ht : ∀ k ∈ tbl, reg k = true) :
    (tblInsert H tbl i).2 = (tblInsert S tbl i).2 ∧
    (∀ k ∈ (tblInsert S tbl i).2, k ∈ tbl ∨ k = i) ∧
    (∀ k ∈ tbl, k ∈ (tblInsert S tbl i).2) := by
  have hown := hag.own i hi
  unfold tblInsert
  cases hH : H.get? i with
  | none =>
    cases hS : S.get? i with
    | none => exact ⟨rfl, fun k hk => Or.inl hk, fun k hk => hk⟩
    | some n => simp [Heap.sh, hH, hS] at hown
  | some m =>
    cases hS : S.get? i with
    | none => simp [Heap.sh, hH, hS] at hown
    | some n =>
      simp only [Heap.sh, hH, hS, Option.map, Option.some.injEq, SNode.toNode, Node.mk.injEq] at hown
      obtain ⟨-, ht', he'⟩ := hown
      simp only
      rw [ht', he', lookup_agree hag ht]
      cases lookup S tbl n.t n.e with
      | none =>
        refine ⟨rfl, fun k hk => ?_, fun k hk => List.mem_cons_of_mem _ hk⟩
        rcases List.mem_cons.mp hk with h | h
        · exact Or.inr h
        · exact Or.inl h
      | some j => exact ⟨rfl, fun k hk => Or.inl hk, fun k hk => hk⟩

theorem dropTableEdge_lock' {reg : Nat → Bool} {lp : Nat} {H S : Heap} {j : Nat}
    (hag : Agree reg lp H S) (hj : reg j = true) (htest : H.rcOf j = 1 ↔ S.rcOf j = 1) :
    Lock reg lp H S (dropTableEdge H j) (dropTableEdge S j) := by
  by_cases h1 : H.rcOf j = 1
  · have h2 := htest.mp h1
    refine Lock.point hag hj (fun _ => none) (fun k => ?_) (fun k => ?_)
    · rw [sh_dropTableEdge']; simp [h1]
    · rw [sh_dropTableEdge']; simp [h2]
  · have h2 : ¬ S.rcOf j = 1 := fun h => h1 (htest.mpr h)
    refine Lock.point hag hj id (fun k => ?_) (fun k => ?_)
    · rw [sh_dropTableEdge']; simp only [h1, and_false, if_false, id]; split
      · rename_i hk; rw [hk]
      · rfl
    · rw [sh_dropTableEdge']; simp only [h2, and_false, if_false, id]; split
      · rename_i hk; rw [hk]
      · rfl

/-- `drop(old_upper)`, one entry -/
theorem dropTableEdge_lock {reg : Nat → Bool} {lp : Nat} {H S : Heap} {j : Nat}
    (hag : Agree reg lp H S) (hj : reg j = true) (htest : H.rcOf j = 1 ↔ S.rcOf j = 1) :
    Agree reg lp (dropTableEdge H j) (dropTableEdge S j) ∧
    (∀ k, reg k = false → (dropTableEdge H j).sh k = H.sh k) ∧
    (∀ k, reg k = false → (dropTableEdge S j).sh k = S.sh k) :=
  let l := dropTableEdge_lock' hag hj htest
  ⟨l.ag, l.frH, l.frS⟩

/-! ## `mkChild` -/

theorem mkChild_lock {reg : Nat → Bool} {al : Heap → Nat} {up lp : Nat} {old L : List Nat}
    {H S : Heap} (hal : AllocLocal reg al) (hag : Agree reg lp H S)
    (hold : ∀ k ∈ old, reg k = true) (hL : ∀ k ∈ L, reg k = true) (a b : Edge) :
    (mkChild al up old (H, L) a b).2 = (mkChild al up old (S, L) a b).2 ∧
    (mkChild al up old (H, L) a b).1.2 = (mkChild al up old (S, L) a b).1.2 ∧
    Lock reg lp H S (mkChild al up old (H, L) a b).1.1 (mkChild al up old (S, L) a b).1.1 ∧
    (∀ k ∈ (mkChild al up old (S, L) a b).1.2, reg k = true) := by
  have hH1 : (incRc (incRc H a) b).sh = H.sh := by rw [sh_incRc, sh_incRc]
  have hS1 : (incRc (incRc S a) b).sh = S.sh := by rw [sh_incRc, sh_incRc]
  have hag1 : Agree reg lp (incRc (incRc H a) b) (incRc (incRc S a) b) := hag.of_sh hH1 hS1
  simp only [mkChild]
  generalize incRc (incRc H a) b = H1 at hH1 hag1 ⊢
  generalize incRc (incRc S a) b = S1 at hS1 hag1 ⊢
  have l0 : Lock reg lp H S H1 S1 := (Lock.refl hag).of_sh hH1 hS1
  by_cases hab : a = b
  · simp only [hab, ↓reduceIte]
    exact ⟨trivial, trivial, l0.of_sh (sh_decRc _ _) (sh_decRc _ _), hL⟩
  · simp only [hab, ↓reduceIte]
    rw [lookup_agree hag1 hold a b]
    cases lookup S1 old a b with
    | some j =>
      simp only
      refine ⟨trivial, trivial, l0.of_sh ?_ ?_, hL⟩
      · rw [sh_incRc, sh_decRc, sh_decRc]
      · rw [sh_incRc, sh_decRc, sh_decRc]
    | none =>
      simp only
      rw [lookup_agree hag1 hL a b]
      cases lookup S1 L a b with
      | some j =>
        simp only
        refine ⟨trivial, trivial, l0.of_sh ?_ ?_, hL⟩
        · rw [sh_incRc, sh_decRc, sh_decRc]
        · rw [sh_incRc, sh_decRc, sh_decRc]
      | none =>
        simp only
        have hj : al H1 = al S1 := hal.2 H1 S1 (fun k hk => by rw [hag1.own k hk])
        rw [hj]
        have hr : reg (al S1) = true := hal.1 S1
        refine ⟨rfl, rfl, l0.trans ?_, ?_⟩
        · refine Lock.point hag1 hr (fun _ => some ⟨up, a, b⟩) (fun k => ?_) (fun k => ?_)
          · rw [sh_put]; rfl
          · rw [sh_put]; rfl
        · intro k hk
          rcases List.mem_cons.mp hk with h | h
          · rw [h]; exact hr
          · exact hL k h

/-! ## the move branch -/

theorem moveLS_lock {reg : Nat → Bool} {lp : Nat} {H S : Heap} {U L : List Nat} {i : Nat}
    (hag : Agree reg lp H S) (hi : reg i = true) (hL : ∀ k ∈ L, reg k = true) :
    (moveLS ⟨H, U, L⟩ i).up = U ∧ (moveLS ⟨S, U, L⟩ i).up = U ∧
    (moveLS ⟨H, U, L⟩ i).lo = (moveLS ⟨S, U, L⟩ i).lo ∧
    (moveLS ⟨H, U, L⟩ i).h.sh = H.sh ∧ (moveLS ⟨S, U, L⟩ i).h.sh = S.sh ∧
    (∀ k ∈ (moveLS ⟨S, U, L⟩ i).lo, k ∈ L ∨ k = i) := by
  have hag' := hag.incRc (.inner i) (.inner i)
  obtain ⟨h1, h2, _⟩ := tblInsert_lock hag' hi hL
  refine ⟨rfl, rfl, h1, ?_, ?_, h2⟩
  · show (tblInsert (incRc H (.inner i)) L i).1.sh = _
    rw [sh_tblInsert, sh_incRc]
  · show (tblInsert (incRc S (.inner i)) L i).1.sh = _
    rw [sh_tblInsert, sh_incRc]

/-! ## the rewrite branch up to the re-insertion -/

theorem rewPre_lock {reg : Nat → Bool} {al : Heap → Nat} {up lp : Nat} {old U L : List Nat}
    {H S : Heap} {i : Nat} (t e : Edge)
    (hal : AllocLocal reg al) (hag : Agree reg lp H S) (hi : reg i = true)
    (hold : ∀ k ∈ old, reg k = true) (hU : ∀ k ∈ U, reg k = true) (hL : ∀ k ∈ L, reg k = true) :
    let a := rewPre al up lp old ⟨H, U, L⟩ i t e
    let b := rewPre al up lp old ⟨S, U, L⟩ i t e
    a.up = b.up ∧ a.lo = b.lo ∧ Agree reg lp a.h b.h ∧
    (∀ k, reg k = false → a.h.sh k = H.sh k) ∧ (∀ k, reg k = false → b.h.sh k = S.sh k) ∧
    (∀ k ∈ b.up, reg k = true) ∧ (∀ k ∈ b.lo, reg k = true) := by
  simp only [rewPre]
  rw [← cofE_agree hag t, ← cofE_agree hag e]
  generalize cofE H lp t = gt
  generalize cofE H lp e = ge
  obtain ⟨e0, t0, k0, r0⟩ := mkChild_lock (al := al) (up := up) hal hag hold hL gt.1 ge.1
  generalize mkChild al up old (H, L) gt.1 ge.1 = rH at e0 t0 k0 ⊢
  generalize mkChild al up old (S, L) gt.1 ge.1 = rS at e0 t0 k0 r0 ⊢
  obtain ⟨⟨H1, L1⟩, c1⟩ := rH
  obtain ⟨⟨S1, L1'⟩, c1'⟩ := rS
  simp only at e0 t0 k0 r0 ⊢
  subst e0 t0
  obtain ⟨e1, t1, k1, r1⟩ := mkChild_lock (al := al) (up := up) hal k0.ag hold r0 gt.2 ge.2
  generalize mkChild al up old (H1, L1) gt.2 ge.2 = rH at e1 t1 k1 ⊢
  generalize mkChild al up old (S1, L1) gt.2 ge.2 = rS at e1 t1 k1 r1 ⊢
  obtain ⟨⟨H2, L2⟩, c2⟩ := rH
  obtain ⟨⟨S2, L2'⟩, c2'⟩ := rS
  simp only at e1 t1 k1 r1 ⊢
  subst e1 t1
  have k2 := setChildT_lock k1.ag hi c1
  have k3 := setChildE_lock k2.ag hi c2
  have k4 := setLevel_lock k3.ag hi lp
  have k5 := (Lock.refl k4.ag).of_sh (sh_incRc _ (.inner i)) (sh_incRc _ (.inner i))
  obtain ⟨e5, m5, _⟩ := tblInsert_lock k5.ag hi hU
  have k6 := k5.of_sh (sh_tblInsert _ U i) (sh_tblInsert _ U i)
  have kk := k0.trans (k1.trans (k2.trans (k3.trans (k4.trans k6))))
  refine ⟨e5, rfl, kk.ag, kk.frH, kk.frS, ?_, r1⟩
  intro k hk
  rcases m5 k hk with h | h
  · exact hU k h
  · rw [h]; exact hi

/-! ## the orphan checks -/

theorem tblRemove_lock {reg : Nat → Bool} {lp : Nat} {H S : Heap} {U : List Nat} (a b : Edge)
    (hag : Agree reg lp H S) (hU : ∀ k ∈ U, reg k = true)
    (htest : ∀ k n, reg k = true → S.sh k = some n → n.level = lp →
      (H.rcOf k = 1 ↔ S.rcOf k = 1))
    (hUlp : ∀ k ∈ U, ∃ n, S.sh k = some n ∧ n.level = lp) :
    (tblRemove H U a b).2 = (tblRemove S U a b).2 ∧
    Lock reg lp H S (tblRemove H U a b).1 (tblRemove S U a b).1 ∧
    (∀ k ∈ (tblRemove S U a b).2, k ∈ U) := by
  unfold tblRemove
  rw [lookup_agree hag hU a b]
  cases hl : lookup S U a b with
  | none => exact ⟨rfl, Lock.refl hag, fun k hk => hk⟩
  | some j =>
    simp only
    have hj := (lookup_some hl).1
    obtain ⟨n, hn, hnl⟩ := hUlp j hj
    refine ⟨by first | rfl | trivial, dropTableEdge_lock' hag (hU j hj) (htest j n (hU j hj) hn hnl), ?_⟩
    intro k hk
    exact List.mem_of_mem_erase hk

theorem orphan_foreign {lp : Nat} {h : Heap} {U : List Nat} {j : Nat}
    (hl : ∀ m, h.get? j = some m → m.level ≠ lp) : orphan lp (h, U) (.inner j) = (h, U) := by
  unfold orphan
  simp only
  cases hH : h.get? j with
  | none => rfl
  | some m => simp only; rw [if_neg (fun h' => hl m hH h'.1)]

theorem orphan_lock {reg : Nat → Bool} {lp : Nat} {H S : Heap} {U : List Nat} (c : Edge)
    (hag : Agree reg lp H S) (hU : ∀ k ∈ U, reg k = true)
    (htest : ∀ k n, reg k = true → S.sh k = some n → n.level = lp →
      (H.rcOf k = 1 ↔ S.rcOf k = 1))
    (hUlp : ∀ k ∈ U, ∃ n, S.sh k = some n ∧ n.level = lp) :
    (orphan lp (H, U) c).2 = (orphan lp (S, U) c).2 ∧
    Lock reg lp H S (orphan lp (H, U) c).1 (orphan lp (S, U) c).1 ∧
    (∀ k ∈ (orphan lp (S, U) c).2, k ∈ U) := by
  cases c with
  | term v => exact ⟨rfl, Lock.refl hag, fun k hk => hk⟩
  | inner j =>
    cases hr : reg j with
    | false =>
      rw [orphan_foreign (fun m hm => hag.lblH j m.toNode hr (by simp [Heap.sh, hm])),
        orphan_foreign (fun m hm => hag.lblS j m.toNode hr (by simp [Heap.sh, hm]))]
      exact ⟨rfl, Lock.refl hag, fun k hk => hk⟩
    | true =>
      have hown := hag.own j hr
      unfold orphan
      simp only
      cases hH : H.get? j with
      | none =>
        cases hS : S.get? j with
        | none => exact ⟨rfl, Lock.refl hag, fun k hk => hk⟩
        | some n => simp [Heap.sh, hH, hS] at hown
      | some m =>
        cases hS : S.get? j with
        | none => simp [Heap.sh, hH, hS] at hown
        | some n =>
          simp only [Heap.sh, hH, hS, Option.map, Option.some.injEq, SNode.toNode,
            Node.mk.injEq] at hown
          obtain ⟨hl', ht', he'⟩ := hown
          simp only
          by_cases hl : n.level = lp
          · have ht := htest j n.toNode hr (by simp [Heap.sh, hS]) hl
            rw [rcOf_of_get? hH, rcOf_of_get? hS] at ht
            by_cases hrc : n.rc = 1
            · rw [if_pos ⟨hl'.trans hl, ht.mpr hrc⟩, if_pos ⟨hl, hrc⟩, ht', he']
              exact tblRemove_lock n.t n.e hag hU htest hUlp
            · rw [if_neg (fun h => hrc (ht.mp h.2)), if_neg (fun h => hrc h.2)]
              exact ⟨rfl, Lock.refl hag, fun k hk => hk⟩
          · rw [if_neg (fun h => hl (hl'.symm.trans h.1)), if_neg (fun h => hl h.1)]
            exact ⟨rfl, Lock.refl hag, fun k hk => hk⟩

/-- `htest`: the `rc = 1` tests agree on the own slots labelled `lp`; `hUlp`: the entries of the
upper table carry the label `lp` -/
theorem orphanLS_lock {reg : Nat → Bool} {lp : Nat} {H S : Heap} {U L : List Nat} (c : Edge)
    (hag : Agree reg lp H S) (hU : ∀ k ∈ U, reg k = true)
    (htest : ∀ k n, reg k = true → S.sh k = some n → n.level = lp →
      (H.rcOf k = 1 ↔ S.rcOf k = 1))
    (hUlp : ∀ k ∈ U, ∃ n, S.sh k = some n ∧ n.level = lp) :
    let a := orphanLS lp ⟨H, U, L⟩ c
    let b := orphanLS lp ⟨S, U, L⟩ c
    a.up = b.up ∧ a.lo = L ∧ b.lo = L ∧ Agree reg lp a.h b.h ∧
    (∀ k, reg k = false → a.h.sh k = H.sh k) ∧ (∀ k, reg k = false → b.h.sh k = S.sh k) ∧
    (∀ k ∈ b.up, k ∈ U) := by
  obtain ⟨h1, h2, h3⟩ := orphan_lock c hag hU htest hUlp
  exact ⟨h1, rfl, rfl, h2.ag, h2.frH, h2.frS, h3⟩

end OxiddModel.Reorder.SwapStore
