import OxiddModel.Reorder.ConcurrentStoreDet
import OxiddModel.Reorder.ConcurrentStoreOrder

/-!
# The concurrent `set_var_order`: task state machine × node store

`MStep` couples the task state machine of `concurrent_bubble_sort` (`Concurrent.lean`: `tasks`,
`blocked`, `in_progress`, anonymous workers) with the node store: the atomic transition
`Step.swap` ("the `level_swap` of some worker takes effect") is replaced by the task steps of
`ConcurrentStore.lean` — `begin`, one `node` step per entry of the taken view, one `drop` step per
released entry, and `swap` (the closure's `to_pre` update; this is where `Step.swap` fires) —
and the steps of all workers that are inside `swap(manager, i)` interleave arbitrarily.

`MInv` is the invariant: the shared state is the sequential result `swapsGH fromNe r0 fin` of the
calls whose critical sections are over (`fin`, in the order of the critical sections = `c.log`)
overlaid with the solo runs of the running calls (`Overlay`).
-/
namespace OxiddModel.Reorder.SwapStore
open OxiddModel.Bdd OxiddModel.Bdd.Refine OxiddModel.Reorder

/-- state of the concurrent reordering -/
structure MS where
  /-- the task state machine (shared under the mutex) + anonymous workers -/
  c : CState
  /-- the manager: node store, level views, `to_pre`, level→variable map -/
  r : RState
  /-- the workers inside `swap(manager, i)` -/
  run : List Running
  /-- ghost: the finished calls in the order of their critical sections -/
  fin : List SwapCfg

/-- the new task of a `begin` step -/
def newTask (fromNe : List Nat) (r : RState) (i : Nat) (al : Heap → Nat) (ord : List Nat → List Nat)
    (pool : Nat → Bool) : Running :=
  ⟨i, (tBegin r (fromNe.getD i 0) (fromNe.getD (i + 1) 0) al (ord (r.s.table (fromNe.getD i 0)))).2,
    ord, pool, [], [], false⟩

inductive MStep (fromNe : List Nat) : MS → MS → Prop
  /-- a waiting worker pops a task -/
  | take {m : MS} {i : Nat} {rest : List Nat} : 0 < m.c.idle → m.c.tasks = i :: rest →
      MStep fromNe m
        { m with
          c := { m.c with
                 idle := m.c.idle - 1, tasks := rest, inProgress := m.c.inProgress + 1,
                 running := i :: m.c.running } }
  /-- a waiting worker sees `in_progress == 0` and returns -/
  | exit {m : MS} : 0 < m.c.idle → m.c.tasks = [] → m.c.inProgress = 0 →
      MStep fromNe m { m with c := { m.c with idle := m.c.idle - 1, finished := m.c.finished + 1 } }
  /-- a worker holding index `i` enters `level_swap`: any allocator that is local to the two level
  views and a pool of unused slots no other running task uses, any iteration order -/
  | begin {m : MS} {i : Nat} (al : Heap → Nat) (ord : List Nat → List Nat) (pool : Nat → Bool) :
      i ∈ m.c.running → (∀ t ∈ m.run, t.idx ≠ i) → AllocOK al → OrderOK ord →
      AllocLocal (newTask fromNe m.r i al ord pool).reg al →
      (∀ k, pool k = true → m.r.s.h.sh k = none) →
      (∀ s ∈ m.run, ∀ k, pool k = true → s.reg k = false) →
      MStep fromNe m
        { m with
          r := (tBegin m.r (fromNe.getD i 0) (fromNe.getD (i + 1) 0) al
                  (ord (m.r.s.table (fromNe.getD i 0)))).1,
          run := newTask fromNe m.r i al ord pool :: m.run }
  /-- one iteration of `for e in old_upper.iter()` of some running task -/
  | node {m : MS} {a b : List Running} {t : Running} {k : Nat} {rest : List Nat} :
      m.run = a ++ t :: b → t.loc.todo = k :: rest →
      MStep fromNe m
        { m with
          r := tNode m.r t.loc k,
          run := a ++ { t with loc := { t.loc with todo := rest }, doneN := t.doneN ++ [k] } :: b }
  /-- one entry of `drop(old_upper)` -/
  | drop {m : MS} {a b : List Running} {t : Running} {j : Nat} {rest : List Nat} :
      m.run = a ++ t :: b → t.loc.todo = [] → t.loc.drops = j :: rest →
      MStep fromNe m
        { m with
          r := tDrop m.r j,
          run := a ++ { t with loc := { t.loc with drops := rest }, doneD := t.doneD ++ [j] } :: b }
  /-- `level_swap` returns, `to_pre` is updated (`Step.swap` of the task state machine) -/
  | swap {m : MS} {a b : List Running} {t : Running} {ca cb : List Nat} :
      m.run = a ++ t :: b → t.loc.todo = [] → t.loc.drops = [] → t.ended = false →
      m.c.running = ca ++ t.idx :: cb →
      MStep fromNe m
        { m with
          c := { m.c with
                 running := ca ++ cb, swapped := m.c.swapped ++ [t.idx],
                 lv := swapAdj t.idx m.c.lv },
          r := tEnd m.r t.loc, run := a ++ { t with ended := true } :: b }
  /-- the critical section of a worker whose swap is done -/
  | finish {m : MS} {a b : List Running} {t : Running} {ca cb : List Nat} :
      m.run = a ++ t :: b → t.ended = true → m.c.swapped = ca ++ t.idx :: cb →
      MStep fromNe m
        { m with
          c := OxiddModel.Reorder.finish m.c t.idx (ca ++ cb), run := a ++ b,
          fin := m.fin ++ [⟨t.idx, t.loc.al, t.ord⟩] }

/-- every transition is a transition of the task state machine or leaves it alone -/
theorem MStep.proj {fromNe : List Nat} {m m' : MS} (h : MStep fromNe m m') :
    Step m.c m'.c ∨ m'.c = m.c := by
  cases h with
  | take h1 h2 => exact Or.inl (Step.take h1 h2)
  | exit h1 h2 h3 => exact Or.inl (Step.exit h1 h2 h3)
  | begin => exact Or.inr rfl
  | node => exact Or.inr rfl
  | drop => exact Or.inr rfl
  | swap _ _ _ _ hc => exact Or.inl (Step.swap hc)
  | finish _ _ hc => exact Or.inl (Step.finish hc)

/-- the initial state: `state` as built by `concurrent_bubble_sort`, the manager `r0` -/
def minit (seq0 : List Nat) (workers : Nat) (r0 : RState) : MS :=
  ⟨init seq0 seq0 workers, r0, [], []⟩

inductive MReach (fromNe seq0 : List Nat) (workers : Nat) (r0 : RState) : MS → Prop
  | init : MReach fromNe seq0 workers r0 (minit seq0 workers r0)
  | step {m m' : MS} : MReach fromNe seq0 workers r0 m → MStep fromNe m m' →
      MReach fromNe seq0 workers r0 m'

theorem MReach.reachable {fromNe seq0 : List Nat} {w : Nat} {r0 : RState} {m : MS}
    (h : MReach fromNe seq0 w r0 m) : Reachable seq0 seq0 w m.c := by
  induction h with
  | init => exact Reachable.init
  | step _ hs ih =>
    rcases hs.proj with h | h
    · exact Reachable.step ih h
    · rw [h]; exact ih

end OxiddModel.Reorder.SwapStore
