import OxiddModel.Reorder.ConcurrentStoreMachine
import OxiddModel.Reorder.Properties
import OxiddModel.Reorder.SwapStoreSeq

/-!
# The invariant of the concurrent `set_var_order` machine

`MInv` (the shared state is the sequential result of the finished calls overlaid with the solo runs
of the running calls) holds initially (`minit_inv`), is preserved by every transition of the
machine (`mstep_inv`), hence holds in every reachable state (`mreach_inv`); at the end no call is
running and the shared state is the sequential result of a valid bubble-sort run (`mfinal`).
-/
namespace OxiddModel.Reorder.SwapStore
open OxiddModel.Bdd OxiddModel.Bdd.Refine OxiddModel.Reorder

/-- the fixed data of one `set_var_order` call: `from_ne` (positions of the non-empty level
views, increasing), the initial `ne_target_order` `seq0`, the manager `r0` at the start of the sort -/
structure MSetup (ext : Nat → Nat) (fromNe l2v0 seq0 : List Nat) (r0 : RState) : Prop where
  sorted : fromNe.Pairwise (· < ·)
  lt : ∀ p ∈ fromNe, p < r0.toPre.length
  len : seq0.length = fromNe.length
  rinv : ∃ pos, RInv ext fromNe l2v0 pos r0

/-- **the invariant**: the shared state is the sequential result of the finished calls (in the order
of their critical sections) overlaid with the solo runs of the running calls -/
structure MInv (ext : Nat → Nat) (fromNe l2v0 seq0 : List Nat) (w : Nat) (r0 : RState) (m : MS) :
    Prop where
  reach : Reachable seq0 seq0 w m.c
  rinv : ∃ pos, RInv ext fromNe l2v0 pos (swapsGH fromNe r0 m.fin)
  run : ∃ pos, RunOK ext pos (swapsGH fromNe r0 m.fin) m.run
  ov : Overlay ext (swapsGH fromNe r0 m.fin) m.r m.run
  finlog : m.fin.map (·.i) = m.c.log
  finok : ∀ c ∈ m.fin, AllocOK c.al ∧ OrderOK c.ord
  link : ∀ t ∈ m.run, t.loc.u = fromNe.getD t.idx 0 ∧ t.loc.l = fromNe.getD (t.idx + 1) 0 ∧
      (t.ended = false → t.idx ∈ m.c.running) ∧ (t.ended = true → t.idx ∈ m.c.swapped)
  idxnd : (m.run.map (·.idx)).Nodup

/-! ## helpers -/

/-- distinct members of a list that is pairwise related by a symmetric relation are related -/
theorem mi_pairwise_mem {α : Type} {R : α → α → Prop} (hsym : ∀ a b, R a b → R b a) {l : List α}
    (h : l.Pairwise R) {a b : α} (ha : a ∈ l) (hb : b ∈ l) (hne : a ≠ b) : R a b := by
  induction l with
  | nil => cases ha
  | cons x l ih =>
    rw [List.pairwise_cons] at h
    rcases List.mem_cons.1 ha with rfl | ha'
    · rcases List.mem_cons.1 hb with rfl | hb'
      · exact absurd rfl hne
      · exact h.1 _ hb'
    · rcases List.mem_cons.1 hb with rfl | hb'
      · exact hsym _ _ (h.1 _ ha')
      · exact ih h.2 ha' hb'

/-- replace the middle element of a list: a property of all elements carries over -/
theorem mi_forall_update {α : Type} {P Q : α → Prop} {a b : List α} {t t' : α}
    (h : ∀ x ∈ a ++ t :: b, P x) (hpq : ∀ x ∈ a ++ b, P x → Q x) (ht' : Q t') :
    ∀ x ∈ a ++ t' :: b, Q x := by
  intro x hx
  rcases List.mem_append.1 hx with hx | hx
  · exact hpq x (List.mem_append.2 (Or.inl hx)) (h x (List.mem_append.2 (Or.inl hx)))
  · rcases List.mem_cons.1 hx with rfl | hx
    · exact ht'
    · exact hpq x (List.mem_append.2 (Or.inr hx))
        (h x (List.mem_append.2 (Or.inr (List.mem_cons_of_mem _ hx))))

theorem mi_mem_mid {α : Type} (a b : List α) (t : α) : t ∈ a ++ t :: b :=
  List.mem_append.2 (Or.inr (List.mem_cons_self ..))

theorem mi_mem_of_rest {α : Type} {a b : List α} {t x : α} (h : x ∈ a ++ b) : x ∈ a ++ t :: b := by
  rcases List.mem_append.1 h with h | h
  · exact List.mem_append.2 (Or.inl h)
  · exact List.mem_append.2 (Or.inr (List.mem_cons_of_mem _ h))

theorem mi_mem_rest_of_ne {a b : List Nat} {t x : Nat} (h : x ∈ a ++ t :: b) (hne : x ≠ t) :
    x ∈ a ++ b := by
  rcases List.mem_append.1 h with h | h
  · exact List.mem_append.2 (Or.inl h)
  · rcases List.mem_cons.1 h with h | h
    · exact absurd h hne
    · exact List.mem_append.2 (Or.inr h)

/-- the indices of the running tasks are pairwise different -/
theorem mi_nodup_mid {a b : List Running} {t : Running}
    (h : ((a ++ t :: b).map (·.idx)).Nodup) :
    (∀ x ∈ a ++ b, x.idx ≠ t.idx) ∧ ((a ++ b).map (·.idx)).Nodup := by
  simp only [List.map_append, List.map_cons] at h
  rw [List.nodup_append, List.nodup_cons] at h
  obtain ⟨ha, ⟨htb, hb⟩, hab⟩ := h
  constructor
  · intro x hx e
    rcases List.mem_append.1 hx with hx | hx
    · exact hab x.idx (List.mem_map.2 ⟨x, hx, rfl⟩) t.idx (List.mem_cons_self ..) e
    · exact htb (e ▸ List.mem_map.2 ⟨x, hx, rfl⟩)
  · rw [List.map_append, List.nodup_append]
    exact ⟨ha, hb, fun x hx y hy => hab x hx y (List.mem_cons_of_mem _ hy)⟩

theorem mi_seq_len {seq0 : List Nat} {w : Nat} {c : CState} (h : Reachable seq0 seq0 w c) :
    c.seq.length = seq0.length := by
  rw [(reachable_inv h).seqlog, applySwaps_length]

/-- every queued or held index is an index of two neighbouring non-empty levels -/
theorem mi_active_lt {ext : Nat → Nat} {fromNe l2v0 seq0 : List Nat} {r0 : RState}
    (hs : MSetup ext fromNe l2v0 seq0 r0) {w : Nat} {c : CState} (h : Reachable seq0 seq0 w c)
    {j : Nat} (hj : j ∈ active c) : j + 1 < fromNe.length := by
  have := ((reachable_inv h).core.inv j hj).lt
  rw [mi_seq_len h, hs.len] at this
  exact this

theorem mi_running_active {c : CState} {j : Nat} (h : j ∈ c.running) : j ∈ active c :=
  List.mem_append.2 (Or.inl (List.mem_append.2 (Or.inr h)))

theorem mi_swapped_active {c : CState} {j : Nat} (h : j ∈ c.swapped) : j ∈ active c :=
  List.mem_append.2 (Or.inr h)

/-- the index of a running task is held by a worker -/
theorem mi_run_active {fromNe : List Nat} {m : MS}
    (hlink : ∀ t ∈ m.run, t.loc.u = fromNe.getD t.idx 0 ∧ t.loc.l = fromNe.getD (t.idx + 1) 0 ∧
      (t.ended = false → t.idx ∈ m.c.running) ∧ (t.ended = true → t.idx ∈ m.c.swapped))
    {t : Running} (ht : t ∈ m.run) : t.idx ∈ active m.c := by
  obtain ⟨_, _, h3, h4⟩ := hlink t ht
  cases he : t.ended with
  | false => exact mi_running_active (h3 he)
  | true => exact mi_swapped_active (h4 he)

/-- the positions of two swaps without a common level are pairwise different -/
theorem mi_pos_ne {L : List Nat} (hs : L.Pairwise (· < ·)) {i j : Nat} (hd : Disj i j)
    (hi : i + 1 < L.length) (hj : j + 1 < L.length) :
    L.getD i 0 ≠ L.getD j 0 ∧ L.getD i 0 ≠ L.getD (j + 1) 0 ∧
    L.getD (i + 1) 0 ≠ L.getD j 0 ∧ L.getD (i + 1) 0 ≠ L.getD (j + 1) 0 := by
  have hf := disj_far hd
  refine ⟨?_, ?_, ?_, ?_⟩ <;> intro e
  · have := sorted_getD_inj hs (by omega) (by omega) e; omega
  · have := sorted_getD_inj hs (by omega) (by omega) e; omega
  · have := sorted_getD_inj hs (by omega) (by omega) e; omega
  · have := sorted_getD_inj hs (by omega) (by omega) e; omega

/-- no position of one swap lies strictly between the two positions of another -/
theorem mi_sep {L : List Nat} (hs : L.Pairwise (· < ·)) {i j : Nat}
    (hi : i + 1 < L.length) (hj : j + 1 < L.length) :
    ¬ (L.getD i 0 < L.getD j 0 ∧ L.getD j 0 < L.getD (i + 1) 0) ∧
    ¬ (L.getD i 0 < L.getD (j + 1) 0 ∧ L.getD (j + 1) 0 < L.getD (i + 1) 0) := by
  obtain ⟨_, _, _, hb⟩ := sorted_consecutive hs hi
  exact ⟨fun h => hb _ h.1 h.2 (getD_mem (by omega)), fun h => hb _ h.1 h.2 (getD_mem hj)⟩

/-! ## the critical section of the task state machine -/

theorem mi_finish_log (c : CState) (i : Nat) (o : List Nat) :
    (OxiddModel.Reorder.finish c i o).log = c.log ++ [i] := by
  unfold OxiddModel.Reorder.finish
  dsimp only
  repeat' split
  all_goals rfl

theorem mi_finish_swapped (c : CState) (i : Nat) (o : List Nat) :
    (OxiddModel.Reorder.finish c i o).swapped = o := by
  unfold OxiddModel.Reorder.finish
  dsimp only
  repeat' split
  all_goals rfl

theorem mi_finish_running (c : CState) (i : Nat) (o : List Nat) :
    ∀ x ∈ c.running, x ∈ (OxiddModel.Reorder.finish c i o).running := by
  intro x hx
  unfold OxiddModel.Reorder.finish
  dsimp only
  repeat' split
  all_goals first | exact hx | exact List.mem_cons_of_mem _ hx

/-! ## the invariant -/

theorem minit_inv {ext : Nat → Nat} {fromNe l2v0 seq0 : List Nat} {r0 : RState}
    (hs : MSetup ext fromNe l2v0 seq0 r0) (w : Nat) :
    MInv ext fromNe l2v0 seq0 w r0 (minit seq0 w r0) := by
  obtain ⟨pos, hr⟩ := hs.rinv
  exact
    { reach := Reachable.init
      rinv := ⟨pos, hr⟩
      run := ⟨pos, { inv := hr.inv, ok := (fun t ht => nomatch ht), disj := List.Pairwise.nil }⟩
      ov := overlay_nil hr.inv
      finlog := rfl
      finok := fun c hc => by cases hc
      link := fun t ht => by cases ht
      idxnd := List.nodup_nil }

/-- the separation hypothesis of the rebase step: no position of another running task lies strictly
between the two positions of `t` -/
theorem mi_sep_run {ext : Nat → Nat} {fromNe l2v0 seq0 : List Nat} {r0 : RState}
    (hs : MSetup ext fromNe l2v0 seq0 r0) {w : Nat} {m : MS}
    (hinv : MInv ext fromNe l2v0 seq0 w r0 m) {t : Running} (ht : t ∈ m.run) :
    ∀ s ∈ m.run, ¬ (s.loc.u < t.loc.u ∧ t.loc.u < s.loc.l) ∧
      ¬ (s.loc.u < t.loc.l ∧ t.loc.l < s.loc.l) := by
  intro s hsr
  obtain ⟨h1, h2, _, _⟩ := hinv.link t ht
  obtain ⟨h3, h4, _, _⟩ := hinv.link s hsr
  rw [h1, h2, h3, h4]
  exact mi_sep hs.sorted (mi_active_lt hs hinv.reach (mi_run_active hinv.link hsr))
    (mi_active_lt hs hinv.reach (mi_run_active hinv.link ht))

theorem mstep_inv {ext : Nat → Nat} {fromNe l2v0 seq0 : List Nat} {r0 : RState}
    (hs : MSetup ext fromNe l2v0 seq0 r0) {w : Nat} {m m' : MS}
    (hinv : MInv ext fromNe l2v0 seq0 w r0 m) (hstep : MStep fromNe m m') :
    MInv ext fromNe l2v0 seq0 w r0 m' := by
  have hci := reachable_inv hinv.reach
  obtain ⟨pos, hrun⟩ := hinv.run
  have hov := hinv.ov
  have hlink := hinv.link
  have hnd := hinv.idxnd
  have hreach' : Reachable seq0 seq0 w m'.c := by
    rcases hstep.proj with h | h
    · exact Reachable.step hinv.reach h
    · rw [h]; exact hinv.reach
  cases hstep with
  | take h1 h2 =>
    exact
      { reach := hreach', rinv := hinv.rinv, run := ⟨pos, hrun⟩, ov := hov
        finlog := hinv.finlog, finok := hinv.finok, idxnd := hnd
        link := fun t ht => by
          obtain ⟨a1, a2, a3, a4⟩ := hlink t ht
          exact ⟨a1, a2, fun e => List.mem_cons_of_mem _ (a3 e), a4⟩ }
  | exit h1 h2 h3 =>
    exact
      { reach := hreach', rinv := hinv.rinv, run := ⟨pos, hrun⟩, ov := hov
        finlog := hinv.finlog, finok := hinv.finok, idxnd := hnd, link := hlink }
  | @begin i al ord pool hi hnew hal hord hloc hpool hpd =>
    have hia : i ∈ active m.c := mi_running_active hi
    have hilt : i + 1 < fromNe.length := mi_active_lt hs hinv.reach hia
    obtain ⟨hul, hu, hl, hbetween⟩ := sorted_consecutive hs.sorted hilt
    obtain ⟨posr, hrinv⟩ := hinv.rinv
    have hllt : fromNe.getD (i + 1) 0 < (swapsGH fromNe r0 m.fin).toPre.length := by
      rw [swapsGH_toPre_length]; exact hs.lt _ hl
    have hgap : ∀ p, fromNe.getD i 0 < p → p < fromNe.getD (i + 1) 0 →
        (swapsGH fromNe r0 m.fin).s.table p = [] :=
      fun p h1 h2 => hrinv.empty p (hbetween p h1 h2)
    have hfree : ∀ t ∈ [] ++ m.run, fromNe.getD i 0 ≠ t.loc.u ∧ fromNe.getD i 0 ≠ t.loc.l ∧
        fromNe.getD (i + 1) 0 ≠ t.loc.u ∧ fromNe.getD (i + 1) 0 ≠ t.loc.l := by
      intro t ht
      have ht : t ∈ m.run := by simpa using ht
      obtain ⟨a1, a2, _, _⟩ := hlink t ht
      have hta := mi_run_active hlink ht
      have hd : Disj i t.idx :=
        mi_pairwise_mem (fun _ _ => disj_symm) hci.core.noov hia hta (fun e => hnew t ht e.symm)
      rw [a1, a2]
      exact mi_pos_ne hs.sorted hd hilt (mi_active_lt hs hinv.reach hta)
    obtain ⟨hrun', hov'⟩ := overlay_begin (a := []) (b := m.run) hrun hov i (fromNe.getD i 0)
      (fromNe.getD (i + 1) 0) al ord pool hul hllt hgap hfree hal hord hloc hpool hpd
    exact
      { reach := hreach', rinv := ⟨posr, hrinv⟩, run := ⟨pos, hrun'⟩, ov := hov'
        finlog := hinv.finlog, finok := hinv.finok
        link := fun t ht => by
          rcases List.mem_cons.1 ht with rfl | ht
          · exact ⟨rfl, rfl, fun _ => hi, fun e => absurd e Bool.false_ne_true⟩
          · exact hlink t ht
        idxnd := by
          rw [List.map_cons, List.nodup_cons]
          refine ⟨fun h => ?_, hnd⟩
          obtain ⟨t, ht, e⟩ := List.mem_map.1 h
          exact hnew t ht e }
  | @node a b t k rest hr ht =>
    rw [hr] at hrun hov hlink hnd
    obtain ⟨hrun', hov'⟩ := overlay_node hrun hov ht
    exact
      { reach := hreach', rinv := hinv.rinv, run := ⟨pos, hrun'⟩, ov := hov'
        finlog := hinv.finlog, finok := hinv.finok
        link := mi_forall_update hlink (fun _ _ h => h) (hlink t (mi_mem_mid a b t))
        idxnd := by simpa only [List.map_append, List.map_cons] using hnd }
  | @drop a b t j rest hr ht hd =>
    rw [hr] at hrun hov hlink hnd
    obtain ⟨hrun', hov'⟩ := overlay_drop hrun hov ht hd
    exact
      { reach := hreach', rinv := hinv.rinv, run := ⟨pos, hrun'⟩, ov := hov'
        finlog := hinv.finlog, finok := hinv.finok
        link := mi_forall_update hlink (fun _ _ h => h) (hlink t (mi_mem_mid a b t))
        idxnd := by simpa only [List.map_append, List.map_cons] using hnd }
  | @swap a b t ca cb hr ht hd hne hc =>
    rw [hr] at hrun hov hlink hnd
    obtain ⟨hrun', hov'⟩ := overlay_end hrun hov ht hd hne
    obtain ⟨hne', _⟩ := mi_nodup_mid hnd
    obtain ⟨b1, b2, _, _⟩ := hlink t (mi_mem_mid a b t)
    exact
      { reach := hreach', rinv := hinv.rinv, run := ⟨pos, hrun'⟩, ov := hov'
        finlog := hinv.finlog, finok := hinv.finok
        link := mi_forall_update hlink
          (fun x hx h => by
            obtain ⟨a1, a2, a3, a4⟩ := h
            refine ⟨a1, a2, fun e => ?_, fun e => List.mem_append.2 (Or.inl (a4 e))⟩
            have := a3 e
            rw [hc] at this
            exact mi_mem_rest_of_ne this (hne' x hx))
          ⟨b1, b2, fun e => absurd e (by simp),
            fun _ => List.mem_append.2 (Or.inr (List.mem_cons_self ..))⟩
        idxnd := by simpa only [List.map_append, List.map_cons] using hnd }
  | @finish a b t ca cb hr hend hc =>
    rw [hr] at hrun hov hnd
    have htm : t ∈ m.run := by rw [hr]; exact mi_mem_mid a b t
    obtain ⟨hne', hnd'⟩ := mi_nodup_mid hnd
    obtain ⟨b1, b2, _, _⟩ := hlink t htm
    have hsep : ∀ s ∈ a ++ b, ¬ (s.loc.u < t.loc.u ∧ t.loc.u < s.loc.l) ∧
        ¬ (s.loc.u < t.loc.l ∧ t.loc.l < s.loc.l) :=
      fun s hsm => mi_sep_run hs hinv htm s (by rw [hr]; exact mi_mem_of_rest hsm)
    obtain ⟨pos', hrun', hov'⟩ := overlay_finish hrun hov hend hsep
    have hbase : swapsGH fromNe r0 (m.fin ++ [⟨t.idx, t.loc.al, t.ord⟩]) =
        levelSwapG t.loc.al t.ord (swapsGH fromNe r0 m.fin) t.loc.u t.loc.l := by
      rw [swapsGH_append, swapsGH_cons, swapsGH_nil, b1, b2]
    have htok := hrun.ok t (mi_mem_mid a b t)
    obtain ⟨pos0, hr0⟩ := hs.rinv
    have hfinlt : ∀ c ∈ m.fin, c.i + 1 < fromNe.length := by
      intro c hcm
      have : c.i ∈ m.c.log := by rw [← hinv.finlog]; exact List.mem_map.2 ⟨c, hcm, rfl⟩
      have := validSwaps_lt hci.valid _ this
      rw [hs.len] at this; exact this
    obtain ⟨posr, hrinv', _, _⟩ := swapsGH_spec (ext := ext) (l2v0 := l2v0) hs.sorted
      (m.fin ++ [⟨t.idx, t.loc.al, t.ord⟩])
      (fun c hcm => by
        rcases List.mem_append.1 hcm with h | h
        · exact (hinv.finok c h).1
        · rw [List.mem_singleton.1 h]; exact htok.alok)
      (fun c hcm => by
        rcases List.mem_append.1 hcm with h | h
        · exact (hinv.finok c h).2
        · rw [List.mem_singleton.1 h]; exact htok.ordok)
      (fun c hcm => by
        rcases List.mem_append.1 hcm with h | h
        · exact hfinlt c h
        · rw [List.mem_singleton.1 h]
          exact mi_active_lt hs hinv.reach (mi_run_active hlink htm))
      hr0 hs.lt
    exact
      { reach := hreach', rinv := ⟨posr, hrinv'⟩
        run := ⟨pos', by rw [hbase]; exact hrun'⟩
        ov := by rw [hbase]; exact hov'
        finlog := by
          rw [mi_finish_log, List.map_append, hinv.finlog]; rfl
        finok := fun c hcm => by
          rcases List.mem_append.1 hcm with h | h
          · exact hinv.finok c h
          · rw [List.mem_singleton.1 h]; exact ⟨htok.alok, htok.ordok⟩
        link := fun x hx => by
          obtain ⟨a1, a2, a3, a4⟩ := hlink x (by rw [hr]; exact mi_mem_of_rest hx)
          refine ⟨a1, a2, fun e => mi_finish_running _ _ _ _ (a3 e), fun e => ?_⟩
          rw [mi_finish_swapped]
          have := a4 e
          rw [hc] at this
          exact mi_mem_rest_of_ne this (hne' x hx)
        idxnd := hnd' }

theorem mreach_inv {ext : Nat → Nat} {fromNe l2v0 seq0 : List Nat} {r0 : RState}
    (hs : MSetup ext fromNe l2v0 seq0 r0) {w : Nat} {m : MS}
    (h : MReach fromNe seq0 w r0 m) : MInv ext fromNe l2v0 seq0 w r0 m := by
  induction h with
  | init => exact minit_inv hs w
  | step _ hstep ih => exact mstep_inv hs ih hstep

/-- **at the end** (`tasks` empty, `in_progress == 0`: the exit condition of the workers) no call is
running and the shared state is the sequential result of all calls in the order of their critical
sections, a valid bubble-sort run that sorts `seq0` -/
theorem mfinal {ext : Nat → Nat} {fromNe l2v0 seq0 : List Nat} {r0 : RState}
    (hs : MSetup ext fromNe l2v0 seq0 r0) {w : Nat} {m : MS}
    (h : MReach fromNe seq0 w r0 m) (ht : m.c.tasks = []) (hz : m.c.inProgress = 0) :
    m.run = [] ∧ RState.Same m.r (swapsGH fromNe r0 m.fin) ∧
    ValidSwaps (m.fin.map (·.i)) seq0 ∧ Sorted (applySwaps (m.fin.map (·.i)) seq0) ∧
    m.c.seq = applySwaps (m.fin.map (·.i)) seq0 ∧
    (∀ c ∈ m.fin, AllocOK c.al ∧ OrderOK c.ord) := by
  have hinv := mreach_inv hs h
  have hci := reachable_inv hinv.reach
  have hcnt := hci.cnt
  have hr : m.c.running = [] := List.eq_nil_of_length_eq_zero (by omega)
  have hsw : m.c.swapped = [] := List.eq_nil_of_length_eq_zero (by omega)
  have hrun : m.run = [] := by
    cases hm : m.run with
    | nil => rfl
    | cons t rest =>
      exfalso
      obtain ⟨_, _, a3, a4⟩ := hinv.link t (by rw [hm]; exact List.mem_cons_self ..)
      cases he : t.ended with
      | false => have := a3 he; rw [hr] at this; cases this
      | true => have := a4 he; rw [hsw] at this; cases this
  obtain ⟨pos, hro⟩ := hinv.run
  have hov := hinv.ov
  rw [hrun] at hov
  obtain ⟨hv, hsl, _⟩ := concurrent_linearizable hinv.reach
  obtain ⟨hsorted, _, _⟩ := concurrent_sorted hinv.reach ht hz
  refine ⟨hrun, overlay_det hov (overlay_nil hro.inv), ?_, ?_, ?_, hinv.finok⟩
  · rw [hinv.finlog]; exact hv
  · rw [hinv.finlog, ← hsl]; exact hsorted
  · rw [hinv.finlog]; exact hsl

end OxiddModel.Reorder.SwapStore
