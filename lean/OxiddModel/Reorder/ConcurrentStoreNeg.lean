import OxiddModel.Reorder.ConcurrentStoreInterleave
import OxiddModel.Reorder.PropertiesStore

/-!
# Negative witnesses for `swap_steps_interleave`: both hypotheses matter

`swap_steps_interleave` (`ConcurrentStoreInterleave.lean`) needs (a) *local* slot allocators
(`AllocLocal`: every worker allocates in its own region and looks at nothing else) and (b) pairwise
*disjoint* pairs of level views (the `blocked` check of `concurrent_bubble_sort`). Two executable
counterexamples, checked by `decide`:

* `interleave_shared_allocator_differs` — two swaps on the disjoint pairs (0,1) and (2,3), both
  allocating with the *shared* first-free policy `Heap.firstFree`. In the schedule where B's loop
  iteration runs before A's, the fresh nodes of A and B exchange their slot ids w.r.t. the
  sequential execution "A then B": the final states are not `RState.Same` (slot 4 holds a node
  labelled 2 instead of 0, and the level views hold `[5]`/`[4]` instead of `[4]`/`[5]`). Both
  stores still satisfy the invariant (`checkInv` after `updateLevels`), and the interleaved result
  is the sequential result of the *other* order "B then A" — with a shared allocator already the
  two sequential orders disagree (`shared_allocator_seq_orders_differ`), so no schedule-independent
  final state exists. `firstFree_not_local_both`: `Heap.firstFree` cannot be local to two disjoint
  regions.
* `overlapping_swaps_break` — two swaps sharing the level view 1, (0,1) and (1,2), on the
  three-level store `sIte` (store-level effect of dropping the `blocked` check): with the schedule
  begin A, begin B, loop A, loop B, drops, returns, task B takes the view that A has just emptied
  (it iterates over nothing) and swaps the views 1/2 under A's feet, A then inserts its fresh nodes
  (label 0) into the view that now also holds the old level-2 node. The result differs from both
  sequential orders, `to_pre = [1, 2, 1]` is no permutation, level view 2 is empty, and after
  `update_levels` the store violates the invariant (`¬ Inv`): the external handle 2 unfolds to a
  diagram with level 1 twice on a path. The mirrored schedule (begin B, begin A, loop B, loop A)
  breaks in the same way (`overlapping_swaps_break'`). In the schedule where B only begins after
  A's loop (but before A's return, so B reads a stale `to_pre`), the result also differs from both
  sequential orders (`to_pre`, stored labels), although `update_levels` happens to repair it
  (`overlapping_late_begin`).
-/
namespace OxiddModel.Reorder.SwapStore
open OxiddModel.Bdd OxiddModel.Bdd.BDD OxiddModel.Bdd.Refine OxiddModel.Reorder

/-! ## 1. disjoint pairs, shared allocator -/

/-- four non-empty levels; slot 3 (level 0) has the child 2 (level 1), slot 1 (level 2) has the
child 0 (level 3); one external handle per slot. Swapping the views (0,1) has to create the node
`(⊤, ⊥)` labelled 0, swapping (2,3) the node `(⊤, ⊥)` labelled 2. -/
def sQ : SStore :=
  ⟨⟨[some ⟨3, .term true, .term false, 3⟩, some ⟨2, .inner 0, .term false, 2⟩,
     some ⟨1, .term true, .term false, 3⟩, some ⟨0, .inner 2, .term false, 2⟩]⟩,
   [[3], [2], [1], [0]]⟩

theorem sQ_inv : Inv (extOf [1, 1, 1, 1]) sQ := checkInv_sound (by decide)

def rQ : RState := ⟨sQ, List.range 4, [0, 1, 2, 3]⟩

/-- sequential: A = swap (0,1), then B = swap (2,3) -/
def seqQ : RState := levelSwapG Heap.firstFree id (levelSwapG Heap.firstFree id rQ 0 1) 2 3

/-- sequential, the other order -/
def seqQ' : RState := levelSwapG Heap.firstFree id (levelSwapG Heap.firstFree id rQ 2 3) 0 1

/-- interleaved: begin A, begin B, B's loop iteration, A's loop iteration, the two drops, the two
returns — B allocates before A -/
def concQ : RState :=
  let a := tBegin rQ 0 1 Heap.firstFree [3]
  let b := tBegin a.1 2 3 Heap.firstFree [1]
  let r2 := tNode b.1 b.2 1
  let r3 := tNode r2 a.2 3
  let r4 := tDrop r3 3
  let r5 := tDrop r4 1
  tEnd (tEnd r5 a.2) b.2

/-- the iteration orders used above are the contents of the taken views -/
example : (tBegin rQ 0 1 Heap.firstFree [3]).2.old = [3] ∧
    (tBegin (tBegin rQ 0 1 Heap.firstFree [3]).1 2 3 Heap.firstFree [1]).2.old = [1] := by decide

/-- **Shared allocator: the interleaving is visible.** -/
theorem interleave_shared_allocator_differs :
    let seq := levelSwapG Heap.firstFree id (levelSwapG Heap.firstFree id rQ 0 1) 2 3
    let conc :=
      let a := tBegin rQ 0 1 Heap.firstFree [3]
      let b := tBegin a.1 2 3 Heap.firstFree [1]
      let r2 := tNode b.1 b.2 1
      let r3 := tNode r2 a.2 3
      let r4 := tDrop r3 3
      let r5 := tDrop r4 1
      tEnd (tEnd r5 a.2) b.2
    ¬ RState.Same conc seq ∧ (∃ k, conc.s.h.get? k ≠ seq.s.h.get? k) := by
  show ¬ RState.Same concQ seqQ ∧ (∃ k, concQ.s.h.get? k ≠ seqQ.s.h.get? k)
  have h4 : concQ.s.h.get? 4 ≠ seqQ.s.h.get? 4 := by decide
  exact ⟨fun h => h4 (h.1 4), 4, h4⟩

/-- the witness explicitly: the fresh nodes of A (label 0) and B (label 2) have exchanged their
slots, and so have the entries of the level views 1 and 3 -/
theorem interleave_shared_allocator_slots :
    seqQ.s.h.get? 4 = some ⟨0, .term true, .term false, 2⟩ ∧
    seqQ.s.h.get? 5 = some ⟨2, .term true, .term false, 2⟩ ∧
    concQ.s.h.get? 4 = some ⟨2, .term true, .term false, 2⟩ ∧
    concQ.s.h.get? 5 = some ⟨0, .term true, .term false, 2⟩ ∧
    seqQ.s.tables = [[3, 2], [4], [1, 0], [5]] ∧
    concQ.s.tables = [[3, 2], [5], [1, 0], [4]] ∧
    concQ.toPre = seqQ.toPre ∧ concQ.l2v = seqQ.l2v := by decide

/-- both final stores are fine as stores (after `update_levels` has written the level numbers):
only the slot assignment depends on the schedule -/
theorem interleave_shared_allocator_inv :
    Inv (extOf [1, 1, 1, 1]) (updateLevels seqQ) ∧ Inv (extOf [1, 1, 1, 1]) (updateLevels concQ) :=
  ⟨checkInv_sound (by decide), checkInv_sound (by decide)⟩

/-- the interleaved run ends in the state of the *other* sequential order; with a shared
allocator the two sequential orders themselves disagree -/
theorem interleave_shared_allocator_other_order : concQ = seqQ' := by decide

theorem shared_allocator_seq_orders_differ : ¬ RState.Same seqQ seqQ' := by
  have h4 : seqQ.s.h.get? 4 ≠ seqQ'.s.h.get? 4 := by decide
  exact fun h => h4 (h.1 4)

/-- `Heap.firstFree` cannot be local to two disjoint regions (on the empty heap it answers 0 for
both) -/
theorem firstFree_not_local_both {regA regB : Nat → Bool}
    (hd : ∀ k, ¬ (regA k = true ∧ regB k = true)) :
    ¬ (AllocLocal regA Heap.firstFree ∧ AllocLocal regB Heap.firstFree) :=
  fun h => hd (Heap.firstFree ⟨[]⟩) ⟨h.1.1 _, h.2.1 _⟩

/-! ## 2. overlapping pairs -/

def rI : RState := ⟨sIte, List.range 3, [0, 1, 2]⟩

/-- sequential: A = swap (0,1), then B = swap (1,2) -/
def seqAB : RState := levelSwapG Heap.firstFree id (levelSwapG Heap.firstFree id rI 0 1) 1 2

/-- sequential: B, then A -/
def seqBA : RState := levelSwapG Heap.firstFree id (levelSwapG Heap.firstFree id rI 1 2) 0 1

/-- begin A, begin B (iteration order = the view B finds at position 1, which A has emptied),
A's loop, B's loop, drops, returns -/
def concI : RState :=
  let a := tBegin rI 0 1 Heap.firstFree [2]
  let b := tBegin a.1 1 2 Heap.firstFree (a.1.s.table 1)
  let r2 := a.2.todo.foldl (fun r i => tNode r a.2 i) b.1
  let r3 := b.2.todo.foldl (fun r i => tNode r b.2 i) r2
  let r4 := a.2.drops.foldl tDrop r3
  let r5 := b.2.drops.foldl tDrop r4
  tEnd (tEnd r5 a.2) b.2

/-- mirrored: begin B, begin A, B's loop, A's loop, drops, returns -/
def concI' : RState :=
  let b := tBegin rI 1 2 Heap.firstFree [1]
  let a := tBegin b.1 0 1 Heap.firstFree (b.1.s.table 0)
  let r2 := b.2.todo.foldl (fun r i => tNode r b.2 i) a.1
  let r3 := a.2.todo.foldl (fun r i => tNode r a.2 i) r2
  let r4 := a.2.drops.foldl tDrop r3
  let r5 := b.2.drops.foldl tDrop r4
  tEnd (tEnd r5 a.2) b.2

/-- begin A, A's loop, begin B (A has not returned: `to_pre` is stale), B's loop, drops, returns -/
def concI2 : RState :=
  let a := tBegin rI 0 1 Heap.firstFree [2]
  let r2 := a.2.todo.foldl (fun r i => tNode r a.2 i) a.1
  let b := tBegin r2 1 2 Heap.firstFree (r2.s.table 1)
  let r3 := b.2.todo.foldl (fun r i => tNode r b.2 i) b.1
  let r4 := a.2.drops.foldl tDrop r3
  let r5 := b.2.drops.foldl tDrop r4
  tEnd (tEnd r5 a.2) b.2

/-- both sequential orders are fine -/
theorem overlapping_seq_ok :
    Inv extIte (updateLevels seqAB) ∧ Inv extIte (updateLevels seqBA) :=
  ⟨checkInv_sound (by decide), checkInv_sound (by decide)⟩

/-- in `concI` task B finds the view at position 1 empty: its loop does nothing -/
example : (tBegin (tBegin rI 0 1 Heap.firstFree [2]).1 1 2 Heap.firstFree []).2.old = [] := by
  decide

private theorem not_same_of_toPre {r r' : RState} (h : r.toPre ≠ r'.toPre) : ¬ RState.Same r r' :=
  fun hs => h hs.2.2.1

/-- **Overlapping swaps (no `blocked` check): the store is corrupted.** The interleaved run
differs from both sequential orders; `to_pre` is no permutation and the level view 2 is empty;
after `update_levels` the executable check fails, the invariant does not hold (slot 3, level 1, has
the child 0 at level 1), and the external handle 2 — which denotes `tIte` before and an ordered
diagram after either sequential order — unfolds to a diagram with level 1 twice on a path. -/
theorem overlapping_swaps_break :
    ¬ RState.Same concI seqAB ∧ ¬ RState.Same concI seqBA ∧
    concI.toPre = [1, 2, 1] ∧ concI.s.tables = [[2, 1], [4, 3, 0], []] ∧
    checkInv [1, 1, 1] (updateLevels concI) = false ∧
    ¬ Inv extIte (updateLevels concI) ∧
    treeOf (updateLevels concI).h 3 (.inner 2) =
      some (.node 0 (.node 1 (.leaf true) (.node 1 (.leaf true) (.leaf false)))
        (.node 1 (.leaf false) (.node 1 (.leaf true) (.leaf false)))) := by
  refine ⟨not_same_of_toPre (by decide), not_same_of_toPre (by decide), by decide, by decide,
    by decide, ?_, by decide⟩
  intro h
  obtain ⟨m, hm, hlt⟩ := h.ordered 3 ⟨1, .term true, .inner 0⟩ (by decide) 0 (Or.inr rfl)
  have h0 : (updateLevels concI).h.sh 0 = some ⟨1, .term true, .term false⟩ := by decide
  rw [h0] at hm
  cases hm
  exact absurd hlt (by decide)

/-- the mirrored schedule: same kind of damage (here level 0 occurs twice on a path) -/
theorem overlapping_swaps_break' :
    ¬ RState.Same concI' seqAB ∧ ¬ RState.Same concI' seqBA ∧
    concI'.toPre = [1, 2, 1] ∧
    checkInv [1, 1, 1] (updateLevels concI') = false ∧
    treeOf (updateLevels concI').h 3 (.inner 2) =
      some (.node 0 (.node 1 (.leaf true) (.node 0 (.leaf true) (.leaf false)))
        (.node 1 (.leaf false) (.node 0 (.leaf true) (.leaf false)))) := by
  refine ⟨not_same_of_toPre (by decide), not_same_of_toPre (by decide), by decide, by decide,
    by decide⟩

/-- B begins after A's loop but before A's return: B reads the stale `to_pre[1] = 1` and labels
its fresh nodes 1 instead of 0. The state differs from both sequential orders (`to_pre = [1,2,1]`,
the nodes in level view 2 carry the label 1 of level view 0, and slot 6 is a duplicate of slot 1);
here `update_levels` rewrites all three levels and the final store happens to be consistent. -/
theorem overlapping_late_begin :
    ¬ RState.Same concI2 seqAB ∧ ¬ RState.Same concI2 seqBA ∧
    concI2.toPre = [1, 2, 1] ∧ seqAB.toPre = [1, 2, 0] ∧
    concI2.s.tables = seqAB.s.tables ∧
    concI2.s.h.get? 6 = some ⟨1, .term true, .term false, 2⟩ ∧
    concI2.s.h.get? 1 = some ⟨1, .term true, .term false, 2⟩ ∧
    seqAB.s.h.get? 6 = some ⟨0, .term true, .term false, 2⟩ ∧
    checkInv [1, 1, 1] (updateLevels concI2) = true := by
  refine ⟨not_same_of_toPre (by decide), not_same_of_toPre (by decide), by decide, by decide,
    by decide, by decide, by decide, by decide, by decide⟩

end OxiddModel.Reorder.SwapStore
