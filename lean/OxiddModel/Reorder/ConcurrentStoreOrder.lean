import OxiddModel.Reorder.ConcurrentStore
import OxiddModel.Reorder.PropertiesStore

/-!
# `set_var_order_common` parametrised by the sorting routine

`SetOrderStore.lean` models `set_var_order_common` with the sequential `bubble_sort`
(`setVarOrderS`: one allocator and one hash-table iteration order for all swaps). The concurrent
variant (`concurrent_bubble_sort`) issues a *different* valid sequence of adjacent swaps, and every
swap is executed by some worker, i.e. with its own allocator and iteration order (`SwapCfg`,
`swapsGH` of `ConcurrentStore.lean`).

* `swapsGH_spec`, `swapsGH_track`: the heterogeneous versions of `swapsG_spec`, `swapsG_track`.
* `orderPlan`: what `set_var_order_common` computes before it calls `sort`;
  `setVarOrderTail`: what it does after `sort` has returned.
* `setVarOrderS_eq_planTail`: the sequential model is the tail applied to the bubble sort.
* `setVarOrderWith_spec`: the tail applied to **any** valid sequence of swaps that sorts, each swap
  with its own allocator and iteration order, satisfies `SetOrderRes`.
* `SetOrderRes.correct`: from `SetOrderRes` to the statement of `setVarOrderS_correct`.
-/
namespace OxiddModel.Reorder.SwapStore
open OxiddModel.Bdd OxiddModel.Bdd.BDD OxiddModel.Bdd.Refine OxiddModel.Reorder

/-! ## heterogeneous sequences of swaps -/

theorem swapsGH_nil (fromNe : List Nat) (r : RState) : swapsGH fromNe r [] = r := rfl

theorem swapsGH_cons (fromNe : List Nat) (r : RState) (c : SwapCfg) (cfgs : List SwapCfg) :
    swapsGH fromNe r (c :: cfgs) =
      swapsGH fromNe (levelSwapG c.al c.ord r (fromNe.getD c.i 0) (fromNe.getD (c.i + 1) 0)) cfgs := rfl

theorem swapsGH_append (fromNe : List Nat) (r : RState) (c1 c2 : List SwapCfg) :
    swapsGH fromNe r (c1 ++ c2) = swapsGH fromNe (swapsGH fromNe r c1) c2 := by
  simp only [swapsGH, List.foldl_append]

/-- all swaps with the same allocator and iteration order: the sequential `swapsG` -/
theorem swapsGH_const (al : Heap → Nat) (ord : List Nat → List Nat) (fromNe : List Nat) (r : RState)
    (sw : List Nat) :
    swapsGH fromNe r (sw.map fun i => ⟨i, al, ord⟩) = swapsG al ord fromNe r sw := by
  induction sw generalizing r with
  | nil => rfl
  | cons i rest ih =>
    simp only [List.map_cons, swapsGH_cons]
    rw [ih]; rfl

theorem swapsGH_toPre_length (fromNe : List Nat) (r : RState) (cfgs : List SwapCfg) :
    (swapsGH fromNe r cfgs).toPre.length = r.toPre.length := by
  induction cfgs generalizing r with
  | nil => rfl
  | cons c rest ih => rw [swapsGH_cons, ih, levelSwapG_toPre_length]

section
variable {ext : Nat → Nat} {fromNe l2v0 : List Nat} {pos : Nat → Nat} {r : RState}

/-- **a sequence of `level_swap` calls of neighbouring non-empty levels, every call with its own
allocator and iteration order**: the invariant of the reordering is preserved and every external
handle keeps its value under every assignment of the labels (cf. `swapsG_spec`) -/
theorem swapsGH_spec (hs : fromNe.Pairwise (· < ·)) (cfgs : List SwapCfg)
    (hal : ∀ c ∈ cfgs, AllocOK c.al) (hord : ∀ c ∈ cfgs, OrderOK c.ord)
    (hsw : ∀ c ∈ cfgs, c.i + 1 < fromNe.length)
    (hr : RInv ext fromNe l2v0 pos r) (hlt : ∀ p ∈ fromNe, p < r.toPre.length) :
    ∃ pos', RInv ext fromNe l2v0 pos' (swapsGH fromNe r cfgs) ∧
      (swapsGH fromNe r cfgs).toPre.length = r.toPre.length ∧
      ∀ σ k v, 0 < ext k → Ev r.s.h.sh σ (.inner k) v →
        Ev (swapsGH fromNe r cfgs).s.h.sh σ (.inner k) v := by
  induction cfgs generalizing r pos with
  | nil => exact ⟨pos, hr, rfl, fun _ _ _ _ h => h⟩
  | cons c rest ih =>
    rw [swapsGH_cons]
    obtain ⟨h1, h2, h3, h4⟩ := sorted_consecutive hs (hsw c (by simp))
    obtain ⟨pos1, hr1, hev1⟩ := levelSwapG_spec (hal c (by simp)) (hord c (by simp)) hr h1
      (hlt _ h3) h2 h3 h4
    have hlen := levelSwapG_toPre_length c.al c.ord r (fromNe.getD c.i 0) (fromNe.getD (c.i + 1) 0)
    obtain ⟨pos2, hr2, hlen2, hev2⟩ := ih (fun j hj => hal j (by simp [hj]))
      (fun j hj => hord j (by simp [hj])) (fun j hj => hsw j (by simp [hj])) hr1
      (fun p hp => by rw [hlen]; exact hlt p hp)
    refine ⟨pos2, hr2, hlen2.trans hlen, fun σ k v hk hv => hev2 σ k v hk ?_⟩
    exact hev1 σ _ v hv (fun k' m hk' _ _ => by injection hk' with hk'; subst hk'; exact hk)
end

/-- replaying the swaps on the manager: the sequence being sorted stays the image of `to_pre` at
the non-empty positions under any function `g` of the labels (cf. `swapsG_track`) -/
theorem swapsGH_track {fromNe : List Nat}
    (hs : fromNe.Pairwise (· < ·)) (g : Nat → Nat) (N : Nat) (cfgs : List SwapCfg)
    (hsw : ∀ c ∈ cfgs, c.i + 1 < fromNe.length) {r : RState} {seq : List Nat}
    (hlt : ∀ p ∈ fromNe, p < r.toPre.length) (hlen : seq.length = fromNe.length)
    (htr : ∀ k, k < fromNe.length → seq.getD k 0 = g (r.toPre.getD (fromNe.getD k 0) 0))
    (hN : ∀ p, p < r.toPre.length → r.toPre.getD p 0 < N)
    (hinj : ∀ p q, p < r.toPre.length → q < r.toPre.length →
      r.toPre.getD p 0 = r.toPre.getD q 0 → p = q) :
    (∀ k, k < fromNe.length → (applySwaps (cfgs.map (·.i)) seq).getD k 0 =
      g ((swapsGH fromNe r cfgs).toPre.getD (fromNe.getD k 0) 0)) ∧
    (∀ p, p ∉ fromNe → (swapsGH fromNe r cfgs).toPre.getD p 0 = r.toPre.getD p 0) ∧
    (∀ p, p < r.toPre.length → (swapsGH fromNe r cfgs).toPre.getD p 0 < N) ∧
    (∀ p q, p < r.toPre.length → q < r.toPre.length →
      (swapsGH fromNe r cfgs).toPre.getD p 0 = (swapsGH fromNe r cfgs).toPre.getD q 0 → p = q) := by
  induction cfgs generalizing r seq with
  | nil => exact ⟨htr, fun _ _ => rfl, hN, hinj⟩
  | cons c rest ih =>
    obtain ⟨i, al, ord⟩ := c
    have hi : i + 1 < fromNe.length := hsw ⟨i, al, ord⟩ (by simp)
    have hu := hlt _ (getD_mem (show i < fromNe.length by omega))
    have hl := hlt _ (getD_mem hi)
    have hul : fromNe.getD i 0 < fromNe.getD (i + 1) 0 := sorted_getD_lt hs (by omega) hi
    have hlen1 := levelSwapG_toPre_length al ord r (fromNe.getD i 0) (fromNe.getD (i + 1) 0)
    have htp : ∀ p, (levelSwapG al ord r (fromNe.getD i 0) (fromNe.getD (i + 1) 0)).toPre.getD p 0 =
        r.toPre.getD (tr (fromNe.getD i 0) (fromNe.getD (i + 1) 0) p) 0 := by
      intro p
      rw [levelSwapG_toPre al ord r hu hl]
      exact swapIdx_getD_tr r.toPre hu hl p
    have := ih (r := levelSwapG al ord r (fromNe.getD i 0) (fromNe.getD (i + 1) 0))
      (seq := swapAdj i seq) (fun j hj => hsw j (by simp [hj]))
      (fun p hp => by rw [hlen1]; exact hlt p hp) (by rw [swapAdj_length]; exact hlen)
      (fun k hk => by
        rw [swapAdj_getD i seq (hlen ▸ hi), htp]
        by_cases h1 : k = i
        · subst h1
          rw [if_pos rfl, tr_left]; exact htr (k + 1) hi
        · by_cases h2 : k = i + 1
          · subst h2
            rw [if_neg h1, if_pos rfl, tr_right]; exact htr i (by omega)
          · have c1 : fromNe.getD k 0 ≠ fromNe.getD (i + 1) 0 :=
              fun e => h2 (sorted_getD_inj hs hk hi e)
            have c2 : fromNe.getD k 0 ≠ fromNe.getD i 0 :=
              fun e => h1 (sorted_getD_inj hs hk (by omega) e)
            rw [if_neg h1, if_neg h2, tr_other c2 c1]; exact htr k hk)
      (fun p hp => by rw [hlen1] at hp; rw [htp]; exact hN _ (tr_lt hu hl hp))
      (fun p q hp hq e => by
        rw [hlen1] at hp hq
        rw [htp, htp] at e
        have := hinj _ _ (tr_lt hu hl hp) (tr_lt hu hl hq) e
        rw [← tr_tr (fromNe.getD i 0) (fromNe.getD (i + 1) 0) p, this, tr_tr])
    obtain ⟨t1, t2, t3, t4⟩ := this
    refine ⟨t1, fun p hp => ?_, fun p hp => t3 p (by rw [hlen1]; exact hp),
      fun p q hp hq => t4 p q (by rw [hlen1]; exact hp) (by rw [hlen1]; exact hq)⟩
    show (swapsGH fromNe (levelSwapG al ord r _ _) rest).toPre.getD p 0 = _
    rw [t2 p hp, htp]
    have c1 : p ≠ fromNe.getD (i + 1) 0 := fun e => hp (e ▸ getD_mem hi)
    have c2 : p ≠ fromNe.getD i 0 := fun e => hp (e ▸ getD_mem (show i < fromNe.length by omega))
    rw [tr_other c2 c1]

/-! ## `set_var_order_common` around the call of `sort` -/

/-- what `set_var_order_common` computes before it calls `sort` -/
structure OrderPlan where
  n : Nat
  target : List Nat
  fromNe : List Nat
  neTarget : List Nat
  sorted : Bool
  neSorted : Bool

/-- exactly the `let`s of `setVarOrderS` -/
def orderPlan (s : SStore) (l2v order : List Nat) : OrderPlan :=
  let n := s.tables.length
  let target := sortOrder n (order.map fun v => l2v.idxOf v)
  let levels := List.range n
  let fromNe := levels.filter fun l => !(s.table l).isEmpty
  let neTarget := fromNe.map fun l => target.getD l l
  { n := n, target := target, fromNe := fromNe, neTarget := neTarget
    sorted := levels.all fun l => target.getD l l == l
    neSorted := chainLe 0 neTarget }

/-- `set_var_order_common` after `sort(manager, &mut ne_target_order, swap)` has returned: `r1` is
the manager state, `seq1` the sorted `ne_target_order`; then `from_ne.len() == target_order.len()`
⇒ done, else write `seq1` into `target_order` and run the node-free second step; finally
`update_levels` -/
def setVarOrderTail (pl : OrderPlan) (r1 : RState) (seq1 : List Nat) : SStore × List Nat :=
  let r2 := if pl.fromNe.length = pl.n then r1
            else step2 (pl.n * pl.n + pl.n) 0 r1
              ((pl.fromNe.zip seq1).foldl (fun t p => t.set p.1 p.2) pl.target)
  (updateLevels r2, r2.l2v)

/-- ties to the sequential model: in the branch where `sort` is called, `setVarOrderS` is the tail
applied to the result of the sequential bubble sort -/
theorem setVarOrderS_eq_planTail (al : Heap → Nat) (ord : List Nat → List Nat) (s : SStore)
    (l2v order : List Nat) :
    let pl := orderPlan s l2v order
    pl.sorted = false → pl.neSorted = false →
    setVarOrderS al ord s l2v order =
      setVarOrderTail pl
        (swapsG al ord pl.fromNe ⟨s, List.range pl.n, l2v⟩
          (bubbleSort pl.neTarget.length pl.neTarget).2)
        (bubbleSort pl.neTarget.length pl.neTarget).1 := by
  intro pl h1 h2
  have h1' : ((List.range s.tables.length).all fun l =>
      (sortOrder s.tables.length (order.map fun v => l2v.idxOf v)).getD l l == l) = false := h1
  have h2' : chainLe 0 (((List.range s.tables.length).filter fun l => !(s.table l).isEmpty).map
      fun l => (sortOrder s.tables.length (order.map fun v => l2v.idxOf v)).getD l l) = false := h2
  unfold setVarOrderS
  simp only [h1', h2', Bool.false_eq_true, if_false, Bool.not_false, if_true]
  show _ = setVarOrderTail (orderPlan s l2v order) _ _
  simp only [setVarOrderTail, orderPlan, swapsG]
  by_cases hc : ((List.range s.tables.length).filter fun l => !(s.table l).isEmpty).length =
      s.tables.length
  · simp only [hc, if_true]; rfl
  · simp only [hc, if_false, Bool.false_eq_true]; rfl

/-! ## the theorem -/

/-- `setVarOrderWith_spec` with the components of the plan named -/
theorem setVarOrderWith_core {ext : Nat → Nat} {s : SStore} (hinv : Inv ext s)
    (l2v order : List Nat) (cfgs : List SwapCfg)
    (hal : ∀ c ∈ cfgs, AllocOK c.al) (hord : ∀ c ∈ cfgs, OrderOK c.ord)
    (n : Nat) (hn : s.tables.length = n) (hl2v : l2v.length = n)
    (hnd : (order.map fun v => l2v.idxOf v).Nodup)
    (hlt : ∀ x ∈ order.map (fun v => l2v.idxOf v), x < n)
    (target : List Nat) (htg : sortOrder n (order.map fun v => l2v.idxOf v) = target)
    (fromNe : List Nat) (hfne : (List.range n).filter (fun l => !(s.table l).isEmpty) = fromNe)
    (neTarget : List Nat) (hnt : fromNe.map (fun l => target.getD l l) = neTarget)
    (b1 b2 : Bool)
    (hvalid : ValidSwaps (cfgs.map (·.i)) neTarget)
    (hsorted1 : Sorted (applySwaps (cfgs.map (·.i)) neTarget)) :
    SetOrderRes ext s n l2v target
      (setVarOrderTail ⟨n, target, fromNe, neTarget, b1, b2⟩
        (swapsGH fromNe ⟨s, List.range n, l2v⟩ cfgs) (applySwaps (cfgs.map (·.i)) neTarget)) := by
  obtain ⟨htlen, htlt, htnd⟩ := sortOrder_perm n _ hnd hlt
  rw [htg] at htlen htlt htnd
  have hgetD : ∀ a (ha : a < n), target.getD a 0 = target[a]'(htlen ▸ ha) := fun a ha => by
    simp [List.getD_eq_getElem?_getD, List.getElem?_eq_getElem (htlen ▸ ha)]
  have htlt' : ∀ a, a < n → target.getD a 0 < n := fun a ha => by
    rw [hgetD a ha]; exact htlt _ (List.getElem_mem _)
  have htinj : ∀ a b, a < n → b < n → target.getD a 0 = target.getD b 0 → a = b := by
    intro a b ha hb e
    rw [hgetD a ha, hgetD b hb] at e
    have hpw := List.pairwise_iff_getElem.mp (List.nodup_iff_pairwise_ne.mp htnd)
    rcases Nat.lt_trichotomy a b with c | c | c
    · exact absurd e (hpw a b _ _ c)
    · exact c
    · exact absurd e.symm (hpw b a _ _ c)
  have hself : ∀ a, a < n → target.getD a a = target.getD a 0 := fun a ha =>
    getD_self_eq (htlen ▸ ha)
  have hfs : fromNe.Pairwise (· < ·) := hfne ▸ List.Pairwise.filter _ List.pairwise_lt_range
  have hfmem : ∀ p, p ∈ fromNe ↔ p < n ∧ s.table p ≠ [] := by
    intro p; rw [← hfne]; simp [List.mem_filter]
  have hflt : ∀ p ∈ fromNe, p < n := fun p hp => ((hfmem p).mp hp).1
  have hr0 : RInv ext fromNe l2v id ⟨s, List.range n, l2v⟩ :=
    { inv := hn ▸ hinv.toL
      empty := fun p hp => by
        by_cases hpn : p < n
        · apply Classical.byContradiction
          intro hc; exact hp ((hfmem p).mpr ⟨hpn, hc⟩)
        · exact table_of_ge (by rw [hn]; omega)
      l2v_len := by simp [hl2v]
      l2v_eq := fun p hp => by
        simp only [List.length_range] at hp
        simp only [range_getD hp] }
  have hpre0 : ∀ p, p < n → (List.range n).getD p 0 < n := fun p hp => by rw [range_getD hp]; exact hp
  have hinj0 : ∀ p q, p < n → q < n → (List.range n).getD p 0 = (List.range n).getD q 0 → p = q :=
    fun p q hp hq e => by rwa [range_getD hp, range_getD hq] at e
  have hntlen : neTarget.length = fromNe.length := by rw [← hnt]; simp
  have hntget : ∀ k, k < fromNe.length → neTarget.getD k 0 = target.getD (fromNe.getD k 0) 0 := by
    intro k hk
    have e : fromNe.getD k 0 = fromNe[k] := by
      simp [List.getD_eq_getElem?_getD, List.getElem?_eq_getElem hk]
    rw [← hnt, e]
    simp only [List.getD_eq_getElem?_getD, List.getElem?_map, List.getElem?_eq_getElem hk,
      Option.map_some, Option.getD_some]
    have := hself fromNe[k] (hflt _ (List.getElem_mem _))
    simpa [List.getD_eq_getElem?_getD] using this
  have hntget0 : ∀ k, k < fromNe.length →
      neTarget.getD k 0 = target.getD ((List.range n).getD (fromNe.getD k 0) 0) 0 := by
    intro k hk
    rw [hntget k hk, range_getD (hflt _ (getD_mem hk))]
  -- the node-free tail
  have htail : ∀ (pos1 : Nat → Nat) (r1 : RState) (seq1 tgt : List Nat),
      RInv ext fromNe l2v pos1 r1 → r1.toPre.length = n →
      seq1.length = fromNe.length → Sorted seq1 →
      (∀ k, k < fromNe.length →
        seq1.getD k 0 = target.getD (r1.toPre.getD (fromNe.getD k 0) 0) 0) →
      (∀ p, p < n → r1.toPre.getD p 0 < n) →
      (∀ σ k v, 0 < ext k → Ev s.h.sh σ (.inner k) v → Ev r1.s.h.sh σ (.inner k) v) →
      tgt.length = n → (∀ p, p < n → tgt.getD p 0 = target.getD (r1.toPre.getD p 0) 0) →
      SetOrderRes ext s n l2v target
        (updateLevels (step2 (n * n + n) 0 r1 tgt), (step2 (n * n + n) 0 r1 tgt).l2v) := by
    intro pos1 r1 seq1 tgt hr1 hlen1 hsl hss hsq hp1 hev1 htl hteq
    have hphi0 : Phi ext l2v target r1.s.h n r1 tgt ∧ r1.l2v.length = n :=
      ⟨{ w := hr1.inv.toW, heap := rfl, len := hlen1, pre_lt := hp1, tgt_eq := hteq,
         l2v_eq := fun p hp => hr1.l2v_eq p (hlen1 ▸ hp) }, hr1.l2v_len.trans hlen1⟩
    obtain ⟨tgt', ⟨hphi', _⟩, _, hfix⟩ := step2_spec (n := n)
      (fun r t => Phi ext l2v target r1.s.h n r t ∧ r.l2v.length = n ∧ t.length = n)
      (fun r t i j h hi hj => by
        obtain ⟨a, b⟩ := h.1.swapViews h.2.1 h.2.2 hi hj
        exact ⟨a, b, by rw [swapIdx_length]; exact h.2.2⟩)
      (n * n + n) 0 r1 tgt htl
      (fun p hp => by rw [hteq p hp]; exact htlt' _ (hp1 p hp))
      (fun p q hp hq e => by
        rw [hteq p hp, hteq q hq] at e
        have := htinj _ _ (hp1 p hp) (hp1 q hq) e
        exact hr1.inv.lab_inj (hlen1 ▸ hp) (hlen1 ▸ hq) this)
      (fun p hp => by omega) (Nat.zero_le _)
      (by have := nonfix_le tgt n
          have : n ≤ n * n := by
            cases n with
            | zero => omega
            | succ m => exact Nat.le_mul_of_pos_left _ (by omega)
          omega)
      ⟨hphi0.1, hphi0.2, htl⟩
    exact tail2 hr1 hlen1 hfs hsl hss hsq htinj hp1 hev1 hphi' hfix
  -- the first step
  have hswlt : ∀ c ∈ cfgs, c.i + 1 < fromNe.length := fun c hc =>
    hntlen ▸ validSwaps_lt hvalid c.i (List.mem_map.mpr ⟨c, hc, rfl⟩)
  have hr0lt : ∀ p ∈ fromNe, p < (RState.mk s (List.range n) l2v).toPre.length := by
    intro p hp; simp only [List.length_range]; exact hflt p hp
  obtain ⟨pos1, hr1, hlen1, hev1⟩ := swapsGH_spec hfs cfgs hal hord hswlt hr0 hr0lt
  obtain ⟨t1, t2, t3, t4⟩ := swapsGH_track hfs (fun ℓ => target.getD ℓ 0) n cfgs hswlt
    (r := ⟨s, List.range n, l2v⟩) (seq := neTarget) hr0lt hntlen hntget0
    (by simpa using hpre0) (by simpa using hinj0)
  simp only [List.length_range] at hlen1 t3 t4
  have hbs1len : (applySwaps (cfgs.map (·.i)) neTarget).length = fromNe.length := by
    rw [applySwaps_length]; exact hntlen
  generalize applySwaps (cfgs.map (·.i)) neTarget = seq1 at *
  generalize swapsGH fromNe ⟨s, List.range n, l2v⟩ cfgs = r1 at *
  simp only [setVarOrderTail]
  split
  · -- all levels are non-empty: done after the first step
    rename_i hall
    have hfid : ∀ k, k < n → fromNe.getD k 0 = k := fun k hk =>
      strictInc_id hfs (fun x hx => hall ▸ hflt x hx) (hall ▸ hk)
    -- the sorted sequence of targets is `0 … n-1`
    have hb_inj : seq1.Pairwise (· < ·) := by
      rw [List.pairwise_iff_getElem]
      intro a b ha hb hab
      have hle := sorted_getD_le hsorted1 hab hb
      have ea : seq1.getD a 0 = seq1[a] := by
        simp [List.getD_eq_getElem?_getD, List.getElem?_eq_getElem ha]
      have eb : seq1.getD b 0 = seq1[b] := by
        simp [List.getD_eq_getElem?_getD, List.getElem?_eq_getElem hb]
      rw [ea, eb] at hle
      rcases Nat.lt_or_ge seq1[a] seq1[b] with c | c
      · exact c
      · exfalso
        have han : a < n := by omega
        have hbn : b < n := by omega
        have e : seq1.getD a 0 = seq1.getD b 0 := by rw [ea, eb]; omega
        rw [t1 a (by omega), t1 b (by omega), hfid a han, hfid b hbn] at e
        have := t4 a b han hbn (htinj _ _ (t3 a han) (t3 b hbn) e)
        omega
    have hbid : ∀ k, k < n → seq1.getD k 0 = k := by
      intro k hk
      apply strictInc_id hb_inj _ (by omega)
      intro x hx
      obtain ⟨k', hk', e⟩ := mem_getD_of_mem hx
      rw [← e, t1 k' (by omega), hbs1len, hall]
      exact htlt' _ (t3 _ (by rw [hfid k' (by omega)]; omega))
    have hT1 : ∀ p, p < n → target.getD (r1.toPre.getD p 0) 0 = p := by
      intro p hp
      have := t1 p (by omega)
      rw [hfid p hp, hbid p hp] at this
      exact this.symm
    have hphi : Phi ext l2v target r1.s.h n r1 (List.range n) :=
      { w := hr1.inv.toW, heap := rfl, len := hlen1, pre_lt := t3,
        tgt_eq := fun p hp => by rw [range_getD hp, hT1 p hp]
        l2v_eq := fun p hp => hr1.l2v_eq p (hlen1 ▸ hp) }
    exact tail2 hr1 hlen1 hfs hbs1len hsorted1 t1 htinj t3 hev1 hphi (fun p hp => range_getD hp)
  · -- move the views (including the empty ones) to their positions
    rename_i hnall
    have hfnd : fromNe.Nodup := hfs.imp (fun h => Nat.ne_of_lt h)
    refine htail pos1 r1 seq1 _ hr1 hlen1 hbs1len hsorted1 t1 t3 hev1
      (by show (zipSet target fromNe seq1).length = n; rw [zipSet_length]; exact htlen)
      (fun p hp => ?_)
    show (zipSet target fromNe seq1).getD p 0 = _
    by_cases hpf : p ∈ fromNe
    · obtain ⟨k, hk, e⟩ := mem_getD_of_mem hpf
      rw [← e, zipSet_mem target fromNe seq1 hfnd hbs1len (fun x hx => htlen ▸ hflt x hx) hk]
      exact t1 k hk
    · rw [zipSet_not_mem _ _ _ hpf, t2 p hpf, range_getD hp]

/-- **`set_var_order_common` with any sorting routine.** The first step may be ANY valid sequence of
adjacent swaps (every swap exchanges an inversion of the current `ne_target_order`) after which the
sequence is sorted — e.g. a linearisation of `concurrent_bubble_sort` (`concurrent_linearizable`,
`concurrent_sorted`) —, and each swap may use its own allocator and iteration order of the hash
table. The result re-establishes the store invariant, places every level view at its target and
preserves the value of every external handle. -/
theorem setVarOrderWith_spec {ext : Nat → Nat} {s : SStore} (hinv : Inv ext s)
    (l2v order : List Nat) (hl2v : l2v.length = s.tables.length)
    (hnd : (order.map fun v => l2v.idxOf v).Nodup)
    (hlt : ∀ x ∈ order.map (fun v => l2v.idxOf v), x < s.tables.length)
    (cfgs : List SwapCfg) (hal : ∀ c ∈ cfgs, AllocOK c.al) (hord : ∀ c ∈ cfgs, OrderOK c.ord) :
    let pl := orderPlan s l2v order
    ValidSwaps (cfgs.map (·.i)) pl.neTarget →
    Sorted (applySwaps (cfgs.map (·.i)) pl.neTarget) →
    SetOrderRes ext s s.tables.length l2v pl.target
      (setVarOrderTail pl (swapsGH pl.fromNe ⟨s, List.range pl.n, l2v⟩ cfgs)
        (applySwaps (cfgs.map (·.i)) pl.neTarget)) := by
  intro pl hv hs
  exact setVarOrderWith_core hinv l2v order cfgs hal hord s.tables.length rfl hl2v hnd hlt
    _ rfl _ rfl _ rfl _ _ hv hs

/-- the sequential bubble sort is an instance -/
theorem setVarOrderS_spec_of_with {ext : Nat → Nat} {s : SStore} {al : Heap → Nat}
    {ord : List Nat → List Nat} (hal : AllocOK al) (hord : OrderOK ord) (hinv : Inv ext s)
    (l2v order : List Nat) (hl2v : l2v.length = s.tables.length)
    (hnd : (order.map fun v => l2v.idxOf v).Nodup)
    (hlt : ∀ x ∈ order.map (fun v => l2v.idxOf v), x < s.tables.length)
    (h1 : (orderPlan s l2v order).sorted = false) (h2 : (orderPlan s l2v order).neSorted = false) :
    SetOrderRes ext s s.tables.length l2v (orderPlan s l2v order).target
      (setVarOrderS al ord s l2v order) := by
  rw [setVarOrderS_eq_planTail al ord s l2v order h1 h2]
  have hsw := bubbleSort_swaps (orderPlan s l2v order).neTarget (orderPlan s l2v order).neTarget.length
  have hso := bubbleSort_sorted (orderPlan s l2v order).neTarget
    (orderPlan s l2v order).neTarget.length (Nat.le_refl _)
  generalize bubbleSort (orderPlan s l2v order).neTarget.length (orderPlan s l2v order).neTarget = bs at *
  have hmap : (bs.2.map fun i => (⟨i, al, ord⟩ : SwapCfg)).map (·.i) = bs.2 := by
    rw [List.map_map]; exact List.map_id' _
  have := setVarOrderWith_spec hinv l2v order hl2v hnd hlt (bs.2.map fun i => ⟨i, al, ord⟩)
    (fun c hc => by obtain ⟨i, _, rfl⟩ := List.mem_map.mp hc; exact hal)
    (fun c hc => by obtain ⟨i, _, rfl⟩ := List.mem_map.mp hc; exact hord)
    (by rw [hmap]; exact hsw.2.1) (by rw [hmap, hsw.1]; exact hso)
  rw [hmap, hsw.1, swapsGH_const] at this
  exact this

/-! ## from `SetOrderRes` to the headline statement -/

/-- from `SetOrderRes` to the statement of `setVarOrderS_correct` (generic in the result) -/
theorem SetOrderRes.correct {ext : Nat → Nat} {s : SStore} (hinv : Inv ext s) (l2v order : List Nat)
    (hl2v : l2v.length = s.tables.length) (hnd : order.Nodup) (hmem : ∀ v ∈ order, v ∈ l2v)
    {res : SStore × List Nat}
    (hres : SetOrderRes ext s s.tables.length l2v
      (sortOrder s.tables.length (order.map fun v => l2v.idxOf v)) res) :
    (Inv ext res.1 ∧ res.1.tables.length = s.tables.length) ∧
    (∀ i j (hij : i < j) (hj : j < order.length), ∃ p q, p < q ∧ q < s.tables.length ∧
      res.2.getD p 0 = order[i] ∧ res.2.getD q 0 = order[j]) ∧
    (∀ k t, 0 < ext k → Denotes s.h.abs (.inner k) t →
      ∃ t', Denotes res.1.h.abs (.inner k) t' ∧ NF 0 t' ∧
        ∀ ρ : Nat → Bool, t'.eval (fun p => ρ (res.2.getD p 0)) = t.eval (fun l => ρ (l2v.getD l 0))) := by
  have _ := hinv
  obtain ⟨h1, h2⟩ := order_levels_ok hnd hmem
  rw [hl2v] at h2
  have hspec := hres
  obtain ⟨htlen, htlt, htnd⟩ := sortOrder_perm s.tables.length _ h1 h2
  generalize htg : sortOrder s.tables.length (order.map fun v => l2v.idxOf v) = target at *
  have hgetD : ∀ a (ha : a < s.tables.length), target.getD a 0 = target[a]'(htlen ▸ ha) :=
    fun a ha => by simp [List.getD_eq_getElem?_getD, List.getElem?_eq_getElem (htlen ▸ ha)]
  have htlt' : ∀ a, a < s.tables.length → target.getD a 0 < s.tables.length := fun a ha => by
    rw [hgetD a ha]; exact htlt _ (List.getElem_mem _)
  have htinj : ∀ a b, a < s.tables.length → b < s.tables.length →
      target.getD a 0 = target.getD b 0 → a = b := by
    intro a b ha hb e
    rw [hgetD a ha, hgetD b hb] at e
    have hpw := List.pairwise_iff_getElem.mp (List.nodup_iff_pairwise_ne.mp htnd)
    rcases Nat.lt_trichotomy a b with c | c | c
    · exact absurd e (hpw a b _ _ c)
    · exact c
    · exact absurd e.symm (hpw b a _ _ c)
  refine ⟨⟨hspec.inv, hspec.len⟩, ?_, ?_⟩
  · intro i j hij hj
    have hi : i < order.length := by omega
    have hai := hmem _ (List.getElem_mem hi)
    have haj := hmem _ (List.getElem_mem hj)
    have hli : l2v.idxOf order[i] < s.tables.length := hl2v ▸ List.idxOf_lt_length_of_mem hai
    have hlj : l2v.idxOf order[j] < s.tables.length := hl2v ▸ List.idxOf_lt_length_of_mem haj
    have hresp := sortOrder_respects s.tables.length (order.map fun v => l2v.idxOf v) h1 h2 i j hij
      (by simpa using hj)
    simp only [List.getElem_map, htg] at hresp
    refine ⟨target.getD (l2v.idxOf order[i]) 0, target.getD (l2v.idxOf order[j]) 0, ?_,
      htlt' _ hlj, ?_, ?_⟩
    · rw [hgetD _ hli, hgetD _ hlj]; exact hresp
    · rw [hspec.placed' htlt' htinj hli]
      simp [List.getD_eq_getElem?_getD, List.getElem?_eq_getElem (List.idxOf_lt_length_of_mem hai)]
    · rw [hspec.placed' htlt' htinj hlj]
      simp [List.getD_eq_getElem?_getD, List.getElem?_eq_getElem (List.idxOf_lt_length_of_mem haj)]
  · intro k t hk hd
    obtain ⟨nd, hnd'⟩ := Option.ne_none_iff_exists'.mp (hspec.inv.live_of_ext hk)
    obtain ⟨t', ht'⟩ := hspec.inv.total _ k nd hnd' (Nat.le_refl _)
    refine ⟨t', ht', hspec.inv.nf ht', fun ρ => ?_⟩
    have e1 := hspec.eval k hk ρ _ (ev_of_den hd _)
    exact (e1.functional (ev_of_den ht' _)).symm

/-- **C08 for `set_var_order_common` with any sorting routine** (the statement of
`setVarOrderS_correct` for the tail applied to any valid, sorting sequence of swaps, each with its
own allocator and iteration order) -/
theorem setVarOrderWith_correct {ext : Nat → Nat} {s : SStore} (hinv : Inv ext s)
    (l2v order : List Nat) (hl2v : l2v.length = s.tables.length)
    (hnd : order.Nodup) (hmem : ∀ v ∈ order, v ∈ l2v)
    (cfgs : List SwapCfg) (hal : ∀ c ∈ cfgs, AllocOK c.al) (hord : ∀ c ∈ cfgs, OrderOK c.ord)
    (hv : ValidSwaps (cfgs.map (·.i)) (orderPlan s l2v order).neTarget)
    (hs : Sorted (applySwaps (cfgs.map (·.i)) (orderPlan s l2v order).neTarget)) :
    let pl := orderPlan s l2v order
    let res := setVarOrderTail pl (swapsGH pl.fromNe ⟨s, List.range pl.n, l2v⟩ cfgs)
      (applySwaps (cfgs.map (·.i)) pl.neTarget)
    (Inv ext res.1 ∧ res.1.tables.length = s.tables.length) ∧
    (∀ i j (hij : i < j) (hj : j < order.length), ∃ p q, p < q ∧ q < s.tables.length ∧
      res.2.getD p 0 = order[i] ∧ res.2.getD q 0 = order[j]) ∧
    (∀ k t, 0 < ext k → Denotes s.h.abs (.inner k) t →
      ∃ t', Denotes res.1.h.abs (.inner k) t' ∧ NF 0 t' ∧
        ∀ ρ : Nat → Bool, t'.eval (fun p => ρ (res.2.getD p 0)) = t.eval (fun l => ρ (l2v.getD l 0))) := by
  intro pl res
  obtain ⟨h1, h2⟩ := order_levels_ok hnd hmem
  rw [hl2v] at h2
  exact SetOrderRes.correct hinv l2v order hl2v hnd hmem
    (setVarOrderWith_spec hinv l2v order hl2v h1 h2 cfgs hal hord hv hs)

/-! ## non-vacuity -/

/-- `sIte` (`f = x0 ? x1 : x2`), request "x2 above x0": the two swaps are executed with different
iteration orders of the hash table (as by two workers) -/
def cfgsIte : List SwapCfg := [⟨0, Heap.firstFree, id⟩, ⟨1, Heap.firstFree, List.reverse⟩]

theorem orderPlan_sIte : (orderPlan sIte [0, 1, 2] [2, 0]).neTarget = [2, 0, 1] := by decide

theorem setVarOrderWith_sIte :
    SetOrderRes extIte sIte 3 [0, 1, 2] (orderPlan sIte [0, 1, 2] [2, 0]).target
      (setVarOrderTail (orderPlan sIte [0, 1, 2] [2, 0])
        (swapsGH (orderPlan sIte [0, 1, 2] [2, 0]).fromNe ⟨sIte, List.range 3, [0, 1, 2]⟩ cfgsIte)
        [0, 1, 2]) := by
  have h := setVarOrderWith_spec sIte_inv [0, 1, 2] [2, 0] rfl (by decide) (by decide) cfgsIte
    (fun c hc => by
      simp only [cfgsIte, List.mem_cons, List.not_mem_nil, or_false] at hc
      rcases hc with rfl | rfl <;> exact allocOK_firstFree)
    (fun c hc => by
      simp only [cfgsIte, List.mem_cons, List.not_mem_nil, or_false] at hc
      rcases hc with rfl | rfl
      · exact orderOK_id
      · exact orderOK_reverse)
    (by rw [orderPlan_sIte]; exact ⟨by decide, by decide, trivial⟩)
    (by rw [orderPlan_sIte]; decide)
  rw [orderPlan_sIte] at h
  exact h

/-- (`#eval` gives the new level→variable map `[1, 2, 0]`, as for `setVarOrderS`.) -/
example : Inv extIte (setVarOrderTail (orderPlan sIte [0, 1, 2] [2, 0])
    (swapsGH (orderPlan sIte [0, 1, 2] [2, 0]).fromNe ⟨sIte, List.range 3, [0, 1, 2]⟩ cfgsIte)
    [0, 1, 2]).1 := setVarOrderWith_sIte.inv

example := SetOrderRes.correct sIte_inv [0, 1, 2] [2, 0] rfl (by decide) (by decide)
  setVarOrderWith_sIte

end OxiddModel.Reorder.SwapStore
