import OxiddModel.Reorder.ConcurrentStoreSolo
import OxiddModel.Reorder.ConcurrentStoreCore

/-!
# Concurrent `level_swap`s: the steps other than a loop iteration preserve the overlay description

`overlay_nil`, `overlay_begin`, `overlay_drop`, `overlay_end`.
-/
namespace OxiddModel.Reorder.SwapStore
open OxiddModel.Bdd OxiddModel.Bdd.Refine OxiddModel.Reorder

/-! ## lists of running tasks with one distinguished member -/

theorem ms_forall_mid {α : Type} {P : α → Prop} {a b : List α} {t : α} :
    (∀ s ∈ a ++ t :: b, P s) ↔ P t ∧ ∀ s ∈ a ++ b, P s := by
  simp only [List.mem_append, List.mem_cons]
  constructor
  · intro h
    exact ⟨h t (Or.inr (Or.inl rfl)),
      fun s hs => h s (hs.elim Or.inl (fun x => Or.inr (Or.inr x)))⟩
  · rintro ⟨h1, h2⟩ s (hs | rfl | hs)
    · exact h2 s (Or.inl hs)
    · exact h1
    · exact h2 s (Or.inr hs)

theorem ms_TaskDisj_symm {s t : Running} (h : TaskDisj s t) : TaskDisj t s :=
  ⟨Ne.symm h.1, Ne.symm h.2.2.1, Ne.symm h.2.1, Ne.symm h.2.2.2.1, h.2.2.2.2.2, h.2.2.2.2.1⟩

theorem ms_pairwise_mid {a b : List Running} {t : Running} :
    (a ++ t :: b).Pairwise TaskDisj ↔
      (a ++ b).Pairwise TaskDisj ∧ ∀ s ∈ a ++ b, TaskDisj s t := by
  simp only [List.pairwise_append, List.pairwise_cons, List.mem_cons, List.mem_append]
  constructor
  · rintro ⟨h1, ⟨h2, h3⟩, h4⟩
    refine ⟨⟨h1, h3, fun x hx y hy => h4 x hx y (Or.inr hy)⟩, ?_⟩
    rintro s (hs | hs)
    · exact h4 s hs t (Or.inl rfl)
    · exact ms_TaskDisj_symm (h2 s hs)
  · rintro ⟨⟨h1, h3, h4⟩, h5⟩
    refine ⟨h1, ⟨fun s hs => ms_TaskDisj_symm (h5 s (Or.inr hs)), h3⟩, ?_⟩
    rintro x hx y (rfl | hy)
    · exact h5 x (Or.inl hx)
    · exact h4 x hx y hy

theorem ms_runOK_mid {ext : Nat → Nat} {pos : Nat → Nat} {base : RState} {a b : List Running}
    {t : Running} :
    RunOK ext pos base (a ++ t :: b) ↔
      InvL ext base.toPre pos base.s ∧ TaskOK base t ∧ (∀ s ∈ a ++ b, TaskOK base s) ∧
      (a ++ b).Pairwise TaskDisj ∧ ∀ s ∈ a ++ b, TaskDisj s t := by
  constructor
  · intro h
    have h1 := ms_forall_mid.mp h.ok
    have h2 := ms_pairwise_mid.mp h.disj
    exact ⟨h.inv, h1.1, h1.2, h2.1, h2.2⟩
  · rintro ⟨h1, h2, h3, h4, h5⟩
    exact ⟨h1, ms_forall_mid.mpr ⟨h2, h3⟩, ms_pairwise_mid.mpr ⟨h4, h5⟩⟩

/-! ## regions -/

theorem ms_reg_iff (t : Running) (k : Nat) :
    t.reg k = true ↔ k ∈ t.loc.old ∨ k ∈ t.loc.low0 ∨ t.pool k = true := by
  simp [Running.reg, or_assoc]

theorem ms_reg_cases {ext : Nat → Nat} {pos : Nat → Nat} {base : RState} {t : Running}
    (hinv : InvL ext base.toPre pos base.s) (hok : TaskOK base t) {k : Nat} (hk : t.reg k = true) :
    (t.pool k = true ∧ base.s.h.sh k = none) ∨
    ∃ n p, base.s.h.sh k = some n ∧ n.level = base.toPre.getD p 0 ∧ p < base.toPre.length ∧
      (p = t.loc.u ∨ p = t.loc.l) := by
  have hl := hok.llen
  have hu : t.loc.u < base.toPre.length := Nat.lt_trans hok.ul hl
  rcases (ms_reg_iff t k).mp hk with h | h | h
  · rw [hok.old_eq] at h
    obtain ⟨n, h1, h2⟩ := (hinv.tbl_iff _ hu k).mp h
    exact Or.inr ⟨n, _, h1, h2, hu, Or.inl rfl⟩
  · rw [hok.low_eq] at h
    obtain ⟨n, h1, h2⟩ := (hinv.tbl_iff _ hl k).mp h
    exact Or.inr ⟨n, _, h1, h2, hl, Or.inr rfl⟩
  · exact Or.inl ⟨h, hok.poolfree k h⟩

/-- the regions of two different running tasks are disjoint -/
theorem ms_reg_disj {ext : Nat → Nat} {pos : Nat → Nat} {base : RState} {s t : Running}
    (hinv : InvL ext base.toPre pos base.s) (hs : TaskOK base s) (ht : TaskOK base t)
    (hd : TaskDisj s t) {k : Nat} (hk : s.reg k = true) : t.reg k = false := by
  cases htk : t.reg k with
  | false => rfl
  | true =>
    exfalso
    rcases ms_reg_cases hinv hs hk with ⟨h1, _⟩ | ⟨n, p, h1, h2, h3, h4⟩
    · have := hd.2.2.2.2.1 k h1
      rw [htk] at this; cases this
    · rcases ms_reg_cases hinv ht htk with ⟨g1, _⟩ | ⟨n', p', g1, g2, g3, g4⟩
      · have := hd.2.2.2.2.2 k g1
        rw [hk] at this; cases this
      · rw [h1] at g1; cases g1
        have hpp : p = p' := hinv.lab_inj h3 g3 (h2.symm.trans g2)
        obtain ⟨d1, d2, d3, d4, _⟩ := hd
        omega

theorem ms_reg_disj' {ext : Nat → Nat} {pos : Nat → Nat} {base : RState} {s t : Running}
    (hinv : InvL ext base.toPre pos base.s) (hs : TaskOK base s) (ht : TaskOK base t)
    (hd : TaskDisj s t) {k : Nat} (hk : t.reg k = true) : s.reg k = false :=
  ms_reg_disj hinv ht hs (ms_TaskDisj_symm hd) hk

/-! ## `wRun` -/

theorem ms_wRun_cons_f (ext : Nat → Nat) (base : RState) {t : Running} (rest : List Running) {k : Nat}
    (h : t.reg k = false) : wRun ext base (t :: rest) k = wRun ext base rest k := by
  simp [wRun, h]

theorem ms_wRun_cons_t (ext : Nat → Nat) (base : RState) {t : Running} (rest : List Running) {k : Nat}
    (h : t.reg k = true) : wRun ext base (t :: rest) k =
      (soloLS base t).up.count k + (soloLS base t).lo.count k + t.loc.drops.count k + ext k := by
  simp [wRun, h]

theorem ms_wRun_out (ext : Nat → Nat) (base : RState) (run : List Running) (k : Nat)
    (h : ∀ t ∈ run, t.reg k = false) : wRun ext base run k = live01 base.s.h k + ext k := by
  induction run with
  | nil => rfl
  | cons t rest ih =>
    rw [ms_wRun_cons_f ext base rest (h t (List.mem_cons_self ..))]
    exact ih (fun s hs => h s (List.mem_cons_of_mem _ hs))

theorem ms_wRun_in (ext : Nat → Nat) (base : RState) (a b : List Running) (t : Running) (k : Nat)
    (ha : ∀ s ∈ a, s.reg k = false) (ht : t.reg k = true) :
    wRun ext base (a ++ t :: b) k =
      (soloLS base t).up.count k + (soloLS base t).lo.count k + t.loc.drops.count k + ext k := by
  induction a with
  | nil => exact ms_wRun_cons_t ext base b ht
  | cons s a ih =>
    rw [List.cons_append, ms_wRun_cons_f ext base _ (ha s (List.mem_cons_self ..))]
    exact ih (fun x hx => ha x (List.mem_cons_of_mem _ hx))

/-- a task contributes to `wRun` on its own region only -/
theorem ms_wRun_insert (ext : Nat → Nat) (base : RState) (a b : List Running) (t : Running) (k : Nat)
    (ht : t.reg k = false) : wRun ext base (a ++ t :: b) k = wRun ext base (a ++ b) k := by
  induction a with
  | nil => exact ms_wRun_cons_f ext base b ht
  | cons s a ih =>
    simp only [List.cons_append, wRun]
    rw [ih]

/-- `wRun` reads `reg`, `soloLS` and `loc.drops` only -/
theorem ms_wRun_same (ext : Nat → Nat) (base : RState) (a b : List Running) (t t' : Running) (k : Nat)
    (hr : t'.reg = t.reg) (hs : soloLS base t' = soloLS base t) (hd : t'.loc.drops = t.loc.drops) :
    wRun ext base (a ++ t' :: b) k = wRun ext base (a ++ t :: b) k := by
  induction a with
  | nil => simp only [List.nil_append, wRun, hr, hs, hd]
  | cons s a ih =>
    simp only [List.cons_append, wRun]
    rw [ih]

/-- releasing one entry of the taken view -/
theorem ms_wRun_drop (ext : Nat → Nat) (base : RState) (a b : List Running) (t t' : Running)
    (j : Nat) (rest : List Nat) (k : Nat)
    (ha : ∀ s ∈ a, s.reg j = false) (htj : t.reg j = true)
    (hr : t'.reg = t.reg) (hu : (soloLS base t').up = (soloLS base t).up)
    (hl : (soloLS base t').lo = (soloLS base t).lo)
    (hd : t.loc.drops = j :: rest) (hd' : t'.loc.drops = rest) :
    wRun ext base (a ++ t :: b) k = wRun ext base (a ++ t' :: b) k + pt (.inner j) k := by
  induction a with
  | nil =>
    simp only [List.nil_append]
    cases htk : t.reg k with
    | true =>
      rw [ms_wRun_cons_t ext base b htk, ms_wRun_cons_t ext base b (by rw [hr]; exact htk),
        hu, hl, hd, hd', count_cons_pt]
      omega
    | false =>
      rw [ms_wRun_cons_f ext base b htk, ms_wRun_cons_f ext base b (by rw [hr]; exact htk)]
      have : k ≠ j := fun h => by rw [h, htj] at htk; cases htk
      rw [pt_ne this]; rfl
  | cons s a ih =>
    have hsj := ha s (List.mem_cons_self ..)
    simp only [List.cons_append]
    cases hsk : s.reg k with
    | true =>
      rw [ms_wRun_cons_t ext base _ hsk, ms_wRun_cons_t ext base _ hsk]
      have : k ≠ j := fun h => by rw [h, hsj] at hsk; cases hsk
      rw [pt_ne this]; rfl
    | false =>
      rw [ms_wRun_cons_f ext base _ hsk, ms_wRun_cons_f ext base _ hsk]
      exact ih (fun x hx => ha x (List.mem_cons_of_mem _ hx))

/-! ## `applyEnded`, `applyEndedV` -/

theorem ms_applyEnded_append (a b : List Running) (tp : List Nat) :
    applyEnded (a ++ b) tp = applyEnded b (applyEnded a tp) := by
  simp [applyEnded, List.foldl_append]

theorem ms_applyEnded_cons_f {t : Running} (b : List Running) (tp : List Nat) (h : t.ended = false) :
    applyEnded (t :: b) tp = applyEnded b tp := by
  simp [applyEnded, h]

theorem ms_applyEnded_cons_t {t : Running} (b : List Running) (tp : List Nat) (h : t.ended = true) :
    applyEnded (t :: b) tp = applyEnded b ((tp.set t.loc.u t.loc.lp).set t.loc.l t.loc.up) := by
  simp [applyEnded, h]

theorem ms_applyEndedV_append (a b : List Running) (lv : List Nat) :
    applyEndedV (a ++ b) lv = applyEndedV b (applyEndedV a lv) := by
  simp [applyEndedV, List.foldl_append]

theorem ms_applyEndedV_cons_f {t : Running} (b : List Running) (lv : List Nat) (h : t.ended = false) :
    applyEndedV (t :: b) lv = applyEndedV b lv := by
  simp [applyEndedV, h]

theorem ms_applyEndedV_cons_t {t : Running} (b : List Running) (lv : List Nat) (h : t.ended = true) :
    applyEndedV (t :: b) lv = applyEndedV b (swapIdx lv t.loc.u t.loc.l) := by
  simp [applyEndedV, h]

theorem ms_set4_comm (X : List Nat) {u l u' l' : Nat} (x y p q : Nat)
    (h1 : u' ≠ u) (h2 : u' ≠ l) (h3 : l' ≠ u) (h4 : l' ≠ l) :
    (((X.set u x).set l y).set u' p).set l' q = (((X.set u' p).set l' q).set u x).set l y := by
  rw [List.set_comm y p (Ne.symm h2), List.set_comm x p (Ne.symm h1),
    List.set_comm y q (Ne.symm h4), List.set_comm x q (Ne.symm h3)]

theorem ms_swapIdx_getD_ne (X : List Nat) {u l p : Nat} (h1 : p ≠ u) (h2 : p ≠ l) :
    (swapIdx X u l).getD p default = X.getD p default := by
  unfold swapIdx
  simp only [List.getD_eq_getElem?_getD, List.getElem?_set]
  rw [if_neg (Ne.symm h2), if_neg (Ne.symm h1)]

theorem ms_swapIdx_comm (X : List Nat) {u l u' l' : Nat}
    (h1 : u' ≠ u) (h2 : u' ≠ l) (h3 : l' ≠ u) (h4 : l' ≠ l) :
    swapIdx (swapIdx X u l) u' l' = swapIdx (swapIdx X u' l') u l := by
  have e1 := ms_swapIdx_getD_ne X h1 h2
  have e2 := ms_swapIdx_getD_ne X h3 h4
  have e3 := ms_swapIdx_getD_ne X (Ne.symm h1) (Ne.symm h3)
  have e4 := ms_swapIdx_getD_ne X (Ne.symm h2) (Ne.symm h4)
  rw [swapIdx, e1, e2, swapIdx.eq_1 (swapIdx X u' l'), e3, e4, swapIdx, swapIdx]
  exact ms_set4_comm X _ _ _ _ h1 h2 h3 h4

theorem ms_applyEnded_comm (b : List Running) (u l x y : Nat)
    (hb : ∀ s ∈ b, s.loc.u ≠ u ∧ s.loc.u ≠ l ∧ s.loc.l ≠ u ∧ s.loc.l ≠ l) (X : List Nat) :
    applyEnded b ((X.set u x).set l y) = ((applyEnded b X).set u x).set l y := by
  induction b generalizing X with
  | nil => rfl
  | cons s b ih =>
    obtain ⟨h1, h2, h3, h4⟩ := hb s (List.mem_cons_self ..)
    have ih' := fun X => ih (fun s' hs' => hb s' (List.mem_cons_of_mem _ hs')) X
    cases hs : s.ended with
    | false => rw [ms_applyEnded_cons_f _ _ hs, ms_applyEnded_cons_f _ _ hs]; exact ih' X
    | true =>
      rw [ms_applyEnded_cons_t _ _ hs, ms_applyEnded_cons_t _ _ hs, ← ih',
        ms_set4_comm X _ _ _ _ h1 h2 h3 h4]

theorem ms_applyEndedV_comm (b : List Running) (u l : Nat)
    (hb : ∀ s ∈ b, s.loc.u ≠ u ∧ s.loc.u ≠ l ∧ s.loc.l ≠ u ∧ s.loc.l ≠ l) (X : List Nat) :
    applyEndedV b (swapIdx X u l) = swapIdx (applyEndedV b X) u l := by
  induction b generalizing X with
  | nil => rfl
  | cons s b ih =>
    obtain ⟨h1, h2, h3, h4⟩ := hb s (List.mem_cons_self ..)
    have ih' := fun X => ih (fun s' hs' => hb s' (List.mem_cons_of_mem _ hs')) X
    cases hs : s.ended with
    | false => rw [ms_applyEndedV_cons_f _ _ hs, ms_applyEndedV_cons_f _ _ hs]; exact ih' X
    | true =>
      rw [ms_applyEndedV_cons_t _ _ hs, ms_applyEndedV_cons_t _ _ hs, ← ih',
        ms_swapIdx_comm X h1 h2 h3 h4]

theorem ms_applyEnded_length (run : List Running) (tp : List Nat) :
    (applyEnded run tp).length = tp.length := by
  induction run generalizing tp with
  | nil => rfl
  | cons s b ih =>
    cases hs : s.ended with
    | false => rw [ms_applyEnded_cons_f _ _ hs]; exact ih tp
    | true => rw [ms_applyEnded_cons_t _ _ hs, ih]; simp

theorem ms_applyEnded_getD (run : List Running) (p d : Nat)
    (hb : ∀ s ∈ run, p ≠ s.loc.u ∧ p ≠ s.loc.l) (tp : List Nat) :
    (applyEnded run tp).getD p d = tp.getD p d := by
  induction run generalizing tp with
  | nil => rfl
  | cons s b ih =>
    obtain ⟨h1, h2⟩ := hb s (List.mem_cons_self ..)
    have ih' := fun X => ih (fun s' hs' => hb s' (List.mem_cons_of_mem _ hs')) X
    cases hs : s.ended with
    | false => rw [ms_applyEnded_cons_f _ _ hs]; exact ih' tp
    | true =>
      rw [ms_applyEnded_cons_t _ _ hs, ih']
      simp only [List.getD_eq_getElem?_getD, List.getElem?_set]
      rw [if_neg (Ne.symm h2), if_neg (Ne.symm h1)]

/-! ## the empty overlay -/

/-- `base` itself is described by the empty overlay -/
theorem overlay_nil {ext : Nat → Nat} {pos : Nat → Nat} {base : RState}
    (hinv : InvL ext base.toPre pos base.s) : Overlay ext base base [] where
  sh_own := fun t ht => by cases ht
  sh_frame := fun _ _ => rfl
  tbl_own := fun t ht => by cases ht
  tbl_frame := fun _ _ => rfl
  tbl_len := rfl
  toPre := rfl
  l2v := rfl
  rc := hinv.rc

/-! ## `tEnd` -/

/-- `level_swap` returns, the closure updates `to_pre` -/
theorem overlay_end {ext : Nat → Nat} {pos : Nat → Nat} {base Y : RState} {a b : List Running}
    {t : Running}
    (hrun : RunOK ext pos base (a ++ t :: b)) (hov : Overlay ext base Y (a ++ t :: b))
    (htodo : t.loc.todo = []) (hdrops : t.loc.drops = []) (hne : t.ended = false) :
    RunOK ext pos base (a ++ { t with ended := true } :: b) ∧
    Overlay ext base (tEnd Y t.loc) (a ++ { t with ended := true } :: b) := by
  obtain ⟨hinv, hT, hO, hP, hD⟩ := ms_runOK_mid.mp hrun
  have hT' : TaskOK base { t with ended := true } :=
    { ul := hT.ul, llen := hT.llen, gap := hT.gap, old_eq := hT.old_eq, low_eq := hT.low_eq,
      up_eq := hT.up_eq, lp_eq := hT.lp_eq, alok := hT.alok, alloc := hT.alloc, ordok := hT.ordok,
      order := hT.order, drops := hT.drops, phase := hT.phase, fin := fun _ => ⟨htodo, hdrops⟩,
      poolfree := hT.poolfree }
  refine ⟨ms_runOK_mid.mpr ⟨hinv, hT', hO, hP, fun s hs => hD s hs⟩, ?_⟩
  have hb : ∀ s ∈ b, s.loc.u ≠ t.loc.u ∧ s.loc.u ≠ t.loc.l ∧ s.loc.l ≠ t.loc.u ∧ s.loc.l ≠ t.loc.l :=
    fun s hs => by
      obtain ⟨d1, d2, d3, d4, _⟩ := hD s (List.mem_append_right _ hs)
      exact ⟨d1, d2, d3, d4⟩
  refine
    { sh_own := ?_, sh_frame := ?_, tbl_own := ?_, tbl_frame := ?_, tbl_len := hov.tbl_len,
      toPre := ?_, l2v := ?_, rc := ?_ }
  · exact ms_forall_mid.mpr ⟨(ms_forall_mid.mp hov.sh_own).1, (ms_forall_mid.mp hov.sh_own).2⟩
  · intro k hk
    exact hov.sh_frame k (ms_forall_mid.mpr ⟨(ms_forall_mid.mp hk).1, (ms_forall_mid.mp hk).2⟩)
  · exact ms_forall_mid.mpr ⟨(ms_forall_mid.mp hov.tbl_own).1, (ms_forall_mid.mp hov.tbl_own).2⟩
  · intro p hp
    exact hov.tbl_frame p (ms_forall_mid.mpr ⟨(ms_forall_mid.mp hp).1, (ms_forall_mid.mp hp).2⟩)
  · show (Y.toPre.set t.loc.u t.loc.lp).set t.loc.l t.loc.up = _
    rw [hov.toPre, ms_applyEnded_append, ms_applyEnded_append, ms_applyEnded_cons_f _ _ hne,
      ms_applyEnded_cons_t (t := { t with ended := true }) _ _ rfl]
    exact (ms_applyEnded_comm b _ _ _ _ hb _).symm
  · show swapIdx Y.l2v t.loc.u t.loc.l = _
    rw [hov.l2v, ms_applyEndedV_append, ms_applyEndedV_append, ms_applyEndedV_cons_f _ _ hne,
      ms_applyEndedV_cons_t (t := { t with ended := true }) _ _ rfl]
    exact (ms_applyEndedV_comm b _ _ hb _).symm
  · refine hov.rc.congr (fun k => ?_)
    exact ms_wRun_same ext base a b t { t with ended := true } k rfl rfl rfl

/-! ## `tDrop` -/

theorem ms_mem_mid {α : Type} {a b : List α} {t s : α} (h : s ∈ a ++ b) : s ∈ a ++ t :: b := by
  rcases List.mem_append.mp h with h | h
  · exact List.mem_append_left _ h
  · exact List.mem_append_right _ (List.mem_cons_of_mem _ h)

theorem ms_mem_mid_self {α : Type} {a b : List α} {t : α} : t ∈ a ++ t :: b :=
  List.mem_append_right _ (List.mem_cons_self ..)

/-- one entry of `drop(old_upper)` -/
theorem overlay_drop {ext : Nat → Nat} {pos : Nat → Nat} {base Y : RState} {a b : List Running}
    {t : Running} {j : Nat} {rest : List Nat}
    (hrun : RunOK ext pos base (a ++ t :: b)) (hov : Overlay ext base Y (a ++ t :: b))
    (htodo : t.loc.todo = []) (hdrops : t.loc.drops = j :: rest) :
    RunOK ext pos base (a ++ { t with loc := { t.loc with drops := rest }, doneD := t.doneD ++ [j] } :: b) ∧
    Overlay ext base (tDrop Y j)
      (a ++ { t with loc := { t.loc with drops := rest }, doneD := t.doneD ++ [j] } :: b) := by
  obtain ⟨hinv, hT, hO, hP, hD⟩ := ms_runOK_mid.mp hrun
  have F := soloFacts hinv hT
  have hsolo := soloLS_drop base t j rest
  have hjd : j ∈ t.loc.drops := by rw [hdrops]; exact List.mem_cons_self ..
  have hjold : j ∈ t.loc.old := by rw [← hT.drops]; exact List.mem_append_right _ hjd
  have hjreg : t.reg j = true := F.old_reg j hjold
  have hother : ∀ k, t.reg k = true → ∀ s ∈ a ++ b, s.reg k = false :=
    fun k hk s hs => ms_reg_disj' hinv (hO s hs) hT (hD s hs) hk
  have hlu : t.loc.u < base.toPre.length := Nat.lt_trans hT.ul hT.llen
  have hT' : TaskOK base { t with loc := { t.loc with drops := rest }, doneD := t.doneD ++ [j] } :=
    { ul := hT.ul, llen := hT.llen, gap := hT.gap, old_eq := hT.old_eq, low_eq := hT.low_eq,
      up_eq := hT.up_eq, lp_eq := hT.lp_eq, alok := hT.alok, alloc := hT.alloc, ordok := hT.ordok,
      order := hT.order,
      drops := by
        have := hT.drops
        rw [hdrops] at this
        show (t.doneD ++ [j]) ++ rest = t.loc.old
        rw [List.append_assoc]; exact this
      phase := fun h => absurd htodo h,
      fin := fun h => by have := (hT.fin h).2; rw [hdrops] at this; cases this
      poolfree := hT.poolfree }
  refine ⟨ms_runOK_mid.mpr ⟨hinv, hT', hO, hP, fun s hs => hD s hs⟩, ?_⟩
  -- the two heaps agree on the region of `t`
  have hag : Agree t.reg t.loc.lp Y.s.h (soloLS base t).h := by
    refine ⟨hov.sh_own t ms_mem_mid_self, ?_, ?_⟩
    · intro k n hk hn
      by_cases hex : ∃ s ∈ a ++ b, s.reg k = true
      · obtain ⟨s, hs, hsk⟩ := hex
        have e := hov.sh_own s (ms_mem_mid hs) k hsk
        have Fs := soloFacts hinv (hO s hs)
        have hOs := hO s hs
        have hsl : s.loc.l < base.toPre.length := hOs.llen
        have hsu : s.loc.u < base.toPre.length := Nat.lt_trans hOs.ul hsl
        obtain ⟨_, d2, _, d4, _⟩ := hD s hs
        intro hlev
        rcases Fs.labels k n hsk (by rw [← e]; exact hn) with h | h
        · rw [hlev, hT.lp_eq, hOs.up_eq] at h
          exact d2 (hinv.lab_inj hT.llen hsu h).symm
        · rw [hlev, hT.lp_eq, hOs.lp_eq] at h
          exact d4 (hinv.lab_inj hT.llen hsl h).symm
      · have hall : ∀ s ∈ a ++ b, s.reg k = false := fun s hs => by
          cases h : s.reg k with
          | false => rfl
          | true => exact absurd ⟨s, hs, h⟩ hex
        have e := hov.sh_frame k (ms_forall_mid.mpr ⟨hk, hall⟩)
        exact (F.foreign_lbl k n hk (by rw [← e]; exact hn)).2
    · intro k n hk hn
      rw [F.frame k hk] at hn
      exact (F.foreign_lbl k n hk hn).2
  have hoth : othG t.loc.up t.loc.lp base.s.h.sh j = 0 := by
    have hj' := hjold
    rw [hT.old_eq] at hj'
    obtain ⟨n, h1, h2⟩ := (hinv.tbl_iff _ hlu j).mp hj'
    simp [othG, h1, h2, hT.up_eq]
  have hw : wRun ext base (a ++ t :: b) j =
      wOf (fun k => t.loc.drops.count k + othG t.loc.up t.loc.lp base.s.h.sh k + ext k)
        (soloLS base t).up (soloLS base t).lo j := by
    rw [ms_wRun_in ext base a b t j
      (fun s hs => hother j hjreg s (List.mem_append_left _ hs)) hjreg]
    simp only [wOf, hoth]
    omega
  have h2 : 2 ≤ wOf (fun k => t.loc.drops.count k + othG t.loc.up t.loc.lp base.s.h.sh k + ext k)
        (soloLS base t).up (soloLS base t).lo j := by
    have h1 := F.old_cnt htodo j hjold
    have h3 : 1 ≤ t.loc.drops.count j := by rw [hdrops]; simp
    simp only [wOf]
    omega
  obtain ⟨_, _, _, hshH, hshS⟩ := drop_core hag hjreg hov.rc F.linv.rc hw h2
  have hshY : (tDrop Y j).s.h.sh = Y.s.h.sh := hshH
  refine
    { sh_own := ?_, sh_frame := ?_, tbl_own := ?_, tbl_frame := ?_, tbl_len := hov.tbl_len,
      toPre := ?_, l2v := ?_, rc := ?_ }
  · rw [hshY]
    refine ms_forall_mid.mpr ⟨?_, (ms_forall_mid.mp hov.sh_own).2⟩
    intro k hk
    rw [hsolo]
    show _ = (dropTableEdge (soloLS base t).h j).sh k
    rw [hshS]
    exact hov.sh_own t ms_mem_mid_self k hk
  · rw [hshY]
    intro k hk
    exact hov.sh_frame k (ms_forall_mid.mpr ⟨(ms_forall_mid.mp hk).1, (ms_forall_mid.mp hk).2⟩)
  · refine ms_forall_mid.mpr ⟨?_, (ms_forall_mid.mp hov.tbl_own).2⟩
    rw [hsolo]
    exact hov.tbl_own t ms_mem_mid_self
  · intro p hp
    exact hov.tbl_frame p (ms_forall_mid.mpr ⟨(ms_forall_mid.mp hp).1, (ms_forall_mid.mp hp).2⟩)
  · show Y.toPre = _
    rw [hov.toPre]
    simp only [ms_applyEnded_append]
    rfl
  · show Y.l2v = _
    rw [hov.l2v]
    simp only [ms_applyEndedV_append]
    rfl
  · refine dropTableEdge_RCx (hov.rc.congr (fun k => ?_))
    refine (ms_wRun_drop ext base a b t
      { t with loc := { t.loc with drops := rest }, doneD := t.doneD ++ [j] } j rest k
      (fun s hs => hother j hjreg s (List.mem_append_left _ hs)) hjreg rfl ?_ ?_ hdrops rfl).symm
    · rw [hsolo]
    · rw [hsolo]

/-! ## `tBegin` -/

theorem ms_getD_irrel {l : List Nat} {p : Nat} (hp : p < l.length) (d d' : Nat) :
    l.getD p d = l.getD p d' := by
  simp [List.getD_eq_getElem?_getD, List.getElem?_eq_getElem hp]

/-- a worker starts `level_swap(u, l, to_pre[u], to_pre[l])` on two level views no running task works on
(the new task is inserted at an arbitrary position of the list of running tasks) -/
theorem overlay_begin {ext : Nat → Nat} {pos : Nat → Nat} {base Y : RState} {a b : List Running}
    (hrun : RunOK ext pos base (a ++ b)) (hov : Overlay ext base Y (a ++ b))
    (idx u l : Nat) (al : Heap → Nat) (ord : List Nat → List Nat) (pool : Nat → Bool)
    (hul : u < l) (hl : l < base.toPre.length) (hgap : ∀ p, u < p → p < l → base.s.table p = [])
    (hfree : ∀ t ∈ a ++ b, u ≠ t.loc.u ∧ u ≠ t.loc.l ∧ l ≠ t.loc.u ∧ l ≠ t.loc.l)
    (hal : AllocOK al) (hord : OrderOK ord)
    (hloc : AllocLocal (Running.reg ⟨idx, (tBegin Y u l al (ord (Y.s.table u))).2, ord, pool, [], [], false⟩) al)
    (hpool : ∀ k, pool k = true → Y.s.h.sh k = none)
    (hpd : ∀ s ∈ a ++ b, ∀ k, pool k = true → s.reg k = false) :
    RunOK ext pos base (a ++ ⟨idx, (tBegin Y u l al (ord (Y.s.table u))).2, ord, pool, [], [], false⟩ :: b) ∧
    Overlay ext base (tBegin Y u l al (ord (Y.s.table u))).1
      (a ++ ⟨idx, (tBegin Y u l al (ord (Y.s.table u))).2, ord, pool, [], [], false⟩ :: b) := by
  have hinv := hrun.inv
  have hO := hrun.ok
  have hP := hrun.disj
  have hlu : u < base.toPre.length := Nat.lt_trans hul hl
  have hne : u ≠ l := Nat.ne_of_lt hul
  have htu : Y.s.table u = base.s.table u :=
    hov.tbl_frame u (fun s hs => ⟨(hfree s hs).1, (hfree s hs).2.1⟩)
  have htl : Y.s.table l = base.s.table l :=
    hov.tbl_frame l (fun s hs => ⟨(hfree s hs).2.2.1, (hfree s hs).2.2.2⟩)
  have hlenP : Y.toPre.length = base.toPre.length := by
    rw [hov.toPre]; exact ms_applyEnded_length _ _
  have hpu : Y.toPre.getD u u = base.toPre.getD u 0 := by
    rw [ms_getD_irrel (by omega) u 0, hov.toPre]
    exact ms_applyEnded_getD _ u 0 (fun s hs => ⟨(hfree s hs).1, (hfree s hs).2.1⟩) _
  have hpl : Y.toPre.getD l l = base.toPre.getD l 0 := by
    rw [ms_getD_irrel (by omega) l 0, hov.toPre]
    exact ms_applyEnded_getD _ l 0 (fun s hs => ⟨(hfree s hs).2.2.1, (hfree s hs).2.2.2⟩) _
  have hpoolbase : ∀ k, pool k = true → base.s.h.sh k = none := fun k hk => by
    rw [← hov.sh_frame k (fun s hs => hpd s hs k hk)]; exact hpool k hk
  suffices key : ∀ t : Running,
      t = ⟨idx, (tBegin Y u l al (ord (Y.s.table u))).2, ord, pool, [], [], false⟩ →
      RunOK ext pos base (a ++ t :: b) ∧
      Overlay ext base (tBegin Y u l al (ord (Y.s.table u))).1 (a ++ t :: b) from key _ rfl
  intro t ht
  have e_u : t.loc.u = u := by rw [ht]; rfl
  have e_l : t.loc.l = l := by rw [ht]; rfl
  have e_up : t.loc.up = base.toPre.getD u 0 := by rw [ht]; exact hpu
  have e_lp : t.loc.lp = base.toPre.getD l 0 := by rw [ht]; exact hpl
  have e_old : t.loc.old = base.s.table u := by rw [ht]; exact htu
  have e_low : t.loc.low0 = base.s.table l := by rw [ht]; exact htl
  have e_drops : t.loc.drops = base.s.table u := by rw [ht]; exact htu
  have e_doneD : t.doneD = [] := by rw [ht]
  have e_ended : t.ended = false := by rw [ht]
  have e_pool : t.pool = pool := by rw [ht]
  have hT : TaskOK base t :=
    { ul := by rw [e_u, e_l]; exact hul
      llen := by rw [e_l]; exact hl
      gap := by rw [e_u, e_l]; exact hgap
      old_eq := by rw [e_old, e_u]
      low_eq := by rw [e_low, e_l]
      up_eq := by rw [e_up, e_u]
      lp_eq := by rw [e_lp, e_l]
      alok := by rw [ht]; exact hal
      alloc := by rw [ht]; exact hloc
      ordok := by rw [ht]; exact hord
      order := by rw [ht]; rfl
      drops := by rw [ht]; rfl
      phase := fun _ => e_doneD
      fin := fun h => by rw [e_ended] at h; cases h
      poolfree := by rw [e_pool]; exact hpoolbase }
  have hDt : ∀ s ∈ a ++ b, TaskDisj s t := by
    intro s hs
    obtain ⟨f1, f2, f3, f4⟩ := hfree s hs
    refine ⟨?_, ?_, ?_, ?_, ?_, ?_⟩
    · rw [e_u]; exact Ne.symm f1
    · rw [e_l]; exact Ne.symm f3
    · rw [e_u]; exact Ne.symm f2
    · rw [e_l]; exact Ne.symm f4
    · intro k hk
      have hnone := (hO s hs).poolfree k hk
      cases htk : t.reg k with
      | false => rfl
      | true =>
        exfalso
        rcases (ms_reg_iff t k).mp htk with h | h | h
        · rw [e_old] at h
          obtain ⟨n, h1, _⟩ := (hinv.tbl_iff _ hlu k).mp h
          rw [hnone] at h1; cases h1
        · rw [e_low] at h
          obtain ⟨n, h1, _⟩ := (hinv.tbl_iff _ hl k).mp h
          rw [hnone] at h1; cases h1
        · rw [e_pool] at h
          have h1 := hpd s hs k h
          have h2 := (ms_reg_iff s k).mpr (Or.inr (Or.inr hk))
          rw [h1] at h2; cases h2
    · intro k hk
      rw [e_pool] at hk
      exact hpd s hs k hk
  refine ⟨ms_runOK_mid.mpr ⟨hinv, hT, hO, hP, hDt⟩, ?_⟩
  have hother : ∀ k, t.reg k = true → ∀ s ∈ a ++ b, s.reg k = false :=
    fun k hk s hs => ms_reg_disj' hinv (hO s hs) hT (hDt s hs) hk
  have hsolo : soloLS base t = ⟨base.s.h, base.s.table l, []⟩ := by rw [ht]; rfl
  have hlenY : Y.s.tables.length = base.toPre.length := by rw [hov.tbl_len, hinv.len]
  have htab : ∀ p, (tBegin Y u l al (ord (Y.s.table u))).1.s.table p =
      if p = l then [] else if p = u then Y.s.table l else Y.s.table p :=
    fun p => table_putLS Y hne (by omega) (by omega) ⟨Y.s.h, Y.s.table l, []⟩ p
  refine
    { sh_own := ?_, sh_frame := ?_, tbl_own := ?_, tbl_frame := ?_, tbl_len := ?_,
      toPre := ?_, l2v := ?_, rc := ?_ }
  · refine ms_forall_mid.mpr ⟨?_, hov.sh_own⟩
    intro k hk
    show Y.s.h.sh k = _
    rw [hsolo]
    exact hov.sh_frame k (hother k hk)
  · intro k hk
    exact hov.sh_frame k (ms_forall_mid.mp hk).2
  · refine ms_forall_mid.mpr ⟨?_, ?_⟩
    · rw [e_u, e_l, hsolo, htab, htab, if_neg hne, if_pos rfl, if_pos rfl, htl]
      exact ⟨rfl, rfl⟩
    · intro s hs
      obtain ⟨f1, f2, f3, f4⟩ := hfree s hs
      rw [htab, htab, if_neg (Ne.symm f3), if_neg (Ne.symm f1), if_neg (Ne.symm f4),
        if_neg (Ne.symm f2)]
      exact hov.tbl_own s hs
  · intro p hp
    obtain ⟨⟨h1, h2⟩, h3⟩ := ms_forall_mid.mp hp
    rw [e_u] at h1
    rw [e_l] at h2
    rw [htab, if_neg h2, if_neg h1]
    exact hov.tbl_frame p h3
  · exact (putLS_len Y u l _).trans hov.tbl_len
  · show Y.toPre = _
    rw [hov.toPre, ms_applyEnded_append, ms_applyEnded_append, ms_applyEnded_cons_f _ _ e_ended]
  · show Y.l2v = _
    rw [hov.l2v, ms_applyEndedV_append, ms_applyEndedV_append, ms_applyEndedV_cons_f _ _ e_ended]
  · show RCx _ Y.s.h
    refine hov.rc.congr (fun k => ?_)
    cases htk : t.reg k with
    | false => exact ms_wRun_insert ext base a b t k htk
    | true =>
      rw [ms_wRun_in ext base a b t k (fun s hs => hother k htk s (List.mem_append_left _ hs)) htk,
        ms_wRun_out ext base (a ++ b) k (hother k htk), hsolo, e_drops]
      show (base.s.table l).count k + ([] : List Nat).count k + (base.s.table u).count k + ext k = _
      rw [hinv.count_table hl, hinv.count_table hlu]
      have hlab : base.toPre.getD u 0 ≠ base.toPre.getD l 0 := fun h => hne (hinv.lab_inj hlu hl h)
      simp only [List.getD_eq_getElem?_getD] at hlab
      rcases ms_reg_cases hinv hT htk with ⟨_, h1⟩ | ⟨n, p, h1, h2, _, h4⟩
      · simp [live01, h1]
      · rw [e_u, e_l] at h4
        rcases h4 with h4 | h4
        · rw [h4] at h2
          simp [live01, h1, h2, hlab]
        · rw [h4] at h2
          simp [live01, h1, h2, Ne.symm hlab]

end OxiddModel.Reorder.SwapStore
