import OxiddModel.Reorder.ConcurrentStoreSolo
import OxiddModel.Reorder.ConcurrentStoreCore

/-!
# One loop iteration of a running task preserves the overlay description (`overlay_node`)
-/
namespace OxiddModel.Reorder.SwapStore
open OxiddModel.Bdd OxiddModel.Bdd.Refine OxiddModel.Reorder

/-! ## regions of different tasks are disjoint -/

theorem nd_TaskDisj_symm {s t : Running} (h : TaskDisj s t) : TaskDisj t s := by
  obtain ⟨h1, h2, h3, h4, h5, h6⟩ := h
  exact ⟨fun e => h1 e.symm, fun e => h3 e.symm, fun e => h2 e.symm, fun e => h4 e.symm, h6, h5⟩

/-- a slot of one of the two level views of a task is live in `base` and carries the label of
that view -/
theorem nd_reg_cases {base : RState} {t : Running} (ht : TaskOK base t) {k : Nat}
    (hk : t.reg k = true) :
    k ∈ base.s.table t.loc.u ∨ k ∈ base.s.table t.loc.l ∨ t.pool k = true := by
  unfold Running.reg at hk
  simp only [Bool.or_eq_true, List.contains_iff_mem] at hk
  rw [ht.old_eq, ht.low_eq] at hk
  rcases hk with (h | h) | h
  · exact Or.inl h
  · exact Or.inr (Or.inl h)
  · exact Or.inr (Or.inr h)

theorem nd_reg_of_old {base : RState} {t : Running} (ht : TaskOK base t) {k : Nat}
    (hk : k ∈ base.s.table t.loc.u) : t.reg k = true := by
  unfold Running.reg
  simp only [Bool.or_eq_true, List.contains_iff_mem]
  rw [ht.old_eq]
  exact Or.inl (Or.inl hk)

theorem nd_reg_of_low {base : RState} {t : Running} (ht : TaskOK base t) {k : Nat}
    (hk : k ∈ base.s.table t.loc.l) : t.reg k = true := by
  unfold Running.reg
  simp only [Bool.or_eq_true, List.contains_iff_mem]
  rw [ht.low_eq]
  exact Or.inl (Or.inr hk)

theorem nd_tbl_pos {ext : Nat → Nat} {pos : Nat → Nat} {base : RState}
    (hinv : InvL ext base.toPre pos base.s) {p q k : Nat} (hp : p < base.toPre.length)
    (hq : q < base.toPre.length) (hkp : k ∈ base.s.table p) (hkq : k ∈ base.s.table q) : p = q := by
  obtain ⟨n, hn, hl⟩ := (hinv.tbl_iff p hp k).mp hkp
  obtain ⟨m, hm, hl'⟩ := (hinv.tbl_iff q hq k).mp hkq
  rw [hn] at hm
  cases hm
  exact hinv.lab_inj hp hq (hl.symm.trans hl')

theorem nd_tbl_live {ext : Nat → Nat} {pos : Nat → Nat} {base : RState}
    (hinv : InvL ext base.toPre pos base.s) {p k : Nat} (hp : p < base.toPre.length)
    (hkp : k ∈ base.s.table p) : base.s.h.sh k ≠ none := by
  obtain ⟨n, hn, _⟩ := (hinv.tbl_iff p hp k).mp hkp
  rw [hn]
  exact fun h => by cases h

/-- **the regions of two different running tasks are disjoint** -/
theorem nd_reg_disj {ext : Nat → Nat} {pos : Nat → Nat} {base : RState}
    (hinv : InvL ext base.toPre pos base.s) {s t : Running} (hs : TaskOK base s)
    (ht : TaskOK base t) (hd : TaskDisj s t) (k : Nat) (hk : s.reg k = true) : t.reg k = false := by
  obtain ⟨h1, h2, h3, h4, h5, h6⟩ := hd
  have hsu : s.loc.u < base.toPre.length := by have := hs.ul; have := hs.llen; omega
  have htu : t.loc.u < base.toPre.length := by have := ht.ul; have := ht.llen; omega
  cases htk : t.reg k with
  | false => rfl
  | true =>
    exfalso
    rcases nd_reg_cases hs hk with h | h | h
    · rcases nd_reg_cases ht htk with g | g | g
      · exact h1 (nd_tbl_pos hinv hsu htu h g)
      · exact h2 (nd_tbl_pos hinv hsu ht.llen h g)
      · exact nd_tbl_live hinv hsu h (ht.poolfree k g)
    · rcases nd_reg_cases ht htk with g | g | g
      · exact h3 (nd_tbl_pos hinv hs.llen htu h g)
      · exact h4 (nd_tbl_pos hinv hs.llen ht.llen h g)
      · exact nd_tbl_live hinv hs.llen h (ht.poolfree k g)
    · have := h5 k h
      rw [htk] at this
      cases this

/-! ## the members of a run `a ++ t :: b` -/

theorem nd_mem_run {a b : List Running} {t s : Running} :
    s ∈ a ++ t :: b ↔ s = t ∨ s ∈ a ++ b := by
  simp only [List.mem_append, List.mem_cons]
  constructor
  · rintro (h | h | h)
    · exact Or.inr (Or.inl h)
    · exact Or.inl h
    · exact Or.inr (Or.inr h)
  · rintro (h | h | h)
    · exact Or.inr (Or.inl h)
    · exact Or.inl h
    · exact Or.inr (Or.inr h)

theorem nd_pairwise_others {R : Running → Running → Prop} (hsym : ∀ s t, R s t → R t s)
    {a b : List Running} {t : Running} (h : (a ++ t :: b).Pairwise R) :
    ∀ s ∈ a ++ b, R s t := by
  rw [List.pairwise_append, List.pairwise_cons] at h
  obtain ⟨_, ⟨htb, _⟩, hab⟩ := h
  intro s hs
  rcases List.mem_append.mp hs with hs | hs
  · exact hab s hs t (by simp)
  · exact hsym _ _ (htb s hs)

theorem nd_pairwise_replace {R : Running → Running → Prop} {a b : List Running} {t t' : Running}
    (h : (a ++ t :: b).Pairwise R) (h1 : ∀ s, R s t → R s t') (h2 : ∀ s, R t s → R t' s) :
    (a ++ t' :: b).Pairwise R := by
  rw [List.pairwise_append, List.pairwise_cons] at h ⊢
  obtain ⟨ha, ⟨htb, hb⟩, hab⟩ := h
  refine ⟨ha, ⟨fun s hs => h2 s (htb s hs), hb⟩, ?_⟩
  intro x hx y hy
  rcases List.mem_cons.mp hy with hy | hy
  · subst hy
    exact h1 x (hab x hx t (by simp))
  · exact hab x hx y (List.mem_cons_of_mem _ hy)

/-- the other tasks of a run: well formed and disjoint from `t` -/
theorem nd_others {ext : Nat → Nat} {pos : Nat → Nat} {base : RState} {a b : List Running}
    {t : Running} (hrun : RunOK ext pos base (a ++ t :: b)) :
    ∀ s ∈ a ++ b, TaskOK base s ∧ TaskDisj s t := by
  intro s hs
  exact ⟨hrun.ok s (nd_mem_run.mpr (Or.inr hs)),
    nd_pairwise_others (fun _ _ => nd_TaskDisj_symm) hrun.disj s hs⟩

theorem nd_others_reg {ext : Nat → Nat} {pos : Nat → Nat} {base : RState} {a b : List Running}
    {t : Running} (hrun : RunOK ext pos base (a ++ t :: b)) {s : Running} (hs : s ∈ a ++ b) {k : Nat}
    (hk : s.reg k = true) : t.reg k = false := by
  obtain ⟨h1, h2⟩ := nd_others hrun s hs
  exact nd_reg_disj hrun.inv h1 (hrun.ok t (by simp)) h2 k hk

theorem nd_others_reg' {ext : Nat → Nat} {pos : Nat → Nat} {base : RState} {a b : List Running}
    {t : Running} (hrun : RunOK ext pos base (a ++ t :: b)) {s : Running} (hs : s ∈ a ++ b) {k : Nat}
    (hk : t.reg k = true) : s.reg k = false := by
  obtain ⟨h1, h2⟩ := nd_others hrun s hs
  exact nd_reg_disj hrun.inv (hrun.ok t (by simp)) h1 (nd_TaskDisj_symm h2) k hk

/-! ## `wRun` at a slot -/

theorem nd_wRun_at (ext : Nat → Nat) (base : RState) {a : List Running} (t : Running) (b : List Running)
    {k : Nat} (ha : ∀ s ∈ a, s.reg k = false) (hk : t.reg k = true) :
    wRun ext base (a ++ t :: b) k =
      (soloLS base t).up.count k + (soloLS base t).lo.count k + t.loc.drops.count k + ext k := by
  induction a with
  | nil => simp only [List.nil_append, wRun, hk, if_true]
  | cons s a ih =>
    simp only [List.cons_append, wRun, ha s (by simp), Bool.false_eq_true, if_false]
    exact ih (fun s' hs' => ha s' (List.mem_cons_of_mem _ hs'))

theorem nd_wRun_skip (ext : Nat → Nat) (base : RState) (a : List Running) (t : Running) (b : List Running)
    {k : Nat} (hk : t.reg k = false) :
    wRun ext base (a ++ t :: b) k = wRun ext base (a ++ b) k := by
  induction a with
  | nil => simp only [List.nil_append, wRun, hk, Bool.false_eq_true, if_false]
  | cons s a ih =>
    simp only [List.cons_append, wRun]
    rw [ih]

theorem nd_wRun_other (ext : Nat → Nat) (base : RState) (a : List Running) (t t' : Running)
    (b : List Running) {k : Nat} (hk : t.reg k = false) (hk' : t'.reg k = false) :
    wRun ext base (a ++ t :: b) k = wRun ext base (a ++ t' :: b) k := by
  rw [nd_wRun_skip ext base a t b hk, nd_wRun_skip ext base a t' b hk']

/-! ## shapes of the shared heap outside the region of `t` -/

section
variable {ext : Nat → Nat} {pos : Nat → Nat} {base Y : RState} {a b : List Running} {t : Running}

theorem nd_Y_other (hov : Overlay ext base Y (a ++ t :: b)) {s : Running} (hs : s ∈ a ++ b) {k : Nat}
    (hk : s.reg k = true) : Y.s.h.sh k = (soloLS base s).h.sh k :=
  hov.sh_own s (nd_mem_run.mpr (Or.inr hs)) k hk

theorem nd_Y_free (hov : Overlay ext base Y (a ++ t :: b)) {k : Nat} (ht : t.reg k = false)
    (hno : ¬ ∃ s, s ∈ a ++ b ∧ s.reg k = true) : Y.s.h.sh k = base.s.h.sh k := by
  apply hov.sh_frame
  intro s hs
  rcases nd_mem_run.mp hs with rfl | hs
  · exact ht
  · cases h : s.reg k with
    | false => rfl
    | true => exact absurd ⟨s, hs, h⟩ hno

/-- the labels of another task are not the lower label of `t` -/
theorem nd_lbl_ne (hrun : RunOK ext pos base (a ++ t :: b)) {s : Running} (hs : s ∈ a ++ b) :
    s.loc.up ≠ t.loc.lp ∧ s.loc.lp ≠ t.loc.lp := by
  obtain ⟨hsok, h1, h2, h3, h4, _, _⟩ := nd_others hrun s hs
  have htok := hrun.ok t (by simp)
  have hsu : s.loc.u < base.toPre.length := by have := hsok.ul; have := hsok.llen; omega
  rw [hsok.up_eq, hsok.lp_eq, htok.lp_eq]
  exact ⟨fun e => h2 (hrun.inv.lab_inj hsu htok.llen e),
    fun e => h4 (hrun.inv.lab_inj hsok.llen htok.llen e)⟩

theorem nd_agree (hrun : RunOK ext pos base (a ++ t :: b)) (hov : Overlay ext base Y (a ++ t :: b)) :
    Agree t.reg t.loc.lp Y.s.h (soloLS base t).h := by
  have htok := hrun.ok t (by simp)
  have F := soloFacts hrun.inv htok
  refine ⟨fun k hk => hov.sh_own t (by simp) k hk, ?_, ?_⟩
  · intro k n hk hn
    by_cases hex : ∃ s, s ∈ a ++ b ∧ s.reg k = true
    · obtain ⟨s, hs, hsk⟩ := hex
      rw [nd_Y_other hov hs hsk] at hn
      have Fs := soloFacts hrun.inv (nd_others hrun s hs).1
      obtain ⟨e1, e2⟩ := nd_lbl_ne hrun hs
      rcases Fs.labels k n hsk hn with h | h
      · rw [h]; exact e1
      · rw [h]; exact e2
    · rw [nd_Y_free hov hk hex] at hn
      exact (F.foreign_lbl k n hk hn).2
  · intro k n hk hn
    rw [F.frame k hk] at hn
    exact (F.foreign_lbl k n hk hn).2

theorem nd_cntS_zero_or (o : Option Node) (j : Nat) :
    cntS o j = 0 ∨ ∃ n, o = some n ∧ (n.t = .inner j ∨ n.e = .inner j) := by
  cases o with
  | none => exact Or.inl rfl
  | some n =>
    by_cases h1 : n.t = .inner j
    · exact Or.inr ⟨n, rfl, Or.inl h1⟩
    · by_cases h2 : n.e = .inner j
      · exact Or.inr ⟨n, rfl, Or.inr h2⟩
      · left; simp [cntS, h1, h2]

/-- the test "is the counter 1" sees the same foreign parents in the shared heap and in the solo
heap, or at least one in both -/
theorem nd_fp (hrun : RunOK ext pos base (a ++ t :: b)) (hov : Overlay ext base Y (a ++ t :: b))
    {j : Nat} (hj : t.reg j = true) : FP t.reg Y.s.h (soloLS base t).h j := by
  have htok := hrun.ok t (by simp)
  have F := soloFacts hrun.inv htok
  by_cases hB : ∃ s, s ∈ a ++ b ∧ hasPar s.reg base.s.h.sh j
  · right
    obtain ⟨s, hs, hpar⟩ := hB
    have Fs := soloFacts hrun.inv (nd_others hrun s hs).1
    have hsj : s.reg j = false := nd_others_reg' hrun hs hj
    constructor
    · obtain ⟨p, n, hp, hn, hc⟩ := (Fs.par j hsj).mpr hpar
      rw [← nd_Y_other hov hs hp] at hn
      exact refsOut_pos (nd_others_reg hrun hs hp) hn hc
    · obtain ⟨p, n, hp, hn, hc⟩ := hpar
      have htp := nd_others_reg hrun hs hp
      rw [← F.frame p htp] at hn
      exact refsOut_pos htp hn hc
  · left
    rw [refsOut_eq_range t.reg Y.s.h j (max Y.s.h.slots.length (soloLS base t).h.slots.length) (by omega),
      refsOut_eq_range t.reg (soloLS base t).h j
        (max Y.s.h.slots.length (soloLS base t).h.slots.length) (by omega)]
    apply sum_range_congr
    intro p _
    cases hp : t.reg p with
    | true => rfl
    | false =>
      simp only [Bool.false_eq_true, if_false]
      rw [F.frame p hp]
      by_cases hex : ∃ s, s ∈ a ++ b ∧ s.reg p = true
      · obtain ⟨s, hs, hsp⟩ := hex
        have Fs := soloFacts hrun.inv (nd_others hrun s hs).1
        have hsj : s.reg j = false := nd_others_reg' hrun hs hj
        rw [nd_Y_other hov hs hsp]
        have e1 : cntS ((soloLS base s).h.sh p) j = 0 := by
          rcases nd_cntS_zero_or ((soloLS base s).h.sh p) j with h | ⟨n, hn, hc⟩
          · exact h
          · exact absurd ⟨s, hs, (Fs.par j hsj).mp ⟨p, n, hsp, hn, hc⟩⟩ hB
        have e2 : cntS (base.s.h.sh p) j = 0 := by
          rcases nd_cntS_zero_or (base.s.h.sh p) j with h | ⟨n, hn, hc⟩
          · exact h
          · exact absurd ⟨s, hs, ⟨p, n, hsp, hn, hc⟩⟩ hB
        rw [e1, e2]
      · rw [nd_Y_free hov hp hex]

/-- on the region of `t` every live slot of `base` carries one of the two labels of `t` -/
theorem nd_othG_zero (hrun : RunOK ext pos base (a ++ t :: b)) {k : Nat} (hk : t.reg k = true) :
    othG t.loc.up t.loc.lp base.s.h.sh k = 0 := by
  have htok := hrun.ok t (by simp)
  have hu : t.loc.u < base.toPre.length := by have := htok.ul; have := htok.llen; omega
  unfold othG
  rcases nd_reg_cases htok hk with h | h | h
  · obtain ⟨n, hn, hl⟩ := (hrun.inv.tbl_iff _ hu k).mp h
    rw [hn]; simp only
    rw [if_pos (Or.inl (by rw [hl, htok.up_eq]))]
  · obtain ⟨n, hn, hl⟩ := (hrun.inv.tbl_iff _ htok.llen k).mp h
    rw [hn]; simp only
    rw [if_pos (Or.inr (by rw [hl, htok.lp_eq]))]
  · rw [htok.poolfree k h]

end

/-! ## the task after one more iteration -/

/-- the ghost record of the task after the iteration for `k` -/
def nd_upd (t : Running) (k : Nat) (rest : List Nat) : Running :=
  { t with loc := { t.loc with todo := rest }, doneN := t.doneN ++ [k] }

theorem nd_upd_reg (t : Running) (k : Nat) (rest : List Nat) : (nd_upd t k rest).reg = t.reg := rfl

theorem nd_upd_TaskOK {base : RState} {t : Running} {k : Nat} {rest : List Nat} (h : TaskOK base t)
    (htodo : t.loc.todo = k :: rest) : TaskOK base (nd_upd t k rest) where
  ul := h.ul
  llen := h.llen
  gap := h.gap
  old_eq := h.old_eq
  low_eq := h.low_eq
  up_eq := h.up_eq
  lp_eq := h.lp_eq
  alok := h.alok
  alloc := h.alloc
  ordok := h.ordok
  order := by
    have := h.order
    rw [htodo] at this
    show (t.doneN ++ [k]) ++ rest = t.ord t.loc.old
    rw [← this, List.append_assoc]; rfl
  drops := h.drops
  phase := fun _ => h.phase (by rw [htodo]; exact fun e => by cases e)
  fin := fun he => by
    have := (h.fin he).1
    rw [htodo] at this
    cases this
  poolfree := h.poolfree

theorem nd_upd_disj_l {s t : Running} (k : Nat) (rest : List Nat) (h : TaskDisj s t) :
    TaskDisj s (nd_upd t k rest) := h

theorem nd_upd_disj_r {s t : Running} (k : Nat) (rest : List Nat) (h : TaskDisj t s) :
    TaskDisj (nd_upd t k rest) s := h

theorem nd_applyEnded_congr (a b : List Running) (t : Running) (k : Nat) (rest : List Nat)
    (tp : List Nat) : applyEnded (a ++ nd_upd t k rest :: b) tp = applyEnded (a ++ t :: b) tp := by
  simp only [applyEnded, List.foldl_append, List.foldl_cons]
  rfl

theorem nd_applyEndedV_congr (a b : List Running) (t : Running) (k : Nat) (rest : List Nat)
    (lv : List Nat) : applyEndedV (a ++ nd_upd t k rest :: b) lv = applyEndedV (a ++ t :: b) lv := by
  simp only [applyEndedV, List.foldl_append, List.foldl_cons]
  rfl

theorem nd_count_zero {reg : Nat → Bool} {l : List Nat} (h : ∀ k ∈ l, reg k = true) {j : Nat}
    (hj : reg j = false) : l.count j = 0 := by
  apply List.count_eq_zero.mpr
  intro hm
  have := h j hm
  rw [hj] at this
  cases this

/-! ## the main lemma -/

theorem nd_main {ext : Nat → Nat} {pos : Nat → Nat} {base Y : RState} {a b : List Running}
    {t : Running} {k : Nat} {rest : List Nat}
    (hrun : RunOK ext pos base (a ++ t :: b)) (hov : Overlay ext base Y (a ++ t :: b))
    (htodo : t.loc.todo = k :: rest) :
    RunOK ext pos base (a ++ nd_upd t k rest :: b) ∧
    Overlay ext base (tNode Y t.loc k) (a ++ nd_upd t k rest :: b) := by
  have htm : t ∈ a ++ t :: b := by simp
  have htok := hrun.ok t htm
  have F := soloFacts hrun.inv htok
  have htok' := nd_upd_TaskOK htok htodo
  have hrun' : RunOK ext pos base (a ++ nd_upd t k rest :: b) := by
    refine ⟨hrun.inv, ?_, ?_⟩
    · intro s hs
      rcases nd_mem_run.mp hs with rfl | hs
      · exact htok'
      · exact hrun.ok s (nd_mem_run.mpr (Or.inr hs))
    · exact nd_pairwise_replace hrun.disj (fun s h => nd_upd_disj_l k rest h)
        (fun s h => nd_upd_disj_r k rest h)
  refine ⟨hrun', ?_⟩
  -- the solo state after the step
  have hdone : t.doneD = [] := htok.phase (by rw [htodo]; exact fun e => by cases e)
  have hsolo : soloLS base (nd_upd t k rest) =
      stepNode t.loc.al t.loc.up t.loc.lp t.loc.old (soloLS base t) k := soloLS_node base t k rest hdone
  -- the shared step
  have hown := hov.tbl_own t htm
  have hls : lsOf Y t.loc = ⟨Y.s.h, (soloLS base t).up, (soloLS base t).lo⟩ := by
    unfold lsOf; rw [hown.1, hown.2]
  have hY : tNode Y t.loc k = putLS Y t.loc.u t.loc.l
      (stepNode t.loc.al t.loc.up t.loc.lp t.loc.old
        ⟨Y.s.h, (soloLS base t).up, (soloLS base t).lo⟩ k) := by
    unfold tNode; rw [hls]
  -- weights
  have hwH : ∀ j, wOf (fun k => if t.reg k then t.loc.drops.count k + ext k
      else wRun ext base (a ++ t :: b) k) (soloLS base t).up (soloLS base t).lo j =
      wRun ext base (a ++ t :: b) j := by
    intro j
    simp only [wOf]
    cases hj : t.reg j with
    | true =>
      rw [nd_wRun_at ext base t b (fun s hs => nd_others_reg' hrun (List.mem_append_left _ hs) hj) hj]
      simp only [if_true]; omega
    | false =>
      rw [nd_count_zero F.up_reg hj, nd_count_zero F.lo_reg hj]
      simp only [Bool.false_eq_true, if_false]; omega
  have hH : RCx (wOf (fun k => if t.reg k then t.loc.drops.count k + ext k
      else wRun ext base (a ++ t :: b) k) (soloLS base t).up (soloLS base t).lo) Y.s.h :=
    hov.rc.congr hwH
  have hcore := step_core (ext := ext) (a := t.loc.up) (b := t.loc.lp) (P := BelowL pos t.loc.l)
    (sh0 := base.s.h.sh) (old := t.loc.old)
    (R := fun k => t.loc.drops.count k + othG t.loc.up t.loc.lp base.s.h.sh k + ext k)
    (RH := fun k => if t.reg k then t.loc.drops.count k + ext k else wRun ext base (a ++ t :: b) k)
    (reg := t.reg) (al := t.loc.al) (H := Y.s.h) (st := soloLS base t) (i := k) (todo := rest)
    htok.alok htok.alloc F.pre (fun k => Nat.le_add_left _ _) (htodo ▸ F.linv) (nd_agree hrun hov)
    F.old_reg F.up_reg F.lo_reg hH
    (fun j hj => by simp only [hj, if_true, nd_othG_zero hrun hj]; omega)
    (fun j hj => nd_fp hrun hov hj)
  simp only [] at hcore
  obtain ⟨hup, hlo, hagx, hfx, hfy, hyU, hyL⟩ := hcore
  have hrcx := stepNode_RCx htok.alok (a := t.loc.up) (b := t.loc.lp) (old := t.loc.old) (i := k)
    (st := ⟨Y.s.h, (soloLS base t).up, (soloLS base t).lo⟩) hH
  rw [hY]
  rw [← hsolo] at hup hlo hagx hyU hyL
  -- positions
  have hul : t.loc.u ≠ t.loc.l := by have := htok.ul; omega
  have hlY : t.loc.l < Y.s.tables.length := by
    rw [hov.tbl_len, ← hrun.inv.len]; exact htok.llen
  have huY : t.loc.u < Y.s.tables.length := by have := htok.ul; omega
  refine
    { sh_own := ?_, sh_frame := ?_, tbl_own := ?_, tbl_frame := ?_, tbl_len := ?_, toPre := ?_,
      l2v := ?_, rc := ?_ }
  · intro s hs j hj
    show (stepNode t.loc.al t.loc.up t.loc.lp t.loc.old
      ⟨Y.s.h, (soloLS base t).up, (soloLS base t).lo⟩ k).h.sh j = _
    rcases nd_mem_run.mp hs with rfl | hs
    · exact hagx.own j hj
    · rw [hfx j (nd_others_reg hrun hs hj)]
      exact nd_Y_other hov hs hj
  · intro j hj
    show (stepNode t.loc.al t.loc.up t.loc.lp t.loc.old
      ⟨Y.s.h, (soloLS base t).up, (soloLS base t).lo⟩ k).h.sh j = _
    rw [hfx j (hj (nd_upd t k rest) (by simp))]
    apply hov.sh_frame
    intro s hs
    rcases nd_mem_run.mp hs with rfl | hs
    · exact hj (nd_upd s k rest) (by simp)
    · exact hj s (nd_mem_run.mpr (Or.inr hs))
  · intro s hs
    rw [table_putLS Y hul huY hlY, table_putLS Y hul huY hlY]
    rcases nd_mem_run.mp hs with rfl | hs
    · show (if t.loc.u = t.loc.l then _ else if t.loc.u = t.loc.u then _ else _) = _ ∧
        (if t.loc.l = t.loc.l then _ else _) = _
      rw [if_neg hul, if_pos rfl, if_pos rfl]
      exact ⟨hup, hlo⟩
    · obtain ⟨_, h1, h2, h3, h4, _, _⟩ := nd_others hrun s hs
      rw [if_neg h2, if_neg h1, if_neg h4, if_neg h3]
      exact hov.tbl_own s (nd_mem_run.mpr (Or.inr hs))
  · intro p hp
    rw [table_putLS Y hul huY hlY]
    have := hp (nd_upd t k rest) (by simp)
    have h1 : p ≠ t.loc.u := this.1
    have h2 : p ≠ t.loc.l := this.2
    rw [if_neg h2, if_neg h1]
    apply hov.tbl_frame
    intro s hs
    rcases nd_mem_run.mp hs with rfl | hs
    · exact ⟨h1, h2⟩
    · exact hp s (nd_mem_run.mpr (Or.inr hs))
  · rw [putLS_len]; exact hov.tbl_len
  · show Y.toPre = _
    rw [nd_applyEnded_congr]; exact hov.toPre
  · show Y.l2v = _
    rw [nd_applyEndedV_congr]; exact hov.l2v
  · show RCx _ (stepNode t.loc.al t.loc.up t.loc.lp t.loc.old
      ⟨Y.s.h, (soloLS base t).up, (soloLS base t).lo⟩ k).h
    refine hrcx.congr ?_
    intro j
    rw [hup, hlo]
    simp only [wOf]
    cases hj : t.reg j with
    | true =>
      rw [nd_wRun_at ext base (nd_upd t k rest) b
        (fun s hs => nd_others_reg' hrun (List.mem_append_left _ hs) hj) hj]
      simp only [if_true]
      have hd : (nd_upd t k rest).loc.drops = t.loc.drops := rfl
      rw [hd]; omega
    | false =>
      rw [nd_count_zero hyU hj, nd_count_zero hyL hj,
        nd_wRun_other ext base a (nd_upd t k rest) t b hj hj]
      simp only [Bool.false_eq_true, if_false]; omega

/-- one loop iteration of a running task -/
theorem overlay_node {ext : Nat → Nat} {pos : Nat → Nat} {base Y : RState} {a b : List Running}
    {t : Running} {k : Nat} {rest : List Nat}
    (hrun : RunOK ext pos base (a ++ t :: b)) (hov : Overlay ext base Y (a ++ t :: b))
    (htodo : t.loc.todo = k :: rest) :
    RunOK ext pos base (a ++ { t with loc := { t.loc with todo := rest }, doneN := t.doneN ++ [k] } :: b) ∧
    Overlay ext base (tNode Y t.loc k)
      (a ++ { t with loc := { t.loc with todo := rest }, doneN := t.doneN ++ [k] } :: b) :=
  nd_main hrun hov htodo

end OxiddModel.Reorder.SwapStore
