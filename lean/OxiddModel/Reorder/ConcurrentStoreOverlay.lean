import OxiddModel.Reorder.ConcurrentStoreSeq
import OxiddModel.Reorder.ConcurrentStoreRc

/-!
# Concurrent `level_swap`s: running tasks, their solo runs, the overlay description

A *running task* is a worker inside `swap(manager, i)` (between `tasks.pop()` and the critical
section that follows the swap). `soloLS base t` is the loop state the task would have reached
had it executed its steps so far **alone** from the state `base` (the sequential result of the
swaps whose critical sections are over). `Overlay ext base Y run` describes the real, shared state
`Y` as `base` overlaid with the solo states of the running tasks on their own regions: this is
the footprint argument — each task reads and writes only its two level tables, the slots of its
two levels, its fresh slots, and the counters (which are determined by the shapes, `RCx.same`).
-/
namespace OxiddModel.Reorder.SwapStore
open OxiddModel.Bdd OxiddModel.Bdd.Refine OxiddModel.Reorder

/-- a worker inside `swap(manager, idx)`; everything but `loc` is ghost -/
structure Running where
  /-- index into `from_ne` -/
  idx : Nat
  loc : TaskLoc
  /-- iteration order of the hash table `old_upper` -/
  ord : List Nat → List Nat
  /-- the private supply of unused slots of the executing worker -/
  pool : Nat → Bool
  /-- entries of `old_upper` visited so far / released so far -/
  doneN : List Nat
  doneD : List Nat
  /-- `level_swap` has returned and `to_pre` is updated; the worker waits for the mutex -/
  ended : Bool

/-- the slots the task may touch: the two level views at its start and its pool -/
def Running.reg (t : Running) : Nat → Bool :=
  fun k => t.loc.old.contains k || t.loc.low0.contains k || t.pool k

/-- the loop state of the task had it run alone from `base` -/
def soloLS (base : RState) (t : Running) : LS :=
  let st := levelSwapLoop t.loc.al t.loc.up t.loc.lp t.loc.old t.doneN
    ⟨base.s.h, base.s.table t.loc.l, []⟩
  { st with h := dropOld st.h t.doneD }

/-- the task is a well-formed `level_swap(u, l, to_pre[u], to_pre[l])` on `base` in progress -/
structure TaskOK (base : RState) (t : Running) : Prop where
  ul : t.loc.u < t.loc.l
  llen : t.loc.l < base.toPre.length
  gap : ∀ p, t.loc.u < p → p < t.loc.l → base.s.table p = []
  old_eq : t.loc.old = base.s.table t.loc.u
  low_eq : t.loc.low0 = base.s.table t.loc.l
  up_eq : t.loc.up = base.toPre.getD t.loc.u 0
  lp_eq : t.loc.lp = base.toPre.getD t.loc.l 0
  alok : AllocOK t.loc.al
  alloc : AllocLocal t.reg t.loc.al
  ordok : OrderOK t.ord
  order : t.doneN ++ t.loc.todo = t.ord t.loc.old
  drops : t.doneD ++ t.loc.drops = t.loc.old
  phase : t.loc.todo ≠ [] → t.doneD = []
  fin : t.ended = true → t.loc.todo = [] ∧ t.loc.drops = []
  poolfree : ∀ k, t.pool k = true → base.s.h.sh k = none

/-- two running tasks work on different level views and have disjoint pools -/
def TaskDisj (s t : Running) : Prop :=
  s.loc.u ≠ t.loc.u ∧ s.loc.u ≠ t.loc.l ∧ s.loc.l ≠ t.loc.u ∧ s.loc.l ≠ t.loc.l ∧
  (∀ k, s.pool k = true → t.reg k = false) ∧ (∀ k, t.pool k = true → s.reg k = false)

/-- `to_pre` with the updates of the tasks whose `level_swap` has returned -/
def applyEnded (run : List Running) (tp : List Nat) : List Nat :=
  run.foldl (fun tp t => if t.ended then (tp.set t.loc.u t.loc.lp).set t.loc.l t.loc.up else tp) tp

/-- the level→variable map likewise (ghost) -/
def applyEndedV (run : List Running) (lv : List Nat) : List Nat :=
  run.foldl (fun lv t => if t.ended then swapIdx lv t.loc.u t.loc.l else lv) lv

/-- the weight of a slot in the shared state: table entries + entries of taken views + external
handles, read off region by region -/
def wRun (ext : Nat → Nat) (base : RState) : List Running → Nat → Nat
  | [], k => live01 base.s.h k + ext k
  | t :: rest, k =>
    if t.reg k then
      (soloLS base t).up.count k + (soloLS base t).lo.count k + t.loc.drops.count k + ext k
    else wRun ext base rest k

/-- **the shared state is `base` overlaid with the solo runs of the running tasks** -/
structure Overlay (ext : Nat → Nat) (base Y : RState) (run : List Running) : Prop where
  sh_own : ∀ t ∈ run, ∀ k, t.reg k = true → Y.s.h.sh k = (soloLS base t).h.sh k
  sh_frame : ∀ k, (∀ t ∈ run, t.reg k = false) → Y.s.h.sh k = base.s.h.sh k
  tbl_own : ∀ t ∈ run, Y.s.table t.loc.u = (soloLS base t).up ∧ Y.s.table t.loc.l = (soloLS base t).lo
  tbl_frame : ∀ p, (∀ t ∈ run, p ≠ t.loc.u ∧ p ≠ t.loc.l) → Y.s.table p = base.s.table p
  tbl_len : Y.s.tables.length = base.s.tables.length
  toPre : Y.toPre = applyEnded run base.toPre
  l2v : Y.l2v = applyEndedV run base.l2v
  rc : RCx (wRun ext base run) Y.s.h

/-- the standing assumptions about `base` and the running tasks -/
structure RunOK (ext : Nat → Nat) (pos : Nat → Nat) (base : RState) (run : List Running) : Prop where
  inv : InvL ext base.toPre pos base.s
  ok : ∀ t ∈ run, TaskOK base t
  disj : run.Pairwise TaskDisj

end OxiddModel.Reorder.SwapStore
