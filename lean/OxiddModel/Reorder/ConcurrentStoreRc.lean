import OxiddModel.Reorder.ConcurrentStore

/-!
# The reference-count equation under every loop-body step, without a shape invariant

`RCx (wOf R up lo) h` (counter = table entries + weight `R` of everything else + parent edges) is
preserved by `moveLS`, `rewPre`, `orphanLS` (hence `stepNode`) and by one entry of
`drop(old_upper)`, for an arbitrary `R`, from `RCx` itself and `AllocOK` only.
Also: `Heap.refs` as a sum over slot indices, split into a region and its complement.
-/
namespace OxiddModel.Reorder.SwapStore
open OxiddModel.Bdd OxiddModel.Bdd.Refine

/-! ## sums over `List.range` -/

theorem sum_range_congr {f g : Nat → Nat} (N : Nat) (hfg : ∀ p, p < N → f p = g p) :
    ((List.range N).map f).sum = ((List.range N).map g).sum := by
  induction N with
  | zero => rfl
  | succ n ih =>
    rw [List.range_succ, List.map_append, List.map_append, List.sum_append, List.sum_append,
      ih (fun p hp => hfg p (by omega))]
    simp only [List.map_cons, List.map_nil, List.sum_cons, List.sum_nil]
    rw [hfg n (by omega)]

theorem sum_range_extend {f : Nat → Nat} {n N : Nat} (hn : n ≤ N) (hz : ∀ p, n ≤ p → f p = 0) :
    ((List.range N).map f).sum = ((List.range n).map f).sum := by
  induction N with
  | zero => have : n = 0 := by omega
            subst this; rfl
  | succ k ih =>
    by_cases hk : n = k + 1
    · subst hk; rfl
    · rw [List.range_succ, List.map_append, List.sum_append, ih (by omega)]
      simp only [List.map_cons, List.map_nil, List.sum_cons, List.sum_nil]
      rw [hz k (by omega)]; rfl

theorem sum_range_add (f g : Nat → Nat) (N : Nat) :
    ((List.range N).map f).sum + ((List.range N).map g).sum =
      ((List.range N).map fun p => f p + g p).sum := by
  induction N with
  | zero => rfl
  | succ n ih =>
    rw [List.range_succ, List.map_append, List.map_append, List.map_append, List.sum_append,
      List.sum_append, List.sum_append, ← ih]
    simp only [List.map_cons, List.map_nil, List.sum_cons, List.sum_nil]
    omega

theorem le_sum_range (f : Nat → Nat) {N p : Nat} (hp : p < N) :
    f p ≤ ((List.range N).map f).sum := by
  induction N with
  | zero => omega
  | succ n ih =>
    rw [List.range_succ, List.map_append, List.sum_append]
    simp only [List.map_cons, List.map_nil, List.sum_cons, List.sum_nil]
    by_cases hpn : p = n
    · subst hpn; omega
    · have := ih (by omega); omega

theorem sum_range_pos {f : Nat → Nat} {N : Nat} (h : 0 < ((List.range N).map f).sum) :
    ∃ p, p < N ∧ 0 < f p := by
  induction N with
  | zero => simp at h
  | succ n ih =>
    rw [List.range_succ, List.map_append, List.sum_append] at h
    simp only [List.map_cons, List.map_nil, List.sum_cons, List.sum_nil] at h
    by_cases hn : 0 < f n
    · exact ⟨n, by omega, hn⟩
    · obtain ⟨p, hp, hf⟩ := ih (by omega)
      exact ⟨p, by omega, hf⟩

theorem sum_map_eq_range {α : Type} (f : α → Nat) (l : List α) :
    (l.map f).sum = ((List.range l.length).map fun p => match l[p]? with
      | some a => f a
      | none => 0).sum := by
  induction l with
  | nil => rfl
  | cons x xs ih =>
    rw [List.length_cons, List.range_succ_eq_map, List.map_cons, List.map_cons, List.sum_cons,
      List.sum_cons, List.map_map, ih]
    simp only [List.getElem?_cons_zero]
    congr 1

/-! ## `Heap.refs` as a sum over slot indices -/

theorem sh_of_length_le {h : Heap} {p : Nat} (hp : h.slots.length ≤ p) : h.sh p = none := by
  unfold Heap.sh Heap.get?
  rw [List.getElem?_eq_none hp]; rfl

theorem get?_eq_of_sh_rc {h h' : Heap} {k : Nat} (hs : h.sh k = h'.sh k) (hr : h.rcOf k = h'.rcOf k) :
    h.get? k = h'.get? k := by
  unfold Heap.sh at hs
  unfold Heap.rcOf at hr
  cases h1 : h.get? k with
  | none =>
    cases h2 : h'.get? k with
    | none => rfl
    | some m' => rw [h1, h2] at hs; cases hs
  | some m =>
    cases h2 : h'.get? k with
    | none => rw [h1, h2] at hs; cases hs
    | some m' =>
      rw [h1, h2] at hs hr
      simp only [Option.map_some, Option.some.injEq] at hs hr
      cases m; cases m'
      simp only [SNode.toNode, Node.mk.injEq] at hs hr
      obtain ⟨rfl, rfl, rfl⟩ := hs
      subst hr; rfl

theorem refs_eq_sum_range (h : Heap) (j N : Nat) (hN : h.slots.length ≤ N) :
    h.refs j = ((List.range N).map fun p => cntS (h.sh p) j).sum := by
  rw [sum_range_extend hN (fun p hp => by rw [sh_of_length_le hp]; rfl)]
  unfold Heap.refs
  rw [sum_map_eq_range]
  apply sum_range_congr
  intro p hp
  unfold Heap.sh Heap.get?
  rw [List.getElem?_eq_getElem hp]
  simp only [Option.join_some]
  exact cntO_eq_cntS _ _

theorem refs_congr {h h' : Heap} (hs : ∀ k, h.sh k = h'.sh k) (j : Nat) : h.refs j = h'.refs j := by
  rw [refs_eq_sum_range h j (max h.slots.length h'.slots.length) (by omega),
    refs_eq_sum_range h' j (max h.slots.length h'.slots.length) (by omega)]
  exact sum_range_congr _ (fun p _ => by rw [hs p])

theorem refsIn_eq_range (reg : Nat → Bool) (h : Heap) (j N : Nat) (hN : h.slots.length ≤ N) :
    refsIn reg h j = ((List.range N).map fun p => if reg p then cntS (h.sh p) j else 0).sum := by
  unfold refsIn
  rw [sum_range_extend hN (fun p hp => by rw [sh_of_length_le hp]; simp [cntS])]

theorem refsOut_eq_range (reg : Nat → Bool) (h : Heap) (j N : Nat) (hN : h.slots.length ≤ N) :
    refsOut reg h j = ((List.range N).map fun p => if reg p then 0 else cntS (h.sh p) j).sum := by
  unfold refsOut
  rw [sum_range_extend hN (fun p hp => by rw [sh_of_length_le hp]; simp [cntS])]

theorem refs_split (reg : Nat → Bool) (h : Heap) (j : Nat) :
    h.refs j = refsIn reg h j + refsOut reg h j := by
  unfold refsIn refsOut
  rw [sum_range_add, refs_eq_sum_range h j h.slots.length (Nat.le_refl _)]
  apply sum_range_congr
  intro p _
  cases reg p <;> simp

theorem refsIn_congr {reg : Nat → Bool} {h h' : Heap} (hs : ∀ k, reg k = true → h.sh k = h'.sh k)
    (j : Nat) : refsIn reg h j = refsIn reg h' j := by
  rw [refsIn_eq_range reg h j (max h.slots.length h'.slots.length) (by omega),
    refsIn_eq_range reg h' j (max h.slots.length h'.slots.length) (by omega)]
  apply sum_range_congr
  intro p _
  cases hp : reg p
  · rfl
  · rw [hs p hp]

theorem refsOut_congr {reg : Nat → Bool} {h h' : Heap} (hs : ∀ k, reg k = false → h.sh k = h'.sh k)
    (j : Nat) : refsOut reg h j = refsOut reg h' j := by
  rw [refsOut_eq_range reg h j (max h.slots.length h'.slots.length) (by omega),
    refsOut_eq_range reg h' j (max h.slots.length h'.slots.length) (by omega)]
  apply sum_range_congr
  intro p _
  cases hp : reg p
  · simp only [Bool.false_eq_true, if_false]; rw [hs p hp]
  · rfl

theorem refsOut_pos {reg : Nat → Bool} {h : Heap} {p j : Nat} {n : Node} (hp : reg p = false)
    (hn : h.sh p = some n) (hc : n.t = .inner j ∨ n.e = .inner j) : 0 < refsOut reg h j := by
  have hlt : p < h.slots.length := by
    apply Classical.byContradiction
    intro hge
    rw [sh_of_length_le (by omega)] at hn; cases hn
  have := le_sum_range (fun p => if reg p then 0 else cntS (h.sh p) j) hlt
  simp only [hp, Bool.false_eq_true, if_false, hn, cntS_some] at this
  unfold refsOut
  have h1 : 0 < pt n.t j + pt n.e j := by
    rcases hc with hc | hc
    · rw [hc, pt_self]; omega
    · rw [hc, pt_self]; omega
  omega

theorem refsOut_pos_iff {reg : Nat → Bool} {h : Heap} {j : Nat} :
    0 < refsOut reg h j ↔
      ∃ p n, reg p = false ∧ h.sh p = some n ∧ (n.t = .inner j ∨ n.e = .inner j) := by
  constructor
  · intro hpos
    unfold refsOut at hpos
    obtain ⟨p, _, hf⟩ := sum_range_pos hpos
    cases hp : reg p
    · cases hn : h.sh p with
      | none => simp [hp, hn, cntS] at hf
      | some n =>
        refine ⟨p, n, hp, hn, ?_⟩
        simp only [hp, Bool.false_eq_true, if_false, hn, cntS_some, pt] at hf
        by_cases h1 : n.t = .inner j
        · exact Or.inl h1
        · by_cases h2 : n.e = .inner j
          · exact Or.inr h2
          · simp [h1, h2] at hf
    · simp [hp] at hf
  · rintro ⟨p, n, hp, hn, hc⟩
    exact refsOut_pos hp hn hc

/-- the counters are determined by shapes and weights -/
theorem RCx.same {w : Nat → Nat} {h h' : Heap} (hr : RCx w h) (hr' : RCx w h')
    (hs : ∀ k, h.sh k = h'.sh k) : Heap.Same h h' := by
  intro k
  apply get?_eq_of_sh_rc (hs k)
  rw [hr k, hr' k, refs_congr hs k]

/-! ## the primitives -/

/-- one entry of `drop(old_upper)`; `j` counted in the weight, e.g. as a member of the taken view -/
theorem dropTableEdge_RCx {w : Nat → Nat} {h : Heap} {j : Nat}
    (hr : RCx (fun k => w k + pt (.inner j) k) h) : RCx w (dropTableEdge h j) := by
  cases hm : h.get? j with
  | none =>
    have := hr j
    simp only [pt_self] at this
    rw [rcOf_of_none hm] at this; omega
  | some m => exact RCx_dropTableEdge hr hm

theorem count_cons_pt (i : Nat) (l : List Nat) (k : Nat) :
    (i :: l).count k = l.count k + pt (.inner i) k := by
  rw [List.count_cons]
  by_cases hk : k = i
  · subst hk; simp [pt_self]
  · rw [pt_ne hk]
    have : ¬ (i = k) := fun h' => hk h'.symm
    simp [this]

/-- `insert_unchecked` with an owned edge: the edge either enters the table or is released -/
theorem tblInsert_RCx {w : Nat → Nat} {h : Heap} {tbl : List Nat} {i : Nat}
    (hr : RCx (fun k => w k + pt (.inner i) k) h) :
    ∃ d : Nat → Nat, (∀ k, (tblInsert h tbl i).2.count k = tbl.count k + d k) ∧
      RCx (fun k => w k + d k) (tblInsert h tbl i).1 := by
  unfold tblInsert
  cases hm : h.get? i with
  | none =>
    exfalso
    have := hr i
    simp only [pt_self] at this
    rw [rcOf_of_none hm] at this; omega
  | some n =>
    simp only
    cases lookup h tbl n.t n.e with
    | some j' => exact ⟨fun _ => 0, fun k => rfl, (RCx.decRc (.inner i) hr).congr (fun k => rfl)⟩
    | none => exact ⟨fun k => pt (.inner i) k, fun k => count_cons_pt i tbl k, hr⟩

theorem moveLS_RCx {R : Nat → Nat} {st : LS} {i : Nat}
    (hr : RCx (wOf R st.up st.lo) st.h) (hi : st.h.get? i ≠ none) :
    RCx (wOf R (moveLS st i).up (moveLS st i).lo) (moveLS st i).h := by
  have h1 := hr.incRc (.inner i) (fun k hk => by cases hk; exact hi)
  obtain ⟨d, hd, h2⟩ := tblInsert_RCx (tbl := st.lo) h1
  show RCx (wOf R st.up (tblInsert (incRc st.h (.inner i)) st.lo i).2)
    (tblInsert (incRc st.h (.inner i)) st.lo i).1
  refine h2.congr (fun k => ?_)
  simp only [wOf]; rw [hd k]; omega

theorem tblRemove_RCx {R : Nat → Nat} {h : Heap} {up lo : List Nat} (x y : Edge)
    (hr : RCx (wOf R up lo) h) :
    RCx (wOf R (tblRemove h up x y).2 lo) (tblRemove h up x y).1 := by
  unfold tblRemove
  cases hl : lookup h up x y with
  | none => exact hr
  | some j =>
    simp only
    obtain ⟨hju, _⟩ := lookup_some hl
    apply dropTableEdge_RCx
    refine hr.congr (fun k => ?_)
    have := count_erase_add hju k
    simp only [wOf]
    by_cases hk : k = j
    · subst hk; rw [pt_self]; simp only [if_true] at this; omega
    · rw [pt_ne hk]; simp only [hk, if_false] at this; omega

theorem orphanLS_RCx {R : Nat → Nat} {b : Nat} {st : LS} (c : Edge)
    (hr : RCx (wOf R st.up st.lo) st.h) :
    RCx (wOf R (orphanLS b st c).up (orphanLS b st c).lo) (orphanLS b st c).h := by
  show RCx (wOf R (orphan b (st.h, st.up) c).2 st.lo) (orphan b (st.h, st.up) c).1
  unfold orphan
  cases c with
  | term v => exact hr
  | inner j =>
    simp only
    cases st.h.get? j with
    | none => exact hr
    | some m =>
      simp only
      split
      · exact tblRemove_RCx _ _ hr
      · exact hr

/-! ## `mkChild` -/

/-- the grandchildren of a live child are live -/
theorem cofE_live {w : Nat → Nat} {h : Heap} (hr : RCx w h) (l : Nat) {c : Edge}
    (hc : ∀ k, c = .inner k → h.get? k ≠ none) :
    (∀ k, (cofE h l c).1 = .inner k → h.get? k ≠ none) ∧
    (∀ k, (cofE h l c).2 = .inner k → h.get? k ≠ none) := by
  unfold cofE
  cases c with
  | term v => exact ⟨hc, hc⟩
  | inner j =>
    simp only
    cases hm : h.get? j with
    | none => exact ⟨hc, hc⟩
    | some m =>
      simp only
      split
      · have hs : h.sh j = some m.toNode := by simp [Heap.sh, hm]
        exact ⟨fun k hk => hr.live_child hs (Or.inl hk), fun k hk => hr.live_child hs (Or.inr hk)⟩
      · exact ⟨hc, hc⟩

/-- `mkChild` keeps the reference-count equation: the result carries one floating reference, the
new lower table may have gained one entry (`d`); live slots keep their shape -/
theorem mkChild_rc {al : Heap → Nat} (hal : AllocOK al) {a : Nat} {old : List Nat}
    {h : Heap} {lo : List Nat} {w : Nat → Nat} (hr : RCx w h) {x y : Edge}
    (hxl : ∀ k, x = .inner k → h.get? k ≠ none) (hyl0 : ∀ k, y = .inner k → h.get? k ≠ none) :
    ∃ h' lo' c, mkChild al a old (h, lo) x y = ((h', lo'), c) ∧
      (∃ d : Nat → Nat, (∀ k, lo'.count k = lo.count k + d k) ∧
        RCx (fun k => w k + pt c k + d k) h') ∧
      (∀ k, h.sh k ≠ none → h'.sh k = h.sh k) := by
  have hyl : ∀ k, y = .inner k → (incRc h x).get? k ≠ none := fun k hk hn =>
    hyl0 k hk (sh_eq_none.mp (by rw [← sh_incRc h x]; exact sh_eq_none.mpr hn))
  have hr1 : RCx (fun k => w k + pt x k + pt y k) (incRc (incRc h x) y) :=
    (hr.incRc x hxl).incRc y hyl
  have hs1 : (incRc (incRc h x) y).sh = h.sh := by rw [sh_incRc, sh_incRc]
  unfold mkChild
  simp only
  generalize hh1 : incRc (incRc h x) y = h1 at hr1 hs1
  by_cases hxy : x = y
  · simp only [hxy, if_true]
    refine ⟨_, _, _, rfl, ⟨fun _ => 0, fun k => rfl, ?_⟩, ?_⟩
    · apply RCx.decRc y
      exact hr1.congr (fun k => by subst hxy; rcarith)
    · intro k _; rw [sh_decRc, hs1]
  · simp only [hxy, if_false]
    have hfound : ∀ j l, h.sh j = some ⟨l, x, y⟩ →
        (∃ d : Nat → Nat, (∀ k, lo.count k = lo.count k + d k) ∧
          RCx (fun k => w k + pt (.inner j) k + d k) (incRc (decRc (decRc h1 x) y) (.inner j))) ∧
        (∀ k, h.sh k ≠ none → (incRc (decRc (decRc h1 x) y) (.inner j)).sh k = h.sh k) := by
      intro j l hsj
      have hsh : (incRc (decRc (decRc h1 x) y) (.inner j)).sh = h.sh := by
        rw [sh_incRc, sh_decRc, sh_decRc, hs1]
      refine ⟨⟨fun _ => 0, fun k => rfl, ?_⟩, fun k _ => by rw [hsh]⟩
      have hr2 : RCx w (decRc (decRc h1 x) y) := by
        apply RCx.decRc y; apply RCx.decRc x
        exact hr1.congr (fun k => by rcarith)
      have := hr2.incRc (.inner j) (fun k hk => by
        injection hk with hk; subst hk
        intro hn
        have : (decRc (decRc h1 x) y).sh j = none := sh_eq_none.mpr hn
        rw [sh_decRc, sh_decRc, hs1, hsj] at this; cases this)
      exact this.congr (fun k => by rcarith)
    cases hlo : lookup h1 old x y with
    | some j =>
      simp only
      obtain ⟨_, l, hsj⟩ := lookup_some hlo
      rw [hs1] at hsj
      exact ⟨_, _, _, rfl, hfound j l hsj⟩
    | none =>
      simp only
      cases hll : lookup h1 lo x y with
      | some j =>
        simp only
        obtain ⟨_, l, hsj⟩ := lookup_some hll
        rw [hs1] at hsj
        exact ⟨_, _, _, rfl, hfound j l hsj⟩
      | none =>
        simp only
        have hfree : h.sh (al h1) = none := by
          rw [← hs1]; exact sh_eq_none.mpr (hal h1)
        refine ⟨_, _, _, rfl, ⟨fun k => pt (.inner (al h1)) k, fun k => count_cons_pt _ _ k, ?_⟩, ?_⟩
        · intro k
          have h1k := hr1 k
          simp only [] at h1k
          have hrf := refs_put' h1 (al h1) k (some ⟨a, x, y, 2⟩)
          rw [sh_eq_none.mpr (hal h1)] at hrf
          simp only [cntS_none, Option.map, SNode.toNode, cntS_some] at hrf
          rw [rcOf_put]
          by_cases hk : k = al h1
          · subst hk
            rw [rcOf_of_none (hal h1)] at h1k
            simp only [if_true, pt_self]
            omega
          · simp only [hk, if_false, pt_ne hk]
            omega
        · intro k hk
          have hne : ¬ k = al h1 := fun h' => hk (by rw [h']; exact hfree)
          rw [sh_put, if_neg hne, hs1]

/-! ## the rewrite branch up to the re-insertion, the whole loop body -/

theorem rewPre_RCx {al : Heap → Nat} (hal : AllocOK al) {R : Nat → Nat} {a b : Nat} {old : List Nat}
    {st : LS} {i : Nat} {m : SNode}
    (hr : RCx (wOf R st.up st.lo) st.h) (hm : st.h.get? i = some m) :
    RCx (wOf R (rewPre al a b old st i m.t m.e).up (rewPre al a b old st i m.t m.e).lo)
        (rewPre al a b old st i m.t m.e).h := by
  have hsi : st.h.sh i = some m.toNode := by simp [Heap.sh, hm]
  have hmt : ∀ k, m.t = .inner k → st.h.get? k ≠ none := fun k hk =>
    hr.live_child hsi (Or.inl hk)
  have hme : ∀ k, m.e = .inner k → st.h.get? k ≠ none := fun k hk =>
    hr.live_child hsi (Or.inr hk)
  obtain ⟨gt1, gt2⟩ := cofE_live hr b hmt
  obtain ⟨ge1, ge2⟩ := cofE_live hr b hme
  unfold rewPre
  simp only
  generalize cofE st.h b m.t = gt at gt1 gt2
  generalize cofE st.h b m.e = ge at ge1 ge2
  obtain ⟨h0, lo0, c1, e0, ⟨d0, hd0, RC0⟩, live0⟩ :=
    mkChild_rc hal (a := a) (old := old) (lo := st.lo) hr gt1 ge1
  have keep0 : ∀ k, st.h.get? k ≠ none → h0.get? k ≠ none := fun k hk hn => by
    have := live0 k (fun h' => hk (sh_eq_none.mp h'))
    rw [sh_eq_none.mpr hn] at this
    exact hk (sh_eq_none.mp this.symm)
  obtain ⟨h1, lo1, c2, e1, ⟨d1, hd1, RC1⟩, live1⟩ :=
    mkChild_rc hal (a := a) (old := old) (lo := lo0) RC0
      (fun k hk => keep0 k (gt2 k hk)) (fun k hk => keep0 k (ge2 k hk))
  simp only [e0, e1]
  have hsi0 : h0.sh i = some m.toNode := by rw [live0 i (by simp [hsi]), hsi]
  have hsi1 : h1.sh i = some ⟨m.level, m.t, m.e⟩ := by
    rw [live1 i (by simp [hsi0]), hsi0]; rfl
  have RC2 : RCx (fun k => wOf R st.up st.lo k + d0 k + d1 k + pt c2 k) (setChildT h1 i c1) :=
    RCx_setChildT c1 (RC1.congr (fun k => by rcarith)) hsi1
  have hsi2 : (setChildT h1 i c1).sh i = some ⟨m.level, c1, m.e⟩ := by
    rw [sh_setChildT hsi1 c1]; simp
  have RC3 : RCx (fun k => wOf R st.up st.lo k + d0 k + d1 k) (setChildE (setChildT h1 i c1) i c2) :=
    RCx_setChildE c2 RC2 hsi2
  have hsi3 : (setChildE (setChildT h1 i c1) i c2).sh i = some ⟨m.level, c1, c2⟩ := by
    rw [sh_setChildE hsi2 c2]; simp
  have RC4 := RCx_setLevel i b RC3
  have hsi4 : (setLevel (setChildE (setChildT h1 i c1) i c2) i b).sh i = some ⟨b, c1, c2⟩ := by
    rw [sh_setLevel hsi3 b]; simp
  generalize setLevel (setChildE (setChildT h1 i c1) i c2) i b = h4 at RC4 hsi4
  have RC5 := RC4.incRc (.inner i) (fun k hk => by
    cases hk
    intro hn
    rw [sh_eq_none.mpr hn] at hsi4; cases hsi4)
  obtain ⟨d5, hd5, RC6⟩ := tblInsert_RCx (tbl := st.up) RC5
  refine RC6.congr (fun k => ?_)
  have e0k := hd0 k
  have e1k := hd1 k
  have e5k := hd5 k
  simp only [wOf]
  omega

theorem stepNode_RCx {al : Heap → Nat} (hal : AllocOK al) {R : Nat → Nat} {a b : Nat} {old : List Nat}
    {st : LS} {i : Nat} (hr : RCx (wOf R st.up st.lo) st.h) :
    RCx (wOf R (stepNode al a b old st i).up (stepNode al a b old st i).lo)
      (stepNode al a b old st i).h := by
  rw [stepNode_eq]
  cases hm : st.h.get? i with
  | none => exact hr
  | some n =>
    simp only
    split
    · exact moveLS_RCx hr (by rw [hm]; simp)
    · have h5 := rewPre_RCx hal (a := a) (b := b) (old := old) hr hm
      have h6 := orphanLS_RCx (b := b) n.t h5
      split
      · exact h6
      · exact orphanLS_RCx n.e h6

end OxiddModel.Reorder.SwapStore
