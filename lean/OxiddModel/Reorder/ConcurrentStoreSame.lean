import OxiddModel.Reorder.ConcurrentStoreOrder
import OxiddModel.Reorder.ConcurrentStoreLevels
import OxiddModel.Reorder.ConcurrentStoreRc

/-!
# Everything we say about a store is invariant under `Heap.Same`

`Heap.Same h h'` (`ConcurrentStore.lean`): the two slot lists hold the same nodes in the same slots
(they may differ in the number of trailing free slots). The end of `set_var_order_common`
(`step2`, `update_levels`, i.e. `setVarOrderTail`) maps `Same` states to `Same` states, and the
invariants `Inv`, `InvW` and the denotation `Denotes` of an edge do not distinguish `Same` heaps.
-/
namespace OxiddModel.Reorder.SwapStore
open OxiddModel.Bdd OxiddModel.Bdd.BDD OxiddModel.Bdd.Refine OxiddModel.Reorder

/-! ## observations of a heap -/

theorem Heap.Same.sh {h h' : Heap} (hs : Heap.Same h h') (k : Nat) : h.sh k = h'.sh k := by
  unfold Heap.sh; rw [hs k]

theorem Heap.Same.rcOf {h h' : Heap} (hs : Heap.Same h h') (k : Nat) : h.rcOf k = h'.rcOf k := by
  unfold Heap.rcOf; rw [hs k]

theorem Heap.Same.refs {h h' : Heap} (hs : Heap.Same h h') (k : Nat) : h.refs k = h'.refs k :=
  refs_congr (fun j => hs.sh j) k

theorem sm_live01 {h h' : Heap} (hs : Heap.Same h h') (k : Nat) : live01 h k = live01 h' k := by
  unfold live01; rw [hs.sh k]

theorem sm_RCx {h h' : Heap} (hs : Heap.Same h h') {w : Nat → Nat} (hr : RCx w h) : RCx w h' :=
  fun j => by rw [← hs.rcOf j, ← hs.refs j]; exact hr j

/-! ## the writes of `update_levels` -/

theorem Heap.Same.setLevel {h h' : Heap} (hs : Heap.Same h h') (i l : Nat) :
    Heap.Same (setLevel h i l) (setLevel h' i l) := fun k => by
  rw [get?_setLevel, get?_setLevel, hs k]

theorem Heap.Same.runWrites {h h' : Heap} (hs : Heap.Same h h') (ws : List (Nat × Nat)) :
    Heap.Same (runWrites h ws) (runWrites h' ws) := fun k => by
  rw [get?_runWrites, get?_runWrites, hs k]

theorem Heap.Same.updateLevelNo {h h' : Heap} (hs : Heap.Same h h') (tbl : List Nat) (l : Nat) :
    Heap.Same (updateLevelNo h tbl l) (updateLevelNo h' tbl l) := by
  rw [updateLevelNo_eq_runWrites, updateLevelNo_eq_runWrites]
  exact hs.runWrites _

/-! ## manager states -/

/-- two manager states with the same slots, tables, `to_pre`, level→variable map -/
def RSame (r r' : RState) : Prop :=
  Heap.Same r.s.h r'.s.h ∧ r.s.tables = r'.s.tables ∧ r.toPre = r'.toPre ∧ r.l2v = r'.l2v

theorem sm_updFold (f : Nat → Bool) (tb : Nat → List Nat) (ps : List Nat) {h h' : Heap}
    (hs : Heap.Same h h') :
    Heap.Same (ps.foldl (fun h p => if f p then SwapStore.updateLevelNo h (tb p) p else h) h)
      (ps.foldl (fun h p => if f p then SwapStore.updateLevelNo h (tb p) p else h) h') := by
  induction ps generalizing h h' with
  | nil => exact hs
  | cons p ps ih =>
    rw [List.foldl_cons, List.foldl_cons]
    apply ih
    by_cases hp : f p = true
    · rw [if_pos hp, if_pos hp]; exact hs.updateLevelNo _ _
    · rw [if_neg hp, if_neg hp]; exact hs

theorem RSame.updateLevels {r r' : RState} (h : RSame r r') :
    Heap.Same (updateLevels r).h (updateLevels r').h ∧
      (updateLevels r).tables = (updateLevels r').tables := by
  obtain ⟨hh, ht, hp, _⟩ := h
  refine ⟨?_, ht⟩
  have e : ∀ q : RState, (SwapStore.updateLevels q).h =
      (List.range q.s.tables.length).foldl (fun h p =>
        if (fun p => decide (p ≠ q.toPre.getD p p)) p then
          SwapStore.updateLevelNo h ((fun p => q.s.table p) p) p else h) q.s.h := by
    intro q
    show (List.range q.s.tables.length).foldl _ q.s.h = _
    congr 1
    funext h p
    by_cases hc : p ≠ q.toPre.getD p p
    · simp only [hc, if_true, decide_true, ne_eq, not_false_eq_true]
    · simp only [hc, if_false, decide_false, Bool.false_eq_true]
  rw [e r, e r']
  have et : ∀ p, r.s.table p = r'.s.table p := fun p => by unfold SStore.table; rw [ht]
  rw [← ht, ← hp]
  simp only [← et]
  exact sm_updFold _ _ _ hh

theorem RSame.step2 {r r' : RState} (h : RSame r r') (fuel i : Nat) (tgt : List Nat) :
    RSame (step2 fuel i r tgt) (step2 fuel i r' tgt) := by
  induction fuel generalizing i r r' tgt with
  | zero => exact h
  | succ fuel ih =>
    unfold SwapStore.step2
    cases hj : tgt[i]? with
    | none => exact h
    | some j =>
      simp only
      by_cases hji : j = i
      · rw [if_pos hji, if_pos hji]; exact ih h _ _
      · rw [if_neg hji, if_neg hji]
        apply ih
        obtain ⟨hh, ht, hp, hl⟩ := h
        exact ⟨hh, by show swapIdx _ _ _ = swapIdx _ _ _; rw [ht],
          by show swapIdx _ _ _ = swapIdx _ _ _; rw [hp],
          by show swapIdx _ _ _ = swapIdx _ _ _; rw [hl]⟩

/-- the state before the write-back -/
def tailPre (pl : OrderPlan) (r1 : RState) (seq1 : List Nat) : RState :=
  if pl.fromNe.length = pl.n then r1
  else step2 (pl.n * pl.n + pl.n) 0 r1 ((pl.fromNe.zip seq1).foldl (fun t p => t.set p.1 p.2) pl.target)

theorem setVarOrderTail_eq (pl : OrderPlan) (r1 : RState) (seq1 : List Nat) :
    setVarOrderTail pl r1 seq1 = (updateLevels (tailPre pl r1 seq1), (tailPre pl r1 seq1).l2v) := rfl

theorem RSame.tailPre {r r' : RState} (h : RSame r r') (pl : OrderPlan) (seq1 : List Nat) :
    RSame (tailPre pl r seq1) (tailPre pl r' seq1) := by
  unfold SwapStore.tailPre
  by_cases hc : pl.fromNe.length = pl.n
  · rw [if_pos hc, if_pos hc]; exact h
  · rw [if_neg hc, if_neg hc]; exact h.step2 _ _ _

theorem RSame.tail {r r' : RState} (h : RSame r r') (pl : OrderPlan) (seq1 : List Nat) :
    Heap.Same (setVarOrderTail pl r seq1).1.h (setVarOrderTail pl r' seq1).1.h ∧
    (setVarOrderTail pl r seq1).1.tables = (setVarOrderTail pl r' seq1).1.tables ∧
    (setVarOrderTail pl r seq1).2 = (setVarOrderTail pl r' seq1).2 := by
  rw [setVarOrderTail_eq, setVarOrderTail_eq]
  have hp := h.tailPre pl seq1
  exact ⟨hp.updateLevels.1, hp.updateLevels.2, hp.2.2.2⟩

/-! ## the invariants and the denotation -/

theorem Inv.of_same {ext : Nat → Nat} {s s' : SStore} (hinv : Inv ext s) (hh : Heap.Same s.h s'.h)
    (ht : s.tables = s'.tables) : Inv ext s' := by
  have et : ∀ p, s'.table p = s.table p := fun p => by unfold SStore.table; rw [ht]
  have es : ∀ k, s'.h.sh k = s.h.sh k := fun k => (hh.sh k).symm
  refine ⟨?_, ?_, ?_, ?_, ?_, ?_⟩
  · intro l i; rw [et, es]; exact hinv.tbl_iff l i
  · intro l; rw [et]; exact hinv.tbl_nodup l
  · intro i n hn k hk
    rw [es] at hn; rw [es]; exact hinv.ordered i n hn k hk
  · intro i n hn; rw [es] at hn; exact hinv.nored i n hn
  · intro i j n hi hj; rw [es] at hi hj; exact hinv.uniq i j n hi hj
  · exact sm_RCx hh (hinv.rc.congr fun j => by rw [sm_live01 hh j])

theorem InvW.of_same {ext : Nat → Nat} {lab : List Nat} {s s' : SStore} (hinv : InvW ext lab s)
    (hh : Heap.Same s.h s'.h) (ht : s.tables = s'.tables) : InvW ext lab s' := by
  have et : ∀ p, s'.table p = s.table p := fun p => by unfold SStore.table; rw [ht]
  have es : ∀ k, s'.h.sh k = s.h.sh k := fun k => (hh.sh k).symm
  refine ⟨?_, hinv.inj, ?_, ?_, ?_, ?_, ?_, ?_, ?_⟩
  · rw [← ht]; exact hinv.len
  · intro p hp i; rw [et, es]; exact hinv.tbl_iff p hp i
  · intro i n hn; rw [es] at hn; exact hinv.live_lab i n hn
  · intro p; rw [et]; exact hinv.tbl_nodup p
  · intro i n hn k hk; rw [es] at hn; rw [es]; exact hinv.closed i n hn k hk
  · intro i n hn; rw [es] at hn; exact hinv.nored i n hn
  · intro i j n hi hj; rw [es] at hi hj; exact hinv.uniq i j n hi hj
  · exact sm_RCx hh (hinv.rc.congr fun j => by rw [sm_live01 hh j])

theorem Denotes.of_same {h h' : Heap} (hs : Heap.Same h h') {x : Edge} {t : BDD}
    (hd : Denotes h.abs x t) : Denotes h'.abs x t := by
  induction hd with
  | term => exact Denotes.term
  | inner hi _ _ iht ihe =>
    refine Denotes.inner ?_ iht ihe
    rw [abs_get?, ← hs.sh, ← abs_get?]; exact hi

end OxiddModel.Reorder.SwapStore
