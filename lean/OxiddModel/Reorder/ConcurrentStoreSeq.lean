import OxiddModel.Reorder.ConcurrentStore

/-!
# One task run without interruption is `levelSwapG`
-/
namespace OxiddModel.Reorder.SwapStore
open OxiddModel.Bdd OxiddModel.Bdd.Refine OxiddModel.Reorder

theorem table_putLS (r : RState) {u l : Nat} (hul : u ≠ l) (hu : u < r.s.tables.length)
    (hl : l < r.s.tables.length) (st : LS) (p : Nat) :
    (putLS r u l st).s.table p = if p = l then st.lo else if p = u then st.up else r.s.table p :=
  table_setG st.h r.s.tables u l st.up st.lo hul hu hl p

theorem putLS_len (r : RState) (u l : Nat) (st : LS) :
    (putLS r u l st).s.tables.length = r.s.tables.length := by simp [putLS]

theorem lsOf_putLS (r : RState) (t : TaskLoc) (hul : t.u ≠ t.l) (hu : t.u < r.s.tables.length)
    (hl : t.l < r.s.tables.length) (st : LS) : lsOf (putLS r t.u t.l st) t = st := by
  have h1 := table_putLS r hul hu hl st t.u
  have h2 := table_putLS r hul hu hl st t.l
  simp only [hul, if_true, if_false] at h1 h2
  show LS.mk st.h ((putLS r t.u t.l st).s.table t.u) ((putLS r t.u t.l st).s.table t.l) = st
  rw [h1, h2]

theorem putLS_putLS (r : RState) {u l : Nat} (_hul : u ≠ l) (st st' : LS) :
    putLS (putLS r u l st) u l st' = putLS r u l st' := by
  simp only [putLS]
  congr 2
  apply List.ext_getElem?
  intro k
  simp only [List.getElem?_set, List.length_set]
  by_cases h1 : l = k <;> by_cases h2 : u = k <;> simp [h1, h2]

theorem foldl_tNode (r : RState) (t : TaskLoc) (hul : t.u ≠ t.l) (hu : t.u < r.s.tables.length)
    (hl : t.l < r.s.tables.length) (order : List Nat) (st : LS) :
    order.foldl (fun r i => tNode r t i) (putLS r t.u t.l st) =
      putLS r t.u t.l (levelSwapLoop t.al t.up t.lp t.old order st) := by
  unfold levelSwapLoop
  induction order generalizing st with
  | nil => rfl
  | cons i rest ih =>
    simp only [List.foldl_cons]
    have : tNode (putLS r t.u t.l st) t i = putLS r t.u t.l (stepNode t.al t.up t.lp t.old st i) := by
      unfold tNode
      rw [lsOf_putLS r t hul hu hl, putLS_putLS r hul]
    rw [this, ih]

theorem foldl_tDrop (r : RState) (l : List Nat) :
    l.foldl tDrop r = { r with s := ⟨dropOld r.s.h l, r.s.tables⟩ } := by
  unfold dropOld
  induction l generalizing r with
  | nil => rfl
  | cons j rest ih => simp only [List.foldl_cons]; rw [ih]; rfl

/-- **an uninterrupted task is `level_swap` + the closure's bookkeeping** -/
theorem runTask_eq (al : Heap → Nat) (ord : List Nat → List Nat) (r : RState) {u l : Nat}
    (hul : u ≠ l) (hu : u < r.s.tables.length) (hl : l < r.s.tables.length) :
    runTask r u l al (ord (r.s.table u)) = levelSwapG al ord r u l := by
  unfold runTask
  simp only []
  have hb : (tBegin r u l al (ord (r.s.table u))).1 = putLS r u l ⟨r.s.h, r.s.table l, []⟩ := rfl
  rw [hb]
  have := foldl_tNode r (tBegin r u l al (ord (r.s.table u))).2 hul hu hl (ord (r.s.table u))
    ⟨r.s.h, r.s.table l, []⟩
  simp only [tBegin] at this ⊢
  rw [this, foldl_tDrop]
  simp only [tEnd, putLS, levelSwapG, levelSwapS]

end OxiddModel.Reorder.SwapStore
