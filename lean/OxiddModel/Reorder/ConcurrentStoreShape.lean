import OxiddModel.Reorder.ConcurrentStoreLock

/-!
# Shape effect of the pieces of the loop body (one heap, no invariant)

Code-level facts about `moveLS`, `rewPre`, `orphanLS` on the shape function `Heap.sh`, used to
track parent edges under interleaving. `sh_dropTableEdge` is in `ConcurrentStoreLock.lean`.
-/
namespace OxiddModel.Reorder.SwapStore
open OxiddModel.Bdd OxiddModel.Bdd.Refine

/-- what `mkChild … x y` returns: the reduced edge, or an entry of `old`/`lo` with children
`(x, y)` -/
def MkS (sh : Nat → Option Node) (old lo : List Nat) (x y c : Edge) : Prop :=
  (x = y ∧ c = x) ∨
    (x ≠ y ∧ ∃ q l, (q ∈ old ∨ q ∈ lo) ∧ c = .inner q ∧ sh q = some ⟨l, x, y⟩)

theorem MkS.mono {sh sh' : Nat → Option Node} {old lo lo' : List Nat} {x y c : Edge}
    (h : MkS sh old lo x y c) (hs : ∀ q l, sh q = some ⟨l, x, y⟩ → sh' q = some ⟨l, x, y⟩)
    (hl : ∀ k ∈ lo, k ∈ lo') : MkS sh' old lo' x y c := by
  rcases h with h | ⟨hne, q, l, hq, hc, hsq⟩
  · exact Or.inl h
  · exact Or.inr ⟨hne, q, l, hq.imp id (hl q), hc, hs q l hsq⟩

/-- the witness is not the slot `i` if `i`'s entry does not have the children `(x, y)` -/
theorem MkS.of_upd {sh : Nat → Option Node} {i : Nat} {o : Option Node} {old lo : List Nat}
    {x y c : Edge} (h : MkS (SwapStore.upd sh i o) old lo x y c)
    (ho : ∀ l, o ≠ some ⟨l, x, y⟩) : MkS sh old lo x y c := by
  rcases h with h | ⟨hne, q, l, hq, hc, hsq⟩
  · exact Or.inl h
  · refine Or.inr ⟨hne, q, l, hq, hc, ?_⟩
    by_cases hqi : q = i
    · subst hqi; rw [upd_same] at hsq; exact absurd hsq (ho l)
    · rwa [upd_ne _ _ hqi] at hsq

theorem tblInsert_mem (h : Heap) (tbl : List Nat) (i : Nat) :
    (∀ k ∈ (tblInsert h tbl i).2, k ∈ tbl ∨ k = i) ∧ (∀ k ∈ tbl, k ∈ (tblInsert h tbl i).2) := by
  unfold tblInsert
  cases h.get? i with
  | none => exact ⟨fun k hk => Or.inl hk, fun k hk => hk⟩
  | some n =>
    simp only
    cases lookup h tbl n.t n.e with
    | some j => exact ⟨fun k hk => Or.inl hk, fun k hk => hk⟩
    | none =>
      refine ⟨fun k hk => ?_, fun k hk => List.mem_cons_of_mem _ hk⟩
      rcases List.mem_cons.mp hk with h | h
      · exact Or.inr h
      · exact Or.inl h

theorem moveLS_shape (st : LS) (i : Nat) :
    (moveLS st i).h.sh = st.h.sh ∧ (moveLS st i).up = st.up ∧
    (∀ k ∈ (moveLS st i).lo, k ∈ st.lo ∨ k = i) ∧ (∀ k ∈ st.lo, k ∈ (moveLS st i).lo) := by
  refine ⟨?_, rfl, (tblInsert_mem _ _ _).1, (tblInsert_mem _ _ _).2⟩
  show (tblInsert (incRc st.h (.inner i)) st.lo i).1.sh = _
  rw [sh_tblInsert, sh_incRc]

/-! ## `mkChild` -/

theorem mkChild_shape {al : Heap → Nat} (hok : AllocOK al) (a : Nat) (old : List Nat) (h : Heap)
    (lo : List Nat) (x y : Edge) :
    MkS (mkChild al a old (h, lo) x y).1.1.sh old (mkChild al a old (h, lo) x y).1.2 x y
      (mkChild al a old (h, lo) x y).2 ∧
    (∀ k, (mkChild al a old (h, lo) x y).1.1.sh k = h.sh k ∨
      (h.sh k = none ∧ k ∈ (mkChild al a old (h, lo) x y).1.2 ∧
        (mkChild al a old (h, lo) x y).1.1.sh k = some ⟨a, x, y⟩)) ∧
    (∀ k ∈ (mkChild al a old (h, lo) x y).1.2, k ∈ lo ∨ h.sh k = none) ∧
    (∀ k ∈ lo, k ∈ (mkChild al a old (h, lo) x y).1.2) := by
  have hh1 : (incRc (incRc h x) y).sh = h.sh := by rw [sh_incRc, sh_incRc]
  simp only [mkChild]
  have hal := hok (incRc (incRc h x) y)
  generalize incRc (incRc h x) y = h1 at hh1 hal ⊢
  by_cases hxy : x = y
  · simp only [hxy, ↓reduceIte]
    refine ⟨Or.inl ⟨rfl, rfl⟩, fun k => Or.inl ?_, fun k hk => Or.inl hk, fun k hk => hk⟩
    rw [sh_decRc, hh1]
  · simp only [hxy, ↓reduceIte]
    have hd : ∀ j, (incRc (decRc (decRc h1 x) y) (.inner j)).sh = h.sh := by
      intro j; rw [sh_incRc, sh_decRc, sh_decRc, hh1]
    cases hl : lookup h1 old x y with
    | some j =>
      simp only
      obtain ⟨hj, l, hs⟩ := lookup_some hl
      rw [hd]
      rw [hh1] at hs
      exact ⟨Or.inr ⟨hxy, j, l, Or.inl hj, rfl, hs⟩, fun k => Or.inl rfl,
        fun k hk => Or.inl hk, fun k hk => hk⟩
    | none =>
      simp only
      cases hl2 : lookup h1 lo x y with
      | some j =>
        simp only
        obtain ⟨hj, l, hs⟩ := lookup_some hl2
        rw [hd]
        rw [hh1] at hs
        exact ⟨Or.inr ⟨hxy, j, l, Or.inr hj, rfl, hs⟩, fun k => Or.inl rfl,
          fun k hk => Or.inl hk, fun k hk => hk⟩
      | none =>
        simp only
        have hfree : h.sh (al h1) = none := by rw [← hh1]; exact sh_eq_none.mpr hal
        have hput : ∀ k, (h1.put (al h1) (some ⟨a, x, y, 2⟩)).sh k =
            if k = al h1 then some ⟨a, x, y⟩ else h.sh k := by
          intro k; rw [sh_put, hh1]; rfl
        refine ⟨Or.inr ⟨hxy, al h1, a, Or.inr (List.mem_cons_self ..), rfl, ?_⟩, fun k => ?_,
          fun k hk => ?_, fun k hk => List.mem_cons_of_mem _ hk⟩
        · rw [hput, if_pos rfl]
        · rw [hput]
          by_cases hk : k = al h1
          · subst hk
            exact Or.inr ⟨hfree, List.mem_cons_self .., by rw [if_pos rfl]⟩
          · rw [if_neg hk]; exact Or.inl rfl
        · rcases List.mem_cons.mp hk with h' | h'
          · rw [h']; exact Or.inr hfree
          · exact Or.inl h'

/-! ## `rewPre` -/

/-- general form: the two `MkS` clauses talk about the shape *at the time of the lookups*, which
is the final shape with the slot `i` put back to its entry shape -/
theorem rewPre_shape' {al : Heap → Nat} (hok : AllocOK al) {a b : Nat} {old : List Nat} {st : LS}
    {i : Nat} {m : SNode} (hm : st.h.get? i = some m) :
    let s5 := rewPre al a b old st i m.t m.e
    let gt := cofE st.h b m.t
    let ge := cofE st.h b m.e
    let shm := SwapStore.upd s5.h.sh i (st.h.sh i)
    (∃ c1 c2, s5.h.sh i = some ⟨b, c1, c2⟩ ∧ MkS shm old s5.lo gt.1 ge.1 c1 ∧
        MkS shm old s5.lo gt.2 ge.2 c2) ∧
    (∀ k, k ≠ i → s5.h.sh k = st.h.sh k ∨
        (st.h.sh k = none ∧ k ∈ s5.lo ∧
          (s5.h.sh k = some ⟨a, gt.1, ge.1⟩ ∨ s5.h.sh k = some ⟨a, gt.2, ge.2⟩))) ∧
    (∀ k ∈ s5.lo, k ∈ st.lo ∨ st.h.sh k = none) ∧ (∀ k ∈ st.lo, k ∈ s5.lo) ∧
    (∀ k ∈ s5.up, k ∈ st.up ∨ k = i) ∧ (∀ k ∈ st.up, k ∈ s5.up) := by
  have hsi : st.h.sh i = some m.toNode := by simp [Heap.sh, hm]
  simp only [rewPre]
  generalize cofE st.h b m.t = gt
  generalize cofE st.h b m.e = ge
  obtain ⟨m0, f0, l0, l0'⟩ := mkChild_shape hok a old st.h st.lo gt.1 ge.1
  generalize mkChild al a old (st.h, st.lo) gt.1 ge.1 = r0 at m0 f0 l0 l0' ⊢
  obtain ⟨⟨H1, L1⟩, c1⟩ := r0
  simp only at m0 f0 l0 l0' ⊢
  obtain ⟨m1, f1, l1, l1'⟩ := mkChild_shape hok a old H1 L1 gt.2 ge.2
  generalize mkChild al a old (H1, L1) gt.2 ge.2 = r1 at m1 f1 l1 l1' ⊢
  obtain ⟨⟨H2, L2⟩, c2⟩ := r1
  simp only at m1 f1 l1 l1' ⊢
  have hH1i : H1.sh i = some m.toNode := by
    rcases f0 i with h | ⟨h, -⟩
    · rw [h, hsi]
    · rw [hsi] at h; cases h
  have hH2i : H2.sh i = some m.toNode := by
    rcases f1 i with h | ⟨h, -⟩
    · rw [h, hH1i]
    · rw [hH1i] at h; cases h
  have hfin : ∀ k, (tblInsert (incRc (setLevel (setChildE (setChildT H2 i c1) i c2) i b)
        (.inner i)) st.up i).1.sh k = if k = i then some ⟨b, c1, c2⟩ else H2.sh k := by
    intro k
    rw [sh_tblInsert, sh_incRc, sh_setLevel']
    by_cases hk : k = i
    · subst hk
      rw [if_pos rfl, if_pos rfl, sh_setChildE', if_pos rfl, sh_setChildT', if_pos rfl, hH2i]
      rfl
    · rw [if_neg hk, if_neg hk, sh_setChildE', if_neg hk, sh_setChildT', if_neg hk]
  generalize (tblInsert (incRc (setLevel (setChildE (setChildT H2 i c1) i c2) i b)
        (.inner i)) st.up i).1 = H5 at hfin ⊢
  have hshm : SwapStore.upd H5.sh i (st.h.sh i) = H2.sh := by
    funext k
    by_cases hk : k = i
    · subst hk; rw [upd_same, hH2i, hsi]
    · rw [upd_ne _ _ hk, hfin, if_neg hk]
  rw [hshm]
  have f01 : ∀ q, (H1.sh q).isSome → H2.sh q = H1.sh q := by
    intro q hq
    rcases f1 q with h | ⟨h, -⟩
    · exact h
    · rw [h] at hq; cases hq
  refine ⟨⟨c1, c2, ?_, ?_, m1⟩, ?_, ?_, fun k hk => l1' k (l0' k hk), (tblInsert_mem _ _ _).1,
    (tblInsert_mem _ _ _).2⟩
  · rw [hfin, if_pos rfl]
  · exact m0.mono (fun q l hq => by rw [f01 q (by rw [hq]; rfl)]; exact hq) l1'
  · intro k hk
    rw [hfin, if_neg hk]
    rcases f0 k with h0 | ⟨h0, h0l, h0s⟩
    · rcases f1 k with h1 | ⟨h1, h1l, h1s⟩
      · exact Or.inl (h1.trans h0)
      · exact Or.inr ⟨h0 ▸ h1, h1l, Or.inr h1s⟩
    · have := f01 k (by rw [h0s]; rfl)
      exact Or.inr ⟨h0, l1' k h0l, Or.inl (this.trans h0s)⟩
  · intro k hk
    rcases l1 k hk with h | h
    · exact l0 k h
    · rcases f0 k with h0 | ⟨h0, -⟩
      · exact Or.inr (h0 ▸ h)
      · exact Or.inr h0

/-- `hq1`/`hq2`: the entry `i` does not itself have one of the two looked-up child pairs (then
`old_upper.get`/`get_or_insert` cannot return `i`, whose shape is overwritten afterwards); holds
in the rewrite branch when the children of a level-`b` node are not the node itself -/
theorem rewPre_shape {al : Heap → Nat} (hok : AllocOK al) {a b : Nat} {old : List Nat} {st : LS}
    {i : Nat} {m : SNode} (hm : st.h.get? i = some m)
    (hq1 : ¬ (m.t = (cofE st.h b m.t).1 ∧ m.e = (cofE st.h b m.e).1))
    (hq2 : ¬ (m.t = (cofE st.h b m.t).2 ∧ m.e = (cofE st.h b m.e).2)) :
    let s5 := rewPre al a b old st i m.t m.e
    let gt := cofE st.h b m.t
    let ge := cofE st.h b m.e
    (∃ c1 c2, s5.h.sh i = some ⟨b, c1, c2⟩ ∧ MkS s5.h.sh old s5.lo gt.1 ge.1 c1 ∧
        MkS s5.h.sh old s5.lo gt.2 ge.2 c2) ∧
    (∀ k, k ≠ i → s5.h.sh k = st.h.sh k ∨
        (st.h.sh k = none ∧ k ∈ s5.lo ∧
          (s5.h.sh k = some ⟨a, gt.1, ge.1⟩ ∨ s5.h.sh k = some ⟨a, gt.2, ge.2⟩))) ∧
    (∀ k ∈ s5.lo, k ∈ st.lo ∨ st.h.sh k = none) ∧ (∀ k ∈ st.lo, k ∈ s5.lo) ∧
    (∀ k ∈ s5.up, k ∈ st.up ∨ k = i) ∧ (∀ k ∈ st.up, k ∈ s5.up) := by
  have hsi : st.h.sh i = some m.toNode := by simp [Heap.sh, hm]
  obtain ⟨⟨c1, c2, hs, h1, h2⟩, rest⟩ := rewPre_shape' hok (a := a) (b := b) (old := old) hm
  refine ⟨⟨c1, c2, hs, h1.of_upd ?_, h2.of_upd ?_⟩, rest⟩
  · intro l he
    rw [hsi] at he
    simp only [SNode.toNode, Option.some.injEq, Node.mk.injEq] at he
    exact hq1 ⟨he.2.1, he.2.2⟩
  · intro l he
    rw [hsi] at he
    simp only [SNode.toNode, Option.some.injEq, Node.mk.injEq] at he
    exact hq2 ⟨he.2.1, he.2.2⟩

/-! ## `orphanLS` -/

/-- general form: an entry that leaves the upper table is the one found by `remove`; it is freed
iff its own counter is 1 -/
theorem orphanLS_shape' (b : Nat) (st : LS) (c : Edge) :
    let s' := orphanLS b st c
    s'.lo = st.lo ∧ (∀ k ∈ s'.up, k ∈ st.up) ∧
    (∀ k, s'.h.sh k = st.h.sh k ∨
      (s'.h.sh k = none ∧ k ∈ st.up ∧ ∃ j m n, c = .inner j ∧ st.h.sh j = some m ∧ m.level = b ∧
         st.h.rcOf j = 1 ∧ st.h.sh k = some n ∧ n.t = m.t ∧ n.e = m.e)) ∧
    (∀ k ∈ st.up, k ∈ s'.up ∨
      ∃ j m n, c = .inner j ∧ st.h.sh j = some m ∧ m.level = b ∧ st.h.rcOf j = 1 ∧
        st.h.sh k = some n ∧ n.t = m.t ∧ n.e = m.e ∧ (st.h.rcOf k = 1 → s'.h.sh k = none)) := by
  simp only [orphanLS]
  cases c with
  | term v => exact ⟨trivial, fun k hk => hk, fun k => Or.inl rfl, fun k hk => Or.inl hk⟩
  | inner j =>
    unfold orphan
    simp only
    cases hj : st.h.get? j with
    | none => exact ⟨trivial, fun k hk => hk, fun k => Or.inl rfl, fun k hk => Or.inl hk⟩
    | some m =>
      simp only
      by_cases ht : m.level = b ∧ m.rc = 1
      · rw [if_pos ht]
        unfold tblRemove
        cases hl : lookup st.h st.up m.t m.e with
        | none => exact ⟨trivial, fun k hk => hk, fun k => Or.inl rfl, fun k hk => Or.inl hk⟩
        | some q =>
          simp only
          obtain ⟨hq, l, hsq⟩ := lookup_some hl
          have hsj : st.h.sh j = some m.toNode := by simp [Heap.sh, hj]
          have hrc : st.h.rcOf j = 1 := by rw [rcOf_of_get? hj]; exact ht.2
          refine ⟨trivial, fun k hk => List.mem_of_mem_erase hk, fun k => ?_, fun k hk => ?_⟩
          · rcases sh_dropTableEdge st.h q k with h | ⟨h, hk, -⟩
            · exact Or.inl h
            · subst hk
              exact Or.inr ⟨h, hq, j, m.toNode, _, rfl, hsj, ht.1, hrc, hsq, rfl, rfl⟩
          · by_cases hkq : k = q
            · subst hkq
              refine Or.inr ⟨j, m.toNode, _, rfl, hsj, ht.1, hrc, hsq, rfl, rfl, fun h1 => ?_⟩
              rw [sh_dropTableEdge', if_pos ⟨rfl, h1⟩]
            · exact Or.inl ((List.mem_erase_of_ne hkq).mpr hk)
      · rw [if_neg ht]
        exact ⟨trivial, fun k hk => hk, fun k => Or.inl rfl, fun k hk => Or.inl hk⟩

/-- `huniq`: a table entry equal to the orphan also has counter 1 (in the real store it *is* the
orphan, by uniqueness of the table) -/
theorem orphanLS_shape (b : Nat) (st : LS) (c : Edge)
    (huniq : ∀ j m k n, c = .inner j → st.h.sh j = some m → m.level = b → st.h.rcOf j = 1 →
      k ∈ st.up → st.h.sh k = some n → n.t = m.t → n.e = m.e → st.h.rcOf k = 1) :
    let s' := orphanLS b st c
    s'.lo = st.lo ∧ (∀ k ∈ s'.up, k ∈ st.up) ∧
    (∀ k, s'.h.sh k = st.h.sh k ∨
      (s'.h.sh k = none ∧ k ∈ st.up ∧ ∃ j m n, c = .inner j ∧ st.h.sh j = some m ∧ m.level = b ∧
         st.h.rcOf j = 1 ∧ st.h.sh k = some n ∧ n.t = m.t ∧ n.e = m.e)) ∧
    (∀ k ∈ st.up, k ∈ s'.up ∨ s'.h.sh k = none) := by
  obtain ⟨h1, h2, h3, h4⟩ := orphanLS_shape' b st c
  refine ⟨h1, h2, h3, fun k hk => ?_⟩
  rcases h4 k hk with h | ⟨j, m, n, hc, hsj, hl, hrc, hsk, ht, he, hfree⟩
  · exact Or.inl h
  · exact Or.inr (hfree (huniq j m k n hc hsj hl hrc hk hsk ht he))

end OxiddModel.Reorder.SwapStore
