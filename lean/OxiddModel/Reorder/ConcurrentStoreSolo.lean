import OxiddModel.Reorder.ConcurrentStoreOverlay
import OxiddModel.Reorder.ConcurrentStoreLock
import OxiddModel.Reorder.ConcurrentStoreShape

/-!
# The solo run of a running `level_swap` task

`soloLS base t` is the loop state the task `t` would have reached running alone from `base`.
`soloFacts0`: the sequential loop invariant holds for it (for a *prefix* of the iteration order and
a prefix of `drop(old_upper)`), it changes shapes only inside the task's region, and the own live
slots are exactly what the two tables and the taken view account for.
-/
namespace OxiddModel.Reorder.SwapStore
open OxiddModel.Bdd OxiddModel.Bdd.Refine OxiddModel.Reorder

/-! ## the loop state of the solo run -/

/-- the solo run up to the end of the loop part done so far -/
def soloLoop (base : RState) (t : Running) : LS :=
  levelSwapLoop t.loc.al t.loc.up t.loc.lp t.loc.old t.doneN ⟨base.s.h, base.s.table t.loc.l, []⟩

theorem soloLS_eq (base : RState) (t : Running) :
    soloLS base t = { soloLoop base t with h := dropOld (soloLoop base t).h t.doneD } := rfl

theorem soloLS_up (base : RState) (t : Running) : (soloLS base t).up = (soloLoop base t).up := rfl
theorem soloLS_lo (base : RState) (t : Running) : (soloLS base t).lo = (soloLoop base t).lo := rfl

/-- the solo state after one more loop iteration -/
theorem soloLS_node (base : RState) (t : Running) (k : Nat) (rest : List Nat) (hd : t.doneD = []) :
    soloLS base { t with loc := { t.loc with todo := rest }, doneN := t.doneN ++ [k] } =
      stepNode t.loc.al t.loc.up t.loc.lp t.loc.old (soloLS base t) k := by
  simp only [soloLS, hd, dropOld, List.foldl_nil, levelSwapLoop, List.foldl_append, List.foldl_cons]

/-- the solo state after one more released entry -/
theorem soloLS_drop (base : RState) (t : Running) (j : Nat) (rest : List Nat) :
    soloLS base { t with loc := { t.loc with drops := rest }, doneD := t.doneD ++ [j] } =
      { soloLS base t with h := dropTableEdge (soloLS base t).h j } := by
  simp only [soloLS, dropOld, List.foldl_append, List.foldl_cons, List.foldl_nil]

/-! ## the sequential invariant for a prefix of the run -/

section
variable {a b : Nat} {P : Nat → Prop} {sh0 : Nat → Option Node} {old : List Nat} {ext : Nat → Nat}

theorem levelSwapLoop_prefix {al : Heap → Nat} (hal : AllocOK al)
    (hp : Pre a b P sh0 old) {R : Nat → Nat} (hR : ∀ k, ext k ≤ R k) (done todo : List Nat) {st : LS}
    (hinv : LInv a b P sh0 old ext R st (done ++ todo)) :
    LInv a b P sh0 old ext R (levelSwapLoop al a b old done st) todo := by
  unfold levelSwapLoop
  induction done generalizing st with
  | nil => exact hinv
  | cons i rest ih => exact ih (stepNode_spec hal hp hR hinv)

end

/-- the invariant at loop entry (as in `levelSwapG_res`) -/
theorem linv_init {ext : Nat → Nat} {lab : List Nat} {pos : Nat → Nat} {s : SStore} {u l : Nat}
    {ord : List Nat → List Nat} (hord : OrderOK ord) (hinv : InvL ext lab pos s) (hul : u < l)
    (hl : l < lab.length) (hgap : ∀ p, u < p → p < l → s.table p = []) :
    LInv (lab.getD u 0) (lab.getD l 0) (BelowL pos l) s.h.sh (s.table u) ext
      (fun k => (s.table u).count k + othG (lab.getD u 0) (lab.getD l 0) s.h.sh k + ext k)
      ⟨s.h, s.table l, []⟩ (ord (s.table u)) := by
  have hu : u < lab.length := by omega
  have hp := hinv.pre hul hl hgap
  have hperm := hord (s.table u)
  exact
    { j := J.init hp (hinv.tbl_iff l hl) (hinv.tbl_nodup l) (fun i => hperm.mem_iff)
        (hperm.nodup_iff.mpr (hinv.tbl_nodup u))
      rc := by
        refine hinv.rc.congr (fun k => ?_)
        simp only [wOf, List.count_nil, hinv.count_table hl, hinv.count_table hu, othG, live01]
        have hab := hp.ab
        generalize lab.getD u 0 = a at hab ⊢
        generalize lab.getD l 0 = b at hab ⊢
        cases hs : s.h.sh k with
        | none => simp
        | some n =>
          simp only [Option.isSome_some, if_true]
          by_cases h1 : n.level = a
          · simp [h1, hab]
          · by_cases h2 : n.level = b
            · simp [h2, Ne.symm hab]
            · simp [h1, h2] }

section
variable {ext : Nat → Nat} {pos : Nat → Nat} {base : RState} {t : Running}

theorem solo_pre (hinv : InvL ext base.toPre pos base.s) (hok : TaskOK base t) :
    Pre t.loc.up t.loc.lp (BelowL pos t.loc.l) base.s.h.sh t.loc.old := by
  rw [hok.up_eq, hok.lp_eq, hok.old_eq]
  exact hinv.pre hok.ul hok.llen hok.gap

/-- the invariant after the loop part of the solo run -/
theorem soloLoop_linv (hinv : InvL ext base.toPre pos base.s) (hok : TaskOK base t) :
    LInv t.loc.up t.loc.lp (BelowL pos t.loc.l) base.s.h.sh t.loc.old ext
      (fun k => t.loc.old.count k + othG t.loc.up t.loc.lp base.s.h.sh k + ext k)
      (soloLoop base t) t.loc.todo := by
  have h0 := linv_init hok.ordok hinv hok.ul hok.llen hok.gap
  rw [← hok.old_eq, ← hok.up_eq, ← hok.lp_eq, ← hok.order] at h0
  exact levelSwapLoop_prefix hok.alok (solo_pre hinv hok) (fun k => by omega) _ _ h0

/-- `drop(old_upper)` so far has freed nothing -/
theorem soloLS_drop_spec (hinv : InvL ext base.toPre pos base.s) (hok : TaskOK base t) :
    (soloLS base t).h.sh = (soloLoop base t).h.sh ∧
    RCx (fun k => (soloLoop base t).up.count k + (soloLoop base t).lo.count k +
      (t.loc.drops.count k + othG t.loc.up t.loc.lp base.s.h.sh k + ext k)) (soloLS base t).h := by
  have hl := soloLoop_linv hinv hok
  have hJ := hl.j
  have hcnt : ∀ k, t.loc.old.count k = t.doneD.count k + t.loc.drops.count k := by
    intro k; rw [← hok.drops, List.count_append]
  refine dropOld_spec (w := fun k => (soloLoop base t).up.count k + (soloLoop base t).lo.count k +
      (t.loc.drops.count k + othG t.loc.up t.loc.lp base.s.h.sh k + ext k)) t.doneD
    (hl.rc.congr (fun k => by simp only [wOf]; have := hcnt k; omega)) ?_
  intro j hj
  have htodo : t.loc.todo = [] := by
    apply Classical.byContradiction
    intro h
    rw [hok.phase h] at hj; cases hj
  have hjo : j ∈ t.loc.old := by rw [← hok.drops]; exact List.mem_append_left _ hj
  rcases hJ.oldC j hjo with h | h | h
  · rw [htodo] at h; cases h
  · have : 0 < (soloLoop base t).lo.count j := List.count_pos_iff.mpr h
    show 0 < _; omega
  · have : 0 < (soloLoop base t).up.count j := List.count_pos_iff.mpr h
    show 0 < _; omega

theorem solo_linv (hinv : InvL ext base.toPre pos base.s) (hok : TaskOK base t) :
    LInv t.loc.up t.loc.lp (BelowL pos t.loc.l) base.s.h.sh t.loc.old ext
      (fun k => t.loc.drops.count k + othG t.loc.up t.loc.lp base.s.h.sh k + ext k)
      (soloLS base t) t.loc.todo := by
  obtain ⟨hsh, hrc⟩ := soloLS_drop_spec hinv hok
  refine ⟨?_, ?_⟩
  · rw [hsh]; exact (soloLoop_linv hinv hok).j
  · exact hrc

end

/-! ## the footprint of the solo run -/

/-- foreign shapes are those of the entry state and the two tables lie inside the region -/
structure FrInv (reg : Nat → Bool) (sh0 : Nat → Option Node) (st : LS) : Prop where
  fr : ∀ k, reg k = false → st.h.sh k = sh0 k
  up : ∀ k ∈ st.up, reg k = true
  lo : ∀ k ∈ st.lo, reg k = true

theorem orphanLS_fr {reg : Nat → Bool} {sh0 : Nat → Option Node} {st : LS} (b : Nat) (c : Edge)
    (h : FrInv reg sh0 st) : FrInv reg sh0 (orphanLS b st c) := by
  obtain ⟨h1, h2, h3, _⟩ := orphanLS_shape' b st c
  refine ⟨fun k hk => ?_, fun k hk => h.up k (h2 k hk), fun k hk => h.lo k (h1 ▸ hk)⟩
  rcases h3 k with e | ⟨_, hku, _⟩
  · rw [e]; exact h.fr k hk
  · have := h.up k hku; rw [hk] at this; cases this

theorem stepNode_fr {reg : Nat → Bool} {al : Heap → Nat} {a b : Nat} {old : List Nat}
    {sh0 : Nat → Option Node} {st : LS} {i : Nat} (hal : AllocLocal reg al)
    (hlbl : ∀ k n, reg k = false → sh0 k = some n → n.level ≠ b)
    (hold : ∀ k ∈ old, reg k = true) (hi : reg i = true) (h : FrInv reg sh0 st) :
    FrInv reg sh0 (stepNode al a b old st i) := by
  have hl : ∀ k n, reg k = false → st.h.sh k = some n → n.level ≠ b :=
    fun k n hk hs => hlbl k n hk (by rw [← h.fr k hk]; exact hs)
  have hag : Agree reg b st.h st.h := ⟨fun _ _ => rfl, hl, hl⟩
  rw [stepNode_eq]
  cases hm : st.h.get? i with
  | none => exact h
  | some n =>
    simp only
    split
    · obtain ⟨m1, m2, m3, _⟩ := moveLS_shape st i
      refine ⟨fun k hk => by rw [m1]; exact h.fr k hk, fun k hk => h.up k (m2 ▸ hk), fun k hk => ?_⟩
      rcases m3 k hk with h' | h'
      · exact h.lo k h'
      · rw [h']; exact hi
    · obtain ⟨-, -, -, -, f5, u5, l5⟩ := rewPre_lock (H := st.h) (S := st.h) (U := st.up)
        (L := st.lo) (up := a) (i := i) n.t n.e hal hag hi hold h.up h.lo
      have h5 : FrInv reg sh0 (rewPre al a b old st i n.t n.e) :=
        ⟨fun k hk => (f5 k hk).trans (h.fr k hk), u5, l5⟩
      split
      · exact orphanLS_fr b n.t h5
      · exact orphanLS_fr b n.e (orphanLS_fr b n.t h5)

theorem levelSwapLoop_fr {reg : Nat → Bool} {al : Heap → Nat} {a b : Nat} {old : List Nat}
    {sh0 : Nat → Option Node} (hal : AllocLocal reg al)
    (hlbl : ∀ k n, reg k = false → sh0 k = some n → n.level ≠ b)
    (hold : ∀ k ∈ old, reg k = true) (done : List Nat) (hdone : ∀ i ∈ done, reg i = true) {st : LS}
    (h : FrInv reg sh0 st) : FrInv reg sh0 (levelSwapLoop al a b old done st) := by
  unfold levelSwapLoop
  induction done generalizing st with
  | nil => exact h
  | cons i rest ih =>
    exact ih (fun k hk => hdone k (List.mem_cons_of_mem _ hk))
      (stepNode_fr hal hlbl hold (hdone i (List.mem_cons_self ..)) h)

/-! ## the region of a task -/

theorem Running.reg_old {t : Running} {k : Nat} (hk : k ∈ t.loc.old) : t.reg k = true := by
  simp [Running.reg, hk]

theorem Running.reg_low {t : Running} {k : Nat} (hk : k ∈ t.loc.low0) : t.reg k = true := by
  simp [Running.reg, hk]

theorem Running.reg_cases {t : Running} {k : Nat} (hk : t.reg k = true) :
    k ∈ t.loc.old ∨ k ∈ t.loc.low0 ∨ t.pool k = true := by
  simpa [Running.reg, or_assoc] using hk

section
variable {ext : Nat → Nat} {pos : Nat → Nat} {base : RState} {t : Running}

theorem TaskOK.doneN_old (hok : TaskOK base t) {i : Nat} (hi : i ∈ t.doneN) : i ∈ t.loc.old := by
  have : i ∈ t.ord t.loc.old := by rw [← hok.order]; exact List.mem_append_left _ hi
  exact (hok.ordok t.loc.old).mem_iff.mp this

theorem TaskOK.todo_old (hok : TaskOK base t) {i : Nat} (hi : i ∈ t.loc.todo) : i ∈ t.loc.old := by
  have : i ∈ t.ord t.loc.old := by rw [← hok.order]; exact List.mem_append_right _ hi
  exact (hok.ordok t.loc.old).mem_iff.mp this

/-- foreign slots of `base` carry none of the two labels -/
theorem solo_foreign_lbl (hinv : InvL ext base.toPre pos base.s) (hok : TaskOK base t)
    (k : Nat) (n : Node) (hk : t.reg k = false) (hn : base.s.h.sh k = some n) :
    n.level ≠ t.loc.up ∧ n.level ≠ t.loc.lp := by
  have hu : t.loc.u < base.toPre.length := Nat.lt_trans hok.ul hok.llen
  constructor
  · intro hl
    have : k ∈ t.loc.old := by
      rw [hok.old_eq]; exact (hinv.tbl_iff _ hu k).mpr ⟨n, hn, hl.trans hok.up_eq⟩
    rw [Running.reg_old this] at hk; cases hk
  · intro hl
    have : k ∈ t.loc.low0 := by
      rw [hok.low_eq]; exact (hinv.tbl_iff _ hok.llen k).mpr ⟨n, hn, hl.trans hok.lp_eq⟩
    rw [Running.reg_low this] at hk; cases hk

/-- own slots of `base` carry one of the two labels -/
theorem solo_own_base (hinv : InvL ext base.toPre pos base.s) (hok : TaskOK base t)
    (k : Nat) (n : Node) (hk : t.reg k = true) (hn : base.s.h.sh k = some n) :
    n.level = t.loc.up ∨ n.level = t.loc.lp := by
  have hu : t.loc.u < base.toPre.length := Nat.lt_trans hok.ul hok.llen
  rcases Running.reg_cases hk with h | h | h
  · rw [hok.old_eq] at h
    obtain ⟨n', hn', hl⟩ := (hinv.tbl_iff _ hu k).mp h
    rw [hn] at hn'; cases hn'; exact Or.inl (hl.trans hok.up_eq.symm)
  · rw [hok.low_eq] at h
    obtain ⟨n', hn', hl⟩ := (hinv.tbl_iff _ hok.llen k).mp h
    rw [hn] at hn'; cases hn'; exact Or.inr (hl.trans hok.lp_eq.symm)
  · rw [hok.poolfree k h] at hn; cases hn

theorem soloLoop_fr (hinv : InvL ext base.toPre pos base.s) (hok : TaskOK base t) :
    FrInv t.reg base.s.h.sh (soloLoop base t) := by
  refine levelSwapLoop_fr hok.alloc (fun k n hk hn => (solo_foreign_lbl hinv hok k n hk hn).2)
    (fun k hk => Running.reg_old hk) _ (fun i hi => Running.reg_old (hok.doneN_old hi)) ?_
  exact ⟨fun _ _ => rfl, fun k hk => Running.reg_low (by rw [hok.low_eq]; exact hk),
    fun k hk => by cases hk⟩

/-- what we know about the solo run of a task from a state `base` satisfying the lazy store
invariant (all but the parent-edge clause) -/
structure SoloFacts0 (ext : Nat → Nat) (pos : Nat → Nat) (base : RState) (t : Running) : Prop where
  ab : t.loc.up ≠ t.loc.lp
  pre : Pre t.loc.up t.loc.lp (BelowL pos t.loc.l) base.s.h.sh t.loc.old
  /-- the sequential loop invariant (shapes `J` + counters), with the not yet released part of the
  taken view as weight -/
  linv : LInv t.loc.up t.loc.lp (BelowL pos t.loc.l) base.s.h.sh t.loc.old ext
      (fun k => t.loc.drops.count k + othG t.loc.up t.loc.lp base.s.h.sh k + ext k)
      (soloLS base t) t.loc.todo
  /-- a solo run changes shapes only inside its region -/
  frame : ∀ k, t.reg k = false → (soloLS base t).h.sh k = base.s.h.sh k
  up_reg : ∀ k ∈ (soloLS base t).up, t.reg k = true
  lo_reg : ∀ k ∈ (soloLS base t).lo, t.reg k = true
  old_reg : ∀ k ∈ t.loc.old, t.reg k = true
  /-- own live slots carry one of the two labels; foreign slots of `base` none of them -/
  labels : ∀ k n, t.reg k = true → (soloLS base t).h.sh k = some n →
    n.level = t.loc.up ∨ n.level = t.loc.lp
  foreign_lbl : ∀ k n, t.reg k = false → base.s.h.sh k = some n →
    n.level ≠ t.loc.up ∧ n.level ≠ t.loc.lp
  /-- own live slots labelled `lp` are entries of the (new) upper table -/
  lp_up : ∀ k n, t.reg k = true → (soloLS base t).h.sh k = some n → n.level = t.loc.lp →
    k ∈ (soloLS base t).up
  /-- every own live slot is counted at least once (table entry or entry of the taken view) -/
  own_w : ∀ k, t.reg k = true → (soloLS base t).h.sh k ≠ none →
    1 ≤ (soloLS base t).up.count k + (soloLS base t).lo.count k + t.loc.drops.count k
  /-- once the loop is over every entry of the taken view is in one of the two tables -/
  old_cnt : t.loc.todo = [] → ∀ j ∈ t.loc.old,
    1 ≤ (soloLS base t).up.count j + (soloLS base t).lo.count j
  /-- own live slots are unvisited entries or table entries -/
  own_cases : ∀ k, t.reg k = true → (soloLS base t).h.sh k ≠ none →
    k ∈ t.loc.todo ∨ k ∈ (soloLS base t).up ∨ k ∈ (soloLS base t).lo
  /-- `drop(old_upper)` so far has freed nothing -/
  sh_loop : (soloLS base t).h.sh = (soloLoop base t).h.sh

theorem soloFacts0 (hinv : InvL ext base.toPre pos base.s) (hok : TaskOK base t) :
    SoloFacts0 ext pos base t := by
  have hp := solo_pre hinv hok
  have hl := solo_linv hinv hok
  have hJ := hl.j
  have hsh := (soloLS_drop_spec hinv hok).1
  have hfr := soloLoop_fr hinv hok
  have hcases : ∀ k, t.reg k = true → (soloLS base t).h.sh k ≠ none →
      k ∈ t.loc.todo ∨ k ∈ (soloLS base t).up ∨ k ∈ (soloLS base t).lo := by
    intro k hk hs
    rcases hJ.live k hs with ⟨n, hn, h1, h2⟩ | h
    · rcases solo_own_base hinv hok k n hk hn with h | h
      · exact absurd h h1
      · exact absurd h h2
    · exact h
  have hlab : ∀ k n, t.reg k = true → (soloLS base t).h.sh k = some n →
      (n.level = t.loc.up ∧ (k ∈ t.loc.todo ∨ k ∈ (soloLS base t).lo)) ∨
      (n.level = t.loc.lp ∧ k ∈ (soloLS base t).up) := by
    intro k n hk hs
    rcases hcases k hk (by rw [hs]; simp) with h | h | h
    · obtain ⟨n', h1, _, h3⟩ := hJ.todo_live hp h
      rw [hs] at h1; cases h1; exact Or.inl ⟨h3, Or.inl h⟩
    · obtain ⟨x, y, h1⟩ := hJ.up_level h
      rw [hs] at h1; cases h1; exact Or.inr ⟨rfl, h⟩
    · obtain ⟨x, y, h1, _⟩ := hJ.loC k h
      rw [hs] at h1; cases h1; exact Or.inl ⟨rfl, Or.inr h⟩
  refine
    { ab := hp.ab, pre := hp, linv := hl
      frame := fun k hk => by rw [hsh]; exact hfr.fr k hk
      up_reg := hfr.up, lo_reg := hfr.lo
      old_reg := fun k hk => Running.reg_old hk
      labels := fun k n hk hs => (hlab k n hk hs).imp (·.1) (·.1)
      foreign_lbl := solo_foreign_lbl hinv hok
      lp_up := fun k n hk hs hlv => ?_
      own_w := fun k hk hs => ?_
      old_cnt := fun htodo j hj => ?_
      own_cases := hcases
      sh_loop := hsh }
  · rcases hlab k n hk hs with ⟨h, _⟩ | ⟨_, h⟩
    · exact absurd (h.symm.trans hlv) hp.ab
    · exact h
  · rcases hcases k hk hs with h | h | h
    · have hd : t.loc.drops = t.loc.old := by
        have := hok.drops
        rw [hok.phase (fun h' => by rw [h'] at h; cases h)] at this
        exact this
      have : 0 < t.loc.drops.count k := by
        rw [hd]; exact List.count_pos_iff.mpr (hok.todo_old h)
      omega
    · have : 0 < (soloLS base t).up.count k := List.count_pos_iff.mpr h
      omega
    · have : 0 < (soloLS base t).lo.count k := List.count_pos_iff.mpr h
      omega
  · rcases hJ.oldC j hj with h | h | h
    · rw [htodo] at h; cases h
    · have : 0 < (soloLS base t).lo.count j := List.count_pos_iff.mpr h
      omega
    · have : 0 < (soloLS base t).up.count j := List.count_pos_iff.mpr h
      omega

end

/-! ## parent edges from the region into foreign slots: new ⇒ old (code level) -/

theorem cofE_par {reg : Nat → Bool} {h : Heap} {b i j : Nat} {m : SNode}
    (hm : h.get? i = some m) (hi : reg i = true)
    (hl : ∀ k n, reg k = false → h.sh k = some n → n.level ≠ b)
    {c : Edge} (hc : c = m.t ∨ c = m.e)
    (hj : (cofE h b c).1 = .inner j ∨ (cofE h b c).2 = .inner j) : hasPar reg h.sh j := by
  have hsi : h.sh i = some m.toNode := by simp [Heap.sh, hm]
  have hself : c = .inner j → hasPar reg h.sh j := by
    intro hcj
    refine ⟨i, m.toNode, hi, hsi, ?_⟩
    rcases hc with h' | h'
    · exact Or.inl (h'.symm.trans hcj)
    · exact Or.inr (h'.symm.trans hcj)
  rw [cofE_eq] at hj
  cases c with
  | term v => simp [cof0] at hj
  | inner k =>
    cases hk : h.sh k with
    | none =>
      simp only [cof0, hk] at hj
      exact hself (by rcases hj with h' | h' <;> exact h')
    | some mk =>
      by_cases hlv : mk.level = b
      · simp only [cof0, hk, hlv, if_true] at hj
        have hrk : reg k = true := by
          cases hr : reg k with
          | true => rfl
          | false => exact absurd hlv (hl k mk hr hk)
        exact ⟨k, mk, hrk, hk, hj⟩
      · simp only [cof0, hk, hlv, if_false] at hj
        exact hself (by rcases hj with h' | h' <;> exact h')

theorem MkS.foreign {reg : Nat → Bool} {sh : Nat → Option Node} {old lo : List Nat} {x y c : Edge}
    {j : Nat} (h : MkS sh old lo x y c) (hold : ∀ k ∈ old, reg k = true)
    (hlo : ∀ k ∈ lo, reg k = true) (hjf : reg j = false) (hc : c = .inner j) : x = .inner j := by
  rcases h with ⟨_, h2⟩ | ⟨_, q, l, hq, h2, _⟩
  · exact h2.symm.trans hc
  · rw [hc] at h2; injection h2 with h2; subst h2
    have : reg j = true := by rcases hq with h' | h'; exact hold j h'; exact hlo j h'
    rw [hjf] at this; cases this

theorem rewPre_fr {reg : Nat → Bool} {al : Heap → Nat} {a b : Nat} {old : List Nat}
    {sh0 : Nat → Option Node} {st : LS} {i : Nat} (hal : AllocLocal reg al)
    (hlbl : ∀ k n, reg k = false → sh0 k = some n → n.level ≠ b)
    (hold : ∀ k ∈ old, reg k = true) (hi : reg i = true) (h : FrInv reg sh0 st) (x y : Edge) :
    FrInv reg sh0 (rewPre al a b old st i x y) := by
  have hl : ∀ k n, reg k = false → st.h.sh k = some n → n.level ≠ b :=
    fun k n hk hs => hlbl k n hk (by rw [← h.fr k hk]; exact hs)
  have hag : Agree reg b st.h st.h := ⟨fun _ _ => rfl, hl, hl⟩
  obtain ⟨-, -, -, -, f5, u5, l5⟩ := rewPre_lock (H := st.h) (S := st.h) (U := st.up)
    (L := st.lo) (up := a) (i := i) x y hal hag hi hold h.up h.lo
  exact ⟨fun k hk => (f5 k hk).trans (h.fr k hk), u5, l5⟩

theorem rewPre_parback {reg : Nat → Bool} {al : Heap → Nat} {a b : Nat} {old : List Nat} {st : LS}
    {i : Nat} {m : SNode} (hok : AllocOK al) (hm : st.h.get? i = some m) (hi : reg i = true)
    (hl : ∀ k n, reg k = false → st.h.sh k = some n → n.level ≠ b)
    (hold : ∀ k ∈ old, reg k = true)
    (hlo5 : ∀ k ∈ (rewPre al a b old st i m.t m.e).lo, reg k = true)
    {j : Nat} (hjf : reg j = false) (h : hasPar reg (rewPre al a b old st i m.t m.e).h.sh j) :
    hasPar reg st.h.sh j := by
  obtain ⟨⟨c1, c2, hs, m1, m2⟩, hk, _⟩ := rewPre_shape' hok (a := a) (b := b) (old := old) hm
  obtain ⟨p, n, hp, hn, hc⟩ := h
  by_cases hpi : p = i
  · subst hpi
    rw [hs] at hn; cases hn
    rcases hc with hc | hc
    · exact cofE_par hm hi hl (Or.inl rfl) (Or.inl (m1.foreign hold hlo5 hjf hc))
    · exact cofE_par hm hi hl (Or.inl rfl) (Or.inr (m2.foreign hold hlo5 hjf hc))
  · rcases hk p hpi with e | ⟨_, _, e | e⟩
    · exact ⟨p, n, hp, by rw [← e]; exact hn, hc⟩
    · rw [hn] at e; cases e
      rcases hc with hc | hc
      · exact cofE_par hm hi hl (Or.inl rfl) (Or.inl hc)
      · exact cofE_par hm hi hl (Or.inr rfl) (Or.inl hc)
    · rw [hn] at e; cases e
      rcases hc with hc | hc
      · exact cofE_par hm hi hl (Or.inl rfl) (Or.inr hc)
      · exact cofE_par hm hi hl (Or.inr rfl) (Or.inr hc)

theorem orphanLS_parback {reg : Nat → Bool} (b : Nat) (st : LS) (c : Edge) {j : Nat}
    (h : hasPar reg (orphanLS b st c).h.sh j) : hasPar reg st.h.sh j := by
  obtain ⟨_, _, h3, _⟩ := orphanLS_shape' b st c
  obtain ⟨p, n, hp, hn, hc⟩ := h
  rcases h3 p with e | ⟨e, _⟩
  · exact ⟨p, n, hp, by rw [← e]; exact hn, hc⟩
  · rw [hn] at e; cases e

theorem stepNode_parback {reg : Nat → Bool} {al : Heap → Nat} {a b : Nat} {old : List Nat}
    {sh0 : Nat → Option Node} {st : LS} {i : Nat} (hok : AllocOK al) (hal : AllocLocal reg al)
    (hlbl : ∀ k n, reg k = false → sh0 k = some n → n.level ≠ b)
    (hold : ∀ k ∈ old, reg k = true) (hi : reg i = true) (h : FrInv reg sh0 st)
    {j : Nat} (hjf : reg j = false) (hpar : hasPar reg (stepNode al a b old st i).h.sh j) :
    hasPar reg st.h.sh j := by
  have hl : ∀ k n, reg k = false → st.h.sh k = some n → n.level ≠ b :=
    fun k n hk hs => hlbl k n hk (by rw [← h.fr k hk]; exact hs)
  rw [stepNode_eq] at hpar
  cases hm : st.h.get? i with
  | none => rw [hm] at hpar; exact hpar
  | some n =>
    rw [hm] at hpar
    simp only at hpar
    have h5 := rewPre_fr (a := a) hal hlbl hold hi h n.t n.e
    split at hpar
    · rw [(moveLS_shape st i).1] at hpar; exact hpar
    · split at hpar
      · exact rewPre_parback hok hm hi hl hold h5.lo hjf (orphanLS_parback b _ _ hpar)
      · exact rewPre_parback hok hm hi hl hold h5.lo hjf
          (orphanLS_parback b _ _ (orphanLS_parback b _ _ hpar))

theorem levelSwapLoop_parback {reg : Nat → Bool} {al : Heap → Nat} {a b : Nat} {old : List Nat}
    {sh0 : Nat → Option Node} (hok : AllocOK al) (hal : AllocLocal reg al)
    (hlbl : ∀ k n, reg k = false → sh0 k = some n → n.level ≠ b)
    (hold : ∀ k ∈ old, reg k = true) (done : List Nat) (hdone : ∀ i ∈ done, reg i = true) {st : LS}
    (h : FrInv reg sh0 st) {j : Nat} (hjf : reg j = false)
    (hpar : hasPar reg (levelSwapLoop al a b old done st).h.sh j) : hasPar reg st.h.sh j := by
  unfold levelSwapLoop at hpar
  induction done generalizing st with
  | nil => exact hpar
  | cons i rest ih =>
    have hi := hdone i (List.mem_cons_self ..)
    exact stepNode_parback hok hal hlbl hold hi h hjf
      (ih (fun k hk => hdone k (List.mem_cons_of_mem _ hk)) (stepNode_fr hal hlbl hold hi h) hpar)

/-! ## the removed nodes of the old lower level -/

section
variable {a b : Nat} {P : Nat → Prop} {sh0 : Nat → Option Node} {old : List Nat} {ext : Nat → Nat}

/-- an entry leaves the new upper table only as an old child of the node just rewritten -/
theorem stepNode_rem {al : Heap → Nat} (hal : ∀ h : Heap, h.get? (al h) = none)
    (hp : Pre a b P sh0 old) {R : Nat → Nat} (hR : ∀ k, ext k ≤ R k) {st : LS}
    {i : Nat} {todo : List Nat} (hinv : LInv a b P sh0 old ext R st (i :: todo)) :
    ∀ k ∈ st.up, k ∉ (stepNode al a b old st i).up →
      ∃ m, sh0 i = some m ∧ (m.t = .inner k ∨ m.e = .inner k) := by
  have hj := hinv.j
  have hit : i ∈ i :: todo := by simp
  obtain ⟨n, hsi, hn, hla⟩ := hj.todo_live hp hit
  obtain ⟨m, hm, hmn⟩ := sh_eq_some.mp hsi
  subst hmn
  have hcf_t := hj.child_facts hp hit hn (c := m.t) (Or.inl rfl)
  have hcf_e := hj.child_facts hp hit hn (c := m.e) (Or.inr rfl)
  have hlt := lvlIs_of_child (a := a) (h := st.h) hcf_t.2.1 hcf_t.1
  have hle := lvlIs_of_child (a := a) (h := st.h) hcf_e.2.1 hcf_e.1
  unfold stepNode
  rw [hm]; simp only
  by_cases hcond : (!lvlIs st.h b m.t && !lvlIs st.h b m.e) = true
  · rw [if_pos hcond]
    intro k hk hk'; exact absurd hk hk'
  · rw [if_neg hcond]
    have hnb : ¬ (Bel a b P sh0 m.t ∧ Bel a b P sh0 m.e) := by
      rintro ⟨ht, he⟩
      apply hcond
      have h1 : lvlIs st.h b m.t = false := by
        rw [← Bool.not_eq_true, hlt]; exact fun h => not_bel_of_atB h ht
      have h2 : lvlIs st.h b m.e = false := by
        rw [← Bool.not_eq_true, hle]; exact fun h => not_bel_of_atB h he
      simp [h1, h2]
    rw [cofE_of_child hcf_t.2.1, cofE_of_child hcf_e.2.1]
    intro k hk hk'
    exact ⟨m.toNode, hn, (stepNode_rewrite_full hal hp hR hinv hm hn hnb).2.2.2 k hk hk'⟩

/-- every node of the old lower level that is no longer in the new upper table was a child of a
visited entry of the taken view -/
def RemInv (b : Nat) (sh0 : Nat → Option Node) (old todo up : List Nat) : Prop :=
  ∀ p n, sh0 p = some n → n.level = b → p ∉ up →
    ∃ i m, i ∈ old ∧ i ∉ todo ∧ sh0 i = some m ∧ (m.t = .inner p ∨ m.e = .inner p)

theorem levelSwapLoop_rem {al : Heap → Nat} (hal : AllocOK al)
    (hp : Pre a b P sh0 old) {R : Nat → Nat} (hR : ∀ k, ext k ≤ R k) (done todo : List Nat) {st : LS}
    (hinv : LInv a b P sh0 old ext R st (done ++ todo)) (hrem : RemInv b sh0 old (done ++ todo) st.up) :
    RemInv b sh0 old todo (levelSwapLoop al a b old done st).up := by
  unfold levelSwapLoop
  induction done generalizing st with
  | nil => exact hrem
  | cons i rest ih =>
    refine ih (stepNode_spec hal hp hR hinv) ?_
    intro p n hn hl hpu
    have hnd := hinv.j.ndTodo
    have hio := (hinv.j.todoSh i (List.mem_cons_self ..)).1
    by_cases hps : p ∈ st.up
    · obtain ⟨m, hm, hc⟩ := stepNode_rem hal hp hR hinv p hps hpu
      exact ⟨i, m, hio, (List.nodup_cons.mp hnd).1, hm, hc⟩
    · obtain ⟨i', m, h1, h2, h3, h4⟩ := hrem p n hn hl hps
      exact ⟨i', m, h1, fun h => h2 (List.mem_cons_of_mem _ h), h3, h4⟩

/-! ## parent edges: old ⇒ new (from the invariant) -/

theorem par_fwd {reg : Nat → Bool} {sh : Nat → Option Node} {up lo todo : List Nat}
    (hp : Pre a b P sh0 old) (hj : J a b P sh0 old ext sh up lo todo)
    (hrem : RemInv b sh0 old todo up)
    (hold : ∀ k ∈ old, reg k = true) (hlo : ∀ k ∈ lo, reg k = true)
    (hown : ∀ k n, reg k = true → sh0 k = some n → n.level = a ∨ n.level = b)
    (hfor : ∀ k n, reg k = false → sh0 k = some n → n.level ≠ a ∧ n.level ≠ b)
    {j : Nat} (hjf : reg j = false) (h : hasPar reg sh0 j) : hasPar reg sh j := by
  obtain ⟨p, n, hpo, hn, hc⟩ := h
  have cofj : cof0 b sh0 (.inner j) = (.inner j, .inner j) := by
    simp only [cof0]
    cases hs : sh0 j with
    | none => rfl
    | some mj => simp only; rw [if_neg (hfor j mj hjf hs).2]
  have mk : ∀ i c1 c2 x y, reg i = true → sh i = some ⟨b, c1, c2⟩ →
      (MkR a sh lo todo x y c1 ∨ MkR a sh lo todo x y c2) → (x = .inner j ∨ y = .inner j) →
      hasPar reg sh j := by
    intro i c1 c2 x y hi hs hm hxy
    have key : ∀ c, MkR a sh lo todo x y c → c = .inner j ∨ hasPar reg sh j := by
      intro c hm
      rcases hm with ⟨e1, e2⟩ | ⟨_, q, hq, _, hsq⟩
      · left; rcases hxy with h' | h'
        · exact e2.trans h'
        · exact e2.trans (e1.trans h')
      · right
        have hrq : reg q = true := by
          rcases hq with h' | h'
          · exact hlo q h'
          · exact hold q (hj.todoSh q h').1
        exact ⟨q, _, hrq, hsq, hxy⟩
    rcases hm with hm | hm
    · rcases key c1 hm with h' | h'
      · exact ⟨i, _, hi, hs, Or.inl h'⟩
      · exact h'
    · rcases key c2 hm with h' | h'
      · exact ⟨i, _, hi, hs, Or.inr h'⟩
      · exact h'
  rcases hown p n hpo hn with hla | hlb
  · have hpold : p ∈ old := (hp.old_iff p).mpr ⟨n, hn, hla⟩
    rcases hj.oldC p hpold with h | h | h
    · exact ⟨p, n, hpo, by rw [(hj.todoSh p h).2]; exact hn, hc⟩
    · obtain ⟨x, y, _, _, _, _, g1, _⟩ := hj.loC p h
      exact ⟨p, n, hpo, by rw [← g1 hpold]; exact hn, hc⟩
    · rcases hj.upC p h with ⟨n', hn', hl', _⟩ | ⟨_, _, n', c1, c2, g3, _, g5, g6, g7⟩
      · rw [hn] at hn'; cases hn'; exact absurd (hla.symm.trans hl') hp.ab
      · rw [hn] at g3; cases g3
        rcases hc with hc | hc
        · rw [hc, cofj] at g6; exact mk p c1 c2 _ _ hpo g5 (Or.inl g6) (Or.inl rfl)
        · rw [hc, cofj] at g6; exact mk p c1 c2 _ _ hpo g5 (Or.inl g6) (Or.inr rfl)
  · by_cases hpu : p ∈ up
    · rcases hj.upC p hpu with ⟨n', hn', _, hs⟩ | ⟨g1, _⟩
      · rw [hn] at hn'; cases hn'; exact ⟨p, n, hpo, hs, hc⟩
      · obtain ⟨n', hn', hl'⟩ := (hp.old_iff p).mp g1
        rw [hn] at hn'; cases hn'; exact absurd (hl'.symm.trans hlb) hp.ab
    · obtain ⟨i, m, hio, hit, hm, hmc⟩ := hrem p n hn hlb hpu
      have cofp : cof0 b sh0 (.inner p) = (n.t, n.e) := by simp only [cof0, hn, hlb, if_true]
      obtain ⟨m', hm', hlm⟩ := (hp.old_iff i).mp hio
      rw [hm] at hm'; cases hm'
      have hnotbel : ¬ Bel a b P sh0 (.inner p) := by
        rintro ⟨n', hn', _, h2, _⟩
        rw [hn] at hn'; cases hn'; exact h2 hlb
      rcases hj.oldC i hio with h | h | h
      · exact absurd h hit
      · obtain ⟨x, y, hs, hx, hy, _, g1, _⟩ := hj.loC i h
        have e := g1 hio
        rw [hm, hs] at e; cases e
        rcases hmc with h' | h'
        · exact absurd (h' ▸ hx) hnotbel
        · exact absurd (h' ▸ hy) hnotbel
      · rcases hj.upC i h with ⟨n', hn', hl', _⟩ | ⟨_, _, n', c1, c2, g3, _, g5, g6, g7⟩
        · rw [hm] at hn'; cases hn'; exact absurd (hlm.symm.trans hl') hp.ab
        · rw [hm] at g3; cases g3
          have hri := hold i hio
          rcases hmc with h' | h'
          · rw [h', cofp] at g6 g7
            rcases hc with hc | hc
            · exact mk i c1 c2 _ _ hri g5 (Or.inl g6) (Or.inl hc)
            · exact mk i c1 c2 _ _ hri g5 (Or.inr g7) (Or.inl hc)
          · rw [h', cofp] at g6 g7
            rcases hc with hc | hc
            · exact mk i c1 c2 _ _ hri g5 (Or.inl g6) (Or.inr hc)
            · exact mk i c1 c2 _ _ hri g5 (Or.inr g7) (Or.inr hc)

end

/-! ## the parent-edge clause -/

section
variable {ext : Nat → Nat} {pos : Nat → Nat} {base : RState} {t : Running}

theorem soloLoop_rem (hinv : InvL ext base.toPre pos base.s) (hok : TaskOK base t) :
    RemInv t.loc.lp base.s.h.sh t.loc.old t.loc.todo (soloLoop base t).up := by
  have h0 := linv_init hok.ordok hinv hok.ul hok.llen hok.gap
  rw [← hok.old_eq, ← hok.up_eq, ← hok.lp_eq, ← hok.order] at h0
  refine levelSwapLoop_rem hok.alok (solo_pre hinv hok) (fun k => by omega) _ _ h0 ?_
  intro p n hn hl hpu
  exact absurd ((hinv.tbl_iff _ hok.llen p).mpr ⟨n, hn, hl.trans hok.lp_eq⟩) hpu

/-- **parent edges out of the region into a foreign slot neither appear nor disappear** -/
theorem solo_par (hinv : InvL ext base.toPre pos base.s) (hok : TaskOK base t) (j : Nat)
    (hjf : t.reg j = false) :
    hasPar t.reg (soloLS base t).h.sh j ↔ hasPar t.reg base.s.h.sh j := by
  have hf := soloFacts0 hinv hok
  constructor
  · intro h
    rw [hf.sh_loop] at h
    exact levelSwapLoop_parback hok.alok hok.alloc
      (fun k n hk hn => (solo_foreign_lbl hinv hok k n hk hn).2)
      (fun k hk => Running.reg_old hk) _ (fun i hi => Running.reg_old (hok.doneN_old hi))
      ⟨fun _ _ => rfl, fun k hk => Running.reg_low (by rw [hok.low_eq]; exact hk),
        fun k hk => by cases hk⟩ hjf h
  · intro h
    exact par_fwd hf.pre hf.linv.j (soloLoop_rem hinv hok) hf.old_reg hf.lo_reg
      (solo_own_base hinv hok) hf.foreign_lbl hjf h

/-- what we know about the solo run of a task from a state `base` satisfying the lazy store
invariant -/
structure SoloFacts (ext : Nat → Nat) (pos : Nat → Nat) (base : RState) (t : Running) : Prop
    extends SoloFacts0 ext pos base t where
  /-- **parent edges out of the region into a foreign slot neither appear nor disappear** -/
  par : ∀ j, t.reg j = false → (hasPar t.reg (soloLS base t).h.sh j ↔ hasPar t.reg base.s.h.sh j)

theorem soloFacts (hinv : InvL ext base.toPre pos base.s) (hok : TaskOK base t) :
    SoloFacts ext pos base t :=
  { soloFacts0 hinv hok with par := solo_par hinv hok }

end

end OxiddModel.Reorder.SwapStore
