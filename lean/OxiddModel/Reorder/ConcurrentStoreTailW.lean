import OxiddModel.Reorder.ConcurrentStoreSame

/-!
# the invariant of the manager state before the final `update_levels`

`setVarOrderWith_core` establishes, inside its proof, `Phi … r2 tgt'` for the state
`r2 = tailPre …` before the write-back. Here its field `w : InvW ext r2.toPre r2.s` is exported.
-/
namespace OxiddModel.Reorder.SwapStore
open OxiddModel.Bdd OxiddModel.Bdd.BDD OxiddModel.Bdd.Refine OxiddModel.Reorder

/-- `tailPre_invW` with the components of the plan named -/
theorem tailPre_invW_core {ext : Nat → Nat} {s : SStore} (hinv : Inv ext s)
    (l2v order : List Nat) (cfgs : List SwapCfg)
    (hal : ∀ c ∈ cfgs, AllocOK c.al) (hord : ∀ c ∈ cfgs, OrderOK c.ord)
    (n : Nat) (hn : s.tables.length = n) (hl2v : l2v.length = n)
    (hnd : (order.map fun v => l2v.idxOf v).Nodup)
    (hlt : ∀ x ∈ order.map (fun v => l2v.idxOf v), x < n)
    (target : List Nat) (htg : sortOrder n (order.map fun v => l2v.idxOf v) = target)
    (fromNe : List Nat) (hfne : (List.range n).filter (fun l => !(s.table l).isEmpty) = fromNe)
    (neTarget : List Nat) (hnt : fromNe.map (fun l => target.getD l l) = neTarget)
    (b1 b2 : Bool)
    (hvalid : ValidSwaps (cfgs.map (·.i)) neTarget)
    (_hsorted1 : Sorted (applySwaps (cfgs.map (·.i)) neTarget)) :
    InvW ext
      (tailPre ⟨n, target, fromNe, neTarget, b1, b2⟩
        (swapsGH fromNe ⟨s, List.range n, l2v⟩ cfgs) (applySwaps (cfgs.map (·.i)) neTarget)).toPre
      (tailPre ⟨n, target, fromNe, neTarget, b1, b2⟩
        (swapsGH fromNe ⟨s, List.range n, l2v⟩ cfgs) (applySwaps (cfgs.map (·.i)) neTarget)).s := by
  obtain ⟨htlen, htlt, htnd⟩ := sortOrder_perm n _ hnd hlt
  rw [htg] at htlen htlt htnd
  have hgetD : ∀ a (ha : a < n), target.getD a 0 = target[a]'(htlen ▸ ha) := fun a ha => by
    simp [List.getD_eq_getElem?_getD, List.getElem?_eq_getElem (htlen ▸ ha)]
  have htlt' : ∀ a, a < n → target.getD a 0 < n := fun a ha => by
    rw [hgetD a ha]; exact htlt _ (List.getElem_mem _)
  have htinj : ∀ a b, a < n → b < n → target.getD a 0 = target.getD b 0 → a = b := by
    intro a b ha hb e
    rw [hgetD a ha, hgetD b hb] at e
    have hpw := List.pairwise_iff_getElem.mp (List.nodup_iff_pairwise_ne.mp htnd)
    rcases Nat.lt_trichotomy a b with c | c | c
    · exact absurd e (hpw a b _ _ c)
    · exact c
    · exact absurd e.symm (hpw b a _ _ c)
  have hself : ∀ a, a < n → target.getD a a = target.getD a 0 := fun a ha =>
    getD_self_eq (htlen ▸ ha)
  have hfs : fromNe.Pairwise (· < ·) := hfne ▸ List.Pairwise.filter _ List.pairwise_lt_range
  have hfmem : ∀ p, p ∈ fromNe ↔ p < n ∧ s.table p ≠ [] := by
    intro p; rw [← hfne]; simp [List.mem_filter]
  have hflt : ∀ p ∈ fromNe, p < n := fun p hp => ((hfmem p).mp hp).1
  have hr0 : RInv ext fromNe l2v id ⟨s, List.range n, l2v⟩ :=
    { inv := hn ▸ hinv.toL
      empty := fun p hp => by
        by_cases hpn : p < n
        · apply Classical.byContradiction
          intro hc; exact hp ((hfmem p).mpr ⟨hpn, hc⟩)
        · exact table_of_ge (by rw [hn]; omega)
      l2v_len := by simp [hl2v]
      l2v_eq := fun p hp => by
        simp only [List.length_range] at hp
        simp only [range_getD hp] }
  have hpre0 : ∀ p, p < n → (List.range n).getD p 0 < n := fun p hp => by rw [range_getD hp]; exact hp
  have hinj0 : ∀ p q, p < n → q < n → (List.range n).getD p 0 = (List.range n).getD q 0 → p = q :=
    fun p q hp hq e => by rwa [range_getD hp, range_getD hq] at e
  have hntlen : neTarget.length = fromNe.length := by rw [← hnt]; simp
  have hntget : ∀ k, k < fromNe.length → neTarget.getD k 0 = target.getD (fromNe.getD k 0) 0 := by
    intro k hk
    have e : fromNe.getD k 0 = fromNe[k] := by
      simp [List.getD_eq_getElem?_getD, List.getElem?_eq_getElem hk]
    rw [← hnt, e]
    simp only [List.getD_eq_getElem?_getD, List.getElem?_map, List.getElem?_eq_getElem hk,
      Option.map_some, Option.getD_some]
    have := hself fromNe[k] (hflt _ (List.getElem_mem _))
    simpa [List.getD_eq_getElem?_getD] using this
  have hntget0 : ∀ k, k < fromNe.length →
      neTarget.getD k 0 = target.getD ((List.range n).getD (fromNe.getD k 0) 0) 0 := by
    intro k hk
    rw [hntget k hk, range_getD (hflt _ (getD_mem hk))]
  have hswlt : ∀ c ∈ cfgs, c.i + 1 < fromNe.length := fun c hc =>
    hntlen ▸ validSwaps_lt hvalid c.i (List.mem_map.mpr ⟨c, hc, rfl⟩)
  have hr0lt : ∀ p ∈ fromNe, p < (RState.mk s (List.range n) l2v).toPre.length := by
    intro p hp; simp only [List.length_range]; exact hflt p hp
  obtain ⟨pos1, hr1, hlen1, hev1⟩ := swapsGH_spec hfs cfgs hal hord hswlt hr0 hr0lt
  obtain ⟨t1, t2, t3, t4⟩ := swapsGH_track hfs (fun ℓ => target.getD ℓ 0) n cfgs hswlt
    (r := ⟨s, List.range n, l2v⟩) (seq := neTarget) hr0lt hntlen hntget0
    (by simpa using hpre0) (by simpa using hinj0)
  simp only [List.length_range] at hlen1 t3 t4
  have hbs1len : (applySwaps (cfgs.map (·.i)) neTarget).length = fromNe.length := by
    rw [applySwaps_length]; exact hntlen
  generalize applySwaps (cfgs.map (·.i)) neTarget = seq1 at *
  generalize swapsGH fromNe ⟨s, List.range n, l2v⟩ cfgs = r1 at *
  simp only [tailPre]
  split
  · -- all levels are non-empty: the state after the swaps
    exact hr1.inv.toW
  · -- the views (including the empty ones) are moved to their positions
    have hfnd : fromNe.Nodup := hfs.imp (fun h => Nat.ne_of_lt h)
    have htl : (zipSet target fromNe seq1).length = n := by rw [zipSet_length]; exact htlen
    have hteq : ∀ p, p < n →
        (zipSet target fromNe seq1).getD p 0 = target.getD (r1.toPre.getD p 0) 0 := by
      intro p hp
      by_cases hpf : p ∈ fromNe
      · obtain ⟨k, hk, e⟩ := mem_getD_of_mem hpf
        rw [← e, zipSet_mem target fromNe seq1 hfnd hbs1len (fun x hx => htlen ▸ hflt x hx) hk]
        exact t1 k hk
      · rw [zipSet_not_mem _ _ _ hpf, t2 p hpf, range_getD hp]
    have hphi0 : Phi ext l2v target r1.s.h n r1 (zipSet target fromNe seq1) ∧ r1.l2v.length = n :=
      ⟨{ w := hr1.inv.toW, heap := rfl, len := hlen1, pre_lt := t3, tgt_eq := hteq,
         l2v_eq := fun p hp => hr1.l2v_eq p (hlen1 ▸ hp) }, hr1.l2v_len.trans hlen1⟩
    obtain ⟨tgt', ⟨hphi', _⟩, _, _⟩ := step2_spec (n := n)
      (fun r t => Phi ext l2v target r1.s.h n r t ∧ r.l2v.length = n ∧ t.length = n)
      (fun r t i j h hi hj => by
        obtain ⟨a, b⟩ := h.1.swapViews h.2.1 h.2.2 hi hj
        exact ⟨a, b, by rw [swapIdx_length]; exact h.2.2⟩)
      (n * n + n) 0 r1 (zipSet target fromNe seq1) htl
      (fun p hp => by rw [hteq p hp]; exact htlt' _ (t3 p hp))
      (fun p q hp hq e => by
        rw [hteq p hp, hteq q hq] at e
        have := htinj _ _ (t3 p hp) (t3 q hq) e
        exact hr1.inv.lab_inj (hlen1 ▸ hp) (hlen1 ▸ hq) this)
      (fun p hp => by omega) (Nat.zero_le _)
      (by have := nonfix_le (zipSet target fromNe seq1) n
          have : n ≤ n * n := by
            cases n with
            | zero => omega
            | succ m => exact Nat.le_mul_of_pos_left _ (by omega)
          omega)
      ⟨hphi0.1, hphi0.2, htl⟩
    exact hphi'.w

/-- **the invariant before the write-back**: after any valid, sorting sequence of swaps (each with
its own allocator and iteration order) and the node-free second step, the manager state before
`update_levels` satisfies the invariant `InvW` relative to its `to_pre` -/
theorem tailPre_invW {ext : Nat → Nat} {s : SStore} (hinv : Inv ext s)
    (l2v order : List Nat) (hl2v : l2v.length = s.tables.length)
    (hnd : (order.map fun v => l2v.idxOf v).Nodup)
    (hlt : ∀ x ∈ order.map (fun v => l2v.idxOf v), x < s.tables.length)
    (cfgs : List SwapCfg) (hal : ∀ c ∈ cfgs, AllocOK c.al) (hord : ∀ c ∈ cfgs, OrderOK c.ord) :
    let pl := orderPlan s l2v order
    ValidSwaps (cfgs.map (·.i)) pl.neTarget →
    Sorted (applySwaps (cfgs.map (·.i)) pl.neTarget) →
    InvW ext (tailPre pl (swapsGH pl.fromNe ⟨s, List.range pl.n, l2v⟩ cfgs)
        (applySwaps (cfgs.map (·.i)) pl.neTarget)).toPre
      (tailPre pl (swapsGH pl.fromNe ⟨s, List.range pl.n, l2v⟩ cfgs)
        (applySwaps (cfgs.map (·.i)) pl.neTarget)).s := by
  intro pl hv hs
  exact tailPre_invW_core hinv l2v order cfgs hal hord s.tables.length rfl hl2v hnd hlt
    _ rfl _ rfl _ rfl _ _ hv hs

end OxiddModel.Reorder.SwapStore
