import OxiddModel.Util.Proto
import OxiddModel.Bdd.Model
import OxiddModel.Reorder.SetOrderHashed
import OxiddModel.Reorder.SwapStoreCheck

/-!
Line-protocol driver `reorder-hashed`: the BDD manager of `DriverStore.lean` (protocol
`reorder-store`) on the **hashed** store model — `HStore` = heap with reference counters + one
`RawTable` (`HashTbl.Tbl`) per level — with an adversarial hash function: **every** node hashes to
`2^32 - 1`, so all nodes of a level are in one probe chain, the home slot is the *last* slot of
the table whatever its capacity (every chain wraps around), and the stored status is the same for
all entries (the equality closure decides every probe).

Same lines, same output format as `reorder-store` (so the stream `bdd-c08-store` of the `bf`
scenario can be replayed on it): nodes are created by `LevelViewSet::get_or_insert` on the hashed
table (`mkNodeH`), `gc` is `RawTable::retain` per level (`gcH`), `swap u` is `levelDownH`, `order`
is `setVarOrderH` (lazy swaps over the non-empty hashed tables, view moves, `update_levels`),
`audit` evaluates `checkInv` on the abstraction `absS`.  A table operation that stops
(`Err.capacity`, or the excluded `panic`/`diverge`) prints `error:<kind>`; every later line of the
case prints `error`.
-/
namespace OxiddModel.Reorder.SwapHashed.Driver
open OxiddModel OxiddModel.HashTbl OxiddModel.HashTbl.Tbl OxiddModel.Bdd OxiddModel.Bdd.BDD OxiddModel.Bdd.Refine
open OxiddModel.Bdd.LevelTable OxiddModel.Reorder OxiddModel.Reorder.SwapStore OxiddModel.Reorder.SwapHashed

/-- all nodes collide; home slot = last slot for every capacity -/
def advHash : Hash := fun _ _ => 4294967295

def errStr : Err → String
  | .capacity => "error:capacity"
  | .panic => "error:panic"
  | .diverge => "error:diverge"

/-- `reduce` + `LevelViewSet::get_or_insert` with owned edges `t`, `e`; returns an owned edge -/
def mkNodeH (s : HStore) (lvl : Nat) (t e : Edge) : Except Err (HStore × Edge) :=
  if t = e then .ok (⟨decRc s.h e, s.tables⟩, t)
  else
    bindE (findOrFindInsertSlotP (s.tbl lvl) (advHash t e) (eqc (nodesOf s.h) t e)) fun
      | (tb, .found slot) =>
        match tb.get slot with
        | .occ _ j => .ok (⟨incRc (decRc (decRc s.h t) e) (.inner j), s.tables.setIfInBounds lvl tb⟩, .inner j)
        | _ => .error .panic
      | (tb, .vacant slot) =>
        let j := s.h.firstFree
        bindE (tb.insertInSlot (advHash t e) slot j) fun tb' =>
          .ok (⟨s.h.put j (some ⟨lvl, t, e, 2⟩), s.tables.setIfInBounds lvl tb'⟩, .inner j)
      | (_, .diverge) => .error .diverge

/-- hash-cons a tree into the store; returns an owned edge -/
def internH (s : HStore) : BDD → Except Err (HStore × Edge)
  | .leaf b => .ok (s, .term b)
  | .node l t e =>
    bindE (internH s t) fun r1 =>
    bindE (internH r1.1 e) fun r0 =>
      mkNodeH r0.1 l r1.2 r0.2

/-- `LevelViewSet::gc` for one level: `retain(|e| rc != 1, |e| free_slot(e))` -/
def gcLevelH (s : HStore) (p : Nat) : Except Err HStore :=
  bindE ((s.tbl p).retain fun i => s.h.rcOf i != 1) fun r =>
    .ok ⟨r.2.foldl dropTableEdge s.h, s.tables.setIfInBounds p r.1⟩

/-- `Manager::gc`: the levels top-down -/
def gcH (s : HStore) : Except Err HStore :=
  (List.range s.tables.size).foldl (fun acc p => bindE acc fun s => gcLevelH s p) (.ok s)

structure DSt where
  s : HStore := ⟨⟨[]⟩, #[]⟩
  l2v : List Nat := []
  hs : List (String × Edge) := []
  /-- a table operation stopped (capacity panic, or a violated debug assertion / a diverging probe
  loop — the latter two are excluded by the theorems): every later line answers `error` -/
  failed : Option Err := none

namespace DSt

def n (d : DSt) : Nat := d.s.tables.size
def lvl (d : DSt) (v : Nat) : Nat := d.l2v.idxOf v
def vr (d : DSt) (l : Nat) : Nat := d.l2v.getD l l

partial def showT (d : DSt) : BDD → String
  | .leaf true => "T"
  | .leaf false => "F"
  | .node l t e => s!"(v{d.vr l} {d.showT t} {d.showT e})"

def tree (d : DSt) (x : Edge) : Option BDD := treeOf d.s.h (d.n + 1) x

def showE (d : DSt) (x : Edge) : String :=
  match d.tree x with
  | some t => d.showT t
  | none => "DANGLING"

/-- external handle counts per slot -/
def extList (d : DSt) : List Nat :=
  (List.range d.s.h.slots.length).map fun k => (d.hs.filter fun p => p.2 == .inner k).length

/-- bind `name` to the owned edge `x` (dropping a previous binding) -/
def bind (d : DSt) (name : String) (x : Edge) : DSt :=
  let h := match d.hs.lookup name with
    | some old => decRc d.s.h old
    | none => d.s.h
  { d with s := ⟨h, d.s.tables⟩, hs := (name, x) :: d.hs.filter (·.1 != name) }

def put (d : DSt) (name : String) (t : BDD) : DSt × String :=
  match internH d.s t with
  | .ok r =>
    let d' := ({ d with s := r.1 }).bind name r.2
    (d', d'.showE r.2)
  | .error e => ({ d with failed := some e }, errStr e)

def counts (d : DSt) : String :=
  joinSp ((List.range d.n).map fun l => toString (d.s.tbl l).len)

def report (d : DSt) : String :=
  let names := (d.hs.map (·.1)).toArray.qsort (· < ·)
  let items := names.toList.map fun nm =>
    match d.hs.lookup nm with
    | some x => s!"{nm}={d.showE x}"
    | none => nm
  s!"{joinSp (d.l2v.map toString)} | {joinSp items} | {d.counts}"

end DSt

def parseOpS : String → Option Bdd.Op
  | "and" => some .and | "or" => some .or | "nand" => some .nand | "nor" => some .nor
  | "xor" => some .xor | "equiv" => some .equiv | "imp" => some .imp | "imp_strict" => some .impStrict
  | _ => none

def parseHexS (s : String) : Nat :=
  s.foldl (fun a c =>
    let d := if c.isDigit then c.toNat - '0'.toNat
      else if 'a' ≤ c ∧ c ≤ 'f' then c.toNat - 'a'.toNat + 10
      else if 'A' ≤ c ∧ c ≤ 'F' then c.toNat - 'A'.toNat + 10 else 0
    16 * a + d) 0

/-- sum of minterms (the route of the harness op `tt`) -/
def buildMintermsS (d : DSt) (tt : Nat) : BDD := Id.run do
  let mut f : BDD := .leaf false
  for a in [0 : 2 ^ d.n] do
    if tt.testBit a then
      let mut c : BDD := .leaf true
      for v in [0 : d.n] do
        let x := if a.testBit v then var (d.lvl v) else notVar (d.lvl v)
        c := applyBin .and c x
      f := applyBin .or f c
  return f

/-- Shannon `ite` chain (the route of the harness op `ttb`) -/
def buildShannonS (d : DSt) (tt : Nat) : Nat → Nat → Nat → BDD
  | 0, _, fixed => .leaf (tt.testBit fixed)
  | fuel + 1, v, fixed =>
    if v ≥ d.n then .leaf (tt.testBit fixed) else
    let hi := buildShannonS d tt fuel (v + 1) (fixed ||| (1 <<< v))
    let lo := buildShannonS d tt fuel (v + 1) fixed
    applyIte (var (d.lvl v)) hi lo

def kvS (ws : List String) (key : String) : Option String :=
  ws.findSome? fun w => if w.startsWith (key ++ "=") then some (w.drop (key.length + 1)).toString else none

def stepD (d : DSt) (line : String) : DSt × String :=
  let ws := words line
  if d.failed.isSome && ws.head? != some "mgr" then (d, "error") else
  match ws with
  | "mgr" :: rest =>
    let vars := ((kvS rest "vars").bind String.toNat?).getD 0
    ({ s := ⟨⟨[]⟩, Array.replicate vars Tbl.new⟩, l2v := List.range vars, hs := [] }, "ok")
  | ["const", name, v] => d.put name (.leaf (v == "T"))
  | ["var", name, v] =>
    match v.toNat? with
    | some v => if v < d.n then d.put name (var (d.lvl v)) else (d, "bad-op")
    | none => (d, "bad-op")
  | ["notvar", name, v] =>
    match v.toNat? with
    | some v => if v < d.n then d.put name (notVar (d.lvl v)) else (d, "bad-op")
    | none => (d, "bad-op")
  | ["tt", name, hex] => d.put name (buildMintermsS d (parseHexS hex))
  | ["ttb", name, hex] => d.put name (buildShannonS d (parseHexS hex) (d.n + 1) 0 0)
  | ["count", a] =>
    match (d.hs.lookup a).bind d.tree with
    | some f => (d, toString (nodeCount f))
    | none => (d, "bad-op")
  | ["op", name, "not", a] =>
    match (d.hs.lookup a).bind d.tree with
    | some f => d.put name (applyNot f)
    | none => (d, "bad-op")
  | ["op", name, "ite", a, b, c] =>
    match (d.hs.lookup a).bind d.tree, (d.hs.lookup b).bind d.tree, (d.hs.lookup c).bind d.tree with
    | some f, some g, some h => d.put name (applyIte f g h)
    | _, _, _ => (d, "bad-op")
  | ["op", name, op, a, b] =>
    match parseOpS op, (d.hs.lookup a).bind d.tree, (d.hs.lookup b).bind d.tree with
    | some op, some f, some g => d.put name (applyBin op f g)
    | _, _, _ => (d, "bad-op")
  | ["drop", a] =>
    match d.hs.lookup a with
    | some x => ({ d with s := ⟨decRc d.s.h x, d.s.tables⟩, hs := d.hs.filter (·.1 != a) }, "ok")
    | none => (d, "bad-op")
  | ["show", a] =>
    match d.hs.lookup a with
    | some x => (d, d.showE x)
    | none => (d, "bad-op")
  | ["eq", a, b] =>
    match d.hs.lookup a, d.hs.lookup b with
    | some x, some y => (d, boolStr (x == y))
    | _, _ => (d, "bad-op")
  | ["nodes"] => (d, "-")
  | ["levels"] => (d, d.counts)
  | ["report"] => (d, d.report)
  | ["dump"] =>
    -- all stored inner nodes with `ref_count()` (= counter - 1), sorted: the `dump` line of `bf`
    let ids := (List.range d.s.h.slots.length).filter fun k => (d.s.h.sh k).isSome
    let items := (ids.map fun k => s!"{d.showE (.inner k)}:{d.s.h.rcOf k - 1}").toArray.qsort (· < ·)
    (d, s!"{items.size} {" | ".intercalate items.toList}")
  | ["gc"] =>
    match gcH d.s with
    | .ok s' => ({ d with s := s' }, toString ((s'.h.slots.filter Option.isSome).length))
    | .error e => ({ d with failed := some e }, errStr e)
  | ["audit"] => (d, if checkInv d.extList d.s.absS then "ok" else "violation")
  | ["swap", u] =>
    match u.toNat? with
    | some u =>
      if u + 1 < d.n then
        match levelDownH advHash Heap.firstFree d.s u with
        | .ok s' =>
          let d' := { d with s := s', l2v := swapIdx d.l2v u (u + 1) }
          (d', d'.report)
        | .error e => ({ d with failed := some e }, errStr e)
      else (d, "bad-op")
    | none => (d, "bad-op")
  | cmd :: rest =>
    if cmd == "order" || cmd == "orderx" then
      let args := rest.filter fun w => !w.contains '='
      let order := args.filterMap String.toNat?
      if order.length = args.length && order.all (· < d.n) && order.eraseDups.length = order.length then
        match (if order.length ≤ 1 then .ok (d.s, d.l2v)
          else setVarOrderH advHash Heap.firstFree d.s d.l2v order) with
        | .ok r =>
          let d' := { d with s := r.1, l2v := r.2 }
          (d', if cmd == "order" then joinSp (d'.l2v.map toString) else d'.report)
        | .error e => ({ d with failed := some e }, errStr e)
      else (d, "bad-op")
    else (d, "bad-op")
  | _ => (d, "bad-op")

def proto : Proto := { σ := DSt, init := {}, step := stepD }

end OxiddModel.Reorder.SwapHashed.Driver
