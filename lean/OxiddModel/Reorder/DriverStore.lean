import OxiddModel.Util.Proto
import OxiddModel.Bdd.Model
import OxiddModel.Reorder.SetOrderStore
import OxiddModel.Reorder.SwapStoreCheck

/-!
Line-protocol driver `reorder-store`: a BDD manager on the store model of `SwapStore.lean`
(id-indexed slots with reference counters, one unique table per level). Diagrams are built from
`var`/`notvar`/`const`/`op` lines as in the `bdd` protocol (the operator is evaluated on the tree
model and the result is hash-consed into the store, so the store holds no intermediate garbage),
`order v…` runs the model of `set_var_order` (`setVarOrderS`: bubble sort over the non-empty
levels with the lazy `level_swap`, then the pure level-view moves, then `update_levels`),
`swap u` runs `level_down(u)`.

The lines `mgr`, `var`, `notvar`, `const`, `tt`, `ttb`, `op`, `drop`, `show`, `count`, `eq`, `gc`,
`dump`, `audit`, `nodes` and `order` have the output format of the `bf --kind bdd` scenario (so the
`c08` stream of that scenario can be replayed on this driver; `order` prints the level→variable
map, `dump` every stored node with its `ref_count()`). `orderx`/`swap`/`report` print the extended
line `<level→variable map> | <name>=<tree> … (live handles, sorted by name) | <nodes per level>`,
trees printed with *variable* numbers. `audit` evaluates the executable
store invariant `checkInv` (`ok`/`violation`), `gc` mirrors `Manager::gc`, `dump` prints every
stored node with its `ref_count()` in the format of the `dump` line of the `bf` scenario.
-/
namespace OxiddModel.Reorder.SwapStore
open OxiddModel OxiddModel.Bdd OxiddModel.Bdd.BDD OxiddModel.Bdd.Refine

/-- `reduce` + `get_or_insert` with owned edges `t`, `e`; returns an owned edge -/
def mkNodeS (s : SStore) (lvl : Nat) (t e : Edge) : SStore × Edge :=
  if t = e then (⟨decRc s.h e, s.tables⟩, t)
  else
    match lookup s.h (s.table lvl) t e with
    | some j => (⟨incRc (decRc (decRc s.h t) e) (.inner j), s.tables⟩, .inner j)
    | none =>
      let j := s.h.firstFree
      (⟨s.h.put j (some ⟨lvl, t, e, 2⟩), s.tables.set lvl (j :: s.table lvl)⟩, .inner j)

/-- hash-cons a tree into the store; returns an owned edge -/
def internS (s : SStore) : BDD → SStore × Edge
  | .leaf b => (s, .term b)
  | .node l t e =>
    let r1 := internS s t
    let r0 := internS r1.1 e
    mkNodeS r0.1 l r1.2 r0.2

/-- `LevelViewSet::gc` for one level: free the entries whose counter is 1 -/
def gcLevel (s : SStore) (p : Nat) : SStore :=
  let dead := (s.table p).filter fun i => s.h.rcOf i == 1
  let h := dead.foldl dropTableEdge s.h
  ⟨h, s.tables.set p ((s.table p).filter fun i => !(s.h.rcOf i == 1))⟩

/-- `Manager::gc`: the levels top-down -/
def gcS (s : SStore) : SStore := (List.range s.tables.length).foldl gcLevel s

structure DSt where
  s : SStore := ⟨⟨[]⟩, []⟩
  l2v : List Nat := []
  hs : List (String × Edge) := []

namespace DSt

def n (d : DSt) : Nat := d.s.tables.length
def lvl (d : DSt) (v : Nat) : Nat := d.l2v.idxOf v
def vr (d : DSt) (l : Nat) : Nat := d.l2v.getD l l

partial def showT (d : DSt) : BDD → String
  | .leaf true => "T"
  | .leaf false => "F"
  | .node l t e => s!"(v{d.vr l} {d.showT t} {d.showT e})"

def tree (d : DSt) (x : Edge) : Option BDD := treeOf d.s.h (d.n + 1) x

def showE (d : DSt) (x : Edge) : String :=
  match d.tree x with
  | some t => d.showT t
  | none => "DANGLING"

/-- external handle counts per slot -/
def extList (d : DSt) : List Nat :=
  (List.range d.s.h.slots.length).map fun k => (d.hs.filter fun p => p.2 == .inner k).length

/-- bind `name` to the owned edge `x` (dropping a previous binding) -/
def bind (d : DSt) (name : String) (x : Edge) : DSt :=
  let h := match d.hs.lookup name with
    | some old => decRc d.s.h old
    | none => d.s.h
  { d with s := ⟨h, d.s.tables⟩, hs := (name, x) :: d.hs.filter (·.1 != name) }

def put (d : DSt) (name : String) (t : BDD) : DSt × String :=
  let r := internS d.s t
  let d' := ({ d with s := r.1 }).bind name r.2
  (d', d'.showE r.2)

def counts (d : DSt) : String :=
  joinSp ((List.range d.n).map fun l => toString (d.s.table l).length)

def report (d : DSt) : String :=
  let names := (d.hs.map (·.1)).toArray.qsort (· < ·)
  let items := names.toList.map fun nm =>
    match d.hs.lookup nm with
    | some x => s!"{nm}={d.showE x}"
    | none => nm
  s!"{joinSp (d.l2v.map toString)} | {joinSp items} | {d.counts}"

end DSt

def parseOpS : String → Option Op
  | "and" => some .and | "or" => some .or | "nand" => some .nand | "nor" => some .nor
  | "xor" => some .xor | "equiv" => some .equiv | "imp" => some .imp | "imp_strict" => some .impStrict
  | _ => none

def parseHexS (s : String) : Nat :=
  s.foldl (fun a c =>
    let d := if c.isDigit then c.toNat - '0'.toNat
      else if 'a' ≤ c ∧ c ≤ 'f' then c.toNat - 'a'.toNat + 10
      else if 'A' ≤ c ∧ c ≤ 'F' then c.toNat - 'A'.toNat + 10 else 0
    16 * a + d) 0

/-- sum of minterms (the route of the harness op `tt`) -/
def buildMintermsS (d : DSt) (tt : Nat) : BDD := Id.run do
  let mut f : BDD := .leaf false
  for a in [0 : 2 ^ d.n] do
    if tt.testBit a then
      let mut c : BDD := .leaf true
      for v in [0 : d.n] do
        let x := if a.testBit v then var (d.lvl v) else notVar (d.lvl v)
        c := applyBin .and c x
      f := applyBin .or f c
  return f

/-- Shannon `ite` chain (the route of the harness op `ttb`) -/
def buildShannonS (d : DSt) (tt : Nat) : Nat → Nat → Nat → BDD
  | 0, _, fixed => .leaf (tt.testBit fixed)
  | fuel + 1, v, fixed =>
    if v ≥ d.n then .leaf (tt.testBit fixed) else
    let hi := buildShannonS d tt fuel (v + 1) (fixed ||| (1 <<< v))
    let lo := buildShannonS d tt fuel (v + 1) fixed
    applyIte (var (d.lvl v)) hi lo

def kvS (ws : List String) (key : String) : Option String :=
  ws.findSome? fun w => if w.startsWith (key ++ "=") then some (w.drop (key.length + 1)).toString else none

def stepD (d : DSt) (line : String) : DSt × String :=
  let ws := words line
  match ws with
  | "mgr" :: rest =>
    let vars := ((kvS rest "vars").bind String.toNat?).getD 0
    ({ s := ⟨⟨[]⟩, List.replicate vars []⟩, l2v := List.range vars, hs := [] }, "ok")
  | ["const", name, v] => d.put name (.leaf (v == "T"))
  | ["var", name, v] =>
    match v.toNat? with
    | some v => if v < d.n then d.put name (var (d.lvl v)) else (d, "bad-op")
    | none => (d, "bad-op")
  | ["notvar", name, v] =>
    match v.toNat? with
    | some v => if v < d.n then d.put name (notVar (d.lvl v)) else (d, "bad-op")
    | none => (d, "bad-op")
  | ["tt", name, hex] => d.put name (buildMintermsS d (parseHexS hex))
  | ["ttb", name, hex] => d.put name (buildShannonS d (parseHexS hex) (d.n + 1) 0 0)
  | ["count", a] =>
    match (d.hs.lookup a).bind d.tree with
    | some f => (d, toString (nodeCount f))
    | none => (d, "bad-op")
  | ["op", name, "not", a] =>
    match (d.hs.lookup a).bind d.tree with
    | some f => d.put name (applyNot f)
    | none => (d, "bad-op")
  | ["op", name, "ite", a, b, c] =>
    match (d.hs.lookup a).bind d.tree, (d.hs.lookup b).bind d.tree, (d.hs.lookup c).bind d.tree with
    | some f, some g, some h => d.put name (applyIte f g h)
    | _, _, _ => (d, "bad-op")
  | ["op", name, op, a, b] =>
    match parseOpS op, (d.hs.lookup a).bind d.tree, (d.hs.lookup b).bind d.tree with
    | some op, some f, some g => d.put name (applyBin op f g)
    | _, _, _ => (d, "bad-op")
  | ["drop", a] =>
    match d.hs.lookup a with
    | some x => ({ d with s := ⟨decRc d.s.h x, d.s.tables⟩, hs := d.hs.filter (·.1 != a) }, "ok")
    | none => (d, "bad-op")
  | ["show", a] =>
    match d.hs.lookup a with
    | some x => (d, d.showE x)
    | none => (d, "bad-op")
  | ["eq", a, b] =>
    match d.hs.lookup a, d.hs.lookup b with
    | some x, some y => (d, boolStr (x == y))
    | _, _ => (d, "bad-op")
  | ["nodes"] => (d, "-")
  | ["levels"] => (d, d.counts)
  | ["report"] => (d, d.report)
  | ["dump"] =>
    -- all stored inner nodes with `ref_count()` (= counter - 1), sorted: the `dump` line of `bf`
    let ids := (List.range d.s.h.slots.length).filter fun k => (d.s.h.sh k).isSome
    let items := (ids.map fun k => s!"{d.showE (.inner k)}:{d.s.h.rcOf k - 1}").toArray.qsort (· < ·)
    (d, s!"{items.size} {" | ".intercalate items.toList}")
  | ["gc"] =>
    let s' := gcS d.s
    ({ d with s := s' }, toString ((s'.h.slots.filter Option.isSome).length))
  | ["audit"] => (d, if checkInv d.extList d.s then "ok" else "violation")
  | ["swap", u] =>
    match u.toNat? with
    | some u =>
      if u + 1 < d.n then
        let d' := { d with s := levelDownS Heap.firstFree id d.s u, l2v := swapIdx d.l2v u (u + 1) }
        (d', d'.report)
      else (d, "bad-op")
    | none => (d, "bad-op")
  | cmd :: rest =>
    if cmd == "order" || cmd == "orderx" then
      let args := rest.filter fun w => !w.contains '='
      let order := args.filterMap String.toNat?
      if order.length = args.length && order.all (· < d.n) && order.eraseDups.length = order.length then
        let r := if order.length ≤ 1 then (d.s, d.l2v)
          else setVarOrderS Heap.firstFree id d.s d.l2v order
        let d' := { d with s := r.1, l2v := r.2 }
        (d', if cmd == "order" then joinSp (d'.l2v.map toString) else d'.report)
      else (d, "bad-op")
    else (d, "bad-op")
  | _ => (d, "bad-op")

def proto : Proto := { σ := DSt, init := {}, step := stepD }

end OxiddModel.Reorder.SwapStore
