import OxiddModel.Util.Proto
import OxiddModel.Bcdd.Driver
import OxiddModel.Reorder.SwapStoreCSeq

/-!
Line-protocol driver `reorder-store-bcdd`: a complement-edge BDD manager on the store model of
`SwapStoreC.lean` (tagged edges, rule set `Rules.bcdd`). Same protocol as `reorder-store`
(`DriverStore.lean`): diagrams are built from `var`/`notvar`/`const`/`tt`/`ttb`/`op` lines (the
operator is evaluated on the tree model `Bcdd/Model.lean`, the result is hash-consed into the
store through `reduce`), `order v…` runs `setVarOrderS Rules.bcdd`, `swap u` runs `level_down`.
The lines have the output format of `bf --kind bcdd` (`~` marks a complemented edge, `dump`
prints every stored node with its `ref_count()`); `orderx`/`swap`/`report` print
`<level→variable map> | <name>=<tree> … | <nodes per level>`; `audit` evaluates `checkInv`.
-/
namespace OxiddModel.Reorder.SwapStoreC
open OxiddModel OxiddModel.Bcdd
open OxiddModel.Bcdd.Refine (EdgeC Tgt)
open OxiddModel.Reorder.SwapStore (swapIdx)

/-- `reduce` + `get_or_insert` with owned edges `t`, `e`; returns an owned edge -/
def mkNodeS (s : SStore) (lvl : Nat) (t e : Edge) : SStore × Edge :=
  if t = e then (⟨decRc s.h e, s.tables⟩, t)
  else
    let nb := Rules.bcdd.norm t e
    match lookup s.h (s.table lvl) nb.1 nb.2.1 with
    | some j => (⟨incRc (decRc (decRc s.h t) e) ⟨false, .inner j⟩, s.tables⟩, ⟨nb.2.2, .inner j⟩)
    | none =>
      let j := s.h.firstFree
      (⟨s.h.put j (some ⟨lvl, nb.1, nb.2.1, 2⟩), s.tables.set lvl (j :: s.table lvl)⟩,
        ⟨nb.2.2, .inner j⟩)

/-- hash-cons a tree node; returns an owned (regular) edge -/
def internN (s : SStore) : CNode → SStore × Edge
  | .top => (s, ⟨false, .term⟩)
  | .node l t en e =>
    let r1 := internN s t
    let r0 := internN r1.1 e
    mkNodeS r0.1 l r1.2 ⟨en != r0.2.neg, r0.2.tgt⟩

def internE (s : SStore) (x : Bcdd.Edge) : SStore × Edge :=
  let r := internN s x.n
  (r.1, ⟨x.neg != r.2.neg, r.2.tgt⟩)

def gcLevel (s : SStore) (p : Nat) : SStore :=
  let dead := (s.table p).filter fun i => s.h.rcOf i == 1
  let h := dead.foldl dropTableEdge s.h
  ⟨h, s.tables.set p ((s.table p).filter fun i => !(s.h.rcOf i == 1))⟩

def gcS (s : SStore) : SStore := (List.range s.tables.length).foldl gcLevel s

structure DSt where
  s : SStore := ⟨⟨[]⟩, []⟩
  l2v : List Nat := []
  hs : List (String × Edge) := []

namespace DSt

def n (d : DSt) : Nat := d.s.tables.length
def lvl (d : DSt) (v : Nat) : Nat := d.l2v.idxOf v
def vr (d : DSt) (l : Nat) : Nat := d.l2v.getD l l

mutual
partial def showN (d : DSt) : CNode → String
  | .top => "T"
  | .node l t en e => s!"(v{d.vr l} {d.showN t} {d.showTE ⟨en, e⟩})"
partial def showTE (d : DSt) (x : Bcdd.Edge) : String :=
  (if x.neg then "~" else "") ++ d.showN x.n
end

def tree (d : DSt) (x : Edge) : Option Bcdd.Edge := treeOfE d.s.h (d.n + 1) x

def showE (d : DSt) (x : Edge) : String :=
  match d.tree x with
  | some t => d.showTE t
  | none => "DANGLING"

def extList (d : DSt) : List Nat :=
  (List.range d.s.h.slots.length).map fun k => (d.hs.filter fun p => p.2.tgt == .inner k).length

def bind (d : DSt) (name : String) (x : Edge) : DSt :=
  let h := match d.hs.lookup name with
    | some old => decRc d.s.h old
    | none => d.s.h
  { d with s := ⟨h, d.s.tables⟩, hs := (name, x) :: d.hs.filter (·.1 != name) }

def put (d : DSt) (name : String) (t : Bcdd.Edge) : DSt × String :=
  let r := internE d.s t
  let d' := ({ d with s := r.1 }).bind name r.2
  (d', d'.showE r.2)

def counts (d : DSt) : String :=
  joinSp ((List.range d.n).map fun l => toString (d.s.table l).length)

def report (d : DSt) : String :=
  let names := (d.hs.map (·.1)).toArray.qsort (· < ·)
  let items := names.toList.map fun nm =>
    match d.hs.lookup nm with
    | some x => s!"{nm}={d.showE x}"
    | none => nm
  s!"{joinSp (d.l2v.map toString)} | {joinSp items} | {d.counts}"

end DSt

def buildMintermsS (d : DSt) (tt : Nat) : Bcdd.Edge := Id.run do
  let mut f : Bcdd.Edge := terminal false
  for a in [0 : 2 ^ d.n] do
    if tt.testBit a then
      let mut c : Bcdd.Edge := terminal true
      for v in [0 : d.n] do
        let x := if a.testBit v then var (d.lvl v) else notVar (d.lvl v)
        c := applyOp .and c x
      f := applyOp .or f c
  return f

def buildShannonS (d : DSt) (tt : Nat) : Nat → Nat → Nat → Bcdd.Edge
  | 0, _, fixed => terminal (tt.testBit fixed)
  | fuel + 1, v, fixed =>
    if v ≥ d.n then terminal (tt.testBit fixed) else
    let hi := buildShannonS d tt fuel (v + 1) (fixed ||| (1 <<< v))
    let lo := buildShannonS d tt fuel (v + 1) fixed
    applyIte (var (d.lvl v)) hi lo

def kvS (ws : List String) (key : String) : Option String :=
  ws.findSome? fun w => if w.startsWith (key ++ "=") then some (w.drop (key.length + 1)).toString else none

def stepD (d : DSt) (line : String) : DSt × String :=
  let ws := words line
  match ws with
  | "mgr" :: rest =>
    let vars := ((kvS rest "vars").bind String.toNat?).getD 0
    ({ s := ⟨⟨[]⟩, List.replicate vars []⟩, l2v := List.range vars, hs := [] }, "ok")
  | ["const", name, v] => d.put name (terminal (v == "T"))
  | ["var", name, v] =>
    match v.toNat? with
    | some v => if v < d.n then d.put name (var (d.lvl v)) else (d, "bad-op")
    | none => (d, "bad-op")
  | ["notvar", name, v] =>
    match v.toNat? with
    | some v => if v < d.n then d.put name (notVar (d.lvl v)) else (d, "bad-op")
    | none => (d, "bad-op")
  | ["tt", name, hex] => d.put name (buildMintermsS d (parseHex hex))
  | ["ttb", name, hex] => d.put name (buildShannonS d (parseHex hex) (d.n + 1) 0 0)
  | ["count", a] =>
    match (d.hs.lookup a).bind d.tree with
    | some f => (d, toString (nodeCount f))
    | none => (d, "bad-op")
  | "satcount" :: a :: vars :: ty :: _ =>
    match (d.hs.lookup a).bind d.tree, vars.toNat? with
    | some f, some vars =>
      match ty with
      | "u64" => (d, toString (satCountSat 64 vars f))
      | "u128" => (d, toString (satCountSat 128 vars f))
      | "nat" =>
        match satCountNat vars f.neg f.n with
        | some c => (d, "0x" ++ toHex c)
        | none => (d, "NaN")
      | "f64" => (d, "ok")
      | _ => (d, "bad-op")
    | _, _ => (d, "bad-op")
  | ["op", name, "not", a] =>
    match (d.hs.lookup a).bind d.tree with
    | some f => d.put name (applyNot f)
    | none => (d, "bad-op")
  | ["op", name, "ite", a, b, c] =>
    match (d.hs.lookup a).bind d.tree, (d.hs.lookup b).bind d.tree, (d.hs.lookup c).bind d.tree with
    | some f, some g, some h => d.put name (applyIte f g h)
    | _, _, _ => (d, "bad-op")
  | ["op", name, op, a, b] =>
    match parseOp op, (d.hs.lookup a).bind d.tree, (d.hs.lookup b).bind d.tree with
    | some op, some f, some g => d.put name (applyOp op f g)
    | _, _, _ => (d, "bad-op")
  | ["drop", a] =>
    match d.hs.lookup a with
    | some x => ({ d with s := ⟨decRc d.s.h x, d.s.tables⟩, hs := d.hs.filter (·.1 != a) }, "ok")
    | none => (d, "bad-op")
  | ["show", a] =>
    match d.hs.lookup a with
    | some x => (d, d.showE x)
    | none => (d, "bad-op")
  | ["eq", a, b] =>
    match d.hs.lookup a, d.hs.lookup b with
    | some x, some y => (d, boolStr (x == y))
    | _, _ => (d, "bad-op")
  | ["nodes"] => (d, "-")
  | ["levels"] => (d, d.counts)
  | ["report"] => (d, d.report)
  | ["dump"] =>
    let ids := (List.range d.s.h.slots.length).filter fun k => (d.s.h.sh k).isSome
    let items := (ids.map fun k => s!"{d.showE ⟨false, .inner k⟩}:{d.s.h.rcOf k - 1}").toArray.qsort (· < ·)
    (d, s!"{items.size} {" | ".intercalate items.toList}")
  | ["gc"] =>
    let s' := gcS d.s
    ({ d with s := s' }, toString ((s'.h.slots.filter Option.isSome).length))
  | ["audit"] => (d, if checkInv d.extList d.s then "ok" else "violation")
  | ["swap", u] =>
    match u.toNat? with
    | some u =>
      if u + 1 < d.n then
        let d' := { d with s := levelDownS Rules.bcdd Heap.firstFree id d.s u,
                           l2v := swapIdx d.l2v u (u + 1) }
        (d', d'.report)
      else (d, "bad-op")
    | none => (d, "bad-op")
  | cmd :: rest =>
    if cmd == "order" || cmd == "orderx" then
      let args := rest.filter fun w => !w.contains '='
      let order := args.filterMap String.toNat?
      if order.length = args.length && order.all (· < d.n) && order.eraseDups.length = order.length then
        let r := if order.length ≤ 1 then (d.s, d.l2v)
          else setVarOrderS Rules.bcdd Heap.firstFree id d.s d.l2v order
        let d' := { d with s := r.1, l2v := r.2 }
        (d', if cmd == "order" then joinSp (d'.l2v.map toString) else d'.report)
      else (d, "bad-op")
    else (d, "bad-op")
  | [] => (d, "bad-op")

def proto : Proto := { σ := DSt, init := {}, step := stepD }

end OxiddModel.Reorder.SwapStoreC
