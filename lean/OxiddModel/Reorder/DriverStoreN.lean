import OxiddModel.Util.Proto
import OxiddModel.Tdd.Driver
import OxiddModel.Mtbdd.Driver
import OxiddModel.Reorder.SwapStoreN
import OxiddModel.Reorder.SwapStoreNCheck

/-!
Line-protocol drivers `reorder-store-tdd` and `reorder-store-mtbdd`: the tree-level drivers `tdd`
(`OxiddModel.Tdd.step`) and `mtbdd` (`OxiddModel.Mtbdd.step`) with the `order v…` line answered by
the **store-level** model of `set_var_order` for nodes of any arity (`SwapStoreN.setVarOrderS`,
proved correct in `SetOrderNProof.lean`), instantiated with ternary nodes over `Tri` (TDD, children
`[t, u, e]`) and binary nodes over the terminal type of the manager (MTBDD, children `[t, e]`).

The operation files of the streams `tdd-histories` (`c11_tdd`) and `mtbdd-histories` (`c10_mtbdd`)
are replayed unchanged and the output must be identical to that of the real code:

* every line other than a valid `order` line with at least two variables goes to the existing
  `step` unchanged (so does the validation of the `order` line: the same expressions);
* for a valid `order` line with ≥ 2 variables
  1. the trees of all live handles (sorted by handle name) are hash-consed into a fresh
     `SStore` with `n` levels (`mkNodeN`: `reduce` = "all children equal ⇒ that child", `lookup` in
     the level's table, else the first free slot with counter 2), one owned edge per handle, so
     the reference counters are exact for the external counts `extList`;
  2. `checkInv k extList` is evaluated on that store (reason `pre-inv` if it fails);
  3. `setVarOrderS k Heap.firstFree id store l2v order` runs the bubble sort of lazy
     `level_swap`s, the level-view moves and `update_levels`;
  4. `checkInv k extList` is evaluated on the result (reason `inv`), and no slot of the result may
     be referenced by its unique table alone (counter 1; reason `garbage`): the fresh store holds
     no unreferenced node, and the orphan check of `level_swap` removes every node that loses its
     last reference (`SwapStoreNGarbage`), so none is left behind;
  5. the tree of every handle is read back from the result (`treeOfT`/`treeOfM`, fuel `n + 1`;
     reason `readback <name>`) and compared with the tree the tree-level driver computes for the
     same line (`reorderTree`; reason `tree <name>`), the level→variable list with the tree-level
     `newL2v` (reason `l2v`);
  6. the new state has `l2v := res.2`, `v2l` its inverse and the read-back trees as handles; the
     output line is the new level→variable list.
  Any failure prints `store-violation <reason>` instead (and continues with the tree-level state),
  so a divergence of the store model shows up at the `order` line itself.

The function that reorders the store is a parameter (`Svo`) of the generic part, so that a variant
of the model can be run through the same driver (mutation tests); the delivered protocols use
`setVarOrderS k Heap.firstFree id`.
-/
namespace OxiddModel.Reorder.SwapStoreN.Driver
open OxiddModel OxiddModel.Reorder.SwapStoreN

variable {T : Type} [DecidableEq T]

/-- `reduce` + `get_or_insert` with the owned child edges `cs`; returns an owned edge -/
def mkNodeN (s : SStore T) (lvl : Nat) (cs : List (Edge T)) : SStore T × Edge T :=
  match cs with
  | [] => (s, .inner 0)
  | x :: rest =>
    if rest.all (· == x) then (⟨decAll s.h rest, s.tables⟩, x)
    else
      match lookup s.h (s.table lvl) cs with
      | some j => (⟨incRc (decAll s.h cs) (.inner j), s.tables⟩, .inner j)
      | none =>
        let j := s.h.firstFree
        (⟨s.h.put j (some ⟨lvl, cs, 2⟩), s.tables.set lvl (j :: s.table lvl)⟩, .inner j)

/-- external handle counts per slot -/
def extList (h : Heap T) (es : List (Edge T)) : List Nat :=
  (List.range h.slots.length).map fun i => (es.filter (· == .inner i)).length

/-- the reordering function under test: store, level→variable list, request ↦ store, new list -/
abbrev Svo (T : Type) := SStore T → List Nat → List Nat → SStore T × List Nat

/-- steps 1–5 of the header for handles of tree type `τ`: the new level→variable list and the
read-back trees, or the reason of a violation -/
def viaStore {τ : Type} (k n : Nat) (svo : Svo T)
    (intern : SStore T → τ → SStore T × Edge T) (read : Heap T → Nat → Edge T → Option τ)
    (l2v order : List Nat) (hs : List (String × τ)) : Except String (List Nat × List (String × τ)) :=
  let s0 : SStore T := ⟨⟨[]⟩, List.replicate n []⟩
  let r := hs.foldl (fun (acc : SStore T × List (Edge T)) p =>
    let r := intern acc.1 p.2
    (r.1, r.2 :: acc.2)) (s0, [])
  let s1 := r.1
  let es := r.2.reverse
  if !checkInv k (extList s1.h es) s1 then .error "pre-inv"
  else
    let res := svo s1 l2v order
    if !checkInv k (extList res.1.h es) res.1 then .error "inv"
    else if (List.range res.1.h.slots.length).any (fun i => res.1.h.rcOf i == 1) then .error "garbage"
    else
      let rec back : List (String × τ) → List (Edge T) → Except String (List (String × τ))
        | p :: ps, e :: es =>
          match read res.1.h (n + 1) e with
          | some t =>
            match back ps es with
            | .ok l => .ok ((p.1, t) :: l)
            | .error m => .error m
          | none => .error s!"readback {p.1}"
        | _, _ => .ok []
      match back hs es with
      | .ok l => .ok (res.2, l)
      | .error m => .error m

/-- the inverse of a level→variable list (as the tree-level drivers compute it) -/
def invert (n : Nat) (l2v : Array Nat) : Array Nat := Id.run do
  let mut a := Array.replicate n 0
  for l in [0 : n] do
    a := a.set! (l2v.getD l 0) l
  return a

/-- the first handle whose tree differs from the tree-level result -/
def firstDiff {τ : Type} [BEq τ] (ref : Std.HashMap String τ) (hs : List (String × τ)) :
    Option String :=
  (hs.find? fun p => match ref.get? p.1 with
    | some t => !(t == p.2)
    | none => true).map (·.1)

def sortHs {τ : Type} (hs : Std.HashMap String τ) : List (String × τ) :=
  (hs.toList.toArray.qsort fun a b => a.1 < b.1).toList

/-! ## TDD -/

section
open OxiddModel.Tdd

/-- hash-cons a tree into the store; returns an owned edge -/
def internT (s : SStore Tri) : TD → SStore Tri × Edge Tri
  | .leaf v => (s, .term v)
  | .node l t u e =>
    let r1 := internT s t
    let r2 := internT r1.1 u
    let r3 := internT r2.1 e
    mkNodeN r3.1 l [r1.2, r2.2, r3.2]

/-- unfold an edge to the tree it denotes (fuel = maximal depth) -/
def treeOfT (h : Heap Tri) : Nat → Edge Tri → Option TD
  | _, .term v => some (.leaf v)
  | 0, .inner _ => none
  | f + 1, .inner i =>
    match h.get? i with
    | some n =>
      match n.ch with
      | [a, b, c] =>
        match treeOfT h f a, treeOfT h f b, treeOfT h f c with
        | some ta, some tb, some tc => some (.node n.level ta tb tc)
        | _, _, _ => none
      | _ => none
    | none => none

def stepTddWith (svo : Svo Tri) (s : Tdd.St) (line : String) : Tdd.St × String :=
  match s.nvars, words line with
  | some n, "order" :: ws =>
    match (ws.filter (fun w => !w.contains '=')).mapM pnat with
    | some order =>
      if order.all (· < n) && order.eraseDups.length == order.length
          && (ws.filter (fun w => w.contains '=')).all (fun w => w == "seq=1" || w == "seq=0") then
        -- the tree-level answer (reference for the comparison)
        let ref := Tdd.step s line
        if order.length ≤ 1 then ref
        else
          match viaStore 3 n svo internT treeOfT s.l2v.toList order (sortHs s.handles) with
          | .error m => (ref.1, "store-violation " ++ m)
          | .ok (l2v, hs) =>
            if l2v != ref.1.l2v.toList then (ref.1, "store-violation l2v")
            else
              match firstDiff ref.1.handles hs with
              | some nm => (ref.1, "store-violation tree " ++ nm)
              | none =>
                let l2v := l2v.toArray
                ({ s with l2v := l2v, v2l := invert n l2v, handles := Std.HashMap.ofList hs },
                  joinSp (l2v.toList.map toString))
      else Tdd.step s line
    | none => Tdd.step s line
  | _, _ => Tdd.step s line

def stepTdd : Tdd.St → String → Tdd.St × String :=
  stepTddWith (setVarOrderS 3 Heap.firstFree id)

def protoTdd : Proto := { σ := Tdd.St, init := {}, step := stepTdd }

end

/-! ## MTBDD -/

section
open OxiddModel.Mtbdd

/-- hash-cons a tree into the store; returns an owned edge -/
def internM (s : SStore T) : MT T → SStore T × Edge T
  | .leaf v => (s, .term v)
  | .node l t e =>
    let r1 := internM s t
    let r2 := internM r1.1 e
    mkNodeN r2.1 l [r1.2, r2.2]

/-- unfold an edge to the tree it denotes (fuel = maximal depth) -/
def treeOfM (h : Heap T) : Nat → Edge T → Option (MT T)
  | _, .term v => some (.leaf v)
  | 0, .inner _ => none
  | f + 1, .inner i =>
    match h.get? i with
    | some n =>
      match n.ch with
      | [a, b] =>
        match treeOfM h f a, treeOfM h f b with
        | some ta, some tb => some (.node n.level ta tb)
        | _, _ => none
      | _ => none
    | none => none

/-- the `order` line of `stepMgr` through the store -/
def stepMgrWith (svo : Svo T) (K : Kit T) (s : MS T) (ws : List String) : MS T × String :=
  match ws with
  | "order" :: rest =>
    match (rest.filter (fun w => !w.contains '=')).mapM String.toNat? with
    | none => stepMgr K s ws
    | some order =>
      if order.all (· < s.n) && order.eraseDups.length = order.length then
        let ref := stepMgr K s ws
        if order.length ≤ 1 then ref
        else
          match viaStore 2 s.n svo internM treeOfM s.l2v.toList order (sortHs s.hs) with
          | .error m => (ref.1, "store-violation " ++ m)
          | .ok (l2v, hs) =>
            if l2v != ref.1.l2v.toList then (ref.1, "store-violation l2v")
            else
              match firstDiff ref.1.hs hs with
              | some nm => (ref.1, "store-violation tree " ++ nm)
              | none =>
                let l2v := l2v.toArray
                ({ s with l2v := l2v, v2l := invert s.n l2v, hs := Std.HashMap.ofList hs },
                  joinSp (l2v.toList.map toString))
      else stepMgr K s ws
  | _ => stepMgr K s ws

def stepMtbddWith (svoI : Svo I64) (svoF : Svo UInt64) (s : Mtbdd.St) (line : String) :
    Mtbdd.St × String :=
  match words line with
  | "order" :: _ =>
    match s with
    | .none => Mtbdd.step s line
    | .i m => let (m', o) := stepMgrWith svoI i64Kit m (words line); (.i m', o)
    | .f m => let (m', o) := stepMgrWith svoF f64Kit m (words line); (.f m', o)
  | _ => Mtbdd.step s line

def stepMtbdd : Mtbdd.St → String → Mtbdd.St × String :=
  stepMtbddWith (setVarOrderS 2 Heap.firstFree id) (setVarOrderS 2 Heap.firstFree id)

def protoMtbdd : Proto := { σ := Mtbdd.St, init := .none, step := stepMtbdd }

end

end OxiddModel.Reorder.SwapStoreN.Driver
