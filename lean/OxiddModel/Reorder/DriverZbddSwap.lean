import OxiddModel.Util.Proto
import OxiddModel.Reorder.ZbddSwap

/-!
Protocol `zbdd-swap` (stream `zbdd-swap` of `c08_zbddswap`): one adjacent level swap of a ZBDD
through the real `set_var_order`, predicted by the diagram-level model of the code **as it is**
(`ZbddSwap.genericSwap`), wrong families included.

```text
mgr vars=<n>        -> ok
tt <hex>            -> "<tree> tt=<hex>"     the canonical ZBDD of the family under 0 < 1 < … < n-1
gc                  -> ok
swap <order …>      -> "<order> <tree> tt=<hex> kf|same"   the requested order must be the current
                       one with two adjacent variables exchanged; `kf` iff the family changed
```
-/
namespace OxiddModel.Reorder.DriverZbddSwap
open OxiddModel.Reorder.ZbddSwap

structure St where
  n : Nat := 0
  order : List Nat := []
  t : Option Z := none

def hexDigit (c : Char) : Option Nat :=
  if '0' ≤ c ∧ c ≤ '9' then some (c.toNat - '0'.toNat)
  else if 'a' ≤ c ∧ c ≤ 'f' then some (c.toNat - 'a'.toNat + 10)
  else none

def parseHex (s : String) : Option Nat :=
  if s.isEmpty then none
  else s.toList.foldl (fun acc c => match acc, hexDigit c with
    | some a, some d => some (a * 16 + d)
    | _, _ => none) (some 0)

def toHex (n : Nat) : String := String.ofList (Nat.toDigits 16 n)

def showZ : Z → String
  | .empty => "E"
  | .base => "B"
  | .node v hi lo => "(v" ++ toString v ++ " " ++ showZ hi ++ " " ++ showZ lo ++ ")"

/-- position of the first adjacent pair in which `new` differs from `cur` by a transposition -/
def findSwap : List Nat → List Nat → Option (Nat × Nat)
  | a :: b :: r, c :: d :: r' =>
    if a = c then findSwap (b :: r) (d :: r')
    else if a = d ∧ b = c ∧ r = r' then some (a, b) else none
  | _, _ => none

def stepWith (sw : Nat → Nat → Z → Z) (s : St) (line : String) : St × String :=
  match words line with
  | ["mgr", a] =>
    match (a.dropPrefix? "vars=").bind (fun r => r.toString.toNat?) with
    | some n => if 1 ≤ n ∧ n ≤ 5 then ({ n := n, order := List.range n, t := none }, "ok") else (s, "bad-op")
    | none => (s, "bad-op")
  | ["tt", h] =>
    match parseHex h with
    | some v =>
      if s.n = 0 then (s, "bad-op") else
      let t := build (List.range s.n) v
      ({ s with t := some t }, showZ t ++ " tt=" ++ toHex (table s.n t))
    | none => (s, "bad-op")
  | ["gc"] => if s.n = 0 then (s, "bad-op") else (s, "ok")
  | "swap" :: os =>
    match s.t with
    | none => (s, "bad-op")
    | some t =>
      let new := os.filterMap String.toNat?
      if new.length ≠ os.length ∨ new.length ≠ s.n then (s, "bad-op") else
      match findSwap s.order new with
      | none => (s, "bad-op")
      | some (x, y) =>
        let t' := sw x y t
        let before := table s.n t
        let after := table s.n t'
        ({ s with order := new, t := some t' },
          joinSp (new.map toString) ++ " " ++ showZ t' ++ " tt=" ++ toHex after ++
            (if after = before then " same" else " kf"))
  | _ => (s, "bad-op")

/-- the code as it is -/
def proto : Proto := { σ := St, init := {}, step := stepWith genericSwap }

/-- the repaired swap (`proposed_fix.diff` applied): protocol `zbdd-swap-fixed` -/
def protoFixed : Proto := { σ := St, init := {}, step := stepWith zbddSwap }

end OxiddModel.Reorder.DriverZbddSwap
