import OxiddModel.Reorder.Model

/-! Helper lemmas for the `set_var_order` model: counting sort (`positions`), indicators,
`minIndex`, bubble sort, adjacent swaps. -/
namespace OxiddModel.Reorder

/-! ## counting -/

/-- number of entries `< v` -/
def cntLt (l : List Nat) (v : Nat) : Nat := (l.filter (· < v)).length
/-- number of entries `= v` -/
def cntEq (l : List Nat) (v : Nat) : Nat := (l.filter (· == v)).length

@[simp] theorem cntLt_nil (v : Nat) : cntLt [] v = 0 := rfl
@[simp] theorem cntEq_nil (v : Nat) : cntEq [] v = 0 := rfl

theorem cntLt_cons (a : Nat) (l : List Nat) (v : Nat) :
    cntLt (a :: l) v = (if a < v then 1 else 0) + cntLt l v := by
  unfold cntLt
  by_cases h : a < v <;> simp [h] <;> omega

theorem cntEq_cons (a : Nat) (l : List Nat) (v : Nat) :
    cntEq (a :: l) v = (if a = v then 1 else 0) + cntEq l v := by
  unfold cntEq
  by_cases h : a = v <;> simp [h] <;> omega

theorem cntLt_add_cntEq_le (l : List Nat) {a b : Nat} (h : a < b) :
    cntLt l a + cntEq l a ≤ cntLt l b := by
  induction l with
  | nil => simp
  | cons x l ih =>
    rw [cntLt_cons, cntEq_cons, cntLt_cons]
    split <;> split <;> split <;> omega

theorem cntLt_add_cntEq_le_length (l : List Nat) (v : Nat) : cntLt l v + cntEq l v ≤ l.length := by
  induction l with
  | nil => simp
  | cons x l ih =>
    rw [cntLt_cons, cntEq_cons, List.length_cons]
    split <;> split <;> omega

theorem cntEq_take_lt (l : List Nat) (k : Nat) (h : k < l.length) :
    cntEq (l.take k) l[k] < cntEq l l[k] := by
  induction l generalizing k with
  | nil => simp at h
  | cons x l ih =>
    cases k with
    | zero => simp [cntEq_cons]; omega
    | succ k =>
      simp only [List.take_succ_cons, List.getElem_cons_succ, cntEq_cons]
      have := ih k (by simpa using h)
      omega

theorem cntEq_take_lt_take (l : List Nat) (j k : Nat) (hjk : j < k) (hk : k ≤ l.length) :
    cntEq (l.take j) (l[j]'(by omega)) < cntEq (l.take k) (l[j]'(by omega)) := by
  induction l generalizing j k with
  | nil => simp at hk; omega
  | cons x l ih =>
    cases k with
    | zero => omega
    | succ k =>
      cases j with
      | zero => simp [cntEq_cons]; omega
      | succ j =>
        simp only [List.take_succ_cons, List.getElem_cons_succ, cntEq_cons]
        have := ih j k (by omega) (by simpa using hk)
        omega

/-! ## `positions`: stable counting sort -/

theorem positions_go_length (ind rest seen : List Nat) :
    (positions.go ind rest seen).length = rest.length := by
  induction rest generalizing seen with
  | nil => simp [positions.go]
  | cons i rest ih => simp [positions.go, ih]

theorem positions_go_getElem (ind rest seen : List Nat) (k : Nat) (h : k < rest.length) :
    (positions.go ind rest seen)[k]'(by rw [positions_go_length]; exact h) =
      cntLt ind rest[k] + cntEq seen rest[k] + cntEq (rest.take k) rest[k] := by
  induction rest generalizing seen k with
  | nil => simp at h
  | cons i rest ih =>
    cases k with
    | zero => simp [positions.go, cntLt, cntEq]
    | succ k =>
      simp only [positions.go, List.getElem_cons_succ, List.take_succ_cons]
      rw [ih (i :: seen) k (by simpa using h), cntEq_cons, cntEq_cons]
      omega

@[simp] theorem positions_length (ind : List Nat) : (positions ind).length = ind.length :=
  positions_go_length ind ind []

/-- rank formula: the position of entry `k` is the number of smaller indicators plus the number
of equal indicators before it -/
theorem positions_getElem (ind : List Nat) (k : Nat) (h : k < ind.length) :
    (positions ind)[k]'(by simpa using h) = cntLt ind ind[k] + cntEq (ind.take k) ind[k] := by
  unfold positions
  rw [positions_go_getElem ind ind [] k h]
  simp

theorem positions_lt_of (ind : List Nat) (j k : Nat) (hj : j < ind.length) (hk : k < ind.length)
    (h : ind[j] < ind[k] ∨ (ind[j] = ind[k] ∧ j < k)) :
    (positions ind)[j]'(by simpa using hj) < (positions ind)[k]'(by simpa using hk) := by
  rw [positions_getElem ind j hj, positions_getElem ind k hk]
  rcases h with h | ⟨he, hlt⟩
  · have h1 := cntEq_take_lt ind j hj
    have h2 := cntLt_add_cntEq_le ind h
    omega
  · have h1 := cntEq_take_lt_take ind j k hlt (by omega)
    rw [← he]
    omega

/-- the order of the positions is the lexicographic order on (indicator, current level) -/
theorem positions_lt_iff (ind : List Nat) (j k : Nat) (hj : j < ind.length) (hk : k < ind.length) :
    (positions ind)[j]'(by simpa using hj) < (positions ind)[k]'(by simpa using hk) ↔
      (ind[j] < ind[k] ∨ (ind[j] = ind[k] ∧ j < k)) := by
  constructor
  · intro hlt
    rcases Nat.lt_trichotomy ind[j] ind[k] with h | h | h
    · exact .inl h
    · rcases Nat.lt_trichotomy j k with h' | h' | h'
      · exact .inr ⟨h, h'⟩
      · subst h'; omega
      · have := positions_lt_of ind k j hk hj (.inr ⟨h.symm, h'⟩); omega
    · have := positions_lt_of ind k j hk hj (.inl h); omega
  · exact positions_lt_of ind j k hj hk

theorem positions_lt_length (ind : List Nat) (k : Nat) (hk : k < ind.length) :
    (positions ind)[k]'(by simpa using hk) < ind.length := by
  rw [positions_getElem ind k hk]
  have h1 := cntEq_take_lt ind k hk
  have h2 := cntLt_add_cntEq_le_length ind ind[k]
  omega

theorem positions_nodup (ind : List Nat) : (positions ind).Nodup := by
  rw [List.nodup_iff_pairwise_ne, List.pairwise_iff_getElem]
  intro i j hi hj hij
  have hi' : i < ind.length := by simpa using hi
  have hj' : j < ind.length := by simpa using hj
  rcases Nat.lt_trichotomy ind[i] ind[j] with h | h | h
  · have := positions_lt_of ind i j hi' hj' (.inl h); omega
  · have := positions_lt_of ind i j hi' hj' (.inr ⟨h, hij⟩); omega
  · have := positions_lt_of ind j i hj' hi' (.inl h); omega

/-! ## indicators -/

theorem nodup_length_le_of_subset {l l' : List Nat} (hnd : l.Nodup) (hsub : ∀ x ∈ l, x ∈ l') :
    l.length ≤ l'.length := by
  induction l generalizing l' with
  | nil => simp
  | cons a l ih =>
    have ha : a ∈ l' := hsub a (by simp)
    rw [List.nodup_cons] at hnd
    have := ih (l' := l'.erase a) hnd.2 (fun x hx => by
      rw [List.mem_erase_of_ne (by rintro rfl; exact hnd.1 hx)]
      exact hsub x (by simp [hx]))
    rw [List.length_erase_of_mem ha] at this
    have : 0 < l'.length := List.length_pos_of_mem ha
    simp only [List.length_cons]; omega

/-- pigeonhole: a duplicate-free list of `n` numbers below `n` contains every number below `n` -/
theorem mem_of_nodup_full {n : Nat} {input : List Nat} (hnd : input.Nodup)
    (hlt : ∀ x ∈ input, x < n) (hlen : input.length = n) {l : Nat} (hl : l < n) : l ∈ input := by
  apply Classical.byContradiction
  intro hni
  have := nodup_length_le_of_subset (l' := (List.range n).erase l) hnd (fun x hx => by
    rw [List.mem_erase_of_ne (by rintro rfl; exact hni hx)]
    exact List.mem_range.2 (hlt x hx))
  rw [List.length_erase_of_mem (List.mem_range.2 hl), List.length_range] at this
  omega

theorem idxOf?_getElem_of_nodup {input : List Nat} (hnd : input.Nodup) (i : Nat)
    (hi : i < input.length) : input.idxOf? input[i] = some i := by
  rw [List.idxOf?_eq_some_iff]
  refine ⟨hi, rfl, fun j hj => ?_⟩
  rw [List.nodup_iff_pairwise_ne, List.pairwise_iff_getElem] at hnd
  exact hnd j i (by omega) hi hj

theorem idxOf?_of_mem {input : List Nat} {l : Nat} (h : l ∈ input) :
    ∃ i, ∃ hi : i < input.length, input.idxOf? l = some i ∧ input[i] = l := by
  cases hx : input.idxOf? l with
  | none => rw [List.idxOf?_eq_none_iff] at hx; exact absurd h hx
  | some i =>
    rw [List.idxOf?_eq_some_iff] at hx
    obtain ⟨hi, he, _⟩ := hx
    exact ⟨i, hi, rfl, he⟩

@[simp] theorem namedIndicators_length (n : Nat) (input : List Nat) :
    (namedIndicators n input).length = n := by simp [namedIndicators]

theorem namedIndicators_getElem (n : Nat) (input : List Nat) (l : Nat) (hl : l < n) :
    (namedIndicators n input)[l]'(by simpa using hl) = input.idxOf? l := by
  simp [namedIndicators]

/-- the cost array after the named levels in `pre` have been passed -/
def costAfter (pre : List (Option Nat)) (cost : List Int) : List Int :=
  pre.foldl (fun c o => match o with
    | some i => addSplit c (i + 1) 1 (-1)
    | none => c) cost

@[simp] theorem fillIndicators_length (named : List (Option Nat)) (cost : List Int) :
    (fillIndicators named cost).length = named.length := by
  induction named generalizing cost with
  | nil => simp [fillIndicators]
  | cons o rest ih => cases o <;> simp [fillIndicators, ih]

theorem fillIndicators_getElem_some (named : List (Option Nat)) (cost : List Int) (k i : Nat)
    (hk : k < named.length) (h : named[k] = some i) :
    (fillIndicators named cost)[k]'(by simpa using hk) = i := by
  induction named generalizing cost k with
  | nil => simp at hk
  | cons o rest ih =>
    cases k with
    | zero =>
      simp only [List.getElem_cons_zero] at h
      subst h; simp [fillIndicators]
    | succ k =>
      simp only [List.getElem_cons_succ] at h
      cases o with
      | none => simp only [fillIndicators, List.getElem_cons_succ]; exact ih _ k (by simpa using hk) h
      | some j => simp only [fillIndicators, List.getElem_cons_succ]; exact ih _ k (by simpa using hk) h

theorem fillIndicators_getElem_none (named : List (Option Nat)) (cost : List Int) (k : Nat)
    (hk : k < named.length) (h : named[k] = none) :
    (fillIndicators named cost)[k]'(by simpa using hk) = minIndex (costAfter (named.take k) cost) := by
  induction named generalizing cost k with
  | nil => simp at hk
  | cons o rest ih =>
    cases k with
    | zero =>
      simp only [List.getElem_cons_zero] at h
      subst h; simp [fillIndicators, costAfter]
    | succ k =>
      simp only [List.getElem_cons_succ] at h
      cases o with
      | none =>
        simp only [fillIndicators, List.getElem_cons_succ, List.take_succ_cons]
        rw [ih _ k (by simpa using hk) h]; rfl
      | some j =>
        simp only [fillIndicators, List.getElem_cons_succ, List.take_succ_cons]
        rw [ih _ k (by simpa using hk) h]; rfl

/-! ## adjacent swaps on lists -/

/-- swap the entries at positions `i` and `i+1` (identity if `i+1` is out of range): the effect
of `level_swap(i, i+1)` on the sequence of levels, and of `seq.swap(i, i+1)` -/
def swapAdj {α : Type} : Nat → List α → List α
  | _, [] => []
  | 0, [a] => [a]
  | 0, a :: b :: r => b :: a :: r
  | i + 1, a :: r => a :: swapAdj i r

/-- replay a list of adjacent swaps, first swap first -/
def applySwaps {α : Type} (sw : List Nat) (l : List α) : List α :=
  sw.foldl (fun l i => swapAdj i l) l

@[simp] theorem applySwaps_nil {α : Type} (l : List α) : applySwaps [] l = l := rfl
@[simp] theorem applySwaps_cons {α : Type} (i : Nat) (sw : List Nat) (l : List α) :
    applySwaps (i :: sw) l = applySwaps sw (swapAdj i l) := rfl
theorem applySwaps_append {α : Type} (sw sw' : List Nat) (l : List α) :
    applySwaps (sw ++ sw') l = applySwaps sw' (applySwaps sw l) := by
  simp [applySwaps, List.foldl_append]

@[simp] theorem swapAdj_length {α : Type} (i : Nat) (l : List α) : (swapAdj i l).length = l.length := by
  fun_induction swapAdj i l <;> simp_all

theorem swapAdj_perm {α : Type} (i : Nat) (l : List α) : (swapAdj i l).Perm l := by
  fun_induction swapAdj i l
  · exact .refl _
  · exact .refl _
  · exact .swap _ _ _
  · rename_i ih; exact .cons _ ih

theorem applySwaps_perm {α : Type} (sw : List Nat) (l : List α) : (applySwaps sw l).Perm l := by
  induction sw generalizing l with
  | nil => exact .refl _
  | cons i sw ih => exact (ih _).trans (swapAdj_perm i l)

@[simp] theorem applySwaps_length {α : Type} (sw : List Nat) (l : List α) :
    (applySwaps sw l).length = l.length := (applySwaps_perm sw l).length_eq

theorem swapAdj_append_left {α : Type} (pre l : List α) (i : Nat) :
    swapAdj (pre.length + i) (pre ++ l) = pre ++ swapAdj i l := by
  induction pre with
  | nil => simp
  | cons a pre ih =>
    have : (a :: pre).length + i = (pre.length + i) + 1 := by simp; omega
    rw [this]; simp [swapAdj, ih]

theorem swapAdj_of_le {α : Type} (i : Nat) (l : List α) (h : l.length ≤ i + 1) : swapAdj i l = l := by
  fun_induction swapAdj i l
  · rfl
  · rfl
  · simp at h
  · rename_i ih; rw [ih (by simp at h; omega)]

theorem getElem?_swapAdj {α : Type} (i : Nat) (l : List α) (h : i + 1 < l.length) (k : Nat) :
    (swapAdj i l)[k]? = if k = i then l[i + 1]? else if k = i + 1 then l[i]? else l[k]? := by
  fun_induction swapAdj i l generalizing k
  · simp at h
  · simp at h
  · match k with
    | 0 => simp
    | 1 => simp
    | k + 2 => simp
  · rename_i i a r ih
    match k with
    | 0 => simp
    | k + 1 =>
      simp only [List.getElem?_cons_succ]
      rw [ih (by simpa using h) k]
      simp

/-- **`swaps_commute`**: adjacent swaps at distance ≥ 2 (no common level) commute -/
theorem swapAdj_comm {α : Type} (i j : Nat) (l : List α) (h : i + 2 ≤ j) :
    swapAdj i (swapAdj j l) = swapAdj j (swapAdj i l) := by
  induction l generalizing i j with
  | nil => simp [swapAdj]
  | cons a l ih =>
    obtain ⟨j, rfl⟩ : ∃ j', j = j' + 2 := ⟨j - 2, by omega⟩
    cases i with
    | zero =>
      match l with
      | [] => simp [swapAdj]
      | b :: r => simp [swapAdj]
    | succ i =>
      simp only [swapAdj]
      rw [ih i (j + 1) (by omega)]

/-- an adjacent inversion at `i` -/
def IsInv (l : List Nat) (i : Nat) : Prop := ∃ h : i + 1 < l.length, l[i + 1] < l[i]

instance (l : List Nat) (i : Nat) : Decidable (IsInv l i) := by unfold IsInv; infer_instance

theorem isInv_append (pre : List Nat) (a b : Nat) (rest : List Nat) :
    IsInv (pre ++ a :: b :: rest) pre.length ↔ b < a := by
  unfold IsInv
  constructor
  · rintro ⟨_, h⟩
    simpa [List.getElem_append_right] using h
  · intro h
    exact ⟨by simp, by simpa [List.getElem_append_right] using h⟩

/-- every swap of the list is in range and exchanges an adjacent inversion of the sequence as it
is at that moment -/
def ValidSwaps : List Nat → List Nat → Prop
  | [], _ => True
  | i :: sw, l => IsInv l i ∧ ValidSwaps sw (swapAdj i l)

theorem validSwaps_append (sw sw' : List Nat) (l : List Nat) :
    ValidSwaps (sw ++ sw') l ↔ ValidSwaps sw l ∧ ValidSwaps sw' (applySwaps sw l) := by
  induction sw generalizing l with
  | nil => simp [ValidSwaps]
  | cons i sw ih => simp [ValidSwaps, ih, and_assoc]

/-! ## `bubble_sort` -/

theorem bubblePass_cc_fst (a b : Nat) (rest : List Nat) (i : Nat) :
    (bubblePass (a :: b :: rest) i).1 =
      if a > b then b :: (bubblePass (a :: rest) (i + 1)).1
      else a :: (bubblePass (b :: rest) (i + 1)).1 := by
  simp only [bubblePass]; split <;> rfl

theorem bubblePass_cc_sw (a b : Nat) (rest : List Nat) (i : Nat) :
    (bubblePass (a :: b :: rest) i).2.1 =
      if a > b then i :: (bubblePass (a :: rest) (i + 1)).2.1
      else (bubblePass (b :: rest) (i + 1)).2.1 := by
  simp only [bubblePass]; split <;> rfl

@[simp] theorem bubblePass_nil (i : Nat) : bubblePass [] i = ([], [], 0) := by simp [bubblePass]
@[simp] theorem bubblePass_single (a i : Nat) : bubblePass [a] i = ([a], [], 0) := by simp [bubblePass]

/-- replaying the swaps emitted by one pass yields the result of the pass, and every emitted
swap exchanges an inversion -/
theorem bubblePass_replay (l : List Nat) (i : Nat) (pre : List Nat) (hpre : pre.length = i) :
    applySwaps (bubblePass l i).2.1 (pre ++ l) = pre ++ (bubblePass l i).1 ∧
    ValidSwaps (bubblePass l i).2.1 (pre ++ l) := by
  match l with
  | [] => simp [ValidSwaps]
  | [a] => simp [ValidSwaps]
  | a :: b :: rest =>
    rw [bubblePass_cc_fst, bubblePass_cc_sw]
    split
    · rename_i hab
      have hsw : swapAdj i (pre ++ a :: b :: rest) = (pre ++ [b]) ++ a :: rest := by
        have := swapAdj_append_left pre (a :: b :: rest) 0
        simp only [Nat.add_zero, hpre] at this
        rw [this]; simp [swapAdj]
      have ih := bubblePass_replay (a :: rest) (i + 1) (pre ++ [b]) (by simp [hpre])
      simp only [applySwaps_cons, ValidSwaps, hsw]
      refine ⟨by rw [ih.1]; simp, ?_, ih.2⟩
      rw [← hpre, isInv_append]; exact hab
    · have ih := bubblePass_replay (b :: rest) (i + 1) (pre ++ [a]) (by simp [hpre])
      simp only [List.append_assoc, List.singleton_append] at ih
      exact ⟨ih.1, ih.2⟩
termination_by l.length

theorem bubblePass_perm (l : List Nat) (i : Nat) : (bubblePass l i).1.Perm l := by
  have := (bubblePass_replay l i (List.replicate i 0) (by simp)).1
  have h2 := applySwaps_perm (bubblePass l i).2.1 (List.replicate i 0 ++ l)
  rw [this] at h2
  exact (List.perm_append_left_iff _).1 h2

theorem bubblePass_mem (l : List Nat) (i : Nat) (x : Nat) : x ∈ (bubblePass l i).1 ↔ x ∈ l :=
  (bubblePass_perm l i).mem_iff

@[simp] theorem bubblePass_length (l : List Nat) (i : Nat) : (bubblePass l i).1.length = l.length :=
  (bubblePass_perm l i).length_eq

/-- a sorted sequence -/
abbrev Sorted (l : List Nat) : Prop := l.Pairwise (· ≤ ·)

/-- a pass without swaps means the sequence is sorted (and unchanged) -/
theorem bubblePass_noswap (l : List Nat) (i : Nat) (h : (bubblePass l i).2.1 = []) :
    Sorted l ∧ (bubblePass l i).1 = l := by
  match l with
  | [] => simp
  | [a] => simp
  | a :: b :: rest =>
    rw [bubblePass_cc_sw] at h
    rw [bubblePass_cc_fst]
    split at h
    · simp at h
    · rename_i hab
      have ih := bubblePass_noswap (b :: rest) (i + 1) h
      rw [if_neg hab, ih.2]
      refine ⟨?_, rfl⟩
      have hs := ih.1
      simp only [Sorted, List.pairwise_cons] at hs ⊢
      refine ⟨?_, hs⟩
      intro x hx
      rcases List.mem_cons.1 hx with rfl | hx
      · omega
      · have := hs.1 x hx; omega
termination_by l.length

/-- a pass leaves a sorted sequence unchanged -/
theorem bubblePass_sorted_id (a : Nat) (suf : List Nat) (i : Nat) (h : Sorted (a :: suf)) :
    (bubblePass (a :: suf) i).1 = a :: suf := by
  induction suf generalizing a i with
  | nil => simp
  | cons b r ih =>
    rw [bubblePass_cc_fst]
    simp only [Sorted, List.pairwise_cons] at h
    have hab : ¬ a > b := by have := h.1 b (by simp); omega
    rw [if_neg hab, ih b (i + 1) (by simp only [Sorted, List.pairwise_cons]; exact h.2)]

/-- a pass never touches a sorted suffix that dominates the prefix -/
theorem bubblePass_append_sorted (a : Nat) (l1 suf : List Nat) (i : Nat) (hs : Sorted suf)
    (hle : ∀ x ∈ a :: l1, ∀ y ∈ suf, x ≤ y) :
    (bubblePass (a :: l1 ++ suf) i).1 = (bubblePass (a :: l1) i).1 ++ suf := by
  induction l1 generalizing a i with
  | nil =>
    simp only [List.cons_append, List.nil_append, bubblePass_single]
    apply bubblePass_sorted_id
    simp only [Sorted, List.pairwise_cons]
    exact ⟨fun y hy => hle a (by simp) y hy, hs⟩
  | cons b r ih =>
    simp only [List.cons_append] at ih ⊢
    rw [bubblePass_cc_fst, bubblePass_cc_fst]
    split
    · rw [ih a (i + 1) (fun x hx => hle x (by
        rcases List.mem_cons.1 hx with rfl | hx <;> simp [*]))]
      rfl
    · rw [ih b (i + 1) (fun x hx => hle x (by simp [hx]))]
      rfl

/-- … and emits no swap there: restricting a pass to the unsorted prefix (what the Rust loop
does with `n = new_n`) emits the same swaps as a pass over the whole sequence (what `bubbleSort`
does) -/
theorem bubblePass_sorted_sw (a : Nat) (suf : List Nat) (i : Nat) (h : Sorted (a :: suf)) :
    (bubblePass (a :: suf) i).2.1 = [] := by
  induction suf generalizing a i with
  | nil => simp
  | cons b r ih =>
    rw [bubblePass_cc_sw]
    simp only [Sorted, List.pairwise_cons] at h
    have hab : ¬ a > b := by have := h.1 b (by simp); omega
    rw [if_neg hab, ih b (i + 1) (by simp only [Sorted, List.pairwise_cons]; exact h.2)]

theorem bubblePass_append_sorted_sw (a : Nat) (l1 suf : List Nat) (i : Nat) (hs : Sorted suf)
    (hle : ∀ x ∈ a :: l1, ∀ y ∈ suf, x ≤ y) :
    (bubblePass (a :: l1 ++ suf) i).2.1 = (bubblePass (a :: l1) i).2.1 := by
  induction l1 generalizing a i with
  | nil =>
    simp only [List.cons_append, List.nil_append, bubblePass_single]
    apply bubblePass_sorted_sw
    simp only [Sorted, List.pairwise_cons]
    exact ⟨fun y hy => hle a (by simp) y hy, hs⟩
  | cons b r ih =>
    simp only [List.cons_append] at ih ⊢
    rw [bubblePass_cc_sw, bubblePass_cc_sw]
    split
    · rw [ih a (i + 1) (fun x hx => hle x (by
        rcases List.mem_cons.1 hx with rfl | hx <;> simp [*]))]
    · rw [ih b (i + 1) (fun x hx => hle x (by simp [hx]))]

/-- after a pass the last entry is a maximum -/
theorem bubblePass_last_max (a : Nat) (l : List Nat) (i : Nat) :
    ∃ init m, (bubblePass (a :: l) i).1 = init ++ [m] ∧ ∀ x ∈ a :: l, x ≤ m := by
  induction l generalizing a i with
  | nil => exact ⟨[], a, by simp, by simp⟩
  | cons b r ih =>
    rw [bubblePass_cc_fst]
    split
    · rename_i hab
      obtain ⟨init, m, he, hm⟩ := ih a (i + 1)
      refine ⟨b :: init, m, by rw [he]; rfl, ?_⟩
      intro x hx
      simp only [List.mem_cons] at hx hm
      rcases hx with rfl | rfl | hx
      · exact hm x (.inl rfl)
      · have := hm a (.inl rfl); omega
      · exact hm x (.inr hx)
    · rename_i hab
      obtain ⟨init, m, he, hm⟩ := ih b (i + 1)
      refine ⟨a :: init, m, by rw [he]; rfl, ?_⟩
      intro x hx
      simp only [List.mem_cons] at hx hm
      rcases hx with rfl | rfl | hx
      · have := hm b (.inl rfl); omega
      · exact hm x (.inl rfl)
      · exact hm x (.inr hx)

/-- the last `k` entries are in their final place: sorted and above everything before them -/
def SufOK (k : Nat) (l : List Nat) : Prop :=
  ∃ pre suf, l = pre ++ suf ∧ (k ≤ suf.length ∨ pre = []) ∧ Sorted suf ∧
    ∀ x ∈ pre, ∀ y ∈ suf, x ≤ y

theorem sufOK_zero (l : List Nat) : SufOK 0 l :=
  ⟨l, [], by simp, .inl (by simp), by simp [Sorted], by simp⟩

theorem SufOK.sorted {k : Nat} {l : List Nat} (h : SufOK k l) (hk : l.length ≤ k) : Sorted l := by
  obtain ⟨pre, suf, rfl, hc, hs, _⟩ := h
  have : pre = [] := by
    rcases hc with hc | hc
    · simp only [List.length_append] at hk
      exact List.eq_nil_of_length_eq_zero (by omega)
    · exact hc
  subst this; simpa using hs

/-- one pass extends the finished suffix by one entry -/
theorem bubblePass_sufOK (k : Nat) (l : List Nat) (i : Nat) (h : SufOK k l) :
    SufOK (k + 1) (bubblePass l i).1 := by
  obtain ⟨pre, suf, rfl, hc, hs, hle⟩ := h
  match pre with
  | [] =>
    simp only [List.nil_append]
    match suf with
    | [] => exact ⟨[], [], by simp, .inr rfl, by simp [Sorted], by simp⟩
    | a :: suf =>
      rw [bubblePass_sorted_id a suf i hs]
      exact ⟨[], a :: suf, by simp, .inr rfl, hs, by simp⟩
  | a :: l1 =>
    have hk : k ≤ suf.length := by
      rcases hc with hc | hc
      · exact hc
      · simp at hc
    rw [bubblePass_append_sorted a l1 suf i hs hle]
    obtain ⟨init, m, he, hm⟩ := bubblePass_last_max a l1 i
    have hmem : ∀ x, x ∈ init ++ [m] → x ∈ a :: l1 := fun x hx => by
      rw [← he] at hx; exact (bubblePass_mem _ _ _).1 hx
    refine ⟨init, m :: suf, by rw [he]; simp, .inl (by simp; omega), ?_, ?_⟩
    · simp only [Sorted, List.pairwise_cons]
      exact ⟨fun y hy => hle m (hmem m (by simp)) y hy, hs⟩
    · intro x hx y hy
      have hx' := hmem x (by simp [hx])
      rcases List.mem_cons.1 hy with rfl | hy
      · exact hm x hx'
      · exact hle x hx' y hy

theorem bubbleSort_succ (fuel : Nat) (seq : List Nat) :
    bubbleSort (fuel + 1) seq =
      if (bubblePass seq 0).2.1.isEmpty then ((bubblePass seq 0).1, [])
      else ((bubbleSort fuel (bubblePass seq 0).1).1,
            (bubblePass seq 0).2.1 ++ (bubbleSort fuel (bubblePass seq 0).1).2) := by
  simp only [bubbleSort]

theorem bubbleSort_sorted_aux (fuel k : Nat) (l : List Nat) (h : SufOK k l)
    (hf : l.length ≤ fuel + k) : Sorted (bubbleSort fuel l).1 := by
  induction fuel generalizing k l with
  | zero => simp only [bubbleSort]; exact h.sorted (by omega)
  | succ fuel ih =>
    rw [bubbleSort_succ]
    split
    · rename_i he
      have := bubblePass_noswap l 0 (by simpa using he)
      rw [this.2]; exact this.1
    · exact ih (k + 1) _ (bubblePass_sufOK k l 0 h) (by simp; omega)

theorem bubbleSort_replay (fuel : Nat) (l : List Nat) :
    applySwaps (bubbleSort fuel l).2 l = (bubbleSort fuel l).1 ∧ ValidSwaps (bubbleSort fuel l).2 l := by
  induction fuel generalizing l with
  | zero => simp [bubbleSort, ValidSwaps]
  | succ fuel ih =>
    rw [bubbleSort_succ]
    have hp := bubblePass_replay l 0 [] rfl
    simp only [List.nil_append] at hp
    split
    · rename_i he
      have he' : (bubblePass l 0).2.1 = [] := by simpa using he
      have := bubblePass_noswap l 0 he'
      simp [ValidSwaps, this.2]
    · have := ih (bubblePass l 0).1
      simp only [applySwaps_append, validSwaps_append, hp.1]
      exact ⟨this.1, hp.2, this.2⟩

/-! ## inversion count: the number of adjacent swaps -/

/-- number of pairs `i < j` with `l[i] > l[j]` -/
def invCount : List Nat → Nat
  | [] => 0
  | a :: r => cntLt r a + invCount r

theorem cntLt_perm {l l' : List Nat} (h : l.Perm l') (v : Nat) : cntLt l v = cntLt l' v := by
  unfold cntLt; exact (h.filter _).length_eq

/-- swapping an adjacent inversion removes exactly one inversion -/
theorem invCount_swapAdj {l : List Nat} {i : Nat} (h : IsInv l i) :
    invCount (swapAdj i l) + 1 = invCount l := by
  induction l generalizing i with
  | nil => have := h.1; simp at this
  | cons a r ih =>
    cases i with
    | zero =>
      match r, h with
      | [], h => have := h.1; simp at this
      | b :: r', h =>
        obtain ⟨_, hlt⟩ := h
        simp only [List.getElem_cons_zero, List.getElem_cons_succ, Nat.zero_add] at hlt
        simp only [swapAdj, invCount, cntLt_cons]
        split <;> omega
    | succ i =>
      have h' : IsInv r i := by
        obtain ⟨h1, h2⟩ := h
        exact ⟨by simpa using h1, by simpa using h2⟩
      simp only [swapAdj, invCount]
      rw [cntLt_perm (swapAdj_perm i r) a]
      have := ih h'
      omega

theorem validSwaps_invCount {sw : List Nat} {l : List Nat} (h : ValidSwaps sw l) :
    sw.length + invCount (applySwaps sw l) = invCount l := by
  induction sw generalizing l with
  | nil => simp
  | cons i sw ih =>
    obtain ⟨hi, hrest⟩ := h
    have := ih hrest
    have := invCount_swapAdj hi
    simp only [List.length_cons, applySwaps_cons]
    omega

theorem invCount_sorted {l : List Nat} (h : Sorted l) : invCount l = 0 := by
  induction l with
  | nil => rfl
  | cons a r ih =>
    simp only [Sorted, List.pairwise_cons] at h
    simp only [invCount, ih h.2, Nat.add_zero]
    unfold cntLt
    rw [List.length_eq_zero_iff, List.filter_eq_nil_iff]
    intro x hx
    have := h.1 x hx
    simp; omega

/-! ## the cost array: `minIndex`, `addSplit`, `costAfter` -/

/-- entry `k` of a cost array (0 outside) -/
def cAt (c : List Int) (k : Nat) : Int := c[k]?.getD 0

theorem cAt_append_left (pre xs : List Int) {k : Nat} (h : k < pre.length) :
    cAt (pre ++ xs) k = cAt pre k := by
  simp [cAt, List.getElem?_append, h]

theorem cAt_append_length (pre : List Int) (x : Int) (xs : List Int) :
    cAt (pre ++ x :: xs) pre.length = x := by
  simp [cAt]

/-- `r` is the left-most index of a minimum of `c` -/
def IsLeftmostMin (c : List Int) (r : Nat) : Prop :=
  r < c.length ∧ ∀ k, k < c.length → cAt c r ≤ cAt c k ∧ (k < r → cAt c r < cAt c k)

theorem minIndexAux_spec (pre xs : List Int) (best : Nat) (bv : Int) (hb : best < pre.length)
    (hbv : cAt pre best = bv)
    (hmin : ∀ k, k < pre.length → bv ≤ cAt pre k ∧ (k < best → bv < cAt pre k)) :
    IsLeftmostMin (pre ++ xs) (minIndexAux xs pre.length best bv) := by
  induction xs generalizing pre best bv with
  | nil =>
    simp only [minIndexAux, List.append_nil]
    exact ⟨hb, fun k hk => by rw [hbv]; exact hmin k hk⟩
  | cons x xs ih =>
    have hlen : (pre ++ [x]).length = pre.length + 1 := by simp
    have hx : cAt (pre ++ [x]) pre.length = x := cAt_append_length pre x []
    have hc : pre ++ x :: xs = (pre ++ [x]) ++ xs := by simp
    simp only [minIndexAux]
    split
    · rename_i hlt
      rw [hc, ← hlen]
      apply ih (pre ++ [x]) pre.length x (by omega) hx
      intro k hk
      by_cases hkp : k < pre.length
      · rw [cAt_append_left pre [x] hkp]
        have := (hmin k hkp).1
        exact ⟨by omega, fun _ => by omega⟩
      · have : k = pre.length := by omega
        subst this; rw [hx]; exact ⟨Int.le_refl _, fun h => absurd h (Nat.lt_irrefl _)⟩
    · rename_i hge
      rw [hc, ← hlen]
      apply ih (pre ++ [x]) best bv (by omega) (by rw [cAt_append_left pre [x] hb]; exact hbv)
      intro k hk
      by_cases hkp : k < pre.length
      · rw [cAt_append_left pre [x] hkp]; exact hmin k hkp
      · have : k = pre.length := by omega
        subst this; rw [hx]; exact ⟨by omega, fun h => by omega⟩

/-- `min_index` returns the left-most minimum -/
theorem minIndex_spec (c : List Int) (h : c ≠ []) : IsLeftmostMin c (minIndex c) := by
  match c, h with
  | x :: xs, _ =>
    simp only [minIndex]
    have := minIndexAux_spec [x] xs 0 x (by simp) (by simp [cAt]) (fun k hk => by
      have : k = 0 := by simpa using hk
      subst this; simp [cAt])
    simpa using this

@[simp] theorem addSplit_length (c : List Int) (i : Nat) (l r : Int) :
    (addSplit c i l r).length = c.length := by simp [addSplit]

theorem cAt_addSplit (c : List Int) (i : Nat) (l r : Int) (k : Nat) (hk : k < c.length) :
    cAt (addSplit c i l r) k = cAt c k + (if k < i then l else r) := by
  simp only [cAt, addSplit, List.getElem?_mapIdx, List.getElem?_eq_getElem hk, Option.map_some,
    Option.getD_some]
  split <;> rfl

/-- number of named levels in `pre` whose indicator is `≥ q` -/
def namedGe (pre : List (Option Nat)) (q : Nat) : Nat :=
  pre.countP fun o => match o with
    | some i => decide (q ≤ i)
    | none => false

/-- number of named levels in `pre` whose indicator is `< q` -/
def namedLt (pre : List (Option Nat)) (q : Nat) : Nat :=
  pre.countP fun o => match o with
    | some i => decide (i < q)
    | none => false

@[simp] theorem costAfter_length (pre : List (Option Nat)) (cost : List Int) :
    (costAfter pre cost).length = cost.length := by
  induction pre generalizing cost with
  | nil => rfl
  | cons o pre ih => cases o <;> simp [costAfter, List.foldl_cons] at ih ⊢ <;> simp [ih]

/-- the invariant of the cost array: every named level passed so far has added `+1` to the
insertion points at or above it (`q ≤ i`) and `-1` to those below it -/
theorem cAt_costAfter (pre : List (Option Nat)) (cost : List Int) (q : Nat) (hq : q < cost.length) :
    cAt (costAfter pre cost) q = cAt cost q + namedGe pre q - namedLt pre q := by
  induction pre generalizing cost with
  | nil => simp [costAfter, namedGe, namedLt]
  | cons o pre ih =>
    cases o with
    | none =>
      have : costAfter (none :: pre) cost = costAfter pre cost := rfl
      rw [this, ih cost hq]
      simp [namedGe, namedLt]
    | some i =>
      have : costAfter (some i :: pre) cost = costAfter pre (addSplit cost (i + 1) 1 (-1)) := rfl
      rw [this, ih _ (by simpa using hq), cAt_addSplit _ _ _ _ _ hq]
      simp only [namedGe, namedLt, List.countP_cons]
      by_cases h : q ≤ i
      · have h1 : q < i + 1 := by omega
        have h2 : ¬ i < q := by omega
        simp [h, h1, h2]; omega
      · have h1 : ¬ q < i + 1 := by omega
        have h2 : i < q := by omega
        simp [h, h1, h2]; omega

theorem cAt_rangeCost (m q : Nat) (hq : q ≤ m) :
    cAt ((List.range (m + 1)).map Int.ofNat) q = q := by
  simp [cAt, List.getElem?_range (by omega : q < m + 1)]

/-! ## how many named levels have an indicator below `q` -/

theorem countP_mem_cons (L T : List Nat) (t : Nat) (ht : t ∉ T) :
    L.countP (fun a => decide (a ∈ t :: T)) = L.count t + L.countP (fun a => decide (a ∈ T)) := by
  induction L with
  | nil => simp
  | cons a L ih =>
    simp only [List.countP_cons, List.count_cons, ih]
    by_cases hat : a = t
    · subst hat; simp [ht]; omega
    · have : ¬ (a == t) = true := by simpa using hat
      simp [hat]; omega

theorem countP_mem_range (n : Nat) (T : List Nat) (hnd : T.Nodup) (hlt : ∀ x ∈ T, x < n) :
    (List.range n).countP (fun a => decide (a ∈ T)) = T.length := by
  induction T with
  | nil => simp
  | cons t T ih =>
    rw [List.nodup_cons] at hnd
    rw [countP_mem_cons _ _ _ hnd.1, ih hnd.2 (fun x hx => hlt x (by simp [hx])), List.count_range]
    have := hlt t (by simp)
    simp [this]; omega

/-- the named levels carry the indicators `0 … m-1`, each once: `q` of them are below `q` -/
theorem namedLt_namedIndicators {n : Nat} {input : List Nat} (hnd : input.Nodup)
    (hlt : ∀ x ∈ input, x < n) (q : Nat) (hq : q ≤ input.length) :
    namedLt (namedIndicators n input) q = q := by
  unfold namedLt namedIndicators
  rw [List.countP_map]
  have hT := countP_mem_range n (input.take q) (hnd.sublist (List.take_sublist _ _))
    (fun x hx => hlt x (List.mem_of_mem_take hx))
  rw [List.length_take, Nat.min_eq_left hq] at hT
  rw [← hT]
  apply List.countP_congr
  intro a _
  simp only [Function.comp]
  cases hx : input.idxOf? a with
  | none =>
    rw [List.idxOf?_eq_none_iff] at hx
    simp only [Bool.false_eq_true, decide_eq_true_eq, false_iff]
    exact fun h => hx (List.mem_of_mem_take h)
  | some i =>
    rw [List.idxOf?_eq_some_iff] at hx
    obtain ⟨hi, he, _⟩ := hx
    simp only [decide_eq_true_eq]
    constructor
    · intro hiq
      rw [List.mem_take_iff_getElem]
      exact ⟨i, by omega, he⟩
    · intro hmem
      rw [List.mem_take_iff_getElem] at hmem
      obtain ⟨j, hj, hje⟩ := hmem
      have hj' : j < input.length := by omega
      have h1 := idxOf?_getElem_of_nodup hnd j hj'
      have h2 := idxOf?_getElem_of_nodup hnd i hi
      rw [hje] at h1; rw [he] at h2
      rw [h1] at h2; cases h2; omega

end OxiddModel.Reorder
