import OxiddModel.Reorder.Properties
import OxiddModel.Reorder.MinSwapsSum

/-!
# The combinatorial half of the global minimality of `sort_order` (C08)

* `indicators_mono`: the left-most minima chosen for the unnamed levels are monotone along the
  walk over the current order (the cost array an unnamed level sees differs from the one an
  earlier unnamed level saw by a non-increasing function of the insertion point), hence the
  target order has **no inversion between two unnamed levels**;
* `indicator_ne_named_above`: an unnamed level never gets the indicator of a named level above
  it (it would be cheaper by one to be inserted below that level), hence an unnamed level with
  indicator `p` is really inserted *between* the named levels `p-1` and `p`
  (`sortOrder_named_vs_unnamed`), as the Rust comment says;
* `mix_eq_gap`/`gap_eq_crossCost`: the number of named levels an unnamed level `l` forms an
  inversion with, under **any** target order respecting the request, is `crossCost l q` for the
  gap `q` of the named sequence into which the order puts `l` (`gap_of_respects`).
-/
namespace OxiddModel.Reorder

/-! ## `namedGe`/`namedLt` -/

theorem namedGe_append (x y : List (Option Nat)) (q : Nat) :
    namedGe (x ++ y) q = namedGe x q + namedGe y q := by
  simp [namedGe, List.countP_append]

theorem namedLt_append (x y : List (Option Nat)) (q : Nat) :
    namedLt (x ++ y) q = namedLt x q + namedLt y q := by
  simp [namedLt, List.countP_append]

theorem namedGe_anti (y : List (Option Nat)) {q q' : Nat} (h : q ≤ q') :
    namedGe y q' ≤ namedGe y q := by
  unfold namedGe
  apply List.countP_mono_left
  intro o _
  cases o with
  | none => simp
  | some i => simp only [decide_eq_true_eq]; omega

theorem namedLt_mono (y : List (Option Nat)) {q q' : Nat} (h : q ≤ q') :
    namedLt y q ≤ namedLt y q' := by
  unfold namedLt
  apply List.countP_mono_left
  intro o _
  cases o with
  | none => simp
  | some i => simp only [decide_eq_true_eq]; omega

theorem namedGe_succ (pre : List (Option Nat)) (p : Nat) :
    namedGe pre p = namedGe pre (p + 1) + pre.count (some p) := by
  induction pre with
  | nil => rfl
  | cons o pre ih =>
    have e1 : ∀ q, namedGe (o :: pre) q = namedGe pre q +
        (match o with | some i => if q ≤ i then 1 else 0 | none => 0) := by
      intro q
      cases o with
      | none => simp [namedGe]
      | some i => simp only [namedGe, List.countP_cons]; by_cases h : q ≤ i <;> simp [h]
    rw [e1, e1, List.count_cons, ih]
    cases o with
    | none => simp
    | some i =>
      by_cases h1 : i = p
      · subst h1
        have : ¬ i + 1 ≤ i := by omega
        simp [this]; omega
      · have : ¬ (some i == some p) = true := by simpa using h1
        simp only [this]
        by_cases h2 : p ≤ i
        · have : p + 1 ≤ i := by omega
          simp [h2, this]; omega
        · have : ¬ p + 1 ≤ i := by omega
          simp [h2, this]

theorem namedLt_succ (pre : List (Option Nat)) (p : Nat) :
    namedLt pre (p + 1) = namedLt pre p + pre.count (some p) := by
  induction pre with
  | nil => rfl
  | cons o pre ih =>
    have e1 : ∀ q, namedLt (o :: pre) q = namedLt pre q +
        (match o with | some i => if i < q then 1 else 0 | none => 0) := by
      intro q
      cases o with
      | none => simp [namedLt]
      | some i => simp only [namedLt, List.countP_cons]; by_cases h : i < q <;> simp [h]
    rw [e1, e1, List.count_cons, ih]
    cases o with
    | none => simp
    | some i =>
      by_cases h1 : i = p
      · subst h1; simp; omega
      · have : ¬ (some i == some p) = true := by simpa using h1
        simp only [this]
        by_cases h2 : i < p
        · have : i < p + 1 := by omega
          simp [h2, this]; omega
        · have : ¬ i < p + 1 := by omega
          simp [h2, this]

/-! ## the left-most minima are monotone along the walk -/

/-- the cost array at a later level differs from the one at an earlier level by the
contributions of the named levels in between -/
theorem crossCost_shift (n : Nat) (input : List Nat) (a b : Nat) (hab : a ≤ b) :
    ∃ mid : List (Option Nat), ∀ q, crossCost n input b q =
      crossCost n input a q + namedGe mid q - namedLt mid q := by
  refine ⟨((namedIndicators n input).take b).drop a, fun q => ?_⟩
  have hsplit : (namedIndicators n input).take b =
      (namedIndicators n input).take a ++ ((namedIndicators n input).take b).drop a := by
    have h := List.take_append_drop a ((namedIndicators n input).take b)
    rw [List.take_take, Nat.min_eq_left hab] at h
    exact h.symm
  unfold crossCost
  rw [hsplit, namedGe_append, namedLt_append]
  rw [← hsplit]
  omega

theorem unnamed_length_ne {n : Nat} {input : List Nat} (hnd : input.Nodup)
    (hlt : ∀ x ∈ input, x < n) {l : Nat} (hl : l < n) (hun : l ∉ input) : input.length ≠ n :=
  fun h => hun (mem_of_nodup_full hnd hlt h hl)

/-- **the indicators of the unnamed levels are monotone in the current order**: an unnamed
level never has to overtake another unnamed level. -/
theorem indicators_mono (n : Nat) (input : List Nat) (a b : Nat) (hab : a < b) (hb : b < n)
    (hua : a ∉ input) (hub : b ∉ input) :
    (indicators n input)[a]'(by simp; omega) ≤ (indicators n input)[b]'(by simpa using hb) := by
  have ha : a < n := by omega
  obtain ⟨hpa, _, hmina⟩ := sortOrder_min_partial n input a ha hua
  obtain ⟨hpb, hminb, _⟩ := sortOrder_min_partial n input b hb hub
  obtain ⟨mid, hmid⟩ := crossCost_shift n input a b (by omega)
  apply Classical.byContradiction
  intro hlt
  have hlt' : (indicators n input)[b]'(by simpa using hb) <
      (indicators n input)[a]'(by simp; omega) := by omega
  have h1 := hmina _ hlt'
  have h2 := hminb _ hpa
  have h3 := namedGe_anti mid (Nat.le_of_lt hlt')
  have h4 := namedLt_mono mid (Nat.le_of_lt hlt')
  rw [hmid, hmid] at h2
  omega

/-! ## an unnamed level with indicator `p` goes between the named levels `p-1` and `p` -/

theorem indicators_of_idxOf {n : Nat} {input : List Nat} {a i : Nat} (ha : a < n)
    (h : input.idxOf? a = some i) : (indicators n input)[a]'(by simpa using ha) = i := by
  apply fillIndicators_getElem_some _ _ _ _ (by simpa using ha)
  rw [namedIndicators_getElem _ _ _ ha]
  exact h

/-- an unnamed level never gets the indicator of a named level above it -/
theorem indicator_ne_named_above (n : Nat) (input : List Nat) (l : Nat) (hl : l < n)
    (hun : l ∉ input) (a i : Nat) (hal : a < l) (hi : input.idxOf? a = some i) :
    (indicators n input)[l]'(by simpa using hl) ≠ i := by
  intro hp
  obtain ⟨_, hmin, _⟩ := sortOrder_min_partial n input l hl hun
  have him : i < input.length := by
    rw [List.idxOf?_eq_some_iff] at hi; exact hi.1
  have h1 := hmin (i + 1) (by omega)
  rw [hp] at h1
  have hmem : some i ∈ (namedIndicators n input).take l := by
    rw [List.mem_take_iff_getElem]
    refine ⟨a, by simp; omega, ?_⟩
    rw [namedIndicators_getElem _ _ _ (by omega)]
    exact hi
  have hc := List.count_pos_iff.2 hmem
  have h2 := namedGe_succ ((namedIndicators n input).take l) i
  have h3 := namedLt_succ ((namedIndicators n input).take l) i
  unfold crossCost at h1
  omega

/-- where `sort_order` puts a named level (index `i` in the request) relative to an unnamed
level `l` with indicator `p`: above it iff `i < p` -/
theorem sortOrder_named_vs_unnamed (n : Nat) (input : List Nat) (hnd : input.Nodup)
    (hlt : ∀ x ∈ input, x < n) (l : Nat) (hl : l < n) (hun : l ∉ input)
    (a i : Nat) (ha : a < n) (hi : input.idxOf? a = some i) :
    ((sortOrder n input)[a]'(by rw [sortOrder_length]; exact ha) <
        (sortOrder n input)[l]'(by rw [sortOrder_length]; exact hl) ↔
      i < (indicators n input)[l]'(by simpa using hl)) ∧
    ((sortOrder n input)[l]'(by rw [sortOrder_length]; exact hl) <
        (sortOrder n input)[a]'(by rw [sortOrder_length]; exact ha) ↔
      (indicators n input)[l]'(by simpa using hl) ≤ i) := by
  have hlen := unnamed_length_ne hnd hlt hl hun
  have hia := indicators_of_idxOf (n := n) ha hi
  have hne : a ≠ l := by
    rintro rfl
    rw [List.idxOf?_eq_some_iff] at hi
    exact hun (hi.2.1 ▸ List.getElem_mem hi.1)
  have habove : a < l → (indicators n input)[l]'(by simpa using hl) ≠ i :=
    fun hal => indicator_ne_named_above n input l hl hun a i hal hi
  rw [sortOrder_lt_iff n input hlen a l ha hl, sortOrder_lt_iff n input hlen l a hl ha, hia]
  constructor
  · constructor
    · rintro (h | ⟨h1, h2⟩)
      · exact h
      · exact absurd h1.symm (habove h2)
    · exact fun h => .inl h
  · constructor
    · rintro (h | ⟨h1, _⟩) <;> omega
    · intro h
      rcases Nat.lt_or_ge ((indicators n input)[l]'(by simpa using hl)) i with h' | h'
      · exact .inl h'
      · refine .inr ⟨by omega, ?_⟩
        rcases Nat.lt_or_ge l a with h'' | h''
        · exact h''
        · exact absurd (by omega) (habove (by omega))

/-! ## crossings of an unnamed level under an arbitrary target order -/

/-- is the level named in the request? -/
def isNamed (input : List Nat) (a : Nat) : Bool := (input.idxOf? a).isSome

theorem isNamed_eq_false {input : List Nat} {a : Nat} : isNamed input a = false ↔ a ∉ input := by
  unfold isNamed
  rw [Option.isSome_eq_false_iff, Option.isNone_iff_eq_none, List.idxOf?_eq_none_iff]

theorem isNamed_eq_true {input : List Nat} {a : Nat} (h : isNamed input a = true) :
    ∃ i, ∃ hi : i < input.length, input.idxOf? a = some i ∧ input[i] = a := by
  apply idxOf?_of_mem
  apply Classical.byContradiction
  intro hn
  rw [isNamed_eq_false.2 hn] at h
  exact Bool.noConfusion h

/-- contribution of level `a` to the cost of inserting level `l` into gap `q` of the named
sequence: `1` if `a` is named and has to be crossed -/
def gapCost (input : List Nat) (l q a : Nat) : Nat :=
  match input.idxOf? a with
  | some i => (if a < l ∧ q ≤ i then 1 else 0) + (if l < a ∧ i < q then 1 else 0)
  | none => 0

/-- if `f` puts `l` into gap `q` of the named sequence, the named levels `l` is inverted with
are counted by `gapCost` -/
theorem mix_eq_gap (input : List Nat) (f : Nat → Nat) (n l q : Nat)
    (h : ∀ a i, a < n → input.idxOf? a = some i → (f a < f l ↔ i < q) ∧ (f l < f a ↔ q ≤ i)) :
    mix (isNamed input) f n l = sumTo n (gapCost input l q) := by
  unfold mix
  apply sumTo_congr
  intro a ha
  unfold gapCost isNamed
  cases hx : input.idxOf? a with
  | none => simp
  | some i =>
    obtain ⟨h1, h2⟩ := h a i ha hx
    simp only [Option.isSome_some, if_true, inv1, h1, h2]

theorem countP_namedIndicators_take (n : Nat) (input : List Nat) (p : Option Nat → Bool) (k : Nat)
    (hk : k ≤ n) :
    ((namedIndicators n input).take k).countP p =
      sumTo n (fun a => if a < k then (if p (input.idxOf? a) then 1 else 0) else 0) := by
  unfold namedIndicators
  rw [← List.map_take, List.take_range, Nat.min_eq_left hk, List.countP_map,
    countP_range_eq_sumTo, sumTo_restrict_lt n k hk]
  rfl

theorem countP_namedIndicators_drop (n : Nat) (input : List Nat) (p : Option Nat → Bool) (k : Nat)
    (hk : k ≤ n) :
    ((namedIndicators n input).drop k).countP p =
      sumTo n (fun a => if a < k then 0 else (if p (input.idxOf? a) then 1 else 0)) := by
  have h1 := countP_namedIndicators_take n input p k hk
  have h2 := countP_namedIndicators_take n input p n (Nat.le_refl _)
  rw [List.take_of_length_le (by simp)] at h2
  have h3 : (namedIndicators n input).countP p =
      ((namedIndicators n input).take k).countP p + ((namedIndicators n input).drop k).countP p := by
    rw [← List.countP_append, List.take_append_drop]
  have h4 := sumTo_split_at n k (fun a => if p (input.idxOf? a) then 1 else 0)
  have h5 : sumTo n (fun a => if a < n then (if p (input.idxOf? a) then 1 else 0) else 0) =
      sumTo n (fun a => if p (input.idxOf? a) then 1 else 0) :=
    sumTo_congr (fun a ha => by simp [ha])
  omega

/-- the `gapCost` sum is `crossCost` (the value of `sort_order`'s cost array) -/
theorem gap_eq_crossCost (n : Nat) (input : List Nat) (hnd : input.Nodup)
    (hlt : ∀ x ∈ input, x < n) (l : Nat) (hl : l < n) (hun : l ∉ input)
    (q : Nat) (hq : q ≤ input.length) :
    (sumTo n (gapCost input l q) : Int) = crossCost n input l q := by
  rw [crossCost_eq_crossings n input hnd hlt l hl hun q hq]
  unfold namedGe namedLt
  rw [countP_namedIndicators_take n input _ l (by omega),
    countP_namedIndicators_drop n input _ (l + 1) (by omega), ← Int.natCast_add, ← sumTo_add]
  congr 1
  apply sumTo_congr
  intro a _
  unfold gapCost
  cases hx : input.idxOf? a with
  | none => simp
  | some i =>
    by_cases h1 : a < l
    · have h2 : a < l + 1 := by omega
      have h3 : ¬ l < a := by omega
      simp [h1, h2, h3]
    · by_cases h2 : a < l + 1
      · have h3 : ¬ l < a := by omega
        simp [h1, h2, h3]
      · have h3 : l < a := by omega
        simp [h1, h2, h3]

/-- a function that respects the request is strictly monotone along the request -/
theorem respects_lt_iff (input : List Nat) (f : Nat → Nat)
    (hresp : ∀ i j, (hij : i < j) → (hj : j < input.length) → f (input[i]'(by omega)) < f input[j])
    (i j : Nat) (hi : i < input.length) (hj : j < input.length) :
    f input[j] < f input[i] ↔ j < i := by
  constructor
  · intro h
    rcases Nat.lt_trichotomy i j with h' | h' | h'
    · have := hresp i j h' hj; omega
    · subst h'; omega
    · exact h'
  · intro h; exact hresp j i h hi

/-- **every target order that respects the request puts each other level into a gap of the
named sequence**: with `q` the index of the first named level below `l`, exactly the named
levels with index `< q` are above `l` -/
theorem gap_of_respects (input : List Nat) (f : Nat → Nat) (l : Nat)
    (hresp : ∀ i j, (hij : i < j) → (hj : j < input.length) → f (input[i]'(by omega)) < f input[j])
    (hinj : ∀ i (hi : i < input.length), f input[i] ≠ f l) :
    input.findIdx (fun x => decide (f l < f x)) ≤ input.length ∧
    ∀ i (hi : i < input.length),
      (f input[i] < f l ↔ i < input.findIdx (fun x => decide (f l < f x))) ∧
      (f l < f input[i] ↔ input.findIdx (fun x => decide (f l < f x)) ≤ i) := by
  refine ⟨List.findIdx_le_length, fun i hi => ?_⟩
  have hlow : i < input.findIdx (fun x => decide (f l < f x)) → f input[i] < f l := by
    intro h
    have h1 := List.not_of_lt_findIdx h
    have h2 := hinj i hi
    simp only [decide_eq_false_iff_not] at h1
    omega
  have hhigh : input.findIdx (fun x => decide (f l < f x)) ≤ i → f l < f input[i] := by
    intro h
    have hq : input.findIdx (fun x => decide (f l < f x)) < input.length := by omega
    have h1 := List.findIdx_getElem (p := fun x => decide (f l < f x)) (w := hq)
    simp only [decide_eq_true_eq] at h1
    rcases Nat.lt_or_ge (input.findIdx (fun x => decide (f l < f x))) i with h' | h'
    · have := hresp _ i h' hi; omega
    · have : input.findIdx (fun x => decide (f l < f x)) = i := by omega
      simp only [this] at h1
      exact h1
  constructor
  · constructor
    · intro h
      apply Classical.byContradiction
      intro hn
      have := hhigh (by omega); omega
    · exact hlow
  · constructor
    · intro h
      apply Classical.byContradiction
      intro hn
      have := hlow (by omega); omega
    · exact hhigh

end OxiddModel.Reorder
