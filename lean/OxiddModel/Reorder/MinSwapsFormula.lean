import OxiddModel.Reorder.MinSwapsCost
import OxiddModel.Reorder.MinSwapsSwaps

/-!
# The three parts of the inversion count of `sort_order`'s result, and sublists (C08)

The three classes of pairs (`invF_split`) evaluated for the order computed by `sortOrder`:
named–named pairs are counted by `namedInv` (a function of the request alone), there is no
unnamed–unnamed inversion, and an unnamed level `l` contributes `gapCost` of its indicator.
Also: the inversion count of a sublist is at most that of the list (`invCount_sublist`), for the
`level_swap` calls on the non-empty levels.
-/
namespace OxiddModel.Reorder

/-- the order computed by `sort_order`, as a function (0 outside) -/
def sortFn (n : Nat) (input : List Nat) (a : Nat) : Nat := (sortOrder n input).getD a 0

theorem sortFn_eq (n : Nat) (input : List Nat) (a : Nat) (ha : a < n) :
    sortFn n input a = (sortOrder n input)[a]'(by rw [sortOrder_length]; exact ha) :=
  getD_of_lt _ _ _

theorem sortFn_respects (n : Nat) (input : List Nat) (hnd : input.Nodup)
    (hlt : ∀ x ∈ input, x < n) :
    ∀ i j (hij : i < j) (hj : j < input.length),
      sortFn n input (input[i]'(by omega)) < sortFn n input input[j] := by
  intro i j hij hj
  rw [sortFn_eq _ _ _ (hlt _ (List.getElem_mem (by omega))),
    sortFn_eq _ _ _ (hlt _ (List.getElem_mem hj))]
  exact sortOrder_respects n input hnd hlt i j hij hj

/-- inversions among the named levels: a function of the request alone -/
def namedInv (input : List Nat) (n : Nat) : Nat :=
  sumTo n fun a => sumTo n fun b =>
    match input.idxOf? a, input.idxOf? b with
    | some i, some j => if a < b ∧ j < i then 1 else 0
    | _, _ => 0

/-- under every order that respects the request, the inversions among named levels are the
inversions of the request with respect to the current order -/
theorem invNN_eq_namedInv (input : List Nat) (f : Nat → Nat) (n : Nat)
    (hresp : ∀ i j, (hij : i < j) → (hj : j < input.length) →
      f (input[i]'(by omega)) < f input[j]) :
    invNN (isNamed input) f n = namedInv input n := by
  unfold invNN namedInv
  apply sumTo_congr; intro a _; apply sumTo_congr; intro b _
  unfold isNamed
  cases ha : input.idxOf? a with
  | none => simp
  | some i =>
    cases hb : input.idxOf? b with
    | none => simp
    | some j =>
      rw [List.idxOf?_eq_some_iff] at ha hb
      obtain ⟨hi, rfl, _⟩ := ha
      obtain ⟨hj, rfl, _⟩ := hb
      simp only [Option.isSome_some, Bool.and_self, if_true, inv1,
        respects_lt_iff input f hresp i j hi hj]

/-- `sortOrder` has no inversion between unnamed levels -/
theorem sortOrder_invUU (n : Nat) (input : List Nat) (hnd : input.Nodup)
    (hlt : ∀ x ∈ input, x < n) : invUU (isNamed input) (sortFn n input) n = 0 := by
  unfold invUU
  apply sumTo_eq_zero; intro a ha; apply sumTo_eq_zero; intro b hb
  cases hNa : isNamed input a <;> cases hNb : isNamed input b <;> simp
  have hua := isNamed_eq_false.1 hNa
  have hub := isNamed_eq_false.1 hNb
  simp only [inv1]
  rw [if_neg]
  rintro ⟨hab, h⟩
  have hlen' := unnamed_length_ne hnd hlt hb hub
  rw [sortFn_eq _ _ a ha, sortFn_eq _ _ b hb, sortOrder_lt_iff n input hlen' b a hb ha] at h
  have := indicators_mono n input a b hab hb hua hub
  omega

/-- an unnamed level crosses exactly the named levels counted by `gapCost` of its indicator -/
theorem sortOrder_mix (n : Nat) (input : List Nat) (hnd : input.Nodup)
    (hlt : ∀ x ∈ input, x < n) (l : Nat) (hl : l < n) (hun : l ∉ input) :
    mix (isNamed input) (sortFn n input) n l =
      sumTo n (gapCost input l ((indicators n input)[l]'(by simpa using hl))) :=
  mix_eq_gap input _ n l _ (fun a i ha hi => by
    rw [sortFn_eq _ _ a ha, sortFn_eq _ _ l hl]
    exact sortOrder_named_vs_unnamed n input hnd hlt l hl hun a i ha hi)

/-! ## sublists -/

theorem cntLt_sublist {l l' : List Nat} (h : l.Sublist l') (v : Nat) : cntLt l v ≤ cntLt l' v :=
  (h.filter _).length_le

theorem invCount_sublist {l l' : List Nat} (h : l.Sublist l') : invCount l ≤ invCount l' := by
  induction h with
  | slnil => exact Nat.le_refl _
  | cons a _ ih => simp only [invCount]; omega
  | cons_cons a h ih =>
    simp only [invCount]
    have := cntLt_sublist h a
    omega

end OxiddModel.Reorder
