import OxiddModel.Reorder.Lemmas

/-!
# Inversion counts as double sums (for the global minimality of `sort_order`, C08)

`invCount` (the number of adjacent swaps `bubble_sort` performs, `bubbleSort_swaps_count`) is
rewritten as a double sum over pairs of levels (`invCount_eq_invF`), and the double sum is split
along an arbitrary classification of the levels into *named* and *unnamed* ones (`invF_split`):
named–named pairs, unnamed–unnamed pairs, and, for every unnamed level `l`, the pairs `l` forms
with the named levels (`mix`).  `invF_le_of` is the resulting comparison principle.

Core only (a private finite sum `sumTo`, no Mathlib).
-/
namespace OxiddModel.Reorder

/-! ## finite sums `Σ_{a<n} f a` -/

/-- `Σ_{a<n} f a` -/
def sumTo : Nat → (Nat → Nat) → Nat
  | 0, _ => 0
  | n + 1, f => sumTo n f + f n

theorem sumTo_congr {n : Nat} {f g : Nat → Nat} (h : ∀ a, a < n → f a = g a) :
    sumTo n f = sumTo n g := by
  induction n with
  | zero => rfl
  | succ n ih =>
    simp only [sumTo]
    rw [ih (fun a ha => h a (by omega)), h n (by omega)]

theorem sumTo_le {n : Nat} {f g : Nat → Nat} (h : ∀ a, a < n → f a ≤ g a) :
    sumTo n f ≤ sumTo n g := by
  induction n with
  | zero => exact Nat.le_refl _
  | succ n ih =>
    simp only [sumTo]
    have h1 := ih (fun a ha => h a (by omega))
    have h2 := h n (by omega)
    omega

theorem sumTo_add (n : Nat) (f g : Nat → Nat) :
    sumTo n (fun a => f a + g a) = sumTo n f + sumTo n g := by
  induction n with
  | zero => rfl
  | succ n ih => simp only [sumTo, ih]; omega

theorem sumTo_zero (n : Nat) : sumTo n (fun _ => 0) = 0 := by
  induction n with
  | zero => rfl
  | succ n ih => simp only [sumTo, ih]

theorem sumTo_eq_zero {n : Nat} {f : Nat → Nat} (h : ∀ a, a < n → f a = 0) : sumTo n f = 0 := by
  rw [sumTo_congr h, sumTo_zero]

/-- exchanging the order of summation -/
theorem sumTo_comm (n m : Nat) (g : Nat → Nat → Nat) :
    sumTo n (fun a => sumTo m (fun b => g a b)) = sumTo m (fun b => sumTo n (fun a => g a b)) := by
  induction n with
  | zero => simp only [sumTo]; exact (sumTo_zero m).symm
  | succ n ih =>
    simp only [sumTo]
    rw [ih, ← sumTo_add]

theorem sumTo2_add (n m : Nat) (g h : Nat → Nat → Nat) :
    sumTo n (fun a => sumTo m (fun b => g a b + h a b)) =
      sumTo n (fun a => sumTo m (fun b => g a b)) + sumTo n (fun a => sumTo m (fun b => h a b)) := by
  rw [← sumTo_add]
  exact sumTo_congr (fun a _ => sumTo_add m _ _)

theorem sumTo_succ_front (n : Nat) (f : Nat → Nat) :
    sumTo (n + 1) f = f 0 + sumTo n (fun a => f (a + 1)) := by
  induction n with
  | zero => simp [sumTo]
  | succ n ih =>
    show sumTo (n + 1) f + f (n + 1) = _
    rw [ih]
    simp only [sumTo]
    omega

/-- a sum restricted to the indices below `k` -/
theorem sumTo_restrict_lt (n k : Nat) (hk : k ≤ n) (f : Nat → Nat) :
    sumTo n (fun a => if a < k then f a else 0) = sumTo k f := by
  induction n with
  | zero =>
    have : k = 0 := by omega
    subst this; rfl
  | succ n ih =>
    by_cases h : k = n + 1
    · subst h
      exact sumTo_congr (fun a ha => by simp [ha])
    · simp only [sumTo]
      rw [ih (by omega)]
      have : ¬ n < k := by omega
      simp [this]

/-- splitting a sum at `k` -/
theorem sumTo_split_at (n k : Nat) (f : Nat → Nat) :
    sumTo n f = sumTo n (fun a => if a < k then f a else 0) +
      sumTo n (fun a => if a < k then 0 else f a) := by
  rw [← sumTo_add]
  apply sumTo_congr
  intro a _
  split <;> simp

/-- `countP` over `List.range` as a sum -/
theorem countP_range_eq_sumTo (n : Nat) (p : Nat → Bool) :
    (List.range n).countP p = sumTo n (fun a => if p a then 1 else 0) := by
  induction n with
  | zero => rfl
  | succ n ih =>
    rw [List.range_succ, List.countP_append, ih]
    simp only [sumTo, List.countP_cons, List.countP_nil]
    cases p n <;> simp

/-! ## inversions as a double sum -/

/-- `1` if the pair `a < b` is an inversion of `f`, else `0` -/
def inv1 (f : Nat → Nat) (a b : Nat) : Nat := if a < b ∧ f b < f a then 1 else 0

/-- number of pairs `a < b < n` with `f b < f a` -/
def invF (f : Nat → Nat) (n : Nat) : Nat := sumTo n fun a => sumTo n fun b => inv1 f a b

theorem cntLt_eq_sumTo (r : List Nat) (x : Nat) :
    cntLt r x = sumTo r.length (fun b => if r.getD b 0 < x then 1 else 0) := by
  induction r with
  | nil => rfl
  | cons y r ih =>
    rw [cntLt_cons, List.length_cons, sumTo_succ_front, ih]
    simp

/-- the inversion count of a list (`invCount`, the number of swaps of `bubble_sort`) is the
number of inverted pairs of positions -/
theorem invCount_eq_invF (L : List Nat) : invCount L = invF (fun a => L.getD a 0) L.length := by
  induction L with
  | nil => rfl
  | cons x r ih =>
    unfold invF
    rw [invCount, List.length_cons, sumTo_succ_front, sumTo_succ_front, ih, cntLt_eq_sumTo]
    have h0 : inv1 (fun a => (x :: r).getD a 0) 0 0 = 0 := by simp [inv1]
    rw [h0, Nat.zero_add]
    congr 1
    · apply sumTo_congr; intro b _; simp [inv1]
    · unfold invF
      apply sumTo_congr; intro a _
      rw [sumTo_succ_front]
      have h1 : inv1 (fun a => (x :: r).getD a 0) (a + 1) 0 = 0 := by simp [inv1]
      rw [h1, Nat.zero_add]
      apply sumTo_congr; intro b _; simp [inv1]

/-! ## splitting the inversions along named / unnamed levels -/

/-- inversions between two named levels -/
def invNN (N : Nat → Bool) (f : Nat → Nat) (n : Nat) : Nat :=
  sumTo n fun a => sumTo n fun b => if N a && N b then inv1 f a b else 0

/-- inversions between two unnamed levels -/
def invUU (N : Nat → Bool) (f : Nat → Nat) (n : Nat) : Nat :=
  sumTo n fun a => sumTo n fun b => if !N a && !N b then inv1 f a b else 0

/-- number of named levels `a` that form an inversion with level `l` (in either position): the
named levels `l` has to cross -/
def mix (N : Nat → Bool) (f : Nat → Nat) (n l : Nat) : Nat :=
  sumTo n fun a => if N a then inv1 f a l + inv1 f l a else 0

theorem invF_split (N : Nat → Bool) (f : Nat → Nat) (n : Nat) :
    invF f n = invNN N f n + invUU N f n + sumTo n (fun l => if N l then 0 else mix N f n l) := by
  have h3 : sumTo n (fun a => sumTo n (fun b => if N a && !N b then inv1 f a b else 0)) =
      sumTo n (fun l => sumTo n (fun a => if N a && !N l then inv1 f a l else 0)) :=
    sumTo_comm n n _
  have hmix : sumTo n (fun l => if N l then 0 else mix N f n l) =
      sumTo n (fun l => sumTo n (fun a => if N a && !N l then inv1 f a l else 0)) +
      sumTo n (fun l => sumTo n (fun b => if !N l && N b then inv1 f l b else 0)) := by
    rw [← sumTo2_add]
    apply sumTo_congr; intro l _
    cases hl : N l
    · simp only [mix, Bool.false_eq_true, if_false]
      apply sumTo_congr; intro a _
      cases N a <;> simp
    · simp only [if_true]
      symm; apply sumTo_eq_zero; intro a _
      cases N a <;> simp
  have hall : invF f n =
      sumTo n (fun a => sumTo n (fun b =>
        (((if N a && N b then inv1 f a b else 0) + (if !N a && !N b then inv1 f a b else 0)) +
          (if N a && !N b then inv1 f a b else 0)) +
          (if !N a && N b then inv1 f a b else 0))) := by
    unfold invF
    apply sumTo_congr; intro a _; apply sumTo_congr; intro b _
    cases N a <;> cases N b <;> simp
  rw [hall, sumTo2_add, sumTo2_add, sumTo2_add, hmix, ← h3]
  unfold invNN invUU
  omega

/-- **comparison principle.** If `σ` and `τ` agree on the order of named levels, `σ` has no
inversion between unnamed levels, and every unnamed level crosses at most as many named levels
under `σ` as under `τ`, then `σ` has at most as many inversions as `τ`. -/
theorem invF_le_of (N : Nat → Bool) (σ τ : Nat → Nat) (n : Nat)
    (hNN : ∀ a b, a < n → b < n → N a = true → N b = true → (σ b < σ a ↔ τ b < τ a))
    (hUU : ∀ a b, a < b → b < n → N a = false → N b = false → ¬ σ b < σ a)
    (hmix : ∀ l, l < n → N l = false → mix N σ n l ≤ mix N τ n l) :
    invF σ n ≤ invF τ n := by
  rw [invF_split N σ n, invF_split N τ n]
  have e1 : invNN N σ n = invNN N τ n := by
    unfold invNN
    apply sumTo_congr; intro a ha; apply sumTo_congr; intro b hb
    cases hNa : N a <;> cases hNb : N b <;> simp
    simp only [inv1, hNN a b ha hb hNa hNb]
  have e2 : invUU N σ n = 0 := by
    unfold invUU
    apply sumTo_eq_zero; intro a ha; apply sumTo_eq_zero; intro b hb
    cases hNa : N a <;> cases hNb : N b <;> simp
    simp only [inv1]
    rw [if_neg]
    rintro ⟨hab, h⟩
    exact hUU a b hab hb hNa hNb h
  have e3 : sumTo n (fun l => if N l then 0 else mix N σ n l) ≤
      sumTo n (fun l => if N l then 0 else mix N τ n l) := by
    apply sumTo_le; intro l hl
    cases hN : N l
    · simpa using hmix l hl hN
    · simp
  omega

end OxiddModel.Reorder
