import OxiddModel.Reorder.Lemmas

/-!
# Arbitrary adjacent swaps against the inversion count (C08, global minimality)

`invCount_swapAdj` (Lemmas.lean) is about swaps that exchange an inversion.  Here: **any**
adjacent swap (in range or not, inversion or not) lowers the inversion count by at most one
(`invCount_le_swapAdj`), hence no sequence of adjacent swaps that sorts a sequence is shorter
than its inversion count (`swaps_lower_bound`).  Also: adjacent swaps commute with `map`
(`applySwaps_map`), and a strictly increasing self-map of `0 … n-1` is the identity
(`strictMono_id`, for the total-order case).
-/
namespace OxiddModel.Reorder

/-- an arbitrary adjacent swap removes at most one inversion -/
theorem invCount_le_swapAdj (l : List Nat) (i : Nat) : invCount l ≤ invCount (swapAdj i l) + 1 := by
  induction l generalizing i with
  | nil => simp [swapAdj]
  | cons a r ih =>
    cases i with
    | zero =>
      match r with
      | [] => simp [swapAdj]
      | b :: r' =>
        simp only [swapAdj, invCount, cntLt_cons]
        split <;> split <;> omega
    | succ i =>
      simp only [swapAdj, invCount]
      rw [cntLt_perm (swapAdj_perm i r) a]
      have := ih i
      omega

/-- `k` arbitrary adjacent swaps remove at most `k` inversions -/
theorem invCount_le_applySwaps (sw : List Nat) (l : List Nat) :
    invCount l ≤ sw.length + invCount (applySwaps sw l) := by
  induction sw generalizing l with
  | nil => simp
  | cons i sw ih =>
    have h1 := ih (swapAdj i l)
    have h2 := invCount_le_swapAdj l i
    simp only [List.length_cons, applySwaps_cons]
    omega

/-- **lower bound**: a sequence of adjacent swaps that sorts `l` has at least `invCount l`
swaps -/
theorem swaps_lower_bound (sw : List Nat) (l : List Nat) (hs : Sorted (applySwaps sw l)) :
    invCount l ≤ sw.length := by
  have := invCount_le_applySwaps sw l
  rw [invCount_sorted hs] at this
  omega

theorem swapAdj_map {α β : Type} (f : α → β) (i : Nat) (l : List α) :
    swapAdj i (l.map f) = (swapAdj i l).map f := by
  fun_induction swapAdj i l <;> simp_all [swapAdj]

theorem applySwaps_map {α β : Type} (f : α → β) (sw : List Nat) (l : List α) :
    applySwaps sw (l.map f) = (applySwaps sw l).map f := by
  induction sw generalizing l with
  | nil => rfl
  | cons i sw ih => simp only [applySwaps_cons, swapAdj_map, ih]

/-- a strictly increasing map of `0 … n-1` into itself is the identity -/
theorem strictMono_id (n : Nat) (g : Nat → Nat) (hmono : ∀ i j, i < j → j < n → g i < g j)
    (hlt : ∀ i, i < n → g i < n) (i : Nat) (hi : i < n) : g i = i := by
  have hgap : ∀ j, j < n → ∀ i, i ≤ j → g i + (j - i) ≤ g j := by
    intro j
    induction j with
    | zero =>
      intro _ i hi
      have : i = 0 := by omega
      subst this; simp
    | succ j ih =>
      intro hj i hi
      rcases Nat.lt_or_ge i (j + 1) with h | h
      · have h1 := ih (by omega) i (by omega)
        have h2 := hmono j (j + 1) (by omega) hj
        omega
      · have : i = j + 1 := by omega
        subst this; simp
  have h1 := hgap i hi 0 (by omega)
  have h2 := hgap (n - 1) (by omega) i (by omega)
  have h3 := hlt (n - 1) (by omega)
  omega

theorem getD_of_lt (L : List Nat) (a : Nat) (h : a < L.length) : L.getD a 0 = L[a] := by
  simp [List.getD_eq_getElem?_getD, h]

end OxiddModel.Reorder
