/-!
# Model of `oxidd_reorder::set_var_order`: computing the target order

`sortOrder` mirrors `sort_order` (set_var_order/mod.rs): the levels named in the request get
their index in the request as *position indicator*; every other level gets the indicator that
minimises the number of adjacent swaps (a running cost array with range updates — the Rust code
keeps it in a segment tree, `MinSegTree`, modelled here by its abstraction, a plain list with
`addSplit` and the left-most `minIndex`); finally the indicators are turned into unique positions
by a stable counting sort.
-/
namespace OxiddModel.Reorder

/-- `MinSegTree::add_split`: add `l` to all elements in `..i` and `r` to all elements in `i..` -/
def addSplit (c : List Int) (i : Nat) (l r : Int) : List Int :=
  c.mapIdx fun j x => if j < i then x + l else x + r

/-- `MinSegTree::min_index`: index of the minimal element with the lowest index -/
def minIndexAux : List Int → Nat → Nat → Int → Nat
  | [], _, best, _ => best
  | x :: xs, j, best, bv => if x < bv then minIndexAux xs (j + 1) j x else minIndexAux xs (j + 1) best bv

def minIndex (c : List Int) : Nat :=
  match c with
  | [] => 0
  | x :: xs => minIndexAux xs 1 0 x

/-- first loop of `sort_order`: indicator of every named level -/
def namedIndicators (numLevels : Nat) (input : List Nat) : List (Option Nat) :=
  (List.range numLevels).map fun l => input.idxOf? l

/-- second loop: indicators of the unnamed levels, walking the current order top-down -/
def fillIndicators : List (Option Nat) → List Int → List Nat
  | [], _ => []
  | none :: rest, cost => minIndex cost :: fillIndicators rest cost
  | some i :: rest, cost => i :: fillIndicators rest (addSplit cost (i + 1) 1 (-1))

/-- counting sort: unique positions preserving `<` on indicators, stable among equal indicators -/
def positions (ind : List Nat) : List Nat :=
  let rec go : List Nat → List Nat → List Nat
    | [], _ => []
    | i :: rest, seen =>
      ((ind.filter (· < i)).length + (seen.filter (· == i)).length) :: go rest (i :: seen)
  go ind []

/-- `sort_order(num_levels, input_order)`: current level ↦ target level -/
def sortOrder (numLevels : Nat) (input : List Nat) : List Nat :=
  let named := namedIndicators numLevels input
  if input.length = numLevels then named.map (·.getD 0)
  else
    let m := input.length
    positions (fillIndicators named ((List.range (m + 1)).map Int.ofNat))

/-- the new level→variable map after `set_var_order(order)` where `order` lists *variables* -/
def newL2v (l2v v2l : Array Nat) (order : List Nat) : Array Nat :=
  let n := l2v.size
  let target := sortOrder n (order.map fun v => v2l.getD v v)
  Id.run do
    let mut a := Array.replicate n 0
    for l in [0 : n] do
      a := a.set! (target.getD l l) (l2v.getD l l)
    return a

/-- `bubble_sort`: the adjacent swaps (smaller index) performed to sort `seq` -/
def bubblePass : List Nat → Nat → List Nat × List Nat × Nat
  | a :: b :: rest, i =>
    if a > b then
      let (s, sw, lastn) := bubblePass (a :: rest) (i + 1)
      (b :: s, i :: sw, if lastn = 0 then i + 1 else lastn)
    else
      let (s, sw, lastn) := bubblePass (b :: rest) (i + 1)
      (a :: s, sw, lastn)
  | l, _ => (l, [], 0)

def bubbleSort : Nat → List Nat → List Nat × List Nat
  | 0, seq => (seq, [])
  | fuel + 1, seq =>
    let (s, sw, _) := bubblePass seq 0
    if sw.isEmpty then (s, []) else
    let (s', sw') := bubbleSort fuel s
    (s', sw ++ sw')

end OxiddModel.Reorder
