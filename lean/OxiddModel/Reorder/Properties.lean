import OxiddModel.Reorder.Lemmas
import OxiddModel.Reorder.Concurrent
import OxiddModel.Reorder.Swap
import OxiddModel.Reorder.SegTree

/-!
# C08 — headline theorems about `set_var_order`

* A. `sort_order`: `sortOrder_perm`, `sortOrder_respects`, `sortOrder_total`, `sortOrder_lt_iff`,
  `sortOrder_stable`, `sortOrder_min_partial` (+ `crossCost_eq_crossings`).
* B. `MinSegTree` refines the cost list: `SegTree.*`, `sortOrder_segtree`.
* C. `bubble_sort`: `bubbleSort_sorted`, `bubbleSort_swaps`, `bubbleSort_swaps_count`,
  `swaps_commute`; `concurrent_bubble_sort` (model in `Concurrent.lean`):
  `concurrent_no_overlap`, `concurrent_linearizable`, `concurrent_sorted`,
  `concurrent_terminates`, `reachable_progress`.
* D. `level_swap` on trees (`Swap.lean`): `swapTree_sem`, `swapTree_nf`, `swapTree_invol`,
  `swapTree_canonical`; the whole reordering: `swapTrees_spec`, `swapTrees_eq_iff`.

Not proved (kept visible): global minimality of the number of adjacent swaps of the completed
order (see `sortOrder_min_partial`). Modelling assumptions: `level_swap` is applied to adjacent
levels of the tree unfolding — `set_var_order_common` sorts the *non-empty* levels only and
calls `level_swap(from_ne[i], from_ne[i+1])`; the levels in between carry no nodes, so on trees
the two levels are adjacent after renumbering the non-empty levels; the second step (moving
empty levels) touches no node. The node store (identity of nodes, reference counts, removal of
orphaned nodes, lazy `to_pre` level numbers) is not part of the tree model.
-/
namespace OxiddModel.Reorder

/-! ## A. target order (`sort_order`) -/

theorem sortOrder_length (numLevels : Nat) (input : List Nat) :
    (sortOrder numLevels input).length = numLevels := by
  unfold sortOrder
  split <;> simp

/-- the position indicators `sort_order` holds before the counting sort (partial orders only) -/
def indicators (numLevels : Nat) (input : List Nat) : List Nat :=
  fillIndicators (namedIndicators numLevels input)
    ((List.range (input.length + 1)).map Int.ofNat)

@[simp] theorem indicators_length (n : Nat) (input : List Nat) : (indicators n input).length = n := by
  simp [indicators]

theorem sortOrder_partial_eq {n : Nat} {input : List Nat} (h : input.length ≠ n) :
    sortOrder n input = positions (indicators n input) := by
  simp [sortOrder, h, indicators]

theorem sortOrder_total_eq {n : Nat} {input : List Nat} (h : input.length = n) :
    sortOrder n input = (namedIndicators n input).map (·.getD 0) := by
  simp [sortOrder, h]

/-- a named level's indicator is its index in the request -/
theorem indicators_named {n : Nat} {input : List Nat} (hnd : input.Nodup)
    (hlt : ∀ x ∈ input, x < n) (i : Nat) (hi : i < input.length) :
    (indicators n input)[input[i]]'(by simpa using hlt _ (List.getElem_mem hi)) = i := by
  have hl := hlt _ (List.getElem_mem hi)
  apply fillIndicators_getElem_some _ _ _ _ (by simpa using hl)
  rw [namedIndicators_getElem _ _ _ hl]
  exact idxOf?_getElem_of_nodup hnd i hi

/-- **A3** (`sortOrder_total`). For a total request the target level of the `i`-th named level
is `i`. -/
theorem sortOrder_total (numLevels : Nat) (input : List Nat) (hnd : input.Nodup)
    (hlt : ∀ x ∈ input, x < numLevels) (hlen : input.length = numLevels)
    (i : Nat) (hi : i < input.length) :
    (sortOrder numLevels input)[input[i]]'(by
      rw [sortOrder_length]; exact hlt _ (List.getElem_mem hi)) = i := by
  have hl := hlt _ (List.getElem_mem hi)
  simp only [sortOrder_total_eq hlen, List.getElem_map]
  rw [namedIndicators_getElem _ _ _ hl, idxOf?_getElem_of_nodup hnd i hi]
  rfl

example : sortOrder 4 [0, 2, 3, 1] = [0, 3, 1, 2] := by decide

/-- **A1** (`sortOrder_perm`). The computed target order is a permutation of
`0 … numLevels-1`. -/
theorem sortOrder_perm (numLevels : Nat) (input : List Nat) (hnd : input.Nodup)
    (hlt : ∀ x ∈ input, x < numLevels) :
    (sortOrder numLevels input).length = numLevels ∧
    (∀ x ∈ sortOrder numLevels input, x < numLevels) ∧
    (sortOrder numLevels input).Nodup := by
  refine ⟨sortOrder_length _ _, ?_, ?_⟩
  · by_cases hlen : input.length = numLevels
    · intro x hx
      obtain ⟨l, hl, rfl⟩ := List.getElem_of_mem hx
      have hl' : l < numLevels := by simpa [sortOrder_length] using hl
      obtain ⟨i, hi, he, _⟩ := idxOf?_of_mem (mem_of_nodup_full hnd hlt hlen hl')
      simp only [sortOrder_total_eq hlen, List.getElem_map]
      rw [namedIndicators_getElem _ _ _ hl', he]
      simp only [Option.getD_some]; omega
    · intro x hx
      obtain ⟨l, hl, rfl⟩ := List.getElem_of_mem hx
      have hl' : l < numLevels := by simpa [sortOrder_length] using hl
      simp only [sortOrder_partial_eq hlen]
      have := positions_lt_length (indicators numLevels input) l (by simpa using hl')
      simpa using this
  · by_cases hlen : input.length = numLevels
    · rw [List.nodup_iff_pairwise_ne, List.pairwise_iff_getElem]
      intro a b ha hb hab
      have ha' : a < numLevels := by simpa [sortOrder_length] using ha
      have hb' : b < numLevels := by simpa [sortOrder_length] using hb
      obtain ⟨i, hi, hei, hai⟩ := idxOf?_of_mem (mem_of_nodup_full hnd hlt hlen ha')
      obtain ⟨j, hj, hej, hbj⟩ := idxOf?_of_mem (mem_of_nodup_full hnd hlt hlen hb')
      simp only [sortOrder_total_eq hlen, List.getElem_map]
      rw [namedIndicators_getElem _ _ _ ha', namedIndicators_getElem _ _ _ hb', hei, hej]
      simp only [Option.getD_some]
      rintro rfl
      rw [hai] at hbj; omega
    · rw [sortOrder_partial_eq hlen]; exact positions_nodup _

/-- **A2** (`sortOrder_respects`). Levels named in the request keep the requested relative
order. -/
theorem sortOrder_respects (numLevels : Nat) (input : List Nat) (hnd : input.Nodup)
    (hlt : ∀ x ∈ input, x < numLevels) (i j : Nat) (hij : i < j) (hj : j < input.length) :
    (sortOrder numLevels input)[input[i]]'(by
        rw [sortOrder_length]; exact hlt _ (List.getElem_mem (by omega))) <
    (sortOrder numLevels input)[input[j]]'(by
        rw [sortOrder_length]; exact hlt _ (List.getElem_mem hj)) := by
  have hi : i < input.length := by omega
  by_cases hlen : input.length = numLevels
  · rw [sortOrder_total numLevels input hnd hlt hlen i hi,
      sortOrder_total numLevels input hnd hlt hlen j hj]
    exact hij
  · have ha := hlt _ (List.getElem_mem hi)
    have hb := hlt _ (List.getElem_mem hj)
    simp only [sortOrder_partial_eq hlen]
    apply positions_lt_of _ _ _ (by simpa using ha) (by simpa using hb)
    left
    rw [indicators_named hnd hlt i hi, indicators_named hnd hlt j hj]
    exact hij

example : ∃ input, input.Nodup ∧ (∀ x ∈ input, x < 10) ∧ input.length ≠ 10 ∧
    sortOrder 10 input = [3, 5, 0, 2, 4, 6, 1, 7, 8, 9] :=
  ⟨[6, 3, 0, 4, 1, 9], by decide, by decide, by decide, by decide⟩

/-- **A4, general form.** For a partial request the target order is the lexicographic order on
(position indicator, current level). -/
theorem sortOrder_lt_iff (numLevels : Nat) (input : List Nat) (hlen : input.length ≠ numLevels)
    (a b : Nat) (ha : a < numLevels) (hb : b < numLevels) :
    (sortOrder numLevels input)[a]'(by rw [sortOrder_length]; exact ha) <
      (sortOrder numLevels input)[b]'(by rw [sortOrder_length]; exact hb) ↔
    ((indicators numLevels input)[a]'(by simpa using ha) <
        (indicators numLevels input)[b]'(by simpa using hb) ∨
     ((indicators numLevels input)[a]'(by simpa using ha) =
        (indicators numLevels input)[b]'(by simpa using hb) ∧ a < b)) := by
  simp only [sortOrder_partial_eq hlen]
  exact positions_lt_iff _ a b (by simpa using ha) (by simpa using hb)

/-- **A4** (`sortOrder_stable`). Two levels with the same position indicator (in particular two
unnamed levels that are to be inserted at the same point) keep their current relative order. -/
theorem sortOrder_stable (numLevels : Nat) (input : List Nat) (hlen : input.length ≠ numLevels)
    (a b : Nat) (hab : a < b) (hb : b < numLevels)
    (heq : (indicators numLevels input)[a]'(by simp; omega) =
           (indicators numLevels input)[b]'(by simpa using hb)) :
    (sortOrder numLevels input)[a]'(by rw [sortOrder_length]; omega) <
      (sortOrder numLevels input)[b]'(by rw [sortOrder_length]; exact hb) :=
  (sortOrder_lt_iff numLevels input hlen a b (by omega) hb).2 (.inr ⟨heq, hab⟩)

example : (indicators 10 [6, 3, 0, 4, 1, 9])[7]! = (indicators 10 [6, 3, 0, 4, 1, 9])[8]! ∧
    (sortOrder 10 [6, 3, 0, 4, 1, 9])[7]! < (sortOrder 10 [6, 3, 0, 4, 1, 9])[8]! := by decide

/-- The value `cost[q]` that `sort_order`'s segment tree holds for insertion point `q` when the
walk over the current order reaches level `l`: initially `q`; every named level `a` above `l`
(`a < l`) with indicator `i` has added `+1` if `q ≤ i` and `-1` if `i < q`
(`add_split(i + 1, 1, -1)`). -/
def crossCost (numLevels : Nat) (input : List Nat) (l q : Nat) : Int :=
  (q : Int) + namedGe ((namedIndicators numLevels input).take l) q
            - namedLt ((namedIndicators numLevels input).take l) q

/-- The cost is the number of named levels that level `l` has to cross when it is inserted at
point `q` (between the named levels with indicators `q-1` and `q`): the named levels currently
above `l` that must end up below it (indicator `≥ q`) plus the named levels currently below `l`
that must end up above it (indicator `< q`). -/
theorem crossCost_eq_crossings (numLevels : Nat) (input : List Nat) (hnd : input.Nodup)
    (hlt : ∀ x ∈ input, x < numLevels) (l : Nat) (hl : l < numLevels) (hun : l ∉ input)
    (q : Nat) (hq : q ≤ input.length) :
    crossCost numLevels input l q =
      (namedGe ((namedIndicators numLevels input).take l) q : Int) +
      namedLt ((namedIndicators numLevels input).drop (l + 1)) q := by
  have htot := namedLt_namedIndicators hnd hlt q hq
  have hl' : l < (namedIndicators numLevels input).length := by simpa using hl
  have hnone : (namedIndicators numLevels input)[l] = none := by
    rw [namedIndicators_getElem _ _ _ hl, List.idxOf?_eq_none_iff]; exact hun
  have hsplit : namedIndicators numLevels input =
      (namedIndicators numLevels input).take l ++
        none :: (namedIndicators numLevels input).drop (l + 1) := by
    rw [← hnone, ← List.drop_eq_getElem_cons hl', List.take_append_drop]
  have : namedLt (namedIndicators numLevels input) q =
      namedLt ((namedIndicators numLevels input).take l) q +
        namedLt ((namedIndicators numLevels input).drop (l + 1)) q := by
    conv => lhs; rw [hsplit]
    simp [namedLt, List.countP_append]
  unfold crossCost
  omega

/-- **A4** (`sortOrder_min_partial`). The indicator chosen for an unnamed level `l` is an
insertion point `p ≤ m` that minimises the number of named levels `l` has to cross
(`crossCost`, see `crossCost_eq_crossings`), and among the minimisers the top-most one.

Full statement of the documentation ("the number of adjacent level swaps between the current
and the target order is minimal", i.e. `invCount (sortOrder n input)` is minimal among *all*
total orders that respect the request) is **not** proved here: only the per-level optimality
with respect to the named levels. The global statement is cross-checked against brute force in
the harness (a test). -/
theorem sortOrder_min_partial (numLevels : Nat) (input : List Nat) (l : Nat)
    (hl : l < numLevels) (hun : l ∉ input) :
    let p := (indicators numLevels input)[l]'(by simpa using hl)
    p ≤ input.length ∧
    (∀ q, q ≤ input.length → crossCost numLevels input l p ≤ crossCost numLevels input l q) ∧
    (∀ q, q < p → crossCost numLevels input l p < crossCost numLevels input l q) := by
  intro p
  have hl' : l < (namedIndicators numLevels input).length := by simpa using hl
  have hnone : (namedIndicators numLevels input)[l] = none := by
    rw [namedIndicators_getElem _ _ _ hl, List.idxOf?_eq_none_iff]; exact hun
  have hp : p = minIndex (costAfter ((namedIndicators numLevels input).take l)
      ((List.range (input.length + 1)).map Int.ofNat)) :=
    fillIndicators_getElem_none _ _ l hl' hnone
  have hne : costAfter ((namedIndicators numLevels input).take l)
      ((List.range (input.length + 1)).map Int.ofNat) ≠ [] := by
    intro h
    have := congrArg List.length h
    simp at this
  obtain ⟨hlt, hmin⟩ := minIndex_spec _ hne
  rw [← hp] at hlt hmin
  simp only [costAfter_length, List.length_map, List.length_range] at hlt hmin
  have hcost : ∀ q, q ≤ input.length →
      cAt (costAfter ((namedIndicators numLevels input).take l)
        ((List.range (input.length + 1)).map Int.ofNat)) q = crossCost numLevels input l q := by
    intro q hq
    rw [cAt_costAfter _ _ q (by simp; omega), cAt_rangeCost _ _ hq]
    rfl
  have hple : p ≤ input.length := by omega
  refine ⟨hple, ?_, ?_⟩
  · intro q hq
    have := (hmin q (by omega)).1
    rwa [hcost p hple, hcost q hq] at this
  · intro q hq
    have := (hmin q (by omega)).2 hq
    rwa [hcost p hple, hcost q (by omega)] at this

example : (indicators 10 [6, 3, 0, 4, 1, 9])[2]! = 0 ∧ (indicators 10 [6, 3, 0, 4, 1, 9])[5]! = 5 ∧
    crossCost 10 [6, 3, 0, 4, 1, 9] 5 5 = 1 ∧ crossCost 10 [6, 3, 0, 4, 1, 9] 5 4 = 2 ∧
    crossCost 10 [6, 3, 0, 4, 1, 9] 5 6 = 2 := by decide

/-! ## B. the segment tree

The refinement theorems are in `SegTree.lean` (`SegTree.new_inv`, `SegTree.proj_new`,
`SegTree.addSplit_inv`, `SegTree.proj_addSplit`, `SegTree.minIndex_refines`); here the
consequence for `sort_order`. -/

/-- **`sort_order` with the real `MinSegTree`.** Running the second loop of `sort_order` on the
faithful array model of `MinSegTree` (`SegTree.new`, `SegTree.addSplit`, `SegTree.minIndex`,
with the `i32::MAX` sentinel) instead of the plain cost list used by `sortOrder` gives the same
target order, provided `input_order_len + 1 + num_levels ≤ i32::MAX` (the `min` fields then stay
away from the sentinel; see the counterexamples at the end of `SegTree.lean`). -/
theorem sortOrder_segtree (numLevels : Nat) (input : List Nat) (hlen : input.length ≠ numLevels)
    (hbound : (input.length : Int) + 1 + numLevels ≤ SegTree.MAXV) :
    positions (SegTree.fillIndicatorsT (namedIndicators numLevels input)
      (SegTree.new ((List.range (input.length + 1)).map Int.ofNat))) =
    sortOrder numLevels input := by
  rw [sortOrder_partial_eq hlen, indicators]
  congr 1
  apply SegTree.fillIndicatorsT_sortOrder
  · intro i hi
    obtain ⟨l, hl, he⟩ := List.getElem_of_mem hi
    have hl' : l < numLevels := by simpa using hl
    rw [namedIndicators_getElem _ _ _ hl', List.idxOf?_eq_some_iff] at he
    obtain ⟨h, _⟩ := he
    omega
  · have : SegTree.numSome (namedIndicators numLevels input) ≤ numLevels := by
      have := List.length_filter_le Option.isSome (namedIndicators numLevels input)
      simpa [SegTree.numSome] using this
    omega

example : positions (SegTree.fillIndicatorsT (namedIndicators 10 [6, 3, 0, 4, 1, 9])
    (SegTree.new ((List.range 7).map Int.ofNat))) = [3, 5, 0, 2, 4, 6, 1, 7, 8, 9] := by
  decide +kernel

/-! ## C. bubble sort -/

/-- `ValidSwaps` unfolded: the `k`-th emitted swap is in range and exchanges an adjacent
inversion of the sequence as it is after the first `k` swaps -/
theorem validSwaps_iff (sw : List Nat) (l : List Nat) :
    ValidSwaps sw l ↔ ∀ k (h : k < sw.length), IsInv (applySwaps (sw.take k) l) sw[k] := by
  induction sw generalizing l with
  | nil => simp [ValidSwaps]
  | cons i sw ih =>
    simp only [ValidSwaps, ih]
    constructor
    · rintro ⟨h0, hr⟩ k hk
      cases k with
      | zero => exact h0
      | succ k => exact hr k (by simpa using hk)
    · intro h
      exact ⟨h 0 (by simp), fun k hk => h (k + 1) (by simpa using hk)⟩

/-- **`bubbleSort_sorted`**: with fuel `seq.length` (or more) the result of `bubble_sort` is
sorted. (The Rust loop has no fuel; `concurrent`/`run_bounded`-style termination of the
sequential loop: every pass but the last performs a swap, and `bubbleSort_swaps_count` bounds
the number of swaps.) -/
theorem bubbleSort_sorted (seq : List Nat) (fuel : Nat) (hf : seq.length ≤ fuel) :
    Sorted (bubbleSort fuel seq).1 :=
  bubbleSort_sorted_aux fuel 0 seq (sufOK_zero seq) (by omega)

/-- **`bubbleSort_swaps`**: replaying the emitted adjacent swaps on the input yields the output
(so the sequence of `level_swap` calls realises the permutation); every emitted swap index `i`
satisfies `i + 1 < seq.length` and exchanges an inversion (`IsInv`, see `validSwaps_iff`). -/
theorem bubbleSort_swaps (seq : List Nat) (fuel : Nat) :
    applySwaps (bubbleSort fuel seq).2 seq = (bubbleSort fuel seq).1 ∧
    ValidSwaps (bubbleSort fuel seq).2 seq ∧
    (bubbleSort fuel seq).1.Perm seq := by
  have := bubbleSort_replay fuel seq
  exact ⟨this.1, this.2, this.1 ▸ applySwaps_perm _ _⟩

/-- the number of `level_swap` calls is exactly the number of inversions of the sequence — the
minimum possible for adjacent swaps, since one adjacent swap removes at most one inversion
(`invCount_swapAdj`) -/
theorem bubbleSort_swaps_count (seq : List Nat) (fuel : Nat) (hf : seq.length ≤ fuel) :
    (bubbleSort fuel seq).2.length = invCount seq := by
  have h := bubbleSort_replay fuel seq
  have := validSwaps_invCount h.2
  rw [h.1, invCount_sorted (bubbleSort_sorted seq fuel hf)] at this
  omega

example : bubbleSort 4 [3, 1, 2, 0] = ([0, 1, 2, 3], [0, 1, 2, 1, 0]) := by
  simp [bubbleSort, bubblePass]

/-- **`swaps_commute`**: adjacent swaps at distance ≥ 2 commute. -/
theorem swaps_commute {α : Type} (i j : Nat) (l : List α) (h : i + 2 ≤ j ∨ j + 2 ≤ i) :
    swapAdj i (swapAdj j l) = swapAdj j (swapAdj i l) := by
  rcases h with h | h
  · exact swapAdj_comm i j l h
  · exact (swapAdj_comm j i l h).symm

example : swapAdj 0 (swapAdj 2 [1, 2, 3, 4]) = [2, 1, 4, 3] := by decide

/-- **`concurrent_no_overlap`**: in every reachable state of the task state machine of
`concurrent_bubble_sort`, no two swaps that are queued (`tasks`) or held by a worker
(before or after its `level_swap` took effect) share a level; and `blocked` is exactly the set
of levels of these swaps. -/
theorem concurrent_no_overlap {seq0 lv0 : List Nat} {workers : Nat} {s : CState}
    (h : Reachable seq0 lv0 workers s) :
    NoOverlap (s.tasks ++ s.running ++ s.swapped) ∧
    (∀ k, s.blocked k = true ↔ Occ (s.tasks ++ s.running ++ s.swapped) k) ∧
    (∀ i ∈ s.tasks ++ s.running ++ s.swapped, IsInv s.seq i) :=
  let hi := reachable_inv h
  ⟨hi.core.noov, hi.core.blk, hi.core.inv⟩

/-- **linearisation**: the concurrent run equals a sequential run of the same swaps. `s.log`
(the swaps in the order of their critical sections) is a valid sequential bubble-sort run from
the initial sequence (`ValidSwaps`), `seq` is its result, and the real arrangement `lv` of the
levels — where the `level_swap`s took effect in an arbitrary interleaving outside the mutex —
is the result of replaying `log` followed by the swaps still waiting for the mutex. -/
theorem concurrent_linearizable {seq0 lv0 : List Nat} {workers : Nat} {s : CState}
    (h : Reachable seq0 lv0 workers s) :
    ValidSwaps s.log seq0 ∧ s.seq = applySwaps s.log seq0 ∧
    s.lv = applySwaps s.swapped (applySwaps s.log lv0) :=
  let hi := reachable_inv h
  ⟨hi.valid, hi.seqlog, hi.lvlog⟩

/-- **on termination the sequence is sorted**: when the workers' exit condition holds
(`tasks` empty and `in_progress == 0`), `seq` is sorted, the levels have been permuted exactly
by the sequential run `log`, and (starting with `lv0 = seq0`) the diagram's arrangement is the
sorted sequence. -/
theorem concurrent_sorted {seq0 lv0 : List Nat} {workers : Nat} {s : CState}
    (h : Reachable seq0 lv0 workers s) (ht : s.tasks = []) (hz : s.inProgress = 0) :
    Sorted s.seq ∧ s.lv = applySwaps s.log lv0 ∧ (lv0 = seq0 → s.lv = s.seq) := by
  have hi := reachable_inv h
  have hcnt := hi.cnt
  have hr : s.running = [] := List.eq_nil_of_length_eq_zero (by omega)
  have hs : s.swapped = [] := List.eq_nil_of_length_eq_zero (by omega)
  have hact : active s = [] := by simp [active, ht, hr, hs]
  have hcore := hi.core
  rw [hact] at hcore
  have hlv : s.lv = applySwaps s.log lv0 := by rw [hi.lvlog, hs]; rfl
  refine ⟨sorted_of_no_inv _ (fun k hk => ?_), hlv, fun h0 => by rw [hlv, h0, hi.seqlog]⟩
  rcases hcore.cover k hk with hb | hb
  · exact (occ_nil k).1 ((hcore.blk k).1 hb)
  · exact (occ_nil (k + 1)).1 ((hcore.blk (k + 1)).1 hb)

/-- **termination**: a run from the initial state has at most `measure (init …)` transitions
(`5·inversions + 3·initial tasks + workers`), and with at least one worker a state without
successor is final (`reachable_progress`), hence sorted (`concurrent_sorted`). -/
theorem concurrent_terminates (seq0 lv0 : List Nat) (workers n : Nat) (s : CState)
    (hr : Run n (init seq0 lv0 workers) s) : n ≤ measure (init seq0 lv0 workers) := by
  have := run_bounded (init_inv seq0 lv0 workers) hr
  omega

/-- non-vacuity: from `[2, 1, 0]` with two workers: take swap 0, perform it, finish (which
schedules swap 1 for the same worker), … -/
example : ∃ s, Reachable [2, 1, 0] [2, 1, 0] 2 s ∧ s.log = [0] ∧ s.running = [1] ∧
    s.seq = [1, 2, 0] :=
  ⟨_, .step (.step (.step .init (.take (i := 0) (rest := []) (by decide) (by decide)))
      (.swap (a := []) (i := 0) (b := []) rfl)) (.finish (a := []) (i := 0) (b := []) rfl),
    by decide, by decide, by decide⟩

/-! ## D. the whole reordering on trees -/

open OxiddModel.Bdd OxiddModel.Bdd.BDD in
/-- replay a list of adjacent level swaps on a diagram -/
def swapTrees (sw : List Nat) (t : BDD) : BDD := sw.foldl (fun t u => swapTree u t) t

/-- the variable at each level, as a function (identity outside the list) -/
def lvFun (l2v : List Nat) (x : Nat) : Nat := l2v[x]?.getD x

theorem lvFun_swapAdj (l2v : List Nat) (u : Nat) (h : u + 1 < l2v.length) (x : Nat) :
    lvFun (swapAdj u l2v) (swapLv u x) = lvFun l2v x := by
  unfold lvFun
  rw [getElem?_swapAdj u l2v h]
  unfold swapLv
  have hu : u < l2v.length := by omega
  by_cases h1 : x = u
  · subst h1; simp [List.getElem?_eq_getElem hu]
  · by_cases h2 : x = u + 1
    · subst h2; simp [List.getElem?_eq_getElem h]
    · simp [h1, h2]

open OxiddModel.Bdd OxiddModel.Bdd.BDD in
/-- **`set_var_order` on trees.** Replaying any list of in-range adjacent level swaps (in
particular the one emitted by `bubbleSort`, or the linearisation `log` of a concurrent run) on a
diagram in normal form, while the level→variable map `l2v` is permuted by the same swaps,
yields a diagram in normal form that denotes the same function of the *variables*: for every
assignment `ρ` of the variables, evaluating the new diagram with the new map equals evaluating
the old diagram with the old map. By `canon` it is *the* canonical diagram for the new order. -/
theorem swapTrees_spec (sw : List Nat) (l2v : List Nat) (t : BDD) (h : NF 0 t)
    (hsw : ∀ u ∈ sw, u + 1 < l2v.length) :
    NF 0 (swapTrees sw t) ∧
    ∀ ρ : Nat → Bool, (swapTrees sw t).eval (ρ ∘ lvFun (applySwaps sw l2v)) =
      t.eval (ρ ∘ lvFun l2v) := by
  induction sw generalizing t l2v with
  | nil => exact ⟨h, fun _ => rfl⟩
  | cons u sw ih =>
    have hu := hsw u (by simp)
    have hnf := swapTree_nf u h (Nat.zero_le _)
    obtain ⟨h1, h2⟩ := ih (swapAdj u l2v) (swapTree u t) hnf (fun v hv => by
      rw [swapAdj_length]; exact hsw v (by simp [hv]))
    refine ⟨h1, fun ρ => ?_⟩
    show (swapTrees sw (swapTree u t)).eval (ρ ∘ lvFun (applySwaps sw (swapAdj u l2v))) = _
    rw [h2 ρ, swapTree_sem u h.1]
    congr 1
    funext x
    simp only [Function.comp]
    rw [lvFun_swapAdj l2v u hu]

open OxiddModel.Bdd OxiddModel.Bdd.BDD in
/-- handles that were different stay different, handles that were equal stay equal -/
theorem swapTrees_eq_iff (sw : List Nat) (a b : BDD) (ha : NF 0 a) (hb : NF 0 b) :
    swapTrees sw a = swapTrees sw b ↔ a = b := by
  induction sw generalizing a b with
  | nil => exact Iff.rfl
  | cons u sw ih =>
    show swapTrees sw (swapTree u a) = swapTrees sw (swapTree u b) ↔ _
    rw [ih _ _ (swapTree_nf u ha (Nat.zero_le _)) (swapTree_nf u hb (Nat.zero_le _))]
    exact swapTree_eq_iff u ha hb

open OxiddModel.Bdd OxiddModel.Bdd.BDD in
example : swapTrees (bubbleSort 3 [2, 0, 1]).2
      (.node 0 (.node 1 (.leaf true) (.node 2 (.leaf true) (.leaf false))) (.leaf false)) =
    .node 0 (.node 2 (.leaf true) (.leaf false))
      (.node 1 (.node 2 (.leaf true) (.leaf false)) (.leaf false)) := by
  have : (bubbleSort 3 [2, 0, 1]).2 = [0, 1] := by simp [bubbleSort, bubblePass]
  rw [this]; decide

end OxiddModel.Reorder
