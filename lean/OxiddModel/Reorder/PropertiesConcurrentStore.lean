import OxiddModel.Reorder.ConcurrentStoreMachineInv
import OxiddModel.Reorder.ConcurrentStoreInterleave
import OxiddModel.Reorder.ConcurrentStoreLevels
import OxiddModel.Reorder.ConcurrentStoreTailW

/-!
# C08, concurrent variant, on the node store: headline theorems

Property C08: *after `set_var_order` (sequential or **concurrent** variant) the requested order is
established; every handle that existed before denotes exactly the same function afterwards, the
diagram is again canonical and well-formed.*

`PropertiesStore.lean` proves this for the sequential variant on the store model
(`setVarOrderS_correct`), `Properties.lean` proves that the task state machine of
`concurrent_bubble_sort` never runs two swaps sharing a level and is linearizable — on the list of
levels. This file closes the gap between the two **on the node store**:

1. `swapS_commute_disjoint` — two store-level `level_swap`s on disjoint pairs of level views commute;
2. `swap_steps_interleave` (`ConcurrentStoreInterleave.lean`) — any interleaving of the *steps* of any
   number of such swaps (start, every loop iteration, every released entry of `drop(old_upper)`,
   return) ends in the state of the sequential execution, in any order;
3. `concurrent_set_var_order_correct` — every execution of the task state machine coupled with the
   store (`MStep`: any number of workers, any schedule, steps of simultaneously running swaps
   interleaved), followed by the node-free second step and the **parallel** write-back of the level
   numbers, yields the store of the sequential algorithm run on the linearised swap sequence, with all
   the guarantees of `setVarOrderS_correct`;
4. `update_level_no_parallel` (`ConcurrentStoreLevels.lean`) — the parallel write-back writes what the
   sequential pass writes, for every covering partition and every interleaving; two negative
   witnesses (`update_levels_drop_last_wrong`, `update_levels_old_numbers_wrong`).

"The same state" is `RState.Same` / `Heap.Same`: every slot holds the same node (level, children,
reference counter), the level views, `to_pre` and the level→variable map are equal; the slot *lists*
may differ in the number of trailing free slots. The allocators are parameters: every task (call of
`level_swap`) has its own allocator, which must be *local* (`AllocLocal`): it only takes slots of
the task's two level views (slots freed by the task itself) and of a private pool of unused slots,
and looks at nothing else (the thread-local free list of the index manager). Slot ids then
coincide literally in all schedules.
-/
namespace OxiddModel.Reorder.SwapStore
open OxiddModel.Bdd OxiddModel.Bdd.BDD OxiddModel.Bdd.Refine OxiddModel.Reorder

/-! ## 1. two swaps on disjoint pairs commute -/

/-- the region of a `level_swap(u, l)` on `base` with the private pool `pool` -/
def regionOf (base : RState) (u l : Nat) (pool : Nat → Bool) : Nat → Bool :=
  fun k => (base.s.table u).contains k || (base.s.table l).contains k || pool k

/-- **`swapS_commute_disjoint`.** Under the (lazy) store invariant, for two pairs of level views
`u < l` and `u' < l'` with `l < u'` (only empty views inside each pair, the four views non-empty —
for `level_down` on adjacent levels this is `u + 2 ≤ w`), each swap with its own local allocator
and hash-table iteration order: first `(u, l)` then `(u', l')` and first `(u', l')` then `(u, l)`
yield the same state — the same node (level, children, reference counter) in every slot, the same
level views, `to_pre` and level→variable map. -/
theorem swapS_commute_disjoint {ext : Nat → Nat} {pos : Nat → Nat} {base : RState}
    (hinv : InvL ext base.toPre pos base.s) {u l u' l' : Nat}
    (hul : u < l) (hll : l < u') (hul' : u' < l') (hl' : l' < base.toPre.length)
    (hgap : ∀ p, u < p → p < l → base.s.table p = [])
    (hgap' : ∀ p, u' < p → p < l' → base.s.table p = [])
    (hne : base.s.table u ≠ [] ∧ base.s.table l ≠ [] ∧ base.s.table u' ≠ [] ∧ base.s.table l' ≠ [])
    (alA alB : Heap → Nat) (ordA ordB : List Nat → List Nat) (poolA poolB : Nat → Bool)
    (hokA : AllocOK alA) (hokB : AllocOK alB) (hoA : OrderOK ordA) (hoB : OrderOK ordB)
    (hlocA : AllocLocal (regionOf base u l poolA) alA)
    (hlocB : AllocLocal (regionOf base u' l' poolB) alB)
    (hfA : ∀ k, poolA k = true → base.s.h.sh k = none)
    (hfB : ∀ k, poolB k = true → base.s.h.sh k = none)
    (hAB : ∀ k, poolB k = true → regionOf base u l poolA k = false) :
    RState.Same (levelSwapG alB ordB (levelSwapG alA ordA base u l) u' l')
      (levelSwapG alA ordA (levelSwapG alB ordB base u' l') u l) := by
  have hlen := hinv.len
  have hlA : l < base.toPre.length := by omega
  -- the schedule "A without interruption, then B without interruption"
  have h0 : TReach base (base, [] ++ []) := TReach.init
  have hA := treach_task h0 0 u l alA ordA poolA hul hlA hgap hne.1 hne.2.1
    (fun t ht => nomatch ht) hokA hoA hlocA hfA (fun s hs => nomatch hs)
  simp only [List.nil_append] at hA
  generalize hY1 : runTask base u l alA (ordA (base.s.table u)) = Y1 at hA
  have hovA := treach_overlay hinv hA
  have htu : Y1.s.table u' = base.s.table u' :=
    hovA.2.tbl_frame u' (fun t ht => by
      simp only [List.mem_singleton] at ht; subst ht
      exact ⟨by show u' ≠ u; omega, by show u' ≠ l; omega⟩)
  have htl : Y1.s.table l' = base.s.table l' :=
    hovA.2.tbl_frame l' (fun t ht => by
      simp only [List.mem_singleton] at ht; subst ht
      exact ⟨by show l' ≠ u; omega, by show l' ≠ l; omega⟩)
  have hregA : (doneTask base 0 u l alA ordA poolA).reg = regionOf base u l poolA := rfl
  have hB := treach_task (a := [doneTask base 0 u l alA ordA poolA]) (b := []) hA 1 u' l' alB ordB poolB
    hul' hl' hgap' (by rw [htu]; exact hne.2.2.1) (by rw [htl]; exact hne.2.2.2)
    (fun t ht => by
      simp only [List.append_nil, List.mem_singleton] at ht; subst ht
      exact ⟨by show u' ≠ u; omega, by show u' ≠ l; omega, by show l' ≠ u; omega,
        by show l' ≠ l; omega⟩) hokB hoB
    (by
      have : Running.reg ⟨1, (tBegin Y1 u' l' alB (ordB (Y1.s.table u'))).2, ordB, poolB, [], [], false⟩
          = regionOf base u' l' poolB := by
        funext k; simp only [Running.reg, tBegin, regionOf, htu, htl]
      rw [this]; exact hlocB)
    (fun k hk => by
      rw [hovA.2.sh_frame k (fun t ht => by
        simp only [List.mem_singleton] at ht; subst ht; rw [hregA]; exact hAB k hk)]
      exact hfB k hk)
    (fun s hs k hk => by
      simp only [List.append_nil, List.mem_singleton] at hs; subst hs; rw [hregA]; exact hAB k hk)
  simp only [List.singleton_append] at hB
  generalize hA' : doneTask base 0 u l alA ordA poolA = A at hB
  generalize hB' : doneTask Y1 1 u' l' alB ordB poolB = B at hB
  have hall : ∀ t ∈ [A, B], t.ended = true := by
    intro t ht
    simp only [List.mem_cons, List.not_mem_nil, or_false] at ht
    rcases ht with rfl | rfl
    · rw [← hA']; rfl
    · rw [← hB']; rfl
  have h12 := seqSwaps_order_irrelevant hinv hB hall [A, B] [B, A] (List.Perm.refl _)
    (List.Perm.swap A B [])
  have e1 : seqSwaps base [A, B] = levelSwapG alB ordB (levelSwapG alA ordA base u l) u' l' := by
    rw [← hA', ← hB']; rfl
  have e2 : seqSwaps base [B, A] = levelSwapG alA ordA (levelSwapG alB ordB base u' l') u l := by
    rw [← hA', ← hB']; rfl
  rw [e1, e2] at h12
  exact h12

/-! ## 3. the concurrent `set_var_order` -/

/-- the set-up of `set_var_order_common` satisfies `MSetup` -/
theorem orderPlan_setup {ext : Nat → Nat} {s : SStore} (hinv : Inv ext s) (l2v order : List Nat)
    (hl2v : l2v.length = s.tables.length) :
    MSetup ext (orderPlan s l2v order).fromNe l2v (orderPlan s l2v order).neTarget
      ⟨s, List.range (orderPlan s l2v order).n, l2v⟩ := by
  have hn : (orderPlan s l2v order).n = s.tables.length := rfl
  have hfmem : ∀ p, p ∈ (orderPlan s l2v order).fromNe ↔ p < s.tables.length ∧ s.table p ≠ [] := by
    intro p
    show p ∈ (List.range s.tables.length).filter (fun l => !(s.table l).isEmpty) ↔ _
    simp [List.mem_filter]
  refine ⟨?_, ?_, ?_, ⟨id, ?_⟩⟩
  · exact List.Pairwise.filter _ List.pairwise_lt_range
  · intro p hp
    show p < (List.range (orderPlan s l2v order).n).length
    rw [List.length_range, hn]; exact ((hfmem p).mp hp).1
  · show ((orderPlan s l2v order).fromNe.map _).length = _
    simp
  · refine { inv := ?_, empty := ?_, l2v_len := ?_, l2v_eq := ?_ }
    · show InvL ext (List.range (orderPlan s l2v order).n) id s
      rw [hn]; exact hinv.toL
    · intro p hp
      by_cases hpn : p < s.tables.length
      · apply Classical.byContradiction
        intro hc; exact hp ((hfmem p).mpr ⟨hpn, hc⟩)
      · show s.table p = []
        exact table_of_ge (by omega)
    · show l2v.length = (List.range (orderPlan s l2v order).n).length
      rw [List.length_range, hn, hl2v]
    · intro p hp
      have hp' : p < s.tables.length := by
        have : p < (List.range (orderPlan s l2v order).n).length := hp
        rwa [List.length_range, hn] at this
      show l2v.getD p 0 = l2v.getD ((List.range (orderPlan s l2v order).n).getD p 0) 0
      rw [hn, range_getD hp']

/-- **`concurrent_set_var_order_correct`** (C08 for the concurrent `set_var_order`). Let `s` satisfy
the store invariant and let `m` be *any* state the coupled machine — the task state machine of
`concurrent_bubble_sort` with any number of `workers`, every worker inside `swap` executing its
`level_swap` step by step, the steps of simultaneously running swaps interleaved arbitrarily,
every task with its own local allocator and iteration order — can reach in which all workers have
left the sort (`tasks` empty, `in_progress == 0`). Let the node-free second step run
(`tailPre`), and let the level numbers be written back **in parallel**: any partition `slices` of
the task array covering it, the writes `ws` of the slices in any order.

Then (a) the final store is, slot by slot, the store the *sequential* `set_var_order_common`
computes when its `sort` performs the swaps in the order `m.c.log` of the critical sections — a
valid bubble-sort run (every swap exchanges an inversion) that sorts — each swap with the
allocator and iteration order of the worker that executed it; hence (b) the store invariant holds
(ordered w.r.t. the written level numbers, reduced, no duplicates, tables consistent, exact
reference counts), the requested order is established, and every external handle denotes a
diagram in normal form with the same function of the variables as before. -/
theorem concurrent_set_var_order_correct {ext : Nat → Nat} {s : SStore} (hinv : Inv ext s)
    (l2v order : List Nat) (hl2v : l2v.length = s.tables.length)
    (hnd : order.Nodup) (hmem : ∀ v ∈ order, v ∈ l2v)
    (workers : Nat) (m : MS)
    (hreach : MReach (orderPlan s l2v order).fromNe (orderPlan s l2v order).neTarget workers
      ⟨s, List.range (orderPlan s l2v order).n, l2v⟩ m)
    (ht : m.c.tasks = []) (hz : m.c.inProgress = 0)
    (slices : List (List Nat)) (ws : List (Nat × Nat))
    (hcov : slices.flatten.Perm (updTasks (tailPre (orderPlan s l2v order) m.r m.c.seq)))
    (hws : ws.Perm (slices.flatten.flatMap
      (writesOf (tailPre (orderPlan s l2v order) m.r m.c.seq)))) :
    let pl := orderPlan s l2v order
    let r2 := tailPre pl m.r m.c.seq
    let final : SStore := ⟨runWrites r2.s.h ws, r2.s.tables⟩
    (∃ cfgs : List SwapCfg, cfgs.map (·.i) = m.c.log ∧ ValidSwaps m.c.log pl.neTarget ∧
      Sorted m.c.seq ∧ (∀ c ∈ cfgs, AllocOK c.al ∧ OrderOK c.ord) ∧
      Heap.Same final.h (setVarOrderTail pl (swapsGH pl.fromNe ⟨s, List.range pl.n, l2v⟩ cfgs)
        (applySwaps (cfgs.map (·.i)) pl.neTarget)).1.h ∧
      final.tables = (setVarOrderTail pl (swapsGH pl.fromNe ⟨s, List.range pl.n, l2v⟩ cfgs)
        (applySwaps (cfgs.map (·.i)) pl.neTarget)).1.tables ∧
      r2.l2v = (setVarOrderTail pl (swapsGH pl.fromNe ⟨s, List.range pl.n, l2v⟩ cfgs)
        (applySwaps (cfgs.map (·.i)) pl.neTarget)).2) ∧
    (Inv ext final ∧ final.tables.length = s.tables.length) ∧
    (∀ i j (hij : i < j) (hj : j < order.length), ∃ p q, p < q ∧ q < s.tables.length ∧
      r2.l2v.getD p 0 = order[i] ∧ r2.l2v.getD q 0 = order[j]) ∧
    (∀ k t, 0 < ext k → Denotes s.h.abs (.inner k) t →
      ∃ t', Denotes final.h.abs (.inner k) t' ∧ NF 0 t' ∧
        ∀ ρ : Nat → Bool, t'.eval (fun p => ρ (r2.l2v.getD p 0)) = t.eval (fun l => ρ (l2v.getD l 0))) := by
  intro pl r2 final
  have hsetup := orderPlan_setup hinv l2v order hl2v
  obtain ⟨_, hsame, hvalid, hsorted, hseq, hfinok⟩ := mfinal hsetup hreach ht hz
  have hminv := mreach_inv hsetup hreach
  have hlog := hminv.finlog
  obtain ⟨hl1, hl2⟩ := order_levels_ok hnd hmem
  rw [hl2v] at hl2
  -- the sequential run on the linearised swaps
  have hrs : RSame m.r (swapsGH pl.fromNe ⟨s, List.range pl.n, l2v⟩ m.fin) := hsame
  have hrs2 := hrs.tailPre pl m.c.seq
  have hseq' : m.c.seq = applySwaps (m.fin.map (·.i)) pl.neTarget := hseq
  rw [hseq'] at hrs2
  have hwseq := tailPre_invW hinv l2v order hl2v hl1 hl2 m.fin (fun c hc => (hfinok c hc).1)
    (fun c hc => (hfinok c hc).2) hvalid hsorted
  have hr2eq : r2 = tailPre pl m.r (applySwaps (m.fin.map (·.i)) pl.neTarget) := by
    show tailPre pl m.r m.c.seq = _
    rw [hseq']
  have hw2 : InvW ext r2.toPre r2.s := by
    rw [hr2eq, hrs2.2.2.1]
    exact InvW.of_same hwseq (fun k => (hrs2.1 k).symm) hrs2.2.1.symm
  have hpar : runWrites r2.s.h ws = (updateLevels r2).h :=
    update_level_no_parallel hw2 slices hcov ws hws
  have hul := hrs2.updateLevels
  have hres : setVarOrderTail pl (swapsGH pl.fromNe ⟨s, List.range pl.n, l2v⟩ m.fin)
      (applySwaps (m.fin.map (·.i)) pl.neTarget) =
      (updateLevels (tailPre pl (swapsGH pl.fromNe ⟨s, List.range pl.n, l2v⟩ m.fin)
        (applySwaps (m.fin.map (·.i)) pl.neTarget)),
       (tailPre pl (swapsGH pl.fromNe ⟨s, List.range pl.n, l2v⟩ m.fin)
        (applySwaps (m.fin.map (·.i)) pl.neTarget)).l2v) := setVarOrderTail_eq _ _ _
  have hfh : Heap.Same final.h (setVarOrderTail pl (swapsGH pl.fromNe ⟨s, List.range pl.n, l2v⟩ m.fin)
      (applySwaps (m.fin.map (·.i)) pl.neTarget)).1.h := by
    rw [hres]
    show Heap.Same (runWrites r2.s.h ws) _
    rw [hpar, hr2eq]; exact hul.1
  have hft : final.tables = (setVarOrderTail pl (swapsGH pl.fromNe ⟨s, List.range pl.n, l2v⟩ m.fin)
      (applySwaps (m.fin.map (·.i)) pl.neTarget)).1.tables := by
    rw [hres]
    show r2.s.tables = _
    rw [hr2eq]; exact hul.2
  have hfl : r2.l2v = (setVarOrderTail pl (swapsGH pl.fromNe ⟨s, List.range pl.n, l2v⟩ m.fin)
      (applySwaps (m.fin.map (·.i)) pl.neTarget)).2 := by
    rw [hres, hr2eq]; exact hrs2.2.2.2
  obtain ⟨⟨c1, c2⟩, c3, c4⟩ := setVarOrderWith_correct hinv l2v order hl2v hnd hmem m.fin
    (fun c hc => (hfinok c hc).1) (fun c hc => (hfinok c hc).2) hvalid hsorted
  refine ⟨⟨m.fin, hlog, hlog ▸ hvalid, ?_, hfinok, hfh, hft, hfl⟩, ⟨?_, ?_⟩, ?_, ?_⟩
  · rw [hseq']; exact hsorted
  · exact Inv.of_same c1 (fun k => (hfh k).symm) hft.symm
  · rw [hft]; exact c2
  · intro i j hij hj
    obtain ⟨p, q, h1, h2, h3, h4⟩ := c3 i j hij hj
    exact ⟨p, q, h1, h2, by rw [hfl]; exact h3, by rw [hfl]; exact h4⟩
  · intro k t hk hd
    obtain ⟨t', h1, h2, h3⟩ := c4 k t hk hd
    exact ⟨t', Denotes.of_same (fun k => (hfh k).symm) h1, h2, fun ρ => by rw [hfl]; exact h3 ρ⟩

/-- non-vacuity (degenerate run: the requested order is the current one, the initial scan finds no
task, the workers leave at once; the write-back is given as one slice): the hypotheses are
satisfiable and the theorem applies. A run with real swaps is `ConcurrentStoreAlloc.lean`. -/
example :
    let pl := orderPlan sIte [0, 1, 2] [0, 1]
    let m := minit pl.neTarget 2 ⟨sIte, List.range pl.n, [0, 1, 2]⟩
    let r2 := tailPre pl m.r m.c.seq
    Inv extIte ⟨runWrites r2.s.h ((updTasks r2).flatMap (writesOf r2)), r2.s.tables⟩ :=
  (concurrent_set_var_order_correct sIte_inv [0, 1, 2] [0, 1] rfl (by decide) (by decide) 2
    (minit (orderPlan sIte [0, 1, 2] [0, 1]).neTarget 2
      ⟨sIte, List.range (orderPlan sIte [0, 1, 2] [0, 1]).n, [0, 1, 2]⟩)
    MReach.init (by decide) (by decide) [updTasks _] _
    (by rw [List.flatten_singleton]) (by rw [List.flatten_singleton])).2.1.1

end OxiddModel.Reorder.SwapStore
