import OxiddModel.Reorder.PropertiesConcurrentStore
import OxiddModel.Reorder.ConcurrentStoreAlloc

/-!
# Non-vacuity of `swapS_commute_disjoint` with concrete local allocators

The store `sFour` (`x0 ∧ x1 ∧ x2 ∧ x3`, four levels) and the residue-class allocators `alA`, `alB` of
`ConcurrentStoreAlloc.lean`: all hypotheses of `swapS_commute_disjoint` hold. (`sFour_commute`,
`sFour_interleaved` there are the corresponding instances of `swap_steps_interleave`.)
-/
namespace OxiddModel.Reorder.SwapStore
open OxiddModel.Bdd OxiddModel.Bdd.Refine OxiddModel.Reorder

example : RState.Same (levelSwapG alB id (levelSwapG alA id rFour 0 1) 2 3)
    (levelSwapG alA id (levelSwapG alB id rFour 2 3) 0 1) :=
  swapS_commute_disjoint rFour_invL (u := 0) (l := 1) (u' := 2) (l' := 3)
    (by decide) (by decide) (by decide) (by decide)
    (fun p h1 h2 => by omega) (fun p h1 h2 => by omega)
    (by decide) alA alB id id (poolOfFrom 4 2 0) (poolOfFrom 4 2 1)
    alA_ok alB_ok orderOK_id orderOK_id
    (poolAllocFrom_local (by decide) (by decide) (fun k hk => by simp [regionOf, hk]))
    (poolAllocFrom_local (by decide) (by decide) (fun k hk => by simp [regionOf, hk]))
    (fun k hk => poolOfFrom_free (by decide) hk)
    (fun k hk => poolOfFrom_free (by decide) hk)
    (fun k hk => taskA_reg_B k hk)

end OxiddModel.Reorder.SwapStore
