import OxiddModel.Reorder.Properties
import OxiddModel.Reorder.MinSwapsSum
import OxiddModel.Reorder.MinSwapsCost
import OxiddModel.Reorder.MinSwapsSwaps
import OxiddModel.Reorder.MinSwapsFormula

/-!
# C08 — global minimality of the number of adjacent level swaps of `set_var_order`

Property text: "unnamed variables are placed so that the number of adjacent level swaps is
minimal".  `Properties.lean` proves only the per-level optimality (`sortOrder_min_partial`) and
leaves the global statement open.  It is proved here, for every number of levels and every
request:

* `sortOrder_min_swaps`: the target assignment `sortOrder n input` (current level ↦ target
  level) has the least number of inversions (`invCount`, the exact number of swaps
  `bubble_sort` performs, `bubbleSort_swaps_count`) among **all** assignments `τ` of pairwise
  distinct target positions to the `n` levels that put the named levels into the requested
  relative order (`τ` need not even be onto `0 … n-1`);
* `set_var_order_swaps_minimal`: no sequence of adjacent swaps — arbitrary ones, not only
  swaps of inversions — that sorts *any* admissible target assignment is shorter than the swap
  sequence `bubbleSort` emits for `sortOrder n input`;
* `set_var_order_swaps_minimal_arrangement`: the same in terms of the arrangement of the
  levels: any sequence of adjacent swaps that rearranges the levels `0 … n-1` such that the
  named levels appear in the requested order has at least as many swaps;
* `set_var_order_swaps_attained`: the bound is attained by an admissible order (so "minimal"
  means *the minimum*);
* `sortOrder_total_forced`: for a total request the target order is forced;
* `sortOrder_invCount_formula`, `sortOrder_gap_minimal`: the value of the minimum in closed form
  (inversions of the request itself plus the cheapest gap for every unnamed level);
* `level_swaps_le_min`, `neTargets_all_true`, `nonempty_levels_not_minimal`: what holds and what
  fails for the `level_swap` calls when some levels are empty.

Proof (MinSwapsSum/MinSwapsCost): the inversions of an admissible `τ` split into named–named
pairs (forced by the request), unnamed–unnamed pairs (none for `sortOrder`, because the
left-most minima of the cost array are monotone along the walk, `indicators_mono`) and, for every
unnamed level `l`, the named levels `l` crosses — `crossCost l q` for the gap `q` of the named
sequence into which `τ` puts `l` (`gap_of_respects`, `gap_eq_crossCost`), which `sortOrder`
minimises level by level (`sortOrder_min_partial`; `sortOrder_named_vs_unnamed` shows that the
counting sort really puts `l` into the gap its indicator names).

What the theorem does **not** say (see the examples at the end): `set_var_order_common` bubble
sorts the target positions of the **non-empty** levels only and moves empty levels for free, so
the number of `level_swap` calls is the inversion count of that *subsequence*; `sort_order`
does not know which levels are empty, and on a manager with empty levels another admissible
order can need fewer `level_swap` calls (`nonempty_levels_not_minimal`).
-/
namespace OxiddModel.Reorder

/-- **C08, global minimality** (`sortOrder_min_swaps`). Among all assignments `τ` of pairwise
distinct target positions to the levels `0 … n-1` under which the named levels appear in the
requested relative order, the one computed by `sort_order` has the least number of inversions
with respect to the current order — i.e. (by `bubbleSort_swaps_count`) needs the least number of
adjacent level swaps. Holds for partial and total requests. -/
theorem sortOrder_min_swaps (n : Nat) (input : List Nat) (hnd : input.Nodup)
    (hlt : ∀ x ∈ input, x < n) (τ : List Nat) (hlen : τ.length = n) (hτnd : τ.Nodup)
    (hresp : ∀ i j (hij : i < j) (hj : j < input.length),
      τ[input[i]]'(by rw [hlen]; exact hlt _ (List.getElem_mem (by omega))) <
      τ[input[j]]'(by rw [hlen]; exact hlt _ (List.getElem_mem hj))) :
    invCount (sortOrder n input) ≤ invCount τ := by
  rw [invCount_eq_invF, invCount_eq_invF, sortOrder_length, hlen]
  have hσ : ∀ a (ha : a < n), (sortOrder n input).getD a 0 =
      (sortOrder n input)[a]'(by rw [sortOrder_length]; exact ha) := fun a _ => getD_of_lt _ _ _
  have hτ : ∀ a (ha : a < n), τ.getD a 0 = τ[a]'(by omega) := fun a _ => getD_of_lt _ _ _
  have hrespσ : ∀ i j (hij : i < j) (hj : j < input.length),
      (fun a => (sortOrder n input).getD a 0) (input[i]'(by omega)) <
        (fun a => (sortOrder n input).getD a 0) input[j] := by
    intro i j hij hj
    show (sortOrder n input).getD _ 0 < (sortOrder n input).getD _ 0
    rw [hσ _ (hlt _ (List.getElem_mem (by omega))), hσ _ (hlt _ (List.getElem_mem hj))]
    exact sortOrder_respects n input hnd hlt i j hij hj
  have hrespτ : ∀ i j (hij : i < j) (hj : j < input.length),
      (fun a => τ.getD a 0) (input[i]'(by omega)) < (fun a => τ.getD a 0) input[j] := by
    intro i j hij hj
    show τ.getD _ 0 < τ.getD _ 0
    rw [hτ _ (hlt _ (List.getElem_mem (by omega))), hτ _ (hlt _ (List.getElem_mem hj))]
    exact hresp i j hij hj
  apply invF_le_of (isNamed input)
  · -- named–named pairs: forced by the request
    intro a b _ _ hNa hNb
    obtain ⟨i, hi, _, rfl⟩ := isNamed_eq_true hNa
    obtain ⟨j, hj, _, rfl⟩ := isNamed_eq_true hNb
    exact Iff.trans
      (respects_lt_iff input (fun a => (sortOrder n input).getD a 0) hrespσ i j hi hj)
      (respects_lt_iff input (fun a => τ.getD a 0) hrespτ i j hi hj).symm
  · -- unnamed–unnamed pairs: no inversion in `sortOrder`
    intro a b hab hb hNa hNb
    have hua := isNamed_eq_false.1 hNa
    have hub := isNamed_eq_false.1 hNb
    have hlen' := unnamed_length_ne hnd hlt hb hub
    rw [hσ a (by omega), hσ b hb, sortOrder_lt_iff n input hlen' b a hb (by omega)]
    have := indicators_mono n input a b hab hb hua hub
    omega
  · -- an unnamed level against the named levels: `crossCost` of a gap, minimised by `sortOrder`
    intro l hl hN
    have hun := isNamed_eq_false.1 hN
    obtain ⟨hp, hmin, _⟩ := sortOrder_min_partial n input l hl hun
    have e1 : mix (isNamed input) (fun a => (sortOrder n input).getD a 0) n l =
        sumTo n (gapCost input l ((indicators n input)[l]'(by simpa using hl))) :=
      mix_eq_gap input _ n l _ (fun a i ha hi => by
        show ((sortOrder n input).getD a 0 < (sortOrder n input).getD l 0 ↔ _) ∧
          ((sortOrder n input).getD l 0 < (sortOrder n input).getD a 0 ↔ _)
        rw [hσ a ha, hσ l hl]
        exact sortOrder_named_vs_unnamed n input hnd hlt l hl hun a i ha hi)
    have hinj : ∀ i (hi : i < input.length),
        (fun a => τ.getD a 0) input[i] ≠ (fun a => τ.getD a 0) l := by
      intro i hi h
      have h' : τ.getD input[i] 0 = τ.getD l 0 := h
      rw [List.getD_inj (by rw [hlen]; exact hlt _ (List.getElem_mem hi)) (by omega) hτnd] at h'
      exact hun (h' ▸ List.getElem_mem hi)
    obtain ⟨hq, hgap⟩ := gap_of_respects input (fun a => τ.getD a 0) l hrespτ hinj
    have e2 := mix_eq_gap input (fun a => τ.getD a 0) n l _ (fun a i _ hi => by
      rw [List.idxOf?_eq_some_iff] at hi
      obtain ⟨hi1, rfl, _⟩ := hi
      exact hgap i hi1)
    have c1 := gap_eq_crossCost n input hnd hlt l hl hun _ hp
    have c2 := gap_eq_crossCost n input hnd hlt l hl hun _ hq
    have := hmin _ hq
    rw [e1, e2]
    omega

/-- non-vacuity: a request on 10 levels, the computed order with 10 inversions, and another
admissible order (all unnamed levels at the bottom) with 15 -/
example : invCount (sortOrder 10 [6, 3, 0, 4, 1, 9]) = 10 ∧
    [2, 4, 6, 1, 3, 7, 0, 8, 9, 5].Nodup ∧
    (∀ j, j < 6 → ∀ i, i < j →
      [2, 4, 6, 1, 3, 7, 0, 8, 9, 5][[6, 3, 0, 4, 1, 9][i]!]! <
      [2, 4, 6, 1, 3, 7, 0, 8, 9, 5][[6, 3, 0, 4, 1, 9][j]!]!) ∧
    invCount [2, 4, 6, 1, 3, 7, 0, 8, 9, 5] = 15 := by decide

/-- the minimum is a minimum over a set that contains more than one element, and is strict -/
example : sortOrder 3 [2, 0] = [2, 0, 1] ∧ invCount (sortOrder 3 [2, 0]) = 2 ∧
    invCount [1, 2, 0] = 2 ∧ invCount [2, 1, 0] = 3 := by decide

/-- **`set_var_order_swaps_minimal`.** Let `τ` be any admissible target assignment (pairwise
distinct positions, named levels in the requested relative order) and `sw` **any** sequence of
adjacent swaps (positions arbitrary, not necessarily exchanging inversions) that sorts `τ`,
i.e. that brings the levels into the order `τ` describes. Then `sw` is at least as long as the
sequence of `level_swap` calls that `bubble_sort` emits for the order computed by `sort_order`
(fuel `≥ n` only expresses that the model's loop has run to completion). -/
theorem set_var_order_swaps_minimal (n : Nat) (input : List Nat) (hnd : input.Nodup)
    (hlt : ∀ x ∈ input, x < n) (fuel : Nat) (hf : n ≤ fuel)
    (τ : List Nat) (hlen : τ.length = n) (hτnd : τ.Nodup)
    (hresp : ∀ i j (hij : i < j) (hj : j < input.length),
      τ[input[i]]'(by rw [hlen]; exact hlt _ (List.getElem_mem (by omega))) <
      τ[input[j]]'(by rw [hlen]; exact hlt _ (List.getElem_mem hj)))
    (sw : List Nat) (hs : Sorted (applySwaps sw τ)) :
    (bubbleSort fuel (sortOrder n input)).2.length ≤ sw.length := by
  rw [bubbleSort_swaps_count _ _ (by rw [sortOrder_length]; exact hf)]
  exact Nat.le_trans (sortOrder_min_swaps n input hnd hlt τ hlen hτnd hresp)
    (swaps_lower_bound sw τ hs)

example : (bubbleSort 3 (sortOrder 3 [2, 0])).2 = [0, 1] ∧
    Sorted (applySwaps [0, 1, 0] [2, 1, 0]) := by
  refine ⟨by simp [bubbleSort, bubblePass, show sortOrder 3 [2, 0] = [2, 0, 1] by decide], ?_⟩
  decide

/-- **`set_var_order_swaps_attained`.** The order computed by `sort_order` is itself admissible
and the swaps emitted by `bubble_sort` sort it, so the bound of `set_var_order_swaps_minimal`
is attained: it is the minimum. -/
theorem set_var_order_swaps_attained (n : Nat) (input : List Nat) (hnd : input.Nodup)
    (hlt : ∀ x ∈ input, x < n) (fuel : Nat) (hf : n ≤ fuel) :
    (sortOrder n input).length = n ∧ (sortOrder n input).Nodup ∧
    (∀ i j (hij : i < j) (hj : j < input.length),
      (sortOrder n input)[input[i]]'(by
        rw [sortOrder_length]; exact hlt _ (List.getElem_mem (by omega))) <
      (sortOrder n input)[input[j]]'(by
        rw [sortOrder_length]; exact hlt _ (List.getElem_mem hj))) ∧
    Sorted (applySwaps (bubbleSort fuel (sortOrder n input)).2 (sortOrder n input)) ∧
    (bubbleSort fuel (sortOrder n input)).2.length = invCount (sortOrder n input) := by
  have hp := sortOrder_perm n input hnd hlt
  refine ⟨hp.1, hp.2.2, fun i j hij hj => sortOrder_respects n input hnd hlt i j hij hj, ?_,
    bubbleSort_swaps_count _ _ (by rw [sortOrder_length]; exact hf)⟩
  rw [(bubbleSort_swaps _ fuel).1]
  exact bubbleSort_sorted _ fuel (by rw [sortOrder_length]; exact hf)

/-- **`set_var_order_swaps_minimal_arrangement`** — the same statement about the arrangement of
the levels. Start from the current arrangement `0, 1, …, n-1` of the levels and perform any
sequence `sw` of adjacent swaps; if in the resulting arrangement the named levels appear in the
requested relative order (position of `input[i]` before position of `input[j]` for `i < j`),
then `sw` is at least as long as the swap sequence `set_var_order` performs. -/
theorem set_var_order_swaps_minimal_arrangement (n : Nat) (input : List Nat) (hnd : input.Nodup)
    (hlt : ∀ x ∈ input, x < n) (fuel : Nat) (hf : n ≤ fuel) (sw : List Nat)
    (hreq : ∀ i j (_ : i < j) (hj : j < input.length),
      (applySwaps sw (List.range n)).idxOf (input[i]'(by omega)) <
        (applySwaps sw (List.range n)).idxOf input[j]) :
    (bubbleSort fuel (sortOrder n input)).2.length ≤ sw.length := by
  have hperm := applySwaps_perm sw (List.range n)
  have hAnd : (applySwaps sw (List.range n)).Nodup := hperm.symm.nodup List.nodup_range
  have hAlen : (applySwaps sw (List.range n)).length = n := by simp
  have hmem : ∀ a, a < n → a ∈ applySwaps sw (List.range n) :=
    fun a ha => hperm.mem_iff.2 (List.mem_range.2 ha)
  have hτget : ∀ a (ha : a < ((List.range n).map (applySwaps sw (List.range n)).idxOf).length),
      ((List.range n).map (applySwaps sw (List.range n)).idxOf)[a] =
        (applySwaps sw (List.range n)).idxOf a := by
    intro a ha; simp
  apply set_var_order_swaps_minimal n input hnd hlt fuel hf
    ((List.range n).map (applySwaps sw (List.range n)).idxOf) (by simp)
  · -- pairwise distinct positions
    rw [List.nodup_iff_pairwise_ne, List.pairwise_iff_getElem]
    intro a b ha hb hab
    rw [hτget a ha, hτget b hb]
    intro he
    have ha' : a < n := by simpa using ha
    have hb' : b < n := by simpa using hb
    have h1 := List.getElem_idxOf (List.idxOf_lt_length_of_mem (hmem a ha'))
    have h2 := List.getElem_idxOf (List.idxOf_lt_length_of_mem (hmem b hb'))
    simp only [he] at h1
    rw [h1] at h2
    omega
  · intro i j hij hj
    rw [hτget, hτget]
    exact hreq i j hij hj
  · -- `sw` sorts this assignment
    rw [applySwaps_map]
    show List.Pairwise _ _
    rw [List.pairwise_iff_getElem]
    intro p p' hp hp' hpp'
    simp only [List.getElem_map]
    rw [hAnd.idxOf_getElem p (by simpa using hp), hAnd.idxOf_getElem p' (by simpa using hp')]
    omega

example : applySwaps [1, 0] (List.range 3) = [2, 0, 1] ∧
    (bubbleSort 3 (sortOrder 3 [2, 0])).2.length = 2 := by
  refine ⟨by decide, ?_⟩
  simp [bubbleSort, bubblePass, show sortOrder 3 [2, 0] = [2, 0, 1] by decide]

/-- **total requests: the target order is forced.** If every level is named, any assignment of
target positions `< n` under which the named levels appear in the requested relative order *is*
the order computed by `sort_order` (so minimality is trivial in that case). -/
theorem sortOrder_total_forced (n : Nat) (input : List Nat) (hnd : input.Nodup)
    (hlt : ∀ x ∈ input, x < n) (hfull : input.length = n)
    (τ : List Nat) (hlen : τ.length = n) (hτlt : ∀ x ∈ τ, x < n)
    (hresp : ∀ i j (hij : i < j) (hj : j < input.length),
      τ[input[i]]'(by rw [hlen]; exact hlt _ (List.getElem_mem (by omega))) <
      τ[input[j]]'(by rw [hlen]; exact hlt _ (List.getElem_mem hj))) :
    τ = sortOrder n input := by
  have hτ : ∀ a (ha : a < n), τ.getD a 0 = τ[a]'(by omega) := fun a _ => getD_of_lt _ _ _
  have hin : ∀ i (hi : i < input.length), input.getD i 0 = input[i] := fun i hi => getD_of_lt _ _ hi
  have hid := strictMono_id n (fun i => τ.getD (input.getD i 0) 0)
    (fun i j hij hj => by
      show τ.getD (input.getD i 0) 0 < τ.getD (input.getD j 0) 0
      rw [hin i (by omega), hin j (by omega), hτ _ (hlt _ (List.getElem_mem (by omega))),
        hτ _ (hlt _ (List.getElem_mem (by omega)))]
      exact hresp i j hij (by omega))
    (fun i hi => by
      show τ.getD (input.getD i 0) 0 < n
      rw [hin i (by omega), hτ _ (hlt _ (List.getElem_mem (by omega)))]
      exact hτlt _ (List.getElem_mem _))
  apply List.ext_getElem (by rw [hlen, sortOrder_length])
  intro a ha _
  have ha' : a < n := by omega
  obtain ⟨i, hi, _, rfl⟩ := idxOf?_of_mem (mem_of_nodup_full hnd hlt hfull ha')
  rw [sortOrder_total n input hnd hlt hfull i hi]
  have : τ.getD (input.getD i 0) 0 = i := hid i (by omega)
  rw [hin i hi, hτ _ ha'] at this
  exact this

example : sortOrder 4 [0, 2, 3, 1] = [0, 3, 1, 2] ∧ [0, 2, 3, 1].length = 4 := by decide

/-! ## the value of the minimum -/

/-- **closed formula for the minimum.** The number of adjacent swaps `set_var_order` performs is
the number of inversions of the request itself with respect to the current order (`namedInv`)
plus, for every unnamed level `l`, the number of named levels it crosses when inserted into the
gap its indicator names (`gapCost`); by `sortOrder_gap_minimal` the latter is the least possible
over all gaps. (The harness scenario `c08_minswaps` evaluates this formula independently on the
real code for up to 48 levels, and compares it with brute force up to 8 levels.) -/
theorem sortOrder_invCount_formula (n : Nat) (input : List Nat) (hnd : input.Nodup)
    (hlt : ∀ x ∈ input, x < n) :
    invCount (sortOrder n input) = namedInv input n +
      sumTo n (fun l => if isNamed input l then 0
        else sumTo n (gapCost input l ((indicators n input).getD l 0))) := by
  rw [invCount_eq_invF, sortOrder_length]
  show invF (sortFn n input) n = _
  rw [invF_split (isNamed input), sortOrder_invUU n input hnd hlt,
    invNN_eq_namedInv input _ n (sortFn_respects n input hnd hlt), Nat.add_zero]
  congr 1
  apply sumTo_congr
  intro l hl
  cases hN : isNamed input l
  · simp only [Bool.false_eq_true, if_false]
    rw [sortOrder_mix n input hnd hlt l hl (isNamed_eq_false.1 hN), getD_of_lt _ _ (by simpa using hl)]
  · rfl

/-- the gap chosen for an unnamed level is one of the `input.length + 1` gaps and the cheapest
of them -/
theorem sortOrder_gap_minimal (n : Nat) (input : List Nat) (hnd : input.Nodup)
    (hlt : ∀ x ∈ input, x < n) (l : Nat) (hl : l < n) (hun : l ∉ input) :
    (indicators n input).getD l 0 ≤ input.length ∧
    ∀ q, q ≤ input.length →
      sumTo n (gapCost input l ((indicators n input).getD l 0)) ≤ sumTo n (gapCost input l q) := by
  rw [getD_of_lt _ _ (by simpa using hl)]
  obtain ⟨hp, hmin, _⟩ := sortOrder_min_partial n input l hl hun
  refine ⟨hp, fun q hq => ?_⟩
  have c1 := gap_eq_crossCost n input hnd hlt l hl hun _ hp
  have c2 := gap_eq_crossCost n input hnd hlt l hl hun _ hq
  have := hmin q hq
  omega

example : invCount (sortOrder 10 [6, 3, 0, 4, 1, 9]) = 10 ∧ namedInv [6, 3, 0, 4, 1, 9] 10 = 7 ∧
    sumTo 10 (gapCost [6, 3, 0, 4, 1, 9] 2 ((indicators 10 [6, 3, 0, 4, 1, 9]).getD 2 0)) = 2 := by
  decide

/-! ## what is *not* minimal: the `level_swap` calls on a manager with empty levels

`set_var_order_common` extracts the target positions of the non-empty levels
(`ne_target_order`), bubble sorts only these, and then permutes the level slots without touching
a node. The number of `level_swap` calls is therefore `invCount` of the subsequence of
`sortOrder n input` at the non-empty levels. `sort_order` is not told which levels are empty,
and the placement it chooses is in general **not** minimal for this count. -/

/-- target positions of the non-empty levels, in the current order (`ne_target_order`) -/
def neTargets (target : List Nat) (nonEmpty : List Bool) : List Nat :=
  (target.zip nonEmpty).filterMap fun (t, ne) => if ne then some t else none

/-- `ne_target_order` is a subsequence of the target order -/
theorem neTargets_sublist (target : List Nat) (nonEmpty : List Bool) :
    (neTargets target nonEmpty).Sublist target := by
  unfold neTargets
  induction target generalizing nonEmpty with
  | nil => simp
  | cons t target ih =>
    cases nonEmpty with
    | nil => simp
    | cons b nonEmpty =>
      cases b
      · simp only [List.zip_cons_cons, List.filterMap_cons, Bool.false_eq_true, if_false]
        exact (ih nonEmpty).cons t
      · simp only [List.zip_cons_cons, List.filterMap_cons, if_true]
        exact (ih nonEmpty).cons_cons t

/-- if every level carries nodes, all target positions take part in the bubble sort -/
theorem neTargets_all_true (target : List Nat) :
    neTargets target (List.replicate target.length true) = target := by
  unfold neTargets
  induction target with
  | nil => rfl
  | cons t target ih =>
    simp only [List.length_cons, List.replicate_succ, List.zip_cons_cons, List.filterMap_cons,
      if_true, ih]

/-- **what does hold with empty levels**: the number of `level_swap` calls of `set_var_order`
(bubble sort of the target positions of the non-empty levels) never exceeds the all-levels
minimum, i.e. the inversion count of *any* admissible order; and when every level is non-empty it
*is* that minimum (`neTargets_all_true` + `set_var_order_swaps_minimal`). -/
theorem level_swaps_le_min (n : Nat) (input : List Nat) (hnd : input.Nodup)
    (hlt : ∀ x ∈ input, x < n) (nonEmpty : List Bool) (fuel : Nat) (hf : n ≤ fuel)
    (τ : List Nat) (hlen : τ.length = n) (hτnd : τ.Nodup)
    (hresp : ∀ i j (hij : i < j) (hj : j < input.length),
      τ[input[i]]'(by rw [hlen]; exact hlt _ (List.getElem_mem (by omega))) <
      τ[input[j]]'(by rw [hlen]; exact hlt _ (List.getElem_mem hj))) :
    (bubbleSort fuel (neTargets (sortOrder n input) nonEmpty)).2.length ≤ invCount τ := by
  have hsub := neTargets_sublist (sortOrder n input) nonEmpty
  have hl := hsub.length_le
  rw [sortOrder_length] at hl
  rw [bubbleSort_swaps_count _ _ (by omega)]
  exact Nat.le_trans (invCount_sublist hsub) (sortOrder_min_swaps n input hnd hlt τ hlen hτnd hresp)

/-- Four levels, level 0 and 1 carry nodes, levels 2 and 3 are empty; request `[2, 3, 0]`
(level 1 is unnamed). `sort_order` moves level 1 to the top (one inversion with the named level
0, against two inversions with the empty named levels 2 and 3 if it went to the bottom):
`set_var_order` performs one `level_swap` of two non-empty levels. The admissible order that
puts level 1 at the bottom needs none. -/
theorem nonempty_levels_not_minimal :
    sortOrder 4 [2, 3, 0] = [3, 0, 1, 2] ∧
    invCount (neTargets (sortOrder 4 [2, 3, 0]) [true, true, false, false]) = 1 ∧
    -- the other admissible order: levels 2, 3, 0, 1
    ([2, 3, 0, 1].Nodup ∧ [2, 3, 0, 1][2]! < [2, 3, 0, 1][3]! ∧ [2, 3, 0, 1][3]! < [2, 3, 0, 1][0]!) ∧
    invCount (neTargets [2, 3, 0, 1] [true, true, false, false]) = 0 ∧
    -- counted over all levels `sort_order`'s choice is the better one (3 against 4)
    invCount (sortOrder 4 [2, 3, 0]) = 3 ∧ invCount [2, 3, 0, 1] = 4 := by decide

end OxiddModel.Reorder
