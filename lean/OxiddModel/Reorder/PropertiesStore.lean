import OxiddModel.Reorder.SwapStoreSeq
import OxiddModel.Reorder.SwapStoreNeg
import OxiddModel.Reorder.SwapStoreGarbage
import OxiddModel.Reorder.SetOrderProof

/-!
# C08 on the node store: headline theorems

Property C08: *reordering (`set_var_order` / level swaps) establishes the requested order and
preserves every function: every existing handle denotes the same Boolean function afterwards, the
diagram stays ordered/reduced/duplicate-free, reference counts stay exact.*

`Swap.lean`/`Properties.lean` prove this for the *unfolding* of a diagram (`swapTree`). This file
states it for the model of the real, in-place `oxidd_reorder::level_swap` / `level_down`
(`SwapStore.lean`: id-indexed slots with stored level numbers and reference counters, per-level
unique tables, the loop over `old_upper` in arbitrary iteration order, node creation with lookup in
`old_upper` first, `set_child`/`set_level` in place, re-insertion, orphan removal,
`update_level_no`).

* `Inv ext s` (`SwapStoreFinal.lean`) is the store invariant: the level tables partition the live
  slots by stored level number and are duplicate free; every edge goes to a live slot of a
  strictly larger level (ordered, no dangling edge); no slot has equal children (`NoRed`); no two
  slots have the same level and children (`Unique`, per level); the counter of every slot is
  exactly `[it is in a table] + ext slot + #parent edges` where `ext` are the external handles,
  and free slots are referenced by nothing.
* `al` is the slot allocator (any function returning a free slot: `AllocOK`), `ord` the iteration
  order of the hash table `old_upper` (any permutation of its entries: `OrderOK`). Every theorem
  holds for all of them.
-/
namespace OxiddModel.Reorder.SwapStore
open OxiddModel.Bdd OxiddModel.Bdd.BDD OxiddModel.Bdd.Refine OxiddModel.Reorder

/-! ## concrete stores for the non-vacuity examples -/

/-- `f = x0 ? x1 : x2` (slot 2) with external handles on `f`, `x1` (slot 1) and `x2` (slot 0) -/
def sIte : SStore :=
  ⟨⟨[some ⟨2, .term true, .term false, 3⟩, some ⟨1, .term true, .term false, 3⟩,
     some ⟨0, .inner 1, .inner 0, 2⟩]⟩, [[2], [1], [0]]⟩

def extIte : Nat → Nat := extOf [1, 1, 1]

theorem sIte_inv : Inv extIte sIte := checkInv_sound (by decide)

def tIte : BDD := .node 0 (.node 1 (.leaf true) (.leaf false)) (.node 2 (.leaf true) (.leaf false))

theorem sIte_den : Denotes sIte.h.abs (.inner 2) tIte := treeOf_sound (f := 3) (by decide)

/-! ## one level swap -/

/-- **`swapS_inv`.** `level_down(u)` re-establishes the store invariant, for every iteration
order of `old_upper` and every allocator: the store is again ordered w.r.t. the stored level
numbers (after `update_level_no`), no node is redundant, no level table holds two equal nodes —
neither among moved, rewritten and freshly created nodes nor between these groups —, the tables
agree with the stored level numbers, reference counts are exact and nothing refers to a freed
slot. The number of levels is unchanged. -/
theorem swapS_inv {ext : Nat → Nat} {s : SStore} {u : Nat} {al : Heap → Nat}
    {ord : List Nat → List Nat} (hal : AllocOK al) (hord : OrderOK ord) (hinv : Inv ext s)
    (hu : u + 1 < s.tables.length) :
    Inv ext (levelDownS al ord s u) ∧ (levelDownS al ord s u).tables.length = s.tables.length :=
  ⟨levelDownS_inv hal hord hinv hu, levelDownS_len al ord s u⟩

example : Inv extIte (levelDownS Heap.firstFree List.reverse sIte 0) :=
  (swapS_inv allocOK_firstFree orderOK_reverse sIte_inv (by decide)).1

/-- **`swapS_denotes`.** Every edge whose target is still in the store afterwards denotes
`swapTree u t`, where `t` is the diagram it denoted before. "Still in the store" only excludes
orphaned nodes of the old lower level (`swapS_removed`): the hypothesis is void for edges to
other levels, and by `swapS_denotes_handle` it holds for every externally referenced slot. -/
theorem swapS_denotes {ext : Nat → Nat} {s : SStore} {u : Nat} {al : Heap → Nat}
    {ord : List Nat → List Nat} (hal : AllocOK al) (hord : OrderOK ord) (hinv : Inv ext s)
    (hu : u + 1 < s.tables.length) {x : Edge} {t : BDD} (hd : Denotes s.h.abs x t)
    (halive : ∀ k m, x = .inner k → s.h.sh k = some m → m.level = u + 1 →
      k ∈ (levelDownS al ord s u).table u) :
    Denotes (levelDownS al ord s u).h.abs x (swapTree u t) :=
  levelDownS_denotes hal hord hinv hu hd halive

/-- **`swapS_denotes_handle`.** Every externally referenced slot keeps its id and denotes the
swapped diagram. -/
theorem swapS_denotes_handle {ext : Nat → Nat} {s : SStore} {u : Nat} {al : Heap → Nat}
    {ord : List Nat → List Nat} (hal : AllocOK al) (hord : OrderOK ord) (hinv : Inv ext s)
    (hu : u + 1 < s.tables.length) {k : Nat} {t : BDD} (hk : 0 < ext k)
    (hd : Denotes s.h.abs (.inner k) t) :
    Denotes (levelDownS al ord s u).h.abs (.inner k) (swapTree u t) :=
  levelDownS_handle hal hord hinv hu hk hd

example : Denotes (levelDownS Heap.firstFree id sIte 0).h.abs (.inner 2) (swapTree 0 tIte) :=
  swapS_denotes_handle allocOK_firstFree orderOK_id sIte_inv (by decide) (by decide) sIte_den

/-- the swapped diagram of the example, explicitly: `x1 ? (x0 ? ⊤ : x2) : (x0 ? ⊥ : x2)` over
levels (level 0 now carries `x1`) -/
example : swapTree 0 tIte =
    .node 0 (.node 1 (.leaf true) (.node 2 (.leaf true) (.leaf false)))
      (.node 1 (.leaf false) (.node 2 (.leaf true) (.leaf false))) := by decide

/-- **`swapS_sem`.** … i.e. the same Boolean function of the *variables*: evaluating the new
diagram under `σ` equals evaluating the old one under `σ` with the values of the two levels
exchanged (the level↔variable map is swapped along with the level views; `swapTree_sem`).
The new diagram is in normal form, hence *the* canonical diagram of that function for the new
order (`swapTree_canonical`). -/
theorem swapS_sem {ext : Nat → Nat} {s : SStore} {u : Nat} {al : Heap → Nat}
    {ord : List Nat → List Nat} (hal : AllocOK al) (hord : OrderOK ord) (hinv : Inv ext s)
    (hu : u + 1 < s.tables.length) {k : Nat} {t : BDD} (hk : 0 < ext k)
    (hd : Denotes s.h.abs (.inner k) t) :
    ∃ t', Denotes (levelDownS al ord s u).h.abs (.inner k) t' ∧ NF 0 t' ∧
      ∀ σ : Nat → Bool, t'.eval σ = t.eval (σ ∘ swapLv u) :=
  ⟨swapTree u t, levelDownS_handle hal hord hinv hu hk hd,
    swapTree_nf u (hinv.nf hd) (Nat.zero_le _), fun σ => swapTree_sem u (hinv.nf hd).1 σ⟩

example : ∃ t', Denotes (levelDownS Heap.firstFree id sIte 0).h.abs (.inner 2) t' ∧ NF 0 t' ∧
    ∀ σ : Nat → Bool, t'.eval σ = tIte.eval (σ ∘ swapLv 0) :=
  swapS_sem allocOK_firstFree orderOK_id sIte_inv (by decide) (by decide) sIte_den

/-- **`swapS_removed`** (what the swap frees, and what it leaves). A node of the old lower level
can only disappear if it has no external handle and no parent above the two levels; all other
slots keep their ids (`levelDownS_live`). Conversely the code leaves no dangling edge and no
mis-counted slot (`swapS_inv`), and by `swapS_no_new_garbage` the only unreferenced nodes it
leaves at the new upper level are nodes of the old lower level whose reference count was already
0 on entry — ordinary garbage for the next `gc`, as before the swap. -/
theorem swapS_removed {ext : Nat → Nat} {s : SStore} {u : Nat} {al : Heap → Nat}
    {ord : List Nat → List Nat} (hal : AllocOK al) (hord : OrderOK ord) (hinv : Inv ext s)
    (hu : u + 1 < s.tables.length) {k : Nat} {m : Node} (hm : s.h.sh k = some m)
    (hl : m.level = u + 1) (hk : k ∉ (levelDownS al ord s u).table u) :
    ext k = 0 ∧ ∀ p n, s.h.sh p = some n → n.level ≠ u → n.level ≠ u + 1 →
      n.t ≠ .inner k ∧ n.e ≠ .inner k :=
  levelDownS_removed hal hord hinv hu hm hl hk

/-- **`swapS_removed_iff`** (exactly which nodes the swap frees). A node of the old lower level
leaves the store **iff** it has no external handle, no parent above the two levels and at least
one parent at the old upper level — a condition on the entry store only, the same for every
iteration order and allocator. -/
theorem swapS_removed_iff {ext : Nat → Nat} {s : SStore} {u : Nat} {al : Heap → Nat}
    {ord : List Nat → List Nat} (hal : AllocOK al) (hord : OrderOK ord) (hinv : Inv ext s)
    (hu : u + 1 < s.tables.length) {k : Nat} {mk : Node} (hmk : s.h.sh k = some mk)
    (hlv : mk.level = u + 1) :
    k ∉ (levelDownS al ord s u).table u ↔
      (ext k = 0 ∧
       (∀ p n, s.h.sh p = some n → n.level ≠ u → n.level ≠ u + 1 →
          n.t ≠ .inner k ∧ n.e ≠ .inner k) ∧
       ∃ p ∈ s.table u, ∃ n, s.h.sh p = some n ∧ (n.t = .inner k ∨ n.e = .inner k)) :=
  levelDownS_removed_iff hal hord hinv hu hmk hlv

/-- **`swapS_no_new_garbage`.** No unreferenced leftover at the new upper level that the loop was
supposed to remove: a node of the old lower level that is in the new upper table with
`ref_count() == 0` (counter 1: only the table's reference) after `level_down` had
`ref_count() == 0` before the swap. (Every node that *loses* its last reference during the swap is
a child of a rewritten node and is removed by the orphan check of the iteration that drops the
last edge.) -/
theorem swapS_no_new_garbage {ext : Nat → Nat} {s : SStore} {u : Nat} {al : Heap → Nat}
    {ord : List Nat → List Nat} (hal : AllocOK al) (hord : OrderOK ord) (hinv : Inv ext s)
    (hu : u + 1 < s.tables.length) {k : Nat} {mk : Node} (hmk : s.h.sh k = some mk)
    (hlv : mk.level = u + 1) (hk : k ∈ (levelDownS al ord s u).table u)
    (hrc : (levelDownS al ord s u).h.rcOf k = 1) : s.h.rcOf k = 1 :=
  levelDownS_no_new_garbage hal hord hinv hu hmk hlv hk hrc

/-- a store with a dead node at level 1 (slot 0, counter 1) next to a live diagram at level 0 that
does not use it: the dead node is garbage before and after the swap -/
def sDead : SStore :=
  ⟨⟨[some ⟨1, .term true, .term false, 1⟩, some ⟨0, .term true, .term false, 2⟩]⟩, [[1], [0], []]⟩

example : Inv (extOf [0, 1]) sDead ∧ 0 ∈ (levelDownS Heap.firstFree id sDead 0).table 0 ∧
    (levelDownS Heap.firstFree id sDead 0).h.rcOf 0 = 1 ∧ sDead.h.rcOf 0 = 1 :=
  ⟨checkInv_sound (by decide), by decide, by decide, by decide⟩

/-- non-vacuity: in `sAnd` (`x0 ∧ x1`, handle on the conjunction only) the node `x1` of the old
lower level is orphaned by the swap and its slot is freed -/
example : sAnd.h.sh 0 = some ⟨1, .term true, .term false⟩ ∧
    0 ∉ (levelDownS Heap.firstFree id sAnd 0).table 0 ∧
    (levelDownS Heap.firstFree id sAnd 0).h.sh 0 = none := by decide

/-- **`swapS_order_independent`.** The result does not depend on the iteration order of the hash
table nor on the slot allocator: for any two choices both resulting stores satisfy the invariant
and every externally referenced slot denotes the *same* diagram `swapTree u t` in both. Since both
stores are duplicate free (`Inv.inj`), the parts reachable from the handles are isomorphic (the
isomorphism is `i ↦ j` iff `i` and `j` denote the same diagram); only the ids of freshly
allocated slots differ. Moreover the same nodes of the old lower level survive (so the same
slots are freed), see `swapS_removed_iff`. -/
theorem swapS_order_independent {ext : Nat → Nat} {s : SStore} {u : Nat}
    {al₁ al₂ : Heap → Nat} {ord₁ ord₂ : List Nat → List Nat}
    (hal₁ : AllocOK al₁) (hal₂ : AllocOK al₂) (hord₁ : OrderOK ord₁) (hord₂ : OrderOK ord₂)
    (hinv : Inv ext s) (hu : u + 1 < s.tables.length) :
    Inv ext (levelDownS al₁ ord₁ s u) ∧ Inv ext (levelDownS al₂ ord₂ s u) ∧
    (∀ k t, 0 < ext k → Denotes s.h.abs (.inner k) t →
      Denotes (levelDownS al₁ ord₁ s u).h.abs (.inner k) (swapTree u t) ∧
      Denotes (levelDownS al₂ ord₂ s u).h.abs (.inner k) (swapTree u t)) ∧
    (∀ k mk, s.h.sh k = some mk → mk.level = u + 1 →
      (k ∈ (levelDownS al₁ ord₁ s u).table u ↔ k ∈ (levelDownS al₂ ord₂ s u).table u)) :=
  ⟨levelDownS_inv hal₁ hord₁ hinv hu, levelDownS_inv hal₂ hord₂ hinv hu, fun _ _ hk hd =>
    ⟨levelDownS_handle hal₁ hord₁ hinv hu hk hd, levelDownS_handle hal₂ hord₂ hinv hu hk hd⟩,
    fun k mk hmk hlv => by
      have h1 := levelDownS_removed_iff hal₁ hord₁ hinv hu hmk hlv
      have h2 := levelDownS_removed_iff hal₂ hord₂ hinv hu hmk hlv
      constructor
      · intro h
        apply Classical.byContradiction
        intro hc; exact (h1.mpr (h2.mp hc)) h
      · intro h
        apply Classical.byContradiction
        intro hc; exact (h2.mpr (h1.mp hc)) h⟩

/-- `g = x0 ∧ x1 ∧ x2` (slot 2) and `h = x0 ? x1 ∧ x2 : ⊤` (slot 3), handles on both: both entries
of `old_upper` are rewritten and need different fresh nodes -/
def sTwo : SStore :=
  ⟨⟨[some ⟨2, .term true, .term false, 2⟩, some ⟨1, .inner 0, .term false, 3⟩,
     some ⟨0, .inner 1, .term false, 2⟩, some ⟨0, .inner 1, .term true, 2⟩]⟩, [[2, 3], [1], [0]]⟩

theorem sTwo_inv : Inv (extOf [0, 0, 1, 1]) sTwo := checkInv_sound (by decide)

/-- non-vacuity: the two iteration orders of `old_upper = {2, 3}` produce different stores (the
fresh slots are assigned differently) — which nevertheless satisfy the invariant and give both
handles the same diagrams -/
example : levelDownS Heap.firstFree id sTwo 0 ≠ levelDownS Heap.firstFree List.reverse sTwo 0 := by
  decide

example : Inv (extOf [0, 0, 1, 1]) (levelDownS Heap.firstFree id sTwo 0) ∧
    Inv (extOf [0, 0, 1, 1]) (levelDownS Heap.firstFree List.reverse sTwo 0) :=
  have h := swapS_order_independent allocOK_firstFree allocOK_firstFree orderOK_id orderOK_reverse
    sTwo_inv (u := 0) (by decide)
  ⟨h.1, h.2.1⟩

/-! ## sequences of swaps: `set_var_order` -/

/-- **`swapsS_inv`.** Any sequence of in-range adjacent level swaps preserves the invariant. -/
theorem swapsS_inv' {ext : Nat → Nat} {s : SStore} {al : Heap → Nat} {ord : List Nat → List Nat}
    (hal : AllocOK al) (hord : OrderOK ord) (us : List Nat) (hinv : Inv ext s)
    (hus : ∀ u ∈ us, u + 1 < s.tables.length) :
    Inv ext (swapsS al ord s us) ∧ (swapsS al ord s us).tables.length = s.tables.length :=
  ⟨swapsS_inv hal hord us hinv hus, swapsS_len al ord s us⟩

example : Inv extIte (swapsS Heap.firstFree List.reverse sIte [0, 1, 0]) :=
  (swapsS_inv' allocOK_firstFree orderOK_reverse [0, 1, 0] sIte_inv (by decide)).1

/-- **`swapsS_denotes`.** After any sequence of swaps every externally referenced slot denotes
the diagram obtained by replaying the swaps on the tree level (`swapTrees`), which is in normal
form and denotes the same function of the variables when the level→variable map `l2v` is
permuted by the same swaps (`swapTrees_spec`): every handle keeps its function. -/
theorem swapsS_denotes {ext : Nat → Nat} {s : SStore} {al : Heap → Nat}
    {ord : List Nat → List Nat} (hal : AllocOK al) (hord : OrderOK ord) (us : List Nat)
    (hinv : Inv ext s) (hus : ∀ u ∈ us, u + 1 < s.tables.length)
    (l2v : List Nat) (hl : l2v.length = s.tables.length)
    {k : Nat} {t : BDD} (hk : 0 < ext k) (hd : Denotes s.h.abs (.inner k) t) :
    Denotes (swapsS al ord s us).h.abs (.inner k) (swapTrees us t) ∧
    NF 0 (swapTrees us t) ∧
    ∀ ρ : Nat → Bool, (swapTrees us t).eval (ρ ∘ lvFun (applySwaps us l2v)) =
      t.eval (ρ ∘ lvFun l2v) :=
  have hspec := swapTrees_spec us l2v t (hinv.nf hd) (fun u hu => hl ▸ hus u hu)
  ⟨swapsS_handle hal hord us hinv hus hk hd, hspec.1, hspec.2⟩

example : Denotes (swapsS Heap.firstFree id sIte [0, 1, 0]).h.abs (.inner 2)
    (swapTrees [0, 1, 0] tIte) :=
  (swapsS_denotes allocOK_firstFree orderOK_id [0, 1, 0] sIte_inv (by decide) [0, 1, 2] rfl
    (k := 2) (by decide) sIte_den).1

/-- the reversed order: `f = x0 ? x1 : x2` with `x2` on top -/
example : swapTrees [0, 1, 0] tIte =
    .node 0 (.node 1 (.leaf true) (.node 2 (.leaf false) (.leaf true)))
      (.node 1 (.node 2 (.leaf true) (.leaf false)) (.leaf false)) := by decide

/-- **`bubbleDownS_spec`.** The bubble sort of `Properties.lean` executed with `level_down` (the
simplified reading of `set_var_order`; the real one with lazy level numbers is
`setVarOrderS_correct` below): let `seq` give the target position of every current level
(`sort_order`) and let the adjacent swaps emitted by `bubble_sort` be executed by `level_down`. Then (1) the invariant holds afterwards, (2) the
levels are in the requested order — replaying the swaps sorts `seq` —, and (3) every handle denotes
the same function of the variables as before, by a diagram in normal form. -/
theorem bubbleDownS_spec {ext : Nat → Nat} {s : SStore} {al : Heap → Nat}
    {ord : List Nat → List Nat} (hal : AllocOK al) (hord : OrderOK ord) (hinv : Inv ext s)
    (seq l2v : List Nat) (hseq : seq.length = s.tables.length)
    (hl : l2v.length = s.tables.length) :
    let us := (bubbleSort seq.length seq).2
    Inv ext (swapsS al ord s us) ∧
    Sorted (applySwaps us seq) ∧
    ∀ k t, 0 < ext k → Denotes s.h.abs (.inner k) t →
      Denotes (swapsS al ord s us).h.abs (.inner k) (swapTrees us t) ∧ NF 0 (swapTrees us t) ∧
      ∀ ρ : Nat → Bool, (swapTrees us t).eval (ρ ∘ lvFun (applySwaps us l2v)) =
        t.eval (ρ ∘ lvFun l2v) := by
  intro us
  have hsw := bubbleSort_swaps seq seq.length
  have hus : ∀ u ∈ us, u + 1 < s.tables.length := fun u hu => hseq ▸ validSwaps_lt hsw.2.1 u hu
  refine ⟨swapsS_inv hal hord us hinv hus, ?_, fun k t hk hd =>
    swapsS_denotes hal hord us hinv hus l2v hl hk hd⟩
  show Sorted (applySwaps (bubbleSort seq.length seq).2 seq)
  rw [hsw.1]
  exact bubbleSort_sorted seq seq.length (Nat.le_refl _)

/-- non-vacuity: reversing the order of `sIte` (`seq = [2, 1, 0]`) -/
example : (bubbleSort 3 [2, 1, 0]).2 = [0, 1, 0] := by simp [bubbleSort, bubblePass]

example : Inv extIte (swapsS Heap.firstFree id sIte (bubbleSort [2, 1, 0].length [2, 1, 0]).2) :=
  (bubbleDownS_spec allocOK_firstFree orderOK_id sIte_inv [2, 1, 0] [0, 1, 2] rfl rfl).1


/-! ## the real `set_var_order`: lazy level numbers, non-empty levels only

`setVarOrderS` (`SetOrderStore.lean`) mirrors `set_var_order_common`: `sort_order`, bubble sort
over the **non-empty** level views where each swap is the general
`level_swap(u, l, to_pre[u], to_pre[l])` (`u < l`, only empty views in between, level numbers in
the nodes *not* updated), the node-free second step that moves all views to their target
positions, and `update_levels`. `SwapStoreGen.lean` proves the general lazy swap correct
(`ResG.invL`, `ResG.eval`), `SetOrderProof.lean` the rest. -/

/-- every live slot of a store satisfying the invariant denotes a diagram -/
theorem Inv.total {ext : Nat → Nat} {s : SStore} (hinv : Inv ext s) :
    ∀ m k nd, s.h.sh k = some nd → s.tables.length - nd.level ≤ m →
      ∃ t, Denotes s.h.abs (.inner k) t := by
  intro m
  induction m with
  | zero =>
    intro k nd hk hm
    have := (hinv.tbl_iff nd.level k).mpr ⟨nd, hk, rfl⟩
    rw [table_of_ge (by omega)] at this; cases this
  | succ m ih =>
    intro k nd hk hm
    have hlv : nd.level < s.tables.length := by
      apply Classical.byContradiction
      intro hc
      have := (hinv.tbl_iff nd.level k).mpr ⟨nd, hk, rfl⟩
      rw [table_of_ge (by omega)] at this; cases this
    have hchild : ∀ c, (c = nd.t ∨ c = nd.e) → ∃ t, Denotes s.h.abs c t := by
      intro c hc
      cases c with
      | term b => exact ⟨_, .term⟩
      | inner j =>
        obtain ⟨mj, hmj, hlt⟩ := hinv.ordered k nd hk j
          (by rcases hc with h | h; exact Or.inl h.symm; exact Or.inr h.symm)
        exact ih j mj hmj (by omega)
    obtain ⟨ta, hta⟩ := hchild nd.t (Or.inl rfl)
    obtain ⟨tb, htb⟩ := hchild nd.e (Or.inr rfl)
    obtain ⟨l, a, b⟩ := nd
    exact ⟨_, den_inner hk hta htb⟩

theorem Inv.live_of_ext {ext : Nat → Nat} {s : SStore} (hinv : Inv ext s) {k : Nat}
    (hk : 0 < ext k) : s.h.sh k ≠ none := by
  intro hn
  have := hinv.rc k
  simp only [live01, hn] at this
  rw [rcOf_of_none (sh_eq_none.mp hn)] at this
  simp at this; omega


/-- **`setVarOrderS_correct`** (C08 for `set_var_order`). For a duplicate-free request naming
variables of the manager, and for every iteration order of the hash tables and every allocator:
1. the store invariant holds afterwards (ordered, reduced, duplicate free, tables consistent with
   the level numbers written by `update_levels`, reference counts exact) and the number of levels
   is unchanged;
2. **the requested order is established**: if `x` occurs before `y` in `order`, then `x` is at a
   smaller level than `y` in the new level→variable map;
3. **every handle keeps its function**: the diagram `t'` an externally referenced slot denotes
   afterwards is in normal form, and under every assignment `ρ` of the *variables* it evaluates
   (with the new level→variable map) to what the old diagram `t` evaluated to (with the old map). -/
theorem setVarOrderS_correct {ext : Nat → Nat} {s : SStore} {al : Heap → Nat}
    {ord : List Nat → List Nat} (hal : AllocOK al) (hord : OrderOK ord) (hinv : Inv ext s)
    (l2v order : List Nat) (hl2v : l2v.length = s.tables.length)
    (hnd : order.Nodup) (hmem : ∀ v ∈ order, v ∈ l2v) :
    let res := setVarOrderS al ord s l2v order
    (Inv ext res.1 ∧ res.1.tables.length = s.tables.length) ∧
    (∀ i j (hij : i < j) (hj : j < order.length), ∃ p q, p < q ∧ q < s.tables.length ∧
      res.2.getD p 0 = order[i] ∧ res.2.getD q 0 = order[j]) ∧
    (∀ k t, 0 < ext k → Denotes s.h.abs (.inner k) t →
      ∃ t', Denotes res.1.h.abs (.inner k) t' ∧ NF 0 t' ∧
        ∀ ρ : Nat → Bool, t'.eval (fun p => ρ (res.2.getD p 0)) = t.eval (fun l => ρ (l2v.getD l 0))) := by
  intro res
  obtain ⟨h1, h2⟩ := order_levels_ok hnd hmem
  rw [hl2v] at h2
  have hspec := setVarOrderS_spec hal hord hinv l2v order hl2v h1 h2
  obtain ⟨htlen, htlt, htnd⟩ := sortOrder_perm s.tables.length _ h1 h2
  generalize htg : sortOrder s.tables.length (order.map fun v => l2v.idxOf v) = target at *
  have hgetD : ∀ a (ha : a < s.tables.length), target.getD a 0 = target[a]'(htlen ▸ ha) :=
    fun a ha => by simp [List.getD_eq_getElem?_getD, List.getElem?_eq_getElem (htlen ▸ ha)]
  have htlt' : ∀ a, a < s.tables.length → target.getD a 0 < s.tables.length := fun a ha => by
    rw [hgetD a ha]; exact htlt _ (List.getElem_mem _)
  have htinj : ∀ a b, a < s.tables.length → b < s.tables.length →
      target.getD a 0 = target.getD b 0 → a = b := by
    intro a b ha hb e
    rw [hgetD a ha, hgetD b hb] at e
    have hpw := List.pairwise_iff_getElem.mp (List.nodup_iff_pairwise_ne.mp htnd)
    rcases Nat.lt_trichotomy a b with c | c | c
    · exact absurd e (hpw a b _ _ c)
    · exact c
    · exact absurd e.symm (hpw b a _ _ c)
  refine ⟨⟨hspec.inv, hspec.len⟩, ?_, ?_⟩
  · intro i j hij hj
    have hi : i < order.length := by omega
    -- the old levels of the two variables
    have hai := hmem _ (List.getElem_mem hi)
    have haj := hmem _ (List.getElem_mem hj)
    have hli : l2v.idxOf order[i] < s.tables.length := hl2v ▸ List.idxOf_lt_length_of_mem hai
    have hlj : l2v.idxOf order[j] < s.tables.length := hl2v ▸ List.idxOf_lt_length_of_mem haj
    have hresp := sortOrder_respects s.tables.length (order.map fun v => l2v.idxOf v) h1 h2 i j hij
      (by simpa using hj)
    simp only [List.getElem_map, htg] at hresp
    refine ⟨target.getD (l2v.idxOf order[i]) 0, target.getD (l2v.idxOf order[j]) 0, ?_,
      htlt' _ hlj, ?_, ?_⟩
    · rw [hgetD _ hli, hgetD _ hlj]; exact hresp
    · rw [hspec.placed' htlt' htinj hli]
      simp [List.getD_eq_getElem?_getD, List.getElem?_eq_getElem (List.idxOf_lt_length_of_mem hai)]
    · rw [hspec.placed' htlt' htinj hlj]
      simp [List.getD_eq_getElem?_getD, List.getElem?_eq_getElem (List.idxOf_lt_length_of_mem haj)]
  · intro k t hk hd
    obtain ⟨nd, hnd'⟩ := Option.ne_none_iff_exists'.mp (hspec.inv.live_of_ext hk)
    obtain ⟨t', ht'⟩ := hspec.inv.total _ k nd hnd' (Nat.le_refl _)
    refine ⟨t', ht', hspec.inv.nf ht', fun ρ => ?_⟩
    have e1 := hspec.eval k hk ρ _ (ev_of_den hd _)
    exact (e1.functional (ev_of_den ht' _)).symm

/-- non-vacuity: `sIte` (`f = x0 ? x1 : x2`), request "x2 above x0". (`#eval` gives the new
level→variable map `[1, 2, 0]`: `x1` stays on top — the placement that needs the fewest swaps —,
`x2` is above `x0`; the `reorder-store` driver prints it. `bubblePass` is not kernel-reducible,
so the value is not restated here as a `decide` example.) -/
example : Inv extIte (setVarOrderS Heap.firstFree id sIte [0, 1, 2] [2, 0]).1 :=
  (setVarOrderS_correct allocOK_firstFree orderOK_id sIte_inv [0, 1, 2] [2, 0] rfl
    (by decide) (by decide)).1.1

/-! ## regression witnesses (the code before 1415cc0 and two mutations)

see `SwapStoreNeg.lean`: `stepNodeV_fixed` ties the switchable loop body to the verified one. -/

/-- **before 1415cc0** the invariant fails on `x0 ∧ x1` -/
theorem swapS_preFix_fails :
    Inv (extOf [0, 1]) sAnd ∧
    ¬ Inv (extOf [0, 1]) (levelDownV .preFixV Heap.firstFree id sAnd 0) :=
  ⟨sAnd_inv, preFix_breaks_inv⟩

/-- **rewritten node not (findable) in the new upper table**: invariant and denotation fail -/
theorem swapS_noReinsert_fails :
    ¬ Inv (extOf [0, 1]) (levelDownV .noReinsert Heap.firstFree id sAnd 0) ∧
    ¬ Denotes (levelDownV .noReinsert Heap.firstFree id sAnd 0).h.abs (.inner 1)
      (swapTree 0 (.node 0 (.node 1 (.leaf true) (.leaf false)) (.leaf false))) :=
  ⟨noReinsert_breaks_inv, noReinsert_breaks_denotes.2⟩

/-- **new node looked up in the new lower table only**: a duplicate arises, the invariant fails -/
theorem swapS_noOldLookup_fails :
    Inv (extOf [1, 0, 1, 1]) sDup ∧
    ¬ Inv (extOf [1, 0, 1, 1]) (levelDownV .noOldLookup Heap.firstFree id sDup 0) :=
  ⟨sDup_inv, noOldLookup_breaks_inv⟩

end OxiddModel.Reorder.SwapStore
