import OxiddModel.Reorder.SwapStoreCSeq

/-!
# C08 on the node store with complement edges (BCDD): headline theorems

The model (`SwapStoreC.lean`) is the `level_swap`/`level_down`/`set_var_order` model of
`SwapStore.lean` over **tagged edges** with the rule set as a parameter (`Rules`:
`Rules::cofactors(tag, node)` and `DiagramRules::reduce`). `Rules.bcdd` are the complement-edge
rules of crates/oxidd-rules-bdd/src/complement_edge/mod.rs: `cofactors` pushes the tag of the
incoming edge into the children, `reduce` moves a complement on the then-edge to the returned edge.

`Inv ext s` (`SwapStoreCBase.lean`) is the store invariant of `SwapStoreFinal.lean` plus
**`thenReg`: the then-edge of every stored node is regular** — the canonical form, which is what
makes edge equality decide function equality. `level_swap` rewrites nodes *in place*, so the
rewritten node keeps its id and all incoming edges (with their tags): the function of the *regular*
edge to the node must not change, and its new then-edge must again be regular although `reduce`
may hand back complemented edges for new children.

**Why the polarity cannot flip** (`cof0_fst_reg`, used in `ResG.invL`): the new then-child is
`reduce(level, [t₁, e₁])` where `t₁` is the then-cofactor of the old then-child `t`. The old
then-edge `t` is regular (invariant), so `cofactors(None, node(t))` yields the stored then-edge of
`node(t)`, which is regular too (or `t` itself if `t` is below). `reduce` returns the tag of its
*first* argument (`MkR.neg_eq`), hence an untagged edge. The new else-child may be tagged — that
tag is stored in the else-edge, where it is allowed. So no retagging of incoming edges is ever
needed. The evaluation theorem (`ResG.eval`) confirms it semantically for every edge, tagged or
not, that is still in the store.

Semantics are stated with the evaluation relation `Ev sh σ x v` ("edge `x` evaluates to `v` under
the assignment `σ` of the level numbers", `SwapStoreCGen.lean`) and, through `Heap.absC`, with
`DenotesC`/`eval`/`NF` of the BCDD tree model (`Bcdd/Model.lean`, `Bcdd/StoreRefine.lean`).
-/
namespace OxiddModel.Reorder.SwapStoreC
open OxiddModel.Bcdd OxiddModel.Bcdd.CNode
open OxiddModel.Bcdd.Refine (EdgeC Tgt StoreC NodeC DenN DenotesC)
open OxiddModel.Reorder.SwapStore (OrderOK orderOK_id orderOK_reverse)
open OxiddModel.Reorder

/-! ## concrete stores for the non-vacuity examples -/

/-- `f = x0 → x1 = x0 ? x1 : ⊤` over two levels: slot 0 = `x1` (`(1, ⊤, ¬⊤)`), slot 1 = `f`;
one external handle on `f`. Swapping the levels makes `reduce` return a *complemented* edge for
the new else-child (`reduce(⊥, ⊤) = ¬(x0 ? ⊤ : ⊥)`). -/
def sImp : SStore :=
  ⟨⟨[some ⟨1, ⟨false, .term⟩, ⟨true, .term⟩, 2⟩,
     some ⟨0, ⟨false, .inner 0⟩, ⟨false, .term⟩, 2⟩]⟩, [[1], [0]]⟩

theorem sImp_inv : Inv (extOf [0, 1]) sImp := checkInv_sound (by decide)

/-- `g = x0 ? ¬x1 : x1 = x0 ⊕ x1` (slot 1: the same child twice with different tags) and a handle
on `¬g` (the complemented edge to slot 1) -/
def sXor : SStore :=
  ⟨⟨[some ⟨1, ⟨false, .term⟩, ⟨true, .term⟩, 3⟩,
     some ⟨0, ⟨false, .inner 0⟩, ⟨true, .inner 0⟩, 2⟩]⟩, [[1], [0]]⟩

theorem sXor_inv : Inv (extOf [0, 1]) sXor := checkInv_sound (by decide)

/-! ## one level swap -/

/-- **`swapC_inv`.** `level_down(u)` with the complement-edge rules re-establishes the store
invariant — ordered, reduced, duplicate free, tables consistent with the level numbers, reference
counts exact, **and every then-edge regular** — for every iteration order of `old_upper` and
every allocator. -/
theorem swapC_inv {ext : Nat → Nat} {s : SStore} {u : Nat} {al : Heap → Nat}
    {ord : List Nat → List Nat} (hal : AllocOK al) (hord : OrderOK ord) (hinv : Inv ext s)
    (hu : u + 1 < s.tables.length) :
    Inv ext (levelDownS Rules.bcdd al ord s u) ∧
    (levelDownS Rules.bcdd al ord s u).tables.length = s.tables.length :=
  ⟨(levelDownS_spec hal hord hinv hu).1, (levelDownS_spec hal hord hinv hu).2.1⟩

example : Inv (extOf [0, 1]) (levelDownS Rules.bcdd Heap.firstFree List.reverse sImp 0) :=
  (swapC_inv allocOK_firstFree orderOK_reverse sImp_inv (by decide)).1

/-- **`swapC_eval`.** Every edge — with either tag — whose target is still in the store, in
particular every edge to an externally referenced slot, evaluates under `σ` to what it evaluated
to under `σ` with the values of the two levels exchanged: the function of a node id does not
change sign, no incoming edge has to be retagged. -/
theorem swapC_eval {ext : Nat → Nat} {s : SStore} {u : Nat} {al : Heap → Nat}
    {ord : List Nat → List Nat} (hal : AllocOK al) (hord : OrderOK ord) (hinv : Inv ext s)
    (hu : u + 1 < s.tables.length) (σ : Nat → Bool) {x : Edge} {v : Bool}
    (hv : Ev s.h.sh (σ ∘ swapLv u) x v)
    (halive : ∀ k m, x.tgt = .inner k → s.h.sh k = some m → m.level = u + 1 → 0 < ext k) :
    Ev (levelDownS Rules.bcdd al ord s u).h.sh σ x v :=
  (levelDownS_spec hal hord hinv hu).2.2 σ x v hv halive

/-- **`swapC_sem`** (the BCDD version of `swapS_denotes_handle`/`swapS_sem`). If the edge
`(g, k)` to an externally referenced slot `k` denotes the tree edge `a` before the swap, then the
**same** store edge — same id, same tag — denotes afterwards a tree edge `a'` in normal form with
`a'.eval σ = a.eval (σ ∘ swapLv u)`; by canonicity (`Bcdd.canon`) `a'` is *the* BCDD of that
function for the new order. -/
theorem swapC_sem {ext : Nat → Nat} {s : SStore} {u : Nat} {al : Heap → Nat}
    {ord : List Nat → List Nat} (hal : AllocOK al) (hord : OrderOK ord) (hinv : Inv ext s)
    (hu : u + 1 < s.tables.length) {g : Bool} {k : Nat} {a : Bcdd.Edge} (hk : 0 < ext k)
    (hd : DenotesC s.h.absC ⟨g, .inner k⟩ a) :
    ∃ a', DenotesC (levelDownS Rules.bcdd al ord s u).h.absC ⟨g, .inner k⟩ a' ∧ a'.NF 0 ∧
      ∀ σ : Nat → Bool, a'.eval σ = a.eval (σ ∘ swapLv u) := by
  obtain ⟨hinv', _, hev⟩ := levelDownS_spec hal hord hinv hu
  obtain ⟨nd, hnd⟩ := Option.ne_none_iff_exists'.mp (hinv'.live_of_ext hk)
  obtain ⟨n', hn'⟩ := hinv'.total _ k nd hnd (Nat.le_refl _)
  have hnf := hinv'.nfN hn'
  refine ⟨⟨g, n'⟩, ⟨rfl, hn'⟩, ⟨hnf.1 0 (fun _ _ _ _ => Nat.zero_le _), hnf.2⟩, fun σ => ?_⟩
  have e1 := hev σ _ _ (ev_of_den hinv.thenReg hd (σ ∘ swapLv u))
    (fun k' m hk' _ _ => by injection hk' with hk'; subst hk'; exact hk)
  have e2 := ev_of_den hinv'.thenReg (x := ⟨g, .inner k⟩) (a := ⟨g, n'⟩) ⟨rfl, hn'⟩ σ
  exact (e1.functional e2).symm

/-- non-vacuity (the case the seeded defect `C01-bcdd-reduce-tag` lived in): in `sImp` the new
else-child of the rewritten node is a complemented edge; the handle still denotes `x0 → x1`, now
as `x1 ? ⊤ : ¬x0` -/
example : treeOfE (levelDownS Rules.bcdd Heap.firstFree id sImp 0).h 3 ⟨false, .inner 1⟩ =
    some ⟨false, .node 0 .top true (.node 1 .top true .top)⟩ := by decide

example : ∃ a', DenotesC (levelDownS Rules.bcdd Heap.firstFree id sImp 0).h.absC ⟨false, .inner 1⟩ a' ∧
    a'.NF 0 ∧ ∀ σ : Nat → Bool, a'.eval σ =
      (⟨false, .node 0 (.node 1 .top true .top) false .top⟩ : Bcdd.Edge).eval (σ ∘ swapLv 0) :=
  swapC_sem allocOK_firstFree orderOK_id sImp_inv (by decide) (k := 1) (by decide)
    (treeOfE_sound (f := 3) (by decide))

/-- non-vacuity with a complemented handle and the shape `x ? ¬g : g`: the tag of the handle is
untouched -/
example : treeOfE (levelDownS Rules.bcdd Heap.firstFree id sXor 0).h 3 ⟨true, .inner 1⟩ =
    some ⟨true, .node 0 (.node 1 .top true .top) true (.node 1 .top true .top)⟩ := by decide

example : Inv (extOf [0, 1]) (levelDownS Rules.bcdd Heap.firstFree id sXor 0) :=
  (swapC_inv allocOK_firstFree orderOK_id sXor_inv (by decide)).1

/-! ## sequences of swaps and `set_var_order` -/

/-- **`swapsC_inv`** -/
theorem swapsC_inv {ext : Nat → Nat} {s : SStore} {al : Heap → Nat} {ord : List Nat → List Nat}
    (hal : AllocOK al) (hord : OrderOK ord) (us : List Nat) (hinv : Inv ext s)
    (hus : ∀ u ∈ us, u + 1 < s.tables.length) :
    Inv ext (swapsS Rules.bcdd al ord s us) ∧
    (swapsS Rules.bcdd al ord s us).tables.length = s.tables.length :=
  ⟨(swapsS_spec hal hord us hinv hus (List.range s.tables.length) (by simp)).1,
    swapsS_len _ al ord s us⟩

/-- **`swapsC_sem`.** After any sequence of in-range adjacent swaps the edge `(g, k)` to an
externally referenced slot denotes a tree edge in normal form with the same value under every
assignment `ρ` of the *variables* (the level→variable map permuted by the same swaps). -/
theorem swapsC_sem {ext : Nat → Nat} {s : SStore} {al : Heap → Nat} {ord : List Nat → List Nat}
    (hal : AllocOK al) (hord : OrderOK ord) (us : List Nat) (hinv : Inv ext s)
    (hus : ∀ u ∈ us, u + 1 < s.tables.length) (l2v : List Nat) (hl : l2v.length = s.tables.length)
    {g : Bool} {k : Nat} {a : Bcdd.Edge} (hk : 0 < ext k) (hd : DenotesC s.h.absC ⟨g, .inner k⟩ a) :
    ∃ a', DenotesC (swapsS Rules.bcdd al ord s us).h.absC ⟨g, .inner k⟩ a' ∧ a'.NF 0 ∧
      ∀ ρ : Nat → Bool, a'.eval (ρ ∘ lvFun (applySwaps us l2v)) = a.eval (ρ ∘ lvFun l2v) := by
  obtain ⟨hinv', hev⟩ := swapsS_spec hal hord us hinv hus l2v hl
  obtain ⟨nd, hnd⟩ := Option.ne_none_iff_exists'.mp (hinv'.live_of_ext hk)
  obtain ⟨n', hn'⟩ := hinv'.total _ k nd hnd (Nat.le_refl _)
  have hnf := hinv'.nfN hn'
  refine ⟨⟨g, n'⟩, ⟨rfl, hn'⟩, ⟨hnf.1 0 (fun _ _ _ _ => Nat.zero_le _), hnf.2⟩, fun ρ => ?_⟩
  have e1 := hev ρ g k _ hk (ev_of_den hinv.thenReg hd (ρ ∘ lvFun l2v))
  have e2 := ev_of_den hinv'.thenReg (x := ⟨g, .inner k⟩) (a := ⟨g, n'⟩) ⟨rfl, hn'⟩
    (ρ ∘ lvFun (applySwaps us l2v))
  exact (e1.functional e2).symm

example : Inv (extOf [0, 1]) (swapsS Rules.bcdd Heap.firstFree id sImp [0, 0, 0]) :=
  (swapsC_inv allocOK_firstFree orderOK_id [0, 0, 0] sImp_inv (by decide)).1

/-- **`setVarOrderC_correct`** (C08 for `set_var_order` on BCDDs; the model `setVarOrderS
Rules.bcdd` mirrors `set_var_order_common`: bubble sort over the non-empty level views with the
lazy general `level_swap`, the node-free second step, `update_levels`). For a duplicate-free
request naming variables of the manager:
1. the store invariant (with regular then-edges) holds afterwards, the number of levels is
   unchanged;
2. the requested order is established: `x` before `y` in `order` ⇒ `x` at a smaller level;
3. the edge `(g, k)` to an externally referenced slot denotes a tree edge in normal form that has,
   under every assignment `ρ` of the variables and the new level→variable map, the value the old
   one had under the old map. -/
theorem setVarOrderC_correct {ext : Nat → Nat} {s : SStore} {al : Heap → Nat}
    {ord : List Nat → List Nat} (hal : AllocOK al) (hord : OrderOK ord) (hinv : Inv ext s)
    (l2v order : List Nat) (hl2v : l2v.length = s.tables.length)
    (hnd : order.Nodup) (hmem : ∀ v ∈ order, v ∈ l2v) :
    let res := setVarOrderS Rules.bcdd al ord s l2v order
    (Inv ext res.1 ∧ res.1.tables.length = s.tables.length) ∧
    (∀ i j (hij : i < j) (hj : j < order.length), ∃ p q, p < q ∧ q < s.tables.length ∧
      res.2.getD p 0 = order[i] ∧ res.2.getD q 0 = order[j]) ∧
    (∀ g k a, 0 < ext k → DenotesC s.h.absC ⟨g, .inner k⟩ a →
      ∃ a', DenotesC res.1.h.absC ⟨g, .inner k⟩ a' ∧ a'.NF 0 ∧
        ∀ ρ : Nat → Bool, a'.eval (fun p => ρ (res.2.getD p 0)) = a.eval (fun l => ρ (l2v.getD l 0))) := by
  intro res
  obtain ⟨h1, h2⟩ := order_levels_ok hnd hmem
  rw [hl2v] at h2
  have hspec := setVarOrderS_spec hal hord hinv l2v order hl2v h1 h2
  obtain ⟨htlen, htlt, htnd⟩ := sortOrder_perm s.tables.length _ h1 h2
  generalize htg : sortOrder s.tables.length (order.map fun v => l2v.idxOf v) = target at *
  have hgetD : ∀ a (ha : a < s.tables.length), target.getD a 0 = target[a]'(htlen ▸ ha) :=
    fun a ha => by simp [List.getD_eq_getElem?_getD, List.getElem?_eq_getElem (htlen ▸ ha)]
  have htlt' : ∀ a, a < s.tables.length → target.getD a 0 < s.tables.length := fun a ha => by
    rw [hgetD a ha]; exact htlt _ (List.getElem_mem _)
  have htinj : ∀ a b, a < s.tables.length → b < s.tables.length →
      target.getD a 0 = target.getD b 0 → a = b := by
    intro a b ha hb e
    rw [hgetD a ha, hgetD b hb] at e
    have hpw := List.pairwise_iff_getElem.mp (List.nodup_iff_pairwise_ne.mp htnd)
    rcases Nat.lt_trichotomy a b with c | c | c
    · exact absurd e (hpw a b _ _ c)
    · exact c
    · exact absurd e.symm (hpw b a _ _ c)
  refine ⟨⟨hspec.inv, hspec.len⟩, ?_, ?_⟩
  · intro i j hij hj
    have hi : i < order.length := by omega
    have hai := hmem _ (List.getElem_mem hi)
    have haj := hmem _ (List.getElem_mem hj)
    have hli : l2v.idxOf order[i] < s.tables.length := hl2v ▸ List.idxOf_lt_length_of_mem hai
    have hlj : l2v.idxOf order[j] < s.tables.length := hl2v ▸ List.idxOf_lt_length_of_mem haj
    have hresp := sortOrder_respects s.tables.length (order.map fun v => l2v.idxOf v) h1 h2 i j hij
      (by simpa using hj)
    simp only [List.getElem_map, htg] at hresp
    refine ⟨target.getD (l2v.idxOf order[i]) 0, target.getD (l2v.idxOf order[j]) 0, ?_,
      htlt' _ hlj, ?_, ?_⟩
    · rw [hgetD _ hli, hgetD _ hlj]; exact hresp
    · rw [hspec.placed' htlt' htinj hli]
      simp [List.getD_eq_getElem?_getD, List.getElem?_eq_getElem (List.idxOf_lt_length_of_mem hai)]
    · rw [hspec.placed' htlt' htinj hlj]
      simp [List.getD_eq_getElem?_getD, List.getElem?_eq_getElem (List.idxOf_lt_length_of_mem haj)]
  · intro g k a hk hd
    obtain ⟨nd, hnd'⟩ := Option.ne_none_iff_exists'.mp (hspec.inv.live_of_ext hk)
    obtain ⟨n', hn'⟩ := hspec.inv.total _ k nd hnd' (Nat.le_refl _)
    have hnf := hspec.inv.nfN hn'
    refine ⟨⟨g, n'⟩, ⟨rfl, hn'⟩, ⟨hnf.1 0 (fun _ _ _ _ => Nat.zero_le _), hnf.2⟩, fun ρ => ?_⟩
    have e1 := hspec.eval g k hk ρ _ (ev_of_den hinv.thenReg hd _)
    have e2 := ev_of_den hspec.inv.thenReg (x := ⟨g, .inner k⟩) (a := ⟨g, n'⟩) ⟨rfl, hn'⟩
      (fun p => ρ ((setVarOrderS Rules.bcdd al ord s l2v order).2.getD p 0))
    exact (e1.functional e2).symm

example : Inv (extOf [0, 1]) (setVarOrderS Rules.bcdd Heap.firstFree id sImp [0, 1] [1, 0]).1 :=
  (setVarOrderC_correct allocOK_firstFree orderOK_id sImp_inv [0, 1] [1, 0] rfl
    (by decide) (by decide)).1.1

/-! ## regression witnesses: wrong rule sets

The loop body is parametric in the rules, so a wrong `reduce` can be plugged in. -/

/-- `reduce` that normalises the children but **drops the tag** of the returned edge (the class
of the seeded defect `C01-bcdd-reduce-tag`) -/
def Rules.bcddNoTag : Rules where
  cof := push
  norm := fun t e => (⟨false, t.tgt⟩, push t.neg e, false)

/-- with the tag dropped the handle of `sImp` (`x0 → x1`) denotes `x1 ∨ x0` after the swap: at
`x0 = 1, x1 = 0` (levels exchanged: `σ 0 = x1`) the value is wrong -/
theorem swapC_noTag_fails :
    ∃ a', DenotesC (levelDownS Rules.bcddNoTag Heap.firstFree id sImp 0).h.absC ⟨false, .inner 1⟩ a' ∧
      a'.eval (fun l => l == 1) ≠
        (⟨false, .node 0 (.node 1 .top true .top) false .top⟩ : Bcdd.Edge).eval
          ((fun l => l == 1) ∘ swapLv 0) :=
  ⟨⟨false, .node 0 .top false (.node 1 .top true .top)⟩, treeOfE_sound (f := 3) (by decide),
    by decide⟩

/-- with the simple BDD rules (no normalisation at all) the function is still right but the new
node has a complemented then-edge: the canonical form — `Inv.thenReg` — is lost -/
theorem swapC_noNorm_fails :
    ¬ Inv (extOf [0, 1]) (levelDownS Rules.bdd Heap.firstFree id sImp 0) := by
  intro h
  have := h.thenReg 2 ⟨1, ⟨true, .term⟩, ⟨false, .term⟩⟩ (by decide)
  exact absurd this (by decide)

end OxiddModel.Reorder.SwapStoreC
