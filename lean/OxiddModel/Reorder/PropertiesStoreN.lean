import OxiddModel.Reorder.SwapStoreNGarbage
import OxiddModel.Reorder.SetOrderNProof
import OxiddModel.Reorder.SwapStoreNInst
import OxiddModel.Reorder.SwapStoreNNeg
import OxiddModel.Reorder.SwapStoreNFaithful

/-!
# C08 on the node store for nodes of any arity: headline theorems (TDD, MTBDD)

Property C08: *after `set_var_order` every handle denotes the same function, the diagram is
canonical and well-formed — for every diagram kind.* `PropertiesStore.lean` proves this for the
store-level model of `oxidd_reorder::level_swap` / `level_down` / `set_var_order_common` on BINARY
nodes with two static terminals (BDD), `PropertiesStoreC.lean` for tagged edges (BCDD). The Rust
code is generic in `InnerNode::ARITY` and in the rule set; this file states the same theorems for
the model `SwapStoreN.lean`, which is parametric in the arity `k` and in the terminal type `T`
(reduction rule of `TDDRules::reduce` / `MTBDDRules::reduce`: all children equal ⇒ that child),
and instantiates them for **TDDs** (`k = 3`, terminals `T/U/F`) and **MTBDDs** (`k = 2`, any
terminal type).

* `Inv k ext s` (`SwapStoreNGen.lean`): every node has `k` children; the level tables partition
  the live slots by stored level number and are duplicate free; every edge goes to a live slot of
  a strictly larger level; no node has all children equal; no two slots have the same level and
  children; the counter of every slot is exactly `[it is in a table] + ext slot + #parent edges`
  (`ext`: external handles), free slots are referenced by nothing.
* `Ev sh σ x v`: edge `x` evaluates to the terminal `v` when at a node with stored level number
  `ℓ` the child number `σ ℓ` is taken (`σ ℓ < k`: a `k`-valued assignment; Boolean for `k = 2`,
  true/unknown/false for the TDD).
* `al` is the slot allocator (any function returning a free slot: `AllocOK`), `ord` the iteration
  order of the hash table `old_upper` (any permutation of its entries: `OrderOK`). Every theorem
  holds for all of them.
-/
namespace OxiddModel.Reorder.SwapStoreN
open OxiddModel.Tdd (Tri TD)
open OxiddModel.Mtbdd (MT)

variable {T : Type} [DecidableEq T]

/-! ## one level swap, any arity -/

/-- **`swapN_inv`.** `level_down(u)` re-establishes the store invariant, for every arity, every
iteration order of `old_upper` and every allocator: the store is again ordered w.r.t. the stored
level numbers (after `update_level_no`), every node has `k` children which are not all equal, no
level table holds two equal nodes — neither among moved, rewritten and freshly created nodes nor
between these groups —, the tables agree with the stored level numbers, reference counts are
exact and nothing refers to a freed slot. The number of levels is unchanged. -/
theorem swapN_inv {k : Nat} {ext : Nat → Nat} {s : SStore T} {u : Nat} {al : Heap T → Nat}
    {ord : List Nat → List Nat} (hal : AllocOK al) (hord : OrderOK ord) (hinv : Inv k ext s)
    (hu : u + 1 < s.tables.length) :
    Inv k ext (levelDownS k al ord s u) ∧
    (levelDownS k al ord s u).tables.length = s.tables.length :=
  ⟨levelDownS_inv hal hord hinv hu, levelDownS_len k al ord s u⟩

example : Inv 3 extRoot1 (levelDownS 3 Heap.firstFree List.reverse sTdd 0) :=
  (swapN_inv allocOK_firstFree orderOK_reverse sTdd_inv (by decide)).1

example : Inv 2 extRoot1 (levelDownS 2 Heap.firstFree id sMt 0) :=
  (swapN_inv allocOK_firstFree orderOK_id sMt_inv (by decide)).1

/-- **`swapN_denotes`.** Every edge whose target is still in the store afterwards denotes the same
function of the *variables*: its value under a `k`-valued assignment `σ` of the level numbers
before the swap is its value afterwards under `σ` with the two level numbers exchanged (the two
level views — and with them the level↔variable map — were exchanged, and `update_level_no` wrote
the new numbers into the nodes). "Still in the store" only excludes orphaned nodes of the old
lower level (`swapN_removed_iff`); by `swapN_denotes_handle` the hypothesis holds for every
externally referenced slot. -/
theorem swapN_denotes {k : Nat} {ext : Nat → Nat} {s : SStore T} {u : Nat} {al : Heap T → Nat}
    {ord : List Nat → List Nat} (hal : AllocOK al) (hord : OrderOK ord) (hinv : Inv k ext s)
    (hu : u + 1 < s.tables.length) {σ : Nat → Nat} (hσ : ∀ ℓ, σ ℓ < k) {x : Edge T} {v : T}
    (hv : Ev s.h.sh σ x v)
    (halive : ∀ i m, x = .inner i → s.h.sh i = some m → m.level = u + 1 →
      i ∈ (levelDownS k al ord s u).table u) :
    Ev (levelDownS k al ord s u).h.sh (fun l => σ (swapLv u l)) x v :=
  levelDownS_eval hal hord hinv hu hσ hv halive

/-- **`swapN_denotes_handle`.** Every externally referenced slot keeps its id and its function. -/
theorem swapN_denotes_handle {k : Nat} {ext : Nat → Nat} {s : SStore T} {u : Nat}
    {al : Heap T → Nat} {ord : List Nat → List Nat} (hal : AllocOK al) (hord : OrderOK ord)
    (hinv : Inv k ext s) (hu : u + 1 < s.tables.length) {σ : Nat → Nat} (hσ : ∀ ℓ, σ ℓ < k)
    {i : Nat} {v : T} (hi : 0 < ext i) (hv : Ev s.h.sh σ (.inner i) v) :
    Ev (levelDownS k al ord s u).h.sh (fun l => σ (swapLv u l)) (.inner i) v :=
  levelDownS_handle hal hord hinv hu hσ hi hv

/-- non-vacuity: the handle of `sTdd` (a function of both levels) has the value `u` when level 0
takes its child 0 (true) and level 1 its child 1 (unknown) — before the swap, and after it with
the two level numbers exchanged -/
example : Ev (levelDownS 3 Heap.firstFree id sTdd 0).h.sh
    (fun l => (fun ℓ => if ℓ = 0 then 0 else 1) (swapLv 0 l)) (.inner 1) Tri.u :=
  swapN_denotes_handle allocOK_firstFree orderOK_id sTdd_inv (by decide)
    (σ := fun ℓ => if ℓ = 0 then 0 else 1) (fun ℓ => by split <;> omega) (by decide)
    (evalF_sound 3 _ _ (by decide))

/-- **`swapN_removed_iff`** (exactly which nodes the swap frees). A node of the old lower level
leaves the store **iff** it has no external handle, no parent above the two levels and at least
one parent at the old upper level — a condition on the entry store only, the same for every
iteration order and allocator. All other slots keep their ids (`levelDownS_live`). -/
theorem swapN_removed_iff {k : Nat} {ext : Nat → Nat} {s : SStore T} {u : Nat} {al : Heap T → Nat}
    {ord : List Nat → List Nat} (hal : AllocOK al) (hord : OrderOK ord) (hinv : Inv k ext s)
    (hu : u + 1 < s.tables.length) {i : Nat} {mi : Node T} (hmi : s.h.sh i = some mi)
    (hlv : mi.level = u + 1) :
    i ∉ (levelDownS k al ord s u).table u ↔
      (ext i = 0 ∧
       (∀ p n, s.h.sh p = some n → n.level ≠ u → n.level ≠ u + 1 → .inner i ∉ n.ch) ∧
       ∃ p ∈ s.table u, ∃ n, s.h.sh p = some n ∧ .inner i ∈ n.ch) :=
  levelDownS_removed_iff hal hord hinv hu hmi hlv

/-- non-vacuity: in `sTdd` the node of the old lower level (slot 0: no handle, only parent is the
rewritten root) is orphaned by the swap and its slot is freed -/
example : sTdd.h.sh 0 = some ⟨1, [.term .t, .term .u, .term .f]⟩ ∧
    0 ∉ (levelDownS 3 Heap.firstFree id sTdd 0).table 0 ∧
    (levelDownS 3 Heap.firstFree id sTdd 0).h.sh 0 = none := by decide

/-- **`swapN_no_new_garbage`.** A node of the old lower level that is in the new upper table with
`ref_count() == 0` (counter 1: only the table's reference) after `level_down` had
`ref_count() == 0` before the swap: every node that *loses* its last reference during the swap is
removed by the orphan check of the iteration that drops the last edge. -/
theorem swapN_no_new_garbage {k : Nat} {ext : Nat → Nat} {s : SStore T} {u : Nat}
    {al : Heap T → Nat} {ord : List Nat → List Nat} (hal : AllocOK al) (hord : OrderOK ord)
    (hinv : Inv k ext s) (hu : u + 1 < s.tables.length) {i : Nat} {mi : Node T}
    (hmi : s.h.sh i = some mi) (hlv : mi.level = u + 1)
    (hi : i ∈ (levelDownS k al ord s u).table u)
    (hrc : (levelDownS k al ord s u).h.rcOf i = 1) : s.h.rcOf i = 1 :=
  levelDownS_no_new_garbage hal hord hinv hu hmi hlv hi hrc

/-- **`swapN_order_independent`.** The result does not depend on the iteration order of the hash
table nor on the slot allocator: for any two choices both resulting stores satisfy the invariant,
every externally referenced slot has the *same* value under every assignment in both, and the
same nodes of the old lower level survive (so the same slots are freed). Since both stores are
duplicate free, the parts reachable from the handles are isomorphic; only the ids of freshly
allocated slots differ. -/
theorem swapN_order_independent {k : Nat} {ext : Nat → Nat} {s : SStore T} {u : Nat}
    {al₁ al₂ : Heap T → Nat} {ord₁ ord₂ : List Nat → List Nat}
    (hal₁ : AllocOK al₁) (hal₂ : AllocOK al₂) (hord₁ : OrderOK ord₁) (hord₂ : OrderOK ord₂)
    (hinv : Inv k ext s) (hu : u + 1 < s.tables.length) :
    Inv k ext (levelDownS k al₁ ord₁ s u) ∧ Inv k ext (levelDownS k al₂ ord₂ s u) ∧
    (∀ i v (σ : Nat → Nat), (∀ ℓ, σ ℓ < k) → 0 < ext i → Ev s.h.sh σ (.inner i) v →
      Ev (levelDownS k al₁ ord₁ s u).h.sh (fun l => σ (swapLv u l)) (.inner i) v ∧
      Ev (levelDownS k al₂ ord₂ s u).h.sh (fun l => σ (swapLv u l)) (.inner i) v) ∧
    (∀ i mi, s.h.sh i = some mi → mi.level = u + 1 →
      (i ∈ (levelDownS k al₁ ord₁ s u).table u ↔ i ∈ (levelDownS k al₂ ord₂ s u).table u)) :=
  ⟨levelDownS_inv hal₁ hord₁ hinv hu, levelDownS_inv hal₂ hord₂ hinv hu,
    fun _ _ _ hσ hi hv =>
      ⟨levelDownS_handle hal₁ hord₁ hinv hu hσ hi hv, levelDownS_handle hal₂ hord₂ hinv hu hσ hi hv⟩,
    fun i mi hmi hlv => by
      have h1 := levelDownS_removed_iff hal₁ hord₁ hinv hu hmi hlv
      have h2 := levelDownS_removed_iff hal₂ hord₂ hinv hu hmi hlv
      constructor
      · intro h
        apply Classical.byContradiction
        intro hc; exact (h1.mpr (h2.mp hc)) h
      · intro h
        apply Classical.byContradiction
        intro hc; exact (h2.mpr (h1.mp hc)) h⟩

example : Inv 3 extRoot1 (levelDownS 3 Heap.firstFree id sTdd 0) ∧
    Inv 3 extRoot1 (levelDownS 3 Heap.firstFree List.reverse sTdd 0) :=
  have h := swapN_order_independent (s := sTdd) allocOK_firstFree allocOK_firstFree orderOK_id
    orderOK_reverse sTdd_inv (u := 0) (by decide)
  ⟨h.1, h.2.1⟩

/-- **`swapsN_inv`.** Any sequence of in-range adjacent level swaps preserves the invariant. -/
theorem swapsN_inv {k : Nat} {ext : Nat → Nat} {s : SStore T} {al : Heap T → Nat}
    {ord : List Nat → List Nat} (hal : AllocOK al) (hord : OrderOK ord) (us : List Nat)
    (hinv : Inv k ext s) (hus : ∀ u ∈ us, u + 1 < s.tables.length) :
    Inv k ext (swapsS k al ord s us) ∧ (swapsS k al ord s us).tables.length = s.tables.length :=
  ⟨swapsS_inv hal hord us hinv hus, swapsS_len k al ord s us⟩

example : Inv 3 extRoot1 (swapsS 3 Heap.firstFree id sTdd [0, 0, 0]) :=
  (swapsN_inv allocOK_firstFree orderOK_id [0, 0, 0] sTdd_inv (by decide)).1

/-- **`swapN_setChild_interleaved`** (faithfulness of `setChildren`). The source replaces the
children of a rewritten node one at a time and drops every old child edge right away
(`manager.drop_edge(node.set_child(i, child))`); the model replaces them at once and then drops the
old edges. Under the loop invariant (which the verified loop maintains from entry to exit) the
loop with the interleaved body `stepNodeSeq` computes exactly the same state — also when an old
child edge points to the node itself. -/
theorem swapN_setChild_interleaved {a b : Nat} {P : Nat → Prop} {sh0 : Nat → Option (Node T)}
    {k : Nat} {old : List Nat} {ext : Nat → Nat} {al : Heap T → Nat}
    (hal : ∀ h : Heap T, h.get? (al h) = none) (hp : Pre a b P sh0 k old) {R : Nat → Nat}
    (hR : ∀ i, ext i ≤ R i) (order : List Nat) {st : LS T}
    (hinv : LInv a b P sh0 k old ext R st order) :
    levelSwapLoopSeq k al a b old order st = levelSwapLoop k al a b old order st :=
  levelSwapLoopSeq_eq hal hp hR order hinv

/-! ## `set_var_order`, any arity

`setVarOrderN_correct` (`SetOrderNProof.lean`): for the model `setVarOrderS` of
`set_var_order_common` (`sort_order`, bubble sort over the **non-empty** level views where each
swap is the general lazy `level_swap(u, l, to_pre[u], to_pre[l])`, the node-free second step,
`update_levels`), a duplicate-free request naming variables of the manager, every iteration order
and every allocator: (1) `Inv` holds afterwards and the number of levels is unchanged; (2) the
requested order is established; (3) every handle has, under every `k`-valued assignment `ρ` of
the **variables**, the same value before (old level→variable map) and after (new map). -/

/-- the statement of `setVarOrderN_correct`, restated here for reference -/
theorem setVarOrderN_correct' {k : Nat} {ext : Nat → Nat} {s : SStore T}
    {al : Heap T → Nat} {ord : List Nat → List Nat} (hal : AllocOK al) (hord : OrderOK ord)
    (hinv : Inv k ext s) (l2v order : List Nat) (hl2v : l2v.length = s.tables.length)
    (hnd : order.Nodup) (hmem : ∀ v ∈ order, v ∈ l2v) :
    let res := setVarOrderS k al ord s l2v order
    (Inv k ext res.1 ∧ res.1.tables.length = s.tables.length) ∧
    (∀ i j (hij : i < j) (hj : j < order.length), ∃ p q, p < q ∧ q < s.tables.length ∧
      res.2.getD p 0 = order[i] ∧ res.2.getD q 0 = order[j]) ∧
    (∀ i v (ρ : Nat → Nat), (∀ x, ρ x < k) → 0 < ext i →
      Ev s.h.sh (fun l => ρ (l2v.getD l 0)) (.inner i) v →
      Ev res.1.h.sh (fun p => ρ (res.2.getD p 0)) (.inner i) v) :=
  setVarOrderN_correct hal hord hinv l2v order hl2v hnd hmem

/-! ## TDD (`k = 3`, terminals `T/U/F`) -/

/-- **`tdd_swap_correct`** (C08 for one `level_down` of a TDD manager). For a store of ternary
nodes over `Tri` satisfying the invariant, a handle `i` denoting the tree `t`
(`Tdd.Model`'s `TD`, children true/unknown/false) denotes afterwards a tree `t'` which is in
normal form, has the same three-valued function up to the exchange of the two levels, and **is
the canonical diagram of that function for the new order**: `t' = reorderTree (swapLv u) t`
(`tdd_reorder_canonical`). -/
theorem tdd_swap_correct {ext : Nat → Nat} {s : SStore Tri} {u : Nat} {al : Heap Tri → Nat}
    {ord : List Nat → List Nat} (hal : AllocOK al) (hord : OrderOK ord) (hinv : Inv 3 ext s)
    (hu : u + 1 < s.tables.length) {i : Nat} {t : TD} (hi : 0 < ext i)
    (hd : DenT s.h.sh (.inner i) t) :
    Inv 3 ext (levelDownS 3 al ord s u) ∧
    ∃ t', DenT (levelDownS 3 al ord s u).h.sh (.inner i) t' ∧ Tdd.NF t' ∧
      (∀ ρ : Nat → Tri, TD.eval (fun p => ρ (swapLv u p)) t' = TD.eval ρ t) ∧
      t' = Tdd.reorderTree (swapLv u) t := by
  have hinv' := levelDownS_inv hal hord hinv hu
  refine ⟨hinv', ?_⟩
  obtain ⟨t', hd', hnf', hev⟩ := tdd_transfer hinv hinv' hd (hinv'.live_of_ext hi) id (swapLv u)
    (fun v ρ hρ h => levelDownS_handle hal hord hinv hu hρ hi h)
  refine ⟨t', hd', hnf', hev, ?_⟩
  refine tdd_swap_canonical (swapLv u) (fun a b h => ?_) (hinv.denT_nf hd) hnf' (fun σ => ?_)
  · rw [← swapLv_swapLv u a, ← swapLv_swapLv u b, h]
  · have := hev (fun l => σ (swapLv u l))
    simp only [swapLv_swapLv] at this
    exact this

/-- non-vacuity: the swapped diagram of `sTdd`'s handle (`(l0: x1, U, F)` with `x1 = (l1: T, U, F)`),
explicitly — the rewriting case of `level_swap` -/
example : ∃ t', DenT (levelDownS 3 Heap.firstFree id sTdd 0).h.sh (.inner 1) t' ∧
    t' = Tdd.reorderTree (swapLv 0) tTdd :=
  have h := (tdd_swap_correct allocOK_firstFree orderOK_id sTdd_inv (u := 0) (by decide)
    (i := 1) (by decide) sTdd_den).2
  let ⟨t', h1, _, _, h4⟩ := h
  ⟨t', h1, h4⟩

/-- **`tdd_setVarOrder_correct`** (C08 for `set_var_order` of a TDD manager). For a duplicate-free
request naming variables of the manager, every iteration order and every allocator:
1. the store invariant holds afterwards (ternary nodes, ordered, reduced, duplicate free, tables
   consistent with the level numbers written by `update_levels`, reference counts exact) and the
   number of levels is unchanged;
2. the requested order is established;
3. every handle keeps its function: the tree `t'` an externally referenced slot denotes afterwards
   is in normal form (hence, by `tdd_canonical`, *the* canonical TDD of its function for the new
   order), and under every three-valued assignment `ρ` of the **variables** it evaluates (with
   the new level→variable map) to what the old tree `t` evaluated to (with the old map). -/
theorem tdd_setVarOrder_correct {ext : Nat → Nat} {s : SStore Tri} {al : Heap Tri → Nat}
    {ord : List Nat → List Nat} (hal : AllocOK al) (hord : OrderOK ord) (hinv : Inv 3 ext s)
    (l2v order : List Nat) (hl2v : l2v.length = s.tables.length)
    (hnd : order.Nodup) (hmem : ∀ v ∈ order, v ∈ l2v) :
    let res := setVarOrderS 3 al ord s l2v order
    (Inv 3 ext res.1 ∧ res.1.tables.length = s.tables.length) ∧
    (∀ i j (hij : i < j) (hj : j < order.length), ∃ p q, p < q ∧ q < s.tables.length ∧
      res.2.getD p 0 = order[i] ∧ res.2.getD q 0 = order[j]) ∧
    (∀ i t, 0 < ext i → DenT s.h.sh (.inner i) t →
      ∃ t', DenT res.1.h.sh (.inner i) t' ∧ Tdd.NF t' ∧
        (∀ ρ : Nat → Tri, TD.eval (fun p => ρ (res.2.getD p 0)) t' =
          TD.eval (fun l => ρ (l2v.getD l 0)) t) ∧
        ∀ r, Tdd.NF r → (∀ σ, TD.eval σ r = TD.eval σ t') → r = t') := by
  intro res
  obtain ⟨h1, h2, h3⟩ := setVarOrderN_correct hal hord hinv l2v order hl2v hnd hmem
  refine ⟨h1, h2, fun i t hi hd => ?_⟩
  obtain ⟨t', hd', hnf', hev⟩ := tdd_transfer hinv h1.1 hd (h1.1.live_of_ext hi)
    (fun l => l2v.getD l 0) (fun p => res.2.getD p 0) (fun v ρ hρ h => h3 i v ρ hρ hi h)
  exact ⟨t', hd', hnf', hev, fun r hr h => Tdd.tdd_canonical r t' hr hnf' h⟩

/-- non-vacuity: `sTdd` with the request "variable 1 above variable 0" -/
example : Inv 3 extRoot1 (setVarOrderS 3 Heap.firstFree id sTdd [0, 1] [1, 0]).1 :=
  (tdd_setVarOrder_correct allocOK_firstFree orderOK_id sTdd_inv [0, 1] [1, 0] rfl
    (by decide) (by decide)).1.1

example : ∃ t', DenT (setVarOrderS 3 Heap.firstFree id sTdd [0, 1] [1, 0]).1.h.sh (.inner 1) t' ∧
    Tdd.NF t' :=
  have h := (tdd_setVarOrder_correct allocOK_firstFree orderOK_id sTdd_inv [0, 1] [1, 0] rfl
    (by decide) (by decide)).2.2 1 tTdd (by decide) sTdd_den
  let ⟨t', h1, h2, _⟩ := h
  ⟨t', h1, h2⟩

/-! ## MTBDD (`k = 2`, arbitrary terminals) -/

/-- **`mtbdd_swap_correct`** (C08 for one `level_down` of an MTBDD manager, any terminal type):
the handle denotes afterwards a tree in normal form with the same function up to the exchange of
the two levels, and that tree is the only normal form with this function (`mtbdd_canonical`). -/
theorem mtbdd_swap_correct {ext : Nat → Nat} {s : SStore T} {u : Nat} {al : Heap T → Nat}
    {ord : List Nat → List Nat} (hal : AllocOK al) (hord : OrderOK ord) (hinv : Inv 2 ext s)
    (hu : u + 1 < s.tables.length) {i : Nat} {t : MT T} (hi : 0 < ext i)
    (hd : DenM s.h.sh (.inner i) t) :
    Inv 2 ext (levelDownS 2 al ord s u) ∧
    ∃ t', DenM (levelDownS 2 al ord s u).h.sh (.inner i) t' ∧ Mtbdd.NF t' ∧
      (∀ ρ : Nat → Bool, MT.eval (fun p => ρ (swapLv u p)) t' = MT.eval ρ t) ∧
      ∀ r, Mtbdd.NF r → (∀ σ, MT.eval σ r = MT.eval σ t') → r = t' := by
  have hinv' := levelDownS_inv hal hord hinv hu
  refine ⟨hinv', ?_⟩
  obtain ⟨t', hd', hnf', hev⟩ := mtbdd_transfer hinv hinv' hd (hinv'.live_of_ext hi) id (swapLv u)
    (fun v ρ hρ h => levelDownS_handle hal hord hinv hu hρ hi h)
  exact ⟨t', hd', hnf', hev, fun r hr h => mtbdd_swap_canonical hnf' hr h⟩

example : ∃ t', DenM (levelDownS 2 Heap.firstFree id sMt 0).h.sh (.inner 1) t' ∧ Mtbdd.NF t' :=
  have h := (mtbdd_swap_correct allocOK_firstFree orderOK_id sMt_inv (u := 0) (by decide)
    (i := 1) (by decide) sMt_den).2
  let ⟨t', h1, h2, _⟩ := h
  ⟨t', h1, h2⟩

/-- **`mtbdd_setVarOrder_correct`** (C08 for `set_var_order` of an MTBDD manager, any terminal
type): invariant, requested order, and every handle keeps its function — the tree it denotes
afterwards is in normal form (the canonical MTBDD of the function for the new order) and
evaluates, under every assignment of the variables, to the same terminal as before. -/
theorem mtbdd_setVarOrder_correct {ext : Nat → Nat} {s : SStore T} {al : Heap T → Nat}
    {ord : List Nat → List Nat} (hal : AllocOK al) (hord : OrderOK ord) (hinv : Inv 2 ext s)
    (l2v order : List Nat) (hl2v : l2v.length = s.tables.length)
    (hnd : order.Nodup) (hmem : ∀ v ∈ order, v ∈ l2v) :
    let res := setVarOrderS 2 al ord s l2v order
    (Inv 2 ext res.1 ∧ res.1.tables.length = s.tables.length) ∧
    (∀ i j (hij : i < j) (hj : j < order.length), ∃ p q, p < q ∧ q < s.tables.length ∧
      res.2.getD p 0 = order[i] ∧ res.2.getD q 0 = order[j]) ∧
    (∀ i t, 0 < ext i → DenM s.h.sh (.inner i) t →
      ∃ t', DenM res.1.h.sh (.inner i) t' ∧ Mtbdd.NF t' ∧
        (∀ ρ : Nat → Bool, MT.eval (fun p => ρ (res.2.getD p 0)) t' =
          MT.eval (fun l => ρ (l2v.getD l 0)) t) ∧
        ∀ r, Mtbdd.NF r → (∀ σ, MT.eval σ r = MT.eval σ t') → r = t') := by
  intro res
  obtain ⟨h1, h2, h3⟩ := setVarOrderN_correct hal hord hinv l2v order hl2v hnd hmem
  refine ⟨h1, h2, fun i t hi hd => ?_⟩
  obtain ⟨t', hd', hnf', hev⟩ := mtbdd_transfer hinv h1.1 hd (h1.1.live_of_ext hi)
    (fun l => l2v.getD l 0) (fun p => res.2.getD p 0) (fun v ρ hρ h => h3 i v ρ hρ hi h)
  exact ⟨t', hd', hnf', hev, fun r hr h => mtbdd_swap_canonical hnf' hr h⟩

example : Inv 2 extRoot1 (setVarOrderS 2 Heap.firstFree id sMt [0, 1] [1, 0]).1 :=
  (mtbdd_setVarOrder_correct allocOK_firstFree orderOK_id sMt_inv [0, 1] [1, 0] rfl
    (by decide) (by decide)).1.1

/-! ## regression witnesses (`k = 3`): two mutations of the loop body

see `SwapStoreNNeg.lean`: `levelDownV_fixed` ties the switchable loop body to the verified one. -/

/-- **a child that does not depend on the lower level is used only in column 0 of the
grand-cofactor matrix** (the ZBDD-style mistake; the other columns get `F`): the invariant
survives, the function of the handle changes -/
theorem swapN_rowOnce_changes_function :
    Inv 3 (extOf [0, 1]) sRow ∧ 0 < extOf [0, 1] 1 ∧
    Inv 3 (extOf [0, 1]) (levelDownV .rowOnceF 3 Heap.firstFree id sRow 0) ∧
    Ev sRow.h.sh σRow (.inner 1) Tri.t ∧
    Ev (levelDownS 3 Heap.firstFree id sRow 0).h.sh (σRow ∘ swapLv01) (.inner 1) Tri.t ∧
    ¬ Ev (levelDownV .rowOnceF 3 Heap.firstFree id sRow 0).h.sh (σRow ∘ swapLv01) (.inner 1)
      Tri.t :=
  ⟨rowOnce_changes_function.1, rowOnce_changes_function.2.1, sRow_rowOnce_inv,
    rowOnce_changes_function.2.2.1, rowOnce_changes_function.2.2.2.1,
    rowOnce_changes_function.2.2.2.2⟩

/-- **`reduce` compares only the first two of the three children**: the rewritten node collides
with a surviving node of the old lower level, is not inserted into the new upper table and keeps a
stale level number — the invariant fails (tables, reference counts), and the function changes -/
theorem swapN_cmpTwo_breaks_inv :
    Inv 3 (extOf [1, 1]) sCmp ∧
    Inv 3 (extOf [1, 1]) (levelDownS 3 Heap.firstFree id sCmp 0) ∧
    ¬ Inv 3 (extOf [1, 1]) (levelDownV .cmpTwoV 3 Heap.firstFree id sCmp 0) :=
  ⟨sCmp_inv, sCmp_fixed_inv, cmpTwo_breaks_inv⟩

end OxiddModel.Reorder.SwapStoreN
