import OxiddModel.Reorder.SwapHashedNeg
import OxiddModel.Reorder.SetOrderHashedFinal

/-!
# C08 / C01 / C03 / C17 — `level_swap` on the real table algorithm: headline theorems

`PropertiesStore.lean` proves `level_swap` / `level_down` correct on an id-indexed heap whose
per-level unique tables are *lists* of ids; `Bdd/PropertiesLevelTable.lean` proves that the
per-level unique table as implemented (`LevelViewSet` on `linear_hashtbl::RawTable`, model
`HashTbl.Tbl`, slot for slot) refines lookup-or-insert by children.  This file composes the two.

* `levelDownH` (`SwapHashed.lean`) is `level_down` written over `HStore` = heap with reference
  counters + one `RawTable` per level, mirroring the Rust control flow: `swap`/`take`/`reserve`,
  iteration in the **slot order** of the taken table, `old_upper.get` on the taken table with
  stale entries, `get_or_insert_unchecked` (rehash between lookup and insertion),
  `insert_unchecked`, `remove` of orphans (FREE vs TOMBSTONE incl. the wrap-around at the last
  slot), `drop(old_upper)` by `drain`, `update_level_no` by `iter`.
* `HInv hash ext s` = `LevelTable.LInv hash s.toL` (every level table satisfies the C17 invariant
  for "status = hash of the *current* children", holds exactly the live ids of its level, no two
  with equal children) ∧ `SwapStore.Inv ext s.absS` (the reorder store invariant of
  `PropertiesStore.lean` for the list abstraction: ordered, reduced, duplicate free, exact
  reference counts).
* Everything holds for **every** hash function `hash : Edge → Edge → Nat` (total collisions,
  clusters that wrap around the end of the slot array), every history of the tables (tombstones,
  earlier rehashes — `HInv` says nothing about the layout) and every allocator returning a free
  slot.  The iteration order is the real one: the slot order of the taken table; by
  `swapS_order_independent` the list model is correct for any order.

* `setVarOrderH` (`SetOrderHashed.lean`) is `set_var_order_common` over `HStore` (lazy swaps of
  neighbouring non-empty level views, the node-free view moves, `update_levels`);
  `setVarOrderH_correct` is C08 for it.
* Protocol `reorder-hashed` (`DriverHashed.lean`) replays the `bdd-c08-store` operation stream on
  the hashed model with a hash that sends every node to the last slot of its table.

The only failure of the hashed operations under `HInv` is `Err.capacity` (the panic of
`Status::check_capacity`: a level table with more than `2^31` slots); `Good P r` says "`r`
returned a value satisfying `P`, or stopped with that panic".
-/
namespace OxiddModel.Reorder.SwapHashed
open OxiddModel.HashTbl OxiddModel.HashTbl.Tbl OxiddModel.Bdd OxiddModel.Bdd.BDD OxiddModel.Bdd.Refine
open OxiddModel.Bdd.LevelTable OxiddModel.Reorder OxiddModel.Reorder.SwapStore

variable {hash : Hash}

/-! ## concrete stores for the non-vacuity examples

`hZero` maps **every** node to hash 0: all ids of a table are in one probe chain.  The tables are
the results of table histories that leave a tombstone in front of the live entries.
`exTwo` is `sTwo` of `PropertiesStore.lean` (`g = x0 ∧ x1 ∧ x2` in slot 2, `h = x0 ? x1 ∧ x2 : ⊤`
in slot 3, handles on both): both entries of the upper level are rewritten, need two different
fresh nodes, and the node `x1 ∧ x2` survives at the new upper level. -/

def exTwoH : Heap :=
  ⟨[some ⟨2, .term true, .term false, 2⟩, some ⟨1, .inner 0, .term false, 3⟩,
    some ⟨0, .inner 1, .term false, 2⟩, some ⟨0, .inner 1, .term true, 2⟩]⟩

def exTwo : HStore :=
  ⟨exTwoH, #[tblOf (KH hZero exTwoH).hf [.ins 9, .ins 3, .ins 2, .rem 9],
             tblOf (KH hZero exTwoH).hf [.ins 1],
             tblOf (KH hZero exTwoH).hf [.ins 8, .ins 0, .rem 8]]⟩

/-- the level tables of `exTwo`: a tombstone in slot 0 of levels 0 and 2, the live ids behind it -/
example : (exTwo.tbl 0).slots.toList.take 4 = [.tomb, .occ 0 3, .occ 0 2, .free] ∧
    (exTwo.tbl 2).slots.toList.take 3 = [.tomb, .occ 0 0, .free] ∧
    exTwo.absS.tables = [[3, 2], [1], [0]] := by decide +kernel

theorem exTwo_hinv : HInv hZero (extOf [0, 0, 1, 1]) exTwo := by
  refine HInv.of_tables (fun l => ?_) (checkInv_sound (by decide +kernel))
  match l with
  | 0 => exact tblOf_inv (KH hZero exTwoH).hf [.ins 9, .ins 3, .ins 2, .rem 9]
  | 1 => exact tblOf_inv (KH hZero exTwoH).hf [.ins 1]
  | 2 => exact tblOf_inv (KH hZero exTwoH).hf [.ins 8, .ins 0, .rem 8]
  | l + 3 => exact new_inv (KH hZero exTwoH).hf

/-- the store after `level_down 0` -/
def exTwo1 : HStore :=
  match levelDownH hZero Heap.firstFree exTwo 0 with
  | .ok s => s
  | .error _ => exTwo

theorem exTwo1_run : levelDownH hZero Heap.firstFree exTwo 0 = .ok exTwo1 := by decide +kernel

/-! ## one level swap -/

/-- **`levelSwapH_refines`.**  Under `HInv`, for every hash function, table history and allocator,
`level_down u` on the hashed tables either stops with the capacity panic or returns a store `s'`
such that, w.r.t. the list model run on the abstraction `s.absS` with the slot order of the taken
table as iteration order (`ord = id` on `absS`, whose tables are listed in slot order):
* the **heap is the same** (every slot: level, children, reference counter),
* every level table of `s'` lists — up to order; both sides duplicate free — the ids of the list
  model's table (`Perm`),
* `LevelTable.LInv` holds for `s'` (every table a keyed set of exactly the live ids of its level),
  and so does the reorder invariant of `s'.absS`; the number of levels is unchanged. -/
theorem levelSwapH_refines {ext : Nat → Nat} {al : Heap → Nat} (hal : AllocOK al) {s : HStore}
    {u : Nat} (hi : HInv hash ext s) (hu : u + 1 < s.tables.size) :
    Good (fun s' =>
      s'.absS.h = (levelDownS al id s.absS u).h ∧
      (∀ l, (s'.absS.table l).Perm ((levelDownS al id s.absS u).table l)) ∧
      LevelTable.LInv hash s'.toL ∧ SwapStore.Inv ext s'.absS ∧
      s'.tables.size = s.tables.size) (levelDownH hash al s u) :=
  (levelDownH_hinv hal hi hu).mono fun _ ⟨hs, hi', hsz⟩ =>
    ⟨hs.h, hs.perm, hi'.linv, hi'.inv, hsz⟩

/-- the same, as a statement about a run that returned -/
theorem levelSwapH_refines_ok {ext : Nat → Nat} {al : Heap → Nat} (hal : AllocOK al) {s s' : HStore}
    {u : Nat} (hi : HInv hash ext s) (hu : u + 1 < s.tables.size)
    (hr : levelDownH hash al s u = .ok s') :
    Sim hash s' (levelDownS al id s.absS u) ∧ HInv hash ext s' ∧ s'.tables.size = s.tables.size :=
  (levelDownH_hinv hal hi hu).of_ok hr

/-- **`levelSwapH_total`.**  `level_down` on a store with `HInv` never runs into a violated debug
assertion and no probe loop diverges: it returns, or it stops with the capacity panic. -/
theorem levelSwapH_total {ext : Nat → Nat} {al : Heap → Nat} (hal : AllocOK al) {s : HStore}
    {u : Nat} (hi : HInv hash ext s) (hu : u + 1 < s.tables.size) :
    (∃ s', levelDownH hash al s u = .ok s') ∨ levelDownH hash al s u = .error .capacity := by
  rcases (levelDownH_hinv hal hi hu).cases with ⟨s', h, _⟩ | h
  · exact .inl ⟨s', h⟩
  · exact .inr h

example : Sim hZero exTwo1 (levelDownS Heap.firstFree id exTwo.absS 0) ∧
    HInv hZero (extOf [0, 0, 1, 1]) exTwo1 :=
  have h := levelSwapH_refines_ok allocOK_firstFree exTwo_hinv (by decide) exTwo1_run
  ⟨h.1, h.2.1⟩

/-- the run is non-trivial: three fresh nodes (slots 4, 5, 6) went into the new lower table, the
rewritten nodes 3, 2 were filed in the new upper table (the old lower one) behind node 1, which
then lost its last reference and was removed — its slot of the table is a tombstone, its heap
slot is free — and the tables differ in order from the list model's -/
example : exTwo1.absS.tables = [[3, 2], [4, 5, 6], [0]] ∧
    (levelDownS Heap.firstFree id exTwo.absS 0).tables = [[2, 3], [6, 5, 4], [0]] ∧
    (exTwo1.tbl 0).slots.toList.take 4 = [.tomb, .occ 0 3, .occ 0 2, .free] ∧
    exTwo1.h.sh 1 = none ∧
    exTwo1.h.sh 2 = some ⟨0, .inner 6, .term false⟩ ∧ exTwo1.h.sh 3 = some ⟨0, .inner 4, .inner 5⟩ := by
  decide +kernel

/-! ## consequences: `PropertiesStore` for the hashed implementation -/

/-- **`swapH_denotes_handle`** (functions preserved).  Every externally referenced slot keeps its
id and denotes the swapped diagram `swapTree u t`, which is in normal form and evaluates, under
every assignment, to what `t` evaluated to with the values of the two levels exchanged — the same
Boolean function of the *variables*. -/
theorem swapH_denotes_handle {ext : Nat → Nat} {al : Heap → Nat} (hal : AllocOK al) {s s' : HStore}
    {u : Nat} (hi : HInv hash ext s) (hu : u + 1 < s.tables.size)
    (hr : levelDownH hash al s u = .ok s') {k : Nat} {t : BDD} (hk : 0 < ext k)
    (hd : Denotes s.h.abs (.inner k) t) :
    Denotes s'.h.abs (.inner k) (swapTree u t) ∧ NF 0 (swapTree u t) ∧
      ∀ σ : Nat → Bool, (swapTree u t).eval σ = t.eval (σ ∘ swapLv u) := by
  have hu' : u + 1 < s.absS.tables.length := by rw [absS_length]; exact hu
  obtain ⟨hs, _, _⟩ := levelSwapH_refines_ok hal hi hu hr
  have hnf := hi.inv.nf hd
  refine ⟨?_, swapTree_nf u hnf (Nat.zero_le _), fun σ => swapTree_sem u hnf.1 σ⟩
  rw [hs.h]
  exact levelDownS_handle hal orderOK_id hi.inv hu' hk hd

def tTwoG : BDD :=
  .node 0 (.node 1 (.node 2 (.leaf true) (.leaf false)) (.leaf false)) (.leaf false)

example : Denotes exTwo1.h.abs (.inner 2) (swapTree 0 tTwoG) :=
  (swapH_denotes_handle allocOK_firstFree exTwo_hinv (by decide) exTwo1_run (k := 2) (by decide)
    (treeOf_sound (f := 4) (by decide +kernel))).1

/-- **`swapH_canonical`** (C01 after a swap on the real tables).  Afterwards two edges denoting
the same diagram are the same edge — from the table invariant alone (`unique_of_LInv`), i.e. the
hashed lookups of every later `reduce` find every node the swap filed. -/
theorem swapH_canonical {ext : Nat → Nat} {al : Heap → Nat} (hal : AllocOK al) {s s' : HStore}
    {u : Nat} (hi : HInv hash ext s) (hu : u + 1 < s.tables.size)
    (hr : levelDownH hash al s u = .ok s') {x y : Edge} {t : BDD}
    (hx : Denotes s'.h.abs x t) (hy : Denotes s'.h.abs y t) : x = y :=
  canonical_of_LInv (levelSwapH_refines_ok hal hi hu hr).2.1.linv hx hy

/-- … and every later lookup by children in the table of a level is exact: the hashed
`LevelViewSet::get` returns the slot holding that node iff there is one (`find_some_iff`). -/
theorem swapH_find_exact {ext : Nat → Nat} {al : Heap → Nat} (hal : AllocOK al) {s s' : HStore}
    {u : Nat} (hi : HInv hash ext s) (hu : u + 1 < s.tables.size)
    (hr : levelDownH hash al s u = .ok s') {level : Nat} (hl : level < s'.tables.size) (t e : Edge)
    (id : Nat) :
    find hash s'.toL level t e = .ok (some id) ↔ s'.h.sh id = some ⟨level, t, e⟩ := by
  rw [find_some_iff (levelSwapH_refines_ok hal hi hu hr).2.1.linv hl t e id]
  show s'.h.abs.get? id = _ ↔ _
  rw [abs_get?]

example : find hZero exTwo1.toL 1 (.inner 0) (.term true) = .ok (some 4) ∧
    find hZero exTwo1.toL 0 (.inner 6) (.term false) = .ok (some 2) ∧
    find hZero exTwo1.toL 0 (.inner 6) (.term true) = .ok none := by decide +kernel

/-- **`swapH_removed_iff`** (exact orphan removal).  A node of the old lower level is gone from the
new upper level's hashed table afterwards **iff** it has no external handle, no parent above the
two levels and at least one parent at the old upper level — a condition on the entry store only,
the same for every hash function, table layout and allocator.  (A removed node's slot is freed:
`HInv` afterwards says the tables hold exactly the live nodes.) -/
theorem swapH_removed_iff {ext : Nat → Nat} {al : Heap → Nat} (hal : AllocOK al) {s s' : HStore}
    {u : Nat} (hi : HInv hash ext s) (hu : u + 1 < s.tables.size)
    (hr : levelDownH hash al s u = .ok s') {k : Nat} {mk : Node} (hmk : s.h.sh k = some mk)
    (hlv : mk.level = u + 1) :
    ¬ (s'.tbl u).Mem k ↔
      (ext k = 0 ∧
       (∀ p n, s.h.sh p = some n → n.level ≠ u → n.level ≠ u + 1 →
          n.t ≠ .inner k ∧ n.e ≠ .inner k) ∧
       ∃ p, (s.tbl u).Mem p ∧ ∃ n, s.h.sh p = some n ∧ (n.t = .inner k ∨ n.e = .inner k)) := by
  have hu' : u + 1 < s.absS.tables.length := by rw [absS_length]; exact hu
  obtain ⟨hs, _, _⟩ := levelSwapH_refines_ok hal hi hu hr
  rw [(hs.tc u).m k]
  rw [levelDownS_removed_iff hal orderOK_id hi.inv hu' hmk hlv]
  constructor
  · rintro ⟨h1, h2, p, hp, h3⟩
    exact ⟨h1, h2, p, (mem_keys_iff _ _).1 (absS_table s u ▸ hp), h3⟩
  · rintro ⟨h1, h2, p, hp, h3⟩
    exact ⟨h1, h2, p, by rw [absS_table]; exact (mem_keys_iff _ _).2 hp, h3⟩

/-- `x0 ∧ x1` with a handle on the conjunction only, tombstones in both tables: the node `x1`
is orphaned by the swap, removed from the hashed table and its slot freed -/
def exAnd : HStore :=
  ⟨sAnd.h, #[tblOf (KH hZero sAnd.h).hf [.ins 9, .ins 1, .rem 9],
             tblOf (KH hZero sAnd.h).hf [.ins 9, .ins 0, .rem 9], Tbl.new]⟩

theorem exAnd_hinv : HInv hZero (extOf [0, 1]) exAnd := by
  refine HInv.of_tables (fun l => ?_) (checkInv_sound (by decide +kernel))
  match l with
  | 0 => exact tblOf_inv (KH hZero sAnd.h).hf [.ins 9, .ins 1, .rem 9]
  | 1 => exact tblOf_inv (KH hZero sAnd.h).hf [.ins 9, .ins 0, .rem 9]
  | 2 => exact new_inv (KH hZero sAnd.h).hf
  | l + 3 => exact new_inv (KH hZero sAnd.h).hf

example : (levelDownH hZero Heap.firstFree exAnd 0).map
    (fun s' => (s'.absS.tables, s'.h.sh 0, ((s'.tbl 0).slots.toList.take 3))) =
    .ok ([[1], [2], []], none, [.occ 0 1, .free, .free]) := by decide +kernel

/-- **`swapH_hash_independent`.**  Two managers with the same heap whose tables were maintained
with different hash functions and have different histories (layouts): after `level_down u` both
satisfy the invariant, every handle denotes the *same* diagram `swapTree u t` in both, and the same
nodes of the old lower level survive.  (The heaps may differ in which fresh slot holds which new
node, since the iteration orders differ — both are duplicate free, so the reachable parts are
isomorphic.) -/
theorem swapH_hash_independent {ext : Nat → Nat} {hash₁ hash₂ : Hash} {al₁ al₂ : Heap → Nat}
    (hal₁ : AllocOK al₁) (hal₂ : AllocOK al₂) {s₁ s₂ s₁' s₂' : HStore} {u : Nat}
    (hi₁ : HInv hash₁ ext s₁) (hi₂ : HInv hash₂ ext s₂) (hh : s₁.h = s₂.h)
    (hu₁ : u + 1 < s₁.tables.size) (hu₂ : u + 1 < s₂.tables.size)
    (hr₁ : levelDownH hash₁ al₁ s₁ u = .ok s₁') (hr₂ : levelDownH hash₂ al₂ s₂ u = .ok s₂') :
    HInv hash₁ ext s₁' ∧ HInv hash₂ ext s₂' ∧
    (∀ k t, 0 < ext k → Denotes s₁.h.abs (.inner k) t →
      Denotes s₁'.h.abs (.inner k) (swapTree u t) ∧ Denotes s₂'.h.abs (.inner k) (swapTree u t)) ∧
    (∀ k mk, s₁.h.sh k = some mk → mk.level = u + 1 → ((s₁'.tbl u).Mem k ↔ (s₂'.tbl u).Mem k)) := by
  refine ⟨(levelSwapH_refines_ok hal₁ hi₁ hu₁ hr₁).2.1, (levelSwapH_refines_ok hal₂ hi₂ hu₂ hr₂).2.1,
    fun k t hk hd => ⟨(swapH_denotes_handle hal₁ hi₁ hu₁ hr₁ hk hd).1,
      (swapH_denotes_handle hal₂ hi₂ hu₂ hr₂ hk (hh ▸ hd)).1⟩, fun k mk hmk hlv => ?_⟩
  have e1 := swapH_removed_iff hal₁ hi₁ hu₁ hr₁ hmk hlv
  have e2 := swapH_removed_iff hal₂ hi₂ hu₂ hr₂ (hh ▸ hmk) hlv
  -- the two entry tables of level `u` hold the same ids: the live nodes of level `u`
  have hmem : ∀ p, (s₁.tbl u).Mem p ↔ (s₂.tbl u).Mem p := by
    intro p
    rw [← mem_keys_iff, ← mem_keys_iff, ← absS_table, ← absS_table, hi₁.inv.tbl_iff, hi₂.inv.tbl_iff]
    show (∃ n, s₁.h.sh p = some n ∧ _) ↔ (∃ n, s₂.h.sh p = some n ∧ _)
    rw [hh]
  have e12 : ¬ (s₁'.tbl u).Mem k ↔ ¬ (s₂'.tbl u).Mem k := by
    rw [e1, e2, hh]
    constructor
    · rintro ⟨a1, a2, p, hp, a3⟩; exact ⟨a1, a2, p, (hmem p).1 hp, a3⟩
    · rintro ⟨a1, a2, p, hp, a3⟩; exact ⟨a1, a2, p, (hmem p).2 hp, a3⟩
  constructor
  · intro h; exact Classical.byContradiction fun hc => (e12.2 hc) h
  · intro h; exact Classical.byContradiction fun hc => (e12.1 hc) h

/-! ## sequences of swaps -/

/-- **`swapsH_correct`.**  Any sequence of in-range `level_down` calls on the hashed tables —
each one operating on the tables the previous ones left, with their tombstones and rehashes —
either stops with the capacity panic or ends in a store satisfying `HInv`, with the same number of
levels, in which every externally referenced slot denotes the diagram obtained by replaying the
swaps on trees; that diagram is in normal form and denotes the same function of the variables
when the level→variable map is permuted by the same swaps. -/
theorem swapsH_correct {ext : Nat → Nat} {al : Heap → Nat} (hal : AllocOK al) (us : List Nat)
    {s : HStore} (hi : HInv hash ext s) (hus : ∀ u ∈ us, u + 1 < s.tables.size)
    (l2v : List Nat) (hl : l2v.length = s.tables.size) :
    Good (fun s' => HInv hash ext s' ∧ s'.tables.size = s.tables.size ∧
      ∀ k t, 0 < ext k → Denotes s.h.abs (.inner k) t →
        Denotes s'.h.abs (.inner k) (swapTrees us t) ∧ NF 0 (swapTrees us t) ∧
        ∀ ρ : Nat → Bool, (swapTrees us t).eval (ρ ∘ lvFun (applySwaps us l2v)) =
          t.eval (ρ ∘ lvFun l2v)) (swapsH hash al s us) :=
  (swapsH_spec hal us hi hus).mono fun _ ⟨h1, h2, h3⟩ =>
    ⟨h1, h2, fun k t hk hd =>
      have hspec := swapTrees_spec us l2v t (hi.inv.nf hd) (fun u hu => hl ▸ hus u hu)
      ⟨h3 k t hk hd, hspec.1, hspec.2⟩⟩

/-- **`bubbleDownH_spec`** (the bubble sort of `set_var_order` executed with `level_down` on the
hashed tables): let `seq` give the target position of every current level; the adjacent swaps
emitted by `bubble_sort` either hit the capacity panic or end with (1) `HInv`, (2) the levels in
the requested order, (3) every handle denoting the same function of the variables by a diagram in
normal form. -/
theorem bubbleDownH_spec {ext : Nat → Nat} {al : Heap → Nat} (hal : AllocOK al) {s : HStore}
    (hi : HInv hash ext s) (seq l2v : List Nat) (hseq : seq.length = s.tables.size)
    (hl : l2v.length = s.tables.size) :
    let us := (bubbleSort seq.length seq).2
    Sorted (applySwaps us seq) ∧
    Good (fun s' => HInv hash ext s' ∧ s'.tables.size = s.tables.size ∧
      ∀ k t, 0 < ext k → Denotes s.h.abs (.inner k) t →
        Denotes s'.h.abs (.inner k) (swapTrees us t) ∧ NF 0 (swapTrees us t) ∧
        ∀ ρ : Nat → Bool, (swapTrees us t).eval (ρ ∘ lvFun (applySwaps us l2v)) =
          t.eval (ρ ∘ lvFun l2v)) (swapsH hash al s us) := by
  intro us
  have hsw := bubbleSort_swaps seq seq.length
  have hus : ∀ u ∈ us, u + 1 < s.tables.size := fun u hu => hseq ▸ validSwaps_lt hsw.2.1 u hu
  refine ⟨?_, swapsH_correct hal us hi hus l2v hl⟩
  show Sorted (applySwaps (bubbleSort seq.length seq).2 seq)
  rw [hsw.1]
  exact bubbleSort_sorted seq seq.length (Nat.le_refl _)

/-- non-vacuity: reversing the order of `exTwo` by `[0, 1, 0]` — the second and third swap run on
tables with tombstones left by the orphan removals of the earlier ones -/
example : (swapsH hZero Heap.firstFree exTwo [0, 1, 0]).map (fun s' => s'.absS.tables.map List.length) =
    .ok [2, 2, 2] := by decide +kernel

theorem exTwo_us : ∀ u ∈ [0, 1, 0], u + 1 < exTwo.tables.size := by
  intro u hu
  have : exTwo.tables.size = 3 := rfl
  rw [this]
  simp only [List.mem_cons, List.not_mem_nil, or_false] at hu
  omega

example (s' : HStore) (hr : swapsH hZero Heap.firstFree exTwo [0, 1, 0] = .ok s') :
    HInv hZero (extOf [0, 0, 1, 1]) s' :=
  (Good.of_ok (swapsH_spec (hash := hZero) (ext := extOf [0, 0, 1, 1]) (al := Heap.firstFree)
    allocOK_firstFree [0, 1, 0] exTwo_hinv exTwo_us) hr).1

/-! ## `set_var_order`

`setVarOrderH` (`SetOrderHashed.lean`) mirrors `set_var_order_common` on the hashed tables:
`sort_order`, the bubble sort over the **non-empty** level views (`RawTable::len != 0`) where each
swap is the general `level_swap(u, l, to_pre[u], to_pre[l])` with lazy level numbers on the
tables the earlier swaps left, the node-free second step that moves the `RawTable`s to their target
positions, and `update_levels` (`level.iter()` in slot order). -/

/-- what `SetOrderRes` (the conclusion of `setVarOrderS_spec`) means for the caller: the argument
of `PropertiesStore.setVarOrderS_correct`, for any result -/
theorem SetOrderRes.correct {ext : Nat → Nat} {s : SStore} {l2v order : List Nat}
    {res : SStore × List Nat}
    (hspec : SetOrderRes ext s s.tables.length l2v
      (sortOrder s.tables.length (order.map fun v => l2v.idxOf v)) res)
    (hl2v : l2v.length = s.tables.length) (hnd : order.Nodup) (hmem : ∀ v ∈ order, v ∈ l2v) :
    (∀ i j (hij : i < j) (hj : j < order.length), ∃ p q, p < q ∧ q < s.tables.length ∧
      res.2.getD p 0 = order[i] ∧ res.2.getD q 0 = order[j]) ∧
    (∀ k t, 0 < ext k → Denotes s.h.abs (.inner k) t →
      ∃ t', Denotes res.1.h.abs (.inner k) t' ∧ NF 0 t' ∧
        ∀ ρ : Nat → Bool, t'.eval (fun p => ρ (res.2.getD p 0)) = t.eval (fun l => ρ (l2v.getD l 0))) := by
  obtain ⟨h1, h2⟩ := order_levels_ok hnd hmem
  rw [hl2v] at h2
  obtain ⟨htlen, htlt, htnd⟩ := sortOrder_perm s.tables.length _ h1 h2
  generalize htg : sortOrder s.tables.length (order.map fun v => l2v.idxOf v) = target at *
  have hgetD : ∀ a (ha : a < s.tables.length), target.getD a 0 = target[a]'(htlen ▸ ha) :=
    fun a ha => by simp [List.getD_eq_getElem?_getD, List.getElem?_eq_getElem (htlen ▸ ha)]
  have htlt' : ∀ a, a < s.tables.length → target.getD a 0 < s.tables.length := fun a ha => by
    rw [hgetD a ha]; exact htlt _ (List.getElem_mem _)
  have htinj : ∀ a b, a < s.tables.length → b < s.tables.length →
      target.getD a 0 = target.getD b 0 → a = b := by
    intro a b ha hb e
    rw [hgetD a ha, hgetD b hb] at e
    have hpw := List.pairwise_iff_getElem.mp (List.nodup_iff_pairwise_ne.mp htnd)
    rcases Nat.lt_trichotomy a b with c | c | c
    · exact absurd e (hpw a b _ _ c)
    · exact c
    · exact absurd e.symm (hpw b a _ _ c)
  refine ⟨?_, ?_⟩
  · intro i j hij hj
    have hi : i < order.length := by omega
    have hai := hmem _ (List.getElem_mem hi)
    have haj := hmem _ (List.getElem_mem hj)
    have hli : l2v.idxOf order[i] < s.tables.length := hl2v ▸ List.idxOf_lt_length_of_mem hai
    have hlj : l2v.idxOf order[j] < s.tables.length := hl2v ▸ List.idxOf_lt_length_of_mem haj
    have hresp := sortOrder_respects s.tables.length (order.map fun v => l2v.idxOf v) h1 h2 i j hij
      (by simpa using hj)
    simp only [List.getElem_map, htg] at hresp
    refine ⟨target.getD (l2v.idxOf order[i]) 0, target.getD (l2v.idxOf order[j]) 0, ?_,
      htlt' _ hlj, ?_, ?_⟩
    · rw [hgetD _ hli, hgetD _ hlj]; exact hresp
    · rw [hspec.placed' htlt' htinj hli]
      simp [List.getD_eq_getElem?_getD, List.getElem?_eq_getElem (List.idxOf_lt_length_of_mem hai)]
    · rw [hspec.placed' htlt' htinj hlj]
      simp [List.getD_eq_getElem?_getD, List.getElem?_eq_getElem (List.idxOf_lt_length_of_mem haj)]
  · intro k t hk hd
    obtain ⟨nd, hnd'⟩ := Option.ne_none_iff_exists'.mp (hspec.inv.live_of_ext hk)
    obtain ⟨t', ht'⟩ := hspec.inv.total _ k nd hnd' (Nat.le_refl _)
    refine ⟨t', ht', hspec.inv.nf ht', fun ρ => ?_⟩
    have e1 := hspec.eval k hk ρ _ (ev_of_den hd _)
    exact (e1.functional (ev_of_den ht' _)).symm

/-- **`setVarOrderH_correct`** (C08 for `set_var_order` on the real table algorithm).  For a
duplicate-free request naming variables of the manager, every hash function, every history of the
level tables and every allocator, `set_var_order` on the hashed tables stops with the capacity
panic or returns a store and a level→variable map such that
1. `HInv` holds: `LevelTable.LInv` (every level table a keyed set of exactly the live ids of its
   level, under the hash of the current children — every later lookup is exact, `find_iff`) and the
   reorder store invariant (ordered, reduced, duplicate free, exact reference counts, tables
   consistent with the level numbers written by `update_levels`); the number of levels is unchanged;
2. **the requested order is established**: if `x` occurs before `y` in `order`, then `x` is at a
   smaller level than `y` in the new level→variable map;
3. **every handle keeps its function**: the diagram an externally referenced slot denotes
   afterwards is in normal form and evaluates, under every assignment of the *variables*, to what
   the old diagram evaluated to. -/
theorem setVarOrderH_correct {ext : Nat → Nat} {al : Heap → Nat} (hal : AllocOK al) {s : HStore}
    (hi : HInv hash ext s) (l2v order : List Nat) (hl2v : l2v.length = s.tables.size)
    (hnd : order.Nodup) (hmem : ∀ v ∈ order, v ∈ l2v) :
    Good (fun res : HStore × List Nat =>
      (HInv hash ext res.1 ∧ res.1.tables.size = s.tables.size) ∧
      (∀ i j (hij : i < j) (hj : j < order.length), ∃ p q, p < q ∧ q < s.tables.size ∧
        res.2.getD p 0 = order[i] ∧ res.2.getD q 0 = order[j]) ∧
      (∀ k t, 0 < ext k → Denotes s.h.abs (.inner k) t →
        ∃ t', Denotes res.1.h.abs (.inner k) t' ∧ NF 0 t' ∧
          ∀ ρ : Nat → Bool, t'.eval (fun p => ρ (res.2.getD p 0)) = t.eval (fun l => ρ (l2v.getD l 0))))
      (setVarOrderH hash al s l2v order) := by
  obtain ⟨h1, h2⟩ := order_levels_ok hnd hmem
  rw [hl2v] at h2
  refine (setVarOrderH_res hal hi l2v order hl2v h1 h2).mono ?_
  rintro ⟨s', m⟩ ⟨hspec, ht⟩
  have hnn : s.absS.tables.length = s.tables.size := absS_length s
  rw [← hnn] at hspec
  have hc := SetOrderRes.correct (res := (s'.absS, m)) hspec (by rw [hnn]; exact hl2v) hnd hmem
  have hlen : s'.tables.size = s.tables.size := by
    have := hspec.len
    rw [hnn] at this
    rw [← this]; exact (absS_length s').symm
  refine ⟨⟨HInv.of_tables (fun l => (ht l).inv) hspec.inv, hlen⟩, ?_, hc.2⟩
  intro i j hij hj
  obtain ⟨p, q, a1, a2, a3, a4⟩ := hc.1 i j hij hj
  exact ⟨p, q, a1, by rw [← hnn]; exact a2, a3, a4⟩

/-- non-vacuity: the request "x2 above x0" on `exTwo` (levels 0 and 2 are swapped through level 1:
three general swaps with lazy level numbers on tables with tombstones; `#eval` gives the new
level→variable map `[1, 2, 0]`; `bubblePass` is not kernel-reducible, so the value is not restated
as a `decide` example) -/
example (res : HStore × List Nat)
    (hr : setVarOrderH hZero Heap.firstFree exTwo [0, 1, 2] [2, 0] = .ok res) :
    HInv hZero (extOf [0, 0, 1, 1]) res.1 :=
  ((setVarOrderH_correct (hash := hZero) (ext := extOf [0, 0, 1, 1]) allocOK_firstFree exTwo_hinv
    [0, 1, 2] [2, 0] rfl (by decide) (by decide)).of_ok hr).1.1

/-- the bubble sort of `set_var_order` over all levels with eager level numbers (`level_down`),
the reading of `PropertiesStore.bubbleDownS_spec`, is `bubbleDownH_spec` above. -/
example : (swapsH hZero Heap.firstFree exTwo (bubbleSort [2, 1, 0].length [2, 1, 0]).2).map
    (fun s' => s'.absS.tables.map List.length) = .ok [2, 2, 2] := by
  have : (bubbleSort [2, 1, 0].length [2, 1, 0]).2 = [0, 1, 0] := by simp [bubbleSort, bubblePass]
  rw [this]; decide +kernel

/-! ## negative witnesses (`SwapHashedNeg.lean`)

`levelDownV v` is a copy of `levelDownH` with four switches; `levelDownV_fixed` ties it to the
verified function.  Each witness is a store with `HInv` on which one switch makes the result
violate `HInv` while the verified swap is fine:

* `find_stops_at_tombstone_breaks` — `R4-C01-find-stops-at-tombstone`: duplicate node, the original
  in no table;
* `remove_last_slot_free_breaks` — `R4-C08-remove-last-slot-free`: a live, filed node the lookup by
  its own children no longer finds;
* `skip_dead_node_breaks` — `R4-C03-levelswap-skips-dead-node`: a revived node listed in no table;
* `insert_before_set_child_breaks` — stale hash (cause 1 of /repo 1415cc0), cf.
  `LevelTable.stale_hash_breaks`. -/

/-- the four witnesses together -/
theorem swapH_negative_witnesses :
    (∀ hash al s u, levelDownV .fixed hash al s u = levelDownH hash al s u) ∧
    (HInv hZero (extOf [0, 0, 1, 1]) wA ∧ levelDownV vFindTomb hZero Heap.firstFree wA 0 = .ok wA' ∧
      ¬ HInv hZero (extOf [0, 0, 1, 1]) wA') ∧
    (HInv h15 (extOf [0, 0, 1, 1]) wB ∧ levelDownV vLastFree h15 Heap.firstFree wB 0 = .ok wB' ∧
      ¬ HInv h15 (extOf [0, 0, 1, 1]) wB') ∧
    (HInv hZero (extOf [0, 0, 0, 1]) wC ∧ levelDownV vSkipDead hZero Heap.firstFree wC 0 = .ok wC' ∧
      ¬ HInv hZero (extOf [0, 0, 0, 1]) wC') ∧
    (HInv hKid (extOf [0, 0, 1, 1]) wD ∧ levelDownV vInsertFirst hKid Heap.firstFree wD 0 = .ok wD' ∧
      ¬ HInv hKid (extOf [0, 0, 1, 1]) wD') :=
  ⟨levelDownV_fixed,
   ⟨find_stops_at_tombstone_breaks.1, find_stops_at_tombstone_breaks.2.2.1,
     find_stops_at_tombstone_breaks.2.2.2.2.2.2.2.1⟩,
   ⟨remove_last_slot_free_breaks.1, remove_last_slot_free_breaks.2.2.1,
     remove_last_slot_free_breaks.2.2.2.2.2.2.2.1⟩,
   ⟨skip_dead_node_breaks.1, skip_dead_node_breaks.2.1, skip_dead_node_breaks.2.2.2.2.2.1⟩,
   ⟨insert_before_set_child_breaks.1, insert_before_set_child_breaks.2.1,
     insert_before_set_child_breaks.2.2.2.2.2.1⟩⟩

end OxiddModel.Reorder.SwapHashed
