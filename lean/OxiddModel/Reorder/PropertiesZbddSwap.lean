import OxiddModel.Reorder.ZbddSwapLemmas2

/-!
# C08/C09 for ZBDDs: the level swap under family-of-sets semantics

Headline theorems about `ZbddSwap.lean` (the diagram-level model of
`oxidd_reorder::level_swap` with the ZBDD rules).

* `zbdd_swap_changes_family` — THE NEGATION for the code as it is (`genericSwap`): a reduced,
  ordered two-node ZBDD whose family is changed by the swap (known finding `KF-zbdd-reorder`);
  `generic_swap_0x14` is the instance of the finding's text (0x14 ↦ 0x54 under order `[0,2,1]`).
* `zbddSwap_preserves_family`, `zbddSwap_ordered`, `zbddSwap_reduced`, `zbddSwap_below`,
  `zbddSwap_twice_family` — the repair (`zbddSwap`: grand-cofactors `(∅, child)` for a child that
  skips the lower level), for ALL ordered diagrams and all adjacent levels.

All statements of this file are about unfoldings (trees). `PropertiesZbddSwapChar`: exactly which
shapes the code gets wrong; `PropertiesZbddSwapInv`: the repaired swap is an involution on
diagrams, hence injective; `PropertiesZbddSwapStore` / `PropertiesZbddSwapLoop`: the node store
with sharing (the loop of the repaired `level_swap` with in-place update, lookup and allocation;
no reference counts, no separate level tables).
-/
namespace OxiddModel.Reorder.ZbddSwap

/-! ## the code as it is -/

/-- the smallest witness: `{{0}, {1}}` over the order `0 < 1`, i.e. the node
`(0, hi = {∅}, lo = (1, {∅}, ∅))`: `hi` skips the lower level. -/
def kfTree : Z := .node 0 .base (.node 1 .base .empty)

/-- **C08 is false for the ZBDD rules as the code is**: there is an ordered, zero-suppressed
diagram (two nodes, two variables, adjacent levels 0 and 1) and a set whose membership in the
family is changed by the generic swap: `{0,1}` is not in `{{0},{1}}` but is in the result. -/
theorem zbdd_swap_changes_family :
    ∃ (pos : Nat → Nat) (x y : Nat) (t : Z) (s : List Nat),
      Adj pos x y ∧ ord pos 0 t = true ∧ red t = true ∧
      mem (genericSwap x y t) s ≠ mem t s :=
  ⟨id, 0, 1, kfTree, [0, 1],
    ⟨rfl, fun v h => h, fun v h => h⟩, by decide, by decide, by decide⟩

/-- the two families as bit sets: `{{0},{1}}` = `0b0110` becomes `{{0},{1},{0,1}}` = `0b1110` -/
example : table 2 kfTree = 6 ∧ table 2 (genericSwap 0 1 kfTree) = 14 ∧
    table 2 (zbddSwap 0 1 kfTree) = 6 := by decide

/-- the instance in the text of `KF-zbdd-reorder`: the family `0x14` over three variables in the
order `[0,1,2]`; the swap of the levels of the variables 1 and 2 (new order `[0,2,1]`) as the code
performs it yields `0x54`; the repaired swap keeps `0x14`. -/
theorem generic_swap_0x14 :
    table 3 (build [0, 1, 2] 0x14) = 0x14 ∧
    table 3 (genericSwap 1 2 (build [0, 1, 2] 0x14)) = 0x54 ∧
    table 3 (zbddSwap 1 2 (build [0, 1, 2] 0x14)) = 0x14 := by decide

/-! ## the repair -/

/-- **C08/C09, family preserved**: for every diagram ordered w.r.t. `pos` and all adjacent
variables `x` (upper), `y` (lower), the repaired swap keeps the family: every set is a member
after the swap iff it was before. (Zero suppression of the input is not needed for this part.) -/
theorem zbddSwap_preserves_family {pos : Nat → Nat} {x y : Nat} (ha : Adj pos x y) :
    ∀ (t : Z) (n : Nat), ord pos n t = true → ∀ s, mem (zbddSwap x y t) s = mem t s
  | .empty, _, _, _ => rfl
  | .base, _, _, _ => rfl
  | .node v hi lo, n, h, s => by
    simp only [ord, Bool.and_eq_true, decide_eq_true_eq] at h
    unfold zbddSwap
    by_cases hvx : v = x
    · subst hvx
      simp only [swapWith, if_true]
      have hh : ord pos (pos y) hi = true := by rw [ha.adj]; exact h.1.2
      have hl : ord pos (pos y) lo = true := by rw [ha.adj]; exact h.2
      exact mem_rebuildZ ha.ne (not_vars_of_ord h.2 (by omega))
        (fun e => not_vars_of_ord (ord_succ_of_not_isAt ha hi hh e) (by omega))
        (fun e => not_vars_of_ord (ord_succ_of_not_isAt ha lo hl e) (by omega)) s
    · by_cases hvy : v = y
      · subst hvy
        simp only [swapWith, hvx, if_true, if_false]
      · simp only [swapWith, hvx, hvy, if_false]
        rw [mem_node, mem_node]
        have i1 := zbddSwap_preserves_family ha hi _ h.1.2
        have i2 := zbddSwap_preserves_family ha lo _ h.2
        unfold zbddSwap at i1 i2
        rw [i1, i2]

/-- **C08, order established**: the result is ordered w.r.t. the order in which `x` and `y`
have exchanged their levels. -/
theorem zbddSwap_ordered {pos : Nat → Nat} {x y : Nat} (ha : Adj pos x y) :
    ∀ (t : Z) (n : Nat), n ≤ pos x → ord pos n t = true →
      ord (swapPos pos x y) n (zbddSwap x y t) = true
  | .empty, _, _, _ => rfl
  | .base, _, _, _ => rfl
  | .node v hi lo, n, hn, h => by
    have h0 := h
    simp only [ord, Bool.and_eq_true, decide_eq_true_eq] at h
    have hadj := ha.adj
    unfold zbddSwap
    by_cases hvx : v = x
    · subst hvx
      simp only [swapWith, if_true]
      exact ord_rebuildZ ha hn h.1.2 h.2
    · by_cases hvy : v = y
      · subst hvy
        simp only [swapWith, hvx, if_true, if_false]
        simp only [ord, Bool.and_eq_true, decide_eq_true_eq, swapPos_y ha.ne]
        exact ⟨⟨hn, ord_mono _ _ _ _ (by omega) (ord_swapPos_below hi _ h.1.2 (by omega) (by omega))⟩,
          ord_mono _ _ _ _ (by omega) (ord_swapPos_below lo _ h.2 (by omega) (by omega))⟩
      · have e : swapPos pos x y v = pos v := by simp [swapPos, hvx, hvy]
        by_cases hlt : pos v < pos x
        · simp only [swapWith, hvx, hvy, if_false]
          simp only [ord, Bool.and_eq_true, decide_eq_true_eq, e]
          have i1 := zbddSwap_ordered ha hi (pos v + 1) (by omega) h.1.2
          have i2 := zbddSwap_ordered ha lo (pos v + 1) (by omega) h.2
          unfold zbddSwap at i1 i2
          exact ⟨⟨h.1.1, i1⟩, i2⟩
        · have h1 : pos v ≠ pos x := fun e => hvx (ha.injx v e)
          have h2 : pos v ≠ pos y := fun e => hvy (ha.injy v e)
          have hv : ord pos (pos v) (.node v hi lo) = true := by
            simp only [ord, Bool.and_eq_true, decide_eq_true_eq]
            exact ⟨⟨Nat.le_refl _, h.1.2⟩, h.2⟩
          rw [swapWith_below (cofZ y) _ _ hv (by omega) (by omega)]
          exact ord_mono _ _ _ _ h.1.1 (ord_swapPos_below _ _ hv (by omega) (by omega))

/-- **zero suppression kept**: no node of the result has `hi = ∅` — in particular a rebuilt node
of the upper level never needs to be reduced away (the code keeps it in its slot). -/
theorem zbddSwap_reduced (x y : Nat) : ∀ (t : Z), red t = true → red (zbddSwap x y t) = true
  | .empty, _ => rfl
  | .base, _ => rfl
  | .node v hi lo, h => by
    simp only [red, Bool.and_eq_true, decide_eq_true_eq] at h
    unfold zbddSwap
    by_cases hvx : v = x
    · subst hvx
      simp only [swapWith, if_true]
      exact red_rebuildZ h.1.1 h.1.2 h.2
    · by_cases hvy : v = y
      · subst hvy
        simp only [swapWith, hvx, if_true, if_false]
        simp only [red, Bool.and_eq_true, decide_eq_true_eq]; exact h
      · simp only [swapWith, hvx, hvy, if_false]
        have i1 := zbddSwap_reduced x y hi h.1.2
        have i2 := zbddSwap_reduced x y lo h.2
        unfold zbddSwap at i1 i2
        simp only [red, Bool.and_eq_true, decide_eq_true_eq]
        exact ⟨⟨fun e => h.1.1 (swapWith_eq_empty e), i1⟩, i2⟩

/-- **untouched**: a diagram strictly below the two levels is returned unchanged (and nodes of
the lower variable keep their shape: `swapWith`, second branch). -/
theorem zbddSwap_below {pos : Nat → Nat} {x y : Nat} (t : Z) (n : Nat) (h : ord pos n t = true)
    (hx : pos x < n) (hy : pos y < n) : zbddSwap x y t = t :=
  swapWith_below (cofZ y) t n h hx hy

/-- after the swap, `y` is the upper and `x` the lower of two adjacent levels -/
theorem Adj.swap {pos : Nat → Nat} {x y : Nat} (ha : Adj pos x y) : Adj (swapPos pos x y) y x := by
  have hne := ha.ne
  have hadj := ha.adj
  refine ⟨?_, ?_, ?_⟩
  · rw [swapPos_x, swapPos_y hne]; exact hadj
  · intro v hv
    rw [swapPos_y hne] at hv
    by_cases hvx : v = x
    · subst hvx; rw [swapPos_x] at hv; omega
    · by_cases hvy : v = y
      · exact hvy
      · have : swapPos pos x y v = pos v := by simp [swapPos, hvx, hvy]
        rw [this] at hv; exact absurd (ha.injx v hv) hvx
  · intro v hv
    rw [swapPos_x] at hv
    by_cases hvx : v = x
    · exact hvx
    · by_cases hvy : v = y
      · subst hvy; rw [swapPos_y hne] at hv; omega
      · have : swapPos pos x y v = pos v := by simp [swapPos, hvx, hvy]
        rw [this] at hv; exact absurd (ha.injy v hv) hvy

/-- **swapping twice is the identity on families** (and the order is the original one:
`swapPos_swapPos`). -/
theorem zbddSwap_twice_family {pos : Nat → Nat} {x y : Nat} (ha : Adj pos x y) (t : Z) (n : Nat)
    (hn : n ≤ pos x) (h : ord pos n t = true) (s : List Nat) :
    mem (zbddSwap y x (zbddSwap x y t)) s = mem t s := by
  rw [zbddSwap_preserves_family ha.swap _ n (zbddSwap_ordered ha t n hn h),
    zbddSwap_preserves_family ha t n h]

theorem swapPos_swapPos {pos : Nat → Nat} {x y : Nat} (hne : x ≠ y) :
    swapPos (swapPos pos x y) y x = pos := by
  funext v
  by_cases hvx : v = x
  · subst hvx; simp [swapPos, hne, Ne.symm hne]
  · by_cases hvy : v = y
    · subst hvy; simp [swapPos]
    · simp [swapPos, hvx, hvy]

/-! ## non-vacuity -/

/-- a three-variable diagram in which the upper node has one child on the lower level and one
below it (the shape the code gets wrong), under the order `0 < 1 < 2`, swap of `1` and `2` -/
def exTree : Z := build [0, 1, 2] 0x14

example : Adj id 1 2 := ⟨rfl, fun _ h => h, fun _ h => h⟩
example : ord id 0 exTree = true ∧ red exTree = true ∧ exTree ≠ zbddSwap 1 2 exTree ∧
    ord (swapPos id 1 2) 0 (zbddSwap 1 2 exTree) = true ∧ red (zbddSwap 1 2 exTree) = true ∧
    zbddSwap 2 1 (zbddSwap 1 2 exTree) = exTree := by decide

end OxiddModel.Reorder.ZbddSwap
