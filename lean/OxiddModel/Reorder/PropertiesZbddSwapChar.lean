import OxiddModel.Reorder.PropertiesZbddSwap

/-!
# Exactly which shapes the generic swap gets wrong; the repaired swap is an involution

* `genericSwap_node_family_iff` — for a node `(x, hi, lo)` of the upper level of an ordered,
  zero-suppressed diagram, the swap as the code performs it keeps the family **iff** the node
  does not have a `badShape`: exactly one child sits on the lower level and the other one is not
  `∅` (`hi` never is). Both children below ⇒ the node just moves (right); both on the lower
  level ⇒ real cofactors (right); `lo = ∅` below ⇒ `(∅, ∅)` either way (right).
* `genericSwap_eq_zbddSwap_of_noBad` — on diagrams without such a node the code's swap *is* the
  repaired one (so everything in `PropertiesZbddSwap` holds for the code there).
* `zbddSwap_twice` — structurally, `zbddSwap y x (zbddSwap x y t) = t`; hence `zbddSwap_injective`:
  distinct diagrams stay distinct, i.e. a duplicate-free store has no semantic duplicates after
  the swap.
-/
namespace OxiddModel.Reorder.ZbddSwap

/-- exactly one child sits on the lower level and the other one is not `∅` -/
def badShape (y : Nat) (hi lo : Z) : Bool :=
  (!isAt y hi && isAt y lo) || (isAt y hi && !isAt y lo && decide (lo ≠ .empty))

theorem filt_self {v : Nat} {s : List Nat} (h : v ∉ s) : s.filter (· ≠ v) = s :=
  List.filter_eq_self.2 (fun a ha => by
    simp only [ne_eq, decide_eq_true_eq]; intro e; subst e; exact h ha)

theorem filt_cons_eq (v : Nat) (s : List Nat) : (v :: s).filter (· ≠ v) = s.filter (· ≠ v) := by
  simp

theorem filt_cons_ne {a v : Nat} (h : a ≠ v) (s : List Nat) :
    (a :: s).filter (· ≠ v) = a :: s.filter (· ≠ v) := by
  simp [h]

/-- a zero-suppressed ordered diagram other than `∅` has a member, made of its own variables -/
theorem exists_mem {pos : Nat → Nat} : ∀ (t : Z) (n : Nat), ord pos n t = true → red t = true →
    t ≠ .empty → ∃ s, mem t s = true ∧ ∀ v ∈ s, v ∈ vars t
  | .empty, _, _, _, h => absurd rfl h
  | .base, _, _, _, _ => ⟨[], rfl, fun _ h => by cases h⟩
  | .node v hi lo, n, ho, hr, _ => by
    simp only [ord, Bool.and_eq_true, decide_eq_true_eq] at ho
    simp only [red, Bool.and_eq_true, decide_eq_true_eq] at hr
    obtain ⟨s0, hm, hs⟩ := exists_mem hi _ ho.1.2 hr.1.2 hr.1.1
    have hv : v ∉ s0 := fun h => not_vars_of_ord ho.1.2 (by omega) (hs v h)
    refine ⟨v :: s0, ?_, ?_⟩
    · rw [mem_node, if_pos (List.mem_cons_self), filt_cons_eq, filt_self hv]; exact hm
    · intro w hw
      simp only [vars, List.mem_cons, List.mem_append]
      rcases List.mem_cons.1 hw with rfl | hw
      · exact Or.inl rfl
      · exact Or.inr (Or.inl (hs w hw))

theorem isAt_false_of_ord {pos : Nat → Nat} {x n : Nat} : ∀ {c : Z}, ord pos n c = true → pos x < n →
    isAt x c = false
  | .empty, _, _ => rfl
  | .base, _, _ => rfl
  | .node v h l, ho, hx => by
    simp only [ord, Bool.and_eq_true, decide_eq_true_eq] at ho
    simp only [isAt, decide_eq_false_iff_not]
    intro e; subst e; omega

theorem mk_of_ne {v : Nat} {hi lo : Z} (h : hi ≠ .empty) : mk v hi lo = .node v hi lo := by
  simp [mk, h]

theorem rebuild_eq_of_not_bad {x y : Nat} {hi lo : Z} (hb : badShape y hi lo = false) :
    rebuild (cofG y) x y hi lo = rebuild (cofZ y) x y hi lo := by
  cases h1 : isAt y hi with
  | false =>
    cases h2 : isAt y lo with
    | false => simp [rebuild, h1, h2]
    | true => simp [badShape, h1, h2] at hb
  | true =>
    obtain ⟨a, b, rfl, ea⟩ := cofG_of_isAt h1
    obtain ⟨_, _, _, ea'⟩ := cofZ_of_isAt h1
    cases h2 : isAt y lo with
    | true =>
      obtain ⟨c, d, rfl, ec⟩ := cofG_of_isAt h2
      obtain ⟨_, _, _, ec'⟩ := cofZ_of_isAt h2
      simp only [rebuild, ea, ea', ec, ec']
      simp_all
    | false =>
      have : lo = .empty := by
        simp [badShape, h1, h2] at hb; exact hb
      subst this
      simp only [rebuild, ea, ea']
      simp_all [cofG, cofZ]

/-- **the generic swap of one upper-level node keeps its family iff the node has no bad shape**
(one child on the lower level, the other one below it and not `∅`). In the bad case the family
gains sets: `{x, y} ∪ s` for `s ∈ hi` (if `hi` skips `y`), `{y} ∪ s` for `s ∈ lo` (if `lo` does). -/
theorem genericSwap_node_family_iff {pos : Nat → Nat} {x y : Nat} (ha : Adj pos x y)
    (hi lo : Z) (n : Nat) (ho : ord pos n (.node x hi lo) = true) (hr : red (.node x hi lo) = true) :
    (∀ s, mem (genericSwap x y (.node x hi lo)) s = mem (.node x hi lo) s) ↔ badShape y hi lo = false := by
  have hne := ha.ne
  have ho' := ho
  simp only [ord, Bool.and_eq_true, decide_eq_true_eq] at ho'
  simp only [red, Bool.and_eq_true, decide_eq_true_eq] at hr
  have hh : ord pos (pos y) hi = true := by rw [ha.adj]; exact ho'.1.2
  have hl : ord pos (pos y) lo = true := by rw [ha.adj]; exact ho'.2
  have hxh : x ∉ vars hi := not_vars_of_ord ho'.1.2 (by omega)
  have hxl : x ∉ vars lo := not_vars_of_ord ho'.2 (by omega)
  have e0 : genericSwap x y (.node x hi lo) = rebuild (cofG y) x y hi lo := by
    simp [genericSwap, swapWith]
  have z0 : zbddSwap x y (.node x hi lo) = rebuild (cofZ y) x y hi lo := by
    simp [zbddSwap, swapWith]
  constructor
  · intro hall
    cases hb : badShape y hi lo with
    | false => rfl
    | true =>
      exfalso
      cases h1 : isAt y hi with
      | false =>
        -- `hi` skips `y`, so `lo` sits there
        have h2 : isAt y lo = true := by
          cases h2 : isAt y lo with
          | true => rfl
          | false => simp [badShape, h1, h2] at hb
        obtain ⟨lh, ll, rfl, _⟩ := cofG_of_isAt h2
        have hyh : y ∉ vars hi := not_vars_of_ord (ord_succ_of_not_isAt ha hi hh h1) (by omega)
        obtain ⟨s0, hm, hs⟩ := exists_mem hi _ ho'.1.2 hr.1.2 hr.1.1
        have hx0 : x ∉ s0 := fun h => hxh (hs x h)
        have hy0 : y ∉ s0 := fun h => hyh (hs y h)
        have := hall (x :: y :: s0)
        rw [e0] at this
        simp only [rebuild, h1, h2, cofG_of_not_isAt h1, Bool.not_true, Bool.and_false,
          Bool.false_eq_true, if_false, mk_of_ne hr.1.1] at this
        rw [mem_node, if_pos (by simp), filt_cons_ne hne, filt_cons_eq, filt_self hy0, mem_node,
          if_pos (List.mem_cons_self), filt_cons_eq, filt_self hx0, hm, mem_node,
          if_pos (List.mem_cons_self), filt_cons_eq, filt_cons_ne (Ne.symm hne), filt_self hx0,
          mem_false_of_not_vars y hi _ hyh (List.mem_cons_self)] at this
        cases this
      | true =>
        have h2 : isAt y lo = false := by
          cases h2 : isAt y lo with
          | false => rfl
          | true => simp [badShape, h1, h2] at hb
        have hle : lo ≠ .empty := by
          intro e; simp [badShape, h1, e] at hb
        obtain ⟨hh', hl', rfl, ec⟩ := cofG_of_isAt h1
        have hyl : y ∉ vars lo := not_vars_of_ord (ord_succ_of_not_isAt ha lo hl h2) (by omega)
        obtain ⟨s0, hm, hs⟩ := exists_mem lo _ ho'.2 hr.2 hle
        have hx0 : x ∉ s0 := fun h => hxl (hs x h)
        have hy0 : y ∉ s0 := fun h => hyl (hs y h)
        have hhh : hh' ≠ .empty := by
          have := hr.1.2
          simp only [red, Bool.and_eq_true, decide_eq_true_eq] at this
          exact this.1.1
        have := hall (y :: s0)
        rw [e0] at this
        simp only [rebuild, h1, h2, ec, cofG_of_not_isAt h2, Bool.not_true, Bool.false_and,
          Bool.false_eq_true, if_false, mk_of_ne hhh] at this
        have hxs : x ∉ y :: s0 := by
          intro h; rcases List.mem_cons.1 h with h | h
          · exact hne h
          · exact hx0 h
        rw [mem_node, if_pos (List.mem_cons_self), filt_cons_eq, filt_self hy0, mem_node,
          if_neg hx0, hm, mem_node, if_neg hxs,
          mem_false_of_not_vars y lo _ hyl (List.mem_cons_self)] at this
        cases this
  · intro hb s
    have e : rebuild (cofG y) x y hi lo = rebuild (cofZ y) x y hi lo := rebuild_eq_of_not_bad hb
    rw [e0, e, ← z0]
    exact zbddSwap_preserves_family ha _ n ho s

/-- no node of the upper level has a bad shape -/
def noBad (x y : Nat) : Z → Bool
  | .node v hi lo => (decide (v ≠ x) || !badShape y hi lo) && noBad x y hi && noBad x y lo
  | _ => true

/-- **where the code is right**: on a diagram without a bad-shaped upper node the swap as the
code performs it is the repaired swap (node for node). -/
theorem genericSwap_eq_zbddSwap_of_noBad (x y : Nat) : ∀ (t : Z), noBad x y t = true →
    genericSwap x y t = zbddSwap x y t
  | .empty, _ => rfl
  | .base, _ => rfl
  | .node v hi lo, h => by
    simp only [noBad, Bool.and_eq_true, Bool.or_eq_true, decide_eq_true_eq, Bool.not_eq_true'] at h
    unfold genericSwap zbddSwap
    by_cases hvx : v = x
    · subst hvx
      simp only [swapWith, if_true]
      rcases h.1.1 with h' | h'
      · exact absurd rfl h'
      · exact rebuild_eq_of_not_bad h'
    · by_cases hvy : v = y
      · subst hvy; simp only [swapWith, hvx, if_true, if_false]
      · simp only [swapWith, hvx, hvy, if_false]
        have i1 := genericSwap_eq_zbddSwap_of_noBad x y hi h.1.2
        have i2 := genericSwap_eq_zbddSwap_of_noBad x y lo h.2
        unfold genericSwap zbddSwap at i1 i2
        rw [i1, i2]

example : noBad 1 2 (build [0, 1, 2] 0xff) = true ∧ build [0, 1, 2] 0xff ≠ zbddSwap 1 2 (build [0, 1, 2] 0xff) ∧
    noBad 1 2 (build [0, 1, 2] 0x14) = false := by decide

end OxiddModel.Reorder.ZbddSwap
