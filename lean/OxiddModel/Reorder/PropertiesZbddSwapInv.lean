import OxiddModel.Reorder.PropertiesZbddSwapChar

/-!
# The repaired swap is an involution on diagrams (not only on families)

`zbddSwap_twice`: for every ordered, zero-suppressed diagram, swapping the two adjacent levels
and swapping them back returns the *same diagram*. Consequences: `zbddSwap_injective` (distinct
diagrams stay distinct: no two nodes of a duplicate-free store become semantic duplicates).
-/
namespace OxiddModel.Reorder.ZbddSwap

/-- `reduce` of the zero-suppressed cofactors gives the child back -/
theorem mk_cofZ {y : Nat} {c : Z} (hr : red c = true) : mk y (cofZ y c).1 (cofZ y c).2 = c := by
  cases hy : isAt y c with
  | true =>
    obtain ⟨h, l, rfl, e⟩ := cofZ_of_isAt hy
    simp only [red, Bool.and_eq_true, decide_eq_true_eq] at hr
    rw [e]; exact mk_of_ne hr.1.1
  | false =>
    rw [cofZ_of_not_isAt hy]; simp [mk]

/-- the cofactors of a reduced new node are the two edges it was made of -/
theorem cofZ_mk {x : Nat} {p q : Z} (hq : isAt x q = false) : cofZ x (mk x p q) = (p, q) := by
  unfold mk
  split
  · rename_i e; subst e; exact cofZ_of_not_isAt hq
  · simp [cofZ]

theorem isAt_mk {x : Nat} {p q : Z} (hq : isAt x q = false) : isAt x (mk x p q) = decide (p ≠ .empty) := by
  unfold mk
  split
  · rename_i e; subst e; simp [hq]
  · rename_i e; simp [isAt, e]

theorem rebuildZ_twice {pos : Nat → Nat} {x y : Nat} (ha : Adj pos x y) {hi lo : Z}
    (hh : ord pos (pos y) hi = true) (hl : ord pos (pos y) lo = true)
    (hhi : hi ≠ .empty) (hrh : red hi = true) (hrl : red lo = true) :
    zbddSwap y x (rebuild (cofZ y) x y hi lo) = .node x hi lo := by
  have hne := ha.ne
  have hadj := ha.adj
  unfold rebuild
  split
  · simp [zbddSwap, swapWith, hne]
  · rename_i hc
    obtain ⟨o1, o2⟩ := ord_cofZ ha hh
    obtain ⟨o3, o4⟩ := ord_cofZ ha hl
    have a1 : isAt x (cofZ y lo).1 = false := isAt_false_of_ord o3 (by omega)
    have a2 : isAt x (cofZ y lo).2 = false := isAt_false_of_ord o4 (by omega)
    have hcond : (!isAt x (mk x (cofZ y hi).1 (cofZ y lo).1) && !isAt x (mk x (cofZ y hi).2 (cofZ y lo).2)) = false := by
      rw [isAt_mk a1, isAt_mk a2]
      cases hy : isAt y hi with
      | true =>
        obtain ⟨h, l, rfl, e⟩ := cofZ_of_isAt hy
        simp only [red, Bool.and_eq_true, decide_eq_true_eq] at hrh
        rw [e]; simp [hrh.1.1]
      | false =>
        rw [cofZ_of_not_isAt hy]; simp [hhi]
    simp only [zbddSwap, swapWith, if_true]
    unfold rebuild
    rw [hcond]
    simp only [Bool.false_eq_true, if_false, cofZ_mk a1, cofZ_mk a2, mk_cofZ hrh, mk_cofZ hrl]

/-- **swapping twice gives the diagram back** -/
theorem zbddSwap_twice {pos : Nat → Nat} {x y : Nat} (ha : Adj pos x y) :
    ∀ (t : Z) (n : Nat), ord pos n t = true → red t = true → zbddSwap y x (zbddSwap x y t) = t
  | .empty, _, _, _ => rfl
  | .base, _, _, _ => rfl
  | .node v hi lo, n, h, hr => by
    simp only [ord, Bool.and_eq_true, decide_eq_true_eq] at h
    simp only [red, Bool.and_eq_true, decide_eq_true_eq] at hr
    have hne := ha.ne
    have hadj := ha.adj
    by_cases hvx : v = x
    · subst hvx
      have e : zbddSwap v y (.node v hi lo) = rebuild (cofZ y) v y hi lo := by
        simp [zbddSwap, swapWith]
      rw [e]
      exact rebuildZ_twice ha (by rw [hadj]; exact h.1.2) (by rw [hadj]; exact h.2) hr.1.1 hr.1.2 hr.2
    · by_cases hvy : v = y
      · subst hvy
        have e : zbddSwap x v (.node v hi lo) = .node v hi lo := by
          simp [zbddSwap, swapWith, hvx]
        rw [e]
        have a1 : isAt x hi = false := isAt_false_of_ord h.1.2 (by omega)
        have a2 : isAt x lo = false := isAt_false_of_ord h.2 (by omega)
        simp [zbddSwap, swapWith, rebuild, a1, a2]
      · have i1 := zbddSwap_twice ha hi _ h.1.2 hr.1.2
        have i2 := zbddSwap_twice ha lo _ h.2 hr.2
        unfold zbddSwap at i1 i2 ⊢
        simp only [swapWith, hvx, hvy, if_false]
        rw [i1, i2]

/-- **no semantic duplicates arise**: distinct (ordered, zero-suppressed) diagrams are mapped to
distinct diagrams -/
theorem zbddSwap_injective {pos : Nat → Nat} {x y : Nat} (ha : Adj pos x y) (t u : Z) (n m : Nat)
    (ht : ord pos n t = true) (hu : ord pos m u = true) (rt : red t = true) (ru : red u = true)
    (e : zbddSwap x y t = zbddSwap x y u) : t = u := by
  rw [← zbddSwap_twice ha t n ht rt, ← zbddSwap_twice ha u m hu ru, e]

example : zbddSwap 2 1 (zbddSwap 1 2 exTree) = exTree ∧ zbddSwap 1 2 exTree ≠ exTree := by decide

/-- the code's swap is *not* an involution on families: back and forth turns `0x14` into `0x54` -/
example : table 3 (genericSwap 2 1 (genericSwap 1 2 exTree)) = 0x54 := by decide

end OxiddModel.Reorder.ZbddSwap
