import OxiddModel.Reorder.PropertiesZbddSwapStore

/-!
# The loop of the repaired `level_swap` on a node store establishes `SwapPost`

`zbddSwapStore x y s`: the loop over the nodes of the old upper level (`old_upper.iter()`, here the
ids of the `x`-nodes in increasing order), with the body of `level_swap` + `proposed_fix.diff`:
no child on the lower level → nothing to do (the node only changes tables); else the four
grand-cofactors `cofE` (zero-suppressed reading), `reduce` + unique-table lookup + allocation
(`mkE`: `hi = ∅ ⇒ lo`; an existing node with these children; else a fresh slot), `set_child` in
place (`St.set`). No reference counts, no level tables as separate objects (the lookup searches
the whole store by content: a node `(x, p, q)` with `p`, `q` below both levels can only be a node of
the new lower table), no orphan removal (dead nodes stay, which `SwapPost` allows).

`zbddSwapStore_post`: for every store in which the children of `x`-nodes are existing nodes of
other variables and the children of `y`-nodes do not sit on `y` (both follow from the order
invariant), the loop establishes `SwapPost`; hence (`zbddSwapStore_family`) every edge keeps its
family after the loop.
-/
namespace OxiddModel.Reorder.ZbddSwap

structure St where
  get : Store
  next : Nat

def St.set (s : St) (i : Nat) (n : SNode) : St :=
  { s with get := fun j => if j = i then some n else s.get j }

/-- unique-table lookup by content -/
def findNode (s : St) (n : SNode) : Option Nat :=
  (List.range s.next).find? (fun k => decide (s.get k = some n))

/-- `reduce(x, [p, q])`, then `old_upper.get` / `lower.get_or_insert` -/
def mkE (s : St) (x : Nat) (p q : Edge) : St × Edge :=
  if p = .empty then (s, q)
  else match findNode s ⟨x, p, q⟩ with
    | some k => (s, .ref k)
    | none =>
      ({ get := fun j => if j = s.next then some ⟨x, p, q⟩ else s.get j, next := s.next + 1 },
        .ref s.next)

/-- the loop body for the node in slot `i` -/
def stepNode (y : Nat) (s : St) (i : Nat) : St :=
  match s.get i with
  | none => s
  | some n =>
    if !atE s.get y n.hi && !atE s.get y n.lo then s
    else
      let c1 := cofE s.get y n.hi
      let c2 := cofE s.get y n.lo
      let r1 := mkE s n.v c1.1 c2.1
      let r2 := mkE r1.1 n.v c1.2 c2.2
      r2.1.set i ⟨y, r1.2, r2.2⟩

def isVar (s : St) (x : Nat) (i : Nat) : Bool :=
  match s.get i with
  | some n => decide (n.v = x)
  | none => false

def zbddSwapStore (x y : Nat) (s : St) : St :=
  ((List.range s.next).filter (isVar s x)).foldl (stepNode y) s

/-- slots from `next` on are free -/
def Fresh (s : St) : Prop := ∀ k, s.next ≤ k → s.get k = none

theorem lt_of_get {s : St} (hf : Fresh s) {k : Nat} {n : SNode} (h : s.get k = some n) : k < s.next := by
  apply Classical.byContradiction
  intro hk
  rw [hf k (by omega)] at h; cases h

theorem findNode_some {s : St} {n : SNode} {k : Nat} (h : findNode s n = some k) : s.get k = some n := by
  unfold findNode at h
  have := List.find?_some h
  simpa using this

theorem mkE_spec {s : St} (hf : Fresh s) (x : Nat) (p q : Edge) :
    IsMk (mkE s x p q).1.get x p q (mkE s x p q).2 ∧ Fresh (mkE s x p q).1 ∧
    s.next ≤ (mkE s x p q).1.next ∧ ∀ j, j < s.next → (mkE s x p q).1.get j = s.get j := by
  unfold mkE IsMk
  by_cases hp : p = .empty
  · rw [if_pos hp, if_pos hp]; exact ⟨rfl, hf, Nat.le_refl _, fun _ _ => rfl⟩
  · simp only [hp, if_false]
    cases hfn : findNode s ⟨x, p, q⟩ with
    | some k => exact ⟨⟨k, rfl, findNode_some hfn⟩, hf, Nat.le_refl _, fun _ _ => rfl⟩
    | none =>
      refine ⟨⟨s.next, rfl, by simp⟩, ?_, by simp, ?_⟩
      · intro k hk
        simp only at hk ⊢
        rw [if_neg (by omega)]; exact hf k (by omega)
      · intro j hj
        simp only
        rw [if_neg (by omega)]

/-- the children of `x`-nodes are terminals or existing nodes of other variables -/
def NotX (st : Store) (x : Nat) : Edge → Prop
  | .ref j => ∃ n, st j = some n ∧ n.v ≠ x
  | _ => True

structure WFxy (st : Store) (x y : Nat) : Prop where
  wfx : ∀ i hi lo, st i = some ⟨x, hi, lo⟩ → NotX st x hi ∧ NotX st x lo
  wfy : ∀ j n, st j = some n → n.v = y → atE st y n.hi = false ∧ atE st y n.lo = false

theorem cofE_not_at {st : Store} {x y : Nat} (hw : WFxy st x y) (e : Edge) :
    atE st y (cofE st y e).1 = false ∧ atE st y (cofE st y e).2 = false := by
  cases e with
  | empty => exact ⟨rfl, rfl⟩
  | base => exact ⟨rfl, rfl⟩
  | ref j =>
    cases hj : st j with
    | none => simp [cofE, atE, hj]
    | some n =>
      by_cases hv : n.v = y
      · simp only [cofE, hj, hv, if_true]; exact hw.wfy j n hj hv
      · simp [cofE, atE, hj, hv]

structure Inv (s0 : St) (x y : Nat) (todo : List Nat) (cur : St) : Prop where
  fresh : Fresh cur
  keep : ∀ i n, s0.get i = some n → n.v ≠ x → cur.get i = some n
  pend : ∀ i, i ∈ todo → cur.get i = s0.get i
  moved : ∀ i hi lo, s0.get i = some ⟨x, hi, lo⟩ → atE s0.get y hi = false → atE s0.get y lo = false →
    cur.get i = some ⟨x, hi, lo⟩
  done : ∀ i hi lo, s0.get i = some ⟨x, hi, lo⟩ → (atE s0.get y hi || atE s0.get y lo) = true → i ∉ todo →
    ∃ a b, cur.get i = some ⟨y, a, b⟩ ∧
      IsMk cur.get x (cofE s0.get y hi).1 (cofE s0.get y lo).1 a ∧
      IsMk cur.get x (cofE s0.get y hi).2 (cofE s0.get y lo).2 b

theorem agree {s0 cur : St} {x y : Nat} {todo : List Nat} (hi : Inv s0 x y todo cur) {e : Edge}
    (he : NotX s0.get x e) : atE cur.get y e = atE s0.get y e ∧ cofE cur.get y e = cofE s0.get y e := by
  cases e with
  | empty => exact ⟨rfl, rfl⟩
  | base => exact ⟨rfl, rfl⟩
  | ref j =>
    obtain ⟨n, hn, hv⟩ := he
    have := hi.keep j n hn hv
    simp [atE, cofE, this, hn]

/-- `IsMk` survives a change of the store that keeps the witness slot -/
theorem IsMk_mono {st st' : Store} {x : Nat} {p q a : Edge} (h : IsMk st x p q a)
    (hk : ∀ k, st k = some ⟨x, p, q⟩ → st' k = some ⟨x, p, q⟩) : IsMk st' x p q a := by
  unfold IsMk at h ⊢
  by_cases hp : p = .empty
  · simpa [hp] using h
  · simp only [hp, if_false] at h ⊢
    obtain ⟨k, rfl, hk'⟩ := h
    exact ⟨k, rfl, hk k hk'⟩

theorem step_inv {s0 : St} {x y : Nat} (hw : WFxy s0.get x y) {i : Nat} {todo : List Nat} {cur : St}
    (hnd : i ∉ todo) (hix : isVar s0 x i = true) (htodo : ∀ j, j ∈ todo → isVar s0 x j = true)
    (hI : Inv s0 x y (i :: todo) cur) :
    Inv s0 x y todo (stepNode y cur i) := by
  have hci := hI.pend i (List.mem_cons_self)
  unfold isVar at hix
  cases h0 : s0.get i with
  | none => simp [h0] at hix
  | some n0 =>
    obtain ⟨v, hi, lo⟩ := n0
    simp only [h0, decide_eq_true_eq] at hix
    subst hix
    rw [h0] at hci
    obtain ⟨nh, nl⟩ := hw.wfx i hi lo h0
    obtain ⟨ah, ch⟩ := agree hI nh
    obtain ⟨al, cl⟩ := agree hI nl
    unfold stepNode
    simp only [hci, ah, al, ch, cl]
    by_cases hmv : (!atE s0.get y hi && !atE s0.get y lo) = true
    · -- moved
      rw [if_pos hmv]
      simp only [Bool.and_eq_true, Bool.not_eq_true'] at hmv
      refine ⟨hI.fresh, hI.keep, fun j hj => hI.pend j (List.mem_cons_of_mem _ hj), hI.moved, ?_⟩
      intro j hj lj hsj hat hjn
      by_cases hji : j = i
      · subst hji; rw [h0] at hsj; cases hsj; simp [hmv.1, hmv.2] at hat
      · exact hI.done j hj lj hsj hat (by simp [hji, hjn])
    · rw [if_neg hmv]
      have hat : (atE s0.get y hi || atE s0.get y lo) = true := by
        cases h1 : atE s0.get y hi <;> cases h2 : atE s0.get y lo <;> simp [h1, h2] at hmv ⊢
      -- the two reductions
      obtain ⟨m1, f1, n1, g1⟩ := mkE_spec hI.fresh v (cofE s0.get y hi).1 (cofE s0.get y lo).1
      generalize hr1 : mkE cur v (cofE s0.get y hi).1 (cofE s0.get y lo).1 = r1 at m1 f1 n1 g1 ⊢
      obtain ⟨m2, f2, n2, g2⟩ := mkE_spec f1 v (cofE s0.get y hi).2 (cofE s0.get y lo).2
      generalize hr2 : mkE r1.1 v (cofE s0.get y hi).2 (cofE s0.get y lo).2 = r2 at m2 f2 n2 g2 ⊢
      have ilt : i < cur.next := lt_of_get hI.fresh hci
      -- slots below `cur.next` other than `i` are as in `cur`
      have same : ∀ j, j ≠ i → j < cur.next → (r2.1.set i ⟨y, r1.2, r2.2⟩).get j = cur.get j := by
        intro j hji hj
        simp only [St.set, if_neg hji]
        rw [g2 j (by omega), g1 j hj]
      -- a node `(v, p, q)` made of cofactors is never the slot `i`
      have notI : ∀ (e1 e2 : Edge) (st : Store), st i = some ⟨v, hi, lo⟩ →
          ∀ k, st k = some ⟨v, (cofE s0.get y e1).1, (cofE s0.get y e2).1⟩ ∨
               st k = some ⟨v, (cofE s0.get y e1).2, (cofE s0.get y e2).2⟩ → k ≠ i := by
        intro e1 e2 st hst k hk hki
        subst hki
        rw [hst] at hk
        have c1 := cofE_not_at hw e1
        have c2 := cofE_not_at hw e2
        rcases hk with hk | hk <;> cases hk
        · rw [c1.1, c2.1] at hat; cases hat
        · rw [c1.2, c2.2] at hat; cases hat
      have r2i : r2.1.get i = some ⟨v, hi, lo⟩ := by rw [g2 i (by omega), g1 i ilt]; exact hci
      have r1i : r1.1.get i = some ⟨v, hi, lo⟩ := by rw [g1 i ilt]; exact hci
      refine ⟨?_, ?_, ?_, ?_, ?_⟩
      · intro k hk
        simp only [St.set] at hk ⊢
        rw [if_neg (by omega)]; exact f2 k hk
      · intro j n hj hv
        have hji : j ≠ i := by intro e; subst e; rw [h0] at hj; cases hj; exact hv rfl
        have := hI.keep j n hj hv
        rw [same j hji (lt_of_get hI.fresh this)]; exact this
      · intro j hj
        have hji : j ≠ i := by intro e; subst e; exact hnd hj
        have hp := hI.pend j (List.mem_cons_of_mem _ hj)
        have hsome : ∃ nj, cur.get j = some nj := by
          have := htodo j hj
          unfold isVar at this
          cases h : s0.get j with
          | none => simp [h] at this
          | some nj => exact ⟨nj, by rw [hp, h]⟩
        obtain ⟨nj, hcj⟩ := hsome
        rw [same j hji (lt_of_get hI.fresh hcj)]; exact hp
      · intro j hj lj hsj a1 a2
        have hji : j ≠ i := by
          intro e; subst e; rw [h0] at hsj; cases hsj; rw [a1, a2] at hat; cases hat
        have := hI.moved j hj lj hsj a1 a2
        rw [same j hji (lt_of_get hI.fresh this)]; exact this
      · intro j hj lj hsj hatj hjn
        by_cases hji : j = i
        · subst hji
          rw [h0] at hsj; cases hsj
          refine ⟨r1.2, r2.2, by simp [St.set], ?_, ?_⟩
          · apply IsMk_mono m1
            intro k hk
            have hki := notI hi lo r1.1.get r1i k (Or.inl hk)
            simp only [St.set, if_neg hki]
            rw [g2 k (lt_of_get f1 hk)]; exact hk
          · apply IsMk_mono m2
            intro k hk
            have hki := notI hi lo r2.1.get r2i k (Or.inr hk)
            simp only [St.set, if_neg hki]; exact hk
        · obtain ⟨a, b, hab, ma, mb⟩ := hI.done j hj lj hsj hatj (by simp [hji, hjn])
          refine ⟨a, b, ?_, ?_, ?_⟩
          · rw [same j hji (lt_of_get hI.fresh hab)]; exact hab
          · apply IsMk_mono ma
            intro k hk
            have hki := notI hj lj cur.get hci k (Or.inl hk)
            rw [same k hki (lt_of_get hI.fresh hk)]; exact hk
          · apply IsMk_mono mb
            intro k hk
            have hki := notI hj lj cur.get hci k (Or.inr hk)
            rw [same k hki (lt_of_get hI.fresh hk)]; exact hk

theorem loop_inv {s0 : St} {x y : Nat} (hw : WFxy s0.get x y) :
    ∀ (todo : List Nat) (cur : St), todo.Nodup → (∀ j, j ∈ todo → isVar s0 x j = true) →
      Inv s0 x y todo cur → Inv s0 x y [] (todo.foldl (stepNode y) cur)
  | [], _, _, _, h => h
  | i :: todo, cur, hnd, hv, h => by
    rw [List.nodup_cons] at hnd
    rw [List.foldl_cons]
    exact loop_inv hw todo _ hnd.2 (fun j hj => hv j (List.mem_cons_of_mem _ hj))
      (step_inv hw hnd.1 (hv i List.mem_cons_self) (fun j hj => hv j (List.mem_cons_of_mem _ hj)) h)

theorem init_inv {s0 : St} (hf : Fresh s0) (x y : Nat) :
    Inv s0 x y ((List.range s0.next).filter (isVar s0 x)) s0 := by
  refine ⟨hf, fun _ _ h _ => h, fun _ _ => rfl, fun _ _ _ h _ _ => h, ?_⟩
  intro i hi lo hs _ hni
  exfalso; apply hni
  rw [List.mem_filter, List.mem_range]
  exact ⟨lt_of_get hf hs, by simp [isVar, hs]⟩

/-- **the loop establishes the per-node postcondition** -/
theorem zbddSwapStore_post {s : St} {x y : Nat} (hf : Fresh s) (hw : WFxy s.get x y) :
    SwapPost s.get (zbddSwapStore x y s).get x y := by
  have hI : Inv s x y [] (zbddSwapStore x y s) :=
    loop_inv hw _ s ((List.nodup_range).sublist List.filter_sublist)
      (fun j hj => (List.mem_filter.1 hj).2) (init_inv hf x y)
  exact ⟨hI.keep, hI.moved, fun i hi lo hs hat => hI.done i hi lo hs hat (by simp)⟩

/-- **C08/C09 for the repaired swap on the node store**: after the loop, every edge of the store
(handle or inner edge, live or dead) that unfolded to an ordered diagram unfolds to a diagram with
the same family — which is moreover ordered w.r.t. the swapped order and zero-suppressed if the old
one was, and equal to the repaired diagram-level swap of the old one. -/
theorem zbddSwapStore_family {pos : Nat → Nat} {x y : Nat} (ha : Adj pos x y) {s : St} (hf : Fresh s)
    (hw : WFxy s.get x y) {e : Edge} {t : Z} (h : Den s.get e t) (n : Nat) (ho : ord pos n t = true) :
    Den (zbddSwapStore x y s).get e (zbddSwap x y t) ∧ ∀ u, mem (zbddSwap x y t) u = mem t u :=
  ⟨store_swap_den ha (zbddSwapStore_post hf hw) h n ho, zbddSwap_preserves_family ha t n ho⟩

/-- the order invariant of the store: every child edge is a terminal or an existing node on a
strictly lower level -/
def StoreOrd (pos : Nat → Nat) (st : Store) : Prop :=
  ∀ i n, st i = some n → ∀ c, (c = n.hi ∨ c = n.lo) →
    match c with
    | .ref j => ∃ m, st j = some m ∧ pos n.v < pos m.v
    | _ => True

/-- the side condition of the loop theorem follows from the order invariant -/
theorem WFxy_of_StoreOrd {pos : Nat → Nat} {st : Store} (h : StoreOrd pos st) (x y : Nat) : WFxy st x y := by
  have key : ∀ i n, st i = some n → ∀ c, (c = n.hi ∨ c = n.lo) → NotX st n.v c ∧ atE st n.v c = false := by
    intro i n hn c hc
    have := h i n hn c hc
    cases c with
    | empty => exact ⟨trivial, rfl⟩
    | base => exact ⟨trivial, rfl⟩
    | ref j =>
      obtain ⟨m, hm, hlt⟩ := this
      have hne : m.v ≠ n.v := by intro e; rw [e] at hlt; omega
      exact ⟨⟨m, hm, hne⟩, by simp [atE, hm, hne]⟩
  refine ⟨?_, ?_⟩
  · intro i hi lo hs
    exact ⟨(key i _ hs hi (Or.inl rfl)).1, (key i _ hs lo (Or.inr rfl)).1⟩
  · intro j n hn hv
    subst hv
    exact ⟨(key j n hn n.hi (Or.inl rfl)).2, (key j n hn n.lo (Or.inr rfl)).2⟩

/-- **C08/C09 on the node store, from the order invariant** -/
theorem zbddSwapStore_correct {pos : Nat → Nat} {x y : Nat} (ha : Adj pos x y) {s : St} (hf : Fresh s)
    (hord : StoreOrd pos s.get) {e : Edge} {t : Z} (h : Den s.get e t) (n : Nat) (hn : n ≤ pos x)
    (ho : ord pos n t = true) (hr : red t = true) :
    ∃ t', Den (zbddSwapStore x y s).get e t' ∧ (∀ u, mem t' u = mem t u) ∧
      ord (swapPos pos x y) n t' = true ∧ red t' = true :=
  ⟨_, (zbddSwapStore_family ha hf (WFxy_of_StoreOrd hord x y) h n ho).1,
    zbddSwap_preserves_family ha t n ho, zbddSwap_ordered ha t n hn ho, zbddSwap_reduced x y t hr⟩

/-! ## non-vacuity: the loop on the two-node witness -/

def exSt : St := ⟨exStore, 2⟩

example : (zbddSwapStore 0 1 exSt).next = 3 ∧
    (zbddSwapStore 0 1 exSt).get 0 = some ⟨1, .base, .empty⟩ ∧
    (zbddSwapStore 0 1 exSt).get 1 = some ⟨1, .base, .ref 2⟩ ∧
    (zbddSwapStore 0 1 exSt).get 2 = some ⟨0, .base, .empty⟩ := by decide

example : Fresh exSt := by
  intro k hk
  have h0 : k ≠ 0 := by intro e; subst e; simp [exSt] at hk
  have h1 : k ≠ 1 := by intro e; subst e; simp [exSt] at hk
  simp [exSt, exStore, h0, h1]

example : WFxy exSt.get 0 1 := by
  refine ⟨?_, ?_⟩
  · intro i hi lo h
    by_cases h0 : i = 0
    · subst h0; simp [exSt, exStore] at h
    · by_cases h1 : i = 1
      · subst h1; simp [exSt, exStore] at h; obtain ⟨rfl, rfl⟩ := h
        exact ⟨trivial, ⟨⟨1, .base, .empty⟩, rfl, by decide⟩⟩
      · simp [exSt, exStore, h0, h1] at h
  · intro j n h hv
    by_cases h0 : j = 0
    · subst h0; simp [exSt, exStore] at h; subst h; exact ⟨rfl, rfl⟩
    · by_cases h1 : j = 1
      · subst h1; simp [exSt, exStore] at h; subst h; simp at hv
      · simp [exSt, exStore, h0, h1] at h

example : StoreOrd id exSt.get := by
  intro i n h c hc
  by_cases h0 : i = 0
  · subst h0; simp [exSt, exStore] at h; subst h
    rcases hc with rfl | rfl <;> trivial
  · by_cases h1 : i = 1
    · subst h1; simp [exSt, exStore] at h; subst h
      rcases hc with rfl | rfl
      · trivial
      · exact ⟨⟨1, .base, .empty⟩, rfl, by decide⟩
    · simp [exSt, exStore, h0, h1] at h

end OxiddModel.Reorder.ZbddSwap
